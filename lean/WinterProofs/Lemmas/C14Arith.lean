-- C14 helper lemmas: the index arithmetic of the concurrent routines — `next_power_of_two`, `par_chunks_mut`,
-- `batch_iter_mut!`, fragments, transposition batches: disjoint ∧ covering ∧ within bounds for all lengths and
-- all thread counts (core Lean only)
import Winter.Model.Parallel
import WinterProofs.Lemmas.C09Permute

namespace WinterProofs.C14
open Model.Parallel
open Model.Fft (brev permuteIndex isPow2)

/-! ### `next_power_of_two` -/

theorem nextPow2_isPow (n : Nat) : ∃ k, nextPow2 n = 2 ^ k := by
  unfold nextPow2
  split
  · exact ⟨0, rfl⟩
  · exact ⟨_, rfl⟩

theorem nextPow2_pos (n : Nat) : 0 < nextPow2 n := by
  obtain ⟨k, hk⟩ := nextPow2_isPow n
  rw [hk]; exact Nat.two_pow_pos k

theorem le_nextPow2 (n : Nat) : n ≤ nextPow2 n := by
  unfold nextPow2
  split
  · omega
  · have := @Nat.lt_log2_self (n - 1)
    omega

theorem nextPow2_lt_two_mul (n : Nat) (h : 1 ≤ n) : nextPow2 n < 2 * n := by
  unfold nextPow2
  split
  · omega
  · have := Nat.log2_self_le (n := n - 1) (by omega)
    rw [Nat.pow_succ]
    omega

example : nextPow2 0 = 1 ∧ nextPow2 1 = 1 ∧ nextPow2 3 = 4 ∧ nextPow2 33 = 64 ∧ nextPow2 64 = 64 ∧ nextPow2 65 = 128 := by
  decide

/-! ### powers of two -/

theorem min_two_pow (x y : Nat) : min (2 ^ x) (2 ^ y) = 2 ^ min x y := by
  rcases Nat.le_total x y with h | h
  · rw [Nat.min_eq_left h, Nat.min_eq_left (Nat.pow_le_pow_right (by decide) h)]
  · rw [Nat.min_eq_right h, Nat.min_eq_right (Nat.pow_le_pow_right (by decide) h)]

theorem two_pow_div (a b : Nat) (h : b ≤ a) : 2 ^ a / 2 ^ b = 2 ^ (a - b) := Nat.pow_div h (by decide)

theorem two_pow_split (a b : Nat) (h : b ≤ a) : 2 ^ b * 2 ^ (a - b) = 2 ^ a := by
  rw [← Nat.pow_add]; congr 1; omega

/-! ### `par_chunks_mut` -/

theorem lt_numChunks_iff (len size k : Nat) (hs : 0 < size) : k < numChunks len size ↔ k * size < len := by
  unfold numChunks
  rw [Nat.lt_iff_add_one_le, Nat.le_div_iff_mul_le hs, Nat.add_mul]
  omega

/-- exact division: `k` chunks of `size` elements -/
theorem numChunks_exact (size k : Nat) (hs : 0 < size) : numChunks (k * size) size = k := by
  have h1 := (lt_numChunks_iff (k * size) size k hs)
  have h2 : ∀ j, j < numChunks (k * size) size ↔ j < k := by
    intro j
    rw [lt_numChunks_iff _ _ _ hs]
    exact Nat.mul_lt_mul_right hs
  have := h2 (numChunks (k * size) size)
  have := h2 k
  omega

/-- the batches (offset, length) are inside `[0, len)`, cover it and are pairwise disjoint (listed in index order) -/
structure Partition (l : List (Nat × Nat)) (len : Nat) : Prop where
  /-- every batch lies inside the slice -/
  bounds : ∀ p ∈ l, p.1 + p.2 ≤ len
  /-- every index of the slice lies in some batch -/
  cover : ∀ i, i < len → ∃ p ∈ l, p.1 ≤ i ∧ i < p.1 + p.2
  /-- the batches are pairwise disjoint -/
  disjoint : l.Pairwise (fun p q => p.1 + p.2 ≤ q.1)

theorem partition_single (len : Nat) : Partition [(0, len)] len :=
  ⟨by simp, fun i hi => ⟨(0, len), by simp, by simp, by simpa using hi⟩, by simp⟩

/-- `par_chunks_mut(size)`, `size > 0`: the chunks partition the slice, chunk `i` starts at `i * size`, only the
    last one can be shorter than `size`, none is empty -/
theorem chunks_partition (len size : Nat) (hs : 0 < size) :
    ∃ l, chunks len size = some l ∧ Partition l len ∧ l.length = numChunks len size ∧
      (∀ i (h : i < l.length), l[i] = (i * size, min size (len - i * size))) ∧ (∀ p ∈ l, 0 < p.2) := by
  refine ⟨(List.range (numChunks len size)).map (chunk len size), by simp [chunks, Nat.ne_of_gt hs], ?_, by simp, ?_, ?_⟩
  · constructor
    · intro p hp
      obtain ⟨k, hk, rfl⟩ := List.mem_map.mp hp
      have hk' := (lt_numChunks_iff len size k hs).mp (List.mem_range.mp hk)
      simp only [chunk]; omega
    · intro i hi
      have hk : i / size < numChunks len size := by
        rw [lt_numChunks_iff len size _ hs]
        have := Nat.div_mul_le_self i size
        omega
      refine ⟨chunk len size (i / size), List.mem_map.mpr ⟨_, List.mem_range.mpr hk, rfl⟩, ?_, ?_⟩
      · simp only [chunk]; exact Nat.div_mul_le_self i size
      · simp only [chunk]
        have h1 := Nat.div_mul_le_self i size
        have h2 : i < (i / size) * size + size := by
          have := Nat.lt_div_mul_add (a := i) (b := size) hs
          simpa [Nat.mul_comm] using this
        omega
    · rw [List.pairwise_map]
      refine List.Pairwise.imp ?_ (List.pairwise_lt_range)
      intro a b hab
      simp only [chunk]
      have : (a + 1) * size ≤ b * size := Nat.mul_le_mul_right _ hab
      rw [Nat.add_mul] at this
      omega
  · intro i h
    simp [chunk]
  · intro p hp
    obtain ⟨k, hk, rfl⟩ := List.mem_map.mp hp
    have hk' := (lt_numChunks_iff len size k hs).mp (List.mem_range.mp hk)
    simp only [chunk]; omega

/-- when `size` divides the length all `k` chunks are full -/
theorem chunks_exact (size k : Nat) (hs : 0 < size) :
    ∃ l, chunks (k * size) size = some l ∧ Partition l (k * size) ∧ l.length = k ∧
      ∀ i (h : i < l.length), l[i] = (i * size, size) := by
  obtain ⟨l, h1, h2, h3, h4, _⟩ := chunks_partition (k * size) size hs
  rw [numChunks_exact size k hs] at h3
  refine ⟨l, h1, h2, h3, ?_⟩
  intro i h
  rw [h4 i h]
  have : (i + 1) * size ≤ k * size := Nat.mul_le_mul_right _ (by omega)
  rw [Nat.add_mul] at this
  congr 1
  omega

/-! ### `batch_iter_mut!` -/

/-- (2) `batch_iter_mut!`: for EVERY length, every minimum batch size ≥ 1 (or the two-argument form) and every
    thread count the batches handed to the closure partition the slice, and the offset handed over with batch `i` is
    `i * (len / threads.next_power_of_two())` — its true position -/
theorem batchIterMut_partition (len : Nat) (min : Option Nat) (threads : Nat) (hmin : min ≠ some 0) :
    ∃ l, batchIterMut len min threads = some l ∧ Partition l len ∧
      ∀ i (h : i < l.length), (l[i]).1 = i * (len / nextPow2 threads) := by
  unfold batchIterMut
  simp only
  split
  · refine ⟨[(0, len)], rfl, partition_single len, ?_⟩
    intro i h
    have : i = 0 := by simpa using h
    subst this; simp
  · rename_i hbs
    have hpos : 0 < len / nextPow2 threads := by
      cases min with
      | none => simp only [Option.getD] at hbs; omega
      | some m =>
        have : m ≠ 0 := fun h => hmin (by rw [h])
        simp only [Option.getD] at hbs; omega
    obtain ⟨l, h1, h2, _, h4, _⟩ := chunks_partition len (len / nextPow2 threads) hpos
    exact ⟨l, h1, h2, fun i h => by rw [h4 i h]⟩

/-- the guard of the three-argument form is `batch_size < min`: with a minimum of 0 and fewer elements than
    `next_power_of_two(threads)` the macro calls `par_chunks_mut(0)`, which panics -/
theorem batchIterMut_min_zero_panics : batchIterMut 1 (some 0) 2 = none := by decide

example : batchIterMut 5000 (some 1024) 3 = some [(0, 1250), (1250, 1250), (2500, 1250), (3750, 1250)] := by decide
example : batchIterMut 4099 none 3 = some [(0, 1024), (1024, 1024), (2048, 1024), (3072, 1024), (4096, 3)] := by decide
example : batchIterMut 5000 (some 1024) 5 = some [(0, 5000)] := by decide

/-! ### fragments -/

/-- `ConstraintEvaluationTable::fragments(2^b)` on `2^a` rows with at least 16 rows per fragment: `2^b` fragments of
    `2^(a-b)` rows, fragment `i` at offset `i * 2^(a-b)`; they partition the table -/
theorem evalFragments_partition (a b : Nat) (h : b + 4 ≤ a) :
    ∃ l, evalFragments (2 ^ a) (2 ^ b) = some l ∧ Partition l (2 ^ a) ∧ l.length = 2 ^ b ∧
      ∀ i (h : i < l.length), l[i] = (i * 2 ^ (a - b), 2 ^ (a - b)) := by
  have hb : b ≤ a := by omega
  have hdiv : 2 ^ a / 2 ^ b = 2 ^ (a - b) := two_pow_div a b hb
  have hsplit : 2 ^ b * 2 ^ (a - b) = 2 ^ a := two_pow_split a b hb
  have hpos : 0 < 2 ^ (a - b) := Nat.two_pow_pos _
  have h16 : 16 ≤ 2 ^ (a - b) := by
    have : (2 : Nat) ^ 4 ≤ 2 ^ (a - b) := Nat.pow_le_pow_right (by decide) (by omega)
    simpa using this
  obtain ⟨l, h1, h2, h3, h4⟩ := chunks_exact (2 ^ (a - b)) (2 ^ b) hpos
  rw [hsplit] at h1 h2
  refine ⟨l, ?_, h2, h3, h4⟩
  unfold evalFragments
  have hk : (2 : Nat) ^ b ≠ 0 := Nat.ne_of_gt (Nat.two_pow_pos b)
  have hnc : numChunks (2 ^ a) (2 ^ (a - b)) = 2 ^ b := by
    rw [← hsplit]; exact numChunks_exact _ _ hpos
  simp only [hk, ↓reduceIte, hdiv, hnc]
  have : ¬ 2 ^ (a - b) < 16 := by omega
  simp [this, h1]

/-- the evaluator's choice of the number of fragments always satisfies the table's assertion: for every
    constraint-evaluation domain `2^a ≥ 16` and EVERY thread count the fragments partition the table -/
theorem evaluator_fragments_partition (a threads : Nat) (ha : 4 ≤ a) :
    ∃ l, evalFragments (2 ^ a) (numFragments (2 ^ a) threads) = some l ∧ Partition l (2 ^ a) ∧
      l.length = numFragments (2 ^ a) threads ∧
      ∀ i (h : i < l.length), l[i] = (i * (2 ^ a / l.length), 2 ^ a / l.length) := by
  obtain ⟨c, hc⟩ := nextPow2_isPow threads
  have h16 : 2 ^ a / 16 = 2 ^ (a - 4) := two_pow_div a 4 ha
  have key : ∃ b, numFragments (2 ^ a) threads = 2 ^ b ∧ b + 4 ≤ a := by
    unfold numFragments
    split
    · refine ⟨min c (a - 4), ?_, by omega⟩
      rw [hc, h16, min_two_pow]
    · exact ⟨0, rfl, by omega⟩
  obtain ⟨b, hb, hba⟩ := key
  obtain ⟨l, h1, h2, h3, h4⟩ := evalFragments_partition a b hba
  rw [hb]
  refine ⟨l, h1, h2, h3, ?_⟩
  intro i h
  rw [h4 i h, h3, two_pow_div a b (by omega)]

example : evalFragments 8192 (numFragments 8192 3) = some [(0, 2048), (2048, 2048), (4096, 2048), (6144, 2048)] := by
  decide
/-- before the repair (3ea97cd) the evaluator asked for `next_power_of_two(threads)` fragments whatever the domain -/
example : evalFragments 8192 (nextPow2 600) = none := by decide

/-- `TraceTable::fragments(2^b)` on a trace of `2^a ≥ 8` rows, `2 ≤ 2^b ≤ 2^a`: `2^(a-b)` fragments
    (index, offset = index * 2^b, length 2^b) -/
theorem traceFragments_eq (a b : Nat) (ha : 3 ≤ a) (hb1 : 1 ≤ b) (hb : b ≤ a) :
    traceFragments (2 ^ a) (2 ^ b) = some ((List.range (2 ^ (a - b))).map (fun i => (i, i * 2 ^ b, 2 ^ b))) := by
  unfold traceFragments
  have h8 : ¬ (2 : Nat) ^ a < 8 := by
    have : (2 : Nat) ^ 3 ≤ 2 ^ a := Nat.pow_le_pow_right (by decide) ha
    omega
  have h2 : ¬ (2 : Nat) ^ b < 2 := by
    have : (2 : Nat) ^ 1 ≤ 2 ^ b := Nat.pow_le_pow_right (by decide) hb1
    omega
  have hle : ¬ (2 : Nat) ^ b > 2 ^ a := by
    have := Nat.pow_le_pow_right (n := 2) (by decide) hb
    omega
  simp [h8, h2, hle, WinterProofs.C09.isPow2_two_pow, two_pow_div a b hb]

/-- the trace fragments as (offset, length) batches partition the rows -/
theorem traceFragments_partition (a b : Nat) (hb : b ≤ a) :
    Partition ((List.range (2 ^ (a - b))).map (fun i => (i * 2 ^ b, 2 ^ b))) (2 ^ a) := by
  obtain ⟨l, h1, h2, h3, h4⟩ := chunks_exact (2 ^ b) (2 ^ (a - b)) (Nat.two_pow_pos b)
  have hs : 2 ^ (a - b) * 2 ^ b = 2 ^ a := by rw [Nat.mul_comm]; exact two_pow_split a b hb
  rw [hs] at h2
  have : l = (List.range (2 ^ (a - b))).map (fun i => (i * 2 ^ b, 2 ^ b)) := by
    apply List.ext_getElem
    · simp [h3]
    · intro i hi1 hi2
      rw [h4 i hi1]; simp
  rw [← this]; exact h2

/-! ### transposition batches of `RowMatrix` -/

/-- `transpose`: for `2^a` rows, any number of segments and any thread count there is a whole number (≥ 1) of rows
    per batch and the batches account for all rows; batch `b` is the chunk `[b * rpb * numSegs, (b+1) * rpb * numSegs)`
    of the result, i.e. exactly the cells `(row, segment)` of its rows -/
theorem transposeBatches_exact (a numSegs threads : Nat) :
    let r := transposeBatches (2 ^ a) numSegs threads
    1 ≤ r.2 ∧ r.1 * r.2 = 2 ^ a ∧ 2 ^ a * numSegs / r.1 = r.2 * numSegs := by
  obtain ⟨c, hc⟩ := nextPow2_isPow threads
  unfold transposeBatches
  simp only
  split
  · have := Nat.two_pow_pos a
    simp; omega
  · have h2 : nextPow2 threads * 2 = 2 ^ (c + 1) := by rw [hc, Nat.pow_succ]
    rw [h2, min_two_pow]
    have hle : min (c + 1) a ≤ a := Nat.min_le_right _ _
    rw [two_pow_div a _ hle]
    refine ⟨Nat.two_pow_pos _, two_pow_split a _ hle, ?_⟩
    rw [← two_pow_split a _ hle, Nat.mul_assoc, Nat.mul_div_cancel_left _ (Nat.two_pow_pos _)]

/-- the defect repaired by e78f1bb: without the clamp `min(·, num_rows)` 64 rows in 17 segments on 33 threads gave
    0 rows per batch (nothing transposed) -/
example : 64 / (nextPow2 33 * 2) = 0 ∧ (transposeBatches 64 17 33) = (64, 1) := by decide

end WinterProofs.C14
