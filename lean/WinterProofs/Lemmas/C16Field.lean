-- C16, field side: roots of unity, X^n - 1 as a product over the trace domain, and the model's
-- divisor evaluation over a Mathlib field.
import Mathlib.RingTheory.RootsOfUnity.PrimitiveRoots
import Winter.Model.Divisor

namespace WinterProofs.C16L
open Polynomial Model.Divisor

/-- the model's operation record instantiated with a Mathlib field; `root` is the family of roots
    of unity the code would obtain from `get_root_of_unity` -/
def fieldOps (F : Type) [Field F] (root : ℕ → Option F) : Ops F where
  zero := 0
  one := 1
  add := (· + ·)
  sub := (· - ·)
  mul := (· * ·)
  pow := (· ^ ·)
  div := fun a b => some (a / b)
  ofNat := fun n => (n : F)
  root := root

variable {F : Type} [Field F]

-- ------------------------------------------------------------------ X^n - 1 over the trace domain
theorem X_pow_sub_one_eq_prod_range {g : F} {n : ℕ} (hn : 0 < n) (hg : IsPrimitiveRoot g n) :
    (X ^ n - 1 : F[X]) = ∏ i ∈ Finset.range n, (X - C (g ^ i)) := by
  have hmonic : (X ^ n - C (1 : F)).Monic := monic_X_pow_sub_C (1 : F) hn.ne'
  have hroots : (X ^ n - C (1 : F)).roots = (Multiset.range n).map (fun i => g ^ i) := by
    have := hg.nthRoots_eq (α := 1) (a := 1) (one_pow n)
    simpa [nthRoots] using this
  have h := prod_multiset_X_sub_C_of_monic_of_roots_card_eq hmonic
    (by rw [hroots, natDegree_X_pow_sub_C]; simp)
  rw [hroots] at h
  rw [Multiset.map_map] at h
  simpa [Finset.prod, Function.comp_def] using h.symm

theorem pow_sub_one_eq_prod_range {g : F} {n : ℕ} (hn : 0 < n) (hg : IsPrimitiveRoot g n) (x : F) :
    x ^ n - 1 = ∏ i ∈ Finset.range n, (x - g ^ i) := by
  have := congrArg (Polynomial.eval x) (X_pow_sub_one_eq_prod_range hn hg)
  simpa [eval_prod] using this

theorem pow_sub_one_eq_zero_iff {g x : F} {n : ℕ} (hn : 0 < n) (hg : IsPrimitiveRoot g n) :
    x ^ n - 1 = 0 ↔ ∃ i < n, x = g ^ i := by
  have : NeZero n := ⟨hn.ne'⟩
  constructor
  · intro h
    obtain ⟨i, hi, e⟩ := hg.eq_pow_of_pow_eq_one (sub_eq_zero.mp h)
    exact ⟨i, hi, e.symm⟩
  · rintro ⟨i, _, rfl⟩
    rw [← pow_mul, mul_comm, pow_mul, hg.pow_eq_one, one_pow, sub_self]

theorem prod_Ico_eq_zero_iff {g x : F} {a b : ℕ} :
    ∏ k ∈ Finset.Ico a b, (x - g ^ k) = 0 ↔ ∃ k, a ≤ k ∧ k < b ∧ x = g ^ k := by
  rw [Finset.prod_eq_zero_iff]
  constructor
  · rintro ⟨k, hk, h⟩
    rw [Finset.mem_Ico] at hk
    exact ⟨k, hk.1, hk.2, sub_eq_zero.mp h⟩
  · rintro ⟨k, h1, h2, h⟩
    exact ⟨k, Finset.mem_Ico.mpr ⟨h1, h2⟩, sub_eq_zero.mpr h⟩

theorem prod_range_eq_zero_iff {g x : F} {b : ℕ} :
    ∏ k ∈ Finset.range b, (x - g ^ k) = 0 ↔ ∃ k, k < b ∧ x = g ^ k := by
  rw [Finset.prod_eq_zero_iff]
  constructor
  · rintro ⟨k, hk, h⟩
    exact ⟨k, Finset.mem_range.mp hk, sub_eq_zero.mp h⟩
  · rintro ⟨k, h1, h⟩
    exact ⟨k, Finset.mem_range.mpr h1, sub_eq_zero.mpr h⟩

/-- numerator = (product over the non-exempt steps) * (product over the exempt steps) -/
theorem pow_sub_one_split {g : F} {n e : ℕ} (hn : 0 < n) (hg : IsPrimitiveRoot g n) (x : F) :
    x ^ n - 1 = (∏ i ∈ Finset.range (n - e), (x - g ^ i)) * ∏ k ∈ Finset.Ico (n - e) n, (x - g ^ k) := by
  rw [pow_sub_one_eq_prod_range hn hg, Finset.prod_range_mul_prod_Ico _ (Nat.sub_le n e)]

/-- distinct steps are distinct points: `i ↦ g^i` is injective below `n` -/
theorem pow_inj_lt {g : F} {n i j : ℕ} (hg : IsPrimitiveRoot g n) (hi : i < n) (hj : j < n)
    (h : g ^ i = g ^ j) : i = j := hg.pow_inj hi hj h

-- ------------------------------------------------------------------ assertion divisor
/-- zero set of `x^k - g^(k*f)` when `n = s * k`: the progression `f + s*j`, `j < k` -/
theorem pow_sub_pow_eq_zero_iff {g x : F} {n s k f : ℕ} (hn : 0 < n) (hg : IsPrimitiveRoot g n)
    (hnk : n = s * k) :
    x ^ k - g ^ (k * f) = 0 ↔ ∃ j < k, x = g ^ (f + s * j) := by
  have hk : 0 < k := Nat.pos_of_mul_pos_left (hnk ▸ hn)
  have hg0 : g ≠ 0 := hg.ne_zero hn.ne'
  have hh : IsPrimitiveRoot (g ^ s) k := hg.pow hn hnk
  have : NeZero k := ⟨hk.ne'⟩
  constructor
  · intro h
    have h1 : (x / g ^ f) ^ k = 1 := by
      rw [div_pow, ← pow_mul, mul_comm f k, sub_eq_zero.mp h]
      exact div_self (pow_ne_zero _ hg0)
    obtain ⟨j, hj, e⟩ := hh.eq_pow_of_pow_eq_one h1
    refine ⟨j, hj, ?_⟩
    rw [pow_add, pow_mul, e, mul_div_cancel₀ _ (pow_ne_zero _ hg0)]
  · rintro ⟨j, _, rfl⟩
    have e : (f + s * j) * k = k * f + n * j := by rw [hnk]; ring
    rw [sub_eq_zero, ← pow_mul, e, pow_add, pow_mul g n j, hg.pow_eq_one, one_pow, mul_one]

-- ------------------------------------------------------------------ the model's folds
theorem foldl_mul_sub (x a : F) (l : List F) :
    l.foldl (fun r e => r * (x - e)) a = a * (l.map (fun e => x - e)).prod := by
  induction l generalizing a with
  | nil => simp
  | cons e l ih => simp [ih, mul_assoc]

theorem prod_map_range' (f : ℕ → F) (s e : ℕ) :
    ((List.range' s e).map f).prod = ∏ k ∈ Finset.Ico s (s + e), f k := by
  induction e generalizing s with
  | zero => simp
  | succ e ih =>
    rw [List.range'_succ, List.map_cons, List.prod_cons, ih,
      Finset.prod_eq_prod_Ico_succ_bot (show s < s + (e + 1) by omega)]
    have : s + 1 + e = s + (e + 1) := by omega
    rw [this]

theorem evalNumerator_single (root : ℕ → Option F) (k : ℕ) (c x : F) (ex : List F) :
    (⟨[(k, c)], ex⟩ : Divisor F).evalNumerator (fieldOps F root) x = x ^ k - c := by
  simp [Divisor.evalNumerator, fieldOps]

theorem evalExemptions_eq (root : ℕ → Option F) (num : List (ℕ × F)) (g x : F) (s e : ℕ) :
    (⟨num, (List.range' s e).map (fun k => g ^ k)⟩ : Divisor F).evalExemptions (fieldOps F root) x
      = ∏ k ∈ Finset.Ico s (s + e), (x - g ^ k) := by
  simp only [Divisor.evalExemptions, fieldOps]
  rw [foldl_mul_sub, one_mul, List.map_map, prod_map_range']
  rfl

/-- `evaluate_at` of a boundary constraint whose polynomial is not a single constant evaluates the
    polynomial at `x * offset` -/
theorem value_of_not_singleton (O : Ops F) (c : BConstraint F) (h : ∀ v, c.poly ≠ [v]) (x : F) :
    c.value O x = polyEval O c.poly (O.mul x c.offsetElem) := by
  unfold BConstraint.value
  split
  · rename_i v hv; exact absurd hv (h v)
  · rfl

end WinterProofs.C16L
