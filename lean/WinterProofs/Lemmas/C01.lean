-- helper lemmas for C01 (protocol glue): FRI schedule, next_power_of_two, composition columns,
-- degree bookkeeping, de-duplication, inversion of the `glue` constructor chain
import Winter.Model.Protocol

namespace WinterProofs.C01L
open Model.Protocol

-- A: final domain within the bound
theorem friLayers_final_le (d m f : Nat) (hf : 2 ≤ f) : (friLayers d m f).2 ≤ m := by
  fun_induction friLayers d m f with
  | case1 d h r ih => simpa using ih
  | case2 d h => simp; omega

-- B: final = d / f^layers
theorem friLayers_final_eq (d m f : Nat) : (friLayers d m f).2 = d / f ^ (friLayers d m f).1 := by
  fun_induction friLayers d m f with
  | case1 d h r ih =>
    simp only []
    rw [ih, Nat.pow_succ, Nat.mul_comm, Nat.div_div_eq_div_mul]
  | case2 d h => simp

-- C: every folded domain is above the bound and equals d / f^j
theorem friFolded_length (d m f : Nat) : (friFolded d m f).length = (friLayers d m f).1 := by
  fun_induction friFolded d m f with
  | case1 d h ih => rw [friLayers]; simp [h, ih]
  | case2 d h => rw [friLayers]; simp [h]
theorem friLayers_final_le_start (d m f : Nat) : (friLayers d m f).2 ≤ d := by
  rw [friLayers_final_eq]; exact Nat.div_le_self _ _

theorem friFolded_rows (d m f : Nat) : ∀ x ∈ friFolded d m f, m < x ∧ (friLayers d m f).2 ≤ x / f := by
  fun_induction friFolded d m f with
  | case1 d h ih =>
    intro x hx
    have e : (friLayers d m f).2 = (friLayers (d / f) m f).2 := by
      rw [friLayers]; simp [h]
    rcases List.mem_cons.mp hx with rfl | hx
    · exact ⟨h.1, by rw [e]; exact friLayers_final_le_start _ _ _⟩
    · have := ih x hx
      exact ⟨this.1, by rw [e]; exact this.2⟩
  | case2 d h => intro x hx; simp at hx

/-- with a blowup of at least two, the whole well-formedness condition is "the remainder has at
    least one coefficient" -/
theorem wellFormed_iff_remCoef (lde : Nat) (o : Options) (hb : 2 ≤ o.blowup) :
    wellFormed lde o = true ↔ 1 ≤ (schedule lde o).remCoef := by
  unfold wellFormed
  simp only [Bool.and_eq_true, decide_eq_true_eq, List.all_eq_true]
  constructor
  · exact fun h => h.2
  · intro h
    refine ⟨?_, h⟩
    intro x hx
    have hr := (friFolded_rows _ _ _ x hx).2
    have : o.blowup ≤ (friLayers lde ((o.remainder + 1) * o.blowup) o.folding).2 := by
      unfold schedule at h
      simp only [] at h
      exact (Nat.le_div_iff_mul_le (by omega)).mp h |> (by simpa using ·)
    omega

theorem remCoef_pos_iff (n : Nat) (o : Options) (hb : 0 < o.blowup) (hf : 0 < o.folding) :
    1 ≤ (schedule (n * o.blowup) o).remCoef ↔ o.folding ^ (schedule (n * o.blowup) o).layers ≤ n := by
  unfold schedule
  simp only []
  rw [friLayers_final_eq]
  generalize (friLayers (n * o.blowup) ((o.remainder + 1) * o.blowup) o.folding).1 = k
  have hp : 0 < o.folding ^ k := Nat.pow_pos hf
  rw [Nat.le_div_iff_mul_le hb, Nat.le_div_iff_mul_le hp, Nat.one_mul]
  constructor
  · intro h
    have h' : o.blowup * o.folding ^ k ≤ o.blowup * n := by rw [Nat.mul_comm o.blowup n]; exact h
    exact Nat.le_of_mul_le_mul_left h' hb
  · intro h; rw [Nat.mul_comm n]; exact Nat.mul_le_mul_left _ h
theorem friLayers_pow2_final (β c v : Nat) (hcv : c + β ≤ v + 1) :
    ∀ (d m f : Nat) (u : Nat), d = 2 ^ u → m = 2 ^ v → f = 2 ^ c → β ≤ u → 2 ^ β ≤ (friLayers d m f).2 := by
  intro d m f
  fun_induction friLayers d m f with
  | case1 d h r ih =>
    intro u hd hm hf hu
    subst hd hm hf
    have huv : v < u := (Nat.pow_lt_pow_iff_right (by omega)).mp h.1
    have hcu : c ≤ u := by omega
    have e : 2 ^ u / 2 ^ c = 2 ^ (u - c) := Nat.pow_div hcu (by omega)
    exact ih (u - c) e rfl rfl (by omega)
  | case2 d h =>
    intro u hd hm hf hu
    subst hd
    exact Nat.pow_le_pow_right (by omega) hu

theorem nextPow2_ge (n : Nat) : n ≤ nextPow2 n := by
  unfold nextPow2
  split
  · omega
  · have := Nat.lt_log2_self (n := n - 1)
    omega

theorem nextPow2_le_pow (n k : Nat) (h : n ≤ 2 ^ k) : nextPow2 n ≤ 2 ^ k := by
  unfold nextPow2
  split
  · exact Nat.one_le_two_pow
  · rename_i h1
    apply Nat.pow_le_pow_right (by omega)
    have h2 : n - 1 < 2 ^ k := by omega
    have := (Nat.log2_lt (by omega)).mpr h2
    omega

theorem nextPow2_is_pow (n : Nat) : ∃ k, nextPow2 n = 2 ^ k := by
  unfold nextPow2
  split
  · exact ⟨0, rfl⟩
  · exact ⟨_, rfl⟩
theorem foldl_max_ge (l : List Nat) : ∀ a : Nat, a ≤ l.foldl max a ∧ ∀ x ∈ l, x ≤ l.foldl max a := by
  induction l with
  | nil => intro a; simp
  | cons y ys ih =>
    intro a
    simp only [List.foldl_cons, List.mem_cons]
    have h := ih (max a y)
    refine ⟨by omega, ?_⟩
    intro x hx
    rcases hx with rfl | hx
    · omega
    · exact h.2 x hx

theorem foldl_max_mem (l : List Nat) : ∀ a : Nat, l.foldl max a = a ∨ l.foldl max a ∈ l := by
  induction l with
  | nil => intro a; simp
  | cons y ys ih =>
    intro a
    simp only [List.foldl_cons, List.mem_cons]
    rcases ih (max a y) with h | h
    · rw [h]; by_cases hy : a ≤ y
      · right; left; omega
      · left; omega
    · right; right; exact h

theorem evalDegree_le_highest (degs : List Degree) (n : Nat) (d : Degree) (h : d ∈ degs) :
    d.evalDegree n ≤ highestDegree degs n := by
  unfold highestDegree
  exact (foldl_max_ge _ 0).2 _ (List.mem_map_of_mem h)

theorem minBlowup_le_ce (degs : List Degree) (d : Degree) (h : d ∈ degs) : d.minBlowup ≤ ceBlowup degs := by
  unfold ceBlowup
  exact (foldl_max_ge _ 0).2 _ (List.mem_map_of_mem h)

theorem two_le_minBlowup (d : Degree) : 2 ≤ d.minBlowup := by unfold Degree.minBlowup; omega

/-- the composition polynomial fits: into the constraint evaluation domain, into the columns, and
    there are no more columns than the ce blowup factor -/
theorem composition_fits (degs : List Degree) (n ce e : Nat) (hn : 0 < n) (hce : 0 < ce)
    (hacc : exemptionsAccepted degs n ce e = true) :
    let compDeg := highestDegree degs n - (n - e)
    compDeg ≤ n * ce - 1 ∧ compDeg < n * compositionColumns degs n e ∧ compositionColumns degs n e ≤ ce := by
  intro compDeg
  unfold exemptionsAccepted at hacc
  simp only [Bool.and_eq_true, decide_eq_true_eq, List.all_eq_true] at hacc
  obtain ⟨⟨he0, he1⟩, hall⟩ := hacc
  have hnce : n ≤ n * ce := Nat.le_mul_of_pos_right n hce
  have h1 : compDeg ≤ n * ce - 1 := by
    show highestDegree degs n - (n - e) ≤ n * ce - 1
    unfold highestDegree
    rcases foldl_max_mem (degs.map (·.evalDegree n)) 0 with h | h
    · rw [h]; omega
    · obtain ⟨d, hd, hde⟩ := List.mem_map.mp h
      have hb := hall d hd
      unfold exemptionsBound at hb
      rw [← hde]
      omega
  have h2 : compDeg < n * (compDeg / n + 1) := Nat.lt_mul_div_succ compDeg hn
  have hcols : compositionColumns degs n e = compDeg / n + 1 := by
    unfold compositionColumns; show max (compDeg / n + 1) 1 = _
    exact Nat.max_eq_left (Nat.le_add_left 1 _)
  refine ⟨h1, by rw [hcols]; exact h2, ?_⟩
  rw [hcols]
  have : compDeg / n < ce := by
    apply (Nat.div_lt_iff_lt_mul hn).mpr
    rw [Nat.mul_comm]; omega
  omega

/-- the column count of the pinned tree before repair 0d742c9 is too small: degree-2 constraint,
    trace length 8, two exemptions: the composition polynomial has degree 8 = 9 coefficients, one
    column of 8 was allotted -/
theorem columns_old_formula_fails :
    ¬ (highestDegree [⟨2, []⟩] 8 - (8 - 2) < 8 * compositionColumnsOld [⟨2, []⟩] 8 2) := by decide
theorem isPow2_exists (n : Nat) (h : isPow2 n = true) : ∃ a, n = 2 ^ a := by
  unfold isPow2 at h
  simp only [Bool.and_eq_true, beq_iff_eq] at h
  exact ⟨n.log2, h.2.symm⟩

theorem bookkeeping_pow2 (c : Nat) : ∀ (k a : Nat), c * k ≤ a →
    degreeBookkeeping (2 ^ a) (2 ^ c) k = some (2 ^ (a - c * k)) := by
  intro k
  induction k with
  | zero => intro a _; simp [degreeBookkeeping]
  | succ k ih =>
    intro a h
    have hca : c ≤ a := by rw [Nat.mul_succ] at h; omega
    have hdvd : 2 ^ a % 2 ^ c = 0 := Nat.mod_eq_zero_of_dvd (Nat.pow_dvd_pow 2 hca)
    have hdiv : 2 ^ a / 2 ^ c = 2 ^ (a - c) := Nat.pow_div hca (by omega)
    unfold degreeBookkeeping
    rw [hdvd, hdiv]
    simp only [ne_eq, not_true_eq_false, ↓reduceIte]
    rw [ih (a - c) (by rw [Nat.mul_succ] at h; omega)]
    congr 2
    rw [Nat.mul_succ]; omega

theorem dedup_length_le (l : List Nat) : (dedup l).length ≤ l.length := by
  fun_induction dedup l with
  | case1 => simp
  | case2 a => simp
  | case3 a rest ih => simp at ih ⊢; omega
  | case4 a b rest h ih => simp at ih ⊢; omega

theorem dedup_mem (l : List Nat) (x : Nat) : x ∈ dedup l ↔ x ∈ l := by
  fun_induction dedup l with
  | case1 => simp
  | case2 a => simp
  | case3 a rest ih => simp [ih]
  | case4 a b rest h ih => simp [ih]

theorem dedup_ne_nil (l : List Nat) (h : l ≠ []) : dedup l ≠ [] := by
  intro hd
  cases l with
  | nil => exact h rfl
  | cons a t =>
    have : a ∈ dedup (a :: t) := (dedup_mem _ _).mpr (by simp)
    rw [hd] at this; simp at this
theorem glue_ok_inv {n : Nat} {o : Options} {e mw aw nr : Nat} {md ad : List Degree} {g : Glue}
    (h : glue n o e mw aw nr md ad = .ok g) :
    o.accepted = true ∧ traceInfoAccepted mw aw nr n = true ∧ (md ++ ad).all Degree.accepted = true
    ∧ md ≠ [] ∧ ceBlowup (md ++ ad) ≤ o.blowup
    ∧ exemptionsAccepted (md ++ ad) n (ceBlowup (md ++ ad)) e = true
    ∧ g.ceBlowup = ceBlowup (md ++ ad) ∧ g.ceDomain = n * ceBlowup (md ++ ad) ∧ g.ldeDomain = n * o.blowup
    ∧ g.columns = compositionColumns (md ++ ad) n e ∧ g.tracePolyDegree = n - 1
    ∧ g.layers = (schedule (n * o.blowup) o).layers ∧ g.remDomain = (schedule (n * o.blowup) o).remDomain
    ∧ g.remCoef = (schedule (n * o.blowup) o).remCoef
    ∧ g.wellFormed = wellFormed (n * o.blowup) o ∧ g.queriesOk = decide (o.queries < n * o.blowup) := by
  unfold glue at h
  split at h <;> try contradiction
  split at h <;> try contradiction
  split at h <;> try contradiction
  split at h <;> try contradiction
  split at h <;> try contradiction
  simp only [] at h
  split at h <;> try contradiction
  split at h <;> try contradiction
  injection h with h
  subst h
  simp_all

end WinterProofs.C01L
