-- C10 helper lemmas: what a successful level of `get_root` computes; binding
import WinterProofs.Lemmas.C10Batch

namespace WinterProofs.C10
open Model.Merkle

variable {D : Type}

/-- the heap positions of the next level -/
def parents : List Nat → List Nat
  | [] => []
  | [k] => [k / 2]
  | k :: k' :: rest => if k' = xor1 k then k / 2 :: parents rest else k / 2 :: parents (k' :: rest)

theorem parents_single (k : Nat) (rest : List Nat) (hn : NotMerged k rest) :
    parents (k :: rest) = k / 2 :: parents rest := by
  cases rest with
  | nil => rfl
  | cons k' rest' => simp [parents, hn k' rest' rfl]

theorem parents_merged (k : Nat) (rest : List Nat) : parents (k :: xor1 k :: rest) = k / 2 :: parents rest := by
  simp [parents]

/-- in an ascending list the positions after a non-merged `k` have larger parents -/
theorem asc_single_lt {k : Nat} {rest : List Nat} (h : Asc (k :: rest)) (hn : NotMerged k rest) :
    ∀ x ∈ rest, k / 2 < x / 2 := by
  intro x hx
  have hk := Asc.head_lt h x hx
  cases rest with
  | nil => cases hx
  | cons k' rest' =>
    have hne := hn k' rest' rfl
    have hk' : k < k' := h.1
    have hx' : k' ≤ x := by
      rcases List.mem_cons.1 hx with rfl | hx
      · exact Nat.le_refl _
      · exact Nat.le_of_lt (Asc.head_lt h.2 x hx)
    unfold xor1 at hne
    split at hne <;> omega

theorem asc_merged {k : Nat} {rest : List Nat} (h : Asc (k :: xor1 k :: rest)) :
    k % 2 = 0 ∧ xor1 k = k + 1 ∧ ∀ x ∈ rest, k / 2 < x / 2 := by
  have h1 : k < xor1 k := h.1
  have hev : k % 2 = 0 := by unfold xor1 at h1; split at h1 <;> omega
  refine ⟨hev, xor1_even hev, ?_⟩
  intro x hx
  have := Asc.head_lt h.2 x hx
  rw [xor1_even hev] at this
  omega

theorem parents_spec : ∀ (K : List Nat), Asc K →
    Asc (parents K) ∧ (∀ p ∈ parents K, ∃ k ∈ K, p = k / 2) ∧ (∀ k ∈ K, k / 2 ∈ parents K) ∧
    (parents K).length ≤ K.length ∧ (K ≠ [] → parents K ≠ []) := by
  intro K
  induction K using level_induction with
  | nil => intro _; simp [parents, Asc]
  | single k rest hn ih =>
    intro h
    obtain ⟨i1, i2, i3, i4, _⟩ := ih (Asc.tail h)
    rw [parents_single k rest hn]
    refine ⟨Asc.cons i1 ?_, ?_, ?_, by simp; omega, by simp⟩
    · intro p hp
      obtain ⟨x, hx, rfl⟩ := i2 p hp
      exact asc_single_lt h hn x hx
    · intro p hp
      rcases List.mem_cons.1 hp with rfl | hp
      · exact ⟨k, List.mem_cons_self .., rfl⟩
      · obtain ⟨x, hx, he⟩ := i2 p hp
        exact ⟨x, List.mem_cons_of_mem _ hx, he⟩
    · intro x hx
      rcases List.mem_cons.1 hx with rfl | hx
      · exact List.mem_cons_self ..
      · exact List.mem_cons_of_mem _ (i3 x hx)
  | merged k rest ih =>
    intro h
    obtain ⟨hev, hx1, hlt⟩ := asc_merged h
    obtain ⟨i1, i2, i3, i4, _⟩ := ih (Asc.tail (Asc.tail h))
    rw [parents_merged]
    refine ⟨Asc.cons i1 ?_, ?_, ?_, by simp; omega, by simp⟩
    · intro p hp
      obtain ⟨x, hx, rfl⟩ := i2 p hp
      exact hlt x hx
    · intro p hp
      rcases List.mem_cons.1 hp with rfl | hp
      · exact ⟨k, List.mem_cons_self .., rfl⟩
      · obtain ⟨x, hx, he⟩ := i2 p hp
        exact ⟨x, List.mem_cons_of_mem _ (List.mem_cons_of_mem _ hx), he⟩
    · intro x hx
      rcases List.mem_cons.1 hx with rfl | hx
      · exact List.mem_cons_self ..
      · rcases List.mem_cons.1 hx with rfl | hx
        · rw [xor1_div]; exact List.mem_cons_self ..
        · exact List.mem_cons_of_mem _ (i3 x hx)

/-- a level that succeeds found `nodes[i]` and `proof_pointers[i]` -/
theorem rootLevel_ok_single (H : Hasher D) (k : Nat) (rest : List Nat) (hn : NotMerged k rest)
    (rows : List (List D)) (ptrs : List Nat) (v : SMap D) (r : SMap D × List Nat × List Nat)
    (h : rootLevel H (k :: rest) rows ptrs v = .ok r) :
    ∃ row rows' ptr ptrs', rows = row :: rows' ∧ ptrs = ptr :: ptrs' := by
  match rows, ptrs with
  | row :: rows', ptr :: ptrs' => exact ⟨row, rows', ptr, ptrs', rfl, rfl⟩
  | [], _ =>
    cases rest with
    | nil => simp [rootLevel] at h
    | cons k' rest' => simp [rootLevel, hn k' rest' rfl] at h
  | _ :: _, [] =>
    cases rest with
    | nil => simp [rootLevel] at h
    | cons k' rest' => simp [rootLevel, hn k' rest' rfl] at h

theorem rootLevel_ok_merged (H : Hasher D) (k : Nat) (rest : List Nat)
    (rows : List (List D)) (ptrs : List Nat) (v : SMap D) (r : SMap D × List Nat × List Nat)
    (h : rootLevel H (k :: xor1 k :: rest) rows ptrs v = .ok r) :
    ∃ r0 r1 rows' p0 p1 ptrs', rows = r0 :: r1 :: rows' ∧ ptrs = p0 :: p1 :: ptrs' := by
  match rows, ptrs with
  | r0 :: r1 :: rows', p0 :: p1 :: ptrs' => exact ⟨r0, r1, rows', p0, p1, ptrs', rfl, rfl⟩
  | [], _ => cases hs : SMap.get v (xor1 k) <;> cases hv : SMap.get v k <;> simp [rootLevel, hs, hv] at h
  | [_], _ => cases hs : SMap.get v (xor1 k) <;> cases hv : SMap.get v k <;> simp [rootLevel, hs, hv] at h
  | _ :: _ :: _, [] => cases hs : SMap.get v (xor1 k) <;> cases hv : SMap.get v k <;> simp [rootLevel, hs, hv] at h
  | _ :: _ :: _, [_] => cases hs : SMap.get v (xor1 k) <;> cases hv : SMap.get v k <;> simp [rootLevel, hs, hv] at h

/-- what a successful level of `get_root` computes -/
theorem rootLevel_ok (H : Hasher D) : ∀ (K : List Nat) (rows : List (List D)) (ptrs : List Nat) (v v1 : SMap D)
    (ptrs1 K1 : List Nat), Asc K → rootLevel H K rows ptrs v = .ok (v1, ptrs1, K1) →
    K1 = parents K ∧
    (∀ key, (∀ k ∈ K, key < k / 2) → SMap.get v1 key = SMap.get v key) ∧
    (∀ k ∈ K, ∀ x, SMap.get v k = some x → ∃ s, SMap.get v1 (k / 2) = some (par H k x s)) := by
  intro K
  induction K using level_induction with
  | nil =>
    intro rows ptrs v v1 ptrs1 K1 _ h
    rw [rootLevel_nil] at h
    injection h with h; injection h with h1 h2; injection h2 with h2 h3
    subst h1; subst h3
    exact ⟨rfl, fun _ _ => rfl, fun k hk => by cases hk⟩
  | single k rest hn ih =>
    intro rows ptrs v v1 ptrs1 K1 hasc h
    obtain ⟨row, rows, ptr, ptrs, rfl, rfl⟩ := rootLevel_ok_single H k rest hn rows ptrs v _ h
    · rw [rootLevel_single H k rest hn] at h
      cases hs : row[ptr]? with
      | none => rw [hs] at h; cases h
      | some s =>
        rw [hs] at h
        cases hv : SMap.get v k with
        | none => rw [hv] at h; cases h
        | some node =>
          rw [hv] at h
          simp only at h
          cases hr : rootLevel H rest rows ptrs (SMap.insert v (k / 2) (par H k node s)) with
          | err e => rw [hr] at h; cases h
          | panic e => rw [hr] at h; cases h
          | ok r =>
            obtain ⟨v2, ptrs2, K2⟩ := r
            rw [hr] at h
            simp only [Res.ok_bind] at h
            injection h with h; injection h with h1 h2; injection h2 with h2 h3
            subst h1; subst h3
            obtain ⟨j1, j2, j3⟩ := ih rows ptrs _ _ _ _ (Asc.tail hasc) hr
            have hlt := asc_single_lt hasc hn
            refine ⟨by rw [parents_single k rest hn, j1], ?_, ?_⟩
            · intro key hkey
              rw [j2 key (fun x hx => hkey x (List.mem_cons_of_mem _ hx))]
              exact SMap.get_insert_ne _ _ _ _ (by have := hkey k (List.mem_cons_self ..); omega)
            · intro x hx y hy
              rcases List.mem_cons.1 hx with rfl | hx
              · rw [hv] at hy; injection hy with hy; subst hy
                refine ⟨s, ?_⟩
                rw [j2 (x / 2) (fun z hz => hlt z hz)]
                exact SMap.get_insert_self _ _ _
              · have hxk : k < x := Asc.head_lt hasc x hx
                have : SMap.get (SMap.insert v (k / 2) (par H k node s)) x = some y := by
                  rw [SMap.get_insert_ne _ _ _ _ (by omega)]; exact hy
                exact j3 x hx y this
  | merged k rest ih =>
    intro rows ptrs v v1 ptrs1 K1 hasc h
    obtain ⟨hev, hx1, hlt⟩ := asc_merged hasc
    obtain ⟨r0, r1, rows, p0, p1, ptrs, rfl, rfl⟩ := rootLevel_ok_merged H k rest rows ptrs v _ h
    · rw [rootLevel_merged] at h
      cases hs : SMap.get v (xor1 k) with
      | none => rw [hs] at h; cases h
      | some s =>
        rw [hs] at h
        cases hv : SMap.get v k with
        | none => rw [hv] at h; cases h
        | some node =>
          rw [hv] at h
          simp only at h
          cases hr : rootLevel H rest rows ptrs (SMap.insert v (k / 2) (par H k node s)) with
          | err e => rw [hr] at h; cases h
          | panic e => rw [hr] at h; cases h
          | ok r =>
            obtain ⟨v2, ptrs2, K2⟩ := r
            rw [hr] at h
            simp only [Res.ok_bind] at h
            injection h with h; injection h with h1 h2; injection h2 with h2 h3
            subst h1; subst h3
            obtain ⟨j1, j2, j3⟩ := ih rows ptrs _ _ _ _ (Asc.tail (Asc.tail hasc)) hr
            refine ⟨by rw [parents_merged, j1], ?_, ?_⟩
            · intro key hkey
              rw [j2 key (fun x hx => hkey x (List.mem_cons_of_mem _ (List.mem_cons_of_mem _ hx)))]
              exact SMap.get_insert_ne _ _ _ _ (by have := hkey k (List.mem_cons_self ..); omega)
            · intro x hx y hy
              rcases List.mem_cons.1 hx with rfl | hx
              · rw [hv] at hy; injection hy with hy; subst hy
                refine ⟨s, ?_⟩
                rw [j2 (x / 2) (fun z hz => hlt z hz)]
                exact SMap.get_insert_self _ _ _
              · rcases List.mem_cons.1 hx with rfl | hx
                · rw [hs] at hy; injection hy with hy; subst hy
                  refine ⟨node, ?_⟩
                  rw [xor1_div, j2 (k / 2) (fun z hz => hlt z hz), SMap.get_insert_self]
                  congr 1
                  have hodd : xor1 k % 2 = 1 := by rw [hx1]; omega
                  simp [par, hev, hodd]
                · have hxk : k + 1 < x := by
                    have := Asc.head_lt (Asc.tail hasc) x hx; rw [hx1] at this; exact this
                  have : SMap.get (SMap.insert v (k / 2) (par H k node s)) x = some y := by
                    rw [SMap.get_insert_ne _ _ _ _ (by omega)]; exact hy
                  exact j3 x hx y this

end WinterProofs.C10

namespace WinterProofs.C10
open Model.Merkle

variable {D : Type}

/-- a valuation of heap positions that is a Merkle tree of depth `d`: position `j` holds the hash
    of positions `2j`, `2j+1`; the leaves are at `2^d ..`, the root at `1` -/
def ValWF (H : Hasher D) (val : Nat → D) (d : Nat) : Prop :=
  ∀ j, 1 ≤ j → j < 2 ^ d → val j = H.merge (val (2 * j)) (val (2 * j + 1))

theorem par_inj (H : Hasher D) (inj : MergeInj H) (val : Nat → D) (d : Nat) (wf : ValWF H val d)
    (k : Nat) (h1 : 2 ≤ k) (h2 : k < 2 ^ (d + 1)) (x s : D) (h : par H k x s = val (k / 2)) : x = val k := by
  have := two_pow_succ' d
  rw [wf (k / 2) (by omega) (by omega)] at h
  unfold par at h
  by_cases hev : k % 2 = 0
  · rw [if_neg (by omega)] at h
    have := (inj _ _ _ _ h).1
    rw [show 2 * (k / 2) = k by omega] at this; exact this
  · rw [if_pos hev] at h
    have := (inj _ _ _ _ h).2
    rw [show 2 * (k / 2) + 1 = k by omega] at this; exact this

theorem par_val (H : Hasher D) (val : Nat → D) (d : Nat) (wf : ValWF H val d)
    (k : Nat) (h1 : 2 ≤ k) (h2 : k < 2 ^ (d + 1)) : par H k (val k) (val (xor1 k)) = val (k / 2) := by
  have := two_pow_succ' d
  rw [wf (k / 2) (by omega) (by omega)]
  unfold par
  by_cases hev : k % 2 = 0
  · rw [if_neg (by omega), xor1_even hev, show 2 * (k / 2) = k by omega]
  · rw [if_pos hev, xor1_odd (by omega), show 2 * (k / 2) + 1 = k by omega, show 2 * (k / 2) = k - 1 by omega]

theorem rootLevels_binding (H : Hasher D) (inj : MergeInj H) (val : Nat → D) (d : Nat) (wf : ValWF H val d)
    (rows : List (List D)) : ∀ (l : Nat) (K ptrs : List Nat) (v v' : SMap D) (ptrs' : List Nat),
    Asc K → (∀ k ∈ K, 2 ^ l ≤ k ∧ k < 2 ^ (l + 1)) → l ≤ d →
    rootLevels H rows l K ptrs v = .ok (v', ptrs') → SMap.get v' 1 = some (val 1) →
    ∀ k ∈ K, ∀ x, SMap.get v k = some x → x = val k
  | 0, K, ptrs, v, v', ptrs', _, hr, _, h, h1 => by
    simp only [rootLevels] at h
    injection h with h; injection h with h2 h3; subst h2
    intro k hk x hx
    have := hr k hk
    have hk1 : k = 1 := by simp at this; omega
    subst hk1
    rw [h1] at hx; injection hx with hx; exact hx.symm
  | l + 1, K, ptrs, v, v', ptrs', hasc, hr, hl, h, h1 => by
    simp only [rootLevels] at h
    cases hlv : rootLevel H K rows ptrs v with
    | err e => rw [hlv] at h; cases h
    | panic e => rw [hlv] at h; cases h
    | ok r =>
      obtain ⟨v1, ptrs1, K1⟩ := r
      rw [hlv] at h
      simp only [Res.ok_bind] at h
      obtain ⟨j1, _, j3⟩ := rootLevel_ok H K rows ptrs v v1 ptrs1 K1 hasc hlv
      obtain ⟨p1, p2, p3, _, _⟩ := parents_spec K hasc
      have hp := two_pow_succ' l
      have hp' := two_pow_succ' (l + 1)
      have hpd : 2 ^ (l + 1 + 1) ≤ 2 ^ (d + 1) := Nat.pow_le_pow_right (by omega) (by omega)
      have ih := rootLevels_binding H inj val d wf rows l K1 ptrs1 v1 v' ptrs' (by rw [j1]; exact p1)
        (by
          intro k1 hk1
          rw [j1] at hk1
          obtain ⟨k, hk, rfl⟩ := p2 k1 hk1
          have := hr k hk
          omega) (by omega) h h1
      intro k hk x hx
      obtain ⟨s, hs⟩ := j3 k hk x hx
      have := ih (k / 2) (by rw [j1]; exact p3 k hk) _ hs
      have hrk := hr k hk
      have hpos := Nat.two_pow_pos l
      exact par_inj H inj val d wf k (by omega) (by omega) x s this

theorem leafPair_ok {leaves : List D} {imap : SMap Nat} {e : Nat} {row : List D} {a b : D} {ptr : Nat}
    (h : leafPair leaves imap e row = .ok (a, b, ptr)) :
    (∀ i1, SMap.get imap e = some i1 → leaves[i1]? = some a) ∧
    (∀ i2, SMap.get imap (e + 1) = some i2 → leaves[i2]? = some b) := by
  unfold leafPair at h
  repeat' split at h
  all_goals (try cases h)
  all_goals (refine ⟨?_, ?_⟩ <;> intro i hi <;> simp_all)

/-- what a successful first loop of `get_root` computes -/
theorem rootLeafLoop_ok (H : Hasher D) (leaves : List D) (imap : SMap Nat) (offset : Nat) :
    ∀ (norm : List Nat) (rows : List (List D)) (v0 v : SMap D) (ptrs K1 : List Nat),
    Asc norm → (∀ e ∈ norm, e % 2 = 0) →
    rootLeafLoop H leaves imap offset norm rows v0 = .ok (v, ptrs, K1) →
    K1 = norm.map (fun e => (offset + e) / 2) ∧
    (∀ key, (∀ e ∈ norm, key < (offset + e) / 2) → SMap.get v key = SMap.get v0 key) ∧
    (∀ e ∈ norm, ∃ row a b ptr, leafPair leaves imap e row = .ok (a, b, ptr) ∧
      SMap.get v ((offset + e) / 2) = some (H.merge a b))
  | [], rows, v0, v, ptrs, K1, _, _, h => by
    simp only [rootLeafLoop] at h
    injection h with h; injection h with h1 h2; injection h2 with h2 h3
    subst h1; subst h3
    exact ⟨rfl, fun _ _ => rfl, fun e he => by cases he⟩
  | e :: norm, [], v0, v, ptrs, K1, _, _, h => by simp [rootLeafLoop] at h
  | e :: norm, row :: rows, v0, v, ptrs, K1, hasc, hev, h => by
    simp only [rootLeafLoop] at h
    cases hp : leafPair leaves imap e row with
    | err x => rw [hp] at h; cases h
    | panic x => rw [hp] at h; cases h
    | ok abp =>
      obtain ⟨a, b, ptr⟩ := abp
      rw [hp] at h
      simp only [Res.ok_bind] at h
      cases hr : rootLeafLoop H leaves imap offset norm rows (SMap.insert v0 ((offset + e) / 2) (H.merge a b)) with
      | err x => rw [hr] at h; cases h
      | panic x => rw [hr] at h; cases h
      | ok r =>
        obtain ⟨v2, ptrs2, K2⟩ := r
        rw [hr] at h
        simp only [Res.ok_bind] at h
        injection h with h; injection h with h1 h2; injection h2 with h2 h3
        subst h1; subst h3
        obtain ⟨j1, j2, j3⟩ := rootLeafLoop_ok H leaves imap offset norm rows _ _ _ _ (Asc.tail hasc)
          (fun x hx => hev x (List.mem_cons_of_mem _ hx)) hr
        have hlt : ∀ x ∈ norm, (offset + e) / 2 < (offset + x) / 2 := by
          intro x hx
          have := Asc.head_lt hasc x hx
          have := hev x (List.mem_cons_of_mem _ hx)
          have := hev e (List.mem_cons_self ..)
          omega
        refine ⟨by simp [j1], ?_, ?_⟩
        · intro key hkey
          rw [j2 key (fun x hx => hkey x (List.mem_cons_of_mem _ hx))]
          exact SMap.get_insert_ne _ _ _ _ (by have := hkey e (List.mem_cons_self ..); omega)
        · intro x hx
          rcases List.mem_cons.1 hx with rfl | hx
          · refine ⟨row, a, b, ptr, hp, ?_⟩
            rw [j2 _ (fun z hz => hlt z hz)]
            exact SMap.get_insert_self _ _ _
          · exact j3 x hx

end WinterProofs.C10

namespace WinterProofs.C10
open Model.Merkle

variable {D : Type}

/-- the stages of a successful `get_root` -/
theorem getRoot_ok_stages (H : Hasher D) (p : BatchProof D) (idxs : List Nat) (r : D)
    (h : getRoot H p idxs = .ok r) :
    idxs ≠ [] ∧ idxs.length ≤ 255 ∧ idxs.length = p.leaves.length ∧ p.depth < 64 ∧
    ∃ imap v ptrs K1 v' ptrs', mapIndexes idxs p.depth = .ok imap ∧
      (normalizeIndexes idxs).length = p.nodes.length ∧
      rootLeafLoop H p.leaves imap (2 ^ p.depth) (normalizeIndexes idxs) p.nodes [] = .ok (v, ptrs, K1) ∧
      rootLevels H p.nodes (p.depth - 1) K1 ptrs v = .ok (v', ptrs') ∧
      anyUnused ptrs' p.nodes = false ∧ SMap.get v' 1 = some r := by
  unfold getRoot at h
  split at h; · cases h
  rename_i h0
  split at h; · cases h
  rename_i h1
  split at h; · cases h
  rename_i h2
  split at h; · cases h
  rename_i h3
  have hd : p.depth < 64 := by simpa [usizeBits] using h3
  cases hm : mapIndexes idxs p.depth with
  | err e => rw [hm] at h; cases h
  | panic e => rw [hm] at h; cases h
  | ok imap =>
    rw [hm] at h
    simp only [Res.ok_bind] at h
    split at h; · cases h
    rename_i h4
    rw [pow2_ok hd] at h
    simp only [Res.ok_bind] at h
    cases hl : rootLeafLoop H p.leaves imap (2 ^ p.depth) (normalizeIndexes idxs) p.nodes [] with
    | err e => rw [hl] at h; cases h
    | panic e => rw [hl] at h; cases h
    | ok r1 =>
      obtain ⟨v, ptrs, K1⟩ := r1
      rw [hl] at h
      simp only [Res.ok_bind] at h
      cases hls : rootLevels H p.nodes (p.depth - 1) K1 ptrs v with
      | err e => rw [hls] at h; cases h
      | panic e => rw [hls] at h; cases h
      | ok r2 =>
        obtain ⟨v', ptrs'⟩ := r2
        rw [hls] at h
        simp only [Res.ok_bind] at h
        split at h; · cases h
        rename_i h5
        cases hg : SMap.get v' 1 with
        | none => rw [hg] at h; cases h
        | some r' =>
          rw [hg] at h
          injection h with h; subst h
          refine ⟨?_, ?_, ?_, hd, imap, v, ptrs, K1, v', ptrs', rfl, ?_, hl, hls, ?_, hg⟩
          · intro he; subst he; simp at h0
          · simp only [maxPaths] at h1; omega
          · simpa using h2
          · simpa using h4
          · simpa using h5

/-- Binding of `get_root`: if the root it computes from an opening of depth `d ≥ 1` is the root of a
    Merkle tree of depth `d` and `merge` is collision free, every claimed leaf is the committed
    leaf at its position. -/
theorem getRoot_binding (H : Hasher D) (inj : MergeInj H) (val : Nat → D) (p : BatchProof D) (idxs : List Nat)
    (wf : ValWF H val p.depth) (hd1 : 1 ≤ p.depth) (h : getRoot H p idxs = .ok (val 1)) :
    ∀ j (hj : j < idxs.length), p.leaves[j]? = some (val (2 ^ p.depth + idxs[j])) := by
  obtain ⟨_, _, _, hd, imap, v, ptrs, K1, v', ptrs', hm, _, hl, hls, _, hroot⟩ := getRoot_ok_stages H p idxs _ h
  obtain ⟨_, _, hrange, hget, _, _⟩ := mapIndexes_ok hm
  obtain ⟨nasc, nmem⟩ := normalize_spec idxs
  have nev : ∀ e ∈ normalizeIndexes idxs, e % 2 = 0 := by
    intro e he; obtain ⟨i, _, rfl⟩ := (nmem e).1 he; omega
  obtain ⟨j1, _, j3⟩ := rootLeafLoop_ok H p.leaves imap (2 ^ p.depth) _ p.nodes [] v ptrs K1 nasc nev hl
  obtain ⟨d0, hd0⟩ : ∃ d0, p.depth = d0 + 1 := ⟨p.depth - 1, by omega⟩
  have hp := two_pow_succ' d0
  have hpos := Nat.two_pow_pos d0
  rw [← hd0] at hp
  -- the positions of the second level
  have hK1asc : Asc K1 := by
    rw [j1]
    have : ∀ (l : List Nat), Asc l → (∀ e ∈ l, e % 2 = 0) → Asc (l.map (fun e => (2 ^ p.depth + e) / 2)) := by
      intro l
      induction l with
      | nil => intro _ _; trivial
      | cons a t ih =>
        intro ha hev
        simp only [List.map_cons]
        apply Asc.cons (ih (Asc.tail ha) (fun e he => hev e (List.mem_cons_of_mem _ he)))
        intro x hx
        obtain ⟨y, hy, rfl⟩ := List.mem_map.1 hx
        have := Asc.head_lt ha y hy
        have := hev y (List.mem_cons_of_mem _ hy)
        have := hev a (List.mem_cons_self ..)
        omega
    exact this _ nasc nev
  have hK1r : ∀ k ∈ K1, 2 ^ (p.depth - 1) ≤ k ∧ k < 2 ^ (p.depth - 1 + 1) := by
    intro k hk
    rw [j1] at hk
    obtain ⟨e, he, rfl⟩ := List.mem_map.1 hk
    obtain ⟨i, hi, rfl⟩ := (nmem e).1 he
    have := hrange i hi
    rw [hd0] at this ⊢
    simp only [Nat.add_sub_cancel]
    omega
  have hb := rootLevels_binding H inj val p.depth wf p.nodes (p.depth - 1) K1 ptrs v v' ptrs' hK1asc hK1r
    (by omega) hls hroot
  intro j hj
  have hi : idxs[j] ∈ idxs := List.getElem_mem hj
  have hir := hrange _ hi
  have he : idxs[j] - idxs[j] % 2 ∈ normalizeIndexes idxs := (nmem _).2 ⟨_, hi, rfl⟩
  obtain ⟨row, a, b, ptr, hpair, hv⟩ := j3 _ he
  have hk1 : (2 ^ p.depth + (idxs[j] - idxs[j] % 2)) / 2 ∈ K1 := by
    rw [j1]; exact List.mem_map.2 ⟨_, he, rfl⟩
  have hval := hb _ hk1 _ hv
  rw [wf _ (by rw [hd0] at hir ⊢; omega) (by rw [hd0] at hir ⊢; omega)] at hval
  obtain ⟨ea, eb⟩ := inj _ _ _ _ hval
  obtain ⟨pa, pb⟩ := leafPair_ok hpair
  have hgj := hget j hj
  by_cases hev : idxs[j] % 2 = 0
  · have e1 : idxs[j] - idxs[j] % 2 = idxs[j] := by omega
    rw [e1] at pa
    rw [pa j hgj, ea]
    congr 2
    rw [hd0] at hir ⊢; omega
  · have e1 : idxs[j] - idxs[j] % 2 + 1 = idxs[j] := by omega
    rw [e1] at pb
    rw [pb j hgj, eb]
    congr 2
    rw [hd0] at hir ⊢; omega

end WinterProofs.C10

namespace WinterProofs.C10
open Model.Merkle

variable {D : Type}

/-- the valuation of heap positions given by a tree -/
def treeVal (H : Hasher D) (t : Tree D) (j : Nat) : D := (hval t j).getD H.dflt

theorem treeVal_wf (H : Hasher D) (t : Tree D) (d : Nat) (wf : TreeWF H t d) : ValWF H (treeVal H t) d := by
  intro j h1 h2
  obtain ⟨a, b, ha, hb, hm⟩ := wf.wf j h1 h2
  have : hval t j = some (H.merge a b) := by rw [hval_lt (by rw [wf.nlen]; exact h2)]; exact hm
  simp [treeVal, this, ha, hb]

theorem treeVal_leaf (H : Hasher D) (t : Tree D) (d : Nat) (wf : TreeWF H t d) (i : Nat) (hi : i < 2 ^ d) :
    some (treeVal H t (2 ^ d + i)) = t.leaves[i]? := by
  have hil : i < t.leaves.length := by rw [wf.llen]; exact hi
  have : hval t (2 ^ d + i) = t.leaves[i]? := by
    rw [hval_ge (by rw [wf.nlen]; omega), wf.nlen]; congr 1; omega
  simp [treeVal, this, List.getElem?_eq_getElem hil]

theorem treeVal_root (H : Hasher D) (t : Tree D) (d : Nat) (wf : TreeWF H t d) (root : D)
    (h : t.nodes[1]? = some root) : treeVal H t 1 = root := by
  have h1 : 1 < t.nodes.length := by
    rcases Nat.lt_or_ge 1 t.nodes.length with h' | h'
    · exact h'
    · rw [List.getElem?_eq_none h'] at h; cases h
  simp [treeVal, hval_lt h1, h]

theorem verifyBatch_ok (H : Hasher D) [DecidableEq D] (root : D) (idxs : List Nat) (p : BatchProof D)
    (h : verifyBatch H root idxs p = .ok ()) : getRoot H p idxs = .ok root := by
  unfold verifyBatch at h
  cases hg : getRoot H p idxs with
  | err e => rw [hg] at h; cases h
  | panic e => rw [hg] at h; cases h
  | ok r =>
    rw [hg] at h
    simp only [Res.ok_bind] at h
    split at h
    · cases h
    · rename_i hne
      congr 1
      exact (Decidable.of_not_not hne).symm

theorem verifyBatch_of_getRoot (H : Hasher D) [DecidableEq D] (root : D) (idxs : List Nat) (p : BatchProof D)
    (h : getRoot H p idxs = .ok root) : verifyBatch H root idxs p = .ok () := by
  unfold verifyBatch
  rw [h]; simp

end WinterProofs.C10
