-- C17, quotient side (pure polynomial algebra over a field): a numerator that vanishes on all the
-- (distinct) roots of a monic divisor is divisible by it, the quotient evaluates to the quotient of
-- the values wherever the divisor does not vanish, and its degree is the difference of the degrees.
-- The two divisor polynomials of the protocol: `∏_{i<m} (X − g^i)` (transition, `m = n − e`) and
-- `X^k − g^(k·f)` (assertions), whose zero sets are the ones C16 characterises.
import Mathlib.LinearAlgebra.Lagrange
import WinterProofs.Lemmas.C16Field

namespace WinterProofs.C17L
open Polynomial WinterProofs.C16L

variable {F : Type} [Field F]

/-- a numerator vanishing at `deg D` distinct roots of the monic `D` is a multiple of `D` -/
theorem dvd_of_monic_roots {D N : F[X]} (hD : D.Monic) (s : Finset F) (hcard : D.natDegree ≤ s.card)
    (hDs : ∀ x ∈ s, D.eval x = 0) (hNs : ∀ x ∈ s, N.eval x = 0) : D ∣ N := by
  rw [← modByMonic_eq_zero_iff_dvd hD]
  apply eq_zero_of_degree_lt_of_eval_finset_eq_zero s
  · calc (N %ₘ D).degree < D.degree := degree_modByMonic_lt N hD
      _ = (D.natDegree : WithBot ℕ) := degree_eq_natDegree hD.ne_zero
      _ ≤ (s.card : WithBot ℕ) := by exact_mod_cast hcard
  · intro x hx
    have h := congrArg (eval x) (modByMonic_add_div N D)
    rw [eval_add, eval_mul, hDs x hx, zero_mul, add_zero, hNs x hx] at h
    exact h

/-- where the divisor does not vanish, the polynomial quotient takes the quotient of the values -/
theorem eval_divByMonic_of_dvd {D N : F[X]} (hD : D.Monic) (h : D ∣ N) (x : F) (hx : D.eval x ≠ 0) :
    (N /ₘ D).eval x = N.eval x / D.eval x := by
  have h0 : N %ₘ D = 0 := (modByMonic_eq_zero_iff_dvd hD).mpr h
  have h1 := congrArg (eval x) (modByMonic_add_div N D)
  rw [h0, zero_add, eval_mul] at h1
  rw [← h1, mul_div_cancel_left₀ _ hx]

/-- degree of the quotient by a monic divisor -/
theorem natDegree_divByMonic_le {D N : F[X]} (hD : D.Monic) {m : ℕ} (h : N.natDegree ≤ m) :
    (N /ₘ D).natDegree ≤ m - D.natDegree := by
  rw [natDegree_divByMonic N hD]; omega

-- ------------------------------------------------------------------ the transition divisor polynomial
/-- `∏_{i<m} (X − g^i)`: the transition divisor `(X^n − 1)/∏_{k=n−e}^{n−1}(X − g^k)` for `m = n − e`
    (`C16.transition_divisor_poly`) -/
noncomputable def transPoly (g : F) (m : ℕ) : F[X] := ∏ i ∈ Finset.range m, (X - C (g ^ i))

theorem transPoly_monic (g : F) (m : ℕ) : (transPoly g m).Monic :=
  monic_prod_of_monic _ _ (fun i _ => monic_X_sub_C (g ^ i))

theorem transPoly_natDegree (g : F) (m : ℕ) : (transPoly g m).natDegree = m := by
  unfold transPoly
  rw [natDegree_prod_of_monic _ _ (fun i _ => monic_X_sub_C (g ^ i)),
    Finset.sum_congr rfl (fun i _ => natDegree_X_sub_C (g ^ i))]
  simp

theorem transPoly_eval (g : F) (m : ℕ) (x : F) : (transPoly g m).eval x = ∏ i ∈ Finset.range m, (x - g ^ i) := by
  unfold transPoly
  rw [eval_prod]
  simp

/-- **transition constraints**: a numerator vanishing on every non-exempt step `g^i`, `i < m ≤ n`, is
    divisible by the transition divisor (converse of `C02.transition_violation_not_divisible`) -/
theorem transPoly_dvd {g : F} {n m : ℕ} (hg : IsPrimitiveRoot g n) (hm : m ≤ n) (N : F[X])
    (hN : ∀ i < m, N.eval (g ^ i) = 0) : transPoly g m ∣ N := by
  classical
  have hinj : Set.InjOn (fun i => g ^ i) (Finset.range m : Set ℕ) := by
    intro i hi j hj hij
    have hi' : i < m := Finset.mem_range.mp (by exact_mod_cast hi)
    have hj' : j < m := Finset.mem_range.mp (by exact_mod_cast hj)
    exact hg.pow_inj (by omega) (by omega) hij
  apply dvd_of_monic_roots (transPoly_monic g m) ((Finset.range m).image (fun i => g ^ i))
  · rw [Finset.card_image_of_injOn hinj, Finset.card_range, transPoly_natDegree]
  · intro x hx
    obtain ⟨i, hi, rfl⟩ := Finset.mem_image.mp hx
    rw [transPoly_eval]
    exact Finset.prod_eq_zero hi (sub_self _)
  · intro x hx
    obtain ⟨i, hi, rfl⟩ := Finset.mem_image.mp hx
    exact hN i (Finset.mem_range.mp hi)

/-- off the trace domain the value `evaluate_at` returns for the transition divisor is the value of
    `transPoly`, and it is not zero -/
theorem transPoly_eval_off_domain {g : F} {n e : ℕ} (hn : 0 < n) (hg : IsPrimitiveRoot g n) (x : F)
    (hx : x ^ n ≠ 1) :
    (x ^ n - 1) / ∏ k ∈ Finset.Ico (n - e) n, (x - g ^ k) = (transPoly g (n - e)).eval x ∧
      (transPoly g (n - e)).eval x ≠ 0 := by
  have hsplit := pow_sub_one_split (e := e) hn hg x
  have hne : x ^ n - 1 ≠ 0 := sub_ne_zero.mpr hx
  rw [hsplit] at hne
  have h1 := left_ne_zero_of_mul hne
  have h2 := right_ne_zero_of_mul hne
  rw [transPoly_eval]
  exact ⟨by rw [hsplit, mul_div_assoc, div_self h2, mul_one], h1⟩

-- ------------------------------------------------------------------ the assertion divisor polynomial
/-- `X^k − g^(k·f)`: the divisor of an assertion with `k` named steps and first step `f`
    (`C16.assertion_divisor_zero_set`) -/
noncomputable def assertPoly (g : F) (k f : ℕ) : F[X] := X ^ k - C (g ^ (k * f))

theorem assertPoly_monic (g : F) {k : ℕ} (f : ℕ) (hk : 0 < k) : (assertPoly g k f).Monic :=
  monic_X_pow_sub_C _ hk.ne'

theorem assertPoly_natDegree (g : F) (k f : ℕ) : (assertPoly g k f).natDegree = k :=
  natDegree_X_pow_sub_C

theorem assertPoly_eval (g : F) (k f : ℕ) (x : F) : (assertPoly g k f).eval x = x ^ k - g ^ (k * f) := by
  simp [assertPoly]

/-- **assertions**: a numerator vanishing on the `k` named steps `g^(f + S·j)`, `j < k`, `n = S·k`, is
    divisible by the assertion divisor (converse of `C02.assertion_violation_not_divisible`) -/
theorem assertPoly_dvd {g : F} {n S k f : ℕ} (hn : 0 < n) (hg : IsPrimitiveRoot g n) (hnk : n = S * k)
    (N : F[X]) (hN : ∀ j < k, N.eval (g ^ (f + S * j)) = 0) : assertPoly g k f ∣ N := by
  classical
  have hk : 0 < k := Nat.pos_of_mul_pos_left (hnk ▸ hn)
  have hS : 0 < S := Nat.pos_of_mul_pos_right (hnk ▸ hn)
  have hg0 : g ≠ 0 := hg.ne_zero hn.ne'
  have hinj : Set.InjOn (fun j => g ^ (f + S * j)) (Finset.range k : Set ℕ) := by
    intro i hi j hj hij
    have hi' : i < k := Finset.mem_range.mp (by exact_mod_cast hi)
    have hj' : j < k := Finset.mem_range.mp (by exact_mod_cast hj)
    simp only [pow_add] at hij
    have h2 : g ^ (S * i) = g ^ (S * j) := mul_left_cancel₀ (pow_ne_zero _ hg0) hij
    have h3 : S * i = S * j :=
      hg.pow_inj (by rw [hnk]; exact Nat.mul_lt_mul_of_pos_left hi' hS)
        (by rw [hnk]; exact Nat.mul_lt_mul_of_pos_left hj' hS) h2
    exact Nat.eq_of_mul_eq_mul_left hS h3
  apply dvd_of_monic_roots (assertPoly_monic g f hk) ((Finset.range k).image (fun j => g ^ (f + S * j)))
  · rw [Finset.card_image_of_injOn hinj, Finset.card_range, assertPoly_natDegree]
  · intro x hx
    obtain ⟨j, hj, rfl⟩ := Finset.mem_image.mp hx
    rw [assertPoly_eval]
    exact (pow_sub_pow_eq_zero_iff hn hg hnk).mpr ⟨j, Finset.mem_range.mp hj, rfl⟩
  · intro x hx
    obtain ⟨j, hj, rfl⟩ := Finset.mem_image.mp hx
    exact hN j (Finset.mem_range.mp hj)

/-- off the trace domain the assertion divisor does not vanish -/
theorem assertPoly_eval_off_domain {g : F} {n S k f : ℕ} (hn : 0 < n) (hg : IsPrimitiveRoot g n)
    (hnk : n = S * k) (x : F) (hx : x ^ n ≠ 1) : (assertPoly g k f).eval x ≠ 0 := by
  rw [assertPoly_eval]
  intro h
  obtain ⟨j, _, rfl⟩ := (pow_sub_pow_eq_zero_iff hn hg hnk).mp h
  apply hx
  rw [← pow_mul, mul_comm, pow_mul, hg.pow_eq_one, one_pow]

-- ------------------------------------------------------------------ degrees of list sums
theorem degree_list_sum_lt {β : Type} (f : β → F[X]) (m : ℕ) (l : List β) (h : ∀ b ∈ l, (f b).degree < m) :
    ((l.map f).sum).degree < m := by
  rw [← mem_degreeLT]
  apply list_sum_mem
  intro p hp
  obtain ⟨b, hb, rfl⟩ := List.mem_map.mp hp
  exact mem_degreeLT.mpr (h b hb)

theorem degree_lt_of_natDegree_lt {p : F[X]} {m : ℕ} (h : p.natDegree < m) : p.degree < m :=
  lt_of_le_of_lt degree_le_natDegree (by exact_mod_cast h)

theorem natDegree_lt_of_degree_lt {p : F[X]} {m : ℕ} (hm : 0 < m) (h : p.degree < m) : p.natDegree < m := by
  by_cases hp : p = 0
  · rw [hp, natDegree_zero]; exact hm
  · exact (natDegree_lt_iff_degree_lt hp).mpr h

theorem degree_C_mul_lt {p : F[X]} {m : ℕ} (a : F) (h : p.natDegree < m) : (C a * p).degree < m :=
  degree_lt_of_natDegree_lt (lt_of_le_of_lt (natDegree_C_mul_le a p) h)

end WinterProofs.C17L
