-- Helper lemmas for C08: the documented polynomials are IRREDUCIBLE over the prime field, as a statement about
-- Mathlib's `Polynomial` — derived from what is already proved about the quotient rings of pairs / triples
-- (`PQ2.eq_zero_or`, `PQ3.eq_zero_or`: no zero divisors): a root `r` of the polynomial in the base field would
-- make `φ - r` a zero divisor of the quotient ring; a monic polynomial of degree 2 or 3 without roots over a
-- field is irreducible (`Polynomial.Monic.irreducible_iff_roots_eq_zero_of_degree_le_three`).
import WinterProofs.Lemmas.C08Field
import Mathlib.Algebra.Polynomial.SpecificDegree

set_option linter.unusedSectionVars false
namespace WinterProofs.C08L
open Polynomial

variable {p : ℕ} [Fact p.Prime] {s t : ZMod p}

/-- the documented polynomial of a quadratic extension, `x² - s·x - t` -/
noncomputable def poly2 (s t : ZMod p) : (ZMod p)[X] := X ^ 2 - C s * X - C t

/-- the documented polynomial of a cubic extension, `x³ - s·x - t` -/
noncomputable def poly3 (s t : ZMod p) : (ZMod p)[X] := X ^ 3 - C s * X - C t

theorem poly2_natDegree : (poly2 s t).natDegree = 2 := by
  unfold poly2
  rw [sub_sub]
  have h : (C s * X + C t).degree < (X ^ 2 : (ZMod p)[X]).degree := by
    rw [degree_X_pow]
    exact lt_of_le_of_lt (degree_linear_le) (by decide)
  rw [natDegree_sub_eq_left_of_natDegree_lt, natDegree_X_pow]
  rw [natDegree_X_pow]
  exact lt_of_le_of_lt (natDegree_linear_le) (by decide)

theorem poly2_monic : (poly2 s t).Monic := by
  unfold poly2
  rw [sub_sub]
  apply Monic.sub_of_left (monic_X_pow 2)
  rw [degree_X_pow]
  exact lt_of_le_of_lt (degree_linear_le) (by decide)

theorem poly3_natDegree : (poly3 s t).natDegree = 3 := by
  unfold poly3
  rw [sub_sub, natDegree_sub_eq_left_of_natDegree_lt, natDegree_X_pow]
  rw [natDegree_X_pow]
  exact lt_of_le_of_lt (natDegree_linear_le) (by decide)

theorem poly3_monic : (poly3 s t).Monic := by
  unfold poly3
  rw [sub_sub]
  apply Monic.sub_of_left (monic_X_pow 3)
  rw [degree_X_pow]
  exact lt_of_le_of_lt (degree_linear_le) (by decide)

/-- no zero divisors in `ZMod p [x]/(x² - s·x - t)`  ⇒  `x² - s·x - t` has no root in `ZMod p` -/
theorem poly2_no_root (hzd : ∀ a b : PQ2 (ZMod p) s t, a * b = 0 → a = 0 ∨ b = 0) (r : ZMod p) :
    ¬ (poly2 s t).IsRoot r := by
  intro hr
  have hr' : r ^ 2 - s * r - t = 0 := by
    simpa [poly2, IsRoot, eval_sub, eval_mul, eval_pow] using hr
  have hprod : ((⟨-r, 1⟩ : PQ2 (ZMod p) s t) * ⟨r - s, 1⟩) = 0 := by
    show (⟨_, _⟩ : PQ2 (ZMod p) s t) = ⟨0, 0⟩
    ext
    · show -r * (r - s) + t * (1 * 1) = 0
      linear_combination -hr'
    · show -r * 1 + 1 * (r - s) + s * (1 * 1) = 0
      ring
  rcases hzd _ _ hprod with h | h
  · have := congrArg PQ2.c1 h
    exact one_ne_zero this
  · have := congrArg PQ2.c1 h
    exact one_ne_zero this

/-- no zero divisors in `ZMod p [x]/(x³ - s·x - t)`  ⇒  `x³ - s·x - t` has no root in `ZMod p` -/
theorem poly3_no_root (hzd : ∀ a b : PQ3 (ZMod p) s t, a * b = 0 → a = 0 ∨ b = 0) (r : ZMod p) :
    ¬ (poly3 s t).IsRoot r := by
  intro hr
  have hr' : r ^ 3 - s * r - t = 0 := by
    simpa [poly3, IsRoot, eval_sub, eval_mul, eval_pow] using hr
  have hprod : ((⟨-r, 1, 0⟩ : PQ3 (ZMod p) s t) * ⟨r ^ 2 - s, r, 1⟩) = 0 := by
    have hφ := PQ3.φ_root (R := ZMod p) (s := s) (t := t)
    have e1 : (⟨-r, 1, 0⟩ : PQ3 (ZMod p) s t) = PQ3.φ - PQ3.C r := by
      ext <;> simp [PQ3.φ, PQ3.C]
    have e2 : (⟨r ^ 2 - s, r, 1⟩ : PQ3 (ZMod p) s t) = PQ3.φ ^ 2 + PQ3.C r * PQ3.φ + PQ3.C (r ^ 2 - s) := by
      have := PQ3.decomp (⟨r ^ 2 - s, r, 1⟩ : PQ3 (ZMod p) s t)
      rw [this]
      simp only [map_one, one_mul]
      ring
    rw [e1, e2]
    have hC : (PQ3.C (r ^ 3 - s * r - t) : PQ3 (ZMod p) s t) = 0 := by rw [hr', map_zero]
    simp only [map_sub, map_mul, map_pow] at hC ⊢
    linear_combination hφ - hC
  rcases hzd _ _ hprod with h | h
  · have := congrArg PQ3.c1 h
    exact one_ne_zero this
  · have := congrArg PQ3.c2 h
    exact one_ne_zero this

theorem poly2_irreducible (hzd : ∀ a b : PQ2 (ZMod p) s t, a * b = 0 → a = 0 ∨ b = 0) :
    Irreducible (poly2 s t) := by
  rw [poly2_monic.irreducible_iff_roots_eq_zero_of_degree_le_three (by rw [poly2_natDegree])
    (by rw [poly2_natDegree]; decide)]
  apply Multiset.eq_zero_of_forall_notMem
  intro r hr
  exact poly2_no_root hzd r (isRoot_of_mem_roots hr)

theorem poly3_irreducible (hzd : ∀ a b : PQ3 (ZMod p) s t, a * b = 0 → a = 0 ∨ b = 0) :
    Irreducible (poly3 s t) := by
  rw [poly3_monic.irreducible_iff_roots_eq_zero_of_degree_le_three (by rw [poly3_natDegree]; decide)
    (by rw [poly3_natDegree])]
  apply Multiset.eq_zero_of_forall_notMem
  intro r hr
  exact poly3_no_root hzd r (isRoot_of_mem_roots hr)

end WinterProofs.C08L
