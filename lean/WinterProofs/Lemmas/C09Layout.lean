-- C09 helper lemmas: the prover's segmented row-major LDE (segments of `N` columns transformed together,
-- transposed into one row-major matrix): cell (row, col) is the evaluation of polynomial `col` at `off · g^row`
import WinterProofs.Lemmas.C09Model

namespace WinterProofs.C09
open Model.Fft Finset

/-! ### generic builders -/

section generic
variable {γ : Type}

theorem buildArr_spec (f : Nat → Option γ) (g : Nat → γ) (n : Nat) (h : ∀ i, i < n → f i = some (g i)) :
    buildArr f n = some (Array.ofFn (n := n) (fun i => g i)) := by
  induction n with
  | zero => rfl
  | succ n ih =>
    rw [buildArr, ih (fun i hi => h i (by omega)), h n (by omega), Array.ofFn_succ]
    rfl

theorem getElem?_ofFn' (g : Nat → γ) (n i : Nat) (hi : i < n) :
    (Array.ofFn (n := n) (fun j => g j))[i]? = some (g i) := by
  rw [Array.getElem?_eq_getElem (by simpa using hi)]
  simp

/-- a loop that appends one chunk of `n` entries per iteration -/
theorem concat_inv (body : Nat → Array γ → Option (Array γ)) (chunk : Nat → Array γ) (cnt n : Nat)
    (hbody : ∀ i res, i < cnt → body i res = some (res ++ chunk i))
    (hsz : ∀ i, i < cnt → (chunk i).size = n) :
    ∃ res, forRange body 0 cnt #[] = some res ∧ res.size = cnt * n ∧
      ∀ i j, i < cnt → j < n → res[i * n + j]? = (chunk i)[j]? := by
  let P : Nat → Array γ → Prop := fun t res => res.size = t * n ∧
    ∀ i j, i < t → j < n → res[i * n + j]? = (chunk i)[j]?
  have h := forRange_inv body P cnt 0 #[] ⟨by simp, fun i j hi _ => by omega⟩
    (by
      intro t res _ ht ⟨hrs, hrv⟩
      simp only [Nat.zero_add] at ht
      refine ⟨_, hbody t res ht, ?_, ?_⟩
      · rw [Array.size_append, hrs, hsz t ht]; ring
      · intro i j hi hj
        rw [Array.getElem?_append, hrs]
        by_cases hit : i < t
        · have hlt : i * n + j < t * n := by
            have : (i + 1) * n ≤ t * n := Nat.mul_le_mul_right n hit
            have e : (i + 1) * n = i * n + n := by ring
            omega
          rw [if_pos hlt]
          exact hrv i j hit hj
        · have hit' : i = t := by omega
          subst hit'
          have hge : ¬ (i * n + j < i * n) := by omega
          rw [if_neg hge]
          have : i * n + j - i * n = j := by omega
          rw [this])
  obtain ⟨res, e, hrs, hrv⟩ := h
  simp only [Nat.zero_add] at hrs hrv
  exact ⟨res, e, hrs, hrv⟩

end generic

/-! ### a transform over rows `[B; N]` acts slot-wise -/

section slots
variable {F : Type} [Field F]

local instance : Inhabited F := ⟨0⟩

/-- the operations on rows of `N` field elements the prover's segments are transformed with -/
noncomputable def fieldRowOps (F : Type) [Field F] : Ops F (Array F) :=
  rowOps (· + ·) (· - ·) (· * ·) (fun x => by classical exact decide (x = 0))

theorem fftRec_rows (tw : Nat → F) (N k : Nat) : ∀ (x : Nat → Array F),
    (∀ j, j < 2 ^ k → (x j).size = N) → ∀ m, m < 2 ^ k →
      (fftRec (fieldRowOps F) tw k x m).size = N ∧
      ∀ i, i < N → vw (fftRec (fieldRowOps F) tw k x m) i
        = fftRec (modOps F F) tw k (fun j => vw (x j) i) m := by
  induction k with
  | zero =>
    intro x hx m hm
    have : m = 0 := by simpa using hm
    subst this
    exact ⟨hx 0 (by simp), fun i _ => rfl⟩
  | succ k ih =>
    intro x hx m hm
    have hpow : (2 : Nat) ^ (k + 1) = 2 * 2 ^ k := by rw [Nat.pow_succ]; ring
    have hm2 : m / 2 < 2 ^ k := by rw [hpow] at hm; omega
    obtain ⟨hes, hev⟩ := ih (fun j => x (2 * j)) (fun j hj => hx _ (by rw [hpow]; omega)) (m / 2) hm2
    obtain ⟨hos, hov⟩ := ih (fun j => x (2 * j + 1)) (fun j hj => hx _ (by rw [hpow]; omega)) (m / 2) hm2
    simp only [fftRec]
    set e := fftRec (fieldRowOps F) tw k (fun j => x (2 * j)) (m / 2) with he
    set o := fftRec (fieldRowOps F) tw k (fun j => x (2 * j + 1)) (m / 2) with ho
    -- the (possibly) twiddled odd part
    have ho' : (if m / 2 = 0 then o else (fieldRowOps F).mulBase o (tw (m / 2))).size = N ∧
        ∀ i, i < N → vw (if m / 2 = 0 then o else (fieldRowOps F).mulBase o (tw (m / 2))) i
          = if m / 2 = 0 then vw o i else (modOps F F).mulBase (vw o i) (tw (m / 2)) := by
      by_cases h0 : m / 2 = 0
      · rw [if_pos h0]; exact ⟨hos, fun i _ => by rw [if_pos h0]⟩
      · rw [if_neg h0]
        refine ⟨by simp [fieldRowOps, rowOps, hos], ?_⟩
        intro i hi
        rw [if_neg h0, vw_of_lt _ _ (by simp [fieldRowOps, rowOps, hos, hi]), vw_of_lt _ _ (by rw [hos]; exact hi)]
        simp [fieldRowOps, rowOps, modOps, mul_comm]
    obtain ⟨hos', hov'⟩ := ho'
    set o' := (if m / 2 = 0 then o else (fieldRowOps F).mulBase o (tw (m / 2))) with ho'
    by_cases hpar : m % 2 = 0
    · simp only [hpar, ↓reduceIte]
      refine ⟨by simp [fieldRowOps, rowOps, hes, hos'], ?_⟩
      intro i hi
      rw [vw_of_lt _ _ (by simp [fieldRowOps, rowOps, hes, hos', hi])]
      simp only [fieldRowOps, rowOps, Array.getElem_zipWith]
      rw [← vw_of_lt e i (by rw [hes]; exact hi), ← vw_of_lt o' i (by rw [hos']; exact hi), hev i hi, hov' i hi,
        hov i hi]
      rfl
    · simp only [hpar, ↓reduceIte]
      refine ⟨by simp [fieldRowOps, rowOps, hes, hos'], ?_⟩
      intro i hi
      rw [vw_of_lt _ _ (by simp [fieldRowOps, rowOps, hes, hos', hi])]
      simp only [fieldRowOps, rowOps, Array.getElem_zipWith]
      rw [← vw_of_lt e i (by rw [hes]; exact hi), ← vw_of_lt o' i (by rw [hos']; exact hi), hev i hi, hov' i hi,
        hov i hi]
      rfl

end slots

end WinterProofs.C09
