-- C09 helper lemmas: the prover's segmented row-major LDE (segments of `N` columns transformed together,
-- transposed into one row-major matrix): cell (row, col) is the evaluation of polynomial `col` at `off · g^row`
import WinterProofs.Lemmas.C09Model

namespace WinterProofs.C09
open Model.Fft Finset

/-! ### generic builders -/

section generic
variable {γ : Type}

theorem buildArr_spec (f : Nat → Option γ) (g : Nat → γ) (n : Nat) (h : ∀ i, i < n → f i = some (g i)) :
    buildArr f n = some (Array.ofFn (n := n) (fun i => g i)) := by
  induction n with
  | zero => rfl
  | succ n ih =>
    rw [buildArr, ih (fun i hi => h i (by omega)), h n (by omega), Array.ofFn_succ]
    rfl

theorem getElem?_ofFn' (g : Nat → γ) (n i : Nat) (hi : i < n) :
    (Array.ofFn (n := n) (fun j => g j))[i]? = some (g i) := by
  rw [Array.getElem?_eq_getElem (by simpa using hi)]
  simp

/-- a loop that appends one chunk of `n` entries per iteration -/
theorem concat_inv (body : Nat → Array γ → Option (Array γ)) (chunk : Nat → Array γ) (cnt n : Nat)
    (hbody : ∀ i res, i < cnt → body i res = some (res ++ chunk i))
    (hsz : ∀ i, i < cnt → (chunk i).size = n) :
    ∃ res, forRange body 0 cnt #[] = some res ∧ res.size = cnt * n ∧
      ∀ i j, i < cnt → j < n → res[i * n + j]? = (chunk i)[j]? := by
  let P : Nat → Array γ → Prop := fun t res => res.size = t * n ∧
    ∀ i j, i < t → j < n → res[i * n + j]? = (chunk i)[j]?
  have h := forRange_inv body P cnt 0 #[] ⟨by simp, fun i j hi _ => by omega⟩
    (by
      intro t res _ ht ⟨hrs, hrv⟩
      simp only [Nat.zero_add] at ht
      refine ⟨_, hbody t res ht, ?_, ?_⟩
      · rw [Array.size_append, hrs, hsz t ht]; ring
      · intro i j hi hj
        rw [Array.getElem?_append, hrs]
        by_cases hit : i < t
        · have hlt : i * n + j < t * n := by
            have : (i + 1) * n ≤ t * n := Nat.mul_le_mul_right n hit
            have e : (i + 1) * n = i * n + n := by ring
            omega
          rw [if_pos hlt]
          exact hrv i j hit hj
        · have hit' : i = t := by omega
          subst hit'
          have hge : ¬ (i * n + j < i * n) := by omega
          rw [if_neg hge]
          have : i * n + j - i * n = j := by omega
          rw [this])
  obtain ⟨res, e, hrs, hrv⟩ := h
  simp only [Nat.zero_add] at hrs hrv
  exact ⟨res, e, hrs, hrv⟩

/-- the same, followed by a continuation (the loop body is taken from the goal) -/
theorem concat_bind_inv {τ : Type} (body : Nat → Array γ → Option (Array γ)) (chunk : Nat → Array γ)
    (cnt n : Nat) (k : Array γ → Option τ) (Q : τ → Prop)
    (hbody : ∀ i res, i < cnt → body i res = some (res ++ chunk i))
    (hsz : ∀ i, i < cnt → (chunk i).size = n)
    (hk : ∀ res : Array γ, res.size = cnt * n →
      (∀ i j, i < cnt → j < n → res[i * n + j]? = (chunk i)[j]?) → ∃ r, k res = some r ∧ Q r) :
    ∃ r, (forRange body 0 cnt #[]).bind k = some r ∧ Q r := by
  obtain ⟨res, e, hrs, hrv⟩ := concat_inv body chunk cnt n hbody hsz
  obtain ⟨r, er, hq⟩ := hk res hrs hrv
  exact ⟨r, by rw [e, Option.bind_some, er], hq⟩

end generic

/-! ### a transform over rows `[B; N]` acts slot-wise -/

section slots
variable {F : Type} [Field F]

local instance : Inhabited F := ⟨0⟩

/-- the operations on rows of `N` field elements the prover's segments are transformed with -/
noncomputable def fieldRowOps (F : Type) [Field F] : Ops F (Array F) :=
  rowOps (· + ·) (· - ·) (· * ·) (fun x => by classical exact decide (x = 0))

theorem fftRec_rows (tw : Nat → F) (N k : Nat) : ∀ (x : Nat → Array F),
    (∀ j, j < 2 ^ k → (x j).size = N) → ∀ m, m < 2 ^ k →
      (fftRec (fieldRowOps F) tw k x m).size = N ∧
      ∀ i, i < N → vw (fftRec (fieldRowOps F) tw k x m) i
        = fftRec (modOps F F) tw k (fun j => vw (x j) i) m := by
  induction k with
  | zero =>
    intro x hx m hm
    have : m = 0 := by simpa using hm
    subst this
    exact ⟨hx 0 (by simp), fun i _ => rfl⟩
  | succ k ih =>
    intro x hx m hm
    have hpow : (2 : Nat) ^ (k + 1) = 2 * 2 ^ k := by rw [Nat.pow_succ]; ring
    have hm2 : m / 2 < 2 ^ k := by rw [hpow] at hm; omega
    obtain ⟨hes, hev⟩ := ih (fun j => x (2 * j)) (fun j hj => hx _ (by rw [hpow]; omega)) (m / 2) hm2
    obtain ⟨hos, hov⟩ := ih (fun j => x (2 * j + 1)) (fun j hj => hx _ (by rw [hpow]; omega)) (m / 2) hm2
    simp only [fftRec]
    set e := fftRec (fieldRowOps F) tw k (fun j => x (2 * j)) (m / 2) with he
    set o := fftRec (fieldRowOps F) tw k (fun j => x (2 * j + 1)) (m / 2) with ho
    -- the (possibly) twiddled odd part
    have ho' : (if m / 2 = 0 then o else (fieldRowOps F).mulBase o (tw (m / 2))).size = N ∧
        ∀ i, i < N → vw (if m / 2 = 0 then o else (fieldRowOps F).mulBase o (tw (m / 2))) i
          = if m / 2 = 0 then vw o i else (modOps F F).mulBase (vw o i) (tw (m / 2)) := by
      by_cases h0 : m / 2 = 0
      · rw [if_pos h0]; exact ⟨hos, fun i _ => by rw [if_pos h0]⟩
      · rw [if_neg h0]
        refine ⟨by simp [fieldRowOps, rowOps, hos], ?_⟩
        intro i hi
        rw [if_neg h0, vw_of_lt _ _ (by simp [fieldRowOps, rowOps, hos, hi]), vw_of_lt _ _ (by rw [hos]; exact hi)]
        simp [fieldRowOps, rowOps, modOps, mul_comm]
    obtain ⟨hos', hov'⟩ := ho'
    set o' := (if m / 2 = 0 then o else (fieldRowOps F).mulBase o (tw (m / 2))) with ho'
    by_cases hpar : m % 2 = 0
    · simp only [hpar, ↓reduceIte]
      refine ⟨by simp [fieldRowOps, rowOps, hes, hos'], ?_⟩
      intro i hi
      rw [vw_of_lt _ _ (by simp [fieldRowOps, rowOps, hes, hos', hi])]
      simp only [fieldRowOps, rowOps, Array.getElem_zipWith]
      rw [← vw_of_lt e i (by rw [hes]; exact hi), ← vw_of_lt o' i (by rw [hos']; exact hi), hev i hi, hov' i hi,
        hov i hi]
      rfl
    · simp only [hpar, ↓reduceIte]
      refine ⟨by simp [fieldRowOps, rowOps, hes, hos'], ?_⟩
      intro i hi
      rw [vw_of_lt _ _ (by simp [fieldRowOps, rowOps, hes, hos', hi])]
      simp only [fieldRowOps, rowOps, Array.getElem_zipWith]
      rw [← vw_of_lt e i (by rw [hes]; exact hi), ← vw_of_lt o' i (by rw [hos']; exact hi), hev i hi, hov' i hi,
        hov i hi]
      rfl

/-! ### evaluation offsets and the point a cell is evaluated at -/

theorem vw_ofFn (g : Nat → F) (n i : Nat) (hi : i < n) : vw (Array.ofFn (n := n) (fun j => g j)) i = g i := by
  rw [vw_eq_getElem?, getElem?_ofFn' g n i hi]; rfl

/-- position `q` of the permuted concatenation of `2^b` chunks comes from chunk `Pq / n`, position `Pq % n`
    (`Pq` the bit reversal of `q`), and the point that chunk/position was evaluated at is `off · g^q` -/
theorem coset_point (τ : F) (A k b : Nat) (hk : k + 1 + b ≤ A) (off : F) (q : Nat) (hq : q < 2 ^ (k + 1 + b)) :
    let n := 2 ^ (k + 1)
    let Pq := brev (k + 1 + b) q
    Pq / n < 2 ^ b ∧ Pq % n < n ∧ Pq = (Pq / n) * n + Pq % n ∧
    rootK τ A (k + 1) ^ brev (k + 1) (Pq % n) * (rootK τ A (k + 1 + b) ^ brev b (Pq / n) * off)
      = off * rootK τ A (k + 1 + b) ^ q := by
  intro n Pq
  have hn : n * 2 ^ b = 2 ^ (k + 1 + b) := (Nat.pow_add 2 (k + 1) b).symm
  have hPlt : Pq < 2 ^ (k + 1 + b) := brev_lt _ _
  have hnpos : 0 < n := Nat.pow_pos (by decide)
  have hdecomp : Pq = (Pq / n) * n + Pq % n := by
    have := Nat.div_add_mod Pq n
    rw [Nat.mul_comm] at this; omega
  have hi : Pq / n < 2 ^ b := by
    rw [Nat.div_lt_iff_lt_mul hnpos, Nat.mul_comm, hn]; exact hPlt
  have hj : Pq % n < n := Nat.mod_lt _ hnpos
  refine ⟨hi, hj, hdecomp, ?_⟩
  rw [← rootK_pow_blowup τ A (k + 1) b hk, ← pow_mul, mul_comm off, ← mul_assoc, ← pow_add]
  congr 2
  have hc := brev_concat (k + 1) b (Pq / n) (Pq % n) hj
  rw [← hdecomp] at hc
  have hbb : brev (k + 1 + b) Pq = q := brev_brev _ _ hq
  rw [hbb] at hc
  rw [hc]; ring

/-- `get_evaluation_offsets`: entry `c·n + row` is `(g^{brev b c} · off)^row` -/
theorem evaluationOffsets_spec (τ : F) (A k b : Nat) (hk : k + 1 + b ≤ A) (hb64 : b ≤ 64) (off : F) :
    ∃ offs, evaluationOffsets (fieldOps F τ A) (2 ^ (k + 1)) (2 ^ b) off = some offs ∧
      offs.size = 2 ^ b * 2 ^ (k + 1) ∧
      ∀ c row, c < 2 ^ b → row < 2 ^ (k + 1) →
        offs[c * 2 ^ (k + 1) + row]? = some ((rootK τ A (k + 1 + b) ^ brev b c * off) ^ row) := by
  have hn : (2 : Nat) ^ (k + 1) * 2 ^ b = 2 ^ (k + 1 + b) := (Nat.pow_add 2 (k + 1) b).symm
  unfold evaluationOffsets
  rw [hn, ilog2_two_pow]
  simp only [rootOfUnity_fieldOps τ A (k + 1 + b) hk (by omega)]
  have hne : ¬ (2 ^ (k + 1) = 0) := by positivity
  rw [if_neg hne]
  have e0 : (Array.mkEmpty (2 ^ (k + 1 + b)) : Array F) = #[] := rfl
  rw [e0]
  set g := rootK τ A (k + 1 + b) with hg
  obtain ⟨res, e, hrs, hrv⟩ := concat_inv
    (fun c (res : Array F) =>
      match permuteIndex (2 ^ b) c with
      | none => none
      | some idx =>
        let off' := (fieldOps F τ A).mul ((fieldOps F τ A).exp g idx) off
        some (res ++ (powersFrom (fieldOps F τ A).mul off' (2 ^ (k + 1)) (fieldOps F τ A).one).toArray))
    (fun c => (powersFrom (· * ·) (g ^ brev b c * off) (2 ^ (k + 1)) 1).toArray) (2 ^ b) (2 ^ (k + 1))
    (by
      intro c res hc
      rw [permuteIndex_two_pow b c hb64 hc]
      rfl)
    (by intro c _; simp [powersFrom_length])
  refine ⟨res, e, hrs, ?_⟩
  intro c row hc hrow
  rw [hrv c row hc hrow]
  have := powersFrom_getElem? (g ^ brev b c * off) (2 ^ (k + 1)) 1 row hrow
  rw [one_mul] at this
  simpa using this

/-! ### one segment -/

/-- coefficient `row` of base column `c` of the column-major matrix -/
def colv (polys : Array (Array F)) (c row : Nat) : F := vw (vw polys c) row

/-- cell `(row, i)` of a chunk before the transform: the coefficient times `pt^row`, zero in unused slots -/
def cellPre (polys : Array (Array F)) (po : Nat) (pt : F) (row i : Nat) : F :=
  if po + i < polys.size then colv polys (po + i) row * pt ^ row else 0

theorem segmentChunk_spec (polys : Array (Array F)) (n N po : Nat) (offs : Array F) (c : Nat) (pt : F)
    (hcols : ∀ j, j < polys.size → (vw polys j).size = n)
    (hoffs : ∀ row, row < n → offs[c * n + row]? = some (pt ^ row)) :
    segmentChunk (· * ·) (0 : F) N (min (polys.size - po) N) polys n po offs c
      = some (Array.ofFn (n := n) fun row => Array.ofFn (n := N) fun i => cellPre polys po pt row i) := by
  unfold segmentChunk
  apply buildArr_spec (g := fun row => Array.ofFn (n := N) fun i => cellPre polys po pt row i)
  intro row hrow
  rw [hoffs row hrow]
  simp only
  apply buildArr_spec (g := fun i => cellPre polys po pt row i)
  intro i hi
  unfold cellPre colv
  by_cases hlt : po + i < polys.size
  · have h1 : i < min (polys.size - po) N := by omega
    rw [if_pos h1, if_pos hlt, Array.getElem?_eq_getElem hlt]
    have hsz := hcols (po + i) hlt
    rw [vw_of_lt polys _ hlt] at hsz ⊢
    have hr : row < (polys[po + i]).size := by rw [hsz]; exact hrow
    simp only
    rw [Array.getElem?_eq_getElem hr, vw_of_lt _ _ hr]
    rfl
  · have h1 : ¬ i < min (polys.size - po) N := by omega
    rw [if_neg h1, if_neg hlt]

/-- `Segment::new` for the segment starting at base column `po`: row `q`, slot `i` is the evaluation of base
    column `po + i` at `off · g^q`, zero in the unused slots of a ragged segment -/
theorem segmentNew_spec (τ : F) (A k b : Nat) (hτ : IsPrimitiveRoot τ (2 ^ A)) (hk : k + 1 + b ≤ A)
    (hk64 : k + 1 + b ≤ 64) (hb : 1 ≤ b) (maxLoop N : Nat) (polys : Array (Array F)) (po : Nat)
    (hpo : po < polys.size) (hcols : ∀ j, j < polys.size → (vw polys j).size = 2 ^ (k + 1))
    (tw : Array F) (htw : getTwiddles (fieldOps F τ A) (2 ^ (k + 1)) = some tw)
    (off : F) (offs : Array F) (hos : offs.size = 2 ^ b * 2 ^ (k + 1))
    (hov : ∀ c row, c < 2 ^ b → row < 2 ^ (k + 1) →
        offs[c * 2 ^ (k + 1) + row]? = some ((rootK τ A (k + 1 + b) ^ brev b c * off) ^ row)) :
    ∃ seg, segmentNew (fieldRowOps F) (· * ·) (0 : F) maxLoop N polys (2 ^ (k + 1)) po offs tw = some seg ∧
      seg.size = 2 ^ (k + 1 + b) ∧
      ∀ q, q < 2 ^ (k + 1 + b) → (vw seg q).size = N ∧
        ∀ i, i < N → vw (vw seg q) i =
          if po + i < polys.size then
            evalAt (2 ^ (k + 1)) (colv polys (po + i)) (off * rootK τ A (k + 1 + b) ^ q)
          else 0 := by
  obtain ⟨tw', e', hts, htv⟩ := getTwiddles_spec (F := F) τ A k (by omega) (by omega)
  rw [htw] at e'
  obtain rfl : tw = tw' := Option.some.inj e'
  have hn : (2 : Nat) ^ (k + 1) * 2 ^ b = 2 ^ (k + 1 + b) := (Nat.pow_add 2 (k + 1) b).symm
  have hn' : (2 : Nat) ^ b * 2 ^ (k + 1) = 2 ^ (k + 1 + b) := by rw [← hn]; ring
  set n := 2 ^ (k + 1) with hnn
  set g := rootK τ A (k + 1 + b) with hg
  set ω := rootK τ A (k + 1) with hω
  have hnpos : 0 < n := Nat.pow_pos (by decide)
  unfold segmentNew
  rw [hos, hn']
  have c1 : ¬ ¬ (isPow2 (2 ^ (k + 1 + b)) = true ∧ 2 ^ (k + 1 + b) > n ∧ n = tw.size * 2 ∧ po < polys.size) := by
    refine not_not.mpr ⟨isPow2_two_pow _, ?_, ?_, hpo⟩
    · exact Nat.pow_lt_pow_right (by decide) (by omega)
    · rw [hts, hnn, Nat.pow_succ]
  have c2 : ¬ (n = 0) := by omega
  have hdiv : 2 ^ (k + 1 + b) / n = 2 ^ b := by rw [← hn']; exact Nat.mul_div_cancel _ hnpos
  rw [if_neg c1, if_neg c2, hdiv]
  have e0 : (Array.mkEmpty (2 ^ (k + 1 + b)) : Array (Array F)) = #[] := rfl
  rw [e0]
  dsimp only
  -- the transformed chunks
  let pt : Nat → F := fun c => g ^ brev b c * off
  let pre : Nat → Array (Array F) := fun c =>
    Array.ofFn (n := n) fun row => Array.ofFn (n := N) fun i => cellPre polys po (pt c) row i
  let chunk : Nat → Array (Array F) := fun c => (fftTop (fieldRowOps F) maxLoop tw (pre c)).getD #[]
  have hpreget : ∀ c j, j < n → (pre c)[j]? = some (Array.ofFn (n := N) fun i => cellPre polys po (pt c) j i) :=
    fun c j hj => getElem?_ofFn' (fun row => Array.ofFn (n := N) fun i => cellPre polys po (pt c) row i) n j hj
  have hpre : ∀ c, c < 2 ^ b → segmentChunk (· * ·) (0 : F) N (min (polys.size - po) N) polys n po offs c
      = some (pre c) := fun c hc =>
    segmentChunk_spec polys n N po offs c (pt c) hcols (fun row hrow => hov c row hc hrow)
  have hchunk : ∀ c, c < 2 ^ b → fftTop (fieldRowOps F) maxLoop tw (pre c) = some (chunk c) ∧
      (chunk c).size = n ∧ ∀ m, m < n → (vw (chunk c) m).size = N ∧ ∀ i, i < N →
        vw (vw (chunk c) m) i =
          if po + i < polys.size then evalAt n (colv polys (po + i)) (ω ^ brev (k + 1) m * pt c) else 0 := by
    intro c _
    have hps : (pre c).size = 2 ^ (k + 1) := by simp only [pre, Array.size_ofFn]; exact hnn
    obtain ⟨bc, ebc, hbs, hbv⟩ := fftTop_spec (fieldRowOps F) maxLoop tw k (pre c) hps (by omega)
    have hcb : chunk c = bc := by simp [chunk, ebc]
    rw [hcb]
    refine ⟨ebc, by rw [hbs, hps], ?_⟩
    intro m hm
    rw [hbv m hm]
    have hrows : ∀ j, j < 2 ^ (k + 1) → (vw (pre c) j).size = N := by
      intro j hj
      rw [vw_eq_getElem?, hpreget c j hj]
      simp
    obtain ⟨hsz, hsl⟩ := fftRec_rows (twf tw) N (k + 1) (vw (pre c)) hrows m hm
    refine ⟨hsz, ?_⟩
    intro i hi
    rw [hsl i hi]
    have hTw : TwOk (twf tw) ω (k + 1) := by
      intro i _ hi
      simp only [Nat.add_sub_cancel] at hi ⊢
      exact htv i hi
    rw [fftRec_eq_dft (k + 1) ω (twf tw) _
      (fun _ => by simpa using rootK_half τ A (k + 1) (by omega) (by omega) hτ) hTw _ hm]
    -- slot `i` of the chunk rows is the shifted column (or zero)
    have hslot : ∀ j, j < n → vw (vw (pre c) j) i = cellPre polys po (pt c) j i := by
      intro j hj
      have : vw (pre c) j = Array.ofFn (n := N) fun i => cellPre polys po (pt c) j i := by
        rw [vw_eq_getElem?, hpreget c j hj]; rfl
      rw [this, vw_ofFn _ N i hi]
    rw [dft_congr ω n _ _ hslot]
    by_cases hlt : po + i < polys.size
    · rw [if_pos hlt]
      unfold dft
      apply evalAt_shift
      intro j _
      simp only [cellPre, if_pos hlt, smul_eq_mul]
      ring
    · rw [if_neg hlt]
      simp [dft, evalAt, cellPre, hlt]
  apply concat_bind_inv (chunk := chunk) (n := n)
    (Q := fun seg => seg.size = 2 ^ (k + 1 + b) ∧
      ∀ q, q < 2 ^ (k + 1 + b) → (vw seg q).size = N ∧
        ∀ i, i < N → vw (vw seg q) i =
          if po + i < polys.size then evalAt n (colv polys (po + i)) (off * g ^ q) else 0)
  · intro c res hc
    simp only [hpre c hc, (hchunk c hc).1, Option.map_some]
  · exact fun c hc => (hchunk c hc).2.1
  · intro res hrs hrv
    have hrsz : res.size = 2 ^ (k + 1 + b) := by rw [hrs, hn']
    obtain ⟨seg, es, hss, hsv⟩ := permute_spec (k + 1 + b) hk64 res hrsz
    refine ⟨seg, es, by rw [hss, hrsz], ?_⟩
    intro q hq
    obtain ⟨hi, hj, hdecomp, hpt⟩ := coset_point τ A k b hk off q hq
    have h1 := hsv q (by rw [hrsz]; exact hq)
    have h2 : vw seg q = vw (chunk (brev (k + 1 + b) q / n)) (brev (k + 1 + b) q % n) := by
      rw [vw_eq_getElem?, h1, hdecomp, hrv _ _ hi hj, ← vw_eq_getElem?, ← hdecomp]
    rw [h2]
    obtain ⟨hsz, hsl⟩ := (hchunk _ hi).2.2 _ hj
    refine ⟨hsz, ?_⟩
    intro i hiN
    rw [hsl i hiN]
    by_cases hlt : po + i < polys.size
    · rw [if_pos hlt, if_pos hlt, hpt]
    · rw [if_neg hlt, if_neg hlt]

/-! ### transposition and flattening -/

theorem idx_inj (S i j i' j' : Nat) (hj : j < S) (hj' : j' < S) (h : i * S + j = i' * S + j') :
    i = i' ∧ j = j' := by
  rcases Nat.lt_trichotomy i i' with hlt | heq | hgt
  · exfalso
    obtain ⟨d, hd⟩ := Nat.exists_eq_add_of_lt hlt
    subst hd
    have e : (i + d + 1) * S = i * S + d * S + S := by ring
    rw [e] at h; omega
  · subst heq; exact ⟨rfl, by omega⟩
  · exfalso
    obtain ⟨d, hd⟩ := Nat.exists_eq_add_of_lt hgt
    subst hd
    have e : (i' + d + 1) * S = i' * S + d * S + S := by ring
    rw [e] at h; omega

theorem idx_lt (S R i j : Nat) (hi : i < R) (hj : j < S) : i * S + j < R * S := by
  have : (i + 1) * S ≤ R * S := Nat.mul_le_mul_right S hi
  have e : (i + 1) * S = i * S + S := by ring
  omega

/-- `transpose`: row `i` of segment `j` lands at index `i * S + j` -/
theorem transposeSegments_spec {β' : Type} (segs : Array (Array (Array β'))) (R : Nat)
    (hS : 0 < segs.size) (hrows : ∀ j, j < segs.size → (vw segs j).size = R) :
    ∃ T, transposeSegments segs R = some T ∧ T.size = R * segs.size ∧
      ∀ i j, i < R → j < segs.size → vw T (i * segs.size + j) = vw (vw segs j) i := by
  unfold transposeSegments
  by_cases h1 : segs.size = 1
  · rw [if_pos h1]
    refine ⟨vw segs 0, ?_, ?_, ?_⟩
    · rw [vw_of_lt segs 0 hS]; exact Array.getElem?_eq_getElem hS
    · rw [hrows 0 hS, h1]; ring
    · intro i j _ hj
      have : j = 0 := by omega
      subst this
      rw [h1]; simp
  · rw [if_neg h1]
    set S := segs.size with hSdef
    let P : Nat → Array (Array β') → Prop := fun t res => res.size = R * S ∧
      ∀ i j, i < t → j < S → vw res (i * S + j) = vw (vw segs j) i
    obtain ⟨T, e, hP⟩ := forRange_inv (σ := Array (Array β'))
      (fun i res =>
        forRange (fun j (res : Array (Array β')) =>
          match segs[j]? with
          | none => none
          | some seg =>
            match seg[i]? with
            | none => none
            | some cells =>
              if h : i * S + j < res.size then some (res.set (i * S + j) cells) else none)
          0 S res) P R 0 (Array.replicate (R * S) #[])
      ⟨by simp, fun i j hi _ => by omega⟩
      (by
        intro t res _ ht ⟨hrs, hrv⟩
        simp only [Nat.zero_add] at ht
        let Pin : Nat → Array (Array β') → Prop := fun u res => res.size = R * S ∧
          (∀ i j, i < t → j < S → vw res (i * S + j) = vw (vw segs j) i) ∧
          (∀ j, j < u → vw res (t * S + j) = vw (vw segs j) t)
        obtain ⟨res', e', hP'⟩ := forRange_inv (σ := Array (Array β'))
          (fun j (res : Array (Array β')) =>
            match segs[j]? with
            | none => none
            | some seg =>
              match seg[t]? with
              | none => none
              | some cells =>
                if h : t * S + j < res.size then some (res.set (t * S + j) cells) else none)
          Pin S 0 res ⟨hrs, hrv, fun j hj => by omega⟩
          (by
            intro u r _ hu ⟨hr1, hr2, hr3⟩
            simp only [Nat.zero_add] at hu
            have hseg : segs[u]? = some (vw segs u) := by
              rw [vw_of_lt segs u hu]; exact Array.getElem?_eq_getElem hu
            have hsz := hrows u hu
            have hcell : (vw segs u)[t]? = some (vw (vw segs u) t) := by
              rw [vw_of_lt (vw segs u) t (by rw [hsz]; exact ht)]
              exact Array.getElem?_eq_getElem (by rw [hsz]; exact ht)
            have hidx : t * S + u < r.size := by rw [hr1]; exact idx_lt S R t u ht hu
            simp only [hseg, hcell, hidx, ↓reduceDIte]
            refine ⟨_, rfl, by simp [hr1], ?_, ?_⟩
            · intro i j hi hj
              rw [vw_set]
              have hne : ¬ (i * S + j = t * S + u) := by
                intro h; have := (idx_inj S i j t u hj hu h).1; omega
              rw [if_neg hne]; exact hr2 i j hi hj
            · intro j hj
              rw [vw_set]
              by_cases hju : j = u
              · subst hju; rw [if_pos rfl]
              · have hne : ¬ (t * S + j = t * S + u) := by omega
                rw [if_neg hne]; exact hr3 j (by omega))
        simp only [Nat.zero_add] at hP'
        obtain ⟨h1', h2', h3'⟩ := hP'
        refine ⟨res', e', h1', ?_⟩
        intro i j hi hj
        by_cases hit : i < t
        · exact h2' i j hit hj
        · have : i = t := by omega
          subst this
          exact h3' j hj)
    simp only [Nat.zero_add] at hP
    exact ⟨T, e, hP.1, hP.2⟩

theorem flattenRows_spec {β' : Type} (rows : Array (Array β')) (N : Nat)
    (hsz : ∀ t, t < rows.size → (vw rows t).size = N) :
    ∃ d, flattenRows rows = some d ∧ d.size = rows.size * N ∧
      ∀ t e, t < rows.size → e < N → d[t * N + e]? = (vw rows t)[e]? := by
  unfold flattenRows
  exact concat_inv (fun t (res : Array β') => (rows[t]?).map (res ++ ·)) (fun t => vw rows t) rows.size N
    (by
      intro t res ht
      rw [Array.getElem?_eq_getElem ht, vw_of_lt rows t ht]
      rfl)
    hsz

/-- number of segments of width `N` for `C` base columns (`build_segments`) -/
def numSegments (C N : Nat) : Nat := if C % N = 0 then C / N else C / N + 1

theorem numSegments_props (C N : Nat) (hN : 0 < N) (hC : 0 < C) :
    0 < numSegments C N ∧ C ≤ numSegments C N * N ∧ ∀ i, i < numSegments C N → i * N < C := by
  unfold numSegments
  have hdm := Nat.div_add_mod C N
  have hmod := Nat.mod_lt C hN
  by_cases h : C % N = 0
  · rw [if_pos h]
    have e : C / N * N = C := by rw [Nat.mul_comm]; omega
    refine ⟨?_, by omega, ?_⟩
    · rcases Nat.eq_zero_or_pos (C / N) with h0 | h0
      · rw [h0] at e; omega
      · exact h0
    · intro i hi
      have : (i + 1) * N ≤ C / N * N := Nat.mul_le_mul_right N hi
      have e2 : (i + 1) * N = i * N + N := by ring
      omega
  · rw [if_neg h]
    have e : (C / N + 1) * N = N * (C / N) + N := by ring
    refine ⟨Nat.succ_pos _, by rw [e]; omega, ?_⟩
    intro i hi
    have : i * N ≤ C / N * N := Nat.mul_le_mul_right N (by omega)
    have e2 : C / N * N = N * (C / N) := Nat.mul_comm _ _
    omega

/-- `build_segments` + `from_segments`: the flat data of the row-major matrix -/
theorem rowMatrixFromPolys_spec (τ : F) (A k b : Nat) (hτ : IsPrimitiveRoot τ (2 ^ A)) (hk : k + 1 + b ≤ A)
    (hk64 : k + 1 + b ≤ 64) (hb : 1 ≤ b) (maxLoop N : Nat) (hN : 0 < N) (polys : Array (Array F))
    (hC : 0 < polys.size) (hcols : ∀ j, j < polys.size → (vw polys j).size = 2 ^ (k + 1))
    (tw : Array F) (htw : getTwiddles (fieldOps F τ A) (2 ^ (k + 1)) = some tw)
    (off : F) (offs : Array F) (hos : offs.size = 2 ^ b * 2 ^ (k + 1))
    (hov : ∀ c row, c < 2 ^ b → row < 2 ^ (k + 1) →
        offs[c * 2 ^ (k + 1) + row]? = some ((rootK τ A (k + 1 + b) ^ brev b c * off) ^ row)) :
    ∃ rm, rowMatrixFromPolys (fieldRowOps F) (· * ·) (0 : F) maxLoop N polys (2 ^ (k + 1)) offs tw = some rm ∧
      rm.rowWidth = numSegments polys.size N * N ∧ rm.elementsPerRow = polys.size ∧
      rm.data.size = 2 ^ (k + 1 + b) * (numSegments polys.size N * N) ∧
      ∀ row col, row < 2 ^ (k + 1 + b) → col < numSegments polys.size N * N →
        vw rm.data (row * (numSegments polys.size N * N) + col) =
          if col < polys.size then
            evalAt (2 ^ (k + 1)) (colv polys col) (off * rootK τ A (k + 1 + b) ^ row)
          else 0 := by
  obtain ⟨hSpos, hCle, hpo⟩ := numSegments_props polys.size N hN hC
  set S := numSegments polys.size N with hS
  set R := 2 ^ (k + 1 + b) with hR
  unfold rowMatrixFromPolys
  rw [if_neg (by omega : ¬ N = 0)]
  dsimp only
  have hSeq : (if polys.size % N = 0 then polys.size / N else polys.size / N + 1) = S := rfl
  rw [hSeq]
  -- the segments
  let seg : Nat → Array (Array F) := fun i =>
    (segmentNew (fieldRowOps F) (· * ·) (0 : F) maxLoop N polys (2 ^ (k + 1)) (i * N) offs tw).getD #[]
  have hseg : ∀ i, i < S →
      segmentNew (fieldRowOps F) (· * ·) (0 : F) maxLoop N polys (2 ^ (k + 1)) (i * N) offs tw = some (seg i) ∧
      (seg i).size = R ∧ ∀ q, q < R → (vw (seg i) q).size = N ∧ ∀ e, e < N → vw (vw (seg i) q) e =
        if i * N + e < polys.size then evalAt (2 ^ (k + 1)) (colv polys (i * N + e)) (off * rootK τ A (k + 1 + b) ^ q)
        else 0 := by
    intro i hi
    obtain ⟨sg, e, h1, h2⟩ := segmentNew_spec τ A k b hτ hk hk64 hb maxLoop N polys (i * N) (hpo i hi) hcols
      tw htw off offs hos hov
    have : seg i = sg := by simp [seg, e]
    rw [this]; exact ⟨e, h1, h2⟩
  rw [buildArr_spec _ seg S (fun i hi => (hseg i hi).1)]
  set segs := Array.ofFn (n := S) (fun i => seg i) with hsegs
  have hsegsz : segs.size = S := by simp [hsegs]
  have hsegv : ∀ j, j < S → vw segs j = seg j := by
    intro j hj
    rw [vw_eq_getElem?, hsegs, getElem?_ofFn' seg S j hj]; rfl
  have hs0 : segs[0]? = some (seg 0) := by rw [hsegs, getElem?_ofFn' seg S 0 hSpos]
  have c1 : ¬ (segs.size = 0) := by omega
  have c2 : ¬ (polys.size > segs.size * N) := by rw [hsegsz]; omega
  simp only [c1, c2, ↓reduceIte, hs0, (hseg 0 hSpos).2.1]
  obtain ⟨T, eT, hTs, hTv⟩ := transposeSegments_spec segs R (by omega)
    (fun j hj => by rw [hsegv j (by omega)]; exact (hseg j (by omega)).2.1)
  rw [hsegsz] at hTs hTv
  have hTrow : ∀ t, t < T.size → (vw T t).size = N := by
    intro t ht
    rw [hTs] at ht
    have hdm := Nat.div_add_mod t S
    have hj : t % S < S := Nat.mod_lt _ hSpos
    have hi : t / S < R := by rw [Nat.div_lt_iff_lt_mul hSpos]; exact ht
    have : t = t / S * S + t % S := by rw [Nat.mul_comm]; omega
    rw [this, hTv _ _ hi hj, hsegv _ hj]
    exact ((hseg _ hj).2.2 _ hi).1
  obtain ⟨d, ed, hds, hdv⟩ := flattenRows_spec T N hTrow
  rw [eT, Option.bind_some, ed]
  refine ⟨_, rfl, by simp [hsegsz], rfl, ?_, ?_⟩
  · show d.size = R * (S * N)
    rw [hds, hTs]; ring
  · intro row col hrow hcol
    show vw d (row * (S * N) + col) = _
    have hdm := Nat.div_add_mod col N
    have he : col % N < N := Nat.mod_lt _ hN
    have hj : col / N < S := by rw [Nat.div_lt_iff_lt_mul hN]; exact hcol
    have hidx : row * (S * N) + col = (row * S + col / N) * N + col % N := by
      have : col = col / N * N + col % N := by rw [Nat.mul_comm]; omega
      calc row * (S * N) + col = row * (S * N) + (col / N * N + col % N) := by rw [← this]
        _ = (row * S + col / N) * N + col % N := by ring
    have hcoleq : col / N * N + col % N = col := by rw [Nat.mul_comm]; omega
    rw [hidx, vw_eq_getElem?, hdv _ _ (by rw [hTs]; exact idx_lt S R row _ hrow hj) he, ← vw_eq_getElem?,
      hTv _ _ hrow hj, hsegv _ hj, ((hseg _ hj).2.2 _ hrow).2 _ he, hcoleq]

theorem starkDomainBlowup_spec (τ : F) (A k b : Nat) (hk : k + 1 + b ≤ A) (tw : Array F) (hts : tw.size = 2 ^ k) :
    starkDomainBlowup (fieldOps F τ A) tw (2 ^ b) = some (2 ^ b) := by
  unfold starkDomainBlowup
  rw [hts]
  have c1 : ¬ ¬ (isPow2 (2 ^ k) = true ∧ isPow2 (2 ^ b) = true) := not_not.mpr ⟨isPow2_two_pow _, isPow2_two_pow _⟩
  rw [if_neg c1]
  have hce : 2 ^ k * 2 ^ b * 2 = 2 ^ (k + 1 + b) := by
    rw [Nat.pow_add, Nat.pow_add]; ring
  dsimp only
  rw [hce, ilog2_two_pow]
  simp only [rootOfUnity_fieldOps τ A (k + 1 + b) hk (by omega)]
  congr 1
  have : 2 ^ (k + 1 + b) = 2 ^ b * (2 ^ k * 2) := by rw [← hce]; ring
  rw [this]
  exact Nat.mul_div_cancel _ (by positivity)

/-- (f) `RowMatrix::evaluate_polys_over::<N>` over the domain `from_twiddles(get_twiddles(n), 2^b, off)`:
    for ANY number `C ≥ 1` of base columns and ANY segment width `N ≥ 1`, the row width is
    `⌈C / N⌉ · N`, and cell `(row, col)` of the flat row-major data is the evaluation of polynomial `col` at
    `off · g^row` (`g` the root of unity of the LDE domain); the padding cells `col ≥ C` are zero -/
theorem evaluatePolysOver_spec (τ : F) (A k b : Nat) (hτ : IsPrimitiveRoot τ (2 ^ A)) (hk : k + 1 + b ≤ A)
    (hk64 : k + 1 + b ≤ 64) (hb : 1 ≤ b) (maxLoop N : Nat) (hN : 0 < N) (polys : Array (Array F))
    (hC : 0 < polys.size) (hcols : ∀ j, j < polys.size → (vw polys j).size = 2 ^ (k + 1))
    (tw : Array F) (htw : getTwiddles (fieldOps F τ A) (2 ^ (k + 1)) = some tw) (off : F) :
    ∃ rm, evaluatePolysOver (fieldRowOps F) (fieldOps F τ A) (0 : F) maxLoop N polys (2 ^ (k + 1)) tw (2 ^ b) off
        = some rm ∧
      rm.rowWidth = numSegments polys.size N * N ∧ rm.elementsPerRow = polys.size ∧
      rm.data.size = 2 ^ (k + 1 + b) * (numSegments polys.size N * N) ∧
      ∀ row col, row < 2 ^ (k + 1 + b) → col < numSegments polys.size N * N →
        vw rm.data (row * (numSegments polys.size N * N) + col) =
          if col < polys.size then
            evalAt (2 ^ (k + 1)) (colv polys col) (off * rootK τ A (k + 1 + b) ^ row)
          else 0 := by
  obtain ⟨tw', e', hts, _⟩ := getTwiddles_spec (F := F) τ A k (by omega) (by omega)
  rw [htw] at e'
  obtain rfl : tw = tw' := Option.some.inj e'
  obtain ⟨offs, eo, hos, hov⟩ := evaluationOffsets_spec τ A k b hk (by omega) off
  unfold evaluatePolysOver
  rw [if_neg (by omega : ¬ N = 0), starkDomainBlowup_spec τ A k b hk tw hts]
  simp only [eo]
  exact rowMatrixFromPolys_spec τ A k b hτ hk hk64 hb maxLoop N hN polys hC hcols tw htw off offs hos hov

end slots

end WinterProofs.C09
