-- C15: the model's `applyDrp` over a field: what it computes on arbitrary rows, and the folding identity on the
-- evaluations of a polynomial (helper lemmas; the property theorems are in WinterProofs/C15.lean)
import WinterProofs.Lemmas.C15Bridge
import WinterProofs.Lemmas.C15Layout
import WinterProofs.Lemmas.C05Decision

namespace WinterProofs.C15

open Model.Fri Finset Polynomial

variable {F : Type} [Field F] [DecidableEq F]
variable (root : ℕ → F) (rootOk : ℕ → Bool) (offset : F)

local notation "ops" => fieldOps root rootOk offset

/-- `applyDrp` on arbitrary rows: entry `i` is the row computation `drpRow` with the inverse offset of row `i` -/
theorem applyDrp_rows (N : ℕ) (rows : List (List F)) (α : F)
    (hn : rows.length * N ≠ 0)
    (hok : rootOk (Nat.log2 (rows.length * N)) = true) (hokN : rootOk (Nat.log2 N) = true) :
    applyDrp ops N rows α = .ok ((List.range rows.length).map fun i =>
      drpRow ops (root (Nat.log2 N) ^ (N - 1)) ((N : F))⁻¹ α (rows.getD i [])
        (offset⁻¹ * ((root (Nat.log2 (rows.length * N)))⁻¹) ^ i)) := by
  unfold applyDrp
  simp only [hn, ↓reduceIte, fieldOps_rootOk, hok, hokN, Bool.not_true, Bool.false_eq_true, fieldOps_root,
    fieldOps_inv, fieldOps_offset, fieldOps_ofNat, pow_fieldOps, powerSeries_fieldOps]
  congr 1
  apply List.ext_getElem
  · simp
  · intro i h1 h2
    simp only [List.length_map, List.length_zip, List.length_range, Nat.min_self] at h1
    simp [List.getD_eq_getElem?_getD, h1]

omit [DecidableEq F] in
/-- the evaluations of `f` over the coset `offset·<g>` of size `n` -/
def evalsOf (g : F) (f : F[X]) (n : ℕ) : List F :=
  (List.range n).map fun i => f.eval (offset * g ^ i)

omit [DecidableEq F] in
theorem evalsOf_length (g : F) (f : F[X]) (n : ℕ) : (evalsOf offset g f n).length = n := by
  simp [evalsOf]

omit [DecidableEq F] in
theorem evalsOf_getElem? (g : F) (f : F[X]) (n i : ℕ) (hi : i < n) :
    (evalsOf offset g f n)[i]? = some (f.eval (offset * g ^ i)) := by
  simp [evalsOf, hi]

/-- THE FOLDING IDENTITY on the model: `apply_drp` maps the evaluations of `f` over the coset `offset·<g>`
    (transposed into rows of `N`) to the evaluations over the folded coset `(offset·g^i)^N`, `i < n/N`, of
    `foldPoly N f α = Σ_k α^k f_k`, where `f = Σ_k X^k f_k(X^N)` -/
theorem applyDrp_fold (N m : ℕ) (hN : 0 < N) (hm : 0 < m)
    (hok : rootOk (Nat.log2 (m * N)) = true) (hokN : rootOk (Nat.log2 N) = true)
    (hg : IsPrimitiveRoot (root (Nat.log2 (m * N))) (m * N))
    (hζ : root (Nat.log2 N) = root (Nat.log2 (m * N)) ^ m)
    (hoff : offset ≠ 0) (f : F[X]) (α : F) (rows : List (List F))
    (hT : transpose N (evalsOf offset (root (Nat.log2 (m * N))) f (m * N)) = some rows) :
    applyDrp ops N rows α = .ok ((List.range m).map fun i =>
      (FriAlg.foldPoly N f α).eval ((offset * root (Nat.log2 (m * N)) ^ i) ^ N)) := by
  set g := root (Nat.log2 (m * N)) with hgdef
  obtain ⟨rows', hT', hlen, hrows⟩ :=
    transpose_some N (evalsOf offset g f (m * N)) m hN (evalsOf_length offset g f (m * N))
  rw [hT] at hT'
  cases hT'
  have hnpos : 0 < m * N := Nat.mul_pos hm hN
  have hζprim : IsPrimitiveRoot (g ^ m) N := hg.pow hnpos rfl
  have hg0 : g ≠ 0 := hg.ne_zero (by omega)
  rw [applyDrp_rows root rootOk offset N rows α (by rw [hlen]; omega) (by rw [hlen]; exact hok) hokN]
  rw [hlen]
  congr 1
  apply List.map_congr_left
  intro i hi
  have hi' : i < m := by simpa using hi
  obtain ⟨row, hrow, hrowlen, hcol⟩ := hrows i hi'
  have hrowD : rows.getD i [] = row := by simp [List.getD_eq_getElem?_getD, hrow]
  rw [hrowD, hζ, ← hgdef]
  have hinvζ : (g ^ m) ^ (N - 1) = (g ^ m)⁻¹ := by
    have h1 : (g ^ m) ^ N = 1 := hζprim.pow_eq_one
    have h2 : (g ^ m) ^ (N - 1) * (g ^ m) = 1 := by
      rw [← pow_succ, Nat.sub_add_cancel hN, h1]
    exact eq_inv_of_mul_eq_one_left h2
  have hx : offset * g ^ i ≠ 0 := mul_ne_zero hoff (pow_ne_zero _ hg0)
  have hinvx : offset⁻¹ * g⁻¹ ^ i = (offset * g ^ i)⁻¹ := by
    rw [mul_inv, inv_pow]
  rw [hinvζ, hinvx, drpRow_eq_drp root rootOk offset N (g ^ m) (offset * g ^ i) α row hrowlen]
  have hv : (fun j => row.getD j 0) = fun j => if j < N then f.eval (offset * g ^ i * (g ^ m) ^ j) else 0 := by
    funext j
    by_cases hj : j < N
    · have h1 := hcol j hj
      have hidx : i + j * m < m * N := by
        calc i + j * m < m + j * m := by omega
          _ = (j + 1) * m := by ring
          _ ≤ N * m := Nat.mul_le_mul_right m hj
          _ = m * N := Nat.mul_comm N m
      rw [evalsOf_getElem? offset g f (m * N) (i + j * m) hidx] at h1
      simp only [hj, ↓reduceIte, List.getD_eq_getElem?_getD, h1, Option.getD_some]
      congr 1
      rw [pow_add, ← pow_mul, Nat.mul_comm m j]
      ring
    · simp only [hj, ↓reduceIte]
      exact getD_eq_zero_of_le row j (by omega)
  rw [← FriAlg.drp_poly hN hζprim hx f α]
  unfold FriAlg.drp
  apply Finset.sum_congr rfl
  intro k _
  congr 2
  apply Finset.sum_congr rfl
  intro j hj
  have hj' : j < N := by simpa using hj
  rw [hv]
  simp [hj']

/-! ## one honest layer seen by the verifier (arbitrary evaluations, no polynomial needed) -/

/-- what the field has to provide for one folding step on a domain of size `n`: the roots of unity the code asks
    for exist (`get_root_of_unity` does not assert), are primitive, and are coherent
    (`get_root_of_unity(k) = TWO_ADIC_ROOT^(2^(S-k))`) -/
structure StepOK (N n : ℕ) : Prop where
  ok : rootOk (Nat.log2 n) = true
  okN : rootOk (Nat.log2 N) = true
  prim : IsPrimitiveRoot (root (Nat.log2 n)) n
  zeta : root (Nat.log2 N) = root (Nat.log2 n) ^ (n / N)
  next : root (Nat.log2 (n / N)) = root (Nat.log2 n) ^ N

variable {D : Type}

open WinterProofs.C05 in
/-- The prover folds the evaluations `evals` (ANY list of length `m·N`) with `α`; the verifier, given the rows the
    prover opens at the folded positions, performs one successful iteration of its layer loop, and the values it
    carries to the next layer are the prover's next-layer evaluations at the folded positions. -/
theorem honest_layer_step (N m : ℕ) (hN : 0 < N) (hm : 0 < m) (hs : StepOK root rootOk N (m * N))
    (hoff : offset ≠ 0) (evals : List F) (hlen : evals.length = m * N)
    (rows : List (List F)) (hT : transpose N evals = some rows) (α : F)
    (P folded : List ℕ) (hP : ∀ p ∈ P, p < m * N) (hfold : foldPositions P (m * N) N = some folded)
    (pl : List (List F)) (hq : queryLayer ⟨rows⟩ folded = some pl)
    (inp : VInput F D) (depth : ℕ) (hlayer : inp.layers[depth]? = some ⟨true, pl⟩)
    (halpha : inp.alphas[depth]? = some α) (T : ℕ) (hTdiv : T % N = 0) :
    ∃ evals', applyDrp ops N rows α = .ok evals' ∧ evals'.length = m ∧
      LayerOk ops N inp ((List.range N).map fun i => root (Nat.log2 N) ^ i) depth
        ⟨P, P.map (evals.getD · 0), root (Nat.log2 (m * N)), m * N, T⟩
        ⟨folded, folded.map (evals'.getD · 0), root (Nat.log2 (m * N)) ^ N, m, T / N⟩ := by
  set g := root (Nat.log2 (m * N)) with hgdef
  obtain ⟨rows', hT', hrlen, hrows⟩ := transpose_some N evals m hN hlen
  rw [hT] at hT'; cases hT'
  have hnpos : 0 < m * N := Nat.mul_pos hm hN
  have hmN : m * N / N = m := Nat.mul_div_cancel m hN
  have hζ : root (Nat.log2 N) = g ^ m := by rw [hs.zeta, hmN]
  have hζprim : IsPrimitiveRoot (g ^ m) N := hs.prim.pow hnpos rfl
  have hg0 : g ≠ 0 := hs.prim.ne_zero (by omega)
  have hinvζ : (g ^ m) ^ (N - 1) = (g ^ m)⁻¹ := by
    have h1 : (g ^ m) ^ N = 1 := hζprim.pow_eq_one
    have h2 : (g ^ m) ^ (N - 1) * (g ^ m) = 1 := by rw [← pow_succ, Nat.sub_add_cancel hN, h1]
    exact eq_inv_of_mul_eq_one_left h2
  have hdrp := applyDrp_rows root rootOk offset N rows α (by rw [hrlen]; omega) (by rw [hrlen]; exact hs.ok) hs.okN
  rw [hrlen] at hdrp
  refine ⟨_, hdrp, by simp, ?_⟩
  -- folded positions are below m
  have hmne : m * N / N ≠ 0 := by rw [hmN]; omega
  have hflt : ∀ q ∈ folded, q < m := by
    intro q hq'
    have := foldPositions_lt hmne hfold q hq'
    rwa [hmN] at this
  obtain ⟨pl', hq', hpllen, hplget⟩ := queryLayer_some ⟨rows⟩ folded (by intro p hp; simpa [hrlen] using hflt p hp)
  rw [hq] at hq'; cases hq'
  obtain ⟨qv, hqv, hqvlen, hqvget⟩ :=
    getQueryValues_honest N m hN hm evals hlen rows hT P folded hP hfold pl hq
  -- every opened row is a row of the layer, of length N
  have hplrow : ∀ k, (hk : k < folded.length) → ∃ row, pl[k]? = some row ∧ rows[folded[k]]? = some row ∧
      row.length = N := by
    intro k hk
    obtain ⟨row, hrow, hrowlen, _⟩ := hrows folded[k] (hflt _ (List.getElem_mem hk))
    exact ⟨row, by rw [hplget k hk]; exact hrow, hrow, hrowlen⟩
  refine ⟨folded, ⟨true, pl⟩, α, qv, hfold, hlayer, halpha, rfl, hpllen, ?_, hqv, ?_, hTdiv, ?_⟩
  · intro r hr
    obtain ⟨k, hk, rfl⟩ := List.getElem_of_mem hr
    obtain ⟨row, h1, _, h3⟩ := hplrow k (by rw [← hpllen]; exact hk)
    rw [List.getElem?_eq_getElem hk] at h1
    cases h1
    exact h3
  · rw [beqList_fieldOps]
    apply List.ext_getElem?
    intro k
    by_cases hk : k < P.length
    · rw [hqvget k hk]
      simp [hk, List.getD_eq_getElem?_getD]
      have : P[k] < evals.length := by rw [hlen]; exact hP _ (List.getElem_mem hk)
      simp [this]
    · have h1 : P.length ≤ k := by omega
      simp [h1, hqvlen]
  · simp only [nextState, pow_fieldOps, hmN, VState.mk.injEq, true_and, and_true]
    apply List.ext_getElem
    · simp [hpllen]
    · intro k h1 h2
      have hk : k < folded.length := by simpa using h1
      obtain ⟨row, hr1, hr2, hr3⟩ := hplrow k hk
      have hkpl : k < pl.length := by rw [hpllen]; exact hk
      have hplk : pl[k] = row := by
        rw [List.getElem?_eq_getElem hkpl] at hr1; exact Option.some.inj hr1
      simp only [List.getElem_map, List.getElem_zip, hplk]
      have hx : g ^ folded[k] * offset ≠ 0 := mul_ne_zero (pow_ne_zero _ hg0) hoff
      have hfk : folded[k] < m := hflt _ (List.getElem_mem hk)
      have hrowD : rows.getD folded[k] [] = row := by simp [List.getD_eq_getElem?_getD, hr2]
      have key : lagrangeEval ops
            (rowPoints ops ((List.range N).map fun i => root (Nat.log2 N) ^ i) g folded[k]) row α
          = drpRow ops (root (Nat.log2 N) ^ (N - 1)) ((N : F))⁻¹ α (rows.getD folded[k] [])
              (offset⁻¹ * g⁻¹ ^ folded[k]) := by
        rw [hrowD, hζ, hinvζ,
          lagrangeEval_rowPoints_eq_drpRow root rootOk offset N hN (g ^ m) hζprim g folded[k] hx row hr3 α]
        congr 1
        rw [mul_inv, inv_pow, mul_comm]
      rw [getD_map_range _ m folded[k] hfk]
      exact key.symm

/-! ## all layers -/

open WinterProofs.C05 in
/-- The honest prover's layers (built from ANY evaluations) make the verifier's layer loop succeed `k` times; the
    values the verifier ends with are the prover's last-layer evaluations at the `k`-fold folded positions. -/
theorem honest_chain (N : ℕ) (hN : 0 < N) (hoff : offset ≠ 0) (inp : VInput F D) :
    ∀ (k depth m n : ℕ) (evals αs : List F) (P : List ℕ) (T : ℕ)
      (ls : List (Layer F)) (last : List F) (pls : List (ProofLayer F)),
      0 < m → n = m * N ^ k → evals.length = n →
      (∀ j, j < k → StepOK root rootOk N (m * N ^ (k - j))) →
      (∀ p ∈ P, p < n) →
      buildLayersLoop ops N k αs evals = .ok (ls, last) →
      queryLayers N ls P n = .ok pls →
      (∀ j, j < k → inp.layers[depth + j]? = (pls[j]?).map (fun pl => ⟨true, pl⟩)) →
      (∀ j, j < k → inp.alphas[depth + j]? = αs[j]?) →
      (∀ j, j < k → (T / N ^ j) % N = 0) →
      ∃ Pk, (∀ p ∈ Pk, p < m) ∧ last.length = m ∧ (P ≠ [] → Pk ≠ []) ∧ pls.length = k ∧
        (P ≠ [] → ∀ pl ∈ pls, pl ≠ []) ∧
        Chain ops N inp ((List.range N).map fun i => root (Nat.log2 N) ^ i) k depth
          ⟨P, P.map (evals.getD · 0), root (Nat.log2 n), n, T⟩
          ⟨Pk, Pk.map (last.getD · 0), root (Nat.log2 m), m, T / N ^ k⟩ := by
  intro k
  induction k with
  | zero =>
    intro depth m n evals αs P T ls last pls hm hn hlen _ hP hbuild hquery _ _ _
    simp only [buildLayersLoop] at hbuild
    cases hbuild
    simp only [queryLayers] at hquery
    cases hquery
    simp only [Nat.pow_zero, Nat.mul_one] at hn
    subst hn
    refine ⟨P, hP, hlen, id, rfl, by simp, ?_⟩
    simp only [Nat.pow_zero, Nat.div_one]
    exact Chain.nil _ _
  | succ k ih =>
    intro depth m n evals αs P T ls last pls hm hn hlen hsteps hP hbuild hquery hlayers halphas hdiv
    have hn' : n = (m * N ^ k) * N := by rw [hn, Nat.pow_succ, Nat.mul_assoc]
    have hm' : 0 < m * N ^ k := Nat.mul_pos hm (Nat.pow_pos hN)
    have hs0 : StepOK root rootOk N (m * N ^ k * N) := by
      have := hsteps 0 (by omega)
      simp only [Nat.sub_zero] at this
      rwa [Nat.pow_succ, ← Nat.mul_assoc] at this
    -- the prover's first layer
    cases αs with
    | nil => simp [buildLayersLoop] at hbuild
    | cons α αs' =>
      simp only [buildLayersLoop] at hbuild
      split at hbuild
      · exact absurd hbuild (by simp)
      · rename_i rows hT
        split at hbuild
        · rename_i evals' hdrp
          split at hbuild
          · rename_i ls' last' hrec
            cases hbuild
            -- the proof's first layer
            simp only [queryLayers] at hquery
            split at hquery
            · exact absurd hquery (by simp)
            · rename_i folded hfold
              split at hquery
              · exact absurd hquery (by simp)
              · rename_i pl hq
                split at hquery
                · rename_i pls' hqrec
                  cases hquery
                  subst hn'
                  have hl0 := hlayers 0 (by omega)
                  have ha0 := halphas 0 (by omega)
                  simp only [Nat.add_zero, List.getElem?_cons_zero, Option.map_some] at hl0 ha0
                  have hd0 : T % N = 0 := by simpa using hdiv 0 (by omega)
                  obtain ⟨evals'', hdrp', hlen', hok⟩ :=
                    honest_layer_step root rootOk offset N (m * N ^ k) hN hm' hs0 hoff evals hlen rows hT α
                      P folded hP hfold pl hq inp depth hl0 ha0 T hd0
                  rw [hdrp] at hdrp'
                  cases hdrp'
                  have hmN : m * N ^ k * N / N = m * N ^ k := Nat.mul_div_cancel _ hN
                  have hmne : m * N ^ k * N / N ≠ 0 := by rw [hmN]; omega
                  have hflt : ∀ q ∈ folded, q < m * N ^ k := by
                    intro q hq'
                    have := foldPositions_lt hmne hfold q hq'
                    rwa [hmN] at this
                  rw [hmN] at hqrec
                  obtain ⟨Pk, hPk, hlast, hne, hplslen, hplsne, hchain⟩ :=
                    ih (depth + 1) m (m * N ^ k) evals' αs' folded (T / N) ls' last pls' hm rfl hlen'
                      (fun j hj => by
                        have := hsteps (j + 1) (by omega)
                        rwa [Nat.succ_sub_succ] at this)
                      hflt hrec hqrec
                      (fun j hj => by
                        have := hlayers (j + 1) (by omega)
                        simpa [Nat.add_assoc, Nat.add_comm 1 j] using this)
                      (fun j hj => by
                        have := halphas (j + 1) (by omega)
                        simpa [Nat.add_assoc, Nat.add_comm 1 j] using this)
                      (fun j hj => by
                        have := hdiv (j + 1) (by omega)
                        rwa [Nat.pow_succ, Nat.mul_comm, ← Nat.div_div_eq_div_mul] at this)
                  have hfne : P ≠ [] → folded ≠ [] := by
                    intro hPne hf
                    obtain ⟨p, hp⟩ := List.exists_mem_of_ne_nil P hPne
                    have := (mem_foldPositions hmne hfold (p % (m * N ^ k * N / N))).mpr ⟨p, hp, rfl⟩
                    rw [hf] at this
                    exact absurd this (by simp)
                  have hpllen : pl.length = folded.length := by
                    obtain ⟨pl', hq', hl, _⟩ := queryLayer_some ⟨rows⟩ folded (by
                      intro p hp
                      obtain ⟨rows', hT', hrlen, _⟩ := transpose_some N evals (m * N ^ k) hN hlen
                      rw [hT] at hT'; cases hT'
                      simpa [hrlen] using hflt p hp)
                    rw [hq] at hq'; cases hq'; exact hl
                  refine ⟨Pk, hPk, hlast, fun h => hne (hfne h), by simp [hplslen], ?_, ?_⟩
                  · intro hPne pl' hpl'
                    rcases List.mem_cons.mp hpl' with rfl | h
                    · intro h0
                      rw [h0] at hpllen
                      exact hfne hPne (List.eq_nil_of_length_eq_zero hpllen.symm)
                    · exact hplsne (hfne hPne) pl' h
                  · have hnext : root (Nat.log2 (m * N ^ k)) = root (Nat.log2 (m * N ^ k * N)) ^ N := by
                      have := hs0.next
                      rwa [hmN] at this
                    have hT2 : T / N / N ^ k = T / N ^ (k + 1) := by
                      rw [Nat.div_div_eq_div_mul, Nat.pow_succ, Nat.mul_comm]
                    rw [hnext, hT2] at hchain
                    exact Chain.cons hok hchain
                · exact absurd hquery (by simp)
                · exact absurd hquery (by simp)
          · exact absurd hbuild (by simp)
          · exact absurd hbuild (by simp)
        · exact absurd hbuild (by simp)
        · exact absurd hbuild (by simp)

end WinterProofs.C15
