-- Helper lemmas for C07 (128-bit field): the generated straight-line functions of
-- Winter/Gen/F128.lean characterised on natural numbers (no Mathlib).
-- Literals: W = 2^64 = 18446744073709551616, W² = 2^128 = 340282366920938463463374607431768211456,
-- M = W² − c = 340282366920938463463374557953744961537 with c = 45·2^40 − 1 = 49478023249919.
import Winter.Gen.F128
namespace WinterProofs.F128L
open Gen.F128

/-- value of a little-endian triple of 64-bit limbs -/
def val3 (z : Nat × Nat × Nat) : Nat :=
  z.1 + z.2.1 * 18446744073709551616 + z.2.2 * 340282366920938463463374607431768211456

theorem val3_mk (a b c : Nat) :
    val3 (a, b, c) = a + b * 18446744073709551616 + c * 340282366920938463463374607431768211456 := rfl

/-! ### add / sub / neg / new -/

theorem add_spec (a b : Nat) (ha : a < 340282366920938463463374557953744961537)
    (hb : b < 340282366920938463463374557953744961537) :
    add a b < 340282366920938463463374557953744961537 ∧
      (add a b = a + b ∨ add a b + 340282366920938463463374557953744961537 = a + b) := by
  unfold add add.s_z
  dsimp only
  split <;> omega

theorem add_ok_spec (a b : Nat)
    (hb : b < 340282366920938463463374557953744961537) : add_ok a b = true := by
  unfold add_ok add.s_z
  simp only [Bool.and_eq_true, decide_eq_true_eq]
  omega

theorem sub_spec (a b : Nat) (ha : a < 340282366920938463463374557953744961537)
    (hb : b < 340282366920938463463374557953744961537) :
    sub a b < 340282366920938463463374557953744961537 ∧
      (sub a b + b = a ∨ sub a b + b = a + 340282366920938463463374557953744961537) := by
  unfold sub
  split <;> omega

theorem sub_ok_spec (a b : Nat)
    (hb : b < 340282366920938463463374557953744961537) : sub_ok a b = true := by
  unfold sub_ok
  simp only [Bool.and_eq_true, decide_eq_true_eq]
  omega

theorem neg_spec (a : Nat) (ha : a < 340282366920938463463374557953744961537) :
    neg a < 340282366920938463463374557953744961537 ∧
      (neg a + a = 0 ∨ neg a + a = 340282366920938463463374557953744961537) := by
  unfold neg
  have := sub_spec 0 a (by omega) ha
  omega

theorem neg_ok_spec (a : Nat) (ha : a < 340282366920938463463374557953744961537) : neg_ok a = true := by
  unfold neg_ok
  simp only [decide_eq_true_eq]
  exact sub_ok_spec 0 a ha

/-- `new`: one conditional subtraction of any 128-bit word -/
theorem new_spec (v : Nat) (hv : v < 340282366920938463463374607431768211456) :
    new v < 340282366920938463463374557953744961537 ∧
      (new v = v ∨ new v + 340282366920938463463374557953744961537 = v) ∧ new_ok v = true := by
  unfold new new_ok
  simp only [decide_eq_true_eq]
  split <;> omega

/-! ### limb helpers -/

theorem add64_with_carry_spec (a b c : Nat) (ha : a < 18446744073709551616)
    (hb : b < 18446744073709551616) (hc : c ≤ 1) :
    ∃ r k, add64_with_carry a b c = (r, k) ∧ r < 18446744073709551616 ∧ k ≤ 1 ∧
      r + k * 18446744073709551616 = a + b + c ∧ add64_with_carry_ok a b c = true := by
  refine ⟨_, _, rfl, ?_, ?_, ?_, ?_⟩
  · unfold add64_with_carry.s_ret; omega
  · unfold add64_with_carry.s_ret; omega
  · unfold add64_with_carry.s_ret; omega
  · unfold add64_with_carry_ok
    simp only [Bool.and_eq_true, decide_eq_true_eq]
    omega

/-- one limb of the borrow chain of `sub_192x192` -/
theorem sub_step (a b β : Nat) (ha : a < 18446744073709551616) (hb : b < 18446744073709551616)
    (hβ : β ≤ 1) :
    (a + 340282366920938463463374607431768211456 - (b + β)) % 340282366920938463463374607431768211456 % 18446744073709551616 + b + β
      = a + ((a + 340282366920938463463374607431768211456 - (b + β)) % 340282366920938463463374607431768211456 / 170141183460469231731687303715884105728) * 18446744073709551616 ∧
    (a + 340282366920938463463374607431768211456 - (b + β)) % 340282366920938463463374607431768211456 / 170141183460469231731687303715884105728 ≤ 1 := by
  by_cases h : b + β ≤ a
  · have e : (a + 340282366920938463463374607431768211456 - (b + β)) % 340282366920938463463374607431768211456
        = a - (b + β) := by omega
    rw [e]; omega
  · have e : (a + 340282366920938463463374607431768211456 - (b + β)) % 340282366920938463463374607431768211456
        = a + 340282366920938463463374607431768211456 - (b + β) := by omega
    rw [e]
    have e2 : (a + 340282366920938463463374607431768211456 - (b + β)) / 170141183460469231731687303715884105728 = 1 := by
      omega
    rw [e2]; omega

theorem sub_glue (a0 a1 a2 b0 b1 b2 r0 r1 r2 β0 β1 β2 : Nat)
    (h0 : r0 + b0 + 0 = a0 + β0 * 18446744073709551616)
    (h1 : r1 + b1 + β0 = a1 + β1 * 18446744073709551616)
    (h2 : r2 + b2 + β1 = a2 + β2 * 18446744073709551616)
    (hr0 : r0 < 18446744073709551616) (hr1 : r1 < 18446744073709551616) (hr2 : r2 < 18446744073709551616)
    (hβ2 : β2 ≤ 1)
    (hge : b0 + b1 * 18446744073709551616 + b2 * 340282366920938463463374607431768211456
      ≤ a0 + a1 * 18446744073709551616 + a2 * 340282366920938463463374607431768211456) :
    r0 + r1 * 18446744073709551616 + r2 * 340282366920938463463374607431768211456
      + (b0 + b1 * 18446744073709551616 + b2 * 340282366920938463463374607431768211456)
      = a0 + a1 * 18446744073709551616 + a2 * 340282366920938463463374607431768211456 := by
  omega

/-- 192-bit subtraction is exact when there is no final borrow -/
theorem sub_192x192_spec (a0 a1 a2 b0 b1 b2 : Nat)
    (ha0 : a0 < 18446744073709551616) (ha1 : a1 < 18446744073709551616) (ha2 : a2 < 18446744073709551616)
    (hb0 : b0 < 18446744073709551616) (hb1 : b1 < 18446744073709551616) (hb2 : b2 < 18446744073709551616)
    (hge : val3 (b0, b1, b2) ≤ val3 (a0, a1, a2)) :
    ∃ r0 r1 r2, sub_192x192 a0 a1 a2 b0 b1 b2 = (r0, r1, r2) ∧
      r0 < 18446744073709551616 ∧ r1 < 18446744073709551616 ∧ r2 < 18446744073709551616 ∧
      val3 (r0, r1, r2) + val3 (b0, b1, b2) = val3 (a0, a1, a2) ∧
      sub_192x192_ok a0 a1 a2 b0 b1 b2 = true := by
  obtain ⟨h0, k0⟩ := sub_step a0 b0 0 ha0 hb0 (by omega)
  have e0 : (a0 + 340282366920938463463374607431768211456 - (b0 + 0)) % 340282366920938463463374607431768211456
      = sub_192x192.s_z0 a0 b0 := rfl
  rw [e0] at h0 k0
  generalize hz0 : sub_192x192.s_z0 a0 b0 = z0 at *
  obtain ⟨h1, k1⟩ := sub_step a1 b1 _ ha1 hb1 k0
  have e1 : (a1 + 340282366920938463463374607431768211456 - (b1 + z0 / 170141183460469231731687303715884105728)) % 340282366920938463463374607431768211456
      = sub_192x192.s_z1 a1 b1 z0 := rfl
  rw [e1] at h1 k1
  generalize hz1 : sub_192x192.s_z1 a1 b1 z0 = z1 at *
  obtain ⟨h2, k2⟩ := sub_step a2 b2 _ ha2 hb2 k1
  have e2 : (a2 + 340282366920938463463374607431768211456 - (b2 + z1 / 170141183460469231731687303715884105728)) % 340282366920938463463374607431768211456
      = sub_192x192.s_z2 a2 b2 z1 := rfl
  rw [e2] at h2 k2
  generalize hz2 : sub_192x192.s_z2 a2 b2 z1 = z2 at *
  refine ⟨z0 % 18446744073709551616, z1 % 18446744073709551616, z2 % 18446744073709551616, ?_,
    Nat.mod_lt _ (by omega), Nat.mod_lt _ (by omega), Nat.mod_lt _ (by omega), ?_, ?_⟩
  · unfold sub_192x192
    simp only [hz0, hz1, hz2]
  · rw [val3_mk, val3_mk, val3_mk] at *
    exact sub_glue a0 a1 a2 b0 b1 b2 _ _ _ _ _ _ h0 h1 h2
      (Nat.mod_lt _ (by omega)) (Nat.mod_lt _ (by omega)) (Nat.mod_lt _ (by omega)) k2 hge
  · unfold sub_192x192_ok
    simp only [hz0, hz1, Bool.and_eq_true, decide_eq_true_eq]
    omega

/-- one limb of the carry chain of `add_192x192` -/
theorem add_step (a b k : Nat) (ha : a < 18446744073709551616) (hb : b < 18446744073709551616) (hk : k ≤ 1) :
    (a + b + k) % 18446744073709551616 + (a + b + k) / 18446744073709551616 * 18446744073709551616 = a + b + k ∧
      (a + b + k) / 18446744073709551616 ≤ 1 := by
  omega

theorem add_glue (a0 a1 a2 b0 b1 b2 r0 r1 r2 k0 k1 k2 : Nat)
    (h0 : r0 + k0 * 18446744073709551616 = a0 + b0 + 0)
    (h1 : r1 + k1 * 18446744073709551616 = a1 + b1 + k0)
    (h2 : r2 + k2 * 18446744073709551616 = a2 + b2 + k1) :
    r0 + r1 * 18446744073709551616 + r2 * 340282366920938463463374607431768211456
      + k2 * 6277101735386680763835789423207666416102355444464034512896
      = a0 + a1 * 18446744073709551616 + a2 * 340282366920938463463374607431768211456
        + (b0 + b1 * 18446744073709551616 + b2 * 340282366920938463463374607431768211456) := by
  omega

/-- 192-bit addition (used by the inversion): the sum modulo `2^192`, carry `k ≤ 1` dropped;
    no intermediate overflow -/
theorem add_192x192_spec (a0 a1 a2 b0 b1 b2 : Nat)
    (ha0 : a0 < 18446744073709551616) (ha1 : a1 < 18446744073709551616) (ha2 : a2 < 18446744073709551616)
    (hb0 : b0 < 18446744073709551616) (hb1 : b1 < 18446744073709551616) (hb2 : b2 < 18446744073709551616) :
    ∃ r0 r1 r2 k, add_192x192 a0 a1 a2 b0 b1 b2 = (r0, r1, r2) ∧
      r0 < 18446744073709551616 ∧ r1 < 18446744073709551616 ∧ r2 < 18446744073709551616 ∧ k ≤ 1 ∧
      val3 (r0, r1, r2) + k * 6277101735386680763835789423207666416102355444464034512896
        = val3 (a0, a1, a2) + val3 (b0, b1, b2) ∧
      add_192x192_ok a0 a1 a2 b0 b1 b2 = true := by
  obtain ⟨h0, k0⟩ := add_step a0 b0 0 ha0 hb0 (by omega)
  have e0 : a0 + b0 + 0 = add_192x192.s_z0 a0 b0 := rfl
  rw [e0] at h0 k0
  generalize hz0 : add_192x192.s_z0 a0 b0 = z0 at *
  obtain ⟨h1, k1⟩ := add_step a1 b1 _ ha1 hb1 k0
  have e1 : a1 + b1 + z0 / 18446744073709551616 = add_192x192.s_z1 a1 b1 z0 := rfl
  rw [e1] at h1 k1
  generalize hz1 : add_192x192.s_z1 a1 b1 z0 = z1 at *
  obtain ⟨h2, k2⟩ := add_step a2 b2 _ ha2 hb2 k1
  have e2 : a2 + b2 + z1 / 18446744073709551616 = add_192x192.s_z2 a2 b2 z1 := rfl
  rw [e2] at h2 k2
  generalize hz2 : add_192x192.s_z2 a2 b2 z1 = z2 at *
  refine ⟨z0 % 18446744073709551616, z1 % 18446744073709551616, z2 % 18446744073709551616,
    z2 / 18446744073709551616, ?_,
    Nat.mod_lt _ (by omega), Nat.mod_lt _ (by omega), Nat.mod_lt _ (by omega), k2, ?_, ?_⟩
  · unfold add_192x192
    simp only [hz0, hz1, hz2]
  · rw [val3_mk, val3_mk, val3_mk]
    exact add_glue a0 a1 a2 b0 b1 b2 _ _ _ _ _ _ (by rw [h0, ← hz0]; rfl) (by rw [h1, ← hz1]; rfl)
      (by rw [h2, ← hz2]; rfl)
  · unfold add_192x192_ok
    simp only [hz0, hz1, Bool.and_eq_true, decide_eq_true_eq]
    omega

/-- `sub_modulus`: the 128-bit wrapping subtraction of `M`, i.e. adding `c = 2^128 − M` -/
theorem sub_modulus_spec (lo hi : Nat) :
    ∃ r0 r1, sub_modulus lo hi = (r0, r1) ∧ r0 < 18446744073709551616 ∧ r1 < 18446744073709551616 ∧
      r0 + r1 * 18446744073709551616
        = (lo + hi * 18446744073709551616 + 49478023249919) % 340282366920938463463374607431768211456 := by
  refine ⟨_, _, rfl, Nat.mod_lt _ (by omega), Nat.mod_lt _ (by omega), ?_⟩
  have hz : sub_modulus.s_z = 49478023249919 := by decide
  have e1 : sub_modulus.s_z_2 hi (sub_modulus.s_z_1 lo sub_modulus.s_z)
      = (lo + hi * 18446744073709551616 + 49478023249919) % 340282366920938463463374607431768211456 := by
    unfold sub_modulus.s_z_2 sub_modulus.s_z_1
    rw [hz]
    omega
  rw [e1]
  omega

/-- `mul_by_modulus a = a · M` exactly (three limbs) -/
theorem mul_by_modulus_spec (a : Nat) (ha : a < 18446744073709551616) :
    ∃ q0 q1 q2, mul_by_modulus a = (q0, q1, q2) ∧
      q0 < 18446744073709551616 ∧ q1 < 18446744073709551616 ∧ q2 < 18446744073709551616 ∧
      val3 (q0, q1, q2) = a * 340282366920938463463374557953744961537 ∧ mul_by_modulus_ok a = true := by
  refine ⟨_, _, _, rfl, Nat.mod_lt _ (by omega), Nat.mod_lt _ (by omega), ?_, ?_, ?_⟩
  · unfold mul_by_modulus.s_a_hi; split <;> omega
  · rw [val3_mk]
    unfold mul_by_modulus.s_a_lo mul_by_modulus.s_a_hi
    by_cases h0 : a = 0
    · subst h0; decide
    · rw [if_neg h0]
      have e : a * 340282366920938463463374557953744961537 % 340282366920938463463374607431768211456
          = 340282366920938463463374607431768211456 - a * 49478023249919 := by
        have : a * 340282366920938463463374557953744961537
            = (340282366920938463463374607431768211456 - a * 49478023249919)
              + (a - 1) * 340282366920938463463374607431768211456 := by omega
        rw [this, Nat.add_mul_mod_self_right]
        exact Nat.mod_eq_of_lt (by omega)
      rw [e]
      omega
  · unfold mul_by_modulus_ok
    simp only [decide_eq_true_eq]
    omega

/-- `mul_128x64 a b = a · b` exactly (three limbs) -/
theorem mul_128x64_spec (a b : Nat) (ha : a < 340282366920938463463374607431768211456)
    (hb : b < 18446744073709551616) :
    ∃ z0 z1 z2, mul_128x64 a b = (z0, z1, z2) ∧
      z0 < 18446744073709551616 ∧ z1 < 18446744073709551616 ∧ z2 < 18446744073709551616 ∧
      val3 (z0, z1, z2) = a * b ∧ mul_128x64_ok a b = true := by
  obtain ⟨ah, al, rfl, hah, hal⟩ : ∃ ah al, a = ah * 18446744073709551616 + al ∧
      ah < 18446744073709551616 ∧ al < 18446744073709551616 :=
    ⟨a / 18446744073709551616, a % 18446744073709551616, by omega, by omega, by omega⟩
  have e1 : (ah * 18446744073709551616 + al) % 18446744073709551616 = al := by omega
  have e2 : (ah * 18446744073709551616 + al) / 18446744073709551616 = ah := by omega
  have hp : al * b ≤ 18446744073709551615 * 18446744073709551615 := Nat.mul_le_mul (by omega) (by omega)
  have hq : ah * b ≤ 18446744073709551615 * 18446744073709551615 := Nat.mul_le_mul (by omega) (by omega)
  have hab : (ah * 18446744073709551616 + al) * b = ah * b * 18446744073709551616 + al * b := by
    rw [Nat.add_mul, Nat.mul_right_comm]
  refine ⟨_, _, _, rfl, Nat.mod_lt _ (by omega), Nat.mod_lt _ (by omega), Nat.mod_lt _ (by omega), ?_, ?_⟩
  · rw [val3_mk, hab]
    unfold mul_128x64.s_z_hi_1 mul_128x64.s_z_lo mul_128x64.s_z_hi
    rw [e1, e2]
    generalize al * b = p at *
    generalize ah * b = q at *
    clear ha hab e1 e2
    omega
  · unfold mul_128x64_ok mul_128x64.s_z_hi_1 mul_128x64.s_z_lo mul_128x64.s_z_hi
    simp only [Bool.and_eq_true, decide_eq_true_eq]
    rw [e1, e2]
    generalize al * b = p at *
    generalize ah * b = q at *
    clear ha hab e1 e2
    omega

/-- `mul_reduce`: subtract `z2 · M`; the value becomes `z0 + z1·2^64 + z2·c` -/
theorem mul_reduce_spec (z0 z1 z2 : Nat) (h0 : z0 < 18446744073709551616)
    (h1 : z1 < 18446744073709551616) (h2 : z2 < 18446744073709551616) :
    ∃ r0 r1 r2, mul_reduce z0 z1 z2 = (r0, r1, r2) ∧
      r0 < 18446744073709551616 ∧ r1 < 18446744073709551616 ∧ r2 ≤ 1 ∧
      r0 + r1 * 18446744073709551616 + r2 * 340282366920938463463374607431768211456
        = z0 + z1 * 18446744073709551616 + z2 * 49478023249919 ∧
      mul_reduce_ok z0 z1 z2 = true := by
  obtain ⟨q0, q1, q2, hq, hq0, hq1, hq2, hqv, hqok⟩ := mul_by_modulus_spec z2 h2
  have hge : val3 (q0, q1, q2) ≤ val3 (z0, z1, z2) := by
    rw [hqv, val3_mk]; omega
  obtain ⟨r0, r1, r2, hr, hr0, hr1, hr2, hrv, hrok⟩ :=
    sub_192x192_spec z0 z1 z2 q0 q1 q2 h0 h1 h2 hq0 hq1 hq2 hge
  rw [hqv, val3_mk, val3_mk] at hrv
  refine ⟨r0, r1, r2, ?_, hr0, hr1, ?_, ?_, ?_⟩
  · unfold mul_reduce
    dsimp only
    unfold mul_reduce.s_r
    rw [hq]
    unfold mul_reduce.s_q0 mul_reduce.s_q1 mul_reduce.s_q2 mul_reduce.s_r_1
    dsimp only
    rw [hr]
    rfl
  · clear hq hr hrok hqok hge; omega
  · clear hq hr hrok hqok hge; omega
  · unfold mul_reduce_ok
    dsimp only
    unfold mul_reduce.s_r
    rw [hq]
    unfold mul_reduce.s_q0 mul_reduce.s_q1 mul_reduce.s_q2
    dsimp only
    rw [hqok, hrok]
    rfl

end WinterProofs.F128L
