-- C07 helper lemmas, 128-bit field: the binary extended GCD inversion of the model
-- (`Model.F128.inv`): loop invariants (partial correctness), bounds on the accumulators and
-- termination within the fuel for every canonical input.
import WinterProofs.Lemmas.C07F128Z
import Mathlib.Data.Nat.GCD.Basic
import Mathlib.Tactic.Ring
import Mathlib.Tactic.Linarith

namespace WinterProofs.F128Z
open Gen.F128 Model

theorem M_lit : M = 340282366920938463463374557953744961537 := rfl

/-! ### the halving loop -/

/-- `halve`: strips the `k` factors two of `u`, halving `d` modulo `M` alongside;
    `d` never grows above a bound `B ≥ M`, and one halving brings it below `(B + M) / 2` -/
theorem halve_spec : ∀ (fuel u d : Nat), 0 < u → u < 2 ^ fuel →
    ∃ u' d' k j, Model.F128.halve fuel u d = .done (u', d') ∧ u' % 2 = 1 ∧ u = u' * 2 ^ k ∧
      d' * 2 ^ k = d + j * 340282366920938463463374557953744961537 ∧
      (∀ B, 340282366920938463463374557953744961537 ≤ B → d ≤ B → d' ≤ B) ∧
      (u % 2 = 0 → ∀ B, 340282366920938463463374557953744961537 ≤ B → d ≤ B →
        2 * d' ≤ B + 340282366920938463463374557953744961537) := by
  intro fuel
  induction fuel with
  | zero =>
    intro u d hu hf
    simp at hf
    omega
  | succ fuel ih =>
    intro u d hu hf
    unfold Model.F128.halve
    by_cases he : u % 2 = 0
    · rw [if_pos he]
      dsimp only
      rw [M_lit]
      have hf2 : u / 2 < 2 ^ fuel := by rw [Nat.pow_succ] at hf; omega
      by_cases hd : d % 2 = 1
      · rw [if_pos hd]
        obtain ⟨u', d', k, j, hh, hodd, hu', hd', hb1, _⟩ :=
          ih (u / 2) ((d + 340282366920938463463374557953744961537) / 2) (by omega) hf2
        refine ⟨u', d', k + 1, 1 + 2 * j, hh, hodd, ?_, ?_, ?_, ?_⟩
        · rw [Nat.pow_succ, ← Nat.mul_assoc, ← hu']; omega
        · rw [Nat.pow_succ, ← Nat.mul_assoc, hd']; omega
        · intro B hB hdB
          exact hb1 B hB (by omega)
        · intro _ B hB hdB
          have := hb1 ((B + 340282366920938463463374557953744961537) / 2) (by omega) (by omega)
          omega
      · rw [if_neg hd]
        obtain ⟨u', d', k, j, hh, hodd, hu', hd', hb1, _⟩ := ih (u / 2) (d / 2) (by omega) hf2
        refine ⟨u', d', k + 1, 2 * j, hh, hodd, ?_, ?_, ?_, ?_⟩
        · rw [Nat.pow_succ, ← Nat.mul_assoc, ← hu']; omega
        · rw [Nat.pow_succ, ← Nat.mul_assoc, hd']; omega
        · intro B hB hdB
          exact hb1 B hB (by omega)
        · intro _ B hB hdB
          have := hb1 ((B + 340282366920938463463374557953744961537) / 2) (by omega) (by omega)
          omega
    · rw [if_neg he]
      exact ⟨u, d, 0, 0, rfl, by omega, by simp, by simp, fun B _ h => h, fun h => absurd h he⟩

/-! ### the invariant of the two subtract-and-halve steps -/

theorem two_ne_zero' : (2 : ZMod P) ≠ 0 := by
  have h : ((2 : Nat) : ZMod P) ≠ 0 := by
    rw [Ne, ZMod.natCast_eq_zero_iff]
    decide
  simpa using h

/-- `(U, D)` is the pair being reduced, `(V, A)` the other pair; `D·x = s·U`, `A·x = −s·V`;
    `n` counts the subtract-and-halve steps so far: `U + V` has at least halved `n` times and the
    accumulators have grown by at most `M/2` per step -/
def K (xz s : ZMod P) (U V D A n : Nat) : Prop :=
  U % 2 = 1 ∧ V % 2 = 1 ∧ Nat.Coprime U V ∧
  (D : ZMod P) * xz = s * (U : ZMod P) ∧ (A : ZMod P) * xz = - s * (V : ZMod P) ∧
  (U + V) * 2 ^ n ≤ 3 * 340282366920938463463374557953744961537 ∧
  2 * D ≤ (n + 2) * 340282366920938463463374557953744961537 ∧
  2 * A ≤ (n + 2) * 340282366920938463463374557953744961537

theorem K.swap {xz s : ZMod P} {U V D A n : Nat} (h : K xz s U V D A n) : K xz (-s) V U A D n := by
  obtain ⟨h1, h2, h3, h4, h5, h6, h7, h8⟩ := h
  refine ⟨h2, h1, h3.symm, h5, ?_, ?_, h8, h7⟩
  · rw [neg_neg]; exact h4
  · rw [Nat.add_comm]; exact h6

theorem K.lt_pow {xz s : ZMod P} {U V D A n : Nat} (h : K xz s U V D A n) : U < 2 ^ 130 := by
  obtain ⟨_, _, _, _, _, h6, _, _⟩ := h
  have h1 : U + V ≤ (U + V) * 2 ^ n := Nat.le_mul_of_pos_right _ (Nat.two_pow_pos n)
  have : (2 : Nat) ^ 130 = 1361129467683753853853498429727072845824 := by norm_num
  omega

theorem bnd1 (D n : Nat) (h : 2 * D ≤ (n + 2) * 340282366920938463463374557953744961537
    + 340282366920938463463374557953744961537) :
    2 * D ≤ (n + 1 + 2) * 340282366920938463463374557953744961537 := by
  rw [show n + 1 + 2 = (n + 2) + 1 from rfl, Nat.add_mul, Nat.one_mul]
  exact h

theorem bnd2 (A n : Nat) (h : 2 * A ≤ (n + 2) * 340282366920938463463374557953744961537) :
    2 * A ≤ (n + 1 + 2) * 340282366920938463463374557953744961537 :=
  le_trans h (Nat.mul_le_mul_right _ (by omega))

/-- one subtraction `U -= V; D += A` followed by the halving loop -/
theorem halve_step {xz s : ZMod P} {U V D A n : Nat} (h : K xz s U V D A n) (hlt : V < U) :
    ∃ U' D', Model.F128.halve 400 (U - V) (D + A) = .done (U', D') ∧
      K xz s U' V D' A (n + 1) ∧ 2 * U' ≤ U - V := by
  have hU130 := h.lt_pow
  obtain ⟨hUo, hVo, hcop, hD, hA, hb, hbD, hbA⟩ := h
  have hf : U - V < 2 ^ 400 :=
    lt_of_le_of_lt (Nat.sub_le _ _) (lt_trans hU130 (Nat.pow_lt_pow_right (by norm_num) (by norm_num)))
  obtain ⟨U', D', k, j, hh, hodd, hU', hD', _, hb2⟩ := halve_spec 400 (U - V) (D + A) (by omega) hf
  have hev : (U - V) % 2 = 0 := by omega
  have hbd := hb2 hev ((n + 2) * 340282366920938463463374557953744961537) (by
    have : 1 * 340282366920938463463374557953744961537 ≤ (n + 2) * 340282366920938463463374557953744961537 :=
      Nat.mul_le_mul_right _ (by omega)
    omega) (by omega)
  have hk : 1 ≤ k := by
    rcases k with _ | k
    · simp at hU'; omega
    · omega
  have h2U : 2 * U' ≤ U - V := by
    rw [hU']
    have : 2 ^ 1 ≤ 2 ^ k := Nat.pow_le_pow_right (by norm_num) hk
    calc 2 * U' = U' * 2 ^ 1 := by ring
      _ ≤ U' * 2 ^ k := Nat.mul_le_mul_left _ this
  refine ⟨U', D', hh, ⟨hodd, hVo, ?_, ?_, hA, ?_, ?_, ?_⟩, h2U⟩
  · -- coprimality
    have h1 : Nat.Coprime (U - V) V := (Nat.coprime_sub_self_left (le_of_lt hlt)).2 hcop
    exact Nat.Coprime.coprime_dvd_left ⟨2 ^ k, hU'⟩ h1
  · -- congruence
    have cD := congrArg (Nat.cast : Nat → ZMod P) hD'
    have cU := congrArg (Nat.cast : Nat → ZMod P) hU'
    rw [Nat.cast_sub (le_of_lt hlt)] at cU
    have hM0 : (340282366920938463463374557953744961537 : ZMod P) = 0 := by
      rw [← Nat.cast_ofNat]; exact cast_P
    simp only [Nat.cast_add, Nat.cast_mul, Nat.cast_pow, Nat.cast_ofNat, hM0, mul_zero, add_zero] at cD cU
    have h2 : (2 : ZMod P) ^ k ≠ 0 := pow_ne_zero _ two_ne_zero'
    apply mul_left_cancel₀ h2
    linear_combination xz * cD + hD + hA + s * cU
  · -- the sum halves
    have : (U' + V) * 2 ≤ U + V := by omega
    calc (U' + V) * 2 ^ (n + 1) = (U' + V) * 2 * 2 ^ n := by ring
      _ ≤ (U + V) * 2 ^ n := Nat.mul_le_mul_right _ this
      _ ≤ _ := hb
  · exact bnd1 _ _ hbd
  · exact bnd2 _ _ hbA

/-! ### the loops -/

theorem reduceU_spec (xz : ZMod P) : ∀ (fuel u v a d n : Nat), K xz (-1) u v d a n → u < 2 ^ fuel →
    ∃ u' d' n', Model.F128.reduceU fuel u v a d = .done (u', d') ∧ u' ≤ v ∧ K xz (-1) u' v d' a n' := by
  intro fuel
  induction fuel with
  | zero =>
    intro u v a d n h hf
    have := h.1
    simp at hf
    omega
  | succ fuel ih =>
    intro u v a d n h hf
    unfold Model.F128.reduceU
    by_cases hlt : u > v
    · rw [if_pos hlt]
      obtain ⟨u', d', hh, hK, h2⟩ := halve_step h hlt
      rw [hh]
      dsimp only
      exact ih u' v a d' (n + 1) hK (by rw [Nat.pow_succ] at hf; omega)
    · rw [if_neg hlt]
      exact ⟨u, d, n, rfl, by omega, h⟩

theorem outer_spec (xz : ZMod P) : ∀ (fuel a u v d n : Nat), K xz (-1) u v d a n → v < 2 ^ fuel →
    ∃ r n', Model.F128.outer fuel a u v d = .done r ∧ (r : ZMod P) * xz = 1 ∧
      2 * r ≤ (n' + 2) * 340282366920938463463374557953744961537 ∧
      2 * 2 ^ n' ≤ 3 * 340282366920938463463374557953744961537 := by
  intro fuel
  induction fuel with
  | zero =>
    intro a u v d n h hf
    have := h.2.1
    simp at hf
    omega
  | succ fuel ih =>
    intro a u v d n h hf
    unfold Model.F128.outer
    by_cases hv1 : v = 1
    · rw [if_pos hv1]
      subst hv1
      obtain ⟨hUo, _, _, _, hA, hb, _, hbA⟩ := h
      refine ⟨a, n, rfl, ?_, hbA, ?_⟩
      · rw [hA]; simp
      · calc 2 * 2 ^ n ≤ (u + 1) * 2 ^ n := Nat.mul_le_mul_right _ (by omega)
          _ ≤ _ := hb
    · rw [if_neg hv1]
      have hu800 : u < 2 ^ 800 :=
        lt_trans h.lt_pow (Nat.pow_lt_pow_right (by norm_num) (by norm_num))
      obtain ⟨u', d', n', hr, hle, hK⟩ := reduceU_spec xz 800 u v a d n h hu800
      rw [hr]
      dsimp only
      have hne : u' ≠ v := by
        intro e
        subst e
        have := hK.2.2.1
        rw [Nat.coprime_self] at this
        exact hv1 this
      have hlt : u' < v := lt_of_le_of_ne hle hne
      have hK' : K xz 1 v u' a d' n' := by
        have := hK.swap
        rwa [neg_neg] at this
      obtain ⟨v', a', hh, hK2, h2⟩ := halve_step hK' hlt
      rw [hh]
      dsimp only
      have hK3 : K xz (-1) u' v' d' a' (n' + 1) := hK2.swap
      exact ih a' u' v' d' (n' + 1) hK3 (by rw [Nat.pow_succ] at hf; omega)

theorem reduceA_spec : ∀ (fuel a : Nat), a < fuel * 340282366920938463463374557953744961537 →
    Model.F128.reduceA fuel a = .done (a % 340282366920938463463374557953744961537) := by
  intro fuel
  induction fuel with
  | zero => intro a h; omega
  | succ fuel ih =>
    intro a h
    unfold Model.F128.reduceA
    rw [M_lit]
    by_cases hge : a ≥ 340282366920938463463374557953744961537
    · have h' : a < fuel * 340282366920938463463374557953744961537 + 340282366920938463463374557953744961537 := by
        rw [Nat.add_mul, Nat.one_mul] at h; exact h
      rw [if_pos hge, ih (a - 340282366920938463463374557953744961537) (by omega)]
      exact congrArg Fuel.done (Nat.mod_eq_sub_mod hge).symm
    · rw [if_neg hge]
      exact congrArg Fuel.done (Nat.mod_eq_of_lt (by omega)).symm

/-- the invariant holds initially: `v = M`, `a = 0`, `u = x` or `x + M` (odd), `d = M − 1` -/
theorem K_init (x u : Nat) (hx : x < 340282366920938463463374557953744961537) (hx0 : x ≠ 0)
    (hu : u = if x % 2 = 1 then x else x + 340282366920938463463374557953744961537) :
    K (x : ZMod P) (-1) u 340282366920938463463374557953744961537 340282366920938463463374557953744961536 0 0 := by
  have hprime : Nat.Prime 340282366920938463463374557953744961537 := WinterProofs.Primes.prime_M128
  have hcu : (u : ZMod P) = (x : ZMod P) := by
    rw [hu]
    split
    · rfl
    · rw [Nat.cast_add, cast_P, add_zero]
  refine ⟨?_, by norm_num, ?_, ?_, ?_, ?_, by norm_num, by norm_num⟩
  · rw [hu]; split <;> omega
  · -- gcd(u, M) = 1 because M is prime and does not divide x
    apply Nat.Coprime.symm
    rw [Nat.Prime.coprime_iff_not_dvd hprime]
    intro hdvd
    have hdx : 340282366920938463463374557953744961537 ∣ x := by
      rw [hu] at hdvd
      split at hdvd
      · exact hdvd
      · exact (Nat.dvd_add_left (dvd_refl _)).1 hdvd
    have := Nat.le_of_dvd (by omega) hdx
    omega
  · rw [hcu]
    have : ((340282366920938463463374557953744961536 : Nat) : ZMod P) = -1 := by
      have h1 : ((340282366920938463463374557953744961536 + 1 : Nat) : ZMod P) = 0 := cast_P
      rw [Nat.cast_add, Nat.cast_one] at h1
      linear_combination h1
    rw [this]
  · rw [cast_P]; simp
  · rw [hu]; split <;> omega

/-- the inversion terminates within the fuel on every non-zero canonical word and returns the
    canonical inverse -/
theorem inv_spec (x : Nat) (hx : x < 340282366920938463463374557953744961537) (hx0 : x ≠ 0) :
    ∃ r, Model.F128.inv x = .done r ∧ r < 340282366920938463463374557953744961537 ∧
      (r : ZMod P) * (x : ZMod P) = 1 := by
  unfold Model.F128.inv
  rw [if_neg hx0]
  dsimp only
  rw [M_lit]
  obtain ⟨u, hu⟩ : ∃ u, u = if x % 2 = 1 then x else x + 340282366920938463463374557953744961537 := ⟨_, rfl⟩
  rw [← hu]
  have hK := K_init x u hx hx0 hu
  obtain ⟨r, n', hr, hinv, hb, hn⟩ := outer_spec (x : ZMod P) 800 0 u _ _ 0 hK
    (lt_trans (by norm_num : 340282366920938463463374557953744961537 < 2 ^ 130)
      (Nat.pow_lt_pow_right (by norm_num) (by norm_num)))
  rw [hr]
  dsimp only
  have hn128 : n' ≤ 128 := by
    by_contra hcon
    have h1 : (2 : Nat) ^ 129 ≤ 2 ^ n' := Nat.pow_le_pow_right (by norm_num) (by omega)
    have h2 : (2 : Nat) ^ 129 = 680564733841876926926749214863536422912 := by norm_num
    omega
  have hr200 : r < 200 * 340282366920938463463374557953744961537 := by
    have : (n' + 2) * 340282366920938463463374557953744961537 ≤ 130 * 340282366920938463463374557953744961537 :=
      Nat.mul_le_mul_right _ (by omega)
    omega
  refine ⟨r % 340282366920938463463374557953744961537, reduceA_spec 200 r hr200, Nat.mod_lt _ (by norm_num), ?_⟩
  have : ((r % 340282366920938463463374557953744961537 : Nat) : ZMod P) = (r : ZMod P) :=
    ZMod.natCast_mod r P
  rw [this]
  exact hinv

/-- the accumulators stay far below the 192 bits of the three limbs the code keeps them in
    (the model abstracts those limbs to natural numbers) -/
theorem K.acc_lt {xz s : ZMod P} {U V D A n : Nat} (h : K xz s U V D A n) :
    D < 2 ^ 135 ∧ A < 2 ^ 135 := by
  obtain ⟨hUo, hVo, _, _, _, hb, hbD, hbA⟩ := h
  have hn128 : n ≤ 128 := by
    by_contra hcon
    have h1 : (2 : Nat) ^ 129 ≤ 2 ^ n := Nat.pow_le_pow_right (by norm_num) (by omega)
    have h2 : (2 : Nat) ^ 129 = 680564733841876926926749214863536422912 := by norm_num
    have h3 : 2 * 2 ^ n ≤ (U + V) * 2 ^ n := Nat.mul_le_mul_right _ (by omega)
    omega
  have h4 : (n + 2) * 340282366920938463463374557953744961537 ≤ 130 * 340282366920938463463374557953744961537 :=
    Nat.mul_le_mul_right _ (by omega)
  have h5 : (2 : Nat) ^ 135 = 43556142965880123323311949751266331066368 := by norm_num
  constructor <;> omega

/-- inversion on every canonical word: terminates within the fuel, zero maps to zero, every other
    word to the canonical representative of the inverse residue -/
theorem inv_total (x : Nat) (hx : Inv x) :
    ∃ r, Model.F128.inv x = .done r ∧ Inv r ∧ val r = (val x)⁻¹ := by
  by_cases h0 : x = 0
  · subst h0
    refine ⟨0, ?_, zero_inv, ?_⟩
    · unfold Model.F128.inv
      rw [if_pos rfl]
    · rw [val_zero, inv_zero]
  · obtain ⟨r, hr, hlt, hmul⟩ := inv_spec x hx h0
    exact ⟨r, hr, hlt, eq_inv_of_mul_eq_one_left hmul⟩

end WinterProofs.F128Z
