-- C14 helper lemmas: the concurrent `permute` (math/src/fft/concurrent.rs, prover/src/matrix/segments.rs) — the task
-- ranges concatenate to 0..n, distinct steps touch disjoint index pairs, hence every interleaving = the serial loop
import WinterProofs.Lemmas.C14Arith
import WinterProofs.Lemmas.C14Sched

namespace WinterProofs.C14
open Model.Parallel WinterProofs.C09
open Model.Fft (brev permuteIndex isPow2)

theorem flatMap_range'_blocks (bs S : Nat) :
    (List.range S).flatMap (fun b => List.range' (b * bs) bs) = List.range (S * bs) := by
  induction S with
  | zero => simp
  | succ S ih =>
    rw [List.range_succ, List.flatMap_append, ih]
    simp only [List.flatMap_cons, List.flatMap_nil, List.append_nil]
    rw [List.range_eq_range', List.range_eq_range', Nat.succ_mul]
    have := List.range'_append (s := 0) (m := S * bs) (n := bs) (step := 1)
    simpa using this

variable {α : Type}

theorem runAll_eq_foldl_runs (l : List (Step α)) (s : Nat → α) :
    runAll l s = (l.map Step.run).foldl (fun s f => f s) s := by
  simp [runAll, List.foldl_map]

theorem permuteNumTasks_pow (k t f e : Nat) (hf : f = 2 ^ e) :
    ∃ c, c ≤ k ∧ permuteNumTasks (2 ^ k) t f = 2 ^ c := by
  obtain ⟨c0, hc0⟩ := nextPow2_isPow t
  refine ⟨min (c0 + e) k, Nat.min_le_right _ _, ?_⟩
  unfold permuteNumTasks
  rw [hc0, hf, ← Nat.pow_add, min_two_pow]

/-- the index ranges of the spawned tasks, concatenated in task order, are `0, 1, …, n-1` -/
theorem permuteTasks_runs (k t f e : Nat) (hf : f = 2 ^ e) :
    ((permuteTasks (α := α) (2 ^ k) t f).flatten).map Step.run = (List.range (2 ^ k)).map (permuteStepFn (2 ^ k)) := by
  obtain ⟨c, hck, hc⟩ := permuteNumTasks_pow k t f e hf
  have hbs : 2 ^ k / 2 ^ c = 2 ^ (k - c) := two_pow_div k c hck
  unfold permuteTasks permuteTaskRange
  simp only [hc, hbs]
  rw [← two_pow_split k c hck, ← flatMap_range'_blocks (2 ^ (k - c)) (2 ^ c)]
  simp [List.flatMap_def, List.map_flatten, Function.comp_def, permuteStep]

theorem permute_sequential_eq_serial (k t f e : Nat) (hf : f = 2 ^ e) (s : Nat → α) :
    runAll (permuteTasks (2 ^ k) t f).flatten s = runAll (permuteSerial (2 ^ k)) s := by
  rw [runAll_eq_foldl_runs, runAll_eq_foldl_runs, permuteTasks_runs k t f e hf]
  simp [permuteSerial, Function.comp_def, permuteStep]

theorem permuteStepFn_two_pow (k i : Nat) (hk : k ≤ 64) (hi : i < 2 ^ k) (s : Nat → α) :
    permuteStepFn (2 ^ k) i s = if brev k i > i then swapAt s i (brev k i) else s := by
  simp [permuteStepFn, permuteIndex_two_pow k i hk hi]

/-- what step `i` of `permute` touches: `i` and its bit-reversal, when the latter is larger -/
def permW (k i : Nat) : Nat → Prop := fun p => brev k i > i ∧ (p = i ∨ p = brev k i)

theorem permuteStep_footprint (k b i : Nat) (hk : k ≤ 64) (hi : i < 2 ^ k) :
    Footprint (permuteStep (α := α) (2 ^ k) b i) (permW k i) (permW k i) := by
  constructor
  · intro s p hp
    simp only [permuteStep, permuteStepFn_two_pow k i hk hi]
    split
    · rename_i h
      have h1 : p ≠ i := fun e => hp ⟨h, Or.inl e⟩
      have h2 : p ≠ brev k i := fun e => hp ⟨h, Or.inr e⟩
      simp [swapAt, h1, h2]
    · rfl
  · intro s s' hss p hp
    simp only [permuteStep, permuteStepFn_two_pow k i hk hi]
    have h := hp.1
    simp only [h, ↓reduceIte, swapAt]
    have e1 := hss i ⟨h, Or.inl rfl⟩
    have e2 := hss (brev k i) ⟨h, Or.inr rfl⟩
    split
    · exact e2
    · split
      · exact e1
      · rcases hp.2 with h' | h' <;> contradiction

theorem permW_disjoint (k i i' : Nat) (hi : i < 2 ^ k) (hi' : i' < 2 ^ k) (hne : i ≠ i') :
    NonInterfering (permW k i) (permW k i) (permW k i') (permW k i') := by
  have key : ∀ a a', a < 2 ^ k → a' < 2 ^ k → a ≠ a' → ∀ p, permW k a p → ¬ permW k a' p := by
    intro a a' ha ha' hn p ⟨h1, h2⟩ ⟨h1', h2'⟩
    rcases h2 with rfl | rfl <;> rcases h2' with h | h
    · exact hn h
    · -- p = a = brev a'
      have : brev k p = a' := by rw [h, brev_brev k a' ha']
      omega
    · -- brev a = a'
      have : brev k a' = a := by rw [← h, brev_brev k a ha]
      omega
    · exact hn (brev_injOn k a a' ha ha' h)
  constructor
  · intro p hp; exact ⟨key i i' hi hi' hne p hp, key i i' hi hi' hne p hp⟩
  · intro p hp; exact ⟨key i' i hi' hi (Ne.symm hne) p hp, key i' i hi' hi (Ne.symm hne) p hp⟩

/-- membership in the flattened task list: the step is `permuteStep n b i` with `i` in the range of task `b` -/
theorem mem_permuteTasks (k t f e : Nat) (hf : f = 2 ^ e) (st : Step α)
    (h : st ∈ (permuteTasks (α := α) (2 ^ k) t f).flatten) :
    ∃ b i, st = permuteStep (2 ^ k) b i ∧ i < 2 ^ k ∧
      b = i / (2 ^ k / permuteNumTasks (2 ^ k) t f) := by
  obtain ⟨c, hck, hc⟩ := permuteNumTasks_pow k t f e hf
  have hbs : 2 ^ k / 2 ^ c = 2 ^ (k - c) := two_pow_div k c hck
  simp only [permuteTasks, permuteTaskRange, List.mem_flatten, List.mem_map, List.mem_range] at h
  obtain ⟨l, ⟨b, hb, rfl⟩, hst⟩ := h
  simp only [List.mem_map, List.mem_range'_1] at hst
  obtain ⟨i, ⟨hlo, hhi⟩, rfl⟩ := hst
  simp only [hc, hbs] at hlo hhi hb
  have hpos : 0 < 2 ^ (k - c) := Nat.two_pow_pos _
  refine ⟨b, i, rfl, ?_, ?_⟩
  · have : (b + 1) * 2 ^ (k - c) ≤ 2 ^ c * 2 ^ (k - c) := Nat.mul_le_mul_right _ hb
    rw [two_pow_split k c hck, Nat.add_mul] at this
    omega
  · rw [hc, hbs]
    symm
    apply Nat.div_eq_of_lt_le
    · omega
    · rw [Nat.add_mul]; omega

/-- concurrent `permute` (math: factor 1, matrix segments: factor 2) on `2^k` elements, any thread count:
    EVERY interleaving of the spawned tasks computes what the serial loop `for i in 0..n` computes -/
theorem permute_any_schedule (k t f e : Nat) (hk : k ≤ 64) (hf : f = 2 ^ e) (sched : List (Step α))
    (hs : IsSchedule (permuteTasks (2 ^ k) t f) sched) (s : Nat → α) :
    runAll sched s = runAll (permuteSerial (2 ^ k)) s := by
  rw [← permute_sequential_eq_serial k t f e hf]
  apply schedule_eq_sequential _ _ _ hs
  intro a ha b hb hne s
  obtain ⟨ba, ia, rfl, hia, hba⟩ := mem_permuteTasks k t f e hf a ha
  obtain ⟨bb, ib, rfl, hib, hbb⟩ := mem_permuteTasks k t f e hf b hb
  have hii : ia ≠ ib := by
    intro h; subst h
    apply hne
    simp [permuteStep, hba, hbb]
  exact commute_of_nonInterfering _ _ _ _ _ _ (permuteStep_footprint k ba ia hk hia)
    (permuteStep_footprint k bb ib hk hib) (permW_disjoint k ia ib hia hib hii) s

end WinterProofs.C14
