-- C11 helper lemmas shared by the round theorems: addition on any 64-bit word, the reduction tail
-- as a residue, the matrix-vector product over `ZMod p`.
import Winter.Model.Rescue
import WinterProofs.Lemmas.C07F64Z
import WinterProofs.Lemmas.C11MdsCommon
import WinterProofs.Lemmas.C11Misc
import WinterProofs.Lemmas.C11Sem
import Mathlib.Tactic.LinearCombination
import Mathlib.Tactic.Ring

namespace WinterProofs.C11.RoundCommon
open WinterProofs.F64Z WinterProofs.C11

/-- `s + k` on ANY 64-bit raw word `s` and a constant `<= p - 2^32`: valid result, sum of the residues -/
theorem add_any (s k : Nat) (hs : s < 18446744073709551616) (hk : k ≤ 18446744065119617025) :
    Inv (Gen.F64.add s k) ∧ val (Gen.F64.add s k) = val s + val k := by
  obtain ⟨hb, q, hq⟩ := Misc.f64_add_canonical s k hs hk
  refine ⟨hb, ?_⟩
  have hc := congrArg (Nat.cast : Nat → ZMod P) hq
  push_cast at hc
  unfold val
  linear_combination (-(Rinv : ZMod P)) * hc - (q : ZMod P) * (Rinv : ZMod P) * cast_P

/-- the reduction tail is a 64-bit word whose cast is the cast of `l + h * 2^32` -/
theorem tail_cast (L H T : Nat) (hL : L < 687194767360) (hH : H < 687194767360)
    (hT : L + H * 4294967296 = T) :
    tailRed L H < 18446744073709551616 ∧ ((tailRed L H : Nat) : ZMod P) = (T : ZMod P) := by
  obtain ⟨hb, k, hk⟩ := tail_val L H hL hH
  refine ⟨hb, ?_⟩
  have hc := congrArg (Nat.cast : Nat → ZMod P) (hT.symm.trans hk)
  push_cast at hc
  linear_combination (-1 : ZMod P) * hc - (k : ZMod P) * cast_P

/-- inner product of a row of integers with a vector of residues -/
noncomputable def dotZ (row : List Nat) (v : List (ZMod P)) : ZMod P :=
  (List.zipWith (fun (c : Nat) (x : ZMod P) => (c : ZMod P) * x) row v).sum

/-- the reference matrix-vector product over `ZMod p` -/
noncomputable def matVecZ (m : List (List Nat)) (v : List (ZMod P)) : List (ZMod P) :=
  m.map (fun r => dotZ r v)

/-- the 64-bit field as the sponge sees it (valid raw words are the canonical ones) -/
noncomputable def S64 : Sem.FieldSem Model.F64.impl P where
  Inv := Inv
  val := val
  add_ok := fun a b ha hb => ⟨add_inv a b ha hb, val_add a b ha hb⟩
  new_ok := fun v hv => ⟨new_inv v (by norm_num; exact hv), val_new v (by norm_num; exact hv)⟩

/-- unfolding lemmas with proof terms (so that `simp` rewrites with them instead of unfolding
    definitionally, which the kernel would have to re-check on terms with huge exponents) -/
theorem dotZ_eq (row : List Nat) (v : List (ZMod P)) :
    dotZ row v = (List.zipWith (fun (c : Nat) (x : ZMod P) => (c : ZMod P) * x) row v).sum := by
  rw [dotZ]

theorem matVecZ_eq (m : List (List Nat)) (v : List (ZMod P)) :
    matVecZ m v = m.map (fun r => dotZ r v) := by
  rw [matVecZ]

/-- the same for the list functions: the core lemmas are `rfl` lemmas, which `simp` applies
    definitionally; these copies carry a proof term -/
theorem map_cons' {α β : Type} (f : α → β) (a : α) (l : List α) : List.map f (a :: l) = f a :: List.map f l := by
  rw [List.map_cons]

theorem map_nil' {α β : Type} (f : α → β) : List.map f ([] : List α) = [] := by
  rw [List.map_nil]

theorem zipWith_cons' {α β γ : Type} (f : α → β → γ) (a : α) (b : β) (l : List α) (m : List β) :
    List.zipWith f (a :: l) (b :: m) = f a b :: List.zipWith f l m := by
  rw [List.zipWith_cons_cons]

theorem zipWith_nil' {α β γ : Type} (f : α → β → γ) : List.zipWith f ([] : List α) ([] : List β) = [] := by
  rw [List.zipWith_nil_left]

theorem sum_cons' (a : ZMod P) (l : List (ZMod P)) : (a :: l).sum = a + l.sum := by
  rw [List.sum_cons]

theorem sum_nil' : ([] : List (ZMod P)).sum = 0 := by
  rw [List.sum_nil]

end WinterProofs.C11.RoundCommon
