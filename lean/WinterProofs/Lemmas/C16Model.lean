-- C16, model side: unfolding lemmas for the assertion model (well-formedness, validation, step
-- lists) that connect `Model.Divisor` to the arithmetic of C16Nat.
import WinterProofs.Lemmas.C16Nat

namespace WinterProofs.C16L
open Model.Divisor

variable {α : Type}

/-- the assertions the three constructors can return -/
def WF (a : Assertion α) : Prop :=
  (a.stride = 0 ∧ a.values.length = 1) ∨
  ((∃ k, a.stride = 2 ^ k) ∧ 2 ≤ a.stride ∧ a.first < a.stride ∧
    (a.values.length = 1 ∨ (2 ≤ a.values.length ∧ ∃ k, a.values.length = 2 ^ k)))

/-- the length condition of `validate_trace_length`, by kind -/
def FitsLen (a : Assertion α) (n : Nat) : Prop :=
  if a.stride = 0 then a.first < n
  else if a.values.length = 1 then a.stride ≤ n
  else a.values.length * a.stride = n

/-- the (first step, stride) shape of an assertion -/
def shape (a : Assertion α) : Shape := ⟨a.first, a.stride⟩

theorem validateStride_none_iff (stride first : Nat) :
    validateStride stride first = none ↔ (∃ k, stride = 2 ^ k) ∧ 2 ≤ stride ∧ first < stride := by
  unfold validateStride
  by_cases h1 : isPow2 stride = true
  · have h1' := (isPow2_iff stride).mp h1
    simp only [h1, Bool.not_true, Bool.false_eq_true, if_false]
    by_cases h2 : stride < 2
    · simp only [h2, if_true]; constructor
      · intro h; cases h
      · intro h; omega
    · simp only [h2, if_false]
      by_cases h3 : first ≥ stride
      · simp only [h3, if_true]; constructor
        · intro h; cases h
        · intro h; omega
      · simp only [h3, if_false, true_iff]; exact ⟨h1', by omega, by omega⟩
  · have h1' : isPow2 stride = false := by simpa using h1
    have h1'' := (isPow2_false_iff stride).mp h1'
    simp only [h1', Bool.not_false, if_true]
    constructor
    · intro h; cases h
    · intro h; exact absurd h.1 h1''

theorem validateTraceLength_ok_iff (a : Assertion α) (n : Nat) :
    a.validateTraceLength n = .ok () ↔ (∃ k, n = 2 ^ k) ∧ FitsLen a n := by
  unfold Assertion.validateTraceLength FitsLen Assertion.isSingle Assertion.isPeriodic
  by_cases hn : isPow2 n = true
  · have hn' := (isPow2_iff n).mp hn
    simp only [hn, Bool.not_true, Bool.false_eq_true, if_false, hn', true_and]
    by_cases h0 : a.stride = 0
    · simp only [h0, beq_self_eq_true, if_true]
      by_cases h : a.first ≥ n
      · simp only [h, if_true]; constructor
        · intro h; cases h
        · intro h'; omega
      · simp only [h, if_false, true_iff]; omega
    · have h0' : (a.stride == 0) = false := by simp [h0]
      have h0'' : (a.stride != 0) = true := by simp [h0]
      simp only [h0', h0'', Bool.false_eq_true, if_false, if_neg h0, Bool.true_and, beq_iff_eq]
      by_cases h1 : a.values.length = 1
      · simp only [h1, if_true]
        by_cases h : a.stride > n
        · simp only [h, if_true]; constructor
          · intro h; cases h
          · intro h'; omega
        · simp only [h, if_false, true_iff]; omega
      · simp only [h1, if_false]
        by_cases h : a.values.length * a.stride = n
        · simp [h]
        · simp only [ne_eq, h, not_false_eq_true, if_true, iff_false]
          intro h; cases h
  · have hn' : isPow2 n = false := by simpa using hn
    have hn'' := (isPow2_false_iff n).mp hn'
    simp only [hn', Bool.not_false, if_true]
    constructor
    · intro h; cases h
    · intro h; exact absurd h.1 hn''

/-- a well-formed assertion that passes `validate_trace_length` has a shape that fits the trace -/
theorem shape_fits {a : Assertion α} {n : Nat} (hw : WF a) (hv : a.validateTraceLength n = .ok ()) :
    (shape a).fits n := by
  obtain ⟨hn, hf⟩ := (validateTraceLength_ok_iff a n).mp hv
  unfold FitsLen at hf
  unfold Shape.fits shape
  rcases hw with ⟨h0, _⟩ | ⟨hp, h2, hfs, hl⟩
  · simp only [h0, if_true] at hf ⊢; exact hf
  · have h0 : a.stride ≠ 0 := by omega
    simp only [if_neg h0] at hf ⊢
    refine ⟨hp, hfs, ?_⟩
    rcases hl with h1 | ⟨h2l, _⟩
    · simpa [h1] using hf
    · have h1 : a.values.length ≠ 1 := by omega
      rw [if_neg h1] at hf
      rw [← hf]
      exact Nat.le_mul_of_pos_left _ (by omega)

/-- the stride of a strided assertion divides the trace length, and the number of steps is the
    quotient -/
theorem stride_mul_steps {a : Assertion α} {n : Nat} (hw : WF a) (hv : a.validateTraceLength n = .ok ())
    (h0 : a.stride ≠ 0) :
    a.stride * (if a.values.length = 1 then n / a.stride else a.values.length) = n := by
  obtain ⟨hn, hf⟩ := (validateTraceLength_ok_iff a n).mp hv
  unfold FitsLen at hf
  rw [if_neg h0] at hf
  rcases hw with ⟨h, _⟩ | ⟨hp, _, _, _⟩
  · exact absurd h h0
  · by_cases h1 : a.values.length = 1
    · rw [if_pos h1] at hf ⊢
      exact Nat.mul_div_cancel' (pow2_dvd_of_le hp hn hf)
    · rw [if_neg h1] at hf ⊢
      rw [Nat.mul_comm]; exact hf

/-- the step list of a validated well-formed assertion is the step set of its shape -/
theorem mem_stepList_iff {a : Assertion α} {n : Nat} (hw : WF a) (hv : a.validateTraceLength n = .ok ())
    (s : Nat) : s ∈ a.stepList n ↔ (shape a).has n s := by
  have hmul := stride_mul_steps hw hv
  unfold Assertion.stepList Assertion.isSingle Assertion.isPeriodic Shape.has shape
  by_cases h0 : a.stride = 0
  · simp [h0]
  · have h0' : (a.stride == 0) = false := by simp [h0]
    have h0'' : (a.stride != 0) = true := by simp [h0]
    have hfs : a.first < a.stride := by
      rcases hw with ⟨h, _⟩ | ⟨_, _, h, _⟩
      · exact absurd h h0
      · exact h
    have hmul := hmul h0
    simp only [h0', h0'', Bool.false_eq_true, if_false, if_neg h0, Bool.true_and, beq_iff_eq]
    by_cases h1 : a.values.length = 1
    · rw [if_pos h1] at hmul
      simp only [h1, if_true, List.mem_map, List.mem_range]
      exact mem_progression hfs hmul
    · rw [if_neg h1] at hmul
      simp only [h1, if_false, List.mem_map, List.mem_range]
      exact mem_progression hfs hmul

/-- `overlaps_with` is the column test followed by the shape test -/
theorem overlapsWith_eq (a b : Assertion α) :
    a.overlapsWith b = (a.column == b.column && (shape a).ovl (shape b)) := by
  unfold Assertion.overlapsWith Shape.ovl shape Assertion.isSingle
  by_cases hc : a.column = b.column
  · simp [hc]
  · simp [hc]

theorem stepList_length {a : Assertion α} {n : Nat} :
    (a.stepList n).length =
      if a.stride = 0 then 1 else if a.values.length = 1 then n / a.stride else a.values.length := by
  unfold Assertion.stepList Assertion.isSingle Assertion.isPeriodic
  by_cases h0 : a.stride = 0
  · simp [h0]
  · by_cases h1 : a.values.length = 1 <;> simp [h0, h1]

theorem getNumSteps_ok {a : Assertion α} {n : Nat} (hv : a.validateTraceLength n = .ok ()) :
    a.getNumSteps n = .ok (a.stepList n).length := by
  unfold Assertion.getNumSteps
  rw [hv, stepList_length]
  unfold Assertion.isSingle Assertion.isPeriodic
  by_cases h0 : a.stride = 0
  · simp [h0]
  · by_cases h1 : a.values.length = 1 <;> simp [h0, h1]

/-- the step list in closed form: `first + stride * i` for `i` below the number of steps -/
theorem stepList_eq_map (a : Assertion α) (n : Nat) :
    a.stepList n =
      if a.stride = 0 then [a.first]
      else (List.range (a.stepList n).length).map (fun i => a.first + a.stride * i) := by
  by_cases h0 : a.stride = 0
  · rw [if_pos h0]; unfold Assertion.stepList Assertion.isSingle; simp [h0]
  · rw [if_neg h0, stepList_length, if_neg h0]
    unfold Assertion.stepList Assertion.isSingle Assertion.isPeriodic
    by_cases h1 : a.values.length = 1 <;> simp [h0, h1]

/-- every named step lies inside the trace -/
theorem stepList_lt {a : Assertion α} {n s : Nat} (hw : WF a) (hv : a.validateTraceLength n = .ok ())
    (h : s ∈ a.stepList n) : s < n := by
  have hh := (mem_stepList_iff hw hv s).mp h
  have hf := shape_fits hw hv
  unfold Shape.has at hh
  unfold Shape.fits at hf
  by_cases h0 : (shape a).stride = 0
  · rw [if_pos h0] at hh hf; omega
  · rw [if_neg h0] at hh; exact hh.1

/-- `n = S · k` with `k` the number of steps and `S` the spacing (`n` itself for a single step),
    and the exponent `k · first` used by `from_assertion` stays inside the trace domain -/
theorem steps_factor {a : Assertion α} {n : Nat} (hw : WF a) (hv : a.validateTraceLength n = .ok ())
    (hn : 0 < n) :
    n = (if a.stride = 0 then n else a.stride) * (a.stepList n).length ∧
      (a.stepList n).length * a.first < n := by
  rw [stepList_length]
  by_cases h0 : a.stride = 0
  · have hf := shape_fits hw hv
    unfold Shape.fits shape at hf
    simp only [h0, if_true] at hf ⊢
    omega
  · have hmul := stride_mul_steps hw hv h0
    have hfs : a.first < a.stride := by
      rcases hw with ⟨h, _⟩ | ⟨_, _, h, _⟩
      · exact absurd h h0
      · exact h
    simp only [if_neg h0]
    refine ⟨hmul.symm, ?_⟩
    generalize (if a.values.length = 1 then n / a.stride else a.values.length) = k at hmul ⊢
    have hk : 0 < k := by
      rcases Nat.eq_zero_or_pos k with h | h
      · subst h; omega
      · exact h
    calc k * a.first < k * a.stride := Nat.mul_lt_mul_of_pos_left hfs hk
      _ = n := by rw [Nat.mul_comm]; exact hmul

end WinterProofs.C16L
