-- C20 helper lemmas, part 7: long division (`div`).
import WinterProofs.Lemmas.C20Utils

namespace WinterProofs.C20
open Model.Poly Polynomial

variable {α β F : Type} [Field F]

section
variable {O : Ops α} {v : α → F}

-- ------------------------------------------------------------------ the inner loop

/-- `a[i + j] -= c_j * quot` for a list of (coefficient, index) pairs, in any order -/
theorem subLoop_spec (L : Lawful O v) (quot : α) (i : Nat) (ps : List (α × Nat)) (a : List α)
    (h : ∀ p ∈ ps, i + p.2 < a.length) :
    ∃ a', loopM ps a (fun a bj => updAt a (i + bj.2) fun x => O.sub x (O.mul bj.1 quot)) = .ok a' ∧
      a'.length = a.length ∧
      toPoly v a' = toPoly v a - C (v quot) * X ^ i * (ps.map fun p => C (v p.1) * X ^ p.2).sum := by
  induction ps generalizing a with
  | nil => exact ⟨a, rfl, rfl, by simp⟩
  | cons p ps ih =>
    have hk : i + p.2 < a.length := h p (by simp)
    rw [loopM_cons_ok (body := fun (a : List α) (bj : α × Nat) =>
        updAt a (i + bj.2) fun x => O.sub x (O.mul bj.1 quot)) (i := p)
      (updAt_ok a (i + p.2) _ hk)]
    obtain ⟨a', e, l, q⟩ := ih (a.set (i + p.2) (O.sub a[i + p.2] (O.mul p.1 quot)))
      (fun p' hp' => by simpa using h p' (by simp [hp']))
    refine ⟨a', e, by simpa using l, ?_⟩
    rw [q, toPoly_set v a _ _ hk, L.sub, L.mul, List.map_cons, List.sum_cons, pow_add]
    simp only [sub_sub_cancel_left, C_neg, C_mul]
    ring

theorem sum_zipIdx (l : List α) (k : Nat) :
    ((l.zipIdx k).map fun p => C (v p.1) * X ^ p.2).sum = X ^ k * toPoly v l := by
  induction l generalizing k with
  | nil => simp
  | cons c cs ih =>
    rw [List.zipIdx_cons, List.map_cons, List.sum_cons, ih, toPoly_cons, pow_succ]
    ring

theorem mem_zipIdx_lt (l : List α) (k : Nat) : ∀ p ∈ l.zipIdx k, p.2 < k + l.length := by
  induction l generalizing k with
  | nil => simp
  | cons c cs ih =>
    intro p hp
    rw [List.zipIdx_cons] at hp
    rcases List.mem_cons.1 hp with rfl | hp
    · simp
    · have := ih (k + 1) p hp
      simp; omega

/-- the inner loop of `div`: subtract `quot * x^i * (b.take bpos)` -/
theorem divInner_spec (L : Lawful O v) (quot : α) (i : Nat) (bl : List α) (a : List α)
    (h : i + bl.length ≤ a.length) :
    ∃ a', loopM bl.zipIdx.reverse a (fun a bj => updAt a (i + bj.2) fun x => O.sub x (O.mul bj.1 quot))
        = .ok a' ∧ a'.length = a.length ∧
      toPoly v a' = toPoly v a - C (v quot) * X ^ i * toPoly v bl := by
  obtain ⟨a', e, l, p⟩ := subLoop_spec L quot i bl.zipIdx.reverse a (by
    intro p hp
    have := mem_zipIdx_lt bl 0 p (List.mem_reverse.1 hp)
    omega)
  refine ⟨a', e, l, ?_⟩
  rw [p, List.map_reverse, List.sum_reverse, sum_zipIdx]
  simp

-- ------------------------------------------------------------------ shape of a non-zero divisor / dividend

/-- a list denoting a non-zero polynomial splits at `degree_of` into the lower coefficients, the
    (non-zero) leading coefficient and zeros -/
theorem split_at_degree (L : Lawful O v) (b : List α) (hb : toPoly v b ≠ 0) :
    ∃ lo c zs, b = lo ++ c :: zs ∧ lo.length = degreeOf O b ∧ v c ≠ 0 ∧ toPoly v zs = 0 := by
  rcases stripRev_cases L b with ⟨_, h0⟩ | ⟨c, t, hs, hc, hr⟩
  · exact absurd h0 hb
  · obtain ⟨zs, hz, hzs⟩ := removeLeadingZeros_append (O := O) b
    refine ⟨t.reverse, c, zs, by rw [hz, hr]; simp, by simp [degreeOf, hs], hc,
      toPoly_eq_zero_of_all_isZero L zs hzs⟩

theorem degreeOf_lt_length (a : List α) (ha : a ≠ []) : degreeOf O a < a.length := by
  unfold degreeOf
  have hle : (stripRev O a).length ≤ a.length := by
    have := (List.dropWhile_sublist (p := O.isZero) (l := a.reverse)).length_le
    simpa [stripRev] using this
  cases h : stripRev O a with
  | nil => simp; exact List.length_pos_iff.2 ha
  | cons c t => rw [h] at hle; simp at hle ⊢; omega


-- ------------------------------------------------------------------ the outer loop

/-- invariant of the outer loop of `div` when the indices `k, …, n-1` have been processed:
    `P` the dividend, `Blow` the divisor without its leading term `lead · X^bpos` -/
structure DivInv (v : α → F) (P Blow : F[X]) (lead : F) (bpos n alen k : Nat) (st : DivSt α) : Prop where
  alen : st.a.length = alen
  rlen : st.result.length = n
  apos : 1 ≤ k → st.apos + 1 = k + bpos
  i1 : toPoly v st.a = P - Blow * X ^ k * toPoly v (st.result.drop k)
  i2 : ∀ m, k + bpos ≤ m →
    (toPoly v st.a - X ^ (bpos + k) * (C lead * toPoly v (st.result.drop k))).coeff m = 0

theorem coeff_toPoly_of_lt (l : List α) (m : Nat) (h : m < l.length) :
    (toPoly v l).coeff m = v l[m] := by
  simp [toPoly, coeff_ofCoeffs, List.getD_eq_getElem?_getD, h]

theorem coeff_toPoly_of_ge (l : List α) (m : Nat) (h : l.length ≤ m) : (toPoly v l).coeff m = 0 := by
  rw [toPoly, coeff_ofCoeffs, List.getD_eq_getElem?_getD, List.getElem?_eq_none (by simpa using h)]
  rfl

theorem drop_set_self (l : List α) (k : Nat) (q : α) (h : k < l.length) :
    (l.set k q).drop k = q :: l.drop (k + 1) := by
  have h' : k < (l.set k q).length := by simpa using h
  rw [List.drop_eq_getElem_cons h', List.getElem_set_self, List.drop_set_of_lt (by omega)]

theorem divStep_spec (L : Lawful O v) (hT : Total O) (bl : List α) (c : α) (zs : List α)
    (hc : v c ≠ 0) (P : F[X]) (n alen k : Nat) (st : DivSt α)
    (hk : k + 1 ≤ n) (hn : n + bl.length ≤ alen)
    (hinv : DivInv v P (toPoly v bl) (v c) bl.length n alen (k + 1) st) :
    ∃ st', divStep O (bl ++ c :: zs) bl.length st k = .ok st' ∧
      DivInv v P (toPoly v bl) (v c) bl.length n alen k st' := by
  have hapos : st.apos = k + bl.length := by have := hinv.apos (by omega); omega
  have h1 : k + bl.length < st.a.length := by rw [hinv.alen]; omega
  have h2 : bl.length < (bl ++ c :: zs).length := by simp
  have h3 : k < st.result.length := by rw [hinv.rlen]; omega
  obtain ⟨ci, hci⟩ := hT c
  have hciv : v ci = (v c)⁻¹ := L.inv c ci hci
  set top := st.a[k + bl.length] with htop
  set quot := O.mul top ci with hquot
  have hq : v c * v quot = v top := by rw [hquot, L.mul, hciv]; field_simp
  have htake : (bl ++ c :: zs).take bl.length = bl := List.take_left' rfl
  obtain ⟨a', ea, la, pa⟩ := divInner_spec L quot k bl st.a (by omega)
  refine ⟨{ a := a', result := st.result.set k quot, apos := wrappingPred st.apos }, ?_, ?_⟩
  · unfold divStep
    rw [hapos, getAt_ok _ _ h1, bind_ok, getAt_ok _ _ h2, bind_ok]
    have hget : (bl ++ c :: zs)[bl.length] = c := by simp
    rw [hget]
    simp only [Ops.div, hci, bind_ok]
    rw [setAt_ok _ _ _ h3, bind_ok, htake, ea, bind_ok]
  · have hdrop : (st.result.set k quot).drop k = quot :: st.result.drop (k + 1) := drop_set_self _ _ _ h3
    refine ⟨by rw [la]; exact hinv.alen, by simpa using hinv.rlen, ?_, ?_, ?_⟩
    · intro hk1
      show wrappingPred st.apos + 1 = k + bl.length
      rw [hapos, wrappingPred, if_neg (by omega)]; omega
    · show toPoly v a' = _
      rw [pa, hinv.i1, hdrop, toPoly_cons, pow_succ]; ring
    · intro m hm
      show (toPoly v a' - _).coeff m = 0
      rw [pa, hdrop, toPoly_cons]
      have key := hinv.i2
      -- coefficient `m` of `C quot * X^k * Blow` vanishes: `Blow` has fewer than `bpos` coefficients
      have hB : (C (v quot) * X ^ k * toPoly v bl).coeff m = 0 := by
        rw [mul_assoc, coeff_C_mul, coeff_X_pow_mul', if_pos (by omega),
          coeff_toPoly_of_ge bl (m - k) (by omega), mul_zero]
      have hsplit : toPoly v st.a - C (v quot) * X ^ k * toPoly v bl -
            X ^ (bl.length + k) * (C (v c) * (C (v quot) + X * toPoly v (st.result.drop (k + 1))))
          = (toPoly v st.a - X ^ (bl.length + (k + 1)) * (C (v c) * toPoly v (st.result.drop (k + 1))))
            - C (v quot) * X ^ k * toPoly v bl - X ^ (bl.length + k) * C (v c * v quot) := by
        rw [C_mul]; ring
      rw [hsplit, coeff_sub, coeff_sub, hB, sub_zero]
      by_cases hmk : m = k + bl.length
      · subst hmk
        have e1 : (toPoly v st.a - X ^ (bl.length + (k + 1)) *
            (C (v c) * toPoly v (st.result.drop (k + 1)))).coeff (k + bl.length) = v top := by
          rw [coeff_sub, coeff_X_pow_mul', if_neg (by omega), sub_zero, coeff_toPoly_of_lt _ _ h1]
        have e2 : (X ^ (bl.length + k) * C (v c * v quot)).coeff (k + bl.length) = v c * v quot := by
          rw [coeff_X_pow_mul', if_pos (by omega)]
          have : k + bl.length - (bl.length + k) = 0 := by omega
          rw [this, coeff_C_zero]
        rw [e1, e2, hq, sub_self]
      · have e1 := key m (by omega)
        have e2 : (X ^ (bl.length + k) * C (v c * v quot)).coeff m = 0 := by
          rw [coeff_X_pow_mul', if_pos (by omega), coeff_C, if_neg (by omega)]
        rw [e1, e2, sub_zero]

theorem divLoop_spec (L : Lawful O v) (hT : Total O) (bl : List α) (c : α) (zs : List α)
    (hc : v c ≠ 0) (P : F[X]) (n alen k : Nat) (st : DivSt α)
    (hk : k ≤ n) (hn : n + bl.length ≤ alen)
    (hinv : DivInv v P (toPoly v bl) (v c) bl.length n alen k st) :
    ∃ st', loopM (List.range k).reverse st (divStep O (bl ++ c :: zs) bl.length) = .ok st' ∧
      DivInv v P (toPoly v bl) (v c) bl.length n alen 0 st' := by
  induction k generalizing st with
  | zero => exact ⟨st, rfl, hinv⟩
  | succ k ih =>
    obtain ⟨st1, e1, inv1⟩ := divStep_spec L hT bl c zs hc P n alen k st hk hn hinv
    rw [List.range_succ, List.reverse_append, List.reverse_singleton, List.singleton_append,
      loopM_cons_ok (body := divStep O (bl ++ c :: zs) bl.length) e1]
    exact ih st1 (by omega) inv1


-- ------------------------------------------------------------------ div

/-- the guards of `div` in terms of the denoted polynomials -/
theorem div_guards (L : Lawful O v) (b : List α) :
    (degreeOf O b = 0 ∧ b.isEmpty = true ∨ degreeOf O b = 0 ∧ headIsZero O b = true) ↔ toPoly v b = 0 := by
  constructor
  · rintro (⟨_, h⟩ | ⟨h0, h⟩)
    · have : b = [] := by simpa using h
      simp [this]
    · by_contra hne
      obtain ⟨lo, c, zs, hb, hlo, hc, _⟩ := split_at_degree L b hne
      have : lo = [] := by rw [h0] at hlo; exact List.length_eq_zero_iff.1 hlo
      subst this
      rw [hb] at h
      simp only [List.nil_append, headIsZero] at h
      exact hc ((L.isZero c).1 h)
  · intro h0
    have hd : degreeOf O b = 0 := by rw [degreeOf_eq_natDegree L, h0]; simp
    cases b with
    | nil => left; exact ⟨hd, rfl⟩
    | cons b0 bs =>
      right
      refine ⟨hd, ?_⟩
      -- the constant coefficient of the zero polynomial is zero
      have : (toPoly v (b0 :: bs)).coeff 0 = 0 := by rw [h0]; simp
      rw [coeff_toPoly_of_lt _ _ (by simp)] at this
      exact (L.isZero b0).2 (by simpa using this)

/-- `div(a, b)` under exactly the guards the code asserts (`deg b ≤ deg a` in the `degree_of`
    convention, `b` not the zero polynomial) and returning inversions: no panic, the quotient has
    `deg a − deg b + 1` coefficients, `a = q·b + r` with `deg r < deg b` -/
theorem div_spec (L : Lawful O v) (hT : Total O) (a b : List α)
    (hdeg : degreeOf O b ≤ degreeOf O a) (hb : toPoly v b ≠ 0) :
    ∃ q, div O a b = .ok q ∧ q.length = degreeOf O a - degreeOf O b + 1 ∧
      ∃ r : F[X], toPoly v a = toPoly v q * toPoly v b + r ∧ r.degree < (toPoly v b).degree := by
  obtain ⟨bl, c, zs, hbs, hbl, hc, hzs⟩ := split_at_degree L b hb
  have hbp : toPoly v b = toPoly v bl + X ^ bl.length * C (v c) := by
    rw [hbs, toPoly_append, toPoly_cons, hzs]; ring
  have hbdeg : (toPoly v b).degree = (bl.length : WithBot ℕ) := by
    rw [degree_eq_natDegree hb, ← degreeOf_eq_natDegree L, hbl]
  have hg1 : ¬ degreeOf O a < degreeOf O b := by omega
  have hg2 : ¬ (degreeOf O b = 0 ∧ b.isEmpty = true) := fun h => hb ((div_guards L b).1 (Or.inl h))
  have hg3 : ¬ (degreeOf O b = 0 ∧ headIsZero O b = true) := fun h => hb ((div_guards L b).1 (Or.inr h))
  by_cases ha : a = []
  · subst ha
    have hd0 : degreeOf O ([] : List α) = 0 := rfl
    have hb0 : degreeOf O b = 0 := by rw [hd0] at hdeg; omega
    refine ⟨[O.zero], ?_, by simp [hd0, hb0], 0, by simp [L.zero], ?_⟩
    · unfold div
      simp only [hg1, hg2, hg3, if_false, List.isEmpty_nil, if_true]
    · rw [hbdeg]; exact WithBot.bot_lt_coe _
  · have hapos : degreeOf O a < a.length := degreeOf_lt_length a ha
    set n := degreeOf O a - degreeOf O b + 1 with hn
    have hae : a.isEmpty = false := by cases a <;> simp_all
    have hinit : DivInv v (toPoly v a) (toPoly v bl) (v c) bl.length n a.length n
        { a := a, result := List.replicate n O.zero, apos := degreeOf O a } := by
      refine ⟨rfl, by simp, fun _ => by show degreeOf O a + 1 = n + bl.length; omega, ?_, ?_⟩
      · show toPoly v a = _
        rw [List.drop_eq_nil_of_le (by simp)]; simp
      · intro m hm
        show (toPoly v a - _).coeff m = 0
        rw [List.drop_eq_nil_of_le (by simp)]
        simp only [toPoly_nil, mul_zero, sub_zero]
        apply coeff_eq_zero_of_natDegree_lt
        rw [← degreeOf_eq_natDegree L]; omega
    obtain ⟨st', e, inv⟩ := divLoop_spec L hT bl c zs hc (toPoly v a) n a.length n _ (le_refl _)
      (by omega) hinit
    refine ⟨st'.result, ?_, inv.rlen, toPoly v st'.a - X ^ bl.length * (C (v c) * toPoly v st'.result),
      ?_, ?_⟩
    · unfold div
      simp only [hg1, hg2, hg3, if_false, hae, Bool.false_eq_true]
      rw [← hbs, hbl] at e
      rw [← hn, e, bind_ok]
    · have := inv.i1
      simp only [pow_zero, mul_one, List.drop_zero] at this
      rw [hbp, this]; ring
    · rw [hbdeg, degree_lt_iff_coeff_zero]
      intro m hm
      have := inv.i2 m (by omega)
      simpa using this

/-- `div` panics exactly when the asserted guards fail: the divisor has higher degree (in the
    `degree_of` convention) or denotes the zero polynomial (which includes the empty divisor) -/
theorem div_panic_iff (L : Lawful O v) (hT : Total O) (a b : List α) :
    (∃ s, div O a b = .panic s) ↔ (degreeOf O a < degreeOf O b ∨ toPoly v b = 0) := by
  constructor
  · intro ⟨s, hs⟩
    by_contra hcon
    simp only [not_or, not_lt] at hcon
    obtain ⟨q, e, _⟩ := div_spec L hT a b hcon.1 hcon.2
    rw [e] at hs; cases hs
  · intro h
    unfold div
    by_cases h1 : degreeOf O a < degreeOf O b
    · exact ⟨"cannot divide by polynomial of higher degree", by simp [h1]⟩
    · have hb : toPoly v b = 0 := by tauto
      rcases (div_guards L b).2 hb with h2 | h3
      · exact ⟨"cannot divide by empty polynomial", by simp [h2.1, h2.2]⟩
      · by_cases h2 : degreeOf O b = 0 ∧ b.isEmpty = true
        · exact ⟨"cannot divide by empty polynomial", by simp [h2.1, h2.2]⟩
        · refine ⟨"cannot divide polynomial by zero", ?_⟩
          simp only []
          rw [if_neg h1, if_neg h2, if_pos h3]

end

end WinterProofs.C20
