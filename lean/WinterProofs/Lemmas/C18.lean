-- helper lemmas for WinterProofs/C18.lean
import Winter.Model.Security

namespace C18L
open Model.Security Gen.Limits

theorem pow2_cases : ∀ b, b ≤ 128 → isPow2 b = true → 2 ≤ b →
    (b = 2 ∨ b = 4 ∨ b = 8 ∨ b = 16 ∨ b = 32 ∨ b = 64 ∨ b = 128) := by decide

/-- what `ProofOptions::new` guarantees about the fields the estimates read -/
theorem accepted_bounds {o : Options} (h : o.accepted = true) :
    1 ≤ o.numQueries ∧ o.numQueries ≤ 255 ∧ o.grinding ≤ 32 ∧ 2 ≤ o.blowup ∧ o.blowup ≤ 128 ∧
    1 ≤ o.blowup.log2 ∧ o.blowup.log2 ≤ 7 := by
  unfold Options.accepted MAX_NUM_QUERIES MIN_BLOWUP_FACTOR MAX_BLOWUP_FACTOR MAX_GRINDING_FACTOR at h
  simp only [Bool.and_eq_true, decide_eq_true_eq] at h
  obtain ⟨⟨⟨⟨⟨⟨⟨⟨⟨⟨h1, h2⟩, h3⟩, h4⟩, h5⟩, h6⟩, _⟩, _⟩, _⟩, _⟩, _⟩ := h
  have := pow2_cases o.blowup h5 h3 h4
  refine ⟨h1, h2, h6, h4, h5, ?_, ?_⟩ <;>
    rcases this with h | h | h | h | h | h | h <;> rw [h] <;> decide

theorem ext_degree_bounds (e : Ext) : 1 ≤ e.degree ∧ e.degree ≤ 3 := by
  cases e <;> simp [Ext.degree]

/-- the value of the conjectured estimate on naturals (truncated subtraction never truncates under
    the guard of `conjectured_ok_iff`) -/
def conjValue (o : Options) (bits n cr : Nat) : Nat :=
  let qs := o.blowup.log2 * o.numQueries
  let qs := if GRINDING_CONTRIBUTION_FLOOR ≤ qs then qs + o.grinding else qs
  min (min (bits * o.ext.degree - (n * o.blowup).log2) qs - 1) cr

/-- the exact guard under which `get_conjectured_security` does not panic -/
def conjGuard (o : Options) (bits n : Nat) : Prop :=
  bits * o.ext.degree < U32 ∧ n * o.blowup < USIZE ∧ 0 < n ∧ (n * o.blowup).log2 < bits * o.ext.degree

theorem conjectured_ok_iff {o : Options} (ho : o.accepted = true) (bits n cr l : Nat) :
    conjectured o bits n cr = .ok l ↔ conjGuard o bits n ∧ l = conjValue o bits n cr := by
  obtain ⟨hq1, hq2, hg, hb1, hb2, hl1, hl2⟩ := accepted_bounds ho
  unfold conjectured conjGuard conjValue
  simp only [bind, Res.bind, mulU32, mulUsize, ilog2, subU32, addU32, pure]
  have hG : GRINDING_CONTRIBUTION_FLOOR = 80 := rfl
  have hqs' : o.blowup.log2 * o.numQueries ≤ 1785 := Nat.mul_le_mul hl2 hq2
  have hqs : o.blowup.log2 * o.numQueries < U32 := by unfold U32; omega
  have hqs1 : 1 ≤ o.blowup.log2 * o.numQueries := Nat.mul_le_mul hl1 hq1
  have hb0 : o.blowup ≠ 0 := by omega
  generalize bits * o.ext.degree = fs at *
  by_cases h1 : fs < U32 <;> simp only [h1, if_true, if_false, false_and, reduceCtorEq]
  by_cases h2 : n * o.blowup < USIZE <;> simp only [h2, if_true, if_false, false_and, and_false, reduceCtorEq]
  by_cases h3 : n = 0
  · subst h3; simp
  have h3' : n * o.blowup ≠ 0 := Nat.mul_ne_zero h3 hb0
  simp only [h3', if_false, hb0]
  generalize (n * o.blowup).log2 = L at *
  by_cases h4 : L ≤ fs <;> simp only [h4, if_true, if_false]
  · simp only [hqs, if_true]
    generalize o.blowup.log2 * o.numQueries = qs at *
    by_cases h5 : GRINDING_CONTRIBUTION_FLOOR ≤ qs <;> simp only [h5, if_true, if_false]
    · have h6 : qs + o.grinding < U32 := by unfold U32 at *; omega
      simp only [h6, if_true]
      by_cases h7 : 1 ≤ min (fs - L) (qs + o.grinding) <;> simp only [h7, if_true, if_false]
      · have h8 := (Nat.le_min.mp h7).1
        constructor
        · intro h; injection h with h
          exact ⟨⟨trivial, trivial, Nat.pos_of_ne_zero h3, Nat.lt_of_sub_pos h8⟩, h.symm⟩
        · rintro ⟨_, rfl⟩; rfl
      · constructor
        · intro h; cases h
        · rintro ⟨⟨_, _, h9⟩, _⟩
          exact absurd (Nat.le_min.mpr ⟨by omega, by omega⟩) h7
    · by_cases h7 : 1 ≤ min (fs - L) qs <;> simp only [h7, if_true, if_false]
      · have h8 := (Nat.le_min.mp h7).1
        constructor
        · intro h; injection h with h
          exact ⟨⟨trivial, trivial, Nat.pos_of_ne_zero h3, Nat.lt_of_sub_pos h8⟩, h.symm⟩
        · rintro ⟨_, rfl⟩; rfl
      · constructor
        · intro h; cases h
        · rintro ⟨⟨_, _, h9⟩, _⟩
          exact absurd (Nat.le_min.mpr ⟨by omega, by omega⟩) h7
  · constructor
    · intro h; cases h
    · rintro ⟨⟨_, _, _⟩, _⟩; omega

theorem conj_mono_core {o o' : Options} {bits n cr cr' : Nat}
    (hb : o.blowup = o'.blowup) (hq : o.numQueries ≤ o'.numQueries) (hg : o.grinding ≤ o'.grinding)
    (he : o.ext.degree ≤ o'.ext.degree) (hcr : cr ≤ cr') (hbits : bits * o'.ext.degree < U32)
    (G : conjGuard o bits n) :
    conjGuard o' bits n ∧ conjValue o bits n cr ≤ conjValue o' bits n cr' := by
  obtain ⟨g1, g2, g3, g4⟩ := G
  have hfs : bits * o.ext.degree ≤ bits * o'.ext.degree := Nat.mul_le_mul_left _ he
  have hqs : o.blowup.log2 * o.numQueries ≤ o'.blowup.log2 * o'.numQueries := by
    rw [hb]; exact Nat.mul_le_mul_left _ hq
  refine ⟨⟨hbits, hb ▸ g2, g3, ?_⟩, ?_⟩
  · rw [← hb]; omega
  · unfold conjValue
    rw [← hb]
    have hG : GRINDING_CONTRIBUTION_FLOOR = 80 := rfl
    generalize bits * o.ext.degree = fs at *
    generalize bits * o'.ext.degree = fs' at *
    generalize (n * o.blowup).log2 = L at *
    rw [← hb] at hqs
    generalize o.blowup.log2 * o.numQueries = qs at *
    generalize o.blowup.log2 * o'.numQueries = qs' at *
    simp only []
    split <;> split <;> omega

/-- little-endian value of a byte string -/
def leVal : List Nat → Nat
  | [] => 0
  | b :: bs => b + 256 * leVal bs

/-- value of a byte string, most significant byte first -/
def msVal : List Nat → Nat
  | [] => 0
  | b :: rest => b * 256 ^ rest.length + msVal rest

/-- number of bits of a natural number -/
def bitLen (v : Nat) : Nat := if v = 0 then 0 else v.log2 + 1

theorem msVal_append (r : List Nat) (b : Nat) : msVal (r ++ [b]) = msVal r * 256 + b := by
  induction r with
  | nil => simp [msVal]
  | cons x r ih =>
    simp only [List.cons_append, msVal, ih, List.length_append, List.length_cons, List.length_nil]
    rw [Nat.pow_succ, Nat.add_mul, Nat.mul_assoc]
    omega

theorem leVal_eq_msVal (bs : List Nat) : leVal bs = msVal bs.reverse := by
  induction bs with
  | nil => rfl
  | cons b bs ih => simp only [leVal, List.reverse_cons, msVal_append, ih]; omega

theorem msVal_lt (r : List Nat) (h : ∀ b ∈ r, b < 256) : msVal r < 256 ^ r.length := by
  induction r with
  | nil => simp [msVal]
  | cons x r ih =>
    have hx : x < 256 := h x (by simp)
    have := ih (fun b hb => h b (by simp [hb]))
    simp only [msVal, List.length_cons, Nat.pow_succ]
    have : x * 256 ^ r.length + 256 ^ r.length ≤ 255 * 256 ^ r.length + 256 ^ r.length :=
      Nat.add_le_add_right (Nat.mul_le_mul_right _ (by omega)) _
    omega

theorem log2_byte_shift {b k r : Nat} (hb0 : b ≠ 0) (hr : r < 256 ^ k) :
    (b * 256 ^ k + r).log2 = b.log2 + 8 * k := by
  have h256 : (256 : Nat) ^ k = 2 ^ (8 * k) := by rw [Nat.pow_mul]
  have hne : b * 256 ^ k + r ≠ 0 := by
    have : 0 < b * 256 ^ k := Nat.mul_pos (Nat.pos_of_ne_zero hb0) (Nat.pow_pos (by omega))
    omega
  rw [Nat.log2_eq_iff hne]
  have h1 : 2 ^ b.log2 ≤ b := Nat.log2_self_le hb0
  have h2 : b < 2 ^ (b.log2 + 1) := Nat.lt_log2_self
  constructor
  · rw [Nat.pow_add, ← h256]
    exact Nat.le_trans (Nat.mul_le_mul_right _ h1) (Nat.le_add_right _ _)
  · have : 2 ^ (b.log2 + 8 * k + 1) = 2 ^ (b.log2 + 1) * 256 ^ k := by
      rw [h256, ← Nat.pow_add]; congr 1; omega
    rw [this]
    have h3 : (b + 1) * 256 ^ k ≤ 2 ^ (b.log2 + 1) * 256 ^ k := Nat.mul_le_mul_right _ h2
    rw [Nat.add_mul, Nat.one_mul] at h3
    omega

theorem modBitsLoop_eq (r : List Nat) (h : ∀ b ∈ r, b < 256) :
    modBitsLoop r (8 * r.length) = .ok (bitLen (msVal r)) := by
  induction r with
  | nil => simp [modBitsLoop, msVal, bitLen]
  | cons x r ih =>
    have hx : x < 256 := h x (by simp)
    have hr := msVal_lt r (fun b hb => h b (by simp [hb]))
    have ih := ih (fun b hb => h b (by simp [hb]))
    unfold modBitsLoop
    by_cases hx0 : x = 0
    · subst hx0
      have : 8 * (r.length + 1) - 8 = 8 * r.length := by omega
      have h8 : 8 ≤ 8 * (r.length + 1) := by omega
      simp [subU32, bind, Res.bind, this, h8, ih, msVal]
    · simp only [hx0, ne_eq, not_false_eq_true, if_true, List.length_cons]
      have hl : x.log2 < 8 := (Nat.log2_lt hx0).mpr (by omega)
      have hne : x * 256 ^ r.length + msVal r ≠ 0 := by
        have : 0 < x * 256 ^ r.length := Nat.mul_pos (Nat.pos_of_ne_zero hx0) (Nat.pow_pos (by omega))
        omega
      simp only [subU32, clz8, msVal, bitLen, hne, if_false, log2_byte_shift hx0 hr]
      have : 7 - x.log2 ≤ 8 * (r.length + 1) := by omega
      simp only [this, if_true]
      congr 1; omega

theorem numModulusBits_eq (bs : List Nat) (h : ∀ b ∈ bs, b < 256) (hl : bs.length * 8 < U32) :
    numModulusBits bs = .ok (bitLen (leVal bs)) := by
  unfold numModulusBits
  simp only [mulU32, hl, if_true, bind, Res.bind]
  have := modBitsLoop_eq bs.reverse (fun b hb => h b (by simpa using hb))
  rw [List.length_reverse, Nat.mul_comm] at this
  rw [this, leVal_eq_msVal]

-- ------------------------------------------------------------------ proven estimate (generic)
section generic
variable {R : Type} [F : FloatOps R]

/-- the laws of the float primitives under which the proven estimate is monotone; that IEEE
    doubles with the platform libm satisfy them (for the arguments that occur) is the named gap
    "floating-point rounding" -/
structure FloatLaws (R : Type) [F : FloatOps R] (le : R → R → Prop) : Prop where
  ofNat_mono : ∀ {m n : Nat}, m ≤ n → le (F.ofNat m) (F.ofNat n)
  sub_mono_left : ∀ {x y : R} (z : R), le x y → le (F.sub x z) (F.sub y z)
  sub_anti_right : ∀ {x y : R} (z : R), le x y → le (F.sub z y) (F.sub z x)
  add_mono_right : ∀ {x y : R} (z : R), le x y → le (F.add z x) (F.add z y)
  log2_mono : ∀ {x y : R}, le x y → le (F.log2 x) (F.log2 y)
  powf_anti_exp : ∀ {a x y : R}, le (F.ofNat 0) a → le a (F.ofNat 1) → le x y → le (F.powf a y) (F.powf a x)
  toU64_mono : ∀ {x y : R}, le x y → F.toU64 x ≤ F.toU64 y

/-- the integer tail of `proven_security_protocol_for_m` on the four truncated error terms -/
def tailNat (commit queries ali deep : Nat) : Nat :=
  let friErr := min commit queries
  if friErr < 1 then 0
  else
    let friErr := friErr - 1
    let mn := min (min friErr ali) deep
    if mn < 1 then 0 else mn - 1

theorem tailNat_mono {a b c d a' b' c' d' : Nat} (ha : a ≤ a') (hb : b ≤ b') (hc : c ≤ c') (hd : d ≤ d') :
    tailNat a b c d ≤ tailNat a' b' c' d' := by
  unfold tailNat
  simp only []
  split <;> split <;> (try split) <;> (try split) <;> omega

theorem provenTail_eq (e q g : Nat) (x : Mid R) :
    provenTail e q g x =
      tailNat (F.toU64 (F.sub (F.ofNat e) (F.log2 x.commitArg)))
        (F.toU64 (F.sub (F.ofNat g) (F.log2 (F.powf x.base (F.ofNat q)))))
        (F.toU64 (F.add (F.neg (F.log2 x.lPlus)) (F.ofNat e)))
        (F.toU64 (F.add (F.neg (F.log2 x.deepArg)) (F.ofNat e))) := rfl

theorem provenTail_mono {le : R → R → Prop} (L : FloatLaws R le) {e e' q q' g g' : Nat} (x : Mid R)
    (he : e ≤ e') (hq : q ≤ q') (hg : g ≤ g')
    (h0 : le (F.ofNat 0) x.base) (h1 : le x.base (F.ofNat 1)) :
    provenTail e q g x ≤ provenTail e' q' g' x := by
  -- one parameter at a time; the chain is composed on the naturals
  have s1 : provenTail e q g x ≤ provenTail e' q g x := by
    rw [provenTail_eq, provenTail_eq]
    exact tailNat_mono (L.toU64_mono (L.sub_mono_left _ (L.ofNat_mono he))) (Nat.le_refl _)
      (L.toU64_mono (L.add_mono_right _ (L.ofNat_mono he))) (L.toU64_mono (L.add_mono_right _ (L.ofNat_mono he)))
  have s2 : provenTail e' q g x ≤ provenTail e' q g' x := by
    rw [provenTail_eq, provenTail_eq]
    exact tailNat_mono (Nat.le_refl _) (L.toU64_mono (L.sub_mono_left _ (L.ofNat_mono hg))) (Nat.le_refl _) (Nat.le_refl _)
  have s3 : provenTail e' q g' x ≤ provenTail e' q' g' x := by
    rw [provenTail_eq, provenTail_eq]
    exact tailNat_mono (Nat.le_refl _)
      (L.toU64_mono (L.sub_anti_right _ (L.log2_mono (L.powf_anti_exp h0 h1 (L.ofNat_mono hq)))))
      (Nat.le_refl _) (Nat.le_refl _)
  exact Nat.le_trans s1 (Nat.le_trans s2 s3)


/-- the key of candidate `m` when neither integer product overflows -/
def keyOf (R : Type) [FloatOps R] (o : Options) (bits n m : Nat) : Nat :=
  provenTail (R := R) (bits * o.ext.degree) o.numQueries o.grinding (mid o.blowup (n * o.blowup) n m)

def provenGuard (o : Options) (bits n : Nat) : Prop :=
  bits * o.ext.degree < U32 ∧ n * o.blowup < USIZE

instance (o : Options) (bits n : Nat) : Decidable (provenGuard o bits n) := by
  unfold provenGuard; exact inferInstance

theorem provenForM_eq (o : Options) (bits n m : Nat) :
    provenForM (R := R) o bits n m =
      if bits * o.ext.degree < U32 then
        if n * o.blowup < USIZE then .ok (keyOf R o bits n m) else .panic "usize-mul-overflow"
      else .panic "u32-mul-overflow" := by
  unfold provenForM keyOf mulU32 mulUsize
  by_cases h1 : bits * o.ext.degree < U32 <;> by_cases h2 : n * o.blowup < USIZE <;>
    simp [h1, h2, bind, Res.bind, pure]

theorem keyAll_ok (f : Nat → Nat) (l : List Nat) :
    keyAll (fun m => .ok (f m)) l = .ok (l.map fun m => (m, f m)) := by
  induction l with
  | nil => rfl
  | cons m ms ih => simp [keyAll, ih]

theorem keyAll_panic (s : String) (l : List Nat) (hl : l ≠ []) :
    keyAll (fun _ => (.panic s : Res Nat)) l = .panic s := by
  cases l with
  | nil => exact absurd rfl hl
  | cons m ms => simp [keyAll]

theorem foldl_max_spec (xs : List (Nat × Nat)) (best : Nat × Nat) :
    let r := xs.foldl (fun best y => if best.2 ≤ y.2 then y else best) best
    (r = best ∨ r ∈ xs) ∧ best.2 ≤ r.2 ∧ ∀ y ∈ xs, y.2 ≤ r.2 := by
  induction xs generalizing best with
  | nil => simp
  | cons x xs ih =>
    simp only [List.foldl_cons]
    by_cases h : best.2 ≤ x.2
    · simp only [h, if_true]
      obtain ⟨h1, h2, h3⟩ := ih x
      refine ⟨?_, Nat.le_trans h h2, ?_⟩
      · rcases h1 with h1 | h1
        · right; rw [h1]; simp
        · right; simp [h1]
      · intro y hy
        rcases List.mem_cons.mp hy with rfl | hy
        · exact h2
        · exact h3 y hy
    · simp only [h, if_false]
      obtain ⟨h1, h2, h3⟩ := ih best
      refine ⟨?_, h2, ?_⟩
      · rcases h1 with h1 | h1
        · left; exact h1
        · right; simp [h1]
      · intro y hy
        rcases List.mem_cons.mp hy with rfl | hy
        · omega
        · exact h3 y hy

theorem maxByKeyLast_spec {xs : List (Nat × Nat)} {r : Nat × Nat} (h : maxByKeyLast xs = some r) :
    r ∈ xs ∧ ∀ y ∈ xs, y.2 ≤ r.2 := by
  cases xs with
  | nil => simp [maxByKeyLast] at h
  | cons x xs =>
    simp only [maxByKeyLast, Option.some.injEq] at h
    obtain ⟨h1, h2, h3⟩ := foldl_max_spec xs x
    simp only [h] at h1 h2 h3
    refine ⟨?_, ?_⟩
    · rcases h1 with h1 | h1
      · rw [h1]; simp
      · simp [h1]
    · intro y hy
      rcases List.mem_cons.mp hy with rfl | hy
      · exact h2
      · exact h3 y hy

theorem maxByKeyLast_ne_none {xs : List (Nat × Nat)} (h : xs ≠ []) : maxByKeyLast xs ≠ none := by
  cases xs with
  | nil => exact absurd rfl h
  | cons x xs => simp [maxByKeyLast]

/-- when the guard holds and there is a candidate, the estimate is the largest key, capped -/
theorem proven_char (o : Options) (bits n cr : Nat) (hg : provenGuard o bits n)
    (hne : mRange (R := R) n ≠ []) :
    ∃ m ∈ mRange (R := R) n, proven (R := R) o bits n cr = .ok (min (keyOf R o bits n m) cr % U32) ∧
      ∀ m' ∈ mRange (R := R) n, keyOf R o bits n m' ≤ keyOf R o bits n m := by
  obtain ⟨h1, h2⟩ := hg
  have hf : (fun m => provenForM (R := R) o bits n m) = fun m => .ok (keyOf R o bits n m) := by
    funext m; rw [provenForM_eq]; simp [h1, h2]
  unfold proven
  rw [hf, keyAll_ok]
  simp only []
  have hne' : (mRange (R := R) n).map (fun m => (m, keyOf R o bits n m)) ≠ [] := by
    simpa using hne
  cases hm : maxByKeyLast ((mRange (R := R) n).map fun m => (m, keyOf R o bits n m)) with
  | none => exact absurd hm (maxByKeyLast_ne_none hne')
  | some r =>
    obtain ⟨hr1, hr2⟩ := maxByKeyLast_spec hm
    obtain ⟨m, hm1, hm2⟩ := List.mem_map.mp hr1
    refine ⟨m, hm1, ?_, ?_⟩
    · subst hm2
      have := congrFun hf m
      show (match provenForM (R := R) o bits n m with
        | Res.panic s => Res.panic s
        | Res.ok v => Res.ok (min v cr % U32)) = _
      rw [this]
    · intro m' hm'
      have := hr2 (m', keyOf R o bits n m') (List.mem_map.mpr ⟨m', hm', rfl⟩)
      subst hm2
      exact this

/-- the estimate is defined only when the guard holds and there is a candidate -/
theorem proven_ok_guard {o : Options} {bits n cr l : Nat} (h : proven (R := R) o bits n cr = .ok l) :
    provenGuard o bits n ∧ mRange (R := R) n ≠ [] := by
  by_cases hne : mRange (R := R) n = []
  · unfold proven at h
    rw [hne] at h
    simp [keyAll, maxByKeyLast] at h
  · refine ⟨?_, hne⟩
    unfold provenGuard
    by_cases h1 : bits * o.ext.degree < U32
    · by_cases h2 : n * o.blowup < USIZE
      · exact ⟨h1, h2⟩
      · exfalso
        have hf : (fun m => provenForM (R := R) o bits n m) = fun _ => .panic "usize-mul-overflow" := by
          funext m; rw [provenForM_eq]; simp [h1, h2]
        unfold proven at h
        rw [hf, keyAll_panic _ _ hne] at h
        cases h
    · exfalso
      have hf : (fun m => provenForM (R := R) o bits n m) = fun _ => .panic "u32-mul-overflow" := by
        funext m; rw [provenForM_eq]; simp [h1]
      unfold proven at h
      rw [hf, keyAll_panic _ _ hne] at h
      cases h


end generic

end C18L
