-- C11 helper lemmas shared by the two frequency-domain MDS proofs: signed reinterpretation of small
-- words, the plain matrix-vector product, and the 96-bit reduction tail of `mds_multiply`.
import Winter.Gen.Prelude

namespace WinterProofs.C11
open Gen

theorem toSigned_small (x : Nat) (h : x < 9223372036854775808) : toSigned 64 x = (x : Int) := by
  unfold toSigned
  have h1 : x % 2 ^ 64 = x := Nat.mod_eq_of_lt (by omega)
  simp only [h1]
  have : (2:Nat) ^ (64 - 1) = 9223372036854775808 := by decide
  rw [this]
  simp [h]

/-- inner product of a matrix row with a vector, over the integers -/
def dot (r s : List Nat) : Nat := (List.zipWith (fun a b => a * b) r s).sum

/-- plain matrix-vector product over the integers -/
def matVec (m : List (List Nat)) (s : List Nat) : List Nat := m.map (fun r => dot r s)

/-- the reduction tail of `mds_multiply`, one component, step by step as generated:
    `s = l + (h << 32)` as `u128`, `z = (s_hi << 32) - s_hi`, `(res, over) = s_lo.overflowing_add(z)`,
    result `res.wrapping_add(0u32.wrapping_sub(over as u32) as u64)` -/
def tailRed (l h : Nat) : Nat :=
  let s := l + (h * 4294967296 % 340282366920938463463374607431768211456)
  let s_hi := (s / 18446744073709551616) % 18446744073709551616
  let s_lo := s % 18446744073709551616
  let z := (s_hi * 4294967296 % 18446744073709551616) - s_hi
  let res := (s_lo + z) % 18446744073709551616
  let over := decide (18446744073709551616 ≤ s_lo + z)
  (res + ((0 + 4294967296 - (if over = true then 1 else 0)) % 4294967296)) % 18446744073709551616

/-- the `u128` sum of the tail does not overflow (limb sums are below `160 * 2^32`) -/
theorem tail_ok1 (L H : Nat) (hL : L < 687194767360) (hH : H < 687194767360) :
    L + H * 4294967296 % 340282366920938463463374607431768211456 < 340282366920938463463374607431768211456 := by
  omega

/-- `(s_hi << 32) - s_hi` does not underflow -/
theorem tail_ok2 (L H : Nat) (hL : L < 687194767360) (hH : H < 687194767360) :
    (L + H * 4294967296 % 340282366920938463463374607431768211456) / 18446744073709551616 % 18446744073709551616
      ≤ (L + H * 4294967296 % 340282366920938463463374607431768211456) / 18446744073709551616 % 18446744073709551616 * 4294967296 % 18446744073709551616 := by
  have e1 : H * 4294967296 % 340282366920938463463374607431768211456 = H * 4294967296 := by omega
  rw [e1]
  generalize hq : (L + H * 4294967296) / 18446744073709551616 = q
  have : q < 161 := by omega
  omega

/-- the tail returns a 64-bit word that differs from `l + h * 2^32` by a multiple of `p` -/
theorem tail_val (L H : Nat) (hL : L < 687194767360) (hH : H < 687194767360) :
    tailRed L H < 18446744073709551616 ∧
    ∃ k, L + H * 4294967296 = tailRed L H + k * 18446744069414584321 := by
  unfold tailRed
  simp only []
  have e1 : H * 4294967296 % 340282366920938463463374607431768211456 = H * 4294967296 := by omega
  rw [e1]
  generalize hs : L + H * 4294967296 = s
  have hsb : s < 2951479052480723025920 := by omega
  clear hs e1 hL hH
  generalize hq : s / 18446744073709551616 = q
  generalize hr : s % 18446744073709551616 = r
  have hq2 : q < 161 := by omega
  have hr2 : r < 18446744073709551616 := by omega
  have hsqr : s = q * 18446744073709551616 + r := by omega
  clear hq hr hsb
  have e2 : q % 18446744073709551616 = q := by omega
  rw [e2]
  have e3 : q * 4294967296 % 18446744073709551616 = q * 4294967296 := by omega
  rw [e3]
  clear e2 e3
  generalize hz : q * 4294967296 - q = z
  have hz2 : z = q * 4294967295 := by omega
  clear hz
  generalize hb : decide (18446744073709551616 ≤ r + z) = b
  cases b
  · have hov : ¬ 18446744073709551616 ≤ r + z := of_decide_eq_false hb
    clear hb
    have e5 : (0 + 4294967296 - if false = true then 1 else 0) % 4294967296 = 0 := by decide
    rw [e5]
    have e4 : (r + z) % 18446744073709551616 = r + z := by omega
    rw [e4, Nat.add_zero, e4]
    refine ⟨by omega, q, by omega⟩
  · have hov : 18446744073709551616 ≤ r + z := of_decide_eq_true hb
    clear hb
    have e5 : (0 + 4294967296 - if true = true then 1 else 0) % 4294967296 = 4294967295 := by decide
    rw [e5]
    have e4 : (r + z) % 18446744073709551616 = r + z - 18446744073709551616 := by omega
    rw [e4]
    have e6 : (r + z - 18446744073709551616 + 4294967295) % 18446744073709551616 = r + z - 18446744069414584321 := by omega
    rw [e6]
    refine ⟨by omega, q + 1, by omega⟩

/-- the tail can return a non-canonical word (`>= p`): `l = 2^64 - 8`, `h = 0` -/
theorem tail_noncanonical : tailRed 18446744073709551608 0 = 18446744073709551608 := by decide

end WinterProofs.C11
