-- tie T for C20, continued: `fill_zero_roots` as regenerated from math/src/polynom/mod.rs on this run coincides with
-- the model's `fillZeroRoots` for EVERY operations record, all roots and every output slice a `usize` can index:
-- inner loop (`fzrInner_eq`), one iteration of the outer loop = `fillStep` (`fzrStep_eq`), the outer loop over the
-- roots - by element in the model, by index in the regenerated code - (`fzrOuter`), and the function
-- (`gen_fill_zero_roots_eq`: the same vector when the regenerated no-panic condition holds, a panic of the model
-- when it fails).
import WinterProofs.Lemmas.C20Gen
import WinterProofs.Lemmas.C20GenWrap

namespace C20G
open Model.Poly

variable {α : Type} (O : Ops α)

/-- the inner loop `for j in n..xs.len() { result[j] = result[j] - result[j + 1] * xs[i] }` of `fill_zero_roots`:
    the regenerated loop is the model's, and the model panics exactly when a regenerated bound fails -/
theorem fzrInner_eq (xs : List α) (i : Nat) (hi : i < xs.length) : ∀ (js : List Nat) (r : List α),
    r.length < 18446744073709551616 →
    loopM js r (fun r j =>
        (getAt r j).bind fun lo =>
        (getAt r (j + 1)).bind fun hi =>
        setAt r j (O.sub lo (O.mul hi (xs.getD i O.zero))))
      = if Gen.Polynom.fill_zero_roots.for1_body.for1_ok O.toX xs i js r = true
        then .ok (Gen.Polynom.fill_zero_roots.for1_body.for1 O.toX xs i js r)
        else .panic "index out of bounds" := by
  intro js
  induction js with
  | nil =>
    intro r _
    simp [loopM, Gen.Polynom.fill_zero_roots.for1_body.for1, Gen.Polynom.fill_zero_roots.for1_body.for1_ok]
  | cons j t ih =>
    intro r hr
    have hstep : ((getAt r j).bind fun lo => (getAt r (j + 1)).bind fun hi =>
          setAt r j (O.sub lo (O.mul hi (xs.getD i O.zero)))) =
        if j + 1 < r.length
        then .ok (r.set j (O.sub (r.getD j O.zero) (O.mul (r.getD (j + 1) O.zero) (xs.getD i O.zero))))
        else .panic "index out of bounds" := by
      rw [getAt_eq O r j, getAt_eq O r (j + 1)]
      by_cases hk : j + 1 < r.length
      · have hk0 : j < r.length := by omega
        simp [hk, hk0, Res.bind, setAt]
      · by_cases hk0 : j < r.length
        · simp [hk, hk0, Res.bind]
        · simp [hk, hk0, Res.bind]
    rw [loopM, Gen.Polynom.fill_zero_roots.for1_body.for1, Gen.Polynom.fill_zero_roots.for1_body.for1_ok]
    rw [hstep]
    unfold_gen Gen.Polynom
    simp only [toX_zero, toX_sub, toX_mul]
    by_cases hk : j + 1 < r.length
    · have hk0 : j < r.length := by omega
      have hk' : j + 1 < 18446744073709551616 := by omega
      simp only [hk, hk0, hk', hi, if_true, decide_true, Bool.true_and]
      exact ih _ (by simpa using hr)
    · simp [hk]

/-- one iteration of the OUTER loop of `fill_zero_roots` (`n -= 1; result[n] = 0;` inner loop): the regenerated body
    is the model's `fillStep`, and the model panics exactly when a regenerated bound fails -/
theorem fzrStep_eq (xs : List α) (i : Nat) (hi : i < xs.length) (st : RootSt α)
    (hr : st.result.length < 18446744073709551616) :
    fillStep O xs.length st (xs.getD i O.zero) =
      if Gen.Polynom.fill_zero_roots.for1_body_ok O.toX i st.result st.n xs = true
      then .ok { result := (Gen.Polynom.fill_zero_roots.for1_body O.toX i st.result st.n xs).1,
                 n := (Gen.Polynom.fill_zero_roots.for1_body O.toX i st.result st.n xs).2 }
      else .panic (if st.n = 0 then "attempt to subtract with overflow" else "index out of bounds") := by
  unfold fillStep
  by_cases hn : st.n = 0
  · unfold_gen Gen.Polynom
    simp [hn]
  · have hn1 : 1 ≤ st.n := by omega
    rw [if_neg hn]
    dsimp only
    rw [setAt_eq]
    by_cases hk : st.n - 1 < st.result.length
    · rw [if_pos hk]
      change Res.bind (loopM _ (st.result.set (st.n - 1) O.zero) _) _ = _
      rw [fzrInner_eq O xs i hi _ _ (by simpa using hr)]
      unfold_gen Gen.Polynom
      simp only [toX_zero, hn1, hk, decide_true, Bool.true_and, hn, if_false]
      split <;> simp_all [Res.bind]
    · unfold_gen Gen.Polynom
      simp [hk, hn, Res.bind]

theorem fzrInner_length (xs : List α) (i : Nat) : ∀ (js : List Nat) (r : List α),
    (Gen.Polynom.fill_zero_roots.for1_body.for1 O.toX xs i js r).length = r.length := by
  intro js
  induction js with
  | nil => intro r; simp [Gen.Polynom.fill_zero_roots.for1_body.for1]
  | cons j t ih =>
    intro r
    rw [Gen.Polynom.fill_zero_roots.for1_body.for1]
    unfold_gen Gen.Polynom
    rw [ih]; simp

theorem fzrBody_length (xs : List α) (i n : Nat) (r : List α) :
    (Gen.Polynom.fill_zero_roots.for1_body O.toX i r n xs).1.length = r.length := by
  unfold_gen Gen.Polynom
  rw [fzrInner_length]; simp

/-- the OUTER loop of `fill_zero_roots` over the roots not yet consumed (`xs = pre ++ suf`; the model iterates over
    the elements, the regenerated code over the indices): success with the same state, or a panic on both sides -/
theorem fzrOuter (xs : List α) : ∀ (suf pre : List α) (st : RootSt α), xs = pre ++ suf →
    st.result.length < 18446744073709551616 →
    (Gen.Polynom.fill_zero_roots.for1_ok O.toX xs (List.range' pre.length suf.length) st.result st.n = true →
      loopM suf st (fillStep O xs.length) =
        .ok { result := (Gen.Polynom.fill_zero_roots.for1 O.toX xs (List.range' pre.length suf.length) st.result st.n).1,
              n := (Gen.Polynom.fill_zero_roots.for1 O.toX xs (List.range' pre.length suf.length) st.result st.n).2 }) ∧
    (Gen.Polynom.fill_zero_roots.for1_ok O.toX xs (List.range' pre.length suf.length) st.result st.n = false →
      ∃ msg, loopM suf st (fillStep O xs.length) = .panic msg) := by
  intro suf
  induction suf with
  | nil =>
    intro pre st _ _
    simp [loopM, Gen.Polynom.fill_zero_roots.for1, Gen.Polynom.fill_zero_roots.for1_ok]
  | cons x suf ih =>
    intro pre st hxs hr
    have hi : pre.length < xs.length := by rw [hxs]; simp
    have hx : xs.getD pre.length O.zero = x := by rw [hxs]; simp [List.getD]
    have hrange : List.range' pre.length (x :: suf).length =
        pre.length :: List.range' (pre ++ [x]).length suf.length := by simp [List.range'_succ]
    have hstep := fzrStep_eq O xs pre.length hi st hr
    rw [hx] at hstep
    rw [hrange, loopM, hstep, Gen.Polynom.fill_zero_roots.for1, Gen.Polynom.fill_zero_roots.for1_ok]
    cases hok : Gen.Polynom.fill_zero_roots.for1_body_ok O.toX pre.length st.result st.n xs with
    | false => simp
    | true =>
      simp only [if_true, Bool.true_and]
      exact ih (pre ++ [x])
        { result := (Gen.Polynom.fill_zero_roots.for1_body O.toX pre.length st.result st.n xs).1,
          n := (Gen.Polynom.fill_zero_roots.for1_body O.toX pre.length st.result st.n xs).2 }
        (by rw [hxs]; simp) (by simpa [fzrBody_length] using hr)

/-- ★ `fill_zero_roots` (regenerated: `n = result.len() - 1; result[n] = 1;` outer loop over the roots with its inner
    loop) IS the model's `fillZeroRoots`: the same vector whenever the regenerated no-panic condition holds, and a panic
    of the model whenever it fails; for every output slice a `usize` can index, whatever it held before -/
theorem gen_fill_zero_roots_eq (xs result : List α) (hr : result.length < 18446744073709551616) :
    (Gen.Polynom.fill_zero_roots_ok O.toX xs result = true →
      fillZeroRoots O xs result = .ok (Gen.Polynom.fill_zero_roots O.toX xs result)) ∧
    (Gen.Polynom.fill_zero_roots_ok O.toX xs result = false →
      ∃ msg, fillZeroRoots O xs result = .panic msg) := by
  unfold fillZeroRoots
  by_cases h0 : result.length = 0
  · unfold_gen Gen.Polynom
    simp [h0]
  · have h1 : 1 ≤ result.length := by omega
    have hk : result.length - 1 < result.length := by omega
    rw [if_neg h0]
    dsimp only
    rw [setAt_eq, if_pos hk]
    change (_ → Res.bind (loopM xs ({ result := result.set (result.length - 1) O.one, n := result.length - 1 } : RootSt α) _) _ = _) ∧ _
    obtain ⟨a1, a2⟩ := fzrOuter O xs xs [] { result := result.set (result.length - 1) O.one, n := result.length - 1 }
      (by simp) (by simpa using hr)
    simp only [List.length_nil] at a1 a2
    unfold_gen Gen.Polynom
    simp only [toX_one, h1, hk, decide_true, Bool.true_and, Nat.sub_zero]
    constructor
    · intro hok
      have hok' := of_decide_eq_true hok
      show Res.bind (loopM xs ({ result := result.set (result.length - 1) O.one, n := result.length - 1 } : RootSt α)
        (fillStep O xs.length)) _ = _
      rw [a1 hok']
      rfl
    · intro hok
      have hok' := Bool.eq_false_iff.mpr (of_decide_eq_false hok)
      obtain ⟨msg, hm⟩ := a2 hok'
      refine ⟨msg, ?_⟩
      show Res.bind (loopM xs ({ result := result.set (result.length - 1) O.one, n := result.length - 1 } : RootSt α)
        (fillStep O xs.length)) _ = _
      rw [hm]
      rfl

/-- ★ `poly_from_roots` (regenerated) IS the model's `polyFromRoots`, for every list of roots whose length + 1 a
    `usize` holds: the same coefficients when the regenerated no-panic condition holds, a panic of the model otherwise -/
theorem gen_poly_from_roots_eq (xs : List α) (hlen : xs.length + 1 < 18446744073709551616) :
    (Gen.Polynom.poly_from_roots_ok O.toX xs = true →
      polyFromRoots O xs = .ok (Gen.Polynom.poly_from_roots O.toX xs)) ∧
    (Gen.Polynom.poly_from_roots_ok O.toX xs = false → ∃ msg, polyFromRoots O xs = .panic msg) := by
  obtain ⟨w1, w2⟩ := gen_poly_from_roots_wrapper O.toX xs
  obtain ⟨f1, f2⟩ := gen_fill_zero_roots_eq O xs (List.replicate (xs.length + 1) (O.toX.ofNat 0)) (by simpa using hlen)
  rw [w1, w2, model_poly_from_roots_wrapper]
  simp only [hlen, decide_true, Bool.true_and]
  exact ⟨f1, f2⟩

end C20G
