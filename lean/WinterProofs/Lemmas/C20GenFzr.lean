-- tie T for C20, continued: the INNER loop of `fill_zero_roots` as regenerated from math/src/polynom/mod.rs on this
-- run coincides with the inner loop of the model's `fillStep` (value and exact panic condition), for every
-- operations record.  First step towards `fill_zero_roots` = `Model.Poly.fillZeroRoots`; the outer loop and the
-- function itself are still tied by evaluation only.
import WinterProofs.Lemmas.C20Gen

namespace C20G
open Model.Poly

variable {α : Type} (O : Ops α)

/-- the inner loop `for j in n..xs.len() { result[j] = result[j] - result[j + 1] * xs[i] }` of `fill_zero_roots`:
    the regenerated loop is the model's, and the model panics exactly when a regenerated bound fails -/
theorem fzrInner_eq (xs : List α) (i : Nat) (hi : i < xs.length) : ∀ (js : List Nat) (r : List α),
    r.length < 18446744073709551616 →
    loopM js r (fun r j =>
        (getAt r j).bind fun lo =>
        (getAt r (j + 1)).bind fun hi =>
        setAt r j (O.sub lo (O.mul hi (xs.getD i O.zero))))
      = if Gen.Polynom.fill_zero_roots.for1_body.for1_ok O.toX xs i js r = true
        then .ok (Gen.Polynom.fill_zero_roots.for1_body.for1 O.toX xs i js r)
        else .panic "index out of bounds" := by
  intro js
  induction js with
  | nil =>
    intro r _
    simp [loopM, Gen.Polynom.fill_zero_roots.for1_body.for1, Gen.Polynom.fill_zero_roots.for1_body.for1_ok]
  | cons j t ih =>
    intro r hr
    have hstep : ((getAt r j).bind fun lo => (getAt r (j + 1)).bind fun hi =>
          setAt r j (O.sub lo (O.mul hi (xs.getD i O.zero)))) =
        if j + 1 < r.length
        then .ok (r.set j (O.sub (r.getD j O.zero) (O.mul (r.getD (j + 1) O.zero) (xs.getD i O.zero))))
        else .panic "index out of bounds" := by
      rw [getAt_eq O r j, getAt_eq O r (j + 1)]
      by_cases hk : j + 1 < r.length
      · have hk0 : j < r.length := by omega
        simp [hk, hk0, Res.bind, setAt]
      · by_cases hk0 : j < r.length
        · simp [hk, hk0, Res.bind]
        · simp [hk, hk0, Res.bind]
    rw [loopM, Gen.Polynom.fill_zero_roots.for1_body.for1, Gen.Polynom.fill_zero_roots.for1_body.for1_ok]
    rw [hstep]
    unfold_gen Gen.Polynom
    simp only [toX_zero, toX_sub, toX_mul]
    by_cases hk : j + 1 < r.length
    · have hk0 : j < r.length := by omega
      have hk' : j + 1 < 18446744073709551616 := by omega
      simp only [hk, hk0, hk', hi, if_true, decide_true, Bool.true_and]
      exact ih _ (by simpa using hr)
    · simp [hk]

end C20G
