-- tie T for C20, continued: the INNER loop of `fill_zero_roots` as regenerated from math/src/polynom/mod.rs on this
-- run coincides with the inner loop of the model's `fillStep` (value and exact panic condition), for every
-- operations record, and so does one iteration of the OUTER loop (`fzrStep_eq`: `n -= 1; result[n] = 0;` inner loop =
-- the model's `fillStep`).  Steps towards `fill_zero_roots` = `Model.Poly.fillZeroRoots`; the iteration of the outer
-- loop over `xs` (elements in the model, indices in the regenerated code) and the function itself are still tied by
-- evaluation only.
import WinterProofs.Lemmas.C20Gen

namespace C20G
open Model.Poly

variable {α : Type} (O : Ops α)

/-- the inner loop `for j in n..xs.len() { result[j] = result[j] - result[j + 1] * xs[i] }` of `fill_zero_roots`:
    the regenerated loop is the model's, and the model panics exactly when a regenerated bound fails -/
theorem fzrInner_eq (xs : List α) (i : Nat) (hi : i < xs.length) : ∀ (js : List Nat) (r : List α),
    r.length < 18446744073709551616 →
    loopM js r (fun r j =>
        (getAt r j).bind fun lo =>
        (getAt r (j + 1)).bind fun hi =>
        setAt r j (O.sub lo (O.mul hi (xs.getD i O.zero))))
      = if Gen.Polynom.fill_zero_roots.for1_body.for1_ok O.toX xs i js r = true
        then .ok (Gen.Polynom.fill_zero_roots.for1_body.for1 O.toX xs i js r)
        else .panic "index out of bounds" := by
  intro js
  induction js with
  | nil =>
    intro r _
    simp [loopM, Gen.Polynom.fill_zero_roots.for1_body.for1, Gen.Polynom.fill_zero_roots.for1_body.for1_ok]
  | cons j t ih =>
    intro r hr
    have hstep : ((getAt r j).bind fun lo => (getAt r (j + 1)).bind fun hi =>
          setAt r j (O.sub lo (O.mul hi (xs.getD i O.zero)))) =
        if j + 1 < r.length
        then .ok (r.set j (O.sub (r.getD j O.zero) (O.mul (r.getD (j + 1) O.zero) (xs.getD i O.zero))))
        else .panic "index out of bounds" := by
      rw [getAt_eq O r j, getAt_eq O r (j + 1)]
      by_cases hk : j + 1 < r.length
      · have hk0 : j < r.length := by omega
        simp [hk, hk0, Res.bind, setAt]
      · by_cases hk0 : j < r.length
        · simp [hk, hk0, Res.bind]
        · simp [hk, hk0, Res.bind]
    rw [loopM, Gen.Polynom.fill_zero_roots.for1_body.for1, Gen.Polynom.fill_zero_roots.for1_body.for1_ok]
    rw [hstep]
    unfold_gen Gen.Polynom
    simp only [toX_zero, toX_sub, toX_mul]
    by_cases hk : j + 1 < r.length
    · have hk0 : j < r.length := by omega
      have hk' : j + 1 < 18446744073709551616 := by omega
      simp only [hk, hk0, hk', hi, if_true, decide_true, Bool.true_and]
      exact ih _ (by simpa using hr)
    · simp [hk]

/-- one iteration of the OUTER loop of `fill_zero_roots` (`n -= 1; result[n] = 0;` inner loop): the regenerated body
    is the model's `fillStep`, and the model panics exactly when a regenerated bound fails -/
theorem fzrStep_eq (xs : List α) (i : Nat) (hi : i < xs.length) (st : RootSt α)
    (hr : st.result.length < 18446744073709551616) :
    fillStep O xs.length st (xs.getD i O.zero) =
      if Gen.Polynom.fill_zero_roots.for1_body_ok O.toX i st.result st.n xs = true
      then .ok { result := (Gen.Polynom.fill_zero_roots.for1_body O.toX i st.result st.n xs).1,
                 n := (Gen.Polynom.fill_zero_roots.for1_body O.toX i st.result st.n xs).2 }
      else .panic (if st.n = 0 then "attempt to subtract with overflow" else "index out of bounds") := by
  unfold fillStep
  by_cases hn : st.n = 0
  · unfold_gen Gen.Polynom
    simp [hn]
  · have hn1 : 1 ≤ st.n := by omega
    rw [if_neg hn]
    dsimp only
    rw [setAt_eq]
    by_cases hk : st.n - 1 < st.result.length
    · rw [if_pos hk]
      change Res.bind (loopM _ (st.result.set (st.n - 1) O.zero) _) _ = _
      rw [fzrInner_eq O xs i hi _ _ (by simpa using hr)]
      unfold_gen Gen.Polynom
      simp only [toX_zero, hn1, hk, decide_true, Bool.true_and, hn, if_false]
      split <;> simp_all [Res.bind]
    · unfold_gen Gen.Polynom
      simp [hk, hn, Res.bind]

end C20G
