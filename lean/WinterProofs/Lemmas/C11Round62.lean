-- C11 helper lemmas (Rp62_248): the round function and the permutation of the 62-bit instance on
-- valid raw words (`< 2p`) denote the reference round / permutation on residues.  The MDS step is
-- the plain matrix-vector product, so nothing here depends on `mds_multiply_glue`.
import Winter.Model.Rescue
import WinterProofs.Lemmas.C07F62Z
import WinterProofs.Lemmas.C11Sem
import WinterProofs.Lemmas.C11Sbox
import Mathlib.Tactic.Ring
set_option linter.unusedVariables false
set_option linter.unusedSimpArgs false

namespace WinterProofs.C11.Round62
open Model Model.Rescue WinterProofs.F62Z WinterProofs.C11.Sem

/-- the 62-bit field as the sponge sees it -/
noncomputable def S62 : FieldSem Model.F62.impl P where
  Inv := Inv
  val := val
  add_ok := fun a b ha hb => ⟨add_inv a b ha hb, val_add a b ha hb⟩
  new_ok := fun v hv => ⟨new_inv v (by norm_num; exact hv), val_new v (by norm_num; exact hv)⟩

/-- all entries of a table are 64-bit integers (so that `new` reads them exactly) -/
def tableU64 (t : List (List Nat)) : Bool := t.all fun r => r.all fun k => decide (k < 18446744073709551616)

theorem tables_u64 : tableU64 Gen.Rp62.MDS = true ∧ tableU64 Gen.Rp62.ARK1 = true ∧ tableU64 Gen.Rp62.ARK2 = true := by
  refine ⟨?_, ?_, ?_⟩ <;> decide +kernel

theorem tableU64_row {t : List (List Nat)} (h : tableU64 t = true) {r : List Nat} (hr : r ∈ t) :
    ∀ k ∈ r, k < 18446744073709551616 := by
  intro k hk
  unfold tableU64 at h
  have := (List.all_eq_true.mp h) r hr
  have := (List.all_eq_true.mp this) k hk
  simpa using this

/-- a row of constants given to `new`: valid raw words ... -/
theorem newRow_inv : ∀ (r : List Nat), (∀ k ∈ r, k < 18446744073709551616) → AllInv S62 (r.map Gen.F62.new)
  | [], _ => AllInv.nil S62
  | k :: r, h => by
    have hk := h k (List.mem_cons_self)
    have i2 := newRow_inv r (fun x hx => h x (List.mem_cons_of_mem _ hx))
    have hk' : k < 2 ^ 64 := by norm_num; exact hk
    exact AllInv.cons S62 (new_inv k hk') i2

/-- ... denoting the integers (pointwise: rewriting at the `cons` level makes the kernel recurse) -/
theorem newRow_val (r : List Nat) (h : ∀ k ∈ r, k < 18446744073709551616) :
    (r.map Gen.F62.new).map val = r.map (fun (k : Nat) => (k : ZMod P)) := by
  rw [List.map_map]
  apply List.map_congr_left
  intro k hk
  have hk' : k < 2 ^ 64 := by norm_num; exact h k hk
  exact val_new k hk'

theorem newRow_sem (r : List Nat) (h : ∀ k ∈ r, k < 18446744073709551616) :
    AllInv S62 (r.map Gen.F62.new) ∧ (r.map Gen.F62.new).map val = r.map (fun (k : Nat) => (k : ZMod P)) :=
  ⟨newRow_inv r h, newRow_val r h⟩

/-- inner product of residues with a row of integers (state first, as the code zips them) -/
noncomputable def refDot (v : List (ZMod P)) (row : List Nat) : ZMod P :=
  (List.zipWith (fun (x : ZMod P) (c : Nat) => (c : ZMod P) * x) v row).sum

/-- the accumulation loop of one output element: `r += m * s` over the zipped state and row -/
theorem dotFold_sem : ∀ (st row : List Nat) (acc : Nat), AllInv S62 st → (∀ k ∈ row, k < 18446744073709551616) →
    Inv acc →
    Inv ((List.zip st (row.map Gen.F62.new)).foldl (fun r sm => Gen.F62.add r (Gen.F62.mul sm.2 sm.1)) acc) ∧
    val ((List.zip st (row.map Gen.F62.new)).foldl (fun r sm => Gen.F62.add r (Gen.F62.mul sm.2 sm.1)) acc)
      = val acc + refDot (st.map val) row
  | [], _, acc, _, _, ha => by simp [refDot, ha]
  | _ :: _, [], acc, _, _, ha => by simp [refDot, ha]
  | s :: st, m :: row, acc, hs, hr, ha => by
    have hm := hr m (List.mem_cons_self)
    have im := new_inv m (by norm_num; exact hm)
    have vm := val_new m (by norm_num; exact hm)
    have is := AllInv.head S62 hs
    have i1 := mul_inv _ _ im is
    have v1 := val_mul _ _ im is
    have i2 := add_inv _ _ ha i1
    have v2 := val_add _ _ ha i1
    obtain ⟨i3, v3⟩ := dotFold_sem st row _ (AllInv.tail S62 hs) (fun x hx => hr x (List.mem_cons_of_mem _ hx)) i2
    refine ⟨by simpa using i3, ?_⟩
    simp only [List.map_cons, List.zip_cons_cons, List.foldl_cons]
    rw [v3, v2, v1, vm]
    simp only [refDot, List.zipWith_cons_cons, List.sum_cons]
    ring

theorem dotRow_sem (st row : List Nat) (hs : AllInv S62 st) (hr : ∀ k ∈ row, k < 18446744073709551616) :
    Inv (F62.dotRow (row.map Gen.F62.new) st) ∧
    val (F62.dotRow (row.map Gen.F62.new) st) = refDot (st.map val) row := by
  unfold F62.dotRow
  have h0 : Inv (Gen.F62.new 0) := new_inv 0 (by norm_num)
  have v0 : val (Gen.F62.new 0) = 0 := by rw [val_new 0 (by norm_num)]; simp
  obtain ⟨i, v⟩ := dotFold_sem st row _ hs hr h0
  exact ⟨i, by rw [v, v0, zero_add]⟩

/-- the reference matrix-vector product with a table of integers -/
noncomputable def refMatVec (m : List (List Nat)) (v : List (ZMod P)) : List (ZMod P) :=
  m.map (fun row => refDot v row)

theorem mdsRows_sem (st : List Nat) (hs : AllInv S62 st) : ∀ (m : List (List Nat)),
    (∀ r ∈ m, ∀ k ∈ r, k < 18446744073709551616) →
    AllInv S62 ((m.map (fun row => row.map Gen.F62.new)).map (fun row => F62.dotRow row st)) ∧
    ((m.map (fun row => row.map Gen.F62.new)).map (fun row => F62.dotRow row st)).map val
      = refMatVec m (st.map val)
  | [], _ => ⟨AllInv.nil S62, rfl⟩
  | r :: m, h => by
    obtain ⟨i1, v1⟩ := dotRow_sem st r hs (h r (List.mem_cons_self))
    obtain ⟨i2, v2⟩ := mdsRows_sem st hs m (fun x hx => h x (List.mem_cons_of_mem _ hx))
    refine ⟨AllInv.cons S62 i1 i2, ?_⟩
    simp only [List.map_cons, v1]
    rw [v2]
    simp [refMatVec]

/-- `apply_mds` of the 62-bit instance -/
theorem mds_sem (st : List Nat) (hs : AllInv S62 st) :
    AllInv S62 (F62.mds st) ∧ (F62.mds st).map val = refMatVec Gen.Rp62.MDS (st.map val) :=
  mdsRows_sem st hs Gen.Rp62.MDS (fun r hr => tableU64_row tables_u64.1 hr)

theorem mds_length (st : List Nat) : (F62.mds st).length = 12 := by
  unfold F62.mds
  simp only [List.length_map]
  decide

/-- the reference round on residues -/
noncomputable def refRound (v k1 k2 : List (ZMod P)) : List (ZMod P) :=
  List.zipWith (· + ·) (refMatVec Gen.Rp62.MDS
    ((List.zipWith (· + ·) (refMatVec Gen.Rp62.MDS (v.map (· ^ Gen.Rp62.ALPHA))) k1).map (· ^ Gen.Rp62.INV_ALPHA))) k2

/-- one round on valid raw words with valid constants denotes the reference round -/
theorem round_sem (st k1 k2 : List Nat) (hs : AllInv S62 st) (h1 : AllInv S62 k1) (h2 : AllInv S62 k2) :
    AllInv S62 (roundWith rp62 st k1 k2) ∧
    (roundWith rp62 st k1 k2).map val = refRound (st.map val) (k1.map val) (k2.map val) := by
  have hA : Gen.Rp62.ALPHA = 3 := by decide
  obtain ⟨i1, v1⟩ := map_sem S62 F62.cube (· ^ 3) (fun x hx => Sbox.F62.cube_pow x hx) st hs
  obtain ⟨i2, v2⟩ := mds_sem _ i1
  obtain ⟨i3, v3⟩ := zipAdd_sem S62 _ k1 i2 h1
  obtain ⟨i4, v4⟩ := map_sem S62 F62.invSbox (· ^ Gen.Rp62.INV_ALPHA) (fun x hx => Sbox.F62.invSbox_pow x hx) _ i3
  obtain ⟨i5, v5⟩ := mds_sem _ i4
  obtain ⟨i6, v6⟩ := zipAdd_sem S62 _ k2 i5 h2
  refine ⟨i6, ?_⟩
  have e : roundWith rp62 st k1 k2 =
      List.zipWith Gen.F62.add (F62.mds ((List.zipWith Gen.F62.add (F62.mds (st.map F62.cube)) k1).map F62.invSbox)) k2 := rfl
  rw [e]
  have ev : S62.val = val := rfl
  have ea : Model.F62.impl.add = Gen.F62.add := rfl
  simp only [ev, ea] at v1 v2 v3 v4 v5 v6
  rw [v6, v5, v4, v3, v2, v1, refRound, hA]

theorem round_length (st k1 k2 : List Nat) (h2 : k2.length = 12) : (roundWith rp62 st k1 k2).length = 12 := by
  have e : roundWith rp62 st k1 k2 =
      List.zipWith Gen.F62.add (F62.mds ((List.zipWith Gen.F62.add (F62.mds (st.map F62.cube)) k1).map F62.invSbox)) k2 := rfl
  rw [e, List.length_zipWith, mds_length, h2]
  exact Nat.min_self 12

/-! ### the permutation -/

def rowsLen12 (t : List (List Nat)) : Bool := t.all fun r => decide (r.length = 12)

theorem ark_rows_len : rowsLen12 Gen.Rp62.ARK1 = true ∧ rowsLen12 Gen.Rp62.ARK2 = true := by
  constructor <;> decide +kernel

/-- the round constants as the permutation uses them: valid raw words, twelve per row -/
def GoodK (k1 k2 : List Nat) : Prop := AllInv S62 k1 ∧ AllInv S62 k2 ∧ k2.length = 12

theorem ark_good : ∀ k ∈ List.zip rp62.ark1 rp62.ark2, GoodK k.1 k.2 := by
  rintro ⟨ka, kb⟩ hk
  obtain ⟨h1, h2⟩ := List.of_mem_zip hk
  have e1 : rp62.ark1 = Gen.Rp62.ARK1.map (fun r => r.map Gen.F62.new) := rfl
  have e2 : rp62.ark2 = Gen.Rp62.ARK2.map (fun r => r.map Gen.F62.new) := rfl
  rw [e1] at h1
  rw [e2] at h2
  obtain ⟨r1, hr1, q1⟩ := List.mem_map.mp h1
  obtain ⟨r2, hr2, q2⟩ := List.mem_map.mp h2
  rw [← q1, ← q2]
  refine ⟨newRow_inv r1 (tableU64_row tables_u64.2.1 hr1), newRow_inv r2 (tableU64_row tables_u64.2.2 hr2), ?_⟩
  rw [List.length_map]
  have := (List.all_eq_true.mp ark_rows_len.2) r2 hr2
  simpa using this

/-- the reference permutation: the reference rounds with the constants of the tables, as residues -/
noncomputable def refPerm (v : List (ZMod P)) : List (ZMod P) :=
  (List.zip rp62.ark1 rp62.ark2).foldl (fun v k => refRound v (k.1.map val) (k.2.map val)) v

/-- `apply_permutation` of Rp62_248 on twelve valid raw words denotes the reference permutation -/
theorem perm_sem (st : List Nat) (hl : st.length = 12) (hs : AllInv S62 st) :
    (applyPermutation rp62 st).length = 12 ∧ AllInv S62 (applyPermutation rp62 st) ∧
    (applyPermutation rp62 st).map val = refPerm (st.map val) := by
  have h := fold_sem S62 rp62 12 GoodK refRound
    (fun st k1 k2 hl hi hg => ⟨round_length st k1 k2 hg.2.2, (round_sem st k1 k2 hi hg.1 hg.2.1).1,
      (round_sem st k1 k2 hi hg.1 hg.2.1).2⟩)
    (List.zip rp62.ark1 rp62.ark2) st ark_good hl hs
  exact h

/-- the constants the reference permutation adds are the table entries (as residues) -/
theorem ark_val : rp62.ark1.map (fun r => r.map val) = Gen.Rp62.ARK1.map (fun r => r.map (fun (k : Nat) => (k : ZMod P))) ∧
    rp62.ark2.map (fun r => r.map val) = Gen.Rp62.ARK2.map (fun r => r.map (fun (k : Nat) => (k : ZMod P))) := by
  have e1 : rp62.ark1 = Gen.Rp62.ARK1.map (fun r => r.map Gen.F62.new) := rfl
  have e2 : rp62.ark2 = Gen.Rp62.ARK2.map (fun r => r.map Gen.F62.new) := rfl
  rw [e1, e2, List.map_map, List.map_map]
  constructor
  · apply List.map_congr_left
    intro r hr
    exact newRow_val r (tableU64_row tables_u64.2.1 hr)
  · apply List.map_congr_left
    intro r hr
    exact newRow_val r (tableU64_row tables_u64.2.2 hr)

/-- the permutation as the sponge sees it -/
noncomputable def perm62 : PermSem rp62 P where
  S := S62
  refPerm := refPerm
  perm_ok := fun st hl hs => perm_sem st hl hs

end WinterProofs.C11.Round62
