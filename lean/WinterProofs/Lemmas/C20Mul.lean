-- C20 helper lemmas, part 2: the checked-update loops (`loopM`), multiplication.
import WinterProofs.Lemmas.C20Basic

namespace WinterProofs.C20
open Model.Poly Polynomial

variable {α β F : Type} [Field F]

-- ------------------------------------------------------------------ loops and checked accesses

section
variable {ι σ : Type}

@[simp] theorem loopM_nil (st : σ) (body : σ → ι → Res σ) : loopM [] st body = .ok st := rfl

theorem loopM_cons_ok {i : ι} {rest : List ι} {st st' : σ} {body : σ → ι → Res σ}
    (h : body st i = .ok st') : loopM (i :: rest) st body = loopM rest st' body := by
  simp [loopM, h]

theorem loopM_append (l₁ l₂ : List ι) (st : σ) (body : σ → ι → Res σ) :
    loopM (l₁ ++ l₂) st body = (loopM l₁ st body).bind fun st' => loopM l₂ st' body := by
  induction l₁ generalizing st with
  | nil => rfl
  | cons i rest ih =>
    simp only [List.cons_append, loopM]
    cases body st i with
    | ok st' => exact ih st'
    | panic s => rfl
    | hang => rfl

@[simp] theorem bind_ok {γ δ : Type} (a : γ) (f : γ → Res δ) : (Res.ok a).bind f = f a := rfl
@[simp] theorem bind_panic {γ δ : Type} (s : String) (f : γ → Res δ) :
    (Res.panic s : Res γ).bind f = .panic s := rfl
@[simp] theorem bind_hang {γ δ : Type} (f : γ → Res δ) : (Res.hang : Res γ).bind f = .hang := rfl

end

section
variable {ι σ : Type}

theorem mapM'_ok {f : ι → Res σ} {l : List ι} {ys : List σ} (h : mapM' f l = .ok ys) :
    List.Forall₂ (fun x y => f x = .ok y) l ys := by
  induction l generalizing ys with
  | nil =>
    simp only [mapM', Res.ok.injEq] at h
    subst h; exact List.Forall₂.nil
  | cons x xs ih =>
    unfold mapM' at h
    cases hx : f x with
    | ok y =>
      rw [hx] at h
      cases hxs : mapM' f xs with
      | ok ys' =>
        rw [hxs] at h
        simp only [Res.ok.injEq] at h
        subst h
        exact List.Forall₂.cons hx (ih hxs)
      | panic s => rw [hxs] at h; cases h
      | hang => rw [hxs] at h; cases h
    | panic s => rw [hx] at h; cases h
    | hang => rw [hx] at h; cases h

theorem mapM'_total {f : ι → Res σ} {l : List ι} (h : ∀ x ∈ l, ∃ y, f x = .ok y) :
    ∃ ys, mapM' f l = .ok ys := by
  induction l with
  | nil => exact ⟨[], rfl⟩
  | cons x xs ih =>
    obtain ⟨y, hy⟩ := h x (by simp)
    obtain ⟨ys, hys⟩ := ih (fun z hz => h z (by simp [hz]))
    exact ⟨y :: ys, by simp [mapM', hy, hys]⟩

/-- `mapM'` with a function that always succeeds is `map` -/
theorem mapM'_eq_map {f : ι → Res σ} {g : ι → σ} {l : List ι} (h : ∀ x ∈ l, f x = .ok (g x)) :
    mapM' f l = .ok (l.map g) := by
  induction l with
  | nil => rfl
  | cons x xs ih =>
    simp [mapM', h x (by simp), ih (fun z hz => h z (by simp [hz]))]

theorem forall₂_map_eq {γ δ ε : Type} {R : γ → δ → Prop} {G : δ → ε} {H : γ → ε}
    {l : List γ} {ys : List δ} (h : List.Forall₂ R l ys) (hR : ∀ x y, R x y → G y = H x) :
    ys.map G = l.map H := by
  induction h with
  | nil => rfl
  | cons hxy _ ih => simp [hR _ _ hxy, ih]

end

theorem getAt_ok (r : List α) (k : Nat) (hk : k < r.length) : getAt r k = .ok r[k] := by
  simp [getAt, hk]

theorem setAt_ok (r : List α) (k : Nat) (c : α) (hk : k < r.length) :
    setAt r k c = .ok (r.set k c) := by
  simp [setAt, hk]

theorem updAt_ok (r : List α) (k : Nat) (f : α → α) (hk : k < r.length) :
    updAt r k f = .ok (r.set k (f r[k])) := by
  simp [updAt, hk]

theorem toPoly_set (v : α → F) (r : List α) (k : Nat) (c : α) (hk : k < r.length) :
    toPoly v (r.set k c) = toPoly v r + C (v c - v r[k]) * X ^ k := by
  rw [toPoly, List.map_set, ofCoeffs_set _ _ _ (by simpa using hk)]
  simp [toPoly]

theorem toPoly_replicate_zero {O : Ops α} {v : α → F} (L : Lawful O v) (n : Nat) :
    toPoly v (List.replicate n O.zero) = 0 := by
  simp [toPoly, L.zero, ofCoeffs_replicate_zero]

-- ------------------------------------------------------------------ mul

section
variable {O : Ops α} {v : α → F}

/-- the inner loop of `mul` adds `a_i * x^(i+j0) * b` -/
theorem mulInner_aux (L : Lawful O v) (ai : α) (i : Nat) (b : List α) (j0 : Nat) (r : List α)
    (h : i + j0 + b.length ≤ r.length) :
    ∃ r', loopM (b.zipIdx j0) r (fun r bj => updAt r (i + bj.2) fun x => O.add x (O.mul ai bj.1)) = .ok r' ∧
      r'.length = r.length ∧
      toPoly v r' = toPoly v r + C (v ai) * X ^ (i + j0) * toPoly v b := by
  induction b generalizing j0 r with
  | nil => exact ⟨r, rfl, rfl, by simp⟩
  | cons bj bs ih =>
    have hk : i + j0 < r.length := by simp at h; omega
    rw [List.zipIdx_cons, loopM_cons_ok (updAt_ok r (i + j0) _ hk)]
    obtain ⟨r', h1, h2, h3⟩ := ih (j0 + 1) (r.set (i + j0) (O.add r[i + j0] (O.mul ai bj)))
      (by simp at h ⊢; omega)
    refine ⟨r', h1, by simpa using h2, ?_⟩
    rw [h3, toPoly_set v r _ _ hk, L.add, L.mul, toPoly_cons]
    have : i + (j0 + 1) = (i + j0) + 1 := by omega
    rw [this, pow_succ]
    simp only [C_mul, add_sub_cancel_left]
    ring

theorem mulInner_ok (L : Lawful O v) (ai : α) (i : Nat) (b : List α) (r : List α)
    (h : i + b.length ≤ r.length) :
    ∃ r', mulInner O ai i b r = .ok r' ∧ r'.length = r.length ∧
      toPoly v r' = toPoly v r + C (v ai) * X ^ i * toPoly v b := by
  simpa [mulInner] using mulInner_aux L ai i b 0 r (by omega)

theorem mulOuter_aux (L : Lawful O v) (a b : List α) (i0 : Nat) (r : List α)
    (h : a = [] ∨ i0 + a.length + b.length ≤ r.length + 1) :
    ∃ r', loopM (a.zipIdx i0) r (fun r ai => mulInner O ai.1 ai.2 b r) = .ok r' ∧
      r'.length = r.length ∧
      toPoly v r' = toPoly v r + X ^ i0 * toPoly v a * toPoly v b := by
  induction a generalizing i0 r with
  | nil => exact ⟨r, rfl, rfl, by simp⟩
  | cons ai as ih =>
    have h' : i0 + (as.length + 1) + b.length ≤ r.length + 1 := by
      rcases h with h | h
      · simp at h
      · simpa using h
    obtain ⟨r1, e1, l1, p1⟩ := mulInner_ok L ai i0 b r (by omega)
    rw [List.zipIdx_cons, loopM_cons_ok (body := fun r ai => mulInner O ai.1 ai.2 b r) (i := (ai, i0)) e1]
    obtain ⟨r', e2, l2, p2⟩ := ih (i0 + 1) r1 (by
      cases as with
      | nil => left; rfl
      | cons _ _ => right; simp at h' ⊢; omega)
    refine ⟨r', e2, by omega, ?_⟩
    rw [p2, p1, toPoly_cons, pow_succ]
    ring

/-- `mul` never panics; its result has `a.len() + b.len() - 1` (saturating) coefficients and denotes
    the product -/
theorem mul_spec (L : Lawful O v) (a b : List α) :
    ∃ r, mul O a b = .ok r ∧ r.length = a.length + b.length - 1 ∧
      toPoly v r = toPoly v a * toPoly v b := by
  obtain ⟨r, e, l, p⟩ := mulOuter_aux L a b 0 (List.replicate (a.length + b.length - 1) O.zero) (by
    cases a with
    | nil => left; rfl
    | cons _ _ => right; simp; omega)
  refine ⟨r, by simpa [mul] using e, by simpa using l, ?_⟩
  rw [p, toPoly_replicate_zero L]
  simp

end

end WinterProofs.C20
