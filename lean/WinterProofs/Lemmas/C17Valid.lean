-- C17, valid traces: the constraints composed with the trace polynomials as Mathlib polynomials (the
-- model's own expression evaluator run over `F[X]`), the value polynomial of a boundary constraint, the
-- predicate "the trace is valid", and what validity gives per constraint: the numerator vanishes on
-- every root of its divisor.
import WinterProofs.C16
import WinterProofs.Lemmas.C17Trace
import WinterProofs.Lemmas.C17Quot

set_option linter.unusedSectionVars false

namespace WinterProofs.C17L
open Model.Divisor Model.Composition WinterProofs.C16L Polynomial

variable {F : Type} [Field F]

-- ============================================================================================
-- the expression evaluator over polynomials
-- ============================================================================================

/-- the model's operation record over the polynomial ring (no division, no roots of unity: constraint
    expressions use neither) -/
noncomputable def polyOps (F : Type) [Field F] : Ops F[X] where
  zero := 0
  one := 1
  add := (· + ·)
  sub := (· - ·)
  mul := (· * ·)
  pow := (· ^ ·)
  div := fun _ _ => none
  ofNat := fun n => (n : F[X])
  root := fun _ => none

/-- the environment of the definition as polynomials in `X`: current cells `t_j(X)`, next cells
    `t_j(X·g)`, periodic columns `p_i(X^(n/len_i))`, random elements as constants (compare `defEnv`) -/
noncomputable def polyEnv (n : ℕ) (g : F) (perPolys : List (List F)) (mainPolys auxPolys : ℕ → List F)
    (rands : ℕ → F) : Env F[X] :=
  ⟨fun j => listPoly (mainPolys j), fun j => (listPoly (mainPolys j)).comp (X * C g),
   fun i => match perPolys[i]? with
     | some p => (listPoly p).comp (X ^ (n / p.length))
     | none => 0,
   fun j => listPoly (auxPolys j), fun j => (listPoly (auxPolys j)).comp (X * C g),
   fun i => C (rands i), fun _ => 0, 0⟩

/-- a transition constraint composed with the trace polynomials: the numerator polynomial -/
noncomputable def exprPoly (air : Air F) (P : Prep F) (mainPolys auxPolys : ℕ → List F) (rands : ℕ → F)
    (c : Expr) : F[X] :=
  c.eval (polyOps F) (polyEnv air.n P.g P.perPolys mainPolys auxPolys rands)

section
variable (root : ℕ → Option F)
local notation "O" => fieldOps F root

/-- evaluating the numerator polynomial at `x` is evaluating the constraint on the frame at `x` -/
theorem exprPoly_eval (air : Air F) (P : Prep F) (mainPolys auxPolys : ℕ → List F) (rands : ℕ → F)
    (c : Expr) (x : F) :
    (exprPoly air P mainPolys auxPolys rands c).eval x
      = c.eval (O) (defEnv root air P mainPolys auxPolys rands x) := by
  unfold exprPoly
  induction c with
  | const v => simp [Expr.eval, polyOps, fieldOps]
  | cur i => simp only [Expr.eval, polyEnv, defEnv, mkEnv, framesOf]; exact listPoly_eval root _ x
  | nxt i =>
    simp only [Expr.eval, polyEnv, defEnv, mkEnv, framesOf, eval_comp, eval_mul, eval_X, eval_C]
    exact listPoly_eval root _ _
  | per i =>
    simp only [Expr.eval, polyEnv, defEnv, mkEnv, periodicAt]
    cases P.perPolys[i]? with
    | none => simp [fieldOps]
    | some p =>
      simp only [eval_comp, eval_pow, eval_X]
      exact listPoly_eval root _ _
  | acur i => simp only [Expr.eval, polyEnv, defEnv, mkEnv, framesOf]; exact listPoly_eval root _ x
  | anxt i =>
    simp only [Expr.eval, polyEnv, defEnv, mkEnv, framesOf, eval_comp, eval_mul, eval_X, eval_C]
    exact listPoly_eval root _ _
  | rand i => simp [Expr.eval, polyEnv, defEnv, mkEnv]
  | pub i => simp [Expr.eval, polyEnv, defEnv, mkEnv, fieldOps]
  | pubSeq i => simp [Expr.eval, polyEnv, defEnv, mkEnv, fieldOps]
  | add a b iha ihb =>
    show (a.eval (polyOps F) _ + b.eval (polyOps F) _).eval x = a.eval (O) _ + b.eval (O) _
    rw [eval_add, iha, ihb]
  | sub a b iha ihb =>
    show (a.eval (polyOps F) _ - b.eval (polyOps F) _).eval x = a.eval (O) _ - b.eval (O) _
    rw [eval_sub, iha, ihb]
  | mul a b iha ihb =>
    show (a.eval (polyOps F) _ * b.eval (polyOps F) _).eval x = a.eval (O) _ * b.eval (O) _
    rw [eval_mul, iha, ihb]
  | pow a k iha =>
    show (a.eval (polyOps F) _ ^ k).eval x = a.eval (O) _ ^ k
    rw [eval_pow, iha]
  | neg a iha =>
    show ((0 : F[X]) - a.eval (polyOps F) _).eval x = (0 : F) - a.eval (O) _
    rw [eval_sub, eval_zero, iha]

end

-- ============================================================================================
-- a syntactic degree bound (what `TransitionConstraintDegree` declares)
-- ============================================================================================

/-- degree bound of a constraint expression over a trace of length `n` (every trace polynomial has
    degree `≤ n − 1`, a periodic column of cycle length `L` has degree `≤ (L − 1)·(n/L)`) -/
def degBound (n : ℕ) (perLens : List ℕ) : Expr → ℕ
  | .const _ => 0
  | .cur _ => n - 1
  | .nxt _ => n - 1
  | .per i => match perLens[i]? with
    | some L => (L - 1) * (n / L)
    | none => 0
  | .acur _ => n - 1
  | .anxt _ => n - 1
  | .rand _ => 0
  | .pub _ => 0
  | .pubSeq _ => 0
  | .add a b => max (degBound n perLens a) (degBound n perLens b)
  | .sub a b => max (degBound n perLens a) (degBound n perLens b)
  | .mul a b => degBound n perLens a + degBound n perLens b
  | .pow a k => k * degBound n perLens a
  | .neg a => degBound n perLens a

theorem listPoly_nil : listPoly ([] : List F) = 0 := by simp [listPoly]

theorem listPoly_natDegree_le (c : List F) : (listPoly c).natDegree ≤ c.length - 1 := by
  cases c with
  | nil => rw [listPoly_nil]; simp
  | cons a l =>
    have h := listPoly_degree_lt (a :: l)
    have := natDegree_lt_of_degree_lt (by simp) h
    omega

theorem natDegree_comp_shift_le (p : F[X]) (g : F) : (p.comp (X * C g)).natDegree ≤ p.natDegree := by
  calc (p.comp (X * C g)).natDegree ≤ p.natDegree * (X * C g : F[X]).natDegree := natDegree_comp_le
    _ ≤ p.natDegree * 1 := Nat.mul_le_mul_left _ (le_trans (natDegree_mul_C_le _ _) natDegree_X_le)
    _ = p.natDegree := Nat.mul_one _

theorem exprPoly_natDegree_le (air : Air F) (P : Prep F) (mainPolys auxPolys : ℕ → List F) (rands : ℕ → F)
    (hm : ∀ j, (mainPolys j).length ≤ air.n) (ha : ∀ j, (auxPolys j).length ≤ air.n) (c : Expr) :
    (exprPoly air P mainPolys auxPolys rands c).natDegree
      ≤ degBound air.n (P.perPolys.map List.length) c := by
  have hcol : ∀ l : List F, l.length ≤ air.n → (listPoly l).natDegree ≤ air.n - 1 := fun l hl =>
    le_trans (listPoly_natDegree_le l) (by omega)
  unfold exprPoly
  induction c with
  | const v => simp [Expr.eval, polyOps, degBound]
  | cur i => exact hcol _ (hm i)
  | nxt i => exact le_trans (natDegree_comp_shift_le _ _) (hcol _ (hm i))
  | per i =>
    simp only [Expr.eval, polyEnv, degBound, List.getElem?_map]
    cases P.perPolys[i]? with
    | none => simp
    | some p =>
      simp only [Option.map_some]
      calc ((listPoly p).comp (X ^ (air.n / p.length))).natDegree
          ≤ (listPoly p).natDegree * (X ^ (air.n / p.length) : F[X]).natDegree := natDegree_comp_le
        _ = (listPoly p).natDegree * (air.n / p.length) := by rw [natDegree_X_pow]
        _ ≤ (p.length - 1) * (air.n / p.length) := Nat.mul_le_mul_right _ (listPoly_natDegree_le p)
  | acur i => exact hcol _ (ha i)
  | anxt i => exact le_trans (natDegree_comp_shift_le _ _) (hcol _ (ha i))
  | rand i => simp [Expr.eval, polyEnv, degBound]
  | pub i => simp [Expr.eval, polyEnv, degBound]
  | pubSeq i => simp [Expr.eval, polyEnv, degBound]
  | add a b iha ihb =>
    exact le_trans (natDegree_add_le _ _) (max_le_max iha ihb)
  | sub a b iha ihb =>
    exact le_trans (natDegree_sub_le _ _) (max_le_max iha ihb)
  | mul a b iha ihb =>
    exact le_trans natDegree_mul_le (Nat.add_le_add iha ihb)
  | pow a k iha =>
    exact le_trans natDegree_pow_le (Nat.mul_le_mul_left _ iha)
  | neg a iha =>
    refine le_trans (natDegree_sub_le _ _) ?_
    simp only [degBound]
    exact max_le (by simp [polyOps]) iha

-- ============================================================================================
-- the value polynomial of a boundary constraint
-- ============================================================================================

/-- `b(X)` of `BoundaryConstraint::evaluate_at`: the constant, or the interpolated polynomial at `X·offset` -/
noncomputable def valuePoly (c : BConstraint F) : F[X] :=
  match c.poly with
  | [v] => C v
  | p => (listPoly p).comp (X * C c.offsetElem)

theorem valuePoly_eval (root : ℕ → Option F) (c : BConstraint F) (x : F) :
    (valuePoly c).eval x = c.value (fieldOps F root) x := by
  rcases value_cases root c x with ⟨v, hv, hval⟩ | ⟨hns, hval⟩
  · rw [hval]; unfold valuePoly; rw [hv]; simp
  · rw [hval]; unfold valuePoly
    split
    · rename_i v hv; exact absurd hv (hns v)
    · simp only [eval_comp, eval_mul, eval_X, eval_C]
      exact listPoly_eval root _ _

theorem valuePoly_natDegree_le (c : BConstraint F) : (valuePoly c).natDegree ≤ c.poly.length - 1 := by
  unfold valuePoly
  split
  · simp
  · exact le_trans (natDegree_comp_shift_le _ _) (listPoly_natDegree_le _)

-- ============================================================================================
-- valid traces
-- ============================================================================================
section
variable (root : ℕ → Option F)
local notation "O" => fieldOps F root

/-- assertion `a` holds on the trace: the column polynomial takes the asserted value at every step the
    assertion names (`Assertion::apply` lists the (step, value) pairs; the cell of column `j` at step
    `s` is `t_j(g^s)`) -/
def AssertionHolds (g : F) (n : ℕ) (polys : ℕ → List F) (a : Assertion F) : Prop :=
  ∀ l, a.apply n = .ok l → ∀ sv ∈ l, polyEval (O) (polys a.column) (g ^ sv.1) = sv.2

/-- **the trace is valid** for the instance (the clauses of the reference predicate `Valid` of C02,
    `Model.VerifierChecks.Valid`, over the data-driven AIR of this model, which has auxiliary columns and
    an arbitrary field): the trace columns, given by their polynomials of degree below `n` (cell
    `(j, s)` is `t_j(g^s)`), satisfy every transition constraint on the frame `(s, s + 1)` for EXACTLY the
    steps `s < n − e`, and every assertion at the steps it names. -/
structure ValidTrace (air : Air F) (P : Prep F) (mainPolys auxPolys : ℕ → List F) (rands : ℕ → F) : Prop where
  mainLen : ∀ j, (mainPolys j).length ≤ air.n
  auxLen : ∀ j, (auxPolys j).length ≤ air.n
  transition : ∀ s, s < air.n - air.e → ∀ c ∈ air.mainCons ++ air.auxCons,
    c.eval (O) (defEnv root air P mainPolys auxPolys rands (P.g ^ s)) = 0
  mainAssertions : ∀ a ∈ air.mainAsserts, AssertionHolds root P.g air.n mainPolys a
  auxAssertions : ∀ a ∈ air.auxAsserts, AssertionHolds root P.g air.n auxPolys a

/-- what the assertion constructors and the root-of-unity family guarantee (explicit hypotheses, like
    `TraceOK`): assertions are the ones the constructors return (`WF`, C16), and for a sequence
    assertion `get_root_of_unity(log2 #values)` is `g^stride` -/
structure AssertOK (air : Air F) (P : Prep F) : Prop where
  hwf : ∀ a ∈ air.mainAsserts ++ air.auxAsserts, WF a
  hseq : ∀ a ∈ air.mainAsserts ++ air.auxAsserts, 2 ≤ a.values.length →
    root (Nat.log2 a.values.length) = some (P.g ^ a.stride)

/-- the (step, value) pairs are a computed list: checking them is checking the assertion -/
theorem assertionHolds_of_apply {g : F} {n : ℕ} {polys : ℕ → List F} {a : Assertion F} {l : List (ℕ × F)}
    (h : a.apply n = .ok l) (hl : ∀ sv ∈ l, polyEval (O) (polys a.column) (g ^ sv.1) = sv.2) :
    AssertionHolds root g n polys a := by
  intro l' hl' sv hsv
  rw [h] at hl'
  cases hl'
  exact hl sv hsv

theorem apply_const {a : Assertion F} {n : ℕ} {v : F} (hvals : a.values = [v])
    (hv : a.validateTraceLength n = .ok ()) :
    a.apply n = .ok ((a.stepList n).map (fun s => (s, v))) := by
  unfold Assertion.apply Assertion.stepList
  rw [hv]
  by_cases hs : a.isSingle = true
  · simp [hs, hvals]
  · have hs' : a.isSingle = false := by simpa using hs
    have hp : a.isPeriodic = true := by
      unfold Assertion.isSingle at hs'
      unfold Assertion.isPeriodic
      rw [hvals]
      simpa using hs'
    simp [hs', hp, hvals, Function.comp_def]

theorem apply_seq {a : Assertion F} {n : ℕ} (hw : WF a) (h2 : 2 ≤ a.values.length)
    (hv : a.validateTraceLength n = .ok ()) :
    a.apply n = .ok (a.values.zipIdx.map (fun (v, i) => (a.first + a.stride * i, v))) := by
  have h0 : a.stride ≠ 0 := by
    rcases hw with ⟨_, h⟩ | ⟨_, h, _⟩ <;> omega
  unfold Assertion.apply
  rw [hv]
  have hs : a.isSingle = false := by unfold Assertion.isSingle; simpa using h0
  have hp : a.isPeriodic = false := by
    unfold Assertion.isPeriodic
    have : a.values.length ≠ 1 := by omega
    simp [this]
  simp [hs, hp]

theorem numSteps_eq_stepList_length (a : Assertion F) (n : ℕ) : numSteps a n = (a.stepList n).length := by
  rw [stepList_length]
  unfold numSteps Assertion.isSingle Assertion.isPeriodic
  by_cases h0 : a.stride = 0
  · simp [h0]
  · by_cases h1 : a.values.length = 1 <;> simp [h0, h1]

theorem interpolate_length {vs p : List F} (h : interpolate (O) vs = some p) : p.length = vs.length := by
  unfold interpolate at h
  dsimp only at h
  split at h
  · simp only [Option.some.injEq] at h
    rw [← h]; simp
  · cases h

theorem BConstraint_new_poly_length {a : Assertion F} {invG : F} {c : BConstraint F}
    (h : BConstraint.new (O) a invG = some c) : c.poly.length = a.values.length := by
  unfold BConstraint.new at h
  split at h
  · split at h
    · cases h
    · rename_i poly hp
      have := interpolate_length root hp
      split at h <;> (cases h; exact this)
  · cases h; rfl

theorem values_length_le {a : Assertion F} {n : ℕ} (hn : 0 < n) (hw : WF a)
    (hv : a.validateTraceLength n = .ok ()) : a.values.length ≤ n := by
  obtain ⟨_, hf⟩ := (validateTraceLength_ok_iff a n).mp hv
  unfold FitsLen at hf
  rcases hw with ⟨_, h⟩ | ⟨_, h2, _, h | ⟨h, _⟩⟩
  · omega
  · omega
  · rw [if_neg (by omega), if_neg (by omega)] at hf
    rw [← hf]
    exact Nat.le_mul_of_pos_right _ (by omega)

/-- **what validity gives for one boundary constraint**: the numerator `t_col − b` vanishes at the
    `k = numSteps` points `g^(first + S·j)`, `n = S·k`, which are the roots of the divisor
    `X^k − g^(k·first)` (`assertPoly_dvd`); the value polynomial has at most `n` coefficients -/
theorem mkBC_facts {g : F} {n : ℕ} (hn : 0 < n) (hg : IsPrimitiveRoot g n) {a : Assertion F} {bc : BC F}
    (hmk : mkBC (O) g⁻¹ a = some bc) (hw : WF a) (hv : a.validateTraceLength n = .ok ())
    (hseq : 2 ≤ a.values.length → root (Nat.log2 a.values.length) = some (g ^ a.stride))
    (polys : ℕ → List F) (hh : AssertionHolds root g n polys a) :
    bc.a = a ∧ bc.c.poly.length ≤ n ∧ ∃ S, n = S * numSteps a n ∧
      ∀ j < numSteps a n, bc.c.evalAt (O) (g ^ (a.first + S * j))
        (polyEval (O) (polys bc.c.column) (g ^ (a.first + S * j))) = 0 := by
  obtain ⟨hfac, _⟩ := steps_factor hw hv hn
  have hk := numSteps_eq_stepList_length a n
  unfold mkBC at hmk
  simp only [Option.map_eq_some_iff] at hmk
  obtain ⟨c, hc, rfl⟩ := hmk
  refine ⟨rfl, ?_, (if a.stride = 0 then n else a.stride), by rw [hk]; exact hfac, ?_⟩
  · show c.poly.length ≤ n
    rw [BConstraint_new_poly_length root hc]
    exact values_length_le hn hw hv
  show ∀ j < numSteps a n, c.evalAt (O) _ (polyEval (O) (polys c.column) _) = 0
  by_cases h1 : a.values.length = 1
  · obtain ⟨v, hvals⟩ := List.length_eq_one_iff.mp h1
    obtain ⟨c', hc', hcol, hval⟩ := WinterProofs.C16.boundary_value_const (root := root) (invG := g⁻¹) hvals
    rw [hc] at hc'
    cases hc'
    intro j hj
    rw [(hval _ _).2, hcol, sub_eq_zero]
    have hmem : a.first + (if a.stride = 0 then n else a.stride) * j ∈ a.stepList n := by
      rw [stepList_eq_map]
      by_cases h0 : a.stride = 0
      · have : (a.stepList n).length = 1 := by rw [stepList_length, if_pos h0]
        have hj0 : j = 0 := by omega
        simp [h0, hj0]
      · simp only [if_neg h0, List.mem_map, List.mem_range]
        exact ⟨j, by omega, rfl⟩
    exact hh _ (apply_const hvals hv) (_, v) (List.mem_map.mpr ⟨_, hmem, rfl⟩)
  · have h2 : 2 ≤ a.values.length := by
      rcases hw with ⟨_, h⟩ | ⟨_, _, _, h | ⟨h, _⟩⟩ <;> omega
    have h0 : a.stride ≠ 0 := by
      rcases hw with ⟨_, h⟩ | ⟨_, h, _⟩ <;> omega
    obtain ⟨c', hc', hcol, hval⟩ := WinterProofs.C16.boundary_value_sequence_full (root := root) hg hn hw hv h2 (hseq h2)
    rw [hc] at hc'
    cases hc'
    have hkk : numSteps a n = a.values.length := by
      rw [hk, stepList_length, if_neg h0, if_neg h1]
    intro j hj
    rw [hkk] at hj
    rw [if_neg h0, (hval j hj _).2, hcol, sub_eq_zero]
    have hmem : (a.first + a.stride * j, a.values[j]) ∈
        a.values.zipIdx.map (fun (v, i) => (a.first + a.stride * i, v)) :=
      List.mem_map.mpr ⟨(a.values[j], j), List.mem_zipIdx_iff_getElem?.mpr (by simp [hj]), rfl⟩
    exact hh _ (apply_seq hw h2 hv) _ hmem

end

end WinterProofs.C17L
