-- C17, polynomial side: coefficient lists as Mathlib polynomials, the specification of
-- `interpolate_poly_with_offset` for the model's inverse DFT, uniqueness on the evaluation coset.
import Mathlib.LinearAlgebra.Lagrange
import WinterProofs.Lemmas.C17Prover

namespace WinterProofs.C17L
open Model.Divisor Model.Composition WinterProofs.C16L Polynomial

variable {F : Type} [Field F]

section
variable (root : ℕ → Option F)
local notation "O" => fieldOps F root

/-- the polynomial of a coefficient list -/
noncomputable def listPoly (c : List F) : F[X] := ∑ k ∈ Finset.range c.length, C (c.getD k 0) * X ^ k

theorem listPoly_eval (c : List F) (x : F) : (listPoly c).eval x = polyEval (O) c x := by
  rw [polyEval_eq_sum, listPoly, eval_finsetSum]
  simp

theorem listPoly_coeff (c : List F) (m : ℕ) : (listPoly c).coeff m = c.getD m 0 := by
  rw [listPoly, finsetSum_coeff]
  simp only [coeff_C_mul, coeff_X_pow, mul_ite, mul_one, mul_zero]
  by_cases h : m < c.length
  · rw [Finset.sum_ite_eq (Finset.range c.length) m, if_pos (Finset.mem_range.mpr h)]
  · rw [Finset.sum_ite_eq (Finset.range c.length) m, if_neg (by simpa using h)]
    rw [List.getD_eq_getElem?_getD, List.getElem?_eq_none (by omega)]; rfl

theorem listPoly_degree_lt (c : List F) : (listPoly c).degree < c.length := by
  rw [degree_lt_iff_coeff_zero]
  intro m hm
  rw [listPoly_coeff, List.getD_eq_getElem?_getD, List.getElem?_eq_none hm]; rfl

/-- specification of `interpolate_poly_with_offset` proved for the model's inverse DFT: the result
    has as many coefficients as there are evaluations and takes the value `evals[i]` at `offset·w^i` -/
theorem interpolateWithOffset_spec {w offset : F} {evals c : List F} (hm : 0 < evals.length)
    (hw : IsPrimitiveRoot w evals.length) (hroot : root (Nat.log2 evals.length) = some w) (ho : offset ≠ 0)
    (h : interpolateWithOffset (O) evals offset = some c) :
    c.length = evals.length ∧ ∀ i (hi : i < evals.length), polyEval (O) c (w ^ i * offset) = evals[i] := by
  unfold interpolateWithOffset at h
  obtain ⟨p, hp⟩ := interpolate_isSome (root := root) (vs := evals) hroot
  rw [hp] at h
  simp only [bind, Option.bind_some] at h
  have hd : (O).div (O).one offset = some (1 / offset) := rfl
  rw [hd] at h
  simp only [Option.bind_some, pure, Option.some.injEq] at h
  obtain ⟨hlen, hval⟩ := interpolate_inverts hm hw hroot p hp
  subst h
  refine ⟨by simp [hlen], fun i hi => ?_⟩
  rw [← hval i hi, polyEval_eq_sum, polyEval_eq_sum]
  simp only [List.length_map, List.length_zipIdx]
  apply Finset.sum_congr rfl
  intro k hk
  have hk' : k < p.length := Finset.mem_range.mp hk
  rw [List.getD_eq_getElem?_getD, List.getD_eq_getElem?_getD, List.getElem?_map, List.getElem?_zipIdx,
    List.getElem?_eq_getElem hk']
  simp only [Option.map_some, Option.getD_some, Nat.zero_add]
  show p[k] * (1 / offset) ^ k * (w ^ i * offset) ^ k = p[k] * (w ^ i) ^ k
  rw [mul_pow, one_div, inv_pow]
  field_simp

theorem polyEval_take_of_zero (c : List F) (j : ℕ) (x : F) (hz : ∀ m, j ≤ m → c.getD m 0 = 0) :
    polyEval (O) (c.take j) x = polyEval (O) c x := by
  rw [polyEval_take_drop root c j x]
  have : polyEval (O) (c.drop j) x = 0 := by
    rw [polyEval_eq_sum]
    apply Finset.sum_eq_zero
    intro i _
    have := hz (j + i) (by omega)
    rw [List.getD_eq_getElem?_getD] at this ⊢
    rw [List.getElem?_drop, this, zero_mul]
  rw [this, mul_zero, add_zero]

/-- two polynomials of degree below `m` that agree on the `m` points `w^i·offset` are equal -/
theorem eq_of_eval_coset {w offset : F} {m : ℕ} (hw : IsPrimitiveRoot w m) (ho : offset ≠ 0)
    (f g : F[X]) (hf : f.degree < m) (hg : g.degree < m)
    (h : ∀ i < m, f.eval (w ^ i * offset) = g.eval (w ^ i * offset)) : f = g := by
  classical
  set s : Finset F := (Finset.range m).image (fun i => w ^ i * offset) with hs
  have hinj : Set.InjOn (fun i => w ^ i * offset) (Finset.range m : Set ℕ) := by
    intro i hi j hj hij
    have hi' : i < m := Finset.mem_range.mp (by exact_mod_cast hi)
    have hj' : j < m := Finset.mem_range.mp (by exact_mod_cast hj)
    exact hw.pow_inj hi' hj' (mul_right_cancel₀ ho hij)
  have hcard : s.card = m := by rw [hs, Finset.card_image_of_injOn hinj, Finset.card_range]
  apply Polynomial.eq_of_degrees_lt_of_eval_finset_eq s
  · rw [hcard]; exact hf
  · rw [hcard]; exact hg
  · intro x hx
    obtain ⟨i, hi, rfl⟩ := Finset.mem_image.mp hx
    exact h i (Finset.mem_range.mp hi)
end

end WinterProofs.C17L
