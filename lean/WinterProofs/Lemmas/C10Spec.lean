-- C10: the clean recursive specification of batch openings (`specRoot`) and its theorems
import WinterProofs.Lemmas.C10Bind

namespace WinterProofs.C10
open Model.Merkle

variable {D : Type}

/-- One level of the specification.  The frontier is a list of (heap position, digest) pairs;
    a position whose sibling follows it in the frontier is paired with it, otherwise the next
    proof node is consumed as its sibling. -/
def specLevel (H : Hasher D) : List (Nat × D) → List D → Option (List (Nat × D) × List D)
  | [], ns => some ([], ns)
  | [(k, a)], ns =>
    match ns with
    | [] => none
    | s :: ns' => some ([(k / 2, par H k a s)], ns')
  | (k, a) :: (k', b) :: rest, ns =>
    if k' = xor1 k then
      match specLevel H rest ns with
      | none => none
      | some (F, ns') => some ((k / 2, par H k a b) :: F, ns')
    else
      match ns with
      | [] => none
      | s :: ns' =>
        match specLevel H ((k', b) :: rest) ns' with
        | none => none
        | some (F, ns'') => some ((k / 2, par H k a s) :: F, ns'')

/-- The specification of `get_root`: `l` levels from the frontier to the root; at the end the
    frontier is the root alone and every proof node has been consumed. -/
def specRoot (H : Hasher D) : Nat → List (Nat × D) → List D → Option D
  | 0, F, ns =>
    match F, ns with
    | [(1, r)], [] => some r
    | _, _ => none
  | l + 1, F, ns =>
    match specLevel H F ns with
    | none => none
    | some (F', ns') => specRoot H l F' ns'

/-- the frontier of an opening: the claimed leaves at their heap positions, sorted -/
def leafFrontier (d : Nat) : List Nat → List D → SMap D → SMap D
  | i :: is, l :: ls, m => leafFrontier d is ls (SMap.insert m (2 ^ d + i) l)
  | _, _, m => m

/-- the proof nodes of one level of the specification's prover, and the next positions -/
def specSibs (val : Nat → D) : List Nat → List D
  | [] => []
  | [k] => [val (xor1 k)]
  | k :: k' :: rest => if k' = xor1 k then specSibs val rest else val (xor1 k) :: specSibs val (k' :: rest)

/-- the proof nodes of the specification's prover, level by level -/
def specNodes (val : Nat → D) : Nat → List Nat → List D
  | 0, _ => []
  | l + 1, K => specSibs val K ++ specNodes val l (parents K)

-- ---------------------------------------------------------------------------------------------
theorem specSibs_single (val : Nat → D) (k : Nat) (rest : List Nat) (hn : NotMerged k rest) :
    specSibs val (k :: rest) = val (xor1 k) :: specSibs val rest := by
  cases rest with
  | nil => rfl
  | cons k' rest' => simp [specSibs, hn k' rest' rfl]

theorem specSibs_merged (val : Nat → D) (k : Nat) (rest : List Nat) :
    specSibs val (k :: xor1 k :: rest) = specSibs val rest := by simp [specSibs]

theorem specLevel_single (H : Hasher D) (k : Nat) (a : D) (rest : List (Nat × D))
    (hn : NotMerged k (rest.map Prod.fst)) (s : D) (ns : List D) :
    specLevel H ((k, a) :: rest) (s :: ns) =
      match specLevel H rest ns with
      | none => none
      | some (F, ns') => some ((k / 2, par H k a s) :: F, ns') := by
  cases rest with
  | nil => simp [specLevel]
  | cons p rest' =>
    obtain ⟨k', b⟩ := p
    have : k' ≠ xor1 k := hn k' (rest'.map Prod.fst) rfl
    simp [specLevel, this]

theorem specLevel_single_nil (H : Hasher D) (k : Nat) (a : D) (rest : List (Nat × D))
    (hn : NotMerged k (rest.map Prod.fst)) : specLevel H ((k, a) :: rest) [] = none := by
  cases rest with
  | nil => simp [specLevel]
  | cons p rest' =>
    obtain ⟨k', b⟩ := p
    have : k' ≠ xor1 k := hn k' (rest'.map Prod.fst) rfl
    simp [specLevel, this]

theorem specLevel_merged (H : Hasher D) (k : Nat) (a b : D) (rest : List (Nat × D)) (ns : List D) :
    specLevel H ((k, a) :: (xor1 k, b) :: rest) ns =
      match specLevel H rest ns with
      | none => none
      | some (F, ns') => some ((k / 2, par H k a b) :: F, ns') := by
  simp [specLevel]

/-- completeness of one level: on the true values the specification's proof nodes lead to the true
    values of the parents and are consumed exactly -/
theorem specLevel_complete (H : Hasher D) (val : Nat → D) : ∀ (K : List Nat) (ns : List D),
    (∀ k ∈ K, par H k (val k) (val (xor1 k)) = val (k / 2)) →
    specLevel H (K.map (fun k => (k, val k))) (specSibs val K ++ ns) =
      some ((parents K).map (fun k => (k, val k)), ns) := by
  intro K
  induction K using level_induction with
  | nil => intro ns _; simp [specLevel, specSibs, parents]
  | single k rest hn ih =>
    intro ns hp
    have hn' : NotMerged k ((rest.map (fun k => (k, val k))).map Prod.fst) := by
      simpa [List.map_map, Function.comp_def] using hn
    rw [specSibs_single val k rest hn, List.map_cons, List.cons_append, specLevel_single H k _ _ hn',
      ih ns (fun x hx => hp x (List.mem_cons_of_mem _ hx)), parents_single k rest hn,
      hp k (List.mem_cons_self ..)]
    rfl
  | merged k rest ih =>
    intro ns hp
    have hx := hp (xor1 k) (List.mem_cons_of_mem _ (List.mem_cons_self ..))
    rw [specSibs_merged, List.map_cons, List.map_cons, specLevel_merged,
      ih ns (fun x hx => hp x (List.mem_cons_of_mem _ (List.mem_cons_of_mem _ hx))), parents_merged,
      hp k (List.mem_cons_self ..)]
    rfl

/-- Completeness of the specification: from the true values of a non-empty ascending frontier at
    level `l` of a Merkle tree, with the specification's own proof nodes, `specRoot` is the root. -/
theorem spec_complete_levels (H : Hasher D) (val : Nat → D) (d : Nat) (wf : ValWF H val d) : ∀ (l : Nat) (K : List Nat),
    Asc K → K ≠ [] → (∀ k ∈ K, 2 ^ l ≤ k ∧ k < 2 ^ (l + 1)) → l ≤ d →
    specRoot H l (K.map (fun k => (k, val k))) (specNodes val l K) = some (val 1)
  | 0, K, hasc, hne, hr, _ => by
    match K, hne, hasc, hr with
    | [k], _, _, hr =>
      have := hr k (List.mem_cons_self ..)
      have hk : k = 1 := by simp at this; omega
      subst hk; simp [specRoot, specNodes]
    | k :: k' :: rest, _, hasc, hr =>
      have h1 := hr k (List.mem_cons_self ..)
      have h2 := hr k' (List.mem_cons_of_mem _ (List.mem_cons_self ..))
      have := hasc.1
      simp at h1 h2; omega
  | l + 1, K, hasc, hne, hr, hl => by
    have hp := two_pow_succ' l
    have hp' := two_pow_succ' (l + 1)
    have hpd : 2 ^ (l + 1) ≤ 2 ^ d := Nat.pow_le_pow_right (by omega) hl
    have hpd' := two_pow_succ' d
    have hpos := Nat.two_pow_pos l
    obtain ⟨p1, p2, _, _, p5⟩ := parents_spec K hasc
    simp only [specRoot, specNodes]
    rw [specLevel_complete H val K _ (fun k hk => by
      have := hr k hk
      exact par_val H val d wf k (by omega) (by omega))]
    exact spec_complete_levels H val d wf l (parents K) p1 (p5 hne) (by
      intro k1 hk1
      obtain ⟨k, hk, rfl⟩ := p2 k1 hk1
      have := hr k hk
      omega) (by omega)

theorem par_swap (H : Hasher D) (k : Nat) (a b : D) : par H (xor1 k) b a = par H k a b := by
  unfold par
  by_cases h : k % 2 = 0
  · have : xor1 k % 2 = 1 := by rw [xor1_even h]; omega
    simp [h, this]
  · have : xor1 k % 2 = 0 := by rw [xor1_odd (by omega)]; omega
    simp [h, this]

/-- what a successful level of the specification computes -/
theorem specLevel_ok (H : Hasher D) : ∀ (n : Nat) (F : List (Nat × D)) (ns : List D) (F' : List (Nat × D)) (ns' : List D),
    F.length ≤ n → specLevel H F ns = some (F', ns') →
    (∀ p ∈ F, ∃ s, (p.1 / 2, par H p.1 p.2 s) ∈ F') ∧ (∀ q ∈ F', ∃ p ∈ F, q.1 = p.1 / 2)
  | _, [], ns, F', ns', _, h => by
    simp only [specLevel] at h
    injection h with h; injection h with h1 h2; subst h1
    exact ⟨fun p hp => (by cases hp), fun q hq => (by cases hq)⟩
  | n + 1, [(k, a)], ns, F', ns', _, h => by
    cases ns with
    | nil => simp [specLevel] at h
    | cons s ns2 =>
      simp only [specLevel] at h
      injection h with h; injection h with h1 h2; subst h1
      refine ⟨?_, ?_⟩
      · intro p hp
        simp only [List.mem_singleton] at hp; subst hp
        exact ⟨s, List.mem_cons_self ..⟩
      · intro q hq
        simp only [List.mem_singleton] at hq; subst hq
        exact ⟨(k, a), List.mem_cons_self .., rfl⟩
  | n + 1, (k, a) :: (k', b) :: rest, ns, F', ns', hl, h => by
    simp only [specLevel] at h
    by_cases hm : k' = xor1 k
    · rw [if_pos hm] at h
      cases hr : specLevel H rest ns with
      | none => rw [hr] at h; cases h
      | some r =>
        obtain ⟨F2, ns2⟩ := r
        rw [hr] at h
        injection h with h; injection h with h1 h2; subst h1
        obtain ⟨ih1, ih2⟩ := specLevel_ok H n rest ns F2 ns2 (by simp at hl; omega) hr
        refine ⟨?_, ?_⟩
        · intro p hp
          rcases List.mem_cons.1 hp with rfl | hp
          · exact ⟨b, List.mem_cons_self ..⟩
          · rcases List.mem_cons.1 hp with rfl | hp
            · refine ⟨a, ?_⟩
              simp only [hm, xor1_div, par_swap]
              exact List.mem_cons_self ..
            · obtain ⟨s, hs⟩ := ih1 p hp
              exact ⟨s, List.mem_cons_of_mem _ hs⟩
        · intro q hq
          rcases List.mem_cons.1 hq with rfl | hq
          · exact ⟨(k, a), List.mem_cons_self .., rfl⟩
          · obtain ⟨p, hp, he⟩ := ih2 q hq
            exact ⟨p, List.mem_cons_of_mem _ (List.mem_cons_of_mem _ hp), he⟩
    · rw [if_neg hm] at h
      cases ns with
      | nil => cases h
      | cons s ns2 =>
        simp only at h
        cases hr : specLevel H ((k', b) :: rest) ns2 with
        | none => rw [hr] at h; cases h
        | some r =>
          obtain ⟨F2, ns3⟩ := r
          rw [hr] at h
          injection h with h; injection h with h1 h2; subst h1
          obtain ⟨ih1, ih2⟩ := specLevel_ok H n ((k', b) :: rest) ns2 F2 ns3 (by simp at hl ⊢; omega) hr
          refine ⟨?_, ?_⟩
          · intro p hp
            rcases List.mem_cons.1 hp with rfl | hp
            · exact ⟨s, List.mem_cons_self ..⟩
            · obtain ⟨s', hs⟩ := ih1 p hp
              exact ⟨s', List.mem_cons_of_mem _ hs⟩
          · intro q hq
            rcases List.mem_cons.1 hq with rfl | hq
            · exact ⟨(k, a), List.mem_cons_self .., rfl⟩
            · obtain ⟨p, hp, he⟩ := ih2 q hq
              exact ⟨p, List.mem_cons_of_mem _ hp, he⟩

/-- Binding of the specification: if `merge` is collision free and `specRoot` computes the root of
    a Merkle tree from a frontier at level `l`, whatever the proof nodes, every digest of the
    frontier is the tree's node at its position. -/
theorem spec_binding_levels (H : Hasher D) (inj : MergeInj H) (val : Nat → D) (d : Nat) (wf : ValWF H val d) :
    ∀ (l : Nat) (F : List (Nat × D)) (ns : List D), (∀ p ∈ F, 2 ^ l ≤ p.1 ∧ p.1 < 2 ^ (l + 1)) → l ≤ d →
    specRoot H l F ns = some (val 1) → ∀ p ∈ F, p.2 = val p.1
  | 0, F, ns, hr, _, h => by
    simp only [specRoot] at h
    split at h
    · rename_i r
      injection h with h; subst h
      intro p hp
      simp only [List.mem_singleton] at hp; subst hp; rfl
    · cases h
  | l + 1, F, ns, hr, hl, h => by
    simp only [specRoot] at h
    cases hs : specLevel H F ns with
    | none => rw [hs] at h; cases h
    | some r =>
      obtain ⟨F', ns'⟩ := r
      rw [hs] at h
      have hp2 := two_pow_succ' l
      have hp2' := two_pow_succ' (l + 1)
      have hpd : 2 ^ (l + 1 + 1) ≤ 2 ^ (d + 1) := Nat.pow_le_pow_right (by omega) (by omega)
      have hpos := Nat.two_pow_pos l
      obtain ⟨ok1, ok2⟩ := specLevel_ok H F.length F ns F' ns' (Nat.le_refl _) hs
      have ih := spec_binding_levels H inj val d wf l F' ns' (by
        intro q hq
        obtain ⟨p, hp, he⟩ := ok2 q hq
        have := hr p hp
        omega) (by omega) h
      intro p hp
      obtain ⟨s, hs'⟩ := ok1 p hp
      have hrp := hr p hp
      exact par_inj H inj val d wf p.1 (by omega) (by omega) p.2 s (ih _ hs')

end WinterProofs.C10

namespace WinterProofs.C10
open Model.Merkle

variable {D : Type}

theorem SMap.mem_of_get {α : Type} (m : SMap α) (k : Nat) (a : α) (h : SMap.get m k = some a) : (k, a) ∈ m := by
  induction m with
  | nil => simp [SMap.get] at h
  | cons p t ih =>
    obtain ⟨k', a'⟩ := p
    simp only [SMap.get] at h
    split at h
    · rename_i hk; injection h with h; subst hk; subst h; exact List.mem_cons_self ..
    · exact List.mem_cons_of_mem _ (ih h)

theorem SMap.mem_insert {α : Type} (m : SMap α) (k : Nat) (a : α) (p : Nat × α) (h : p ∈ SMap.insert m k a) :
    p = (k, a) ∨ p ∈ m := by
  induction m with
  | nil => simp [SMap.insert] at h; exact Or.inl h
  | cons q t ih =>
    obtain ⟨k', a'⟩ := q
    unfold SMap.insert at h
    split at h
    · rcases List.mem_cons.1 h with h | h
      · exact Or.inl h
      · exact Or.inr h
    · split at h
      · rcases List.mem_cons.1 h with h | h
        · exact Or.inl h
        · exact Or.inr (List.mem_cons_of_mem _ h)
      · rcases List.mem_cons.1 h with h | h
        · exact Or.inr (h ▸ List.mem_cons_self ..)
        · rcases ih h with h | h
          · exact Or.inl h
          · exact Or.inr (List.mem_cons_of_mem _ h)

theorem leafFrontier_spec (d : Nat) : ∀ (is : List Nat) (ls : List D) (m : SMap D), Asc (SMap.keys m) →
    Asc (SMap.keys (leafFrontier d is ls m)) ∧
    (∀ p ∈ leafFrontier d is ls m, p ∈ m ∨ ∃ (j i : Nat) (l : D), is[j]? = some i ∧ ls[j]? = some l ∧ p = (2 ^ d + i, l)) ∧
    (∀ k a, SMap.get m k = some a → (∀ i ∈ is, k ≠ 2 ^ d + i) → SMap.get (leafFrontier d is ls m) k = some a) ∧
    (is.Nodup → ∀ (j i : Nat) (l : D), is[j]? = some i → ls[j]? = some l → SMap.get (leafFrontier d is ls m) (2 ^ d + i) = some l)
  | [], ls, m, h => by
    refine ⟨by simpa [leafFrontier] using h, fun p hp => Or.inl (by simpa [leafFrontier] using hp),
      fun k a hk _ => by simpa [leafFrontier] using hk, fun _ j i l hj _ => by simp at hj⟩
  | i0 :: is, [], m, h => by
    refine ⟨by simpa [leafFrontier] using h, fun p hp => Or.inl (by simpa [leafFrontier] using hp),
      fun k a hk _ => by simpa [leafFrontier] using hk, fun _ j i l _ hl => by simp at hl⟩
  | i0 :: is, l0 :: ls, m, h => by
    obtain ⟨ia, _⟩ := SMap.keys_insert_asc m (2 ^ d + i0) l0 h
    obtain ⟨r1, r2, r3, r4⟩ := leafFrontier_spec d is ls (SMap.insert m (2 ^ d + i0) l0) ia
    simp only [leafFrontier]
    refine ⟨r1, ?_, ?_, ?_⟩
    · intro p hp
      rcases r2 p hp with hp | ⟨j, i, l, h1, h2, h3⟩
      · rcases SMap.mem_insert _ _ _ _ hp with hp | hp
        · exact Or.inr ⟨0, i0, l0, rfl, rfl, hp⟩
        · exact Or.inl hp
      · exact Or.inr ⟨j + 1, i, l, by simpa using h1, by simpa using h2, h3⟩
    · intro k a hk hne
      apply r3 k a
      · rw [SMap.get_insert_ne _ _ _ _ (hne i0 (List.mem_cons_self ..))]; exact hk
      · intro i hi; exact hne i (List.mem_cons_of_mem _ hi)
    · intro hnd j i l hj hl
      have hnd' := List.nodup_cons.1 hnd
      cases j with
      | zero =>
        simp at hj hl; subst hj; subst hl
        apply r3 _ _ (SMap.get_insert_self _ _ _)
        intro i hi he
        have : i0 = i := by omega
        subst this; exact hnd'.1 hi
      | succ j => exact r4 hnd'.2 j i l (by simpa using hj) (by simpa using hl)

/-- all entries of a frontier that carries true values are `(k, val k)` -/
theorem map_tag_of_true (val : Nat → D) : ∀ (F : SMap D), (∀ p ∈ F, p.2 = val p.1) →
    F = (SMap.keys F).map (fun k => (k, val k))
  | [], _ => rfl
  | (k, a) :: t, h => by
    have h0 := h (k, a) (List.mem_cons_self ..)
    simp only at h0
    simp only [SMap.keys, List.map_cons, h0]
    congr 1
    exact map_tag_of_true val t (fun p hp => h p (List.mem_cons_of_mem _ hp))

theorem leafFrontier_acc_ne (d : Nat) : ∀ (is : List Nat) (ls : List D) (m : SMap D), m ≠ [] → leafFrontier d is ls m ≠ []
  | [], ls, m, hm => by simpa [leafFrontier] using hm
  | a :: t, [], m, hm => by simpa [leafFrontier] using hm
  | a :: t, b :: u, m, hm => by
    simp only [leafFrontier]
    apply leafFrontier_acc_ne d t u
    cases m with
    | nil => simp [SMap.insert]
    | cons q r => obtain ⟨k', a'⟩ := q; unfold SMap.insert; split <;> (try split) <;> simp

theorem leafFrontier_ne (d : Nat) (is : List Nat) (ls : List D) (h1 : is ≠ []) (h2 : is.length = ls.length) :
    leafFrontier d is ls [] ≠ [] := by
  match is, ls, h1, h2 with
  | i :: is, l :: ls, _, _ =>
    simp only [leafFrontier]
    exact leafFrontier_acc_ne d is ls _ (by simp [SMap.insert])

/-- Completeness of the specification for position lists: for every non-empty list of in-range
    positions, in any order, the frontier of the committed leaves and the specification's proof
    nodes give the root. -/
theorem spec_complete (H : Hasher D) (val : Nat → D) (d : Nat) (wf : ValWF H val d) (idxs : List Nat)
    (hne : idxs ≠ []) (hr : ∀ i ∈ idxs, i < 2 ^ d) :
    let F := leafFrontier d idxs (idxs.map (fun i => val (2 ^ d + i))) []
    specRoot H d F (specNodes val d (SMap.keys F)) = some (val 1) := by
  intro F
  obtain ⟨f1, f2, _, _⟩ := leafFrontier_spec d idxs (idxs.map (fun i => val (2 ^ d + i))) [] trivial
  have htrue : ∀ p ∈ F, p.2 = val p.1 ∧ 2 ^ d ≤ p.1 ∧ p.1 < 2 ^ (d + 1) := by
    intro p hp
    rcases f2 p hp with hp | ⟨j, i, l, h1, h2, h3⟩
    · cases hp
    · rw [List.getElem?_map, h1] at h2
      simp at h2
      have hi := hr i (List.mem_of_getElem? h1)
      have := two_pow_succ' d
      subst h3; subst h2
      exact ⟨rfl, by simp, by simp; omega⟩
  have hFne : SMap.keys F ≠ [] := by
    intro he
    have : F = [] := by
      cases hF : F with
      | nil => rfl
      | cons q r => rw [hF] at he; simp [SMap.keys] at he
    exact leafFrontier_ne d idxs _ hne (by simp) this
  rw [map_tag_of_true val F (fun p hp => (htrue p hp).1)]
  have hkeys : ∀ k ∈ SMap.keys F, 2 ^ d ≤ k ∧ k < 2 ^ (d + 1) := by
    intro k hk
    obtain ⟨p, hp, rfl⟩ := List.mem_map.1 hk
    exact (htrue p hp).2
  have := spec_complete_levels H val d wf d (SMap.keys F) f1 hFne hkeys (Nat.le_refl _)
  simpa [SMap.keys, List.map_map, Function.comp_def] using this

/-- Binding of the specification for position lists: if `merge` is collision free and `specRoot`
    computes the root from the frontier of the claimed leaves of a duplicate-free in-range
    position list, whatever the proof nodes, every claimed leaf is the committed one. -/
theorem spec_binding (H : Hasher D) (inj : MergeInj H) (val : Nat → D) (d : Nat) (wf : ValWF H val d)
    (idxs : List Nat) (leaves ns : List D) (hnd : idxs.Nodup) (hr : ∀ i ∈ idxs, i < 2 ^ d)
    (h : specRoot H d (leafFrontier d idxs leaves []) ns = some (val 1)) :
    ∀ (j i : Nat) (l : D), idxs[j]? = some i → leaves[j]? = some l → l = val (2 ^ d + i) := by
  obtain ⟨_, f2, _, f4⟩ := leafFrontier_spec d idxs leaves [] trivial
  have hrange : ∀ p ∈ leafFrontier d idxs leaves [], 2 ^ d ≤ p.1 ∧ p.1 < 2 ^ (d + 1) := by
    intro p hp
    rcases f2 p hp with hp | ⟨j, i, l, h1, h2, h3⟩
    · cases hp
    · have hi := hr i (List.mem_of_getElem? h1)
      have := two_pow_succ' d
      subst h3
      exact ⟨by simp, by simp; omega⟩
  have hb := spec_binding_levels H inj val d wf d _ ns hrange (Nat.le_refl _) h
  intro j i l hj hl
  have := SMap.mem_of_get _ _ _ (f4 hnd j i l hj hl)
  exact hb _ this

end WinterProofs.C10
