-- C13 helper lemmas for ARBITRARY sources (also ones that answer `Ok(0)` before their real end): until the
-- adapter first reports the end of the stream it behaves like the in-memory reader on the bytes the source
-- delivers before its first `Ok(0)`.
import Winter.Model.Reader
import WinterProofs.Lemmas.C13

namespace WinterProofs.C13
open Model.Reader

/-- the bytes a source delivers before its first `Ok(0)` read -/
def visible : List (List Nat) → List Nat
  | [] => []
  | c :: rest => if c = [] then [] else c ++ visible rest

theorem visible_of_fused : ∀ l : List (List Nat), Fused l → visible l = l.flatten
  | [], _ => rfl
  | c :: rest, h => by
    unfold visible
    by_cases hc : c = []
    · simp [hc, h.1 hc]
    · simp [hc, visible_of_fused rest h.2]

/-- abstraction for arbitrary sources: what the adapter holds plus what the source will deliver before
    its first `Ok(0)` -/
def absV (s : St) : List Nat := s.unread ++ s.rbuf ++ visible s.src

/-- no read of the source has returned `Ok(0)` so far (nothing is assumed about the source) -/
structure Live (s : St) : Prop where
  pos_le : s.pos ≤ s.buf.length
  noEof : s.eofSeen = false
  noGeof : s.geof = false

theorem live_new (chunks : List (List Nat)) (orc : List Bool) : Live (St.new chunks orc) :=
  ⟨by simp [St.new], rfl, rfl⟩

theorem absV_new (chunks : List (List Nat)) (orc : List Bool) : absV (St.new chunks orc) = visible chunks := by
  simp [St.new, absV, St.unread]

/-- `x` agrees with the in-memory reader's `y`: same result, and unless the result is `eof` (the end of the
    stream was reported) the new state is live and abstracts to what the in-memory reader has left -/
def AgreeV {α : Type} (x : Res α × St) (y : Res α × List Nat) : Prop :=
  x.1 = y.1 ∧ (x.1 ≠ .eof → absV x.2 = y.2 ∧ Live x.2)

theorem agreeV_andThen {α β : Type}
    {m : St → Res α × St} {m' : List Nat → Res α × List Nat}
    {f : α → St → Res β × St} {f' : α → List Nat → Res β × List Nat} {s : St} {l : List Nat}
    (hm : AgreeV (m s) (m' l))
    (hf : ∀ a s' l', Live s' → absV s' = l' → AgreeV (f a s') (f' a l')) :
    AgreeV (andThen m f s) (andThen m' f' l) := by
  obtain ⟨h1, h2⟩ := hm
  unfold andThen
  rcases hms : m s with ⟨r, s'⟩
  rcases hml : m' l with ⟨r', l'⟩
  rw [hms, hml] at h1
  rw [hms, hml] at h2
  simp only at h1 h2
  subst h1
  cases r with
  | ok a => exact hf a s' l' (h2 (by simp)).2 (h2 (by simp)).1
  | eof => exact ⟨rfl, fun h => absurd rfl h⟩
  | invalid => exact ⟨rfl, fun _ => h2 (by simp)⟩
  | panic => exact ⟨rfl, fun _ => h2 (by simp)⟩

theorem agreeV_ret {α : Type} (a : α) {s : St} {l : List Nat} (hi : Live s) (ha : absV s = l) :
    AgreeV (ret a s) (ret a l) := ⟨rfl, fun _ => ⟨ha, hi⟩⟩

-- ------------------------------------------------------------------------------------------ fill
theorem fill_live (s : St) (h : Live s) (hne : (St.fill s).rbuf ≠ []) :
    Live (St.fill s) ∧ absV (St.fill s) = absV s := by
  by_cases hre : s.rbuf.isEmpty = true
  · have hr : s.rbuf = [] := by simpa using hre
    unfold St.fill at hne ⊢
    simp only [hre, if_true] at hne ⊢
    split
    · rename_i hsrc
      simp [hsrc, hr] at hne
    · rename_i c rest hsrc
      simp only [hsrc] at hne
      have hc : c ≠ [] := hne
      refine ⟨⟨h.pos_le, by simp [h.noEof, hc], h.noGeof⟩, ?_⟩
      simp [absV, St.unread, hr, hsrc, visible, hc]
  · have hfs : St.fill s = s := by unfold St.fill; simp [hre]
    rw [hfs]
    exact ⟨h, rfl⟩

theorem fill_dead (s : St) (he : (St.fill s).rbuf = []) : absV s = s.unread := by
  by_cases hre : s.rbuf.isEmpty = true
  · have hr : s.rbuf = [] := by simpa using hre
    unfold St.fill at he
    simp only [hre, if_true] at he
    split at he
    · rename_i hsrc
      simp [absV, hr, hsrc, visible]
    · rename_i c rest hsrc
      have hc : c = [] := he
      simp [absV, hr, hsrc, visible, hc]
  · have hfs : St.fill s = s := by unfold St.fill; simp [hre]
    rw [hfs] at he
    simp [he] at hre

theorem fillMut_false_rbuf (s : St) (h : (St.fillMut s).1 = false) : (St.fill s).rbuf = [] := by
  unfold St.fillMut at h
  simp only at h
  by_cases hr : (St.fill s).rbuf.isEmpty = true
  · simpa using hr
  · simp [hr] at h

-- ------------------------------------------------------------------------------------------ required methods
theorem popV (s : St) (hs : Live s) : AgreeV (St.pop s) (Mem.readU8 (absV s)) := by
  unfold St.pop
  split
  · rename_i b t hu
    obtain ⟨hlt, hdrop⟩ := unread_cons hu
    have habs : absV s = b :: (t ++ s.rbuf ++ visible s.src) := by simp [absV, hu]
    rw [habs, mem_readU8_cons]
    refine ⟨rfl, fun _ => ⟨?_, ⟨hlt, hs.noEof, hs.noGeof⟩⟩⟩
    simp [absV, St.unread, hdrop]
  · rename_i hu
    have hfu : (St.fill s).unread = [] := by rw [fill_unread]; exact hu
    dsimp only
    split
    · rename_i b r hr
      obtain ⟨hl, ha⟩ := fill_live s hs (by simp [hr])
      have habs : absV s = b :: (r ++ visible (St.fill s).src) := by
        rw [← ha]; simp [absV, hfu, hr]
      rw [habs, mem_readU8_cons]
      refine ⟨rfl, fun _ => ⟨?_, ⟨hl.pos_le, hl.noEof, hl.noGeof⟩⟩⟩
      simp only [absV, St.unread] at hfu ⊢
      simp [hfu]
    · rename_i hr
      have habs : absV s = [] := by rw [fill_dead s hr]; exact hu
      rw [habs, mem_readU8_nil]
      exact ⟨rfl, fun h => absurd rfl h⟩

theorem peekU8V (s : St) (hs : Live s) : AgreeV (St.peekU8 s) (Mem.peekU8 (absV s)) := by
  unfold St.peekU8
  split
  · rename_i b t hu
    have habs : absV s = b :: (t ++ s.rbuf ++ visible s.src) := by simp [absV, hu]
    rw [habs, mem_peekU8_cons]
    exact ⟨rfl, fun _ => ⟨habs, hs⟩⟩
  · rename_i hu
    have hfu : (St.fill s).unread = [] := by rw [fill_unread]; exact hu
    dsimp only
    split
    · rename_i b r hr
      obtain ⟨hl, ha⟩ := fill_live s hs (by simp [hr])
      have habs : absV s = b :: (r ++ visible (St.fill s).src) := by
        rw [← ha]; simp [absV, hfu, hr]
      rw [habs, mem_peekU8_cons]
      exact ⟨rfl, fun _ => ⟨by rw [ha]; exact habs, hl⟩⟩
    · rename_i hr
      have habs : absV s = [] := by rw [fill_dead s hr]; exact hu
      rw [habs, mem_peekU8_nil]
      exact ⟨rfl, fun h => absurd rfl h⟩

/-- `has_more_bytes`: same answer; after `true` the state is live and nothing was consumed -/
theorem hasMoreV (s : St) (hs : Live s) :
    (St.hasMore s).1 = (Mem.hasMore (absV s)).1 ∧
      ((St.hasMore s).1 = true → absV (St.hasMore s).2 = absV s ∧ Live (St.hasMore s).2) := by
  unfold St.hasMore
  rw [mem_hasMore]
  split
  · rename_i hu
    have hu' : s.unread = [] := by simpa using hu
    by_cases hr : (St.fill s).rbuf = []
    · have habs : absV s = [] := by rw [fill_dead s hr]; exact hu'
      simp [hr, habs]
    · obtain ⟨hl, ha⟩ := fill_live s hs hr
      have habs : absV s ≠ [] := by
        rw [← ha]; simp [absV, hr]
      refine ⟨?_, fun _ => ⟨ha, hl⟩⟩
      simp only
      rw [Bool.eq_iff_iff]; simp [hr, habs]
  · rename_i hu
    have habs : absV s ≠ [] := by
      intro h0
      simp [absV] at h0
      simp [h0.1] at hu
    refine ⟨?_, fun _ => ⟨rfl, hs⟩⟩
    simp [habs]

/-- `check_eor`: `ok` (live, nothing consumed) or `eof` with fewer than `n` visible bytes left -/
theorem checkEorV (n : Nat) (s : St) (hs : Live s) :
    ((St.checkEor s n).1 = .ok () ∧ absV (St.checkEor s n).2 = absV s ∧ Live (St.checkEor s n).2) ∨
      ((St.checkEor s n).1 = .eof ∧ (absV s).length < n) := by
  unfold St.checkEor
  simp only
  split
  · exact Or.inl ⟨rfl, rfl, hs⟩
  · rename_i hlt
    split
    · rename_i hr
      have hr' : (St.fill s).rbuf = [] := by simpa using hr
      right
      refine ⟨rfl, ?_⟩
      rw [fill_dead s hr']
      omega
    · rename_i hr
      have hne : (St.fill s).rbuf ≠ [] := by simpa using hr
      obtain ⟨hl, ha⟩ := fill_live s hs hne
      split
      · exact Or.inl ⟨rfl, ha, hl⟩
      · split
        · rename_i hg
          rw [hl.noGeof] at hg
          cases hg
        · exact Or.inl ⟨rfl, ha, hl⟩

-- ------------------------------------------------------------------------------------------ buffer_at_least
theorem absorb_live (s1 : St) (h1 : Live s1) :
    let s2 : St := { s1 with buf := s1.buf ++ s1.rbuf, rbuf := [] }
    absV s2 = absV s1 ∧ Live s2 ∧ loopMeasure s2 = s1.src.length := by
  refine ⟨?_, ⟨?_, h1.noEof, h1.noGeof⟩, ?_⟩
  · simp [absV, St.unread, List.drop_append_of_le_length h1.pos_le]
  · simp; have := h1.pos_le; omega
  · simp [loopMeasure]

theorem bufferAtLeastF_live : ∀ (fuel : Nat) (s : St) (count : Nat), Live s → loopMeasure s < fuel →
    ((St.bufferAtLeastF fuel s count).1 = .ok () ∧ Live (St.bufferAtLeastF fuel s count).2 ∧
        absV (St.bufferAtLeastF fuel s count).2 = absV s ∧
        count ≤ (St.bufferAtLeastF fuel s count).2.unread.length) ∨
      ((St.bufferAtLeastF fuel s count).1 = .eof ∧ (absV s).length < count)
  | 0, s, count, _, hm => by omega
  | fuel + 1, s, count, hs, hm => by
    unfold St.bufferAtLeastF
    split
    · rename_i hge
      exact Or.inl ⟨rfl, hs, rfl, hge⟩
    · rename_i hlt
      simp only
      by_cases hr : (St.fillMut s).1 = true
      · obtain ⟨he, hne⟩ := fillMut_true s hr
        simp only [hr, if_true]
        rw [he]
        obtain ⟨hl, ha⟩ := fill_live s hs hne
        obtain ⟨a1, a2, a3⟩ := absorb_live (St.fill s) hl
        have hlt' := fill_src_lt s hne
        rcases bufferAtLeastF_live fuel _ count a2 (by omega) with ⟨b1, b2, b3, b4⟩ | ⟨b1, b2⟩
        · exact Or.inl ⟨b1, b2, by rw [b3, a1, ha], b4⟩
        · refine Or.inr ⟨b1, ?_⟩
          rw [a1, ha] at b2
          exact b2
      · have hr' : (St.fillMut s).1 = false := by simpa using hr
        have hd := fill_dead s (fillMut_false_rbuf s hr')
        simp only [hr']
        refine Or.inr ⟨rfl, ?_⟩
        rw [hd]; omega

theorem bufferAtLeast_live (s : St) (count : Nat) (hs : Live s) :
    ((St.bufferAtLeast s count).1 = .ok () ∧ Live (St.bufferAtLeast s count).2 ∧
        absV (St.bufferAtLeast s count).2 = absV s ∧ count ≤ (St.bufferAtLeast s count).2.unread.length) ∨
      ((St.bufferAtLeast s count).1 = .eof ∧ (absV s).length < count) := by
  unfold St.bufferAtLeast
  apply bufferAtLeastF_live _ _ _ hs
  unfold loopMeasure
  split <;> omega

theorem exactFromBufV (N : Nat) (s : St) (hs : Live s) :
    AgreeV (St.exactFromBuf s N) (Mem.readArray N (absV s)) := by
  have hb := bufferAtLeast_live s N hs
  rcases hbe : St.bufferAtLeast s N with ⟨r, s2⟩
  rw [hbe] at hb
  simp only at hb
  unfold St.exactFromBuf andThen
  rw [mem_readArray]
  simp only [hbe]
  rcases hb with ⟨hr, a2, a1, hlen⟩ | ⟨hr, hlen⟩
  · subst hr
    have hnl : ¬ s2.unread.length < N := by omega
    have habs : absV s = s2.unread ++ (s2.rbuf ++ visible s2.src) := by
      rw [← a1]; simp [absV]
    have hle : ¬ (absV s).length < N := by rw [habs]; simp; omega
    simp only [hnl, hle, if_false]
    have hul := unread_length s2
    have hpl := a2.pos_le
    refine ⟨?_, fun _ => ⟨?_, ⟨?_, a2.noEof, a2.noGeof⟩⟩⟩
    · simp only
      rw [habs, List.take_append_of_le_length hlen]
    · simp only
      rw [habs, List.drop_append_of_le_length hlen]
      simp [absV, St.unread, List.drop_drop]
    · simp only; omega
  · subst hr
    simp only [hlen, if_true]
    exact ⟨rfl, fun h => absurd rfl h⟩

theorem readSliceV (n : Nat) (s : St) (hs : Live s) :
    AgreeV (St.readSlice s n) (Mem.readSlice n (absV s)) := by
  unfold St.readSlice
  by_cases h0 : n = 0
  · subst h0
    simp only [if_true]
    rw [mem_readSlice]
    simp
    exact ⟨rfl, fun _ => ⟨rfl, hs⟩⟩
  · simp only [h0, if_false]
    have key : ∀ s1 : St, Live s1 → absV s1 = absV s →
        AgreeV (St.exactFromBuf s1 n) (Mem.readSlice n (absV s)) := by
      intro s1 h1 ha
      have := exactFromBufV n s1 h1
      rw [ha] at this
      exact this
    split
    · apply key
      · exact ⟨by simp, hs.noEof, hs.noGeof⟩
      · simp [absV, St.unread]
    · apply key
      · exact ⟨hs.pos_le, hs.noEof, hs.noGeof⟩
      · rfl

theorem resetIfDrained_live (s : St) (hs : Live s) :
    absV (St.resetIfDrained s) = absV s ∧ Live (St.resetIfDrained s) := by
  unfold St.resetIfDrained
  split
  · rename_i h
    have hu : s.unread = [] := by simpa using h.1
    refine ⟨?_, ⟨by simp, hs.noEof, hs.noGeof⟩⟩
    simp [absV, St.unread] at hu ⊢
    exact hu
  · exact ⟨rfl, hs⟩

theorem readExactV (N : Nat) (hN : N ≠ 0) (s : St) (hs : Live s) :
    AgreeV (St.readExact s N) (Mem.readArray N (absV s)) := by
  unfold St.readExact
  simp only
  have hul := unread_length s
  split
  · rename_i hn
    have hu : s.unread = [] := List.eq_nil_of_length_eq_zero hn
    by_cases hr : (St.fillMut s).1 = true
    · obtain ⟨he, hne⟩ := fillMut_true s hr
      simp only [hr, if_true]
      rw [he]
      obtain ⟨h1, ha⟩ := fill_live s hs hne
      split
      · have := exactFromBufV N (St.fill s) h1
        rw [ha] at this
        exact this
      · rename_i hlen
        have hlen' : N ≤ (St.fill s).rbuf.length := by omega
        have hfu : (St.fill s).unread = [] := by rw [fill_unread]; exact hu
        have habs : absV s = (St.fill s).rbuf ++ visible (St.fill s).src := by
          rw [← ha]; simp [absV, hfu]
        have hi2 : Live { St.fill s with rbuf := (St.fill s).rbuf.drop N } :=
          ⟨h1.pos_le, h1.noEof, h1.noGeof⟩
        obtain ⟨r1, r2⟩ := resetIfDrained_live _ hi2
        rw [mem_readArray]
        have hle : ¬ (absV s).length < N := by rw [habs]; simp; omega
        simp only [hle, if_false]
        refine ⟨?_, fun _ => ⟨?_, r2⟩⟩
        · simp only
          rw [habs, List.take_append_of_le_length hlen']
        · simp only
          rw [r1, habs, List.drop_append_of_le_length hlen']
          simp only [absV, St.unread] at hfu ⊢
          simp [hfu]
    · have hr' : (St.fillMut s).1 = false := by simpa using hr
      have hd := fill_dead s (fillMut_false_rbuf s hr')
      simp only [hr']
      rw [mem_readArray]
      have hlt : (absV s).length < N := by rw [hd, hu]; simp; omega
      simp only [hlt, if_true]
      exact ⟨rfl, fun h => absurd rfl h⟩
  · rename_i hn
    split
    · rename_i hge
      have habs : absV s = s.unread ++ (s.rbuf ++ visible s.src) := by simp [absV]
      have hi2 : Live { s with pos := s.pos + N } := by
        refine ⟨?_, hs.noEof, hs.noGeof⟩
        simp only; omega
      obtain ⟨r1, r2⟩ := resetIfDrained_live _ hi2
      rw [mem_readArray]
      have hle : ¬ (absV s).length < N := by rw [habs]; simp; omega
      simp only [hle, if_false]
      refine ⟨?_, fun _ => ⟨?_, r2⟩⟩
      · simp only
        rw [habs, List.take_append_of_le_length hge]
      · simp only
        rw [r1, habs, List.drop_append_of_le_length hge]
        simp [absV, St.unread, List.drop_drop]
    · rename_i hlt
      by_cases hr : (St.fillMut s).1 = true
      · obtain ⟨he, hne⟩ := fillMut_true s hr
        simp only [hr, if_true]
        rw [he]
        obtain ⟨h1, ha⟩ := fill_live s hs hne
        split
        · rename_i hmn
          have hfu : (St.fill s).unread = s.unread := fill_unread s
          have habs : absV s = s.unread ++ ((St.fill s).rbuf ++ visible (St.fill s).src) := by
            rw [← ha]; simp [absV, hfu]
          have hpos : (St.fill s).pos + s.unread.length = (St.fill s).buf.length := by
            rw [fill_pos, fill_buf]; have := hs.pos_le; omega
          have hi2 : Live { St.fill s with pos := (St.fill s).pos + s.unread.length,
                                           rbuf := (St.fill s).rbuf.drop (N - s.unread.length) } := by
            refine ⟨?_, h1.noEof, h1.noGeof⟩
            simp only; omega
          obtain ⟨r1, r2⟩ := resetIfDrained_live _ hi2
          rw [mem_readArray]
          have hle : ¬ (absV s).length < N := by rw [habs]; simp; omega
          simp only [hle, if_false]
          have hk : N - s.unread.length ≤ (St.fill s).rbuf.length := by omega
          have ht : s.unread.take N = s.unread := List.take_of_length_le (by omega)
          have hd : s.unread.drop N = [] := List.drop_eq_nil_of_le (by omega)
          refine ⟨?_, fun _ => ⟨?_, r2⟩⟩
          · simp only
            rw [habs, hfu, List.take_append, ht, List.take_append_of_le_length hk]
          · simp only
            rw [r1, habs, List.drop_append, hd, List.drop_append_of_le_length hk]
            simp [absV, St.unread]
            omega
        · have := exactFromBufV N (St.fill s) h1
          rw [ha] at this
          exact this
      · have hr' : (St.fillMut s).1 = false := by simpa using hr
        have hd := fill_dead s (fillMut_false_rbuf s hr')
        simp only [hr']
        rw [mem_readArray]
        have hlt' : (absV s).length < N := by rw [hd]; omega
        simp only [hlt', if_true]
        exact ⟨rfl, fun h => absurd rfl h⟩

theorem readArrayV (N : Nat) (s : St) (hs : Live s) :
    AgreeV (St.readArray s N) (Mem.readArray N (absV s)) := by
  unfold St.readArray
  by_cases h0 : N = 0
  · subst h0
    simp only [if_true]
    rw [mem_readArray]
    simp
    exact ⟨rfl, fun _ => ⟨rfl, hs⟩⟩
  · simp only [h0, if_false]
    exact readExactV N h0 s hs

-- ------------------------------------------------------------------------------------------ provided methods
theorem readBoolV (s : St) (hs : Live s) : AgreeV (readBool St.reader s) (readBool Mem (absV s)) := by
  unfold readBool
  refine agreeV_andThen (popV s hs) ?_
  intro b s' l' hi ha
  by_cases h0 : b = 0
  · simp only [h0, if_true]; exact ⟨rfl, fun _ => ⟨ha, hi⟩⟩
  · by_cases h1 : b = 1
    · simp only [h1, if_true]; exact ⟨rfl, fun _ => ⟨ha, hi⟩⟩
    · simp only [h0, h1, if_false]; exact ⟨rfl, fun _ => ⟨ha, hi⟩⟩

theorem readIntV (k : Nat) (s : St) (hs : Live s) : AgreeV (readInt St.reader k s) (readInt Mem k (absV s)) := by
  unfold readInt
  exact agreeV_andThen (readArrayV k s hs) (fun bs s' l' hi ha => agreeV_ret _ hi ha)

theorem readUsizeV (s : St) (hs : Live s) : AgreeV (readUsize St.reader s) (readUsize Mem (absV s)) := by
  unfold readUsize
  refine agreeV_andThen (peekU8V s hs) ?_
  intro first s1 l1 hi1 ha1
  by_cases h9 : tz8 first + 1 = 9
  · simp only [h9, if_true]
    refine agreeV_andThen (ha1 ▸ popV s1 hi1) ?_
    intro _ s2 l2 hi2 ha2
    exact agreeV_andThen (ha2 ▸ readArrayV 8 s2 hi2) (fun bs s' l' hi ha => agreeV_ret _ hi ha)
  · simp only [h9, if_false]
    exact agreeV_andThen (ha1 ▸ readSliceV _ s1 hi1) (fun bs s' l' hi ha => agreeV_ret _ hi ha)

theorem readStringV (n : Nat) (s : St) (hs : Live s) :
    AgreeV (readString St.reader n s) (readString Mem n (absV s)) := by
  unfold readString readVec
  refine agreeV_andThen (readSliceV n s hs) ?_
  intro bs s' l' hi ha
  by_cases hv : utf8Valid bs = true
  · simp only [hv, if_true]; exact ⟨rfl, fun _ => ⟨ha, hi⟩⟩
  · simp only [hv]; exact ⟨rfl, fun _ => ⟨ha, hi⟩⟩

theorem readElemV (e : Elem) (s : St) (hs : Live s) :
    AgreeV (readElem St.reader e s) (readElem Mem e (absV s)) := by
  cases e
  · exact popV s hs
  · exact readIntV 2 s hs
  · exact readIntV 4 s hs
  · exact readIntV 8 s hs
  · exact readIntV 16 s hs
  · exact readUsizeV s hs
  · exact agreeV_ret _ hs rfl
  · refine agreeV_andThen (readBoolV s hs) ?_
    intro b s1 l1 hi1 ha1
    cases b
    · exact agreeV_ret _ hi1 ha1
    · exact agreeV_andThen (ha1 ▸ popV s1 hi1) (fun v s' l' hi ha => agreeV_ret _ hi ha)
  · refine agreeV_andThen (popV s hs) ?_
    intro a s1 l1 hi1 ha1
    exact agreeV_andThen (ha1 ▸ readIntV 2 s1 hi1) (fun b s' l' hi ha => agreeV_ret _ hi ha)

theorem readManyV (e : Elem) : ∀ (n : Nat) (s : St), Live s →
    AgreeV (readMany St.reader e n s) (readMany Mem e n (absV s))
  | 0, s, hs => agreeV_ret _ hs rfl
  | k + 1, s, hs => by
    unfold readMany
    refine agreeV_andThen (readElemV e s hs) ?_
    intro v s1 l1 hi1 ha1
    refine agreeV_andThen (ha1 ▸ readManyV e k s1 hi1) ?_
    intro vs s2 l2 hi2 ha2
    exact agreeV_ret _ hi2 ha2

-- ------------------------------------------------------------------------------------------ calls and histories
/-- the call reported the end of the stream: `UnexpectedEOF`, or `has_more_bytes() = false` -/
def endReported (op : Op) (r : Res Val) : Prop :=
  r = .eof ∨ (op = .hasMore ∧ r = .ok (.bool false))

theorem liftV {op : Op} {α : Type} (f : α → Val)
    {x : Res α × St} {y : Res α × List Nat} (hxy : AgreeV x y) :
    ResOK op (x.1.val f) (y.1.val f) ∧
      (¬ endReported op (x.1.val f) → absV x.2 = y.2 ∧ Live x.2) := by
  refine ⟨Or.inl (by rw [hxy.1]), fun hne => hxy.2 ?_⟩
  intro he
  apply hne
  left
  rw [he]; rfl

/-- one call in a live state, on any source: the result is related to the in-memory reader's on the
    visible bytes, and unless the end of the stream was reported the new state is live and holds exactly
    what the in-memory reader has left -/
theorem stepV (op : Op) (s : St) (hs : Live s) :
    ResOK op (step St.reader op s).1 (step Mem op (absV s)).1 ∧
      (¬ endReported op (step St.reader op s).1 →
        absV (step St.reader op s).2 = (step Mem op (absV s)).2 ∧ Live (step St.reader op s).2) := by
  cases op with
  | readU8 => exact liftV _ (popV s hs)
  | peekU8 => exact liftV _ (peekU8V s hs)
  | readSlice n => exact liftV _ (readSliceV n s hs)
  | readArray n => exact liftV _ (readArrayV n s hs)
  | readBool => exact liftV _ (readBoolV s hs)
  | readU16 => exact liftV _ (readIntV 2 s hs)
  | readU32 => exact liftV _ (readIntV 4 s hs)
  | readU64 => exact liftV _ (readIntV 8 s hs)
  | readU128 => exact liftV _ (readIntV 16 s hs)
  | readUsize => exact liftV _ (readUsizeV s hs)
  | readVec n => exact liftV _ (readSliceV n s hs)
  | readString n => exact liftV _ (readStringV n s hs)
  | readMany e n => exact liftV _ (readManyV e n s hs)
  | hasMore =>
    obtain ⟨h1, h2⟩ := hasMoreV s hs
    have e1 : (step St.reader .hasMore s) = (.ok (.bool (St.hasMore s).1), (St.hasMore s).2) := rfl
    have e2 : (step Mem .hasMore (absV s)) = (.ok (.bool (Mem.hasMore (absV s)).1), (Mem.hasMore (absV s)).2) := rfl
    rw [e1, e2]
    refine ⟨Or.inl (by rw [h1]), fun hne => ?_⟩
    have ht : (St.hasMore s).1 = true := by
      cases hb : (St.hasMore s).1
      · exact absurd (Or.inr ⟨rfl, by simp [hb]⟩) hne
      · rfl
    obtain ⟨a, b⟩ := h2 ht
    exact ⟨by rw [a, mem_hasMore], b⟩
  | checkEor n =>
    have e1 : (step St.reader (.checkEor n) s) =
        ((St.checkEor s n).1.val (fun _ => Val.unit), (St.checkEor s n).2) := rfl
    rw [e1]
    simp only [step, mem_checkEor]
    rcases checkEorV n s hs with ⟨hr, ha, hl⟩ | ⟨hr, hlen⟩
    · rw [hr]
      refine ⟨?_, fun _ => ⟨?_, hl⟩⟩
      · by_cases hlen : (absV s).length < n
        · right; exact ⟨⟨n, rfl⟩, rfl, by simp [hlen, Res.val]⟩
        · left; simp [hlen, Res.val]
      · rw [ha]; by_cases hlen : (absV s).length < n <;> simp [hlen]
    · rw [hr]
      refine ⟨Or.inl (by simp [hlen, Res.val]), fun hne => absurd (Or.inl rfl) hne⟩

/-- result lists related position by position up to and including the first call that reports the end of
    the stream (nothing is claimed about later calls) -/
def AgreeUntilEnd : List Op → List (Res Val) → List (Res Val) → Prop
  | [], [], [] => True
  | op :: ops, a :: as, b :: bs => ResOK op a b ∧ (endReported op a ∨ AgreeUntilEnd ops as bs)
  | _, _, _ => False

theorem runV : ∀ (ops : List Op) (s : St), Live s →
    AgreeUntilEnd ops (run St.reader ops s).1 (run Mem ops (absV s)).1
  | [], s, hs => trivial
  | op :: ops, s, hs => by
    obtain ⟨h1, h2⟩ := stepV op s hs
    simp only [run]
    refine ⟨h1, ?_⟩
    by_cases he : endReported op (step St.reader op s).1
    · exact Or.inl he
    · obtain ⟨ha, hl⟩ := h2 he
      right
      have := runV ops _ hl
      rw [ha] at this
      exact this

end WinterProofs.C13
