-- C20 helper lemmas, part 3: synthetic division by x - b, by x^a - b, and by a list of roots.
import WinterProofs.Lemmas.C20Mul

namespace WinterProofs.C20
open Model.Poly Polynomial

variable {α β F : Type} [Field F]

section
variable {O : Ops α} {v : α → F}

-- ------------------------------------------------------------------ division by x - b

theorem length_synLoop (b : α) (l : List α) (c : α) : (synLoop O b l c).1.length = l.length := by
  induction l generalizing c with
  | nil => rfl
  | cons coeff rest ih => simp [synLoop, ih]

/-- the swap loop, run from the top coefficient with incoming carry `c` (the coefficient of `X^n`) -/
theorem synLoop_spec (L : Lawful O v) (b : α) (l : List α) (c : α) :
    toPoly v l.reverse + C (v c) * X ^ l.length =
      toPoly v (synLoop O b l c).1.reverse * (X - C (v b)) + C (v (synLoop O b l c).2) := by
  induction l generalizing c with
  | nil => simp [synLoop]
  | cons coeff rest ih =>
    have ih' := ih (O.add coeff (O.mul b c))
    simp only [synLoop, List.reverse_cons, toPoly_append, List.length_reverse, toPoly_cons,
      toPoly_nil, List.length_cons, length_synLoop] at ih' ⊢
    rw [L.add, L.mul] at ih'
    have e : toPoly v rest.reverse =
        toPoly v (synLoop O b rest (O.add coeff (O.mul b c))).1.reverse * (X - C (v b)) +
          C (v (synLoop O b rest (O.add coeff (O.mul b c))).2) -
          C (v coeff + v b * v c) * X ^ rest.length := by
      rw [← ih']; ring
    rw [e, pow_succ]
    simp only [C_add, C_mul]
    ring

theorem length_synDivLinear (p : List α) (b : α) : (synDivLinear O p b).1.length = p.length := by
  simp [synDivLinear, length_synLoop]

/-- division by `x - b`: quotient and discarded remainder -/
theorem synDivLinear_spec (L : Lawful O v) (p : List α) (b : α) :
    toPoly v p = toPoly v (synDivLinear O p b).1 * (X - C (v b)) + C (v (synDivLinear O p b).2) := by
  have := synLoop_spec L b p.reverse O.zero
  simpa [synDivLinear, L.zero] using this

/-- the top coefficient of the quotient slice is the initial carry `ZERO` -/
theorem synDivLinear_getLast (p : List α) (b : α) (hp : p ≠ []) :
    ∃ q, (synDivLinear O p b).1 = q ++ [O.zero] := by
  obtain ⟨c, rest, h⟩ : ∃ c rest, p.reverse = c :: rest := by
    cases h : p.reverse with
    | nil => simp at h; exact absurd h hp
    | cons c rest => exact ⟨c, rest, rfl⟩
  exact ⟨(synLoop O b rest (O.add c (O.mul b O.zero))).1.reverse, by simp [synDivLinear, h, synLoop]⟩

/-- the quotient slice denotes a polynomial of degree `< p.len() - 1` -/
theorem degree_synDivLinear_lt (L : Lawful O v) (p : List α) (b : α) (hp : p ≠ []) :
    (toPoly v (synDivLinear O p b).1).degree < (p.length - 1 : Nat) := by
  obtain ⟨q, hq⟩ := synDivLinear_getLast (O := O) p b hp
  have hl : q.length = p.length - 1 := by
    have := length_synDivLinear (O := O) p b
    rw [hq] at this; simp at this; omega
  rw [hq, toPoly_append]
  simp only [toPoly_cons, toPoly_nil, L.zero]
  simpa [hl] using toPoly_length_lt v q

theorem monic_X_sub_C' (c : F) : (X - C c : F[X]).Monic := monic_X_sub_C c

/-- the quotient slice is the Mathlib quotient by the monic `X - C b`, the discarded carry the remainder -/
theorem synDivLinear_eq_divByMonic (L : Lawful O v) (p : List α) (b : α) :
    toPoly v (synDivLinear O p b).1 = toPoly v p /ₘ (X - C (v b)) ∧
    C (v (synDivLinear O p b).2) = toPoly v p %ₘ (X - C (v b)) := by
  have h := synDivLinear_spec L p b
  have := div_modByMonic_unique (f := toPoly v p) (g := X - C (v b))
    (toPoly v (synDivLinear O p b).1) (C (v (synDivLinear O p b).2)) (monic_X_sub_C _)
    ⟨by rw [h]; ring, by
      rw [degree_X_sub_C]
      exact lt_of_le_of_lt degree_C_le (by norm_num)⟩
  exact ⟨this.1.symm, this.2.symm⟩

/-- the discarded carry is the value of the polynomial at `b` (remainder theorem) -/
theorem synDivLinear_rem (L : Lawful O v) (p : List α) (b : α) :
    v (synDivLinear O p b).2 = (toPoly v p).eval (v b) := by
  have h := congrArg (eval (v b)) (synDivLinear_spec L p b)
  simpa using h.symm


-- ------------------------------------------------------------------ division by x^a - b, a ≥ 2

/-- value added in one step of the general loop -/
theorem v_synTerm (L : Lawful O v) (b hi : α) :
    v (if O.isOne b then hi else O.mul hi b) = v hi * v b := by
  split
  · rename_i h; rw [(L.isOne b).1 h]; simp
  · exact L.mul _ _

/-- invariant of `for i in (0..t).rev() { p[i] += p[i + a] * b }` -/
theorem synGeneral_aux (L : Lawful O v) (a : Nat) (ha : 0 < a) (b : α) (P : F[X]) (t : Nat) (s : List α)
    (hlen : t + a ≤ s.length)
    (hinv : P = toPoly v s - C (v b) * X ^ t * toPoly v (s.drop (t + a))) :
    ∃ s', loopM (List.range t).reverse s (fun p i =>
        (getAt p (i + a)).bind fun hi =>
        updAt p i fun lo => O.add lo (if O.isOne b then hi else O.mul hi b)) = .ok s' ∧
      s'.length = s.length ∧ P = toPoly v s' - C (v b) * toPoly v (s'.drop a) := by
  induction t generalizing s with
  | zero => exact ⟨s, rfl, rfl, by simpa using hinv⟩
  | succ t ih =>
    have h1 : t + a < s.length := by omega
    have h2 : t < s.length := by omega
    rw [List.range_succ, List.reverse_append, List.reverse_singleton, List.singleton_append]
    have hbody : ((getAt s (t + a)).bind fun hi =>
        updAt s t fun lo => O.add lo (if O.isOne b then hi else O.mul hi b)) =
        .ok (s.set t (O.add s[t] (if O.isOne b then s[t + a] else O.mul s[t + a] b))) := by
      rw [getAt_ok s _ h1, bind_ok, updAt_ok s _ _ h2]
    rw [loopM_cons_ok (body := fun p i => (getAt p (i + a)).bind fun hi =>
        updAt p i fun lo => O.add lo (if O.isOne b then hi else O.mul hi b)) hbody]
    obtain ⟨s', e, l, p⟩ := ih (s.set t (O.add s[t] (if O.isOne b then s[t + a] else O.mul s[t + a] b)))
      (by simp; omega) (by
        rw [hinv, toPoly_set v s _ _ h2, L.add, v_synTerm L]
        have hd : (s.set t (O.add s[t] (if O.isOne b then s[t + a] else O.mul s[t + a] b))).drop (t + a)
            = s.drop (t + a) := by
          rw [List.drop_set_of_lt (by omega)]
        rw [hd]
        have hd2 : s.drop (t + a) = s[t + a] :: s.drop (t + 1 + a) := by
          have : t + 1 + a = t + a + 1 := by omega
          rw [this, List.drop_eq_getElem_cons h1]
        rw [hd2, toPoly_cons, pow_succ]
        simp only [C_mul, add_sub_cancel_left]
        ring)
    exact ⟨s', e, by simpa using l, p⟩

theorem synGeneralLoop_spec (L : Lawful O v) (p : List α) (a : Nat) (ha : 0 < a) (b : α)
    (hlen : a ≤ p.length) :
    ∃ s', synGeneralLoop O p a b = .ok s' ∧ s'.length = p.length ∧
      toPoly v p = toPoly v (s'.drop a) * (X ^ a - C (v b)) + toPoly v (s'.take a) := by
  obtain ⟨s', e, l, h⟩ := synGeneral_aux L a ha b (toPoly v p) (p.length - a) p (by omega)
    (by rw [List.drop_eq_nil_of_le (by omega)]; simp)
  refine ⟨s', e, l, ?_⟩
  have hs : toPoly v s' = toPoly v (s'.take a) + X ^ a * toPoly v (s'.drop a) := by
    conv_lhs => rw [← List.take_append_drop a s', toPoly_append]
    simp [List.length_take, l, hlen]
  rw [h, hs]; ring

-- ------------------------------------------------------------------ syn_div

/-- `syn_div` / `syn_div_in_place` under the documented preconditions: no panic, the result has the
    length of `p`, denotes the quotient of `p` by the monic `X^a - b`; `rem` is what the code discards -/
theorem synDiv_spec (L : Lawful O v) (p : List α) (a : Nat) (b : α)
    (ha : a ≠ 0) (hb : O.isZero b = false) (hp : a < p.length) :
    ∃ q rem, synDiv O p a b = .ok q ∧ q.length = p.length ∧ rem.length = a ∧
      toPoly v p = toPoly v q * (X ^ a - C (v b)) + toPoly v rem ∧
      (toPoly v q).degree < (p.length - a : Nat) := by
  have hp' : ¬ p.length ≤ a := by omega
  by_cases h1 : a = 1
  · subst h1
    refine ⟨(synDivLinear O p b).1, [(synDivLinear O p b).2], by simp [synDiv, hb, hp'],
      length_synDivLinear p b, rfl, ?_, degree_synDivLinear_lt L p b (by intro h; simp [h] at hp)⟩
    simpa using synDivLinear_spec L p b
  · obtain ⟨s', e, l, h⟩ := synGeneralLoop_spec L p a (by omega) b (by omega)
    have hq : toPoly v (s'.drop a ++ List.replicate (p.length - (p.length - a)) O.zero)
        = toPoly v (s'.drop a) := by
      rw [toPoly_append, toPoly_replicate_zero L]; simp
    refine ⟨s'.drop a ++ List.replicate (p.length - (p.length - a)) O.zero, s'.take a,
      by simp [synDiv, ha, hb, hp', h1, e], by simp [l], by simp [l]; omega, ?_, ?_⟩
    · rw [hq]; exact h
    · rw [hq]
      have := toPoly_length_lt v (s'.drop a)
      simpa [l] using this

/-- the documented panics of `syn_div`, and only those -/
theorem synDiv_panic_iff (L : Lawful O v) (p : List α) (a : Nat) (b : α) :
    (∃ s, synDiv O p a b = .panic s) ↔ (a = 0 ∨ O.isZero b = true ∨ p.length ≤ a) := by
  constructor
  · intro ⟨s, hs⟩
    by_contra hcon
    simp only [not_or] at hcon
    obtain ⟨q, rem, e, _⟩ := synDiv_spec L p a b hcon.1 (by simpa using hcon.2.1) (by omega)
    rw [e] at hs; cases hs
  · intro h
    unfold synDiv
    by_cases h0 : a = 0
    · exact ⟨"divisor degree cannot be zero", by simp [h0]⟩
    · by_cases hb : O.isZero b = true
      · exact ⟨"constant cannot be zero", by simp [h0, hb]⟩
      · have : p.length ≤ a := by tauto
        exact ⟨"divisor degree cannot be greater than dividend size", by simp [h0, hb, this]⟩

/-- the result of `syn_div` is the Mathlib quotient `p /ₘ (X^a - b)`, the discarded part is `p %ₘ …` -/
theorem synDiv_eq_divByMonic (L : Lawful O v) (p : List α) (a : Nat) (b : α)
    (ha : a ≠ 0) (hb : O.isZero b = false) (hp : a < p.length) :
    ∃ q, synDiv O p a b = .ok q ∧ toPoly v q = toPoly v p /ₘ (X ^ a - C (v b)) := by
  obtain ⟨q, rem, e, _, hr, h, _⟩ := synDiv_spec L p a b ha hb hp
  refine ⟨q, e, ?_⟩
  have hdeg : (toPoly v rem).degree < (X ^ a - C (v b) : F[X]).degree := by
    rw [degree_X_pow_sub_C (Nat.pos_of_ne_zero ha)]
    simpa [hr] using toPoly_length_lt v rem
  exact (div_modByMonic_unique (toPoly v q) (toPoly v rem) (monic_X_pow_sub_C _ ha)
    ⟨by rw [h]; ring, hdeg⟩).1.symm

/-- exactness: when `X^a - b` divides `p`, nothing is discarded -/
theorem synDiv_exact (L : Lawful O v) (p : List α) (a : Nat) (b : α)
    (ha : a ≠ 0) (hb : O.isZero b = false) (hp : a < p.length)
    (hdvd : (X ^ a - C (v b) : F[X]) ∣ toPoly v p) :
    ∃ q, synDiv O p a b = .ok q ∧ toPoly v p = toPoly v q * (X ^ a - C (v b)) := by
  obtain ⟨q, e, hq⟩ := synDiv_eq_divByMonic L p a b ha hb hp
  refine ⟨q, e, ?_⟩
  have hm := monic_X_pow_sub_C (v b) ha
  have h0 : toPoly v p %ₘ (X ^ a - C (v b)) = 0 := (modByMonic_eq_zero_iff_dvd hm).2 hdvd
  have := modByMonic_add_div (toPoly v p) (X ^ a - C (v b))
  rw [h0, zero_add] at this
  rw [hq, mul_comm]; exact this.symm


-- ------------------------------------------------------------------ division by a list of roots

/-- `∏ (X - r)` over a list of field elements -/
noncomputable def rootsPoly (l : List F) : F[X] := (l.map fun r => X - C r).prod

@[simp] theorem rootsPoly_nil : rootsPoly ([] : List F) = 1 := rfl
@[simp] theorem rootsPoly_cons (r : F) (rs : List F) : rootsPoly (r :: rs) = (X - C r) * rootsPoly rs := by
  simp [rootsPoly]

theorem monic_rootsPoly (l : List F) : (rootsPoly l).Monic := by
  induction l with
  | nil => simp
  | cons r rs ih => rw [rootsPoly_cons]; exact (monic_X_sub_C r).mul ih

theorem natDegree_rootsPoly (l : List F) : (rootsPoly l).natDegree = l.length := by
  induction l with
  | nil => simp
  | cons r rs ih =>
    rw [rootsPoly_cons, (monic_X_sub_C r).natDegree_mul (monic_rootsPoly rs), ih, natDegree_X_sub_C]
    simp; omega

theorem eval_rootsPoly (l : List F) (x : F) : (rootsPoly l).eval x = (l.map fun r => x - r).prod := by
  induction l with
  | nil => simp
  | cons r rs ih => simp [ih]

/-- dividing by `f` and then by `g` is dividing by `f * g` (monic divisors) -/
theorem divByMonic_divByMonic (P f g : F[X]) (hf : f.Monic) (hg : g.Monic) :
    (P /ₘ f) /ₘ g = P /ₘ (f * g) := by
  have h1 := modByMonic_add_div P f
  have h2 := modByMonic_add_div (P /ₘ f) g
  have hdeg : (P %ₘ f + f * ((P /ₘ f) %ₘ g)).degree < (f * g).degree := by
    have hfg : (f * g).degree = f.degree + g.degree := degree_mul
    have d1 : (P %ₘ f).degree < f.degree := degree_modByMonic_lt _ hf
    have d2 : ((P /ₘ f) %ₘ g).degree < g.degree := degree_modByMonic_lt _ hg
    have hf0 : f ≠ 0 := hf.ne_zero
    have hg0 : g ≠ 0 := hg.ne_zero
    have hfd : f.degree = (f.natDegree : WithBot ℕ) := degree_eq_natDegree hf0
    have hgd : g.degree = (g.natDegree : WithBot ℕ) := degree_eq_natDegree hg0
    refine lt_of_le_of_lt (degree_add_le _ _) (max_lt ?_ ?_)
    · rw [hfg]
      refine lt_of_lt_of_le d1 ?_
      rw [hfd, hgd]
      exact_mod_cast Nat.le_add_right _ _
    · rw [hfg, degree_mul]
      rw [hfd] at *
      exact WithBot.add_lt_add_left (by simp) d2
  exact ((div_modByMonic_unique ((P /ₘ f) /ₘ g) (P %ₘ f + f * ((P /ₘ f) %ₘ g)) (hf.mul hg)
    ⟨by
      have : P = P %ₘ f + f * (P /ₘ f) := h1.symm
      conv_rhs => rw [this]
      conv_rhs => rw [← h2]
      ring, hdeg⟩).1).symm

theorem length_foldl_synDivLinear (roots p : List α) :
    (roots.foldl (fun p r => (synDivLinear O p r).1) p).length = p.length := by
  induction roots generalizing p with
  | nil => rfl
  | cons r rs ih => simp [List.foldl_cons, ih, length_synDivLinear]

theorem toPoly_foldl_synDivLinear (L : Lawful O v) (roots p : List α) :
    toPoly v (roots.foldl (fun p r => (synDivLinear O p r).1) p) =
      toPoly v p /ₘ rootsPoly (roots.map v) := by
  induction roots generalizing p with
  | nil => simp
  | cons r rs ih =>
    rw [List.foldl_cons, ih, (synDivLinear_eq_divByMonic L p r).1, List.map_cons, rootsPoly_cons,
      divByMonic_divByMonic _ _ _ (monic_X_sub_C _) (monic_rootsPoly _)]

/-- `syn_div_roots_in_place` under its documented preconditions: no panic, same length, the result
    denotes the quotient of `p` by the monic `∏ (X - r_i)` -/
theorem synDivRoots_spec (L : Lawful O v) (p roots : List α)
    (hr : roots ≠ []) (hp : roots.length < p.length) :
    ∃ q, synDivRoots O p roots = .ok q ∧ q.length = p.length ∧
      toPoly v q = toPoly v p /ₘ rootsPoly (roots.map v) := by
  have h1 : roots.isEmpty = false := by cases roots <;> simp_all
  have h2 : ¬ p.length ≤ roots.length := by omega
  exact ⟨_, by simp [synDivRoots, h1, h2], length_foldl_synDivLinear roots p,
    toPoly_foldl_synDivLinear L roots p⟩

theorem synDivRoots_panic_iff (p roots : List α) :
    (∃ s, synDivRoots O p roots = .panic s) ↔ (roots = [] ∨ p.length ≤ roots.length) := by
  unfold synDivRoots
  by_cases h1 : roots = []
  · simp [h1]
  · have h1' : roots.isEmpty = false := by cases roots <;> simp_all
    by_cases h2 : p.length ≤ roots.length
    · simp [h1', h2]
    · simp [h1, h1', h2]

/-- quotient/remainder identity and exactness for division by a list of roots -/
theorem synDivRoots_identity (L : Lawful O v) (p roots : List α)
    (hr : roots ≠ []) (hp : roots.length < p.length) :
    ∃ q, synDivRoots O p roots = .ok q ∧
      toPoly v p = toPoly v q * rootsPoly (roots.map v) + toPoly v p %ₘ rootsPoly (roots.map v) ∧
      (toPoly v p %ₘ rootsPoly (roots.map v)).degree < (roots.length : WithBot ℕ) ∧
      (rootsPoly (roots.map v) ∣ toPoly v p → toPoly v p = toPoly v q * rootsPoly (roots.map v)) := by
  obtain ⟨q, e, _, hq⟩ := synDivRoots_spec L p roots hr hp
  have hm := monic_rootsPoly (roots.map v)
  have hid : toPoly v p = toPoly v q * rootsPoly (roots.map v) + toPoly v p %ₘ rootsPoly (roots.map v) := by
    have := modByMonic_add_div (toPoly v p) (rootsPoly (roots.map v))
    rw [hq]; conv_lhs => rw [← this]
    ring
  refine ⟨q, e, hid, ?_, ?_⟩
  · have := degree_modByMonic_lt (toPoly v p) hm
    rwa [degree_eq_natDegree hm.ne_zero, natDegree_rootsPoly, List.length_map] at this
  · intro hd
    have h0 := (modByMonic_eq_zero_iff_dvd hm).2 hd
    rw [h0, add_zero] at hid
    exact hid

end

end WinterProofs.C20
