-- C09 helper lemmas: the code-shaped in-place strided recursion `fftInPlace` equals the clean recursion
-- `fftRec` — for arbitrary operations (no algebra is needed: both perform the same operations)
import WinterProofs.Lemmas.C09Permute

namespace WinterProofs.C09
open Model.Fft

variable {β α : Type} [Inhabited α] [Inhabited β]

/-- total view of an array (out-of-range positions read `default`; the statements below only use it in range) -/
def vw (a : Array α) (p : Nat) : α := a.getD p default

theorem vw_of_lt (a : Array α) (p : Nat) (h : p < a.size) : vw a p = a[p] := by
  simp [vw, Array.getD, h]

theorem vw_set (a : Array α) (i : Nat) (h : i < a.size) (v : α) (p : Nat) :
    vw (a.set i v h) p = if p = i then v else vw a p := by
  unfold vw
  simp only [Array.getD_eq_getD_getElem?, Array.getElem?_set]
  by_cases e : i = p
  · subst e; simp
  · have : ¬ p = i := fun h => e h.symm
    simp [e, this]

/-! ### single butterflies -/

theorem butterfly_spec (ops : Ops β α) (a : Array α) (i s : Nat) (hs : 0 < s) (h : i + s < a.size) :
    ∃ b, butterfly ops a i s = some b ∧ b.size = a.size ∧
      ∀ p, vw b p = if p = i then ops.add (vw a i) (vw a (i + s))
                    else if p = i + s then ops.sub (vw a i) (vw a (i + s)) else vw a p := by
  have hi : i < a.size := by omega
  unfold butterfly
  simp only [hi, h, ↓reduceDIte, Array.size_set]
  refine ⟨_, rfl, by simp, ?_⟩
  intro p
  rw [vw_set, vw_set]
  have hne : i ≠ i + s := by omega
  have e1 : (a.set i (ops.add a[i] a[i + s]) hi)[i + s]'(by simpa using h) = a[i + s] :=
    Array.getElem_set_ne hi _ hne
  rw [e1, vw_of_lt a i hi, vw_of_lt a (i + s) h]
  split_ifs with c1 c2 <;> first | rfl | omega

theorem butterflyTw_spec (ops : Ops β α) (t : β) (a : Array α) (i s : Nat) (hs : 0 < s) (h : i + s < a.size) :
    ∃ b, butterflyTw ops t a i s = some b ∧ b.size = a.size ∧
      ∀ p, vw b p = if p = i then ops.add (vw a i) (ops.mulBase (vw a (i + s)) t)
                    else if p = i + s then ops.sub (vw a i) (ops.mulBase (vw a (i + s)) t) else vw a p := by
  have hi : i < a.size := by omega
  unfold butterflyTw
  simp only [hi, h, ↓reduceDIte, Array.size_set, and_self]
  refine ⟨_, rfl, by simp, ?_⟩
  intro p
  rw [vw_set, vw_set, vw_set]
  have hne : i ≠ i + s := by omega
  simp only [Array.getElem_set, if_neg hne, if_neg hne.symm, ↓reduceIte]
  rw [vw_of_lt a i hi, vw_of_lt a (i + s) h]
  split_ifs with c1 c2 <;> first | rfl | omega

/-! ### a loop of disjoint pair updates -/

/-- `step j` rewrites positions `j` and `j + s` with `u`/`v` of their old contents -/
def PairStep (step : Nat → Array α → Option (Array α)) (u v : α → α → α) (s : Nat) : Prop :=
  ∀ (a : Array α) (j : Nat), j + s < a.size → ∃ b, step j a = some b ∧ b.size = a.size ∧
    ∀ p, vw b p = if p = j then u (vw a j) (vw a (j + s))
                  else if p = j + s then v (vw a j) (vw a (j + s)) else vw a p

theorem pairLoop (step : Nat → Array α → Option (Array α)) (u v : α → α → α) (s : Nat)
    (hstep : PairStep step u v s) (hs : 0 < s) (start cnt : Nat) (a : Array α)
    (hcnt : cnt ≤ s) (hb : start + cnt + s ≤ a.size) :
    ∃ b, forRange step start cnt a = some b ∧ b.size = a.size ∧
      ∀ p, vw b p = if start ≤ p ∧ p < start + cnt then u (vw a p) (vw a (p + s))
                    else if start + s ≤ p ∧ p < start + s + cnt then v (vw a (p - s)) (vw a p) else vw a p := by
  let P : Nat → Array α → Prop := fun t b => b.size = a.size ∧
    ∀ p, vw b p = if start ≤ p ∧ p < t then u (vw a p) (vw a (p + s))
                  else if start + s ≤ p ∧ p < t + s then v (vw a (p - s)) (vw a p) else vw a p
  have h := forRange_inv step P cnt start a
    ⟨rfl, fun p => by
      have h1 : ¬ (start ≤ p ∧ p < start) := by omega
      have h2 : ¬ (start + s ≤ p ∧ p < start + s) := by omega
      rw [if_neg h1, if_neg h2]⟩
    (by
      intro t b ht1 ht2 ⟨hbs, hbv⟩
      obtain ⟨b', e, hs', hv'⟩ := hstep b t (by omega)
      refine ⟨b', e, by omega, ?_⟩
      intro p
      rw [hv' p]
      have et : vw b t = vw a t := by
        rw [hbv t]
        have h1 : ¬ (start ≤ t ∧ t < t) := by omega
        have h2 : ¬ (start + s ≤ t ∧ t < t + s) := by omega
        rw [if_neg h1, if_neg h2]
      have ets : vw b (t + s) = vw a (t + s) := by
        rw [hbv (t + s)]
        have h1 : ¬ (start ≤ t + s ∧ t + s < t) := by omega
        have h2 : ¬ (start + s ≤ t + s ∧ t + s < t + s) := by omega
        rw [if_neg h1, if_neg h2]
      by_cases c1 : p = t
      · subst c1
        have h1 : start ≤ p ∧ p < p + 1 := by omega
        rw [if_pos rfl, if_pos h1, et, ets]
      · by_cases c2 : p = t + s
        · subst c2
          have h1 : ¬ (start ≤ t + s ∧ t + s < t + 1) := by omega
          have h2 : start + s ≤ t + s ∧ t + s < t + 1 + s := by omega
          have h3 : ¬ (t + s = t) := by omega
          rw [if_neg h3, if_pos rfl, if_neg h1, if_pos h2, et, ets, Nat.add_sub_cancel]
        · rw [if_neg c1, if_neg c2, hbv p]
          have e1 : (start ≤ p ∧ p < t) ↔ (start ≤ p ∧ p < t + 1) := by omega
          have e2 : (start + s ≤ p ∧ p < t + s) ↔ (start + s ≤ p ∧ p < t + 1 + s) := by omega
          simp only [e1, e2])
  obtain ⟨b, e, hbs, hbv⟩ := h
  refine ⟨b, e, hbs, ?_⟩
  intro p
  rw [hbv p]
  have e2 : (start + s ≤ p ∧ p < start + cnt + s) ↔ (start + s ≤ p ∧ p < start + s + cnt) := by omega
  simp only [e2]

end WinterProofs.C09

namespace WinterProofs.C09
open Model.Fft

variable {β α : Type} [Inhabited α] [Inhabited β]

/-! ### index arithmetic: position `c + m * s` with `c < s` lies in block `m`, lane `c` -/

theorem win_iff (s c m off cnt t : Nat) (hc : c < s) (hw : off + cnt ≤ s) :
    (off + t * s ≤ c + m * s ∧ c + m * s < off + t * s + cnt) ↔ (m = t ∧ off ≤ c ∧ c < off + cnt) := by
  constructor
  · rintro ⟨h1, h2⟩
    rcases Nat.lt_trichotomy m t with h | h | h
    · exfalso
      obtain ⟨d, hd⟩ := Nat.exists_eq_add_of_lt h
      subst hd
      have e : (m + d + 1) * s = m * s + d * s + s := by ring
      rw [e] at h1
      omega
    · subst h; omega
    · exfalso
      obtain ⟨d, hd⟩ := Nat.exists_eq_add_of_lt h
      subst hd
      have e : (t + d + 1) * s = t * s + d * s + s := by ring
      rw [e] at h2
      omega
  · rintro ⟨rfl, h1, h2⟩; omega

/-- value written to position `c + m*s` by the butterfly pass over blocks of two: `x ± t•y` with
    `x`, `y` the old contents of the even/odd position of block `m / 2` (no multiplication in block 0) -/
def bfOut (ops : Ops β α) (tw : Array β) (a : Array α) (s c m : Nat) : α :=
  let x := vw a (c + (2 * (m / 2)) * s)
  let y := vw a (c + (2 * (m / 2) + 1) * s)
  let y' := if m / 2 = 0 then y else ops.mulBase y (tw.getD (m / 2) default)
  if m % 2 = 0 then ops.add x y' else ops.sub x y'

/-- the two butterfly loops of one level of `fft_in_place` -/
def passLoops (ops : Ops β α) (tw : Array β) (size count stride offset : Nat) (a : Array α) : Option (Array α) :=
  (forRange (fun o a => butterfly ops a o stride) offset count a).bind fun a =>
    forRange (fun i a =>
      forRange (fun j a =>
        match tw[i]? with
        | none => none
        | some t => butterflyTw ops t a j stride) (offset + i * (2 * stride)) count a)
      1 ((size + 1) / 2 - 1) a

theorem pass_spec (ops : Ops β α) (tw : Array β) (k s offset count : Nat) (a : Array α)
    (hk : 1 ≤ k) (hs : 0 < s) (hsz : a.size = 2 ^ k * s) (hw : offset + count ≤ s)
    (htw : 2 ^ (k - 1) ≤ tw.size) :
    ∃ b, passLoops ops tw (2 ^ k) count s offset a = some b ∧ b.size = a.size ∧
      ∀ m c, m < 2 ^ k → c < s →
        vw b (c + m * s) = if offset ≤ c ∧ c < offset + count then bfOut ops tw a s c m else vw a (c + m * s) := by
  obtain ⟨k', rfl⟩ : ∃ k', k = k' + 1 := ⟨k - 1, by omega⟩
  simp only [Nat.add_sub_cancel] at htw
  have hpow : (2 : Nat) ^ (k' + 1) = 2 * 2 ^ k' := by rw [Nat.pow_succ]; ring
  have hH : (2 ^ (k' + 1) + 1) / 2 - 1 = 2 ^ k' - 1 := by rw [hpow]; omega
  have hHpos : 0 < 2 ^ k' := Nat.pow_pos (by decide)
  unfold passLoops
  -- first loop: block 0
  have hb1 : offset + count + s ≤ a.size := by
    rw [hsz, hpow]
    have : 2 * 2 ^ k' * s = 2 * s + 2 * (2 ^ k' - 1) * s := by
      have : 2 * 2 ^ k' = 2 + 2 * (2 ^ k' - 1) := by omega
      rw [this]; ring
    omega
  obtain ⟨a1, e1, hs1, hv1⟩ := pairLoop (fun o a => butterfly ops a o s) ops.add ops.sub s
    (fun a j h => butterfly_spec ops a j s hs h) hs offset count a (by omega) hb1
  rw [e1]
  simp only [Option.bind_some, hH]
  -- outer loop: blocks 1 .. 2^k' - 1
  let Q : Nat → Array α → Prop := fun t b => b.size = a.size ∧
    ∀ m c, c < s → vw b (c + m * s) =
      if (offset ≤ c ∧ c < offset + count) ∧ m / 2 < t then bfOut ops tw a s c m else vw a (c + m * s)
  have hQ1 : Q 1 a1 := by
    refine ⟨hs1, ?_⟩
    intro m c hc
    rw [hv1]
    have w0 := win_iff s c m offset count 0 hc hw
    have w1 := win_iff s c m offset count 1 hc hw
    simp only [Nat.zero_mul, Nat.add_zero, Nat.one_mul] at w0 w1
    by_cases hwin : offset ≤ c ∧ c < offset + count
    · by_cases m0 : m = 0
      · subst m0
        have c1 : offset ≤ c + 0 * s ∧ c + 0 * s < offset + count := w0.mpr ⟨rfl, hwin⟩
        rw [if_pos c1, if_pos ⟨hwin, by omega⟩]
        simp [bfOut]
      · by_cases m1 : m = 1
        · subst m1
          have c0 : ¬ (offset ≤ c + 1 * s ∧ c + 1 * s < offset + count) := fun h => by
            have := (w0.mp h).1; omega
          have c1 : offset + s ≤ c + 1 * s ∧ c + 1 * s < offset + s + count := w1.mpr ⟨rfl, hwin⟩
          rw [if_neg c0, if_pos c1, if_pos ⟨hwin, by omega⟩]
          simp [bfOut]
        · have c0 : ¬ (offset ≤ c + m * s ∧ c + m * s < offset + count) := fun h => m0 (w0.mp h).1
          have c1 : ¬ (offset + s ≤ c + m * s ∧ c + m * s < offset + s + count) := fun h => m1 (w1.mp h).1
          have c2 : ¬ ((offset ≤ c ∧ c < offset + count) ∧ m / 2 < 1) := by omega
          rw [if_neg c0, if_neg c1, if_neg c2]
    · have c0 : ¬ (offset ≤ c + m * s ∧ c + m * s < offset + count) := fun h => hwin (w0.mp h).2
      have c1 : ¬ (offset + s ≤ c + m * s ∧ c + m * s < offset + s + count) := fun h => hwin (w1.mp h).2
      have c2 : ¬ ((offset ≤ c ∧ c < offset + count) ∧ m / 2 < 1) := fun h => hwin h.1
      rw [if_neg c0, if_neg c1, if_neg c2]
  have hloop := forRange_inv (σ := Array α)
    (fun i a =>
      forRange (fun j a =>
        match tw[i]? with
        | none => none
        | some t => butterflyTw ops t a j s) (offset + i * (2 * s)) count a) Q (2 ^ k' - 1) 1 a1 hQ1
    (by
      intro t b ht1 ht2 ⟨hbs, hbv⟩
      have htH : t < 2 ^ k' := by omega
      have htw' : t < tw.size := by omega
      have etw : tw[t]? = some tw[t] := Array.getElem?_eq_getElem htw'
      simp only [etw]
      have hb2 : offset + t * (2 * s) + count + s ≤ b.size := by
        rw [hbs, hsz, hpow]
        obtain ⟨d, hd⟩ := Nat.exists_eq_add_of_lt htH
        have : 2 * 2 ^ k' * s = t * (2 * s) + 2 * s + 2 * d * s := by rw [hd]; ring
        omega
      obtain ⟨b', e', hs', hv'⟩ := pairLoop (fun j a => butterflyTw ops tw[t] a j s)
        (fun x y => ops.add x (ops.mulBase y tw[t])) (fun x y => ops.sub x (ops.mulBase y tw[t])) s
        (fun a j h => butterflyTw_spec ops tw[t] a j s hs h) hs (offset + t * (2 * s)) count b (by omega) hb2
      refine ⟨b', e', by omega, ?_⟩
      intro m c hc
      rw [hv']
      have elo : offset + t * (2 * s) = offset + (2 * t) * s := by ring
      have ehi : offset + t * (2 * s) + s = offset + (2 * t + 1) * s := by ring
      rw [ehi, elo]
      have w0 := win_iff s c m offset count (2 * t) hc hw
      have w1 := win_iff s c m offset count (2 * t + 1) hc hw
      have hgetD : tw.getD t default = tw[t] := by simp [Array.getD, htw']
      by_cases hwin : offset ≤ c ∧ c < offset + count
      · by_cases m0 : m = 2 * t
        · subst m0
          have c1 := w0.mpr ⟨rfl, hwin⟩
          rw [if_pos c1, if_pos ⟨hwin, by omega⟩]
          have x1 := hbv (2 * t) c hc
          rw [if_neg (by omega)] at x1
          have x2 := hbv (2 * t + 1) c hc
          rw [if_neg (by omega)] at x2
          have ep : c + 2 * t * s + s = c + (2 * t + 1) * s := by ring
          rw [ep, x1, x2]
          have d1 : 2 * t / 2 = t := by omega
          have d2 : 2 * t % 2 = 0 := by omega
          have d3 : ¬ t = 0 := by omega
          simp only [bfOut, d1, d2, d3, ↓reduceIte, hgetD]
        · by_cases m1 : m = 2 * t + 1
          · subst m1
            have c0 : ¬ (offset + 2 * t * s ≤ c + (2 * t + 1) * s ∧ c + (2 * t + 1) * s < offset + 2 * t * s + count) :=
              fun h => by have := (w0.mp h).1; omega
            have c1 := w1.mpr ⟨rfl, hwin⟩
            rw [if_neg c0, if_pos c1, if_pos ⟨hwin, by omega⟩]
            have x1 := hbv (2 * t) c hc
            rw [if_neg (by omega)] at x1
            have x2 := hbv (2 * t + 1) c hc
            rw [if_neg (by omega)] at x2
            have ep : c + (2 * t + 1) * s - s = c + 2 * t * s := by
              have : c + (2 * t + 1) * s = c + 2 * t * s + s := by ring
              omega
            rw [ep, x1, x2]
            have d1 : (2 * t + 1) / 2 = t := by omega
            have d2 : ¬ (2 * t + 1) % 2 = 0 := by omega
            have d3 : ¬ t = 0 := by omega
            simp only [bfOut, d1, d2, d3, ↓reduceIte, hgetD]
          · have c0 : ¬ (offset + 2 * t * s ≤ c + m * s ∧ c + m * s < offset + 2 * t * s + count) :=
              fun h => m0 (w0.mp h).1
            have c1 : ¬ (offset + (2 * t + 1) * s ≤ c + m * s ∧ c + m * s < offset + (2 * t + 1) * s + count) :=
              fun h => m1 (w1.mp h).1
            rw [if_neg c0, if_neg c1, hbv m c hc]
            have e : ((offset ≤ c ∧ c < offset + count) ∧ m / 2 < t) ↔
                ((offset ≤ c ∧ c < offset + count) ∧ m / 2 < t + 1) := by omega
            simp only [e]
      · have c0 : ¬ (offset + 2 * t * s ≤ c + m * s ∧ c + m * s < offset + 2 * t * s + count) :=
          fun h => hwin (w0.mp h).2
        have c1 : ¬ (offset + (2 * t + 1) * s ≤ c + m * s ∧ c + m * s < offset + (2 * t + 1) * s + count) :=
          fun h => hwin (w1.mp h).2
        rw [if_neg c0, if_neg c1, hbv m c hc, if_neg (fun h => hwin h.1), if_neg (fun h => hwin h.1)])
  obtain ⟨b, e, hbs, hbv⟩ := hloop
  have e1' : 1 + (2 ^ k' - 1) = 2 ^ k' := by omega
  rw [e1'] at hbv
  refine ⟨b, e, hbs, ?_⟩
  intro m c hm hc
  rw [hbv m c hc]
  have hm2 : m / 2 < 2 ^ k' := by rw [hpow] at hm; omega
  by_cases hwin : offset ≤ c ∧ c < offset + count
  · rw [if_pos ⟨hwin, hm2⟩, if_pos hwin]
  · rw [if_neg (fun h => hwin h.1), if_neg hwin]

end WinterProofs.C09

namespace WinterProofs.C09
open Model.Fft

variable {β α : Type} [Inhabited α] [Inhabited β]

/-- the interleaved sub-sequence `c, c + s, c + 2s, …` of an array -/
def sub (a : Array α) (c s : Nat) : Nat → α := fun j => vw a (c + j * s)

/-- the twiddle table as a function -/
def twf (tw : Array β) : Nat → β := fun i => tw.getD i default

/-- `fftRec k` only reads `x j` for `j < 2^k` -/
theorem fftRec_congr (ops : Ops β α) (t : Nat → β) (k : Nat) : ∀ (x y : Nat → α),
    (∀ j, j < 2 ^ k → x j = y j) → ∀ m, m < 2 ^ k → fftRec ops t k x m = fftRec ops t k y m := by
  induction k with
  | zero => intro x y h m hm; simpa [fftRec] using h m hm
  | succ k ih =>
    intro x y h m hm
    have hpow : (2 : Nat) ^ (k + 1) = 2 * 2 ^ k := by rw [Nat.pow_succ]; ring
    have hm2 : m / 2 < 2 ^ k := by rw [hpow] at hm; omega
    have he := ih (fun j => x (2 * j)) (fun j => y (2 * j)) (fun j hj => h (2 * j) (by rw [hpow]; omega)) (m / 2) hm2
    have ho := ih (fun j => x (2 * j + 1)) (fun j => y (2 * j + 1)) (fun j hj => h (2 * j + 1) (by rw [hpow]; omega)) (m / 2) hm2
    simp only [fftRec, he, ho]

theorem fftInPlace_succ (ops : Ops β α) (maxLoop : Nat) (tw : Array β) (fuel count stride offset : Nat)
    (a : Array α) :
    fftInPlace ops maxLoop tw (fuel + 1) count stride offset a =
      if stride = 0 then none else
      if ¬ (isPow2 (a.size / stride) ∧ offset < stride ∧ a.size % (a.size / stride) = 0) then none else
      (if a.size / stride > 2 then
        if stride = count ∧ count < maxLoop then
          fftInPlace ops maxLoop tw fuel (2 * count) (2 * stride) offset a
        else
          (fftInPlace ops maxLoop tw fuel count (2 * stride) offset a).bind
            (fftInPlace ops maxLoop tw fuel count (2 * stride) (offset + stride))
      else some a).bind (passLoops ops tw (a.size / stride) count stride offset) := by
  rfl

/-- state between the recursive calls and the butterfly pass of a level working on sub-sequences of
    length `2^(k+1)`: every even/odd half (stride `2s`) in the window holds its bit-reversed transform -/
def Mid (ops : Ops β α) (tw : Array β) (k s offset count : Nat) (a a2 : Array α) : Prop :=
  a2.size = a.size ∧ ∀ i e c, i < 2 ^ k → e < 2 → c < s →
    vw a2 (c + (2 * i + e) * s) =
      if offset ≤ c ∧ c < offset + count then fftRec ops (twf tw) k (sub a (c + e * s) (2 * s)) i
      else vw a (c + (2 * i + e) * s)

/-- the butterfly pass turns `Mid k` into the level-`(k+1)` postcondition -/
theorem pass_of_mid (ops : Ops β α) (tw : Array β) (k s offset count : Nat) (a a2 : Array α)
    (hs : 0 < s) (hsz : a.size = 2 ^ (k + 1) * s) (hw : offset + count ≤ s) (htw : 2 ^ k ≤ tw.size)
    (hmid : Mid ops tw k s offset count a a2) :
    ∃ b, passLoops ops tw (2 ^ (k + 1)) count s offset a2 = some b ∧ b.size = a.size ∧
      ∀ m c, m < 2 ^ (k + 1) → c < s →
        vw b (c + m * s) = if offset ≤ c ∧ c < offset + count then fftRec ops (twf tw) (k + 1) (sub a c s) m
                           else vw a (c + m * s) := by
  obtain ⟨hsz2, hmid⟩ := hmid
  obtain ⟨b, e, hbs, hbv⟩ := pass_spec ops tw (k + 1) s offset count a2 (by omega) hs (by rw [hsz2, hsz]) hw
    (by simpa using htw)
  refine ⟨b, e, by rw [hbs, hsz2], ?_⟩
  intro m c hm hc
  rw [hbv m c hm hc]
  have hpow : (2 : Nat) ^ (k + 1) = 2 * 2 ^ k := by rw [Nat.pow_succ]; ring
  obtain ⟨i, e, he, rfl⟩ : ∃ i e, e < 2 ∧ m = 2 * i + e := ⟨m / 2, m % 2, Nat.mod_lt _ (by decide), by omega⟩
  have hi : i < 2 ^ k := by rw [hpow] at hm; omega
  by_cases hwin : offset ≤ c ∧ c < offset + count
  · rw [if_pos hwin, if_pos hwin]
    have d1 : (2 * i + e) / 2 = i := by omega
    have d2 : (2 * i + e) % 2 = e := by omega
    have x0 := hmid i 0 c hi (by decide) hc
    have x1 := hmid i 1 c hi (by decide) hc
    rw [if_pos hwin] at x0 x1
    simp only [Nat.add_zero, Nat.zero_mul, Nat.one_mul] at x0 x1
    have f0 : sub a c (2 * s) = fun j => sub a c s (2 * j) := by
      funext j; simp only [sub]; congr 1; ring
    have f1 : sub a (c + s) (2 * s) = fun j => sub a c s (2 * j + 1) := by
      funext j; simp only [sub]; congr 1; ring
    simp only [bfOut, fftRec, d1, d2, x0, x1, f0, f1, twf]
  · rw [if_neg hwin, if_neg hwin]
    have x := hmid i e c hi he hc
    rw [if_neg hwin] at x
    exact x

/-- (h) the in-place strided recursion: called with `(count, stride, offset)` on an array of `2^(k+1)·stride`
    elements it does not panic, replaces every sub-sequence `c + j·stride` with `offset ≤ c < offset + count`
    by the clean recursive transform `fftRec` of that sub-sequence, and leaves everything else unchanged —
    for every level `k`, every `MAX_LOOP`, any operations -/
theorem fftInPlace_spec (ops : Ops β α) (maxLoop : Nat) (tw : Array β) (k : Nat) :
    ∀ (fuel count stride offset : Nat) (a : Array α),
      k + 1 ≤ fuel → 0 < stride → a.size = 2 ^ (k + 1) * stride → offset + count ≤ stride → offset < stride →
      2 ^ k ≤ tw.size →
      ∃ b, fftInPlace ops maxLoop tw fuel count stride offset a = some b ∧ b.size = a.size ∧
        ∀ m c, m < 2 ^ (k + 1) → c < stride →
          vw b (c + m * stride) =
            if offset ≤ c ∧ c < offset + count then fftRec ops (twf tw) (k + 1) (sub a c stride) m
            else vw a (c + m * stride) := by
  induction k with
  | zero =>
    intro fuel count s offset a hf hs hsz hw ho htw
    obtain ⟨f, rfl⟩ : ∃ f, fuel = f + 1 := ⟨fuel - 1, by omega⟩
    have hdiv : a.size / s = 2 ^ (0 + 1) := by rw [hsz]; exact Nat.mul_div_cancel _ hs
    rw [fftInPlace_succ, hdiv]
    have hmod : a.size % 2 ^ (0 + 1) = 0 := by rw [hsz]; exact Nat.mul_mod_right _ _
    have c1 : ¬ s = 0 := by omega
    have c2 : ¬ ¬ (isPow2 (2 ^ (0 + 1)) = true ∧ offset < s ∧ a.size % 2 ^ (0 + 1) = 0) :=
      not_not.mpr ⟨isPow2_two_pow _, ho, hmod⟩
    have c3 : ¬ (2 ^ (0 + 1) > 2) := by decide
    rw [if_neg c1, if_neg c2, if_neg c3, Option.bind_some]
    apply pass_of_mid ops tw 0 s offset count a a hs hsz hw htw
    refine ⟨rfl, ?_⟩
    intro i e c hi he hc
    have : i = 0 := by simpa using hi
    subst this
    by_cases hwin : offset ≤ c ∧ c < offset + count
    · rw [if_pos hwin]; simp [fftRec, sub]
    · rw [if_neg hwin]
  | succ k ih =>
    intro fuel count s offset a hf hs hsz hw ho htw
    obtain ⟨f, rfl⟩ : ∃ f, fuel = f + 1 := ⟨fuel - 1, by omega⟩
    have hpow : (2 : Nat) ^ (k + 1 + 1) = 2 * 2 ^ (k + 1) := by rw [Nat.pow_succ]; ring
    have hpow' : (2 : Nat) ^ (k + 1) = 2 * 2 ^ k := by rw [Nat.pow_succ]; ring
    have hdiv : a.size / s = 2 ^ (k + 1 + 1) := by rw [hsz]; exact Nat.mul_div_cancel _ hs
    rw [fftInPlace_succ, hdiv]
    have hmod : a.size % 2 ^ (k + 1 + 1) = 0 := by rw [hsz]; exact Nat.mul_mod_right _ _
    have c1 : ¬ s = 0 := by omega
    have c2 : ¬ ¬ (isPow2 (2 ^ (k + 1 + 1)) = true ∧ offset < s ∧ a.size % 2 ^ (k + 1 + 1) = 0) :=
      not_not.mpr ⟨isPow2_two_pow _, ho, hmod⟩
    have c3 : 2 ^ (k + 1 + 1) > 2 := by
      have : 0 < 2 ^ k := Nat.pow_pos (by decide)
      rw [hpow, hpow']; omega
    rw [if_neg c1, if_neg c2, if_pos c3]
    have hsz2 : a.size = 2 ^ (k + 1) * (2 * s) := by rw [hsz, hpow]; ring
    have htw' : 2 ^ k ≤ tw.size := by rw [hpow'] at htw; omega
    -- the state after the recursive call(s)
    have hmid : ∃ a2, (if s = count ∧ count < maxLoop then
          fftInPlace ops maxLoop tw f (2 * count) (2 * s) offset a
        else
          (fftInPlace ops maxLoop tw f count (2 * s) offset a).bind
            (fftInPlace ops maxLoop tw f count (2 * s) (offset + s))) = some a2 ∧
        Mid ops tw (k + 1) s offset count a a2 := by
      by_cases hbr : s = count ∧ count < maxLoop
      · -- one call handling all `2·count` sub-sequences of stride `2s`
        rw [if_pos hbr]
        obtain ⟨b, e, hbs, hbv⟩ := ih f (2 * count) (2 * s) offset a (by omega) (by omega) hsz2 (by omega) (by omega) htw'
        refine ⟨b, e, hbs, ?_⟩
        intro i e c hi he hc
        have hc' : c + e * s < 2 * s := by
          have : e = 0 ∨ e = 1 := by omega
          rcases this with rfl | rfl <;> omega
        have x := hbv i (c + e * s) hi hc'
        have ep : c + e * s + i * (2 * s) = c + (2 * i + e) * s := by ring
        rw [ep] at x
        rw [x]
        have w1 : offset ≤ c + e * s ∧ c + e * s < offset + 2 * count := by omega
        have w2 : offset ≤ c ∧ c < offset + count := by omega
        rw [if_pos w1, if_pos w2]
      · -- two calls: even halves (offset) then odd halves (offset + stride)
        rw [if_neg hbr]
        obtain ⟨b1, e1, hbs1, hbv1⟩ := ih f count (2 * s) offset a (by omega) (by omega) hsz2 (by omega) (by omega) htw'
        obtain ⟨b2, e2, hbs2, hbv2⟩ := ih f count (2 * s) (offset + s) b1 (by omega) (by omega)
          (by rw [hbs1]; exact hsz2) (by omega) (by omega) htw'
        refine ⟨b2, by rw [e1]; exact e2, by rw [hbs2, hbs1], ?_⟩
        intro i e c hi he hc
        have ep : c + e * s + i * (2 * s) = c + (2 * i + e) * s := by ring
        have he' : e = 0 ∨ e = 1 := by omega
        rcases he' with rfl | rfl
        · have hc' : c + 0 * s < 2 * s := by omega
          have x2 := hbv2 i (c + 0 * s) hi hc'
          have x1 := hbv1 i (c + 0 * s) hi hc'
          rw [ep] at x1 x2
          rw [x2, if_neg (by omega), x1]
          have e : (offset ≤ c + 0 * s ∧ c + 0 * s < offset + count) ↔ (offset ≤ c ∧ c < offset + count) := by omega
          simp only [e]
        · have hc' : c + 1 * s < 2 * s := by omega
          have x2 := hbv2 i (c + 1 * s) hi hc'
          rw [ep] at x2
          rw [x2]
          -- the odd half was not touched by the first call
          have hsame : ∀ j, j < 2 ^ (k + 1) → sub b1 (c + 1 * s) (2 * s) j = sub a (c + 1 * s) (2 * s) j := by
            intro j hj
            have x1 := hbv1 j (c + 1 * s) hj hc'
            rw [if_neg (by omega)] at x1
            exact x1
          by_cases hwin : offset ≤ c ∧ c < offset + count
          · rw [if_pos (by omega), if_pos hwin]
            exact fftRec_congr ops (twf tw) (k + 1) _ _ hsame i hi
          · rw [if_neg (by omega), if_neg hwin]
            have x1 := hbv1 i (c + 1 * s) hi hc'
            rw [ep, if_neg (by omega)] at x1
            exact x1
    obtain ⟨a2, e2, hm2⟩ := hmid
    rw [e2, Option.bind_some]
    exact pass_of_mid ops tw (k + 1) s offset count a a2 hs hsz hw htw hm2

end WinterProofs.C09
