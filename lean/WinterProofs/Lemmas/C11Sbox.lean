-- C11 helper lemmas: the S-boxes of the Rescue instances on raw words denote `x^alpha` and
-- `x^(alpha^-1 mod p-1)` on residues, and invert each other on every residue (zero included).
-- Uses the field facts of C07 (`val`, `Inv`, `Pw`).
import Winter.Model.Rescue
import WinterProofs.Lemmas.C07F64Z
import WinterProofs.Lemmas.C07F62Z

namespace WinterProofs.C11.Sbox

/-- in a prime field, raising to an exponent that is 1 modulo `p - 1` is the identity (zero included) -/
theorem pow_eq_self_of_mod {p : Nat} [Fact (Nat.Prime p)] (a : ZMod p) (n : Nat)
    (hn : n % (p - 1) = 1) : a ^ n = a := by
  have hdm := Nat.div_add_mod n (p - 1)
  rw [hn] at hdm
  by_cases h0 : a = 0
  · subst h0
    exact zero_pow (by omega)
  · have hf : a ^ (p - 1) = 1 := ZMod.pow_card_sub_one_eq_one h0
    rw [← hdm, pow_add, pow_mul, hf, one_pow, one_mul, pow_one]

/-! ### 64-bit instances: alpha = 7 -/
namespace F64
open Gen.F64 WinterProofs.F64Z Model.F64

/-- `exp7` on a raw word denotes the seventh power -/
theorem exp7_pow (x : Nat) (hx : Inv x) : Pw x (Gen.F64.exp7 x) 7 := by
  have p1 := Pw.self hx
  unfold Gen.F64.exp7 Gen.F64.exp7.s_x2 Gen.F64.exp7.s_x4 Gen.F64.exp7.s_x3
  have x2 := p1.mul p1
  have x4 := x2.mul x2
  have x3 := x2.mul p1
  exact (x3.mul x4).cast (by norm_num)

/-- the inverse S-box chain denotes the power `INV_ALPHA` -/
theorem invSbox_pow (x : Nat) (hx : Inv x) :
    Pw x (Model.Rescue.F64.invSbox x) Gen.Rp64.INV_ALPHA := by
  have p1 := Pw.self hx
  unfold Model.Rescue.F64.invSbox
  have t1 : Pw x (square x) 2 := (p1.mul p1).cast (by norm_num)
  have t2 : Pw x (square (square x)) 4 := (t1.mul t1).cast (by norm_num)
  have t3 := t2.expAcc t2 3
  have t4 := t3.expAcc t3 6
  have t5 := t4.expAcc t4 12
  have t6 := t5.expAcc t3 6
  have t7 := t6.expAcc t6 31
  have a0 := (t7.mul t7).mul t6
  have a1 := a0.mul a0
  have a := a1.mul a1
  have b := (t1.mul t2).mul p1
  exact (a.mul b).cast (by norm_num [Gen.Rp64.INV_ALPHA])

/-- the same chain is used by the Jive instance, whose `INV_ALPHA` is the same number -/
theorem inv_alpha_jive : Gen.Rp64Jive.INV_ALPHA = Gen.Rp64.INV_ALPHA ∧ Gen.Rp64Jive.ALPHA = Gen.Rp64.ALPHA := by
  decide

theorem inv_after_sbox (x : Nat) (hx : Inv x) :
    Inv (Model.Rescue.F64.invSbox (Gen.F64.exp7 x)) ∧ val (Model.Rescue.F64.invSbox (Gen.F64.exp7 x)) = val x := by
  have h7 := exp7_pow x hx
  have hi := invSbox_pow (Gen.F64.exp7 x) h7.1
  refine ⟨hi.1, ?_⟩
  rw [hi.2, h7.2, ← pow_mul]
  exact pow_eq_self_of_mod (val x) _ (by decide +kernel)

theorem sbox_after_inv (x : Nat) (hx : Inv x) :
    Inv (Gen.F64.exp7 (Model.Rescue.F64.invSbox x)) ∧ val (Gen.F64.exp7 (Model.Rescue.F64.invSbox x)) = val x := by
  have hi := invSbox_pow x hx
  have h7 := exp7_pow (Model.Rescue.F64.invSbox x) hi.1
  refine ⟨h7.1, ?_⟩
  rw [h7.2, hi.2, ← pow_mul]
  exact pow_eq_self_of_mod (val x) _ (by decide +kernel)

end F64

/-! ### 62-bit instance: alpha = 3 -/
namespace F62
open Gen.F62 WinterProofs.F62Z Model.Rescue.F62

theorem cube_pow (x : Nat) (hx : Inv x) : Pw x (cube x) 3 := by
  have p1 := Pw.self hx
  unfold cube
  exact ((p1.mul p1).mul p1).cast (by norm_num)

theorem Pw.sqN' {x a e : Nat} (h : Pw x a e) (n : Nat) : Pw x (sqN n a) (e * 2 ^ n) := by
  induction n generalizing a e with
  | zero =>
    unfold sqN
    exact h.cast (by simp)
  | succ n ih =>
    unfold sqN square
    exact (ih (h.mul h)).cast (by rw [pow_succ]; ring)

theorem Pw.expAcc' {x b t e1 e2 : Nat} (h1 : Pw x b e1) (h2 : Pw x t e2) (n : Nat) :
    Pw x (expAcc n b t) (e1 * 2 ^ n + e2) := by
  unfold expAcc
  exact (Pw.sqN' h1 n).mul h2

theorem invSbox_pow (x : Nat) (hx : Inv x) : Pw x (invSbox x) Gen.Rp62.INV_ALPHA := by
  have p1 := Pw.self hx
  unfold invSbox
  have t1 : Pw x (square x) 2 := (p1.mul p1).cast (by norm_num)
  have t2 := Pw.expAcc' t1 t1 2
  have t4 := Pw.expAcc' t2 t2 4
  have t8 := Pw.expAcc' t4 t4 8
  have a1 := Pw.expAcc' t8 t2 7
  have a2 := Pw.expAcc' a1 t8 15
  have a3 := Pw.expAcc' a2 t8 16
  have a4 := Pw.expAcc' a3 t4 8
  exact (p1.mul a4).cast (by norm_num [Gen.Rp62.INV_ALPHA])

theorem inv_after_sbox (x : Nat) (hx : Inv x) :
    Inv (invSbox (cube x)) ∧ val (invSbox (cube x)) = val x := by
  have h3 := cube_pow x hx
  have hi := invSbox_pow (cube x) h3.1
  refine ⟨hi.1, ?_⟩
  rw [hi.2, h3.2, ← pow_mul]
  exact pow_eq_self_of_mod (val x) _ (by decide +kernel)

theorem sbox_after_inv (x : Nat) (hx : Inv x) :
    Inv (cube (invSbox x)) ∧ val (cube (invSbox x)) = val x := by
  have hi := invSbox_pow x hx
  have h3 := cube_pow (invSbox x) hi.1
  refine ⟨h3.1, ?_⟩
  rw [h3.2, hi.2, ← pow_mul]
  exact pow_eq_self_of_mod (val x) _ (by decide +kernel)

end F62

end WinterProofs.C11.Sbox
