-- C14 helper lemmas: steps, footprints, schedules — every interleaving of non-interfering tasks computes the
-- state of the sequential order (no Mathlib needed)
import Winter.Model.Parallel

namespace WinterProofs.C14
open Model.Parallel

variable {α : Type}

theorem runAll_append (a b : List (Step α)) (s : Nat → α) : runAll (a ++ b) s = runAll b (runAll a s) := by
  simp [runAll, List.foldl_append]

theorem runAll_cons (x : Step α) (l : List (Step α)) (s : Nat → α) : runAll (x :: l) s = runAll l (x.run s) := rfl

/-- two steps with non-interfering footprints commute -/
theorem commute_of_nonInterfering (a b : Step α) (Ra Wa Rb Wb : Nat → Prop)
    (ha : Footprint a Ra Wa) (hb : Footprint b Rb Wb) (h : NonInterfering Ra Wa Rb Wb) (s : Nat → α) :
    b.run (a.run s) = a.run (b.run s) := by
  funext i
  by_cases hwa : Wa i
  · have hnb : ¬ Wb i := (h.1 i hwa).2
    rw [hb.frame _ i hnb]
    apply ha.determined
    · intro j hj
      have : ¬ Wb j := fun hw => (h.2 j hw).1 hj
      rw [hb.frame _ j this]
    · exact hwa
  · by_cases hwb : Wb i
    · rw [ha.frame _ i hwa]
      apply hb.determined
      · intro j hj
        have : ¬ Wa j := fun hw => (h.1 j hw).1 hj
        rw [ha.frame _ j this]
      · exact hwb
    · rw [hb.frame _ i hwb, ha.frame _ i hwa, ha.frame _ i hwa, hb.frame _ i hwb]

/-- a step that commutes with every step of a list can be moved across the list -/
theorem runAll_move (x : Step α) (a : List (Step α))
    (h : ∀ y ∈ a, ∀ s, y.run (x.run s) = x.run (y.run s)) (s : Nat → α) :
    runAll a (x.run s) = x.run (runAll a s) := by
  induction a generalizing s with
  | nil => rfl
  | cons y ys ih =>
    simp only [runAll_cons]
    rw [h y (by simp) s]
    exact ih (fun z hz => h z (by simp [hz])) _


theorem mem_of_stepsOf_eq {l l' : List (Step α)} (hf : ∀ t, stepsOf t l = stepsOf t l') {y : Step α} (hy : y ∈ l) :
    y ∈ l' := by
  have : y ∈ stepsOf y.task l := by simp [stepsOf, hy]
  rw [hf] at this
  exact (List.mem_filter.mp this).1

/-- two step lists with the same steps per task, in the same per-task order, compute the same state when steps
    of different tasks commute -/
theorem runAll_eq_of_stepsOf_eq (l' : List (Step α)) :
    ∀ (l : List (Step α)) (s : Nat → α), l.length = l'.length → (∀ t, stepsOf t l = stepsOf t l') →
      (∀ a ∈ l', ∀ b ∈ l', a.task ≠ b.task → ∀ s, b.run (a.run s) = a.run (b.run s)) →
      runAll l s = runAll l' s := by
  induction l' with
  | nil =>
    intro l s hlen _ _
    have : l = [] := List.length_eq_zero_iff.mp hlen
    subst this; rfl
  | cons x xs ih =>
    intro l s hlen hf hc
    have hx : stepsOf x.task l = x :: stepsOf x.task xs := by
      rw [hf]; simp [stepsOf]
    obtain ⟨a, b, hl, ha, _, hb⟩ := List.filter_eq_cons_iff.mp hx
    subst hl
    rw [runAll_append, runAll_cons, runAll_cons]
    have hmove : x.run (runAll a s) = runAll a (x.run s) := by
      symm
      apply runAll_move
      intro y hy s'
      have hy' : y ∈ x :: xs := mem_of_stepsOf_eq hf (by simp [hy])
      have hne : x.task ≠ y.task := by
        intro h
        have := ha y hy
        simp [h] at this
      exact hc x (by simp) y hy' hne s'
    rw [hmove, ← runAll_append]
    apply ih
    · simp at hlen ⊢; omega
    · intro t
      have := hf t
      simp only [stepsOf, List.filter_append, List.filter_cons] at this ⊢
      by_cases ht : x.task = t
      · have hae : a.filter (fun st => st.task == t) = [] := by
          rw [List.filter_eq_nil_iff]
          intro y hy
          have := ha y hy
          simpa [ht] using this
        simp [ht, hae] at this ⊢
        exact this
      · have : ¬ (x.task == t) = true := by simpa using ht
        simp only [this] at *
        simpa using ‹_›
    · intro a' ha' b' hb' hne s'
      exact hc a' (by simp [ha']) b' (by simp [hb']) hne s'

/-- (1) EVERY interleaving of the tasks' steps yields the state of the sequential order -/
theorem schedule_eq_sequential (tasks : List (List (Step α))) (sched : List (Step α)) (s : Nat → α)
    (hs : IsSchedule tasks sched)
    (hc : ∀ a ∈ tasks.flatten, ∀ b ∈ tasks.flatten, a.task ≠ b.task → ∀ s, b.run (a.run s) = a.run (b.run s)) :
    runAll sched s = runAll tasks.flatten s :=
  runAll_eq_of_stepsOf_eq _ sched s hs.1 hs.2 hc

theorem stepsOf_append (t : Nat) (a b : List (Step α)) : stepsOf t (a ++ b) = stepsOf t a ++ stepsOf t b := by
  simp [stepsOf]

/-- the sequential order is a schedule -/
theorem isSchedule_flatten (tasks : List (List (Step α))) : IsSchedule tasks tasks.flatten := ⟨rfl, fun _ => rfl⟩

/-- tasks carrying different task numbers: at most one of two has steps of task `t` -/
private theorem stepsOf_nil_of_ne (t : Nat) (x y : List (Step α)) (h : ∀ a ∈ x, ∀ b ∈ y, a.task ≠ b.task) :
    stepsOf t x = [] ∨ stepsOf t y = [] := by
  by_cases hx : stepsOf t x = []
  · exact Or.inl hx
  · right
    obtain ⟨a, ha⟩ := List.exists_mem_of_ne_nil _ hx
    have ha' := List.mem_filter.mp ha
    rw [stepsOf, List.filter_eq_nil_iff]
    intro b hb hbt
    have : a.task = t := by simpa using ha'.2
    have : b.task = t := by simpa using hbt
    exact h a ha'.1 b hb (by omega)

/-- EVERY permutation of whole tasks (execution orders at task granularity) is a schedule, when different tasks
    carry different task numbers -/
theorem perm_tasks_isSchedule (tasks tasks' : List (List (Step α))) (hperm : tasks.Perm tasks')
    (hdist : tasks.Pairwise (fun l l' => ∀ a ∈ l, ∀ b ∈ l', a.task ≠ b.task)) :
    IsSchedule tasks tasks'.flatten := by
  constructor
  · have := (hperm.map List.length).sum_nat
    simp [List.length_flatten, this]
  · intro t
    induction hperm with
    | nil => rfl
    | cons x _ ih =>
      have hd := List.pairwise_cons.mp hdist
      simp only [List.flatten_cons, stepsOf_append]
      rw [ih hd.2]
    | swap x y l =>
      have hd := List.pairwise_cons.mp hdist
      have hxy := hd.1 x (by simp)
      simp only [List.flatten_cons, stepsOf_append, ← List.append_assoc]
      congr 1
      rcases stepsOf_nil_of_ne t y x hxy with h | h <;> simp [h]
    | trans h1 _ ih1 ih2 =>
      have hsymm : ∀ {l l' : List (Step α)}, (∀ a ∈ l, ∀ b ∈ l', a.task ≠ b.task) → ∀ a ∈ l', ∀ b ∈ l, a.task ≠ b.task :=
        fun h a ha b hb e => h b hb a ha e.symm
      have hd2 := (h1.pairwise_iff (fun {_ _} h => hsymm h)).mp hdist
      rw [ih2 hd2, ih1 hdist]

end WinterProofs.C14
