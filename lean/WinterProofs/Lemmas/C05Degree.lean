-- C05, degree side of FRI folding: why the honest folding of an over-degree polynomial is caught.
--
-- `foldPoly N f α` has degree at most `deg f / N`, and its coefficient at `deg f / N` is the value
-- at `α` of the fixed non-zero polynomial `leadPoly N f` of degree `< N`.  So unless the challenge
-- `α` is one of the `< N` roots of `leadPoly N f`, a polynomial of degree `≥ N·m` folds to a
-- polynomial of degree `≥ m`; iterating over all layers, the last layer is then not the
-- evaluation of any polynomial within the remainder degree bound.
import WinterProofs.Lemmas.C15Algebra

namespace WinterProofs.FriAlg

open Polynomial Finset

variable {F : Type*} [Field F]

/-- The polynomial in the challenge whose value is the top coefficient of the folded polynomial:
`Σ_{k<N} c_{N·⌊d/N⌋+k} X^k` with `d = deg f`. -/
noncomputable def leadPoly (N : ℕ) (f : F[X]) : F[X] :=
  ∑ k ∈ range N, C (f.coeff (N * (f.natDegree / N) + k)) * X ^ k

/-! ### One folding step -/

theorem natDegree_foldPoly_le {N : ℕ} (hN : 0 < N) (f : F[X]) (α : F) :
    (foldPoly N f α).natDegree ≤ f.natDegree / N := by
  rw [natDegree_le_iff_coeff_eq_zero]
  intro m hm
  rw [coeff_foldPoly hN]
  refine Finset.sum_eq_zero fun k _ => ?_
  have h1 : f.natDegree < N * (f.natDegree / N + 1) := Nat.lt_mul_div_succ _ hN
  have h2 : N * (f.natDegree / N + 1) ≤ N * m := Nat.mul_le_mul_left N hm
  have h3 : f.natDegree < N * m + k := by omega
  rw [coeff_eq_zero_of_natDegree_lt h3, mul_zero]

theorem eval_leadPoly (N : ℕ) (f : F[X]) (α : F) :
    (leadPoly N f).eval α = ∑ k ∈ range N, α ^ k * f.coeff (N * (f.natDegree / N) + k) := by
  unfold leadPoly
  rw [eval_finsetSum]
  refine Finset.sum_congr rfl fun k _ => ?_
  rw [eval_mul, eval_C, eval_pow, eval_X, mul_comm]

theorem coeff_foldPoly_top {N : ℕ} (hN : 0 < N) (f : F[X]) (α : F) :
    (foldPoly N f α).coeff (f.natDegree / N) = (leadPoly N f).eval α := by
  rw [coeff_foldPoly hN, eval_leadPoly]

theorem coeff_leadPoly (N : ℕ) (f : F[X]) (j : ℕ) :
    (leadPoly N f).coeff j = if j < N then f.coeff (N * (f.natDegree / N) + j) else 0 := by
  unfold leadPoly
  rw [finsetSum_coeff]
  simp only [coeff_C_mul_X_pow]
  rw [Finset.sum_ite_eq]
  simp only [Finset.mem_range]

theorem leadPoly_ne_zero {N : ℕ} (hN : 0 < N) {f : F[X]} (hf : f ≠ 0) : leadPoly N f ≠ 0 := by
  intro h
  have hc : (leadPoly N f).coeff (f.natDegree % N) = 0 := by rw [h, coeff_zero]
  rw [coeff_leadPoly, if_pos (Nat.mod_lt _ hN), Nat.div_add_mod] at hc
  exact hf (leadingCoeff_eq_zero.mp hc)

theorem natDegree_leadPoly_lt {N : ℕ} (hN : 0 < N) (f : F[X]) : (leadPoly N f).natDegree < N := by
  have h : (leadPoly N f).natDegree ≤ N - 1 := by
    rw [natDegree_le_iff_coeff_eq_zero]
    intro j hj
    rw [coeff_leadPoly, if_neg (by omega)]
  omega

/-- At most `N - 1` challenges are bad for a given non-zero polynomial. -/
theorem card_roots_leadPoly_lt {N : ℕ} (hN : 0 < N) (f : F[X]) :
    Multiset.card (leadPoly N f).roots < N :=
  lt_of_le_of_lt (card_roots' _) (natDegree_leadPoly_lt hN f)

theorem natDegree_foldPoly_eq {N : ℕ} (hN : 0 < N) {f : F[X]} {α : F}
    (h : (leadPoly N f).eval α ≠ 0) : (foldPoly N f α).natDegree = f.natDegree / N := by
  refine le_antisymm (natDegree_foldPoly_le hN f α) ?_
  refine le_natDegree_of_ne_zero ?_
  rw [coeff_foldPoly_top hN]
  exact h

/-- A polynomial of degree `> N·m − 1` (the bound) folds to degree `> m − 1` (the next bound)
unless `α` is a root of `leadPoly N f`. -/
theorem over_degree_fold {N : ℕ} (hN : 0 < N) {f : F[X]} {α : F} (m : ℕ)
    (hdeg : N * m ≤ f.natDegree) (hα : (leadPoly N f).eval α ≠ 0) :
    m ≤ (foldPoly N f α).natDegree := by
  rw [natDegree_foldPoly_eq hN hα, Nat.le_div_iff_mul_le hN, mul_comm]
  exact hdeg

/-- Converse sanity lemma: within the bound stays within the bound (`0 < m` is implied). -/
theorem low_degree_fold {N : ℕ} (hN : 0 < N) {f : F[X]} (α : F) (m : ℕ)
    (h : f.natDegree < N * m) : (foldPoly N f α).natDegree < m := by
  refine lt_of_le_of_lt (natDegree_foldPoly_le hN f α) ?_
  rw [Nat.div_lt_iff_lt_mul hN, mul_comm]
  exact h

/-! ### Re-reading a layer over the same offset -/

theorem natDegree_comp_C_mul_X {c : F} (hc : c ≠ 0) (p : F[X]) :
    (p.comp (C c * X)).natDegree = p.natDegree := by
  rw [natDegree_comp, natDegree_C_mul_X c hc, mul_one]

theorem eval_comp_C_mul_X (c y : F) (p : F[X]) :
    (p.comp (C c * X)).eval y = p.eval (c * y) := by
  rw [eval_comp, eval_mul, eval_C, eval_X]

/-! ### Uniqueness on a large enough domain -/

theorem not_low_degree_of_evals (g r : F[X]) (s : Finset F) (hs : g.natDegree < s.card)
    (hr : r.natDegree < s.card) (h : ∀ y ∈ s, g.eval y = r.eval y) : g = r := by
  refine eq_of_degrees_lt_of_eval_finset_eq s ?_ ?_ h
  · exact lt_of_le_of_lt degree_le_natDegree (Nat.cast_lt.mpr hs)
  · exact lt_of_le_of_lt degree_le_natDegree (Nat.cast_lt.mpr hr)

/-- The last layer of an over-degree polynomial is not the evaluation of any polynomial with
`≤ m` coefficients. -/
theorem over_degree_not_remainder (g r : F[X]) (s : Finset F) (m : ℕ)
    (hg : g.natDegree < s.card) (hm : m ≤ g.natDegree) (hr : r.natDegree < m) :
    ¬ ∀ y ∈ s, g.eval y = r.eval y := by
  intro h
  have heq : g = r := not_low_degree_of_evals g r s hg (by omega) h
  rw [heq] at hm
  omega

/-! ### All layers -/

/-- The polynomial of the last layer: fold with each challenge in turn, re-reading each folded
layer over the same offset (`c = offset^(N-1)`). -/
noncomputable def foldLayers (N : ℕ) (c : F) : List F → F[X] → F[X]
  | [], f => f
  | α :: αs, f => foldLayers N c αs ((foldPoly N f α).comp (C c * X))

/-- No challenge is a root of the `leadPoly` of the polynomial it folds. -/
def GoodChallenges (N : ℕ) (c : F) : List F → F[X] → Prop
  | [], _ => True
  | α :: αs, f =>
      (leadPoly N f).eval α ≠ 0 ∧ GoodChallenges N c αs ((foldPoly N f α).comp (C c * X))

theorem over_degree_foldLayers {N : ℕ} (hN : 0 < N) {c : F} (hc : c ≠ 0) (αs : List F) (f : F[X])
    (m : ℕ) (hdeg : N ^ αs.length * m ≤ f.natDegree) (hgood : GoodChallenges N c αs f) :
    m ≤ (foldLayers N c αs f).natDegree := by
  induction αs generalizing f with
  | nil =>
    simpa only [List.length_nil, pow_zero, one_mul, foldLayers] using hdeg
  | cons α αs ih =>
    obtain ⟨hα, hrest⟩ := hgood
    rw [foldLayers]
    refine ih _ ?_ hrest
    rw [natDegree_comp_C_mul_X hc]
    refine over_degree_fold hN _ ?_ hα
    rw [List.length_cons, pow_succ, mul_comm (N ^ αs.length) N, mul_assoc] at hdeg
    exact hdeg

/-- Converse sanity lemma: an in-bound polynomial stays in bound through all layers. -/
theorem low_degree_foldLayers {N : ℕ} (hN : 0 < N) {c : F} (hc : c ≠ 0) (αs : List F) (f : F[X])
    (m : ℕ) (hdeg : f.natDegree < N ^ αs.length * m) :
    (foldLayers N c αs f).natDegree < m := by
  induction αs generalizing f with
  | nil =>
    simpa only [List.length_nil, pow_zero, one_mul, foldLayers] using hdeg
  | cons α αs ih =>
    rw [foldLayers]
    refine ih _ ?_
    rw [natDegree_comp_C_mul_X hc]
    refine low_degree_fold hN α _ ?_
    rw [List.length_cons, pow_succ, mul_comm (N ^ αs.length) N, mul_assoc] at hdeg
    exact hdeg

/-- End to end: an over-degree polynomial, folded honestly with good challenges, yields a last
layer that is not the evaluation over `s` of any polynomial of degree `< m`. -/
theorem over_degree_rejected {N : ℕ} (hN : 0 < N) {c : F} (hc : c ≠ 0) (αs : List F) (f r : F[X])
    (m : ℕ) (s : Finset F) (hdeg : N ^ αs.length * m ≤ f.natDegree)
    (hgood : GoodChallenges N c αs f) (hs : (foldLayers N c αs f).natDegree < s.card)
    (hr : r.natDegree < m) :
    ¬ ∀ y ∈ s, (foldLayers N c αs f).eval y = r.eval y :=
  over_degree_not_remainder _ r s m hs (over_degree_foldLayers hN hc αs f m hdeg hgood) hr

/-! ### Examples: the hypotheses are satisfiable -/

section Examples

private theorem natDegree_ex : (X ^ 5 + 1 : ℚ[X]).natDegree = 5 := by
  rw [← C_1, natDegree_X_pow_add_C]

private theorem leadPoly_ex : leadPoly 2 (X ^ 5 + 1 : ℚ[X]) = X := by
  unfold leadPoly
  rw [natDegree_ex]
  simp only [Finset.sum_range_succ, Finset.sum_range_zero, zero_add, coeff_add, coeff_X_pow,
    coeff_one]
  norm_num

/-- `f = X^5 + 1` has degree `5 ≥ 2·2`, the challenge `α = 1` is good, so the fold has degree
`≥ 2` (in fact `= 2`). -/
example : 2 ≤ (foldPoly 2 (X ^ 5 + 1 : ℚ[X]) 1).natDegree := by
  refine over_degree_fold (by norm_num) 2 ?_ ?_
  · rw [natDegree_ex]
    norm_num
  · rw [leadPoly_ex, eval_X]
    norm_num

example : (foldPoly 2 (X ^ 5 + 1 : ℚ[X]) 1).natDegree = 2 := by
  have h : (leadPoly 2 (X ^ 5 + 1 : ℚ[X])).eval 1 ≠ 0 := by
    rw [leadPoly_ex, eval_X]
    norm_num
  rw [natDegree_foldPoly_eq (by norm_num) h, natDegree_ex]

example : GoodChallenges 2 (3 : ℚ) [1] (X ^ 5 + 1 : ℚ[X]) := by
  refine ⟨?_, trivial⟩
  rw [leadPoly_ex, eval_X]
  norm_num

example : 2 ≤ (foldLayers 2 (3 : ℚ) [1] (X ^ 5 + 1 : ℚ[X])).natDegree := by
  refine over_degree_foldLayers (by norm_num) (by norm_num) [1] _ 2 ?_ ?_
  · rw [natDegree_ex]
    norm_num
  · refine ⟨?_, trivial⟩
    rw [leadPoly_ex, eval_X]
    norm_num

end Examples

end WinterProofs.FriAlg
