-- C20 helper lemmas, part 5: power series, in-place accumulation, batch inversion, and the chunked
-- (`concurrent`) variants of the batched utilities.
import WinterProofs.Lemmas.C20Roots
import Mathlib.Tactic.FieldSimp

namespace WinterProofs.C20
open Model.Poly Polynomial

variable {α β F : Type} [Field F]

section
variable {O : Ops α} {v : α → F}

-- ------------------------------------------------------------------ power series

theorem map_fillPowerSeries (L : Lawful O v) (base : α) (n : Nat) (start : α) :
    (fillPowerSeries O base n start).map v = (List.range n).map fun i => v start * v base ^ i := by
  induction n generalizing start with
  | zero => rfl
  | succ n ih =>
    rw [fillPowerSeries, List.map_cons, ih, List.range_succ_eq_map, List.map_cons, List.map_map]
    simp only [pow_zero, mul_one, L.mul, List.cons.injEq, true_and]
    apply List.map_congr_left
    intro i _
    simp [pow_succ]; ring

theorem length_fillPowerSeries (base : α) (n : Nat) (start : α) :
    (fillPowerSeries O base n start).length = n := by
  induction n generalizing start with
  | zero => rfl
  | succ n ih => simp [fillPowerSeries, ih]

/-- `get_power_series(b, n) = [b^i | i < n]`, for every `n` including 0 -/
theorem map_getPowerSeries (L : Lawful O v) (b : α) (n : Nat) :
    (getPowerSeries O b n).map v = (List.range n).map fun i => v b ^ i := by
  rw [getPowerSeries, map_fillPowerSeries L]
  simp [L.pow]

/-- `get_power_series_with_offset(b, s, n) = [s * b^i | i < n]` -/
theorem map_getPowerSeriesWithOffset (L : Lawful O v) (b s : α) (n : Nat) :
    (getPowerSeriesWithOffset O b s n).map v = (List.range n).map fun i => v s * v b ^ i := by
  rw [getPowerSeriesWithOffset, map_fillPowerSeries L]
  simp [L.pow, L.mul]

-- ------------------------------------------------------------------ chunking

/-- the spans produced by `par_chunks_mut(bs)` tile `[off, off + n)` -/
theorem chunkSpans_tile {γ : Type} (f : Nat → γ) (bs fuel off n : Nat) (hf : n ≤ fuel) (hbs : 0 < bs) :
    ((chunkSpans bs fuel off n).map fun s => (List.range s.2).map fun i => f (s.1 + i)).flatten
      = (List.range n).map fun i => f (off + i) := by
  induction fuel generalizing off n with
  | zero =>
    have : n = 0 := by omega
    subst this; simp [chunkSpans]
  | succ fuel ih =>
    unfold chunkSpans
    by_cases h0 : n = 0
    · subst h0; simp
    · have hbs' : bs ≠ 0 := by omega
      by_cases h1 : n ≤ bs
      · simp [h0, hbs', h1]
      · simp only [h0, hbs', or_self, if_false, h1, List.map_cons, List.flatten_cons]
        rw [ih (off + bs) (n - bs) (by omega)]
        have hn : n = bs + (n - bs) := by omega
        conv_rhs => rw [hn, List.range_add, List.map_append, List.map_map]
        congr 1
        apply List.map_congr_left
        intro i _
        simp [Nat.add_assoc]

/-- the batches of `batch_iter_mut!` tile `[0, n)` for every number of threads -/
theorem batchSpans_tile {γ : Type} (f : Nat → γ) (threads n : Nat) :
    ((batchSpans threads n).map fun s => (List.range s.2).map fun i => f (s.1 + i)).flatten
      = (List.range n).map f := by
  unfold batchSpans
  simp only
  split
  · simp
  · rename_i h
    rw [chunkSpans_tile f _ n 0 n (le_refl _) (by omega)]
    simp

/-- chunked power series = serial power series, for every number of threads -/
theorem map_getPowerSeriesConc (L : Lawful O v) (threads : Nat) (b : α) (n : Nat) :
    (getPowerSeriesConc O threads b n).map v = (getPowerSeries O b n).map v := by
  rw [map_getPowerSeries L, getPowerSeriesConc, List.map_flatten, List.map_map]
  have : (List.map v ∘ fun s : Nat × Nat => fillPowerSeries O b s.2 (O.pow b s.1))
      = fun s => (List.range s.2).map fun i => v b ^ (s.1 + i) := by
    funext s
    simp [map_fillPowerSeries L, L.pow, pow_add]
  rw [this, batchSpans_tile (fun i => v b ^ i)]

theorem map_getPowerSeriesWithOffsetConc (L : Lawful O v) (threads : Nat) (b s : α) (n : Nat) :
    (getPowerSeriesWithOffsetConc O threads b s n).map v = (getPowerSeriesWithOffset O b s n).map v := by
  rw [map_getPowerSeriesWithOffset L, getPowerSeriesWithOffsetConc, List.map_flatten, List.map_map]
  have : (List.map v ∘ fun sp : Nat × Nat => fillPowerSeries O b sp.2 (O.mul s (O.pow b sp.1)))
      = fun sp => (List.range sp.2).map fun i => v s * v b ^ (sp.1 + i) := by
    funext sp
    simp [map_fillPowerSeries L, L.pow, L.mul, pow_add, mul_assoc]
  rw [this, batchSpans_tile (fun i => v s * v b ^ i)]

-- ------------------------------------------------------------------ add_in_place / mul_acc

theorem addInPlace_spec (L : Lawful O v) (a b : List α) (h : a.length = b.length) :
    ∃ r, addInPlace O a b = .ok r ∧ r.length = a.length ∧
      r.map v = List.zipWith (· + ·) (a.map v) (b.map v) := by
  refine ⟨List.zipWith O.add a b, by simp [addInPlace, h], by simp [h], ?_⟩
  rw [List.map_zipWith, List.zipWith_map]
  simp [L.add]

theorem addInPlace_panic_iff (a b : List α) :
    (∃ s, addInPlace O a b = .panic s) ↔ a.length ≠ b.length := by
  unfold addInPlace; split <;> simp_all

theorem mulAcc_spec (L : Lawful O v) (mulBase : α → β → α) (w : β → F)
    (hmb : ∀ c y, v (mulBase c y) = v c * w y) (a : List α) (b : List β) (c : α)
    (h : a.length = b.length) :
    ∃ r, mulAcc O mulBase a b c = .ok r ∧ r.length = a.length ∧
      r.map v = List.zipWith (fun x y => x + y * v c) (a.map v) (b.map w) := by
  refine ⟨List.zipWith (fun x y => O.add x (mulBase c y)) a b, by simp [mulAcc, h], by simp [h], ?_⟩
  rw [List.map_zipWith, List.zipWith_map]
  simp [L.add, hmb, mul_comm]

theorem mulAcc_panic_iff (mulBase : α → β → α) (a : List α) (b : List β) (c : α) :
    (∃ s, mulAcc O mulBase a b c = .panic s) ↔ a.length ≠ b.length := by
  unfold mulAcc; split <;> simp_all


-- ------------------------------------------------------------------ batch inversion

open Classical in
/-- the factor a value contributes to the running product: zeros are skipped -/
noncomputable def nz (x : F) : F := if x = 0 then 1 else x

open Classical in
/-- the specified result of batch inversion: `x⁻¹` for `x ≠ 0`, `0` for `x = 0` -/
noncomputable def inv0 (x : F) : F := if x = 0 then 0 else x⁻¹

theorem nz_ne_zero (x : F) : nz x ≠ 0 := by
  unfold nz; split <;> simp_all

theorem length_binvForward (vals : List α) (last : α) :
    (binvForward O vals last).1.length = vals.length := by
  induction vals generalizing last with
  | nil => rfl
  | cons x xs ih => simp [binvForward, ih]

theorem v_binvForward_snd (L : Lawful O v) (vals : List α) (last : α) :
    v (binvForward O vals last).2 = v last * (vals.map fun x => nz (v x)).prod := by
  induction vals generalizing last with
  | nil => simp [binvForward]
  | cons x xs ih =>
    simp only [binvForward, List.map_cons, List.prod_cons]
    rw [ih]
    by_cases hx : O.isZero x = true
    · have : v x = 0 := (L.isZero x).1 hx
      simp [hx, nz, this]
    · have : v x ≠ 0 := fun h => hx ((L.isZero x).2 h)
      simp [hx, nz, this, L.mul, mul_assoc]

/-- the two loops of `serial_batch_inversion` on a suffix of the values: `A` is the running product
    before the suffix, `li` the inverse of the running product after it -/
theorem binv_aux (L : Lawful O v) (vals : List α) (last li : α) (hA : v last ≠ 0)
    (hli : v li = (v last * (vals.map fun x => nz (v x)).prod)⁻¹) :
    ((binvBackward O (vals.zip (binvForward O vals last).1) li).1.map v = vals.map fun x => inv0 (v x)) ∧
    v (binvBackward O (vals.zip (binvForward O vals last).1) li).2 = (v last)⁻¹ := by
  induction vals generalizing last with
  | nil => simpa [binvForward, binvBackward] using hli
  | cons x xs ih =>
    simp only [binvForward, List.zip_cons_cons, binvBackward, List.map_cons, List.prod_cons] at hli ⊢
    by_cases hx : O.isZero x = true
    · have hv : v x = 0 := (L.isZero x).1 hx
      have := ih last hA (by simpa [nz, hv] using hli)
      simp only [hx, if_true] at this ⊢
      refine ⟨?_, this.2⟩
      simp [this.1, L.zero, inv0, hv]
    · have hv : v x ≠ 0 := fun h => hx ((L.isZero x).2 h)
      have hx' : O.isZero x = false := by simpa using hx
      have hA' : v (O.mul last x) ≠ 0 := by rw [L.mul]; exact mul_ne_zero hA hv
      have := ih (O.mul last x) hA' (by rw [L.mul]; simpa [nz, hv, mul_assoc] using hli)
      simp only [hx'] at this ⊢
      simp only [Bool.false_eq_true, if_false]
      refine ⟨?_, ?_⟩
      · simp only [List.map_cons, this.1, L.mul, this.2, List.cons.injEq, and_true]
        rw [inv0, if_neg hv]
        field_simp
      · rw [L.mul, this.2, L.mul]
        field_simp

/-- `serial_batch_inversion`: when it returns, the result is `x_i⁻¹` where `x_i ≠ 0` and `0` elsewhere,
    for every pattern of zeros -/
theorem serialBatchInversion_spec (L : Lawful O v) (vals r : List α)
    (h : serialBatchInversion O vals = .ok r) :
    r.length = vals.length ∧ r.map v = vals.map fun x => inv0 (v x) := by
  unfold serialBatchInversion at h
  simp only at h
  cases hi : O.inv (binvForward O vals O.one).2 with
  | none => simp [hi] at h
  | some li =>
    simp only [hi, Res.ok.injEq] at h
    have hli := L.inv _ _ hi
    rw [v_binvForward_snd L] at hli
    have := binv_aux L vals O.one li (by rw [L.one]; exact one_ne_zero) hli
    subst h
    refine ⟨?_, this.1⟩
    have := congrArg List.length this.1
    simpa using this

theorem serialBatchInversion_no_panic (vals : List α) (s : String) :
    serialBatchInversion O vals ≠ .panic s := by
  unfold serialBatchInversion
  simp only
  cases O.inv (binvForward O vals O.one).2 <;> simp

theorem serialBatchInversion_total (hT : Total O) (vals : List α) :
    ∃ r, serialBatchInversion O vals = .ok r := by
  unfold serialBatchInversion
  simp only
  obtain ⟨li, hli⟩ := hT (binvForward O vals O.one).2
  exact ⟨_, by rw [hli]⟩


-- ------------------------------------------------------------------ chunked batch inversion

theorem chunkSpans_tile_list {γ : Type} (l : List γ) (bs fuel off n : Nat) (hf : n ≤ fuel) (hbs : 0 < bs) :
    ((chunkSpans bs fuel off n).map fun s => (l.drop s.1).take s.2).flatten = (l.drop off).take n := by
  induction fuel generalizing off n with
  | zero =>
    have : n = 0 := by omega
    subst this; simp [chunkSpans]
  | succ fuel ih =>
    unfold chunkSpans
    by_cases h0 : n = 0
    · subst h0; simp
    · have hbs' : bs ≠ 0 := by omega
      by_cases h1 : n ≤ bs
      · simp [h0, hbs', h1]
      · simp only [h0, hbs', or_self, if_false, h1, List.map_cons, List.flatten_cons]
        rw [ih (off + bs) (n - bs) (by omega)]
        have hn : n = bs + (n - bs) := by omega
        conv_rhs => rw [hn, List.take_add, List.drop_drop]

theorem batchSpans_tile_list {γ : Type} (l : List γ) (threads : Nat) :
    ((batchSpans threads l.length).map fun s => (l.drop s.1).take s.2).flatten = l := by
  unfold batchSpans
  simp only
  split
  · simp
  · rename_i h
    rw [chunkSpans_tile_list l _ l.length 0 l.length (le_refl _) (by omega)]
    simp

/-- chunked batch inversion (any number of threads): when it returns, the result is the specified one,
    hence equal (as field elements) to the result of the serial version -/
theorem batchInversionConc_spec (L : Lawful O v) (threads : Nat) (vals r : List α)
    (h : batchInversionConc O threads vals = .ok r) :
    r.map v = vals.map fun x => inv0 (v x) := by
  unfold batchInversionConc at h
  cases hp : mapM' (fun s : Nat × Nat => serialBatchInversion O ((vals.drop s.1).take s.2))
      (batchSpans threads vals.length) with
  | ok parts =>
    rw [hp, bind_ok] at h
    simp only [Res.ok.injEq] at h
    subst h
    have h2 := forall₂_map_eq (G := List.map v)
      (H := fun s : Nat × Nat => ((vals.drop s.1).take s.2).map fun x => inv0 (v x))
      (mapM'_ok hp) (fun s part hs => (serialBatchInversion_spec L _ _ hs).2)
    rw [List.map_flatten, h2]
    have := congrArg (List.map fun x => inv0 (v x)) (batchSpans_tile_list vals threads)
    rw [List.map_flatten, List.map_map] at this
    exact this
  | panic s => rw [hp] at h; cases h
  | hang => rw [hp] at h; cases h

theorem batchInversionConc_total (hT : Total O) (threads : Nat) (vals : List α) :
    ∃ r, batchInversionConc O threads vals = .ok r := by
  obtain ⟨parts, hp⟩ := mapM'_total (f := fun s : Nat × Nat => serialBatchInversion O ((vals.drop s.1).take s.2))
    (l := batchSpans threads vals.length) (fun s _ => serialBatchInversion_total hT _)
  exact ⟨parts.flatten, by simp [batchInversionConc, hp]⟩

end

end WinterProofs.C20
