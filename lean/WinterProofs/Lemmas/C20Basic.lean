-- C20 helper lemmas, part 1: field-like operation records, coefficient lists as Mathlib polynomials,
-- evaluation, addition, subtraction, scalar multiplication, degree.
import Winter.Model.Poly
import Mathlib.Algebra.Polynomial.Div
import Mathlib.Algebra.Polynomial.RingDivision
import Mathlib.Tactic.Ring
import Mathlib.Tactic.Linarith

namespace WinterProofs.C20
open Model.Poly Polynomial

variable {α β F : Type} [Field F]

/-- The operation record `O` computes in the field `F` through the valuation `v`
    (`v` = identity for `Ops.ofField`; `v` = "residue denoted by a raw word" for the records the
    driver executes — that instance is the subject of C07/C08). Inversion is only required to be
    correct *when it returns*; that it returns is the separate hypothesis `Total`. -/
structure Lawful (O : Ops α) (v : α → F) : Prop where
  zero : v O.zero = 0
  one : v O.one = 1
  add : ∀ a b, v (O.add a b) = v a + v b
  sub : ∀ a b, v (O.sub a b) = v a - v b
  mul : ∀ a b, v (O.mul a b) = v a * v b
  inv : ∀ a b, O.inv a = some b → v b = (v a)⁻¹
  isZero : ∀ a, O.isZero a = true ↔ v a = 0
  isOne : ∀ a, O.isOne a = true ↔ v a = 1
  pow : ∀ a n, v (O.pow a n) = v a ^ n

/-- every inversion returns (no `hang`) -/
def Total (O : Ops α) : Prop := ∀ a, ∃ b, O.inv a = some b

/-- the operations of a Mathlib field, as a record -/
def Ops.ofField (F : Type) [Field F] [DecidableEq F] : Ops F where
  zero := 0
  one := 1
  add := (· + ·)
  sub := (· - ·)
  mul := (· * ·)
  inv := fun x => some x⁻¹
  isZero := fun x => decide (x = 0)
  isOne := fun x => decide (x = 1)
  pow := fun x n => x ^ n

theorem lawful_ofField [DecidableEq F] : Lawful (Ops.ofField F) (id : F → F) where
  zero := rfl
  one := rfl
  add := fun _ _ => rfl
  sub := fun _ _ => rfl
  mul := fun _ _ => rfl
  inv := fun a b h => by
    have : b = a⁻¹ := by simpa [Ops.ofField] using h.symm
    simp [this]
  isZero := fun a => by simp [Ops.ofField]
  isOne := fun a => by simp [Ops.ofField]
  pow := fun _ _ => rfl

theorem total_ofField [DecidableEq F] : Total (Ops.ofField F) := fun a => ⟨a⁻¹, rfl⟩

-- ------------------------------------------------------------------ coefficient lists

/-- the polynomial with coefficient list `l` (coefficient `i` at position `i`) -/
noncomputable def ofCoeffs : List F → F[X]
  | [] => 0
  | c :: cs => C c + X * ofCoeffs cs

/-- the polynomial denoted by a list of raw elements -/
noncomputable def toPoly (v : α → F) (l : List α) : F[X] := ofCoeffs (l.map v)

@[simp] theorem ofCoeffs_nil : ofCoeffs ([] : List F) = 0 := rfl
@[simp] theorem ofCoeffs_cons (c : F) (cs : List F) : ofCoeffs (c :: cs) = C c + X * ofCoeffs cs := rfl
@[simp] theorem toPoly_nil (v : α → F) : toPoly v [] = 0 := rfl
@[simp] theorem toPoly_cons (v : α → F) (c : α) (cs : List α) :
    toPoly v (c :: cs) = C (v c) + X * toPoly v cs := rfl

theorem coeff_ofCoeffs (l : List F) (i : Nat) : (ofCoeffs l).coeff i = l.getD i 0 := by
  induction l generalizing i with
  | nil => simp
  | cons c cs ih =>
    cases i with
    | zero => simp
    | succ i => simp [ih, coeff_C_succ]

theorem ofCoeffs_append (l₁ l₂ : List F) :
    ofCoeffs (l₁ ++ l₂) = ofCoeffs l₁ + X ^ l₁.length * ofCoeffs l₂ := by
  induction l₁ with
  | nil => simp
  | cons c cs ih => simp [ih, pow_succ]; ring

theorem ofCoeffs_replicate_zero (n : Nat) : ofCoeffs (List.replicate n (0 : F)) = 0 := by
  induction n with
  | zero => rfl
  | succ n ih => simp [List.replicate_succ, ih]

theorem degree_ofCoeffs_lt (l : List F) : (ofCoeffs l).degree < l.length := by
  rw [degree_lt_iff_coeff_zero]
  intro m hm
  rw [coeff_ofCoeffs]
  simp [List.getD_eq_getElem?_getD, List.getElem?_eq_none hm]

theorem ofCoeffs_set (l : List F) (k : Nat) (c : F) (hk : k < l.length) :
    ofCoeffs (l.set k c) = ofCoeffs l + C (c - l[k]) * X ^ k := by
  induction l generalizing k with
  | nil => simp at hk
  | cons d ds ih =>
    cases k with
    | zero => simp; ring
    | succ k =>
      have hk' : k < ds.length := by simpa using hk
      simp [ih k hk', pow_succ]; ring

/-- a coefficient list is determined by its length and its polynomial -/
theorem ofCoeffs_injective {l₁ l₂ : List F} (hlen : l₁.length = l₂.length)
    (h : ofCoeffs l₁ = ofCoeffs l₂) : l₁ = l₂ := by
  apply List.ext_getElem hlen
  intro i h1 h2
  have := congrArg (fun p => p.coeff i) h
  simpa [coeff_ofCoeffs, List.getD_eq_getElem?_getD, h1, h2] using this

theorem eval_ofCoeffs_cons (c : F) (cs : List F) (x : F) :
    (ofCoeffs (c :: cs)).eval x = (ofCoeffs cs).eval x * x + c := by
  simp; ring

theorem toPoly_length_lt (v : α → F) (l : List α) : (toPoly v l).degree < l.length := by
  simpa [toPoly] using degree_ofCoeffs_lt (l.map v)

theorem toPoly_injective_on {v : α → F} {l₁ l₂ : List α} (hlen : l₁.length = l₂.length)
    (h : toPoly v l₁ = toPoly v l₂) : l₁.map v = l₂.map v :=
  ofCoeffs_injective (by simpa using hlen) h


-- ------------------------------------------------------------------ evaluation

section
variable {O : Ops α} {v : α → F}

theorem evalWith_nil (cast : β → α) (x : α) : evalWith O cast [] x = O.zero := rfl

theorem evalWith_cons (cast : β → α) (c : β) (p : List β) (x : α) :
    evalWith O cast (c :: p) x = O.add (O.mul (evalWith O cast p x) x) (cast c) := by
  simp [evalWith, List.foldl_append]

theorem v_evalWith (L : Lawful O v) (cast : β → α) (w : β → F) (hc : ∀ c, v (cast c) = w c)
    (p : List β) (x : α) : v (evalWith O cast p x) = (ofCoeffs (p.map w)).eval (v x) := by
  induction p with
  | nil => simp [evalWith_nil, L.zero]
  | cons c cs ih =>
    rw [evalWith_cons, L.add, L.mul, ih, hc, List.map_cons, eval_ofCoeffs_cons]

theorem v_eval (L : Lawful O v) (p : List α) (x : α) :
    v (eval O p x) = (toPoly v p).eval (v x) :=
  v_evalWith L id v (fun _ => rfl) p x

-- ------------------------------------------------------------------ add / sub / scalar

theorem v_coeff (L : Lawful O v) (a : List α) (i : Nat) :
    v (Model.Poly.coeff O a i) = (toPoly v a).coeff i := by
  rw [toPoly, coeff_ofCoeffs, Model.Poly.coeff, List.getD_eq_getElem?_getD, List.getElem?_map]
  cases a[i]? <;> simp [L.zero]

theorem length_add (a b : List α) : (add O a b).length = max a.length b.length := by
  simp [add]

theorem length_sub (a b : List α) : (sub O a b).length = max a.length b.length := by
  simp [sub]

theorem coeff_toPoly_range_map (n : Nat) (f : Nat → α) (i : Nat) :
    (toPoly v ((List.range n).map f)).coeff i = if i < n then v (f i) else 0 := by
  rw [toPoly, coeff_ofCoeffs, List.getD_eq_getElem?_getD, List.getElem?_map, List.getElem?_map]
  by_cases h : i < n
  · simp [h]
  · simp [h]

theorem toPoly_add (L : Lawful O v) (a b : List α) :
    toPoly v (add O a b) = toPoly v a + toPoly v b := by
  ext i
  rw [add, coeff_toPoly_range_map, coeff_add, ← v_coeff L, ← v_coeff L]
  split
  · rw [L.add]
  · rename_i h
    have ha : a.length ≤ i := by omega
    have hb : b.length ≤ i := by omega
    simp [Model.Poly.coeff, List.getElem?_eq_none ha, List.getElem?_eq_none hb, L.zero]

theorem toPoly_sub (L : Lawful O v) (a b : List α) :
    toPoly v (sub O a b) = toPoly v a - toPoly v b := by
  ext i
  rw [sub, coeff_toPoly_range_map, coeff_sub, ← v_coeff L, ← v_coeff L]
  split
  · rw [L.sub]
  · rename_i h
    have ha : a.length ≤ i := by omega
    have hb : b.length ≤ i := by omega
    simp [Model.Poly.coeff, List.getElem?_eq_none ha, List.getElem?_eq_none hb, L.zero]

theorem toPoly_mulByScalar (L : Lawful O v) (p : List α) (k : α) :
    toPoly v (mulByScalar O p k) = toPoly v p * C (v k) := by
  induction p with
  | nil => simp [mulByScalar]
  | cons c cs ih =>
    have : mulByScalar O (c :: cs) k = O.mul c k :: mulByScalar O cs k := rfl
    rw [this, toPoly_cons, ih, toPoly_cons, L.mul, C_mul]; ring

end


-- ------------------------------------------------------------------ degree_of / remove_leading_zeros

section
variable {O : Ops α} {v : α → F}

theorem toPoly_append (l₁ l₂ : List α) :
    toPoly v (l₁ ++ l₂) = toPoly v l₁ + X ^ l₁.length * toPoly v l₂ := by
  simp [toPoly, ofCoeffs_append]

/-- a list of elements that all compare equal to ZERO denotes the zero polynomial -/
theorem toPoly_eq_zero_of_all_isZero (L : Lawful O v) (l : List α)
    (h : ∀ c ∈ l, O.isZero c = true) : toPoly v l = 0 := by
  induction l with
  | nil => rfl
  | cons c cs ih =>
    have hc : v c = 0 := (L.isZero c).1 (h c (by simp))
    simp [hc, ih (fun d hd => h d (by simp [hd]))]

theorem of_mem_takeWhile {γ : Type} (q : γ → Bool) (l : List γ) :
    ∀ z ∈ l.takeWhile q, q z = true := by
  induction l with
  | nil => simp
  | cons a as ih =>
    intro z hz
    rw [List.takeWhile_cons] at hz
    split at hz
    · rcases List.mem_cons.1 hz with rfl | h
      · assumption
      · exact ih z h
    · simp at hz

/-- `p` = (what `remove_leading_zeros` returns) ++ (coefficients that are all ZERO) -/
theorem removeLeadingZeros_append (p : List α) :
    ∃ zs, p = removeLeadingZeros O p ++ zs ∧ ∀ z ∈ zs, O.isZero z = true := by
  refine ⟨(p.reverse.takeWhile O.isZero).reverse, ?_, ?_⟩
  · have h := List.takeWhile_append_dropWhile (p := O.isZero) (l := p.reverse)
    calc p = p.reverse.reverse := by simp
      _ = (p.reverse.takeWhile O.isZero ++ p.reverse.dropWhile O.isZero).reverse := by rw [h]
      _ = _ := by rw [List.reverse_append]; rfl
  · intro z hz
    exact of_mem_takeWhile _ _ z (List.mem_reverse.1 hz)

theorem removeLeadingZeros_prefix (p : List α) : removeLeadingZeros O p <+: p := by
  obtain ⟨zs, h, _⟩ := removeLeadingZeros_append (O := O) p
  exact ⟨zs, h.symm⟩

/-- removing leading zeros does not change the polynomial -/
theorem toPoly_removeLeadingZeros (L : Lawful O v) (p : List α) :
    toPoly v (removeLeadingZeros O p) = toPoly v p := by
  obtain ⟨zs, h, hz⟩ := removeLeadingZeros_append (O := O) p
  conv_rhs => rw [h, toPoly_append, toPoly_eq_zero_of_all_isZero L zs hz]
  simp

/-- if the last coefficient is non-zero, the degree is the length minus one -/
theorem natDegree_toPoly_concat (t : List α) (c : α) (hc : v c ≠ 0) :
    (toPoly v (t ++ [c])).natDegree = t.length ∧ toPoly v (t ++ [c]) ≠ 0 := by
  have hcoeff : (toPoly v (t ++ [c])).coeff t.length = v c := by
    simp [toPoly, coeff_ofCoeffs, List.getD_eq_getElem?_getD]
  have hle : (toPoly v (t ++ [c])).natDegree ≤ t.length := by
    rw [natDegree_le_iff_coeff_eq_zero]
    intro N hN
    rw [toPoly, coeff_ofCoeffs, List.getD_eq_getElem?_getD, List.getElem?_eq_none (by simp; omega)]
    rfl
  refine ⟨natDegree_eq_of_le_of_coeff_ne_zero hle (by rw [hcoeff]; exact hc), ?_⟩
  intro h0
  rw [h0] at hcoeff
  exact hc (by simpa using hcoeff.symm)

/-- the two possible shapes of the scan from the top -/
theorem stripRev_cases (L : Lawful O v) (p : List α) :
    (stripRev O p = [] ∧ toPoly v p = 0) ∨
    (∃ c t, stripRev O p = c :: t ∧ v c ≠ 0 ∧ removeLeadingZeros O p = t.reverse ++ [c]) := by
  cases h : stripRev O p with
  | nil =>
    left
    refine ⟨rfl, ?_⟩
    rw [← toPoly_removeLeadingZeros L, removeLeadingZeros, h]; rfl
  | cons c t =>
    right
    refine ⟨c, t, rfl, ?_, by simp [removeLeadingZeros, h]⟩
    have hne : p.reverse.dropWhile O.isZero ≠ [] := by simpa [stripRev] using (by rw [h]; simp : stripRev O p ≠ [])
    have := List.head_dropWhile_not O.isZero hne
    have hc : O.isZero c = false := by
      have h' : p.reverse.dropWhile O.isZero = c :: t := h
      simpa [h'] using this
    intro hv
    have := (L.isZero c).2 hv
    simp [hc] at this

/-- `degree_of` is the `natDegree` of the denoted polynomial (0 for the zero polynomial) -/
theorem degreeOf_eq_natDegree (L : Lawful O v) (p : List α) :
    degreeOf O p = (toPoly v p).natDegree := by
  rcases stripRev_cases L p with ⟨h, h0⟩ | ⟨c, t, h, hc, hr⟩
  · simp [degreeOf, h, h0]
  · rw [← toPoly_removeLeadingZeros L, hr, (natDegree_toPoly_concat t.reverse c hc).1]
    simp [degreeOf, h]

/-- `remove_leading_zeros` of a list denoting zero is empty; otherwise it has `natDegree + 1` coefficients -/
theorem length_removeLeadingZeros (L : Lawful O v) (p : List α) :
    (toPoly v p = 0 → removeLeadingZeros O p = []) ∧
    (toPoly v p ≠ 0 → (removeLeadingZeros O p).length = (toPoly v p).natDegree + 1) := by
  rcases stripRev_cases L p with ⟨h, h0⟩ | ⟨c, t, h, hc, hr⟩
  · exact ⟨fun _ => by simp [removeLeadingZeros, h], fun hne => absurd h0 hne⟩
  · have := natDegree_toPoly_concat t.reverse c hc
    rw [← hr, toPoly_removeLeadingZeros L] at this
    refine ⟨fun h0 => absurd h0 this.2, fun _ => ?_⟩
    rw [this.1, hr]; simp

end

end WinterProofs.C20
