-- C07 helper lemmas, 62-bit field: the raw-word operations implement arithmetic in `ZMod M`
-- through the abstraction `val r = r · (2^64)⁻¹`; raw words live in [0, 2M) (NOT canonical).
import WinterProofs.Lemmas.C07F62
import WinterProofs.Lemmas.Primes
import Winter.Model.Field
import Mathlib.Data.ZMod.Basic
import Mathlib.FieldTheory.Finite.Basic
import Mathlib.Tactic.LinearCombination
import Mathlib.Tactic.Linarith

namespace WinterProofs.F62Z
open Gen.F62 WinterProofs.F62L

/-- the modulus as a literal (definitionally `Gen.F62.M`, which is regenerated from the source) -/
abbrev P : Nat := 4611624995532046337

theorem M_eq : M = P := rfl

instance : Fact (Nat.Prime P) := ⟨WinterProofs.Primes.prime_M62⟩

/-- `R = 2^64` and its inverse modulo `P` -/
def R : Nat := 18446744073709551616
def Rinv : Nat := 1152890993361043456

theorem R_def : R = 18446744073709551616 := rfl

theorem R_Rinv : ((R : ZMod P)) * (Rinv : ZMod P) = 1 := by
  have h : (R * Rinv) % P = 1 % P := by decide
  have := (ZMod.natCast_eq_natCast_iff' (R * Rinv) 1 P).2 h
  simpa using this

theorem R2_eq : ((R2 : Nat) : ZMod P) = (R : ZMod P) * (R : ZMod P) := by
  have h : R2 % P = (R * R) % P := by decide
  have := (ZMod.natCast_eq_natCast_iff' R2 (R * R) P).2 h
  simpa using this

theorem R3_eq : ((R3 : Nat) : ZMod P) = (R : ZMod P) * (R : ZMod P) * (R : ZMod P) := by
  have h : R3 % P = (R * R * R) % P := by decide
  have := (ZMod.natCast_eq_natCast_iff' R3 (R * R * R) P).2 h
  simpa using this

/-- representation invariant of raw words: the lazy range [0, 2M) -/
def Inv (r : Nat) : Prop := r < 2 * M

theorem Inv.lt {r : Nat} (h : Inv r) : r < 9223249991064092674 := h

theorem Inv.of_lt {r : Nat} (h : r < 9223249991064092674) : Inv r := h

theorem Inv.lt64 {r : Nat} (h : Inv r) : r < 18446744073709551616 :=
  lt_trans h.lt (by decide)

/-- the residue denoted by a raw word -/
noncomputable def val (r : Nat) : ZMod P := (r : ZMod P) * (Rinv : ZMod P)

theorem cast_P : ((4611624995532046337 : Nat) : ZMod P) = 0 := ZMod.natCast_self P

/-- casting a Montgomery witness equation into `ZMod P` -/
theorem cast_mont {r q x : Nat}
    (h : r * 18446744073709551616 = x + q * 4611624995532046337) :
    (r : ZMod P) * (R : ZMod P) = (x : ZMod P) := by
  have h' := congrArg (Nat.cast : Nat → ZMod P) h
  simp only [Nat.cast_add, Nat.cast_mul, cast_P, mul_zero, add_zero] at h'
  rw [R_def]
  exact h'

theorem val_eq_of_mul_R {r : Nat} {x : ZMod P} (h : (r : ZMod P) * (R : ZMod P) = x) :
    (r : ZMod P) = x * (Rinv : ZMod P) := by
  have hR := R_Rinv
  linear_combination (Rinv : ZMod P) * h - (r : ZMod P) * hR

/-- two raw words denote the same residue iff they are congruent modulo `P` -/
theorem val_eq_iff (a b : Nat) : val a = val b ↔ (a : ZMod P) = (b : ZMod P) := by
  unfold val
  constructor
  · intro h
    have hR := R_Rinv
    linear_combination (R : ZMod P) * h - ((a : ZMod P) - (b : ZMod P)) * hR
  · intro h; rw [h]

theorem val_zero : val 0 = 0 := by simp [val]

theorem val_M : val M = 0 := by
  unfold val
  rw [M_eq, ZMod.natCast_self, zero_mul]

/-- a word denotes zero iff it is one of the two representations `0`, `M` of zero -/
theorem val_eq_zero_iff (a : Nat) (ha : Inv a) : val a = 0 ↔ (a = 0 ∨ a = M) := by
  constructor
  · intro h
    rw [← val_zero, val_eq_iff] at h
    have h3 := (ZMod.natCast_eq_natCast_iff' a 0 P).1 h
    have := ha.lt
    show a = 0 ∨ a = 4611624995532046337
    have h4 : a % 4611624995532046337 = 0 := h3
    omega
  · rintro (rfl | rfl)
    · exact val_zero
    · exact val_M

/-! ### the operations -/

theorem mul_inv (a b : Nat) (ha : Inv a) (hb : Inv b) : Inv (mul a b) :=
  (mul_spec a b ha.lt hb.lt).1

theorem val_mul_gen (a b : Nat) (hz : a * b < 85069466056501613216581866859205230592) :
    val (mul a b) = val a * val b := by
  obtain ⟨_, q, h⟩ := mul_spec_gen a b hz
  have h1 := cast_mont h
  have h2 := val_eq_of_mul_R h1
  unfold val
  rw [h2]
  push_cast
  ring

theorem val_mul (a b : Nat) (ha : Inv a) (hb : Inv b) : val (mul a b) = val a * val b :=
  val_mul_gen a b (prod_lt a b ha.lt hb.lt)

theorem new_inv (v : Nat) (hv : v < 2 ^ 64) : Inv (new v) := (new_spec v hv).1

theorem val_new (v : Nat) (hv : v < 2 ^ 64) : val (new v) = (v : ZMod P) := by
  obtain ⟨_, q, h⟩ := new_spec v hv
  have e : v * 630444561284293700 = v * R2 := rfl
  rw [e] at h
  have h1 := cast_mont h
  have h2 := val_eq_of_mul_R h1
  have hR := R_Rinv
  unfold val
  rw [h2, Nat.cast_mul, R2_eq]
  linear_combination ((v : ZMod P) * ((R : ZMod P) * (Rinv : ZMod P) + 1)) * hR

theorem add_inv (a b : Nat) (ha : Inv a) (hb : Inv b) : Inv (add a b) :=
  (add_spec a b ha.lt hb.lt).1

theorem cast_add (a b : Nat) (ha : Inv a) (hb : Inv b) :
    ((add a b : Nat) : ZMod P) = (a : ZMod P) + (b : ZMod P) := by
  obtain ⟨k, h⟩ := (add_spec a b ha.lt hb.lt).2
  have h' := congrArg (Nat.cast : Nat → ZMod P) h
  simp only [Nat.cast_add, Nat.cast_mul, cast_P, mul_zero, add_zero] at h'
  exact h'

theorem val_add (a b : Nat) (ha : Inv a) (hb : Inv b) : val (add a b) = val a + val b := by
  unfold val; rw [cast_add a b ha hb]; ring

theorem sub_inv (a b : Nat) (ha : Inv a) (hb : Inv b) : Inv (sub a b) :=
  (sub_spec a b ha.lt hb.lt).1

theorem cast_sub (a b : Nat) (ha : Inv a) (hb : Inv b) :
    ((sub a b : Nat) : ZMod P) = (a : ZMod P) - (b : ZMod P) := by
  rcases (sub_spec a b ha.lt hb.lt).2 with h | h
  · have h' := congrArg (Nat.cast : Nat → ZMod P) h
    simp only [Nat.cast_add] at h'
    linear_combination h'
  · have h' := congrArg (Nat.cast : Nat → ZMod P) h
    simp only [Nat.cast_add, Nat.cast_mul, cast_P, mul_zero, add_zero] at h'
    linear_combination h'

theorem val_sub (a b : Nat) (ha : Inv a) (hb : Inv b) : val (sub a b) = val a - val b := by
  unfold val; rw [cast_sub a b ha hb]; ring

theorem zero_inv : Inv 0 := by unfold Inv; decide

theorem neg_inv (a : Nat) (ha : Inv a) : Inv (neg a) := (neg_spec a ha.lt).1

theorem val_neg (a : Nat) (ha : Inv a) : val (neg a) = - val a := by
  have : neg a = sub 0 a := rfl
  rw [this, val_sub 0 a zero_inv ha, val_zero, zero_sub]

theorem double_inv (a : Nat) (ha : Inv a) : Inv (double a) := (double_spec a ha.lt).1

theorem val_double (a : Nat) (ha : Inv a) : val (double a) = 2 * val a := by
  have hc : ((double a : Nat) : ZMod P) = (a : ZMod P) + (a : ZMod P) := by
    obtain ⟨k, h⟩ := (double_spec a ha.lt).2
    have h' := congrArg (Nat.cast : Nat → ZMod P) h
    simp only [Nat.cast_add, Nat.cast_mul, cast_P, mul_zero, add_zero] at h'
    exact h'
  unfold val; rw [hc]; ring

/-- `as_int` returns the canonical representative of the residue (any 64-bit word) -/
theorem as_int_lt (a : Nat) (ha : a < 2 ^ 64) : as_int a < M := (as_int_spec a ha).1

theorem as_int_val (a : Nat) (ha : a < 2 ^ 64) : ((as_int a : Nat) : ZMod P) = val a := by
  obtain ⟨_, q, c, h⟩ := as_int_spec a ha
  have h' := congrArg (Nat.cast : Nat → ZMod P) h
  simp only [Nat.cast_add, Nat.cast_mul, cast_P, mul_zero, add_zero] at h'
  rw [← R_def] at h'
  exact val_eq_of_mul_R h'

theorem as_int_eq_val (a : Nat) (ha : a < 2 ^ 64) : as_int a = (val a).val := by
  rw [← as_int_val a ha, ZMod.val_cast_of_lt]
  exact as_int_lt a ha

/-- `==` on raw words (normalising comparison) decides equality of residues -/
theorem eq_iff (a b : Nat) (ha : Inv a) (hb : Inv b) : eq a b = true ↔ val a = val b := by
  rw [eq_spec a b ha.lt hb.lt, val_eq_iff]
  constructor
  · rintro (rfl | rfl | rfl)
    · rfl
    · rw [Nat.cast_add, cast_P, add_zero]
    · rw [Nat.cast_add, cast_P, add_zero]
  · intro h
    have h3 : a % 4611624995532046337 = b % 4611624995532046337 :=
      (ZMod.natCast_eq_natCast_iff' a b P).1 h
    have := ha.lt
    have := hb.lt
    omega

/-! ### exponentiation (hand model `Model.F62.exp`) -/

/-- `a` is a valid raw word denoting `x^e` -/
def Pw (x a e : Nat) : Prop := Inv a ∧ val a = val x ^ e

theorem Pw.self {x : Nat} (hx : Inv x) : Pw x x 1 := ⟨hx, (pow_one _).symm⟩

theorem Pw.mul {x a b e1 e2 : Nat} (h1 : Pw x a e1) (h2 : Pw x b e2) : Pw x (mul a b) (e1 + e2) :=
  ⟨mul_inv a b h1.1 h2.1, by rw [val_mul a b h1.1 h2.1, h1.2, h2.2, pow_add]⟩

theorem Pw.cast {x a e1 e2 : Nat} (h1 : Pw x a e1) (he : e1 = e2) : Pw x a e2 := he ▸ h1

theorem val_one : val (new 1) = 1 := by
  have h := val_new 1 (by norm_num)
  rw [h]; simp

theorem Pw.one (x : Nat) : Pw x (new 1) 0 :=
  ⟨new_inv 1 (by norm_num), by rw [val_one, pow_zero]⟩

/-- the loop body of `exp` (bit `k + 1` of the exponent) -/
def expBody (power : Nat) (st : Nat × Nat) (k : Nat) : Nat × Nat :=
  let i := k + 1
  let b := mul st.1 st.1
  let r := if power.testBit i then mul st.2 b else st.2
  (b, r)

theorem exp_unfold (x power : Nat) :
    Model.F62.exp x power =
      if power = 0 then new 1
      else if eq x (new 0) then new 0
      else ((List.range (Nat.log2 power + 1 - 1)).foldl (expBody power)
        (x, if power % 2 = 1 then x else new 1)).2 := rfl

theorem exp_fold_spec (x power : Nat) (hx : Inv x) (r0 : Nat) (hr0 : Pw x r0 (power % 2 ^ 1)) :
    ∀ n, Pw x ((List.range n).foldl (expBody power) (x, r0)).1 (2 ^ n) ∧
      Pw x ((List.range n).foldl (expBody power) (x, r0)).2 (power % 2 ^ (n + 1)) := by
  intro n
  induction n with
  | zero =>
    simp only [List.range_zero, List.foldl_nil]
    exact ⟨(Pw.self hx).cast (by norm_num), hr0⟩
  | succ n ih =>
    rw [List.range_succ, List.foldl_append, List.foldl_cons, List.foldl_nil]
    obtain ⟨hb, hr⟩ := ih
    generalize (List.range n).foldl (expBody power) (x, r0) = st at hb hr
    have hbb : Pw x (mul st.1 st.1) (2 ^ (n + 1)) := (hb.mul hb).cast (by rw [pow_succ]; ring)
    refine ⟨hbb, ?_⟩
    show Pw x (if power.testBit (n + 1) then mul st.2 (mul st.1 st.1) else st.2) _
    have hsplit : power % 2 ^ (n + 1 + 1)
        = power % 2 ^ (n + 1) + 2 ^ (n + 1) * (power / 2 ^ (n + 1) % 2) := Nat.mod_pow_succ
    by_cases hbit : power.testBit (n + 1) = true
    · rw [if_pos hbit]
      have h1 : power / 2 ^ (n + 1) % 2 = 1 := by
        rw [Nat.testBit_eq_decide_div_mod_eq] at hbit; simpa using hbit
      rw [h1, mul_one] at hsplit
      exact (hr.mul hbb).cast hsplit.symm
    · have hbf : power.testBit (n + 1) = false := by simpa using hbit
      rw [if_neg hbit]
      have h1 : power / 2 ^ (n + 1) % 2 = 0 := by
        rw [Nat.testBit_eq_decide_div_mod_eq] at hbf
        have : ¬ (power / 2 ^ (n + 1) % 2 = 1) := by simpa using hbf
        omega
      rw [h1, mul_zero, add_zero] at hsplit
      exact hr.cast hsplit.symm

/-- `exp` computes the power in `ZMod P` for every exponent (both early exits included) -/
theorem exp_spec (x power : Nat) (hx : Inv x) : Pw x (Model.F62.exp x power) power := by
  rw [exp_unfold]
  by_cases hp : power = 0
  · rw [if_pos hp, hp]; exact Pw.one x
  · rw [if_neg hp]
    have hz : Inv (new 0) := new_inv 0 (by norm_num)
    by_cases he : eq x (new 0) = true
    · rw [if_pos he]
      have hv : val x = 0 := by
        rw [(eq_iff x (new 0) hx hz).1 he, val_new 0 (by norm_num)]; simp
      refine ⟨hz, ?_⟩
      rw [hv, zero_pow hp, val_new 0 (by norm_num)]; simp
    · rw [if_neg he]
      have hr0 : Pw x (if power % 2 = 1 then x else new 1) (power % 2 ^ 1) := by
        rw [pow_one]
        by_cases hodd : power % 2 = 1
        · rw [if_pos hodd, hodd]; exact Pw.self hx
        · rw [if_neg hodd]
          have : power % 2 = 0 := by omega
          rw [this]; exact Pw.one x
      have h := (exp_fold_spec x power hx _ hr0 (Nat.log2 power + 1 - 1)).2
      refine h.cast ?_
      rw [Nat.add_sub_cancel]
      exact Nat.mod_eq_of_lt Nat.lt_log2_self

/-! ### inversion (hand model `Model.F62.inv`: binary extended GCD with the `+M` halving fix-up)

Loop invariant (`St`), for the raw input word `x` (as a residue `X`), both `u`, `v` odd:
`a·X = v`, `d·X = -u` in `ZMod P`, `gcd(u, v) = 1`, and for a ghost step counter `k`
(one tick per subtraction; every subtraction is followed by at least one halving):
`u·v·2^k ≤ 2^126`, `2a, 2d ≤ (k+2)·M`.  Hence `k ≤ 126`, every loop ends within its fuel,
and the cofactor `a` leaves the main loop below `64·M` (it is NOT bounded by a small multiple of
`M`: each subtract-and-halve-once step can raise it by `M/2`). -/

open Model.F62 (halve reduceU outer reduceA)
open Model (Fuel)

theorem two_ne_zero_P : (2 : ZMod P) ≠ 0 := by
  intro h
  have h2 : ((2 : Nat) : ZMod P) = 0 := by exact_mod_cast h
  rw [ZMod.natCast_eq_zero_iff] at h2
  exact absurd (Nat.le_of_dvd (by norm_num) h2) (by decide)

theorem two_pow_ne_zero_P (j : Nat) : (2 : ZMod P) ^ j ≠ 0 := pow_ne_zero j two_ne_zero_P

theorem halve_step (fuel u d : Nat) (hev : u % 2 = 0) :
    halve (fuel + 1) u d = halve fuel (u / 2) ((if d % 2 = 1 then d + 4611624995532046337 else d) / 2) := by
  show (if u % 2 = 0 then halve fuel (u / 2) ((if d % 2 = 1 then d + M else d) / 2) else .done (u, d)) = _
  rw [if_pos hev]; rfl

theorem halve_stop (fuel u d : Nat) (hodd : u % 2 = 1) : halve (fuel + 1) u d = .done (u, d) := by
  show (if u % 2 = 0 then halve fuel (u / 2) ((if d % 2 = 1 then d + M else d) / 2) else .done (u, d)) = _
  rw [if_neg (by omega)]

/-- one halving of the cofactor is exact: `d₁·2 = d + ε·M` -/
theorem half_fix (d : Nat) :
    ∃ e, ((if d % 2 = 1 then d + 4611624995532046337 else d) / 2) * 2 = d + e * 4611624995532046337 ∧ e ≤ 1 := by
  by_cases h : d % 2 = 1
  · rw [if_pos h]; exact ⟨1, by omega, le_refl _⟩
  · rw [if_neg h]; exact ⟨0, by omega, by omega⟩

theorem half_fix_cast (d : Nat) :
    (((if d % 2 = 1 then d + 4611624995532046337 else d) / 2 : Nat) : ZMod P) * 2 = (d : ZMod P) := by
  obtain ⟨e, h, -⟩ := half_fix d
  have h' := congrArg (Nat.cast : Nat → ZMod P) h
  simp only [Nat.cast_add, Nat.cast_mul, cast_P, mul_zero, add_zero] at h'
  simpa using h'

/-- the halving loop: terminates on a positive word below `2^fuel`, strips the powers of two
    and divides the cofactor by the same power of two modulo `P`, never exceeding `max(d, M)` -/
theorem halve_spec : ∀ (fuel u d C : Nat), 0 < u → u < 2 ^ fuel →
    2 * 4611624995532046337 ≤ C → 2 * d ≤ C →
    ∃ u' d' j, halve fuel u d = .done (u', d') ∧ u' % 2 = 1 ∧ u' * 2 ^ j = u ∧
      (d' : ZMod P) * 2 ^ j = (d : ZMod P) ∧ 2 * d' ≤ C := by
  intro fuel
  induction fuel with
  | zero => intro u d C h0 h1; simp at h1; omega
  | succ fuel ih =>
    intro u d C h0 hu hC hd
    by_cases hev : u % 2 = 0
    · obtain ⟨e, he, he1⟩ := half_fix d
      have hc := half_fix_cast d
      obtain ⟨d1, hd1⟩ : ∃ d1, (if d % 2 = 1 then d + 4611624995532046337 else d) / 2 = d1 := ⟨_, rfl⟩
      rw [hd1] at he hc
      have hu2 : u / 2 < 2 ^ fuel := by rw [pow_succ] at hu; omega
      obtain ⟨u', d', j, h1, h2, h3, h4, h5⟩ := ih (u / 2) d1 C (by omega) hu2 hC (by omega)
      refine ⟨u', d', j + 1, ?_, h2, ?_, ?_, h5⟩
      · rw [halve_step fuel u d hev, hd1]; exact h1
      · rw [pow_succ, ← mul_assoc, h3]; omega
      · rw [pow_succ, ← mul_assoc, h4, hc]
    · exact ⟨u, d, 0, halve_stop fuel u d (by omega), by omega, by simp, by simp, hd⟩


/-- the halving loop on an even positive word (the only way the code enters it) -/
theorem halve_even (fuel u d C : Nat) (h0 : 0 < u) (hev : u % 2 = 0) (hu : u < 2 ^ (fuel + 1))
    (hC : 2 * 4611624995532046337 ≤ C) (hd : d + 4611624995532046337 ≤ C) :
    ∃ u' d' j, halve (fuel + 1) u d = .done (u', d') ∧ u' % 2 = 1 ∧ u' * 2 ^ (j + 1) = u ∧
      (d' : ZMod P) * 2 ^ (j + 1) = (d : ZMod P) ∧ 2 * d' ≤ C := by
  obtain ⟨e, he, he1⟩ := half_fix d
  have hc := half_fix_cast d
  obtain ⟨d1, hd1⟩ : ∃ d1, (if d % 2 = 1 then d + 4611624995532046337 else d) / 2 = d1 := ⟨_, rfl⟩
  rw [hd1] at he hc
  have hu2 : u / 2 < 2 ^ fuel := by rw [pow_succ] at hu; omega
  obtain ⟨u', d', j, h1, h2, h3, h4, h5⟩ := halve_spec fuel (u / 2) d1 C (by omega) hu2 hC (by omega)
  refine ⟨u', d', j, ?_, h2, ?_, ?_, h5⟩
  · rw [halve_step fuel u d hev, hd1]; exact h1
  · rw [pow_succ, ← mul_assoc, h3]; omega
  · rw [pow_succ, ← mul_assoc, h4, hc]

/-- loop invariant of the extended binary GCD (see the section comment) -/
structure St (X : ZMod P) (a u v d k : Nat) : Prop where
  hu : u % 2 = 1
  hv : v % 2 = 1
  cop : Nat.Coprime u v
  ca : (a : ZMod P) * X = (v : ZMod P)
  cd : (d : ZMod P) * X = - (u : ZMod P)
  prod : u * v * 2 ^ k ≤ 2 ^ 126
  ba : 2 * a ≤ (k + 2) * 4611624995532046337
  bd : 2 * d ≤ (k + 2) * 4611624995532046337

theorem St.k_le {X : ZMod P} {a u v d k : Nat} (h : St X a u v d k) : k ≤ 126 := by
  have hu : 1 ≤ u := by have := h.hu; omega
  have hv : 1 ≤ v := by have := h.hv; omega
  have h1 : 1 * 1 * 2 ^ k ≤ u * v * 2 ^ k := Nat.mul_le_mul_right _ (Nat.mul_le_mul hu hv)
  have h2 : 2 ^ k ≤ 2 ^ 126 := by
    have := le_trans h1 h.prod
    simpa using this
  exact (Nat.pow_le_pow_iff_right (by norm_num)).1 h2

theorem St.u_lt {X : ZMod P} {a u v d k : Nat} (h : St X a u v d k) : u < 2 ^ 200 := by
  have hv : 1 ≤ v := by have := h.hv; omega
  have hk : 1 ≤ 2 ^ k := Nat.one_le_two_pow
  have h1 : u * 1 * 1 ≤ u * v * 2 ^ k := Nat.mul_le_mul (Nat.mul_le_mul_left _ hv) hk
  have h2 : u ≤ 2 ^ 126 := by
    have := le_trans h1 h.prod
    simpa using this
  exact lt_of_le_of_lt h2 (by norm_num)

theorem St.v_lt {X : ZMod P} {a u v d k : Nat} (h : St X a u v d k) : v < 2 ^ 200 := by
  have hu : 1 ≤ u := by have := h.hu; omega
  have hk : 1 ≤ 2 ^ k := Nat.one_le_two_pow
  have h1 : 1 * v * 1 ≤ u * v * 2 ^ k := Nat.mul_le_mul (Nat.mul_le_mul_right _ hu) hk
  have h2 : v ≤ 2 ^ 126 := by
    have := le_trans h1 h.prod
    simpa using this
  exact lt_of_le_of_lt h2 (by norm_num)

/-- the product potential after "subtract, then halve at least once" -/
theorem prod_step (u v w j k : Nat) (hw : w * 2 ^ (j + 1) ≤ u) :
    w * v * 2 ^ (k + 1) ≤ u * v * 2 ^ k := by
  have h1 : w * 2 ≤ u := by
    have : w * 2 ≤ w * 2 ^ (j + 1) := by
      apply Nat.mul_le_mul_left
      calc 2 = 2 ^ 1 := by norm_num
        _ ≤ 2 ^ (j + 1) := Nat.pow_le_pow_right (by norm_num) (by omega)
    omega
  calc w * v * 2 ^ (k + 1) = (w * 2) * v * 2 ^ k := by rw [pow_succ]; ring
    _ ≤ u * v * 2 ^ k := Nat.mul_le_mul_right _ (Nat.mul_le_mul_right _ h1)

theorem prod_step' (u v w j k : Nat) (hw : w * 2 ^ (j + 1) ≤ v) :
    u * w * 2 ^ (k + 1) ≤ u * v * 2 ^ k := by
  have := prod_step v u w j k hw
  calc u * w * 2 ^ (k + 1) = w * u * 2 ^ (k + 1) := by ring
    _ ≤ v * u * 2 ^ k := this
    _ = u * v * 2 ^ k := by ring

/-- cancel the power of two in a halved congruence -/
theorem cancel_pow {d1 X rhs : ZMod P} (j : Nat) (h : d1 * 2 ^ j * X = rhs * 2 ^ j) : d1 * X = rhs := by
  have h2 : (d1 * X) * 2 ^ j = rhs * 2 ^ j := by rw [← h]; ring
  exact mul_right_cancel₀ (two_pow_ne_zero_P j) h2

theorem reduceU_step (fuel u v a d u' d' : Nat) (hlt : v < u)
    (hh : halve 200 (u - v) (d + a) = .done (u', d')) :
    reduceU (fuel + 1) u v a d = reduceU fuel u' v a d' := by
  show (if v < u then
      (match halve 200 (u - v) (d + a) with
        | .done (u', d') => reduceU fuel u' v a d'
        | .out => .out)
    else .done (u, d)) = _
  rw [if_pos hlt, hh]

theorem reduceU_stop (fuel u v a d : Nat) (hlt : ¬ v < u) :
    reduceU (fuel + 1) u v a d = .done (u, d) := by
  show (if v < u then
      (match halve 200 (u - v) (d + a) with
        | .done (u', d') => reduceU fuel u' v a d'
        | .out => .out)
    else .done (u, d)) = _
  rw [if_neg hlt]

/-- `while v < u { u -= v; d += a; halve }`: terminates within the fuel and keeps the invariant -/
theorem reduceU_spec (X : ZMod P) : ∀ (fuel a u v d k : Nat), St X a u v d k → 127 ≤ k + fuel →
    ∃ u' d' k', reduceU fuel u v a d = .done (u', d') ∧ St X a u' v d' k' ∧ u' ≤ v ∧ k ≤ k' := by
  intro fuel
  induction fuel with
  | zero => intro a u v d k h hk; have := h.k_le; omega
  | succ fuel ih =>
    intro a u v d k h hk
    by_cases hlt : v < u
    · have hu := h.hu
      have hv := h.hv
      have hba := h.ba
      have hbd := h.bd
      have hba' : 2 * a ≤ (k + 1 + 2) * 4611624995532046337 := by linarith
      obtain ⟨u1, d1, j, e1, e2, e3, e4, e5⟩ := halve_even 199 (u - v) (d + a)
        ((k + 1 + 2) * 4611624995532046337) (by omega) (by omega)
        (lt_of_le_of_lt (Nat.sub_le _ _) h.u_lt) (by linarith) (by linarith)
      have hst : St X a u1 v d1 (k + 1) := by
        refine ⟨e2, hv, ?_, h.ca, ?_, ?_, hba', e5⟩
        · have hc : Nat.Coprime (u - v) v := (Nat.coprime_sub_self_left (le_of_lt hlt)).2 h.cop
          exact Nat.Coprime.coprime_dvd_left ⟨2 ^ (j + 1), e3.symm⟩ hc
        · apply cancel_pow (j + 1)
          rw [e4]
          have e3' := congrArg (Nat.cast : Nat → ZMod P) e3
          rw [Nat.cast_mul, Nat.cast_pow, Nat.cast_sub (le_of_lt hlt)] at e3'
          rw [neg_mul, Nat.cast_ofNat] at *
          rw [e3', Nat.cast_add, add_mul, h.ca, h.cd]
          ring
        · exact le_trans (prod_step u v u1 j k (by rw [e3]; exact Nat.sub_le _ _)) h.prod
      obtain ⟨u', d', k', r1, r2, r3, r4⟩ := ih a u1 v d1 (k + 1) hst (by omega)
      exact ⟨u', d', k', by rw [reduceU_step fuel u v a d u1 d1 hlt e1]; exact r1, r2, r3, by omega⟩
    · exact ⟨u, d, k, reduceU_stop fuel u v a d hlt, h, by omega, le_refl _⟩

theorem outer_stop (fuel a u d : Nat) : outer (fuel + 1) a u 1 d = .done a := rfl

theorem outer_step (fuel a u v d u' d' v' a' : Nat) (hv : v ≠ 1)
    (h1 : reduceU 400 u v a d = .done (u', d'))
    (h2 : halve 200 (v - u') (a + d') = .done (v', a')) :
    outer (fuel + 1) a u v d = outer fuel a' u' v' d' := by
  show (if v = 1 then Fuel.done a
    else
      (match reduceU 400 u v a d with
        | Fuel.out => Fuel.out
        | Fuel.done (u, d) =>
          match halve 200 (v - u) (a + d) with
          | Fuel.out => Fuel.out
          | Fuel.done (v', a') => outer fuel a' u v' d)) = _
  rw [if_neg hv, h1]
  show (match halve 200 (v - u') (a + d') with
          | Fuel.out => Fuel.out
          | Fuel.done (v', a') => outer fuel a' u' v' d') = _
  rw [h2]

/-- `while v != 1 { … }`: terminates within the fuel with `a·X = 1` and `a ≤ 64·M` -/
theorem outer_spec (X : ZMod P) : ∀ (fuel a u v d k : Nat), St X a u v d k → 127 ≤ k + fuel →
    ∃ r, outer fuel a u v d = .done r ∧ (r : ZMod P) * X = 1 ∧ r ≤ 64 * 4611624995532046337 := by
  intro fuel
  induction fuel with
  | zero => intro a u v d k h hk; have := h.k_le; omega
  | succ fuel ih =>
    intro a u v d k h hk
    by_cases hv1 : v = 1
    · subst hv1
      refine ⟨a, outer_stop fuel a u d, by simpa using h.ca, ?_⟩
      have h1 := h.k_le
      have h2 := h.ba
      linarith
    · obtain ⟨u', d', k1, r1, h', hle, hkk⟩ := reduceU_spec X 400 a u v d k h (by omega)
      have hne : u' ≠ v := by
        intro he
        have := h'.cop
        rw [he, Nat.coprime_self] at this
        exact hv1 this
      have hlt : u' < v := lt_of_le_of_ne hle hne
      have hu := h'.hu
      have hv := h'.hv
      have hba := h'.ba
      have hbd := h'.bd
      have hbd' : 2 * d' ≤ (k1 + 1 + 2) * 4611624995532046337 := by linarith
      obtain ⟨v1, a1, j, e1, e2, e3, e4, e5⟩ := halve_even 199 (v - u') (a + d')
        ((k1 + 1 + 2) * 4611624995532046337) (by omega) (by omega)
        (lt_of_le_of_lt (Nat.sub_le _ _) h'.v_lt) (by linarith) (by linarith)
      have hst : St X a1 u' v1 d' (k1 + 1) := by
        refine ⟨hu, e2, ?_, ?_, h'.cd, ?_, e5, hbd'⟩
        · have hc : Nat.Coprime u' (v - u') := (Nat.coprime_sub_self_right (le_of_lt hlt)).2 h'.cop
          exact Nat.Coprime.coprime_dvd_right ⟨2 ^ (j + 1), e3.symm⟩ hc
        · apply cancel_pow (j + 1)
          rw [e4]
          have e3' := congrArg (Nat.cast : Nat → ZMod P) e3
          rw [Nat.cast_mul, Nat.cast_pow, Nat.cast_sub (le_of_lt hlt)] at e3'
          rw [Nat.cast_ofNat] at *
          rw [e3', Nat.cast_add, add_mul, h'.ca, h'.cd]
          ring
        · exact le_trans (prod_step' u' v v1 j k1 (by rw [e3]; exact Nat.sub_le _ _)) h'.prod
      obtain ⟨r, q1, q2, q3⟩ := ih a1 u' v1 d' (k1 + 1) hst (by omega)
      exact ⟨r, by rw [outer_step fuel a u v d u' d' v1 a1 hv1 r1 e1]; exact q1, q2, q3⟩

/-- final `while a > M { a -= M }` -/
theorem reduceA_spec : ∀ (fuel a : Nat), a ≤ fuel * 4611624995532046337 → 0 < fuel →
    ∃ r, reduceA fuel a = .done r ∧ r ≤ 4611624995532046337 ∧ (r : ZMod P) = (a : ZMod P) := by
  intro fuel
  induction fuel with
  | zero => intro a _ h; omega
  | succ fuel ih =>
    intro a ha _
    by_cases hgt : a > 4611624995532046337
    · have hf : 0 < fuel := by
        rcases Nat.eq_zero_or_pos fuel with rfl | h
        · omega
        · exact h
      obtain ⟨r, h1, h2, h3⟩ := ih (a - 4611624995532046337) (by rw [Nat.succ_mul] at ha; omega) hf
      refine ⟨r, ?_, h2, ?_⟩
      · show (if a > M then reduceA fuel (a - M) else Fuel.done a) = _
        rw [if_pos (show a > M from hgt)]; exact h1
      · rw [h3, Nat.cast_sub (le_of_lt hgt), cast_P, sub_zero]
    · refine ⟨a, ?_, by omega, rfl⟩
      show (if a > M then reduceA fuel (a - M) else Fuel.done a) = _
      rw [if_neg (show ¬ a > M from hgt)]


theorem inv_zero_case (x : Nat) (h : x = 0 ∨ x = M) : Model.F62.inv x = .done 0 := by
  unfold Model.F62.inv
  rw [if_pos h]

theorem inv_unfold (x : Nat) (h : ¬ (x = 0 ∨ x = M)) (a a' : Nat)
    (h1 : outer 400 0 (if x % 2 = 1 then x else x + M) M (M - 1) = .done a)
    (h2 : reduceA 200 a = .done a') :
    Model.F62.inv x = .done (mul (a' % 18446744073709551616) R3) := by
  unfold Model.F62.inv
  rw [if_neg h]
  dsimp only
  rw [h1]
  dsimp only
  rw [h2]

theorem not_dvd_word (x : Nat) (hxl : x < 9223249991064092674) (h0 : x ≠ 0)
    (hM : x ≠ 4611624995532046337) : ¬ (4611624995532046337 ∣ x) := by
  rintro ⟨c, hc⟩
  rcases c with _ | _ | c
  · exact h0 (by rw [hc])
  · exact hM (by rw [hc])
  · have : 4611624995532046337 * 2 ≤ 4611624995532046337 * (c + 1 + 1) :=
      Nat.mul_le_mul_left _ (by omega)
    rw [← hc] at this
    omega

/-- the initial state of the main loop satisfies the invariant -/
theorem init_state (x : Nat) (hx : Inv x) (h0 : x ≠ 0) (hM : x ≠ 4611624995532046337) :
    St (x : ZMod P) 0 (if x % 2 = 1 then x else x + 4611624995532046337) 4611624995532046337
      (4611624995532046337 - 1) 0 := by
  have hxl := hx.lt
  obtain ⟨u0, hu0⟩ : ∃ u0, (if x % 2 = 1 then x else x + 4611624995532046337) = u0 := ⟨_, rfl⟩
  rw [hu0]
  have hodd : u0 % 2 = 1 := by rw [← hu0]; split <;> omega
  have hcong : (u0 : ZMod P) = (x : ZMod P) := by
    rw [← hu0]; split
    · rfl
    · rw [Nat.cast_add, cast_P, add_zero]
  have hlt : u0 < 13834874986596139011 := by rw [← hu0]; split <;> omega
  have hndvd : ¬ (4611624995532046337 ∣ u0) := by
    rw [← hu0]
    split
    · exact not_dvd_word x hxl h0 hM
    · rw [Nat.dvd_add_self_right]
      exact not_dvd_word x hxl h0 hM
  refine ⟨hodd, by decide, ?_, ?_, ?_, ?_, by omega, by omega⟩
  · exact (Nat.coprime_comm.1 ((Nat.Prime.coprime_iff_not_dvd Primes.prime_M62).2 hndvd))
  · rw [Nat.cast_zero, zero_mul, cast_P]
  · rw [hcong, Nat.cast_sub (by decide), cast_P, Nat.cast_one]; ring
  · rw [pow_zero, mul_one]
    calc u0 * 4611624995532046337 ≤ 13834874986596139011 * 4611624995532046337 :=
          Nat.mul_le_mul_right _ (le_of_lt hlt)
      _ ≤ 2 ^ 126 := by norm_num

/-- inversion: the loops end within the model's fuel for every raw word of the invariant, the
    result satisfies the invariant, zero (raw `0` and raw `M`) maps to zero and every other
    residue to its inverse -/
theorem inv_spec (x : Nat) (hx : Inv x) :
    ∃ r, Model.F62.inv x = .done r ∧ Inv r ∧ val r = (val x)⁻¹ := by
  by_cases hz : x = 0 ∨ x = M
  · refine ⟨0, inv_zero_case x hz, zero_inv, ?_⟩
    rw [(val_eq_zero_iff x hx).2 hz, val_zero, inv_zero]
  · have h0 : x ≠ 0 := fun h => hz (Or.inl h)
    have hM : x ≠ 4611624995532046337 := fun h => hz (Or.inr h)
    have hst := init_state x hx h0 hM
    obtain ⟨a, ha1, ha2, ha3⟩ := outer_spec (x : ZMod P) 400 _ _ _ _ 0 hst (by norm_num)
    obtain ⟨a', hr1, hr2, hr3⟩ := reduceA_spec 200 a (by omega) (by norm_num)
    have hmod : a' % 18446744073709551616 = a' := Nat.mod_eq_of_lt (by omega)
    have hprod : a' * R3 < 85069466056501613216581866859205230592 :=
      prod_lt_word a' R3 (by omega) (by decide)
    refine ⟨mul a' R3, ?_, (mul_spec_gen a' R3 hprod).1, ?_⟩
    · have := inv_unfold x hz a a' ha1 hr1
      rw [hmod] at this
      exact this
    · obtain ⟨_, q, h⟩ := mul_spec_gen a' R3 hprod
      have h1 := cast_mont h
      have h2 := val_eq_of_mul_R h1
      have hR := R_Rinv
      rw [← hr3] at ha2
      symm
      apply inv_eq_of_mul_eq_one_left
      unfold val
      rw [h2, Nat.cast_mul, R3_eq]
      linear_combination ((a' : ZMod P) * (x : ZMod P) * ((R : ZMod P) * (Rinv : ZMod P)) *
          ((R : ZMod P) * (Rinv : ZMod P) + 1) + (a' : ZMod P) * (x : ZMod P)) * hR + ha2


end WinterProofs.F62Z
