-- C15/C05: naturality of the FOps-generic FRI model — definitions.  If raw-word operations `O : FOps ℕ` refine the
-- field `ZMod p` through an abstraction `val` on the words satisfying an invariant `ok` (what property C07 proves
-- for the three base fields), every model function run on raw words commutes with `val`.
import Mathlib.Algebra.Field.ZMod
import WinterProofs.Lemmas.C15Bridge

namespace WinterProofs.C15H
open Model.Fri

/-- the raw-word operations `O` compute in `ZMod p` -/
structure FRefines (O : FOps ℕ) (p : ℕ) [Fact p.Prime] (ok : ℕ → Prop) (val : ℕ → ZMod p) (T : ℕ) : Prop where
  zero : ok O.zero ∧ val O.zero = 0
  one : ok O.one ∧ val O.one = 1
  add : ∀ a b, ok a → ok b → ok (O.add a b) ∧ val (O.add a b) = val a + val b
  sub : ∀ a b, ok a → ok b → ok (O.sub a b) ∧ val (O.sub a b) = val a - val b
  mul : ∀ a b, ok a → ok b → ok (O.mul a b) ∧ val (O.mul a b) = val a * val b
  inv : ∀ a, ok a → ok (O.inv a) ∧ val (O.inv a) = (val a)⁻¹
  beq : ∀ a b, ok a → ok b → (O.beq a b = true ↔ val a = val b)
  ofNat : ∀ n, n < 2 ^ 64 → ok (O.ofNat n) ∧ val (O.ofNat n) = (n : ZMod p)
  /-- `get_root_of_unity(k)` asserts `1 ≤ k ≤ T` -/
  rootOk : ∀ k, O.rootOk k = true ↔ (1 ≤ k ∧ k ≤ T)
  /-- … and then returns an element of exact order `2^k` -/
  root : ∀ k, 1 ≤ k → k ≤ T → ok (O.root k) ∧ orderOf (val (O.root k)) = 2 ^ k
  /-- the roots of unity are coherent: all are powers of the same two-adic root -/
  root_coh : ∀ k m, 1 ≤ m → m ≤ k → k ≤ T → val (O.root m) = val (O.root k) ^ 2 ^ (k - m)
  /-- the domain offset (the field's generator) is a non-zero element -/
  offset : ok O.offset ∧ val O.offset ≠ 0

variable {p : ℕ} [Fact p.Prime]

/-- the field-side operations the raw operations refine -/
def absOps (O : FOps ℕ) (val : ℕ → ZMod p) : FOps (ZMod p) :=
  C15.fieldOps (fun k => val (O.root k)) O.rootOk (val O.offset)

/-- every word of a list satisfies the invariant -/
def okL (ok : ℕ → Prop) (l : List ℕ) : Prop := ∀ x ∈ l, ok x
def okLL (ok : ℕ → Prop) (l : List (List ℕ)) : Prop := ∀ r ∈ l, okL ok r

/-- map over the result of a modelled function -/
def mapR {β γ : Type} (f : β → γ) : Res β → Res γ
  | .ok b => .ok (f b)
  | .err e => .err e
  | .panic s => .panic s

/-- a property of the successful result -/
def okR {β : Type} (P : β → Prop) : Res β → Prop
  | .ok b => P b
  | _ => True

variable {D : Type}

def mapOpening (val : ℕ → ZMod p) (op : Opening ℕ) : Opening (ZMod p) := ⟨op.merkleOk, op.rows.map (·.map val)⟩

/-- the verifier's input seen through `val` -/
def mapInp (val : ℕ → ZMod p) (inp : VInput ℕ D) : VInput (ZMod p) D where
  maxPolyDegree := inp.maxPolyDegree
  numPartitions := inp.numPartitions
  commitments := inp.commitments
  alphas := inp.alphas.map val
  layers := inp.layers.map (mapOpening val)
  remainder := inp.remainder.map val
  positions := inp.positions
  evaluations := inp.evaluations.map val

/-- all field elements of the verifier's input satisfy the invariant -/
def okInp (ok : ℕ → Prop) (inp : VInput ℕ D) : Prop :=
  okL ok inp.alphas ∧ (∀ op ∈ inp.layers, okLL ok op.rows) ∧ okL ok inp.remainder ∧ okL ok inp.evaluations

def mapState (val : ℕ → ZMod p) (st : VState ℕ) : VState (ZMod p) :=
  ⟨st.positions, st.evals.map val, val st.domainGen, st.domainSize, st.maxDegPlus1⟩

def okState (ok : ℕ → Prop) (st : VState ℕ) : Prop := okL ok st.evals ∧ ok st.domainGen

def mapLayer (val : ℕ → ZMod p) (l : Layer ℕ) : Layer (ZMod p) := ⟨l.rows.map (·.map val)⟩

def mapProver (val : ℕ → ZMod p) (pr : Prover ℕ) : Prover (ZMod p) :=
  ⟨pr.layers.map (mapLayer val), pr.remainder.map val⟩

def okProver (ok : ℕ → Prop) (pr : Prover ℕ) : Prop :=
  (∀ l ∈ pr.layers, okLL ok l.rows) ∧ okL ok pr.remainder

end WinterProofs.C15H
