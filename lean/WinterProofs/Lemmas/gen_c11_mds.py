#!/usr/bin/env python3
"""Authoring aid (not run by ./check): writes WinterProofs/Lemmas/C11Mds12.lean and C11Mds8.lean.
The simp sets name every generated step definition of Winter/Gen/{RealFft,Mds12,Mds8}.lean and the
explicit coefficient tuples are copied from the generated MDS tables; the emitted theorems are
checked by Lean against the current generated modules (`*_freq_matVec` ties the tuple to the table)."""
import re, os
L = os.path.dirname(os.path.dirname(os.path.dirname(os.path.abspath(__file__))))

def names(mod, fns, exclude=()):
    s = open(f'{L}/Winter/Gen/{mod}.lean').read()
    out = []
    for m in re.finditer(r'^def (\S+)', s, re.M):
        n = m.group(1)
        if any(n == f or n.startswith(f + '.') or n == f + '_ok' for f in fns) and not any(n.startswith(e) for e in exclude):
            out.append(n)
    return out

def wrap(items, ind='      '):
    lines, cur = [], ''
    for it in items:
        if len(cur) + len(it) > 100:
            lines.append(cur.rstrip())
            cur = ''
        cur += it + ', '
    lines.append(cur.rstrip().rstrip(','))
    return ('\n' + ind).join(lines)

def tail_chains(mod, N):
    """per component: the generated tail steps as one expression in `h` / `l` (the frequency-domain
    results of the high / low limbs), and the names of the step definitions involved"""
    src = open(f'{L}/Winter/Gen/{mod}.lean').read()
    body = re.search(r'^def mds_multiply \(.*?\n(.*?)\n\n', src, re.M | re.S).group(1)
    lets = {}
    for m in re.finditer(r'^  let (\S+) := (mds_multiply\.\S+)(.*)$', body, re.M):
        lets[m.group(1)] = (m.group(2), m.group(3).split())
    chains, used = [], set()
    def expand(v, k):
        if v == f'state_h_{k}_2':
            return 'h'
        if v == f'state_l_{k}_2':
            return 'l'
        fn, args = lets[v]
        used.add(fn)
        return '(' + f'Gen.{mod}.' + fn + ''.join(' ' + expand(a, k) for a in args) + ')'
    for k in range(N):
        chains.append(expand(f'result_{k}_1', k))
    return chains, used

def step_equations(mod, tail_used):
    """one equation per generated step definition of `mds_multiply`, proved by `rw [step]` so that it
    carries a proof term: `simp` then rewrites with it instead of unfolding definitionally (the kernel
    cannot re-check the definitional unfolding: it ends up evaluating arithmetic on 2^64 literals)"""
    src = open(f'{L}/Winter/Gen/{mod}.lean').read()
    defs = re.findall(r'^def (mds_multiply(?:\.s_\w+)?) ?((?:\([^)]*\) ?)*): ([^\n]*?) :=\n((?:  .*\n)+)', src, re.M)
    thms, head = [], []
    for name, binders, ty, body in defs:
        if name.endswith('_ok'):
            continue
        args = ' '.join(re.findall(r'\((\w+) :', binders))
        tn = 'eq_' + name.replace('.', '_')
        thms.append(f'theorem {tn} {binders.strip()} :\n    Gen.{mod}.{name} {args} =\n      ({body.strip()}) := by\n  rw [Gen.{mod}.{name}]\n')
        if name not in tail_used:
            head.append(tn)
    return '\n'.join(thms), head

def gen(mod, rp, N):
    s = open(f'{L}/Winter/Gen/{rp}.lean').read()
    mds = eval(re.search(r'def MDS : List \(List Nat\) := (\[\[.*?\]\])', s).group(1))
    fft = ['Gen.RealFft.' + n for n in names('RealFft', ['fft2_real', 'ifft2_real_unreduced', 'fft4_real', 'ifft4_real_unreduced'])]
    fr = [f'Gen.{mod}.' + n for n in names(mod, ['block1', 'block2', 'block3', 'mds_multiply_freq'])]
    chains, tail_used = tail_chains(mod, N)
    mm_all = names(mod, ['mds_multiply'], exclude=['mds_multiply_freq'])
    mm = [f'Gen.{mod}.' + n for n in mm_all]
    mm_head = [f'Gen.{mod}.' + n for n in mm_all if n not in tail_used and not n.endswith('_ok')]
    folds = '\n\n'.join(f'theorem fold_{k} (h l : Nat) :\n    {chains[k]} = tailRed l h := rfl' for k in range(N))
    fold_names = ', '.join(f"fold_{k}'" for k in range(N))
    folds_pt = '\n\n'.join(f"theorem fold_{k}' (h l : Nat) :\n    {chains[k]} = tailRed l h := by\n  rw [fold_{k}]" for k in range(N))
    step_thms, step_head = step_equations(mod, tail_used)
    step_head_names = wrap(step_head)
    mm_head_names = wrap(mm_head)
    sv = [f's{i}' for i in range(N)]
    xv = [f'x{i}' for i in range(N)]
    svs, xs = ' '.join(sv), ' '.join(xv)
    lin = lambda row, vs: ' + '.join(f'{c} * {v}' for c, v in zip(row, vs))
    hyps = ' '.join(f'(h{i} : s{i} < 4294967296)' for i in range(N))
    es = '\n'.join(f'  have e{i} := toSigned_small s{i} (by omega)' for i in range(N))
    elist = ', '.join(f'e{i}' for i in range(N))
    freq_names = wrap(fft + fr)
    mm_names = wrap(mm)
    tup = '(' + ',\n       '.join(lin(r, sv) for r in mds) + ')'
    pat = '(' + ', '.join(f'r{i}' for i in range(N)) + ')'
    lst = '[' + ', '.join(f'r{i}' for i in range(N)) + ']'
    xh = ' '.join(f'(hx{i} : x{i} < 18446744073709551616)' for i in range(N))
    hl = '\n'.join(f'  have hh{i} : x{i} / 4294967296 < 4294967296 := by omega\n  have hl{i} : x{i} % 4294967296 < 4294967296 := by omega' for i in range(N))
    us = ' '.join('_' for _ in range(N))
    hhs = ' '.join(f'hh{i}' for i in range(N))
    hls = ' '.join(f'hl{i}' for i in range(N))
    lo = [f'(x{i} % 4294967296)' for i in range(N)]
    hi = [f'(x{i} / 4294967296)' for i in range(N)]
    proj = lambda i: ('.2' * i + ('.1' if i < N - 1 else ''))
    fl = f'(Gen.{mod}.mds_multiply_freq ' + ' '.join(lo) + ')'
    fh = f'(Gen.{mod}.mds_multiply_freq ' + ' '.join(hi) + ')'
    tail_tup = '(' + ',\n       '.join(f'tailRed {fl}{proj(i)}\n         {fh}{proj(i)}' for i in range(N)) + ')'
    spec_conj = ' ∧\n    '.join(f'(r{i} < 18446744073709551616 ∧ ∃ k, {lin(mds[i], xv)} = r{i} + k * 18446744069414584321)' for i in range(N))
    spec_terms = ',\n      '.join(
        f'(by obtain ⟨hb, k, hk⟩ := tail_val ({lin(mds[i], lo)}) ({lin(mds[i], hi)}) (by omega) (by omega); exact ⟨hb, k, by omega⟩)'
        for i in range(N))
    out = f'''-- C11 helper lemmas: the frequency-domain MDS product of crypto/src/hash/mds ({mod}) is the
-- circulant matrix-vector product, exactly and without overflow.  Written by gen_c11_mds.py from the
-- generated modules (step-definition names and the coefficient tuple); checked against them by Lean.
import Winter.Gen.{mod}
import Winter.Gen.{rp}
import WinterProofs.Lemmas.C11MdsCommon
set_option linter.unusedSimpArgs false
set_option linter.unusedVariables false
set_option maxRecDepth 100000

namespace WinterProofs.C11.{mod}
open Gen WinterProofs.C11

/-- every `i64` intermediate of `mds_multiply_freq` is in range when the limbs are below `2^32` -/
theorem freq_ok ({svs} : Nat) {hyps} :
    Gen.{mod}.mds_multiply_freq_ok {svs} = true := by
{es}
  simp only [{freq_names},
      {elist}, Bool.and_eq_true, decide_eq_true_eq]
  repeat' (first | apply And.intro | apply decide_eq_true | rw [Bool.and_eq_true])
  all_goals omega

/-- `mds_multiply_freq` is the matrix-vector product with these integer rows, exactly -/
theorem freq_eq_tuple ({svs} : Nat) {hyps} :
    Gen.{mod}.mds_multiply_freq {svs} =
      {tup} := by
{es}
  simp only [{freq_names},
      {elist}, Prod.mk.injEq]
  repeat' apply And.intro
  all_goals omega

/-- the rows of `freq_eq_tuple` are the rows of the generated `MDS` table -/
theorem freq_matVec ({svs} : Nat) {hyps} :
    (match Gen.{mod}.mds_multiply_freq {svs} with
     | {pat} => {lst})
      = matVec Gen.{rp}.MDS [{', '.join(sv)}] := by
  rw [freq_eq_tuple {svs} {' '.join(f'h{i}' for i in range(N))}]
  simp only [matVec, dot, Gen.{rp}.MDS, List.map, List.zipWith, List.sum_cons, List.sum_nil,
    List.cons.injEq, and_true]
  repeat' apply And.intro
  all_goals omega

{folds}

/-- the plumbing of `mds_multiply` (which `let` feeds which): every output component is the
    reduction tail of the two frequency-domain products of the low and high 32-bit limbs -/
def mm_eq_tail_statement : Prop :=
  ∀ ({xs} : Nat),
    Gen.{mod}.mds_multiply {xs} =
      {tail_tup}

/-! one equation per generated step, each carrying a proof term (see `gen_c11_mds.py`) -/
section steps
open Gen.{mod}

{step_thms}
end steps

{folds_pt}

/-- proved by rewriting with the step equations only: no definitional unfolding, so the kernel never
    has to re-check a computation on 2^64 literals -/
theorem mm_eq_tail : mm_eq_tail_statement := by
  intro {xs}
  simp only [{step_head_names},
      {fold_names}]

end WinterProofs.C11.{mod}
'''
    open(f'{L}/WinterProofs/Lemmas/C11{mod}.lean', 'w').write(out)

gen('Mds12', 'Rp64', 12)
gen('Mds8', 'Rp64Jive', 8)
