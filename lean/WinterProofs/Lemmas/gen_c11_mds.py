#!/usr/bin/env python3
"""Authoring aid (not run by ./check): writes WinterProofs/Lemmas/C11Mds12.lean and C11Mds8.lean.
The simp sets name every generated step definition of Winter/Gen/{RealFft,Mds12,Mds8}.lean and the
explicit coefficient tuples are copied from the generated MDS tables; the emitted theorems are
checked by Lean against the current generated modules (`*_freq_matVec` ties the tuple to the table)."""
import re, os
L = os.path.dirname(os.path.dirname(os.path.dirname(os.path.abspath(__file__))))

def names(mod, fns, exclude=()):
    s = open(f'{L}/Winter/Gen/{mod}.lean').read()
    out = []
    for m in re.finditer(r'^def (\S+)', s, re.M):
        n = m.group(1)
        if any(n == f or n.startswith(f + '.') or n == f + '_ok' for f in fns) and not any(n.startswith(e) for e in exclude):
            out.append(n)
    return out

def wrap(items, ind='      '):
    lines, cur = [], ''
    for it in items:
        if len(cur) + len(it) > 100:
            lines.append(cur.rstrip())
            cur = ''
        cur += it + ', '
    lines.append(cur.rstrip().rstrip(','))
    return ('\n' + ind).join(lines)

def gen(mod, rp, N):
    s = open(f'{L}/Winter/Gen/{rp}.lean').read()
    mds = eval(re.search(r'def MDS : List \(List Nat\) := (\[\[.*?\]\])', s).group(1))
    fft = ['Gen.RealFft.' + n for n in names('RealFft', ['fft2_real', 'ifft2_real_unreduced', 'fft4_real', 'ifft4_real_unreduced'])]
    fr = [f'Gen.{mod}.' + n for n in names(mod, ['block1', 'block2', 'block3', 'mds_multiply_freq'])]
    mm = [f'Gen.{mod}.' + n for n in names(mod, ['mds_multiply'], exclude=['mds_multiply_freq'])]
    sv = [f's{i}' for i in range(N)]
    xv = [f'x{i}' for i in range(N)]
    svs, xs = ' '.join(sv), ' '.join(xv)
    lin = lambda row, vs: ' + '.join(f'{c} * {v}' for c, v in zip(row, vs))
    hyps = ' '.join(f'(h{i} : s{i} < 4294967296)' for i in range(N))
    es = '\n'.join(f'  have e{i} := toSigned_small s{i} (by omega)' for i in range(N))
    elist = ', '.join(f'e{i}' for i in range(N))
    freq_names = wrap(fft + fr)
    mm_names = wrap(mm)
    tup = '(' + ',\n       '.join(lin(r, sv) for r in mds) + ')'
    pat = '(' + ', '.join(f'r{i}' for i in range(N)) + ')'
    lst = '[' + ', '.join(f'r{i}' for i in range(N)) + ']'
    xh = ' '.join(f'(hx{i} : x{i} < 18446744073709551616)' for i in range(N))
    hl = '\n'.join(f'  have hh{i} : x{i} / 4294967296 < 4294967296 := by omega\n  have hl{i} : x{i} % 4294967296 < 4294967296 := by omega' for i in range(N))
    us = ' '.join('_' for _ in range(N))
    hhs = ' '.join(f'hh{i}' for i in range(N))
    hls = ' '.join(f'hl{i}' for i in range(N))
    lo = [f'(x{i} % 4294967296)' for i in range(N)]
    hi = [f'(x{i} / 4294967296)' for i in range(N)]
    tail_tup = '(' + ',\n       '.join(f'tailRed ({lin(r, lo)})\n         ({lin(r, hi)})' for r in mds) + ')'
    ok_terms = ',\n      '.join(f'(tail_ok1 _ _ (by omega) (by omega)), (tail_ok2 _ _ (by omega) (by omega))' for _ in range(N))
    spec_conj = ' ∧\n    '.join(f'(r{i} < 18446744073709551616 ∧ ∃ k, {lin(mds[i], xv)} = r{i} + k * 18446744069414584321)' for i in range(N))
    spec_terms = ',\n      '.join(
        f'(by obtain ⟨hb, k, hk⟩ := tail_val ({lin(mds[i], lo)}) ({lin(mds[i], hi)}) (by omega) (by omega); exact ⟨hb, k, by omega⟩)'
        for i in range(N))
    out = f'''-- C11 helper lemmas: the frequency-domain MDS product of crypto/src/hash/mds ({mod}) is the
-- circulant matrix-vector product, exactly and without overflow.  Written by gen_c11_mds.py from the
-- generated modules (step-definition names and the coefficient tuple); checked against them by Lean.
import Winter.Gen.{mod}
import Winter.Gen.{rp}
import WinterProofs.Lemmas.C11MdsCommon
set_option linter.unusedSimpArgs false
set_option linter.unusedVariables false
set_option maxRecDepth 100000

namespace WinterProofs.C11.{mod}
open Gen WinterProofs.C11

/-- every `i64` intermediate of `mds_multiply_freq` is in range when the limbs are below `2^32` -/
theorem freq_ok ({svs} : Nat) {hyps} :
    Gen.{mod}.mds_multiply_freq_ok {svs} = true := by
{es}
  simp only [{freq_names},
      {elist}, Bool.and_eq_true, decide_eq_true_eq]
  repeat' (first | apply And.intro | apply decide_eq_true | rw [Bool.and_eq_true])
  all_goals omega

/-- `mds_multiply_freq` is the matrix-vector product with these integer rows, exactly -/
theorem freq_eq_tuple ({svs} : Nat) {hyps} :
    Gen.{mod}.mds_multiply_freq {svs} =
      {tup} := by
{es}
  simp only [{freq_names},
      {elist}, Prod.mk.injEq]
  repeat' apply And.intro
  all_goals omega

/-- the rows of `freq_eq_tuple` are the rows of the generated `MDS` table -/
theorem freq_matVec ({svs} : Nat) {hyps} :
    (match Gen.{mod}.mds_multiply_freq {svs} with
     | {pat} => {lst})
      = matVec Gen.{rp}.MDS [{', '.join(sv)}] := by
  rw [freq_eq_tuple {svs} {' '.join(f'h{i}' for i in range(N))}]
  simp only [matVec, dot, Gen.{rp}.MDS, List.map, List.zipWith, List.sum_cons, List.sum_nil,
    List.cons.injEq, and_true]
  repeat' apply And.intro
  all_goals omega

/-- `mds_multiply` on raw words: split in 32-bit limbs, two frequency-domain products, and the
    reduction tail of each component -/
theorem mm_eq_tail ({xs} : Nat) {xh} :
    Gen.{mod}.mds_multiply {xs} =
      {tail_tup} := by
{hl}
  have vh := freq_eq_tuple {us} {hhs}
  have vl := freq_eq_tuple {us} {hls}
  simp only [{mm_names},
      vh, vl, tailRed]

/-- no intermediate of `mds_multiply` overflows, for all raw words -/
theorem mm_ok ({xs} : Nat) {xh} :
    Gen.{mod}.mds_multiply_ok {xs} = true := by
{hl}
  have okh := freq_ok {us} {hhs}
  have okl := freq_ok {us} {hls}
  have vh := freq_eq_tuple {us} {hhs}
  have vl := freq_eq_tuple {us} {hls}
  simp only [{mm_names},
      okh, okl, vh, vl, Bool.and_eq_true, decide_eq_true_eq, decide_true, Bool.true_and]
  refine ⟨{ok_terms}⟩

/-- every component of `mds_multiply` is a 64-bit word congruent modulo `p` to the matrix-vector
    product (as an integer) of the MDS rows with the raw words -/
theorem mm_spec ({xs} : Nat) {xh} :
    match Gen.{mod}.mds_multiply {xs} with
    | {pat} =>
    {spec_conj} := by
  rw [mm_eq_tail {xs} {' '.join(f'hx{i}' for i in range(N))}]
  refine ⟨{spec_terms}⟩

end WinterProofs.C11.{mod}
'''
    open(f'{L}/WinterProofs/Lemmas/C11{mod}.lean', 'w').write(out)

gen('Mds12', 'Rp64', 12)
gen('Mds8', 'Rp64Jive', 8)
