-- C14 helper lemmas: concurrent `build_merkle_nodes` — task `i` of `S = 2^b` sub-trees on `n = 2^a` parent-of-leaf
-- nodes writes exactly the descendants (above the first row) of node `S + i`; these sub-trees are pairwise
-- disjoint, cover all nodes `[S, n)`, and every node a task reads is one it wrote earlier or a first-row node
import WinterProofs.Lemmas.C14Arith

namespace WinterProofs.C14
open Model.Parallel
open Model.Fft (brev permuteIndex isPow2)

theorem merkleLoop_lt (S fuel start bs : Nat) (h : start < S) : merkleLoop S fuel start bs = [] := by
  cases fuel with
  | zero => rfl
  | succ f => simp [merkleLoop]; omega

/-- the loop started at the row `d` levels below node `2^b + i` walks up to that node -/
theorem merkleLoop_closed (b i : Nat) (hi : i < 2 ^ b) :
    ∀ d fuel, d < fuel →
      merkleLoop (2 ^ b) fuel ((2 ^ b + i) * 2 ^ d) (2 ^ d)
        = (List.range (d + 1)).map (fun j => ((2 ^ b + i) * 2 ^ (d - j), 2 ^ (d - j))) := by
  intro d
  induction d with
  | zero =>
    intro fuel hf
    obtain ⟨f, rfl⟩ : ∃ f, fuel = f + 1 := ⟨fuel - 1, by omega⟩
    have hlt : (2 ^ b + i) / 2 < 2 ^ b := by omega
    simp [merkleLoop, merkleLoop_lt _ _ _ _ hlt]
  | succ d ih =>
    intro fuel hf
    obtain ⟨f, rfl⟩ : ∃ f, fuel = f + 1 := ⟨fuel - 1, by omega⟩
    have hge : (2 ^ b + i) * 2 ^ (d + 1) ≥ 2 ^ b := by
      have : 1 ≤ 2 ^ (d + 1) := Nat.two_pow_pos _
      calc 2 ^ b ≤ 2 ^ b + i := by omega
        _ = (2 ^ b + i) * 1 := by omega
        _ ≤ (2 ^ b + i) * 2 ^ (d + 1) := Nat.mul_le_mul_left _ this
    have h1 : (2 ^ b + i) * 2 ^ (d + 1) / 2 = (2 ^ b + i) * 2 ^ d := by
      rw [Nat.pow_succ, ← Nat.mul_assoc, Nat.mul_div_cancel _ (by decide : 0 < 2)]
    have h2 : 2 ^ (d + 1) / 2 = 2 ^ d := by
      rw [Nat.pow_succ, Nat.mul_div_cancel _ (by decide : 0 < 2)]
    rw [merkleLoop]
    simp only [hge, ↓reduceIte, h1, h2]
    rw [ih f (by omega), List.range_succ_eq_map (n := d + 1)]
    simp only [List.map_cons, List.map_map, Nat.sub_zero]
    congr 1
    apply List.map_congr_left
    intro j _
    simp [Function.comp]

/-- closed form of the levels of task `i`: rows `a-b-1, …, 1, 0` below node `2^b + i` -/
theorem merkleTaskLevels_closed (a b i : Nat) (hb : b < a) (ha : a - b ≤ 64) (hi : i < 2 ^ b) :
    merkleTaskLevels (2 ^ a) (2 ^ b) i
      = (List.range (a - b)).map (fun j => ((2 ^ b + i) * 2 ^ (a - b - 1 - j), 2 ^ (a - b - 1 - j))) := by
  unfold merkleTaskLevels
  have hbs : 2 ^ a / 2 ^ b / 2 = 2 ^ (a - b - 1) := by
    rw [two_pow_div a b (by omega)]
    have : a - b = (a - b - 1) + 1 := by omega
    rw [this, Nat.pow_succ, Nat.mul_div_cancel _ (by decide : 0 < 2)]
    simp
  have hstart : 2 ^ a / 2 + 2 ^ (a - b - 1) * i = (2 ^ b + i) * 2 ^ (a - b - 1) := by
    have h1 : 2 ^ a / 2 = 2 ^ (a - 1) := by
      have : a = (a - 1) + 1 := by omega
      rw [this, Nat.pow_succ, Nat.mul_div_cancel _ (by decide : 0 < 2)]
      simp
    have h2 : 2 ^ b * 2 ^ (a - b - 1) = 2 ^ (a - 1) := by
      rw [← Nat.pow_add]; congr 1; omega
    rw [h1, Nat.add_mul, h2, Nat.mul_comm (2 ^ (a - b - 1)) i]
  rw [hbs, hstart, merkleLoop_closed b i hi (a - b - 1) 64 (by omega)]
  have : a - b - 1 + 1 = a - b := by omega
  rw [this]

/-- with as many sub-trees as first-row nodes (`S = n`, e.g. more threads than nodes) the spawned tasks write
    nothing: the tip `n-1, …, 1` is the whole tree -/
theorem merkleTaskLevels_full (a i : Nat) : merkleTaskLevels (2 ^ a) (2 ^ a) i = [] := by
  unfold merkleTaskLevels
  have h0 : 2 ^ a / 2 ^ a / 2 = 0 := by
    rw [Nat.div_self (Nat.two_pow_pos a)]
  rw [h0]
  apply merkleLoop_lt
  have := Nat.two_pow_pos a
  omega

/-- node `k` lies in the sub-tree task `i` owns: its ancestor `d < depth` rows up is node `S + i` -/
def InSubtree (S depth i k : Nat) : Prop := ∃ d, d < depth ∧ k / 2 ^ d = S + i

/-- the nodes task `i` writes are exactly the nodes of its sub-tree -/
theorem mem_merkleTaskWrites (a b i k : Nat) (hb : b < a) (ha : a - b ≤ 64) (hi : i < 2 ^ b) :
    k ∈ merkleTaskWrites (2 ^ a) (2 ^ b) i ↔ InSubtree (2 ^ b) (a - b) i k := by
  unfold merkleTaskWrites InSubtree
  rw [merkleTaskLevels_closed a b i hb ha hi]
  simp only [List.mem_flatMap, List.mem_map, List.mem_range, List.mem_reverse, List.mem_range'_1]
  constructor
  · rintro ⟨p, ⟨j, hj, rfl⟩, hlo, hhi⟩
    refine ⟨a - b - 1 - j, by omega, ?_⟩
    apply Nat.div_eq_of_lt_le
    · rw [Nat.mul_comm]; simpa [Nat.mul_comm] using hlo
    · rw [Nat.add_mul]
      simp only at hhi ⊢
      omega
  · rintro ⟨d, hd, hk⟩
    refine ⟨_, ⟨a - b - 1 - d, by omega, rfl⟩, ?_⟩
    have e : a - b - 1 - (a - b - 1 - d) = d := by omega
    simp only [e]
    have hpos : 0 < 2 ^ d := Nat.two_pow_pos d
    have h1 := Nat.div_mul_le_self k (2 ^ d)
    have h2 : k < (k / 2 ^ d) * 2 ^ d + 2 ^ d := by
      have := Nat.lt_div_mul_add (a := k) (b := 2 ^ d) hpos
      simpa [Nat.mul_comm] using this
    rw [hk] at h1 h2
    constructor
    · exact h1
    · omega

/-- `k / 2^d` lies in `[2^b, 2^(b+1))` exactly when `k` lies in `[2^(b+d), 2^(b+d+1))` -/
theorem div_pow_range (b d k : Nat) : (2 ^ b ≤ k / 2 ^ d ∧ k / 2 ^ d < 2 ^ (b + 1)) ↔ (2 ^ (b + d) ≤ k ∧ k < 2 ^ (b + d + 1)) := by
  have hpos : 0 < 2 ^ d := Nat.two_pow_pos d
  rw [Nat.le_div_iff_mul_le hpos, Nat.div_lt_iff_lt_mul hpos, ← Nat.pow_add, ← Nat.pow_add]
  have : b + 1 + d = b + d + 1 := by omega
  rw [this]

/-- COVER and DISJOINT: every node `k` with `S ≤ k < n` lies in the sub-tree of exactly one task -/
theorem subtree_owner_unique (a b k : Nat) (hb : b < a) (hk1 : 2 ^ b ≤ k) (hk2 : k < 2 ^ a) :
    ∃ i, i < 2 ^ b ∧ InSubtree (2 ^ b) (a - b) i k ∧ ∀ i', i' < 2 ^ b → InSubtree (2 ^ b) (a - b) i' k → i' = i := by
  -- the row of k
  have hk0 : k ≠ 0 := by have := Nat.two_pow_pos b; omega
  let d := Nat.log2 k - b
  have hlog1 : 2 ^ Nat.log2 k ≤ k := Nat.log2_self_le hk0
  have hlog2 : k < 2 ^ (Nat.log2 k + 1) := Nat.lt_log2_self
  have hbl : b ≤ Nat.log2 k := by
    rw [Nat.le_log2 hk0]; exact hk1
  have hla : Nat.log2 k < a := by
    rw [Nat.log2_lt hk0]; exact hk2
  have hbd : b + d = Nat.log2 k := by simp only [d]; omega
  have hr := (div_pow_range b d k).mpr ⟨by rw [hbd]; exact hlog1, by rw [hbd]; exact hlog2⟩
  refine ⟨k / 2 ^ d - 2 ^ b, by rw [Nat.pow_succ] at hr; omega, ⟨d, by omega, by omega⟩, ?_⟩
  rintro i' hi' ⟨d', hd', hk'⟩
  -- the row is determined by k
  have hr' := (div_pow_range b d' k).mp ⟨by omega, by rw [Nat.pow_succ]; omega⟩
  have hdd : d' = d := by
    have h1 : b + d' ≤ Nat.log2 k := by rw [Nat.le_log2 hk0]; exact hr'.1
    have h2 : Nat.log2 k < b + d' + 1 := by rw [Nat.log2_lt hk0]; exact hr'.2
    omega
  subst hdd
  omega

/-- DEPENDENCIES: below the top row of its sub-tree a task reads only nodes it wrote earlier — the two children of
    a node of the sub-tree are nodes of the same sub-tree, one row further down (written one loop iteration before) -/
theorem subtree_children (S depth i k d : Nat) (hd : d + 1 < depth) (hk : k / 2 ^ d = S + i) :
    InSubtree S depth i (2 * k) ∧ InSubtree S depth i (2 * k + 1) := by
  have h1 : 2 * k / 2 ^ (d + 1) = k / 2 ^ d := by
    rw [Nat.pow_succ, Nat.mul_comm (2 ^ d) 2, ← Nat.div_div_eq_div_mul, Nat.mul_div_cancel_left _ (by decide : 0 < 2)]
  have h2 : (2 * k + 1) / 2 ^ (d + 1) = k / 2 ^ d := by
    rw [Nat.pow_succ, Nat.mul_comm (2 ^ d) 2, ← Nat.div_div_eq_div_mul]
    congr 1; omega
  exact ⟨⟨d + 1, hd, by rw [h1, hk]⟩, ⟨d + 1, hd, by rw [h2, hk]⟩⟩

/-- … and the children of the bottom row of the sub-trees (`d = depth - 1`, nodes `[n/2, n)`) are first-row nodes
    `[n, 2n)`, written by the first phase before the tasks are spawned -/
theorem subtree_bottom_children (a b i k : Nat) (hb : b < a) (hi : i < 2 ^ b) (hk : k / 2 ^ (a - b - 1) = 2 ^ b + i) :
    2 ^ a ≤ 2 * k ∧ 2 * k + 1 < 2 * 2 ^ a := by
  have h := (div_pow_range b (a - b - 1) k).mp ⟨by omega, by rw [Nat.pow_succ]; omega⟩
  have e1 : b + (a - b - 1) = a - 1 := by omega
  have e2 : a - 1 + 1 = a := by omega
  rw [e1, e2] at h
  have e3 : 2 ^ a = 2 * 2 ^ (a - 1) := by
    have : a = (a - 1) + 1 := by omega
    rw [this, Nat.pow_succ]; simp; omega
  omega

/-- the tip: nodes `S-1, …, 1` in this order; the children of a tip node are tip nodes finished before it or roots
    of the sub-trees `[S, 2S)` -/
theorem merkleTip_spec (S : Nat) :
    (∀ k, k ∈ merkleTip S ↔ 1 ≤ k ∧ k < S) ∧ (merkleTip S).Pairwise (fun x y => y < x) := by
  unfold merkleTip
  constructor
  · intro k; simp [List.mem_range'_1]; omega
  · rw [List.pairwise_reverse]
    exact List.pairwise_lt_range' (s := 1) (n := S - 1)

theorem tip_children (S k : Nat) (h1 : 1 ≤ k) (h2 : k < S) :
    (k < 2 * k ∧ k < 2 * k + 1) ∧ 2 * k + 1 < 2 * S := by omega

end WinterProofs.C14
