-- C15/C05: naturality ("parametricity by hand") of the FOps-generic FRI model `Model.Fri` in its record of field
-- operations.  If raw-word operations `O : FOps ℕ` refine the field `ZMod p` through an abstraction `val` on the
-- words satisfying an invariant `ok` (`FRefines`, what property C07 proves for the base fields), then every model
-- function run on invariant-satisfying raw words returns invariant-satisfying words whose image under `val` is the
-- result of the SAME model function run with the field operations `absOps O val` on the images of the inputs.
-- Element level (`pow` … `interpolateWithOffset`), structure level (layout functions commute with any element map),
-- prover (`applyDrp`, `setRemainder`, `buildLayersLoop`, `build_layers`, `build_proof`) and verifier
-- (`verifyLayer`, `verifyLayers`, `verifyRemainder`, `verify`).
import WinterProofs.Lemmas.C15HomDefs

set_option linter.unusedSectionVars false
set_option linter.unusedVariables false

namespace WinterProofs.C15H
open Model.Fri

variable {O : FOps ℕ} {p : ℕ} [Fact p.Prime] {ok : ℕ → Prop} {val : ℕ → ZMod p} {T : ℕ}

local notation "A" => absOps O val

/-! ## the field-side operations -/

@[simp] theorem absOps_zero : (absOps O val).zero = 0 := rfl
@[simp] theorem absOps_one : (absOps O val).one = 1 := rfl
@[simp] theorem absOps_add (a b : ZMod p) : (absOps O val).add a b = a + b := rfl
@[simp] theorem absOps_sub (a b : ZMod p) : (absOps O val).sub a b = a - b := rfl
@[simp] theorem absOps_mul (a b : ZMod p) : (absOps O val).mul a b = a * b := rfl
@[simp] theorem absOps_inv (a : ZMod p) : (absOps O val).inv a = a⁻¹ := rfl
@[simp] theorem absOps_beq (a b : ZMod p) : (absOps O val).beq a b = decide (a = b) := rfl
@[simp] theorem absOps_ofNat (n : ℕ) : (absOps O val).ofNat n = (n : ZMod p) := rfl
@[simp] theorem absOps_root (k : ℕ) : (absOps O val).root k = val (O.root k) := rfl
@[simp] theorem absOps_rootOk (k : ℕ) : (absOps O val).rootOk k = O.rootOk k := rfl
@[simp] theorem absOps_offset : (absOps O val).offset = val O.offset := rfl

/-! ## lists of words -/

theorem okL_nil : okL ok [] := fun _ h => by cases h

theorem okL_cons {x : ℕ} {l : List ℕ} : okL ok (x :: l) ↔ ok x ∧ okL ok l := by
  unfold okL
  exact List.forall_mem_cons

theorem foldr_rel (f : ℕ → ℕ → ℕ) (f' : ZMod p → ZMod p → ZMod p)
    (hstep : ∀ b acc, ok b → ok acc → ok (f b acc) ∧ val (f b acc) = f' (val b) (val acc))
    (l : List ℕ) (hl : okL ok l) (init : ℕ) (hinit : ok init) :
    ok (l.foldr f init) ∧ val (l.foldr f init) = (l.map val).foldr f' (val init) := by
  induction l with
  | nil => exact ⟨hinit, rfl⟩
  | cons b l ih =>
    obtain ⟨h1, h2⟩ := ih (fun b hb => hl b (List.mem_cons_of_mem _ hb))
    obtain ⟨h3, h4⟩ := hstep b _ (hl b List.mem_cons_self) h1
    simp only [List.foldr_cons, List.map_cons]
    rw [← h2]; exact ⟨h3, h4⟩

/-- a map whose steps are natural is natural -/
theorem map_rel {β γ : Type} (f : β → ℕ) (f' : γ → ZMod p) (m : β → γ) (P : β → Prop)
    (hstep : ∀ b, P b → ok (f b) ∧ val (f b) = f' (m b))
    (l : List β) (hl : ∀ b ∈ l, P b) :
    okL ok (l.map f) ∧ (l.map f).map val = (l.map m).map f' := by
  constructor
  · intro x hx
    obtain ⟨b, hb, rfl⟩ := List.mem_map.1 hx
    exact (hstep b (hl b hb)).1
  · rw [List.map_map, List.map_map]
    exact List.map_congr_left fun b hb => (hstep b (hl b hb)).2

/-! ## element level -/

theorem pow_nat (H : FRefines O p ok val T) (x : ℕ) (hx : ok x) (n : ℕ) :
    ok (pow O x n) ∧ val (pow O x n) = pow A (val x) n := by
  induction n using Nat.strong_induction_on generalizing x with
  | _ n ih =>
    rw [pow.eq_1 O x n, pow.eq_1 (absOps O val) (val x) n]
    by_cases h0 : n = 0
    · rw [dif_pos h0, dif_pos h0]
      exact H.one
    · rw [dif_neg h0, dif_neg h0]
      obtain ⟨hm1, hm2⟩ := H.mul x x hx hx
      obtain ⟨h1, h2⟩ := ih (n / 2) (by omega) (O.mul x x) hm1
      rw [hm2] at h2
      simp only [absOps_mul]
      by_cases h1' : n % 2 = 1
      · rw [if_pos h1', if_pos h1']
        obtain ⟨h3, h4⟩ := H.mul _ _ h1 hx
        exact ⟨h3, by rw [h4, h2]⟩
      · rw [if_neg h1', if_neg h1']
        exact ⟨h1, h2⟩

theorem sumL_nat (H : FRefines O p ok val T) (l : List ℕ) (hl : okL ok l) :
    ok (sumL O l) ∧ val (sumL O l) = sumL A (l.map val) := by
  have := foldr_rel (ok := ok) (val := val) O.add (fun a b => a + b) (fun b acc hb ha => H.add b acc hb ha)
    l hl O.zero H.zero.1
  rw [H.zero.2] at this
  exact this

theorem prodL_nat (H : FRefines O p ok val T) (l : List ℕ) (hl : okL ok l) :
    ok (prodL O l) ∧ val (prodL O l) = prodL A (l.map val) := by
  have := foldr_rel (ok := ok) (val := val) O.mul (fun a b => a * b) (fun b acc hb ha => H.mul b acc hb ha)
    l hl O.one H.one.1
  rw [H.one.2] at this
  exact this

theorem horner_nat (H : FRefines O p ok val T) (c : List ℕ) (hc : okL ok c) (x : ℕ) (hx : ok x) :
    ok (horner O c x) ∧ val (horner O c x) = horner A (c.map val) (val x) := by
  have := foldr_rel (ok := ok) (val := val) (fun c acc => O.add (O.mul acc x) c)
    (fun c acc => acc * val x + c)
    (fun b acc hb hacc => by
      obtain ⟨h1, h2⟩ := H.mul _ _ hacc hx
      obtain ⟨h3, h4⟩ := H.add _ _ h1 hb
      exact ⟨h3, by rw [h4, h2]⟩)
    c hc O.zero H.zero.1
  rw [H.zero.2] at this
  exact this

theorem powerSeries_nat (H : FRefines O p ok val T) (b s : ℕ) (hb : ok b) (hs : ok s) (n : ℕ) :
    okL ok (powerSeries O b s n) ∧ (powerSeries O b s n).map val = powerSeries A (val b) (val s) n := by
  induction n generalizing s with
  | zero => exact ⟨okL_nil, rfl⟩
  | succ n ih =>
    obtain ⟨h1, h2⟩ := H.mul s b hs hb
    obtain ⟨h3, h4⟩ := ih (O.mul s b) h1
    rw [powerSeries, powerSeries]
    refine ⟨okL_cons.2 ⟨hs, h3⟩, ?_⟩
    rw [List.map_cons, h4, h2]
    rfl

theorem beqList_nat (H : FRefines O p ok val T) (a b : List ℕ) (ha : okL ok a) (hb : okL ok b) :
    beqList O a b = beqList A (a.map val) (b.map val) := by
  induction a generalizing b with
  | nil =>
    cases b with
    | nil => rfl
    | cons y ys => rfl
  | cons x xs ih =>
    cases b with
    | nil => rfl
    | cons y ys =>
      obtain ⟨hx, hxs⟩ := okL_cons.1 ha
      obtain ⟨hy, hys⟩ := okL_cons.1 hb
      rw [List.map_cons, List.map_cons, beqList, beqList, ih ys hxs hys, absOps_beq]
      congr 1
      rw [Bool.eq_iff_iff, H.beq x y hx hy, decide_eq_true_eq]

theorem scaleSeries_nat (H : FRefines O p ok val T) (d s : ℕ) (cs : List ℕ) (hd : ok d) (hs : ok s)
    (hcs : okL ok cs) :
    okL ok (scaleSeries O d s cs) ∧
      (scaleSeries O d s cs).map val = scaleSeries A (val d) (val s) (cs.map val) := by
  induction cs generalizing s with
  | nil => exact ⟨okL_nil, rfl⟩
  | cons c cs ih =>
    obtain ⟨hc, hcs'⟩ := okL_cons.1 hcs
    obtain ⟨h1, h2⟩ := H.mul s d hs hd
    obtain ⟨h3, h4⟩ := ih (O.mul s d) h1 hcs'
    obtain ⟨h5, h6⟩ := H.mul c s hc hs
    rw [List.map_cons, scaleSeries, scaleSeries]
    refine ⟨okL_cons.2 ⟨h5, h3⟩, ?_⟩
    rw [List.map_cons, h4, h2, h6]
    rfl

theorem dft_nat (H : FRefines O p ok val T) (w : ℕ) (hw : ok w) (row : List ℕ) (hrow : okL ok row) :
    okL ok (dft O w row) ∧ (dft O w row).map val = dft A (val w) (row.map val) := by
  have hk : ∀ k : ℕ, ok (sumL O (row.zipIdx.map fun (v, j) => O.mul v (pow O w (j * k)))) ∧
      val (sumL O (row.zipIdx.map fun (v, j) => O.mul v (pow O w (j * k))))
        = sumL A ((row.map val).zipIdx.map fun (v, j) => (absOps O val).mul v (pow A (val w) (j * k))) := by
    intro k
    obtain ⟨h1, h2⟩ := map_rel (ok := ok) (val := val)
      (fun (t : ℕ × ℕ) => O.mul t.1 (pow O w (t.2 * k)))
      (fun (t : ZMod p × ℕ) => (absOps O val).mul t.1 (pow A (val w) (t.2 * k)))
      (Prod.map val id) (fun t => ok t.1)
      (fun t ht => by
        obtain ⟨h1, h2⟩ := pow_nat H w hw (t.2 * k)
        obtain ⟨h3, h4⟩ := H.mul _ _ ht h1
        exact ⟨h3, by rw [h4, h2]; rfl⟩)
      row.zipIdx (fun t ht => hrow _ (List.fst_mem_of_mem_zipIdx ht))
    obtain ⟨h3, h4⟩ := sumL_nat H _ h1
    refine ⟨h3, ?_⟩
    rw [h4, h2, List.zipIdx_map]
  unfold dft
  constructor
  · intro x hx
    obtain ⟨k, _, rfl⟩ := List.mem_map.1 hx
    exact (hk k).1
  · rw [List.map_map, List.length_map]
    exact List.map_congr_left fun k _ => (hk k).2

theorem drpRow_nat (H : FRefines O p ok val T) (w lenInv alpha invX : ℕ) (row : List ℕ) (hw : ok w)
    (hlen : ok lenInv) (ha : ok alpha) (hx : ok invX) (hrow : okL ok row) :
    ok (drpRow O w lenInv alpha row invX) ∧
      val (drpRow O w lenInv alpha row invX)
        = drpRow A (val w) (val lenInv) (val alpha) (row.map val) (val invX) := by
  obtain ⟨h1, h2⟩ := dft_nat H w hw row hrow
  obtain ⟨h3, h4⟩ := scaleSeries_nat H invX lenInv _ hx hlen h1
  obtain ⟨h5, h6⟩ := horner_nat H _ h3 alpha ha
  unfold drpRow
  exact ⟨h5, by rw [h6, h4, h2]⟩

theorem rowPoints_nat (H : FRefines O p ok val T) (roots : List ℕ) (hroots : okL ok roots) (dg : ℕ)
    (hdg : ok dg) (i : ℕ) :
    okL ok (rowPoints O roots dg i) ∧
      (rowPoints O roots dg i).map val = rowPoints A (roots.map val) (val dg) i := by
  obtain ⟨h1, h2⟩ := pow_nat H dg hdg i
  obtain ⟨h3, h4⟩ := H.mul _ _ h1 H.offset.1
  unfold rowPoints
  have := map_rel (ok := ok) (val := val) (fun r => O.mul (O.mul (pow O dg i) O.offset) r)
    (fun r => (absOps O val).mul ((absOps O val).mul (pow A (val dg) i) (absOps O val).offset) r) val ok
    (fun r hr => by
      obtain ⟨h5, h6⟩ := H.mul _ _ h3 hr
      exact ⟨h5, by rw [h6, h4, h2]; rfl⟩)
    roots hroots
  exact this

theorem lagrangeEval_nat (H : FRefines O p ok val T) (xs ys : List ℕ) (hxs : okL ok xs) (hys : okL ok ys)
    (a : ℕ) (ha : ok a) :
    ok (lagrangeEval O xs ys a) ∧
      val (lagrangeEval O xs ys a) = lagrangeEval A (xs.map val) (ys.map val) (val a) := by
  -- the two products over the other points
  have hprod : ∀ (c : ℕ), ok c → ∀ j : ℕ,
      ok (prodL O ((xs.eraseIdx j).map fun xk => O.sub c xk)) ∧
      val (prodL O ((xs.eraseIdx j).map fun xk => O.sub c xk))
        = prodL A (((xs.map val).eraseIdx j).map fun xk => (absOps O val).sub (val c) xk) := by
    intro c hc j
    obtain ⟨h1, h2⟩ := map_rel (ok := ok) (val := val) (fun xk => O.sub c xk)
      (fun xk => (absOps O val).sub (val c) xk) val ok
      (fun xk hxk => H.sub c xk hc hxk)
      (xs.eraseIdx j) (fun x hx => hxs x (List.mem_of_mem_eraseIdx hx))
    obtain ⟨h3, h4⟩ := prodL_nat H _ h1
    exact ⟨h3, by rw [h4, h2, List.eraseIdx_map]⟩
  obtain ⟨h1, h2⟩ := map_rel (ok := ok) (val := val)
    (fun (t : (ℕ × ℕ) × ℕ) =>
      O.mul t.1.2 (O.mul (prodL O ((xs.eraseIdx t.2).map fun xk => O.sub a xk))
        (O.inv (prodL O ((xs.eraseIdx t.2).map fun xk => O.sub t.1.1 xk)))))
    (fun (t : (ZMod p × ZMod p) × ℕ) =>
      (absOps O val).mul t.1.2 ((absOps O val).mul
        (prodL A (((xs.map val).eraseIdx t.2).map fun xk => (absOps O val).sub (val a) xk))
        ((absOps O val).inv (prodL A (((xs.map val).eraseIdx t.2).map fun xk => (absOps O val).sub t.1.1 xk)))))
    (Prod.map (Prod.map val val) id) (fun t => ok t.1.1 ∧ ok t.1.2)
    (fun t ht => by
      obtain ⟨h1, h2⟩ := hprod a ha t.2
      obtain ⟨h3, h4⟩ := hprod t.1.1 ht.1 t.2
      obtain ⟨h5, h6⟩ := H.inv _ h3
      obtain ⟨h7, h8⟩ := H.mul _ _ h1 h5
      obtain ⟨h9, h10⟩ := H.mul _ _ ht.2 h7
      exact ⟨h9, by rw [h10, h8, h6, h4, h2]; rfl⟩)
    (xs.zip ys).zipIdx
    (fun t ht => by
      have := List.fst_mem_of_mem_zipIdx ht
      have := List.of_mem_zip (a := t.1.1) (b := t.1.2) this
      exact ⟨hxs _ this.1, hys _ this.2⟩)
  obtain ⟨h3, h4⟩ := sumL_nat H _ h1
  unfold lagrangeEval
  refine ⟨h3, ?_⟩
  rw [h4, h2, List.zip_map, List.zipIdx_map]

theorem interpolateWithOffset_nat (H : FRefines O p ok val T) (evals : List ℕ) (hev : okL ok evals)
    (hn : evals.length < 2 ^ 64) (hk : 1 ≤ Nat.log2 evals.length ∧ Nat.log2 evals.length ≤ T) :
    okL ok (interpolateWithOffset O evals) ∧
      (interpolateWithOffset O evals).map val = interpolateWithOffset A (evals.map val) := by
  obtain ⟨hg, _⟩ := H.root _ hk.1 hk.2
  obtain ⟨hgi, hgi'⟩ := H.inv _ hg
  obtain ⟨hoi, hoi'⟩ := H.inv _ H.offset.1
  obtain ⟨hnn, hnn'⟩ := H.ofNat _ hn
  obtain ⟨hni, hni'⟩ := H.inv _ hnn
  obtain ⟨h1, h2⟩ := dft_nat H _ hgi evals hev
  obtain ⟨h3, h4⟩ := scaleSeries_nat H _ _ _ hoi hni h1
  unfold interpolateWithOffset
  refine ⟨h3, ?_⟩
  rw [h4, h2, hoi', hni', hnn', hgi', List.length_map]
  rfl

/-! ## structure level -/

theorem mapM_cons' {β γ : Type} (f : β → Option γ) (x : β) (xs : List β) :
    (x :: xs).mapM f = (f x).bind fun y => (xs.mapM f).bind fun ys => some (y :: ys) := by
  rw [List.mapM_cons]; rfl

theorem mapM_nil' {β γ : Type} (f : β → Option γ) : ([] : List β).mapM f = some [] := by
  simp [List.mapM_nil]

/-- `Option.mapM` commutes with a map of the results -/
theorem mapM_map {β γ δ : Type} (g : β → Option γ) (f : γ → δ) (xs : List β) :
    xs.mapM (fun x => (g x).map f) = (xs.mapM g).map (List.map f) := by
  induction xs with
  | nil => rw [mapM_nil', mapM_nil']; rfl
  | cons x xs ih =>
    rw [mapM_cons', mapM_cons', ih]
    cases g x with
    | none => rfl
    | some y =>
      cases xs.mapM g with
      | none => rfl
      | some ys => rfl

theorem mapM_congr' {β γ : Type} (g g' : β → Option γ) (xs : List β) (h : ∀ x ∈ xs, g x = g' x) :
    xs.mapM g = xs.mapM g' := by
  induction xs with
  | nil => rw [mapM_nil', mapM_nil']
  | cons x xs ih =>
    rw [mapM_cons', mapM_cons', h x List.mem_cons_self, ih fun y hy => h y (List.mem_cons_of_mem _ hy)]

theorem mapM_length {β γ : Type} (g : β → Option γ) (xs : List β) (ys : List γ) (h : xs.mapM g = some ys) :
    ys.length = xs.length := by
  induction xs generalizing ys with
  | nil => rw [mapM_nil'] at h; cases h; rfl
  | cons x xs ih =>
    rw [mapM_cons'] at h
    cases hx : g x with
    | none => rw [hx] at h; cases h
    | some y =>
      cases hxs : xs.mapM g with
      | none => rw [hx, hxs] at h; cases h
      | some zs =>
        rw [hx, hxs] at h
        cases h
        rw [List.length_cons, List.length_cons, ih zs hxs]

variable {β γ : Type}

theorem transpose_map (f : β → γ) (N : ℕ) (xs : List β) :
    transpose N (xs.map f) = (transpose N xs).map (List.map (List.map f)) := by
  unfold transpose
  simp only [List.length_map]
  by_cases h : xs.length / N * N ≠ xs.length
  · rw [if_pos h, if_pos h]; rfl
  · rw [if_neg h, if_neg h, ← mapM_map]
    refine mapM_congr' _ _ _ fun r _ => ?_
    rw [← mapM_map]
    refine mapM_congr' _ _ _ fun j _ => ?_
    exact List.getElem?_map

theorem getQueryValues_map (f : β → γ) (rows : List (List β)) (ps folded : List ℕ) (n N : ℕ) :
    getQueryValues (rows.map (List.map f)) ps folded n N
      = (getQueryValues rows ps folded n N).map (List.map f) := by
  unfold getQueryValues
  by_cases h : n / N = 0
  · simp only [if_pos h]
    by_cases h' : ps.isEmpty = true
    · rw [if_pos h', if_pos h']; rfl
    · rw [if_neg h', if_neg h']; rfl
  · simp only [if_neg h]
    rw [← mapM_map]
    refine mapM_congr' _ _ _ fun q _ => ?_
    cases folded.idxOf? (q % (n / N)) with
    | none => rfl
    | some idx =>
      simp only [List.getElem?_map]
      cases rows[idx]? with
      | none => rfl
      | some row => simp only [Option.map_some, List.getElem?_map]

theorem queryLayer_map (f : β → γ) (l : Layer β) (ps : List ℕ) :
    queryLayer ⟨l.rows.map (List.map f)⟩ ps = (queryLayer l ps).map (List.map (List.map f)) := by
  unfold queryLayer
  rw [← mapM_map]
  refine mapM_congr' _ _ _ fun q _ => ?_
  exact List.getElem?_map

theorem queryLayers_map (f : β → γ) (N : ℕ) (ls : List (Layer β)) (ps : List ℕ) (n : ℕ) :
    queryLayers N (ls.map fun l => ⟨l.rows.map (List.map f)⟩) ps n
      = mapR (List.map (List.map (List.map f))) (queryLayers N ls ps n) := by
  induction ls generalizing ps n with
  | nil => rfl
  | cons l ls ih =>
    rw [List.map_cons, queryLayers, queryLayers]
    cases foldPositions ps n N with
    | none => rfl
    | some folded =>
      simp only [queryLayer_map]
      cases queryLayer l folded with
      | none => rfl
      | some pl =>
        simp only [Option.map_some, ih]
        cases queryLayers N ls folded (n / N) with
        | ok pls => rfl
        | err e => rfl
        | panic s => rfl

/-! ## where the results of the layout functions come from -/

theorem mapM_mem {β γ : Type} (g : β → Option γ) (xs : List β) (ys : List γ) (h : xs.mapM g = some ys) :
    ∀ y ∈ ys, ∃ x ∈ xs, g x = some y := by
  induction xs generalizing ys with
  | nil => rw [mapM_nil'] at h; cases h; intro y hy; cases hy
  | cons x xs ih =>
    rw [mapM_cons'] at h
    cases hx : g x with
    | none => rw [hx] at h; cases h
    | some z =>
      cases hxs : xs.mapM g with
      | none => rw [hx, hxs] at h; cases h
      | some zs =>
        rw [hx, hxs] at h
        cases h
        intro y hy
        rcases List.mem_cons.1 hy with rfl | hy
        · exact ⟨x, List.mem_cons_self, hx⟩
        · obtain ⟨x', hx', hg⟩ := ih zs hxs y hy
          exact ⟨x', List.mem_cons_of_mem _ hx', hg⟩

theorem transpose_mem (N : ℕ) (xs : List β) (rows : List (List β)) (h : transpose N xs = some rows) :
    ∀ r ∈ rows, ∀ x ∈ r, x ∈ xs := by
  unfold transpose at h
  by_cases hc : xs.length / N * N ≠ xs.length
  · simp only [if_pos hc] at h; cases h
  · simp only [if_neg hc] at h
    intro r hr x hx
    obtain ⟨i, _, hi⟩ := mapM_mem _ _ _ h r hr
    obtain ⟨j, _, hj⟩ := mapM_mem _ _ _ hi x hx
    exact List.mem_of_getElem? hj

theorem transpose_length (N : ℕ) (xs : List β) (rows : List (List β)) (h : transpose N xs = some rows) :
    rows.length ≤ xs.length := by
  unfold transpose at h
  by_cases hc : xs.length / N * N ≠ xs.length
  · simp only [if_pos hc] at h; cases h
  · simp only [if_neg hc] at h
    rw [mapM_length _ _ _ h, List.length_range]
    exact Nat.div_le_self _ _

theorem getQueryValues_mem (rows : List (List β)) (ps folded : List ℕ) (n N : ℕ) (qv : List β)
    (h : getQueryValues rows ps folded n N = some qv) : ∀ x ∈ qv, ∃ row ∈ rows, x ∈ row := by
  unfold getQueryValues at h
  by_cases hc : n / N = 0
  · simp only [if_pos hc] at h
    by_cases h' : ps.isEmpty = true
    · rw [if_pos h'] at h; cases h; intro x hx; cases hx
    · rw [if_neg h'] at h; cases h
  · simp only [if_neg hc] at h
    intro x hx
    obtain ⟨q, _, hq⟩ := mapM_mem _ _ _ h x hx
    cases hi : folded.idxOf? (q % (n / N)) with
    | none => rw [hi] at hq; cases hq
    | some idx =>
      rw [hi] at hq
      cases hrow : rows[idx]? with
      | none => simp only [hrow] at hq; cases hq
      | some row =>
        simp only [hrow] at hq
        exact ⟨row, List.mem_of_getElem? hrow, List.mem_of_getElem? hq⟩

/-! ## prover -/

theorem applyDrp_nat (H : FRefines O p ok val T) (N : ℕ) (hN : N < 2 ^ 64) (rows : List (List ℕ))
    (hrows : okLL ok rows) (a : ℕ) (ha : ok a) :
    okR (okL ok) (applyDrp O N rows a) ∧
      applyDrp A N (rows.map (·.map val)) (val a) = mapR (List.map val) (applyDrp O N rows a) := by
  unfold applyDrp
  simp only [List.length_map, absOps_rootOk]
  by_cases h0 : rows.length * N = 0
  · simp only [if_pos h0]; exact ⟨trivial, rfl⟩
  · simp only [if_neg h0]
    cases hr1 : O.rootOk (Nat.log2 (rows.length * N)) with
    | false => simp only [Bool.not_false, ↓reduceIte]; exact ⟨trivial, rfl⟩
    | true =>
      cases hr2 : O.rootOk (Nat.log2 N) with
      | false => simp only [Bool.not_false, Bool.not_true, Bool.false_eq_true, ↓reduceIte]; exact ⟨trivial, rfl⟩
      | true =>
        simp only [Bool.not_true, Bool.false_eq_true, ↓reduceIte]
        have b1 := (H.rootOk _).1 hr1
        have b2 := (H.rootOk _).1 hr2
        obtain ⟨hg, _⟩ := H.root _ b1.1 b1.2
        obtain ⟨hgi, hgi'⟩ := H.inv _ hg
        obtain ⟨hoi, hoi'⟩ := H.inv _ H.offset.1
        obtain ⟨hps, hps'⟩ := powerSeries_nat H _ _ hgi hoi rows.length
        obtain ⟨hrn, _⟩ := H.root _ b2.1 b2.2
        obtain ⟨hw, hw'⟩ := pow_nat H _ hrn (N - 1)
        obtain ⟨hnn, hnn'⟩ := H.ofNat N hN
        obtain ⟨hni, hni'⟩ := H.inv _ hnn
        obtain ⟨h1, h2⟩ := map_rel (ok := ok) (val := val)
          (fun (t : List ℕ × ℕ) =>
            drpRow O (pow O (O.root (Nat.log2 N)) (N - 1)) (O.inv (O.ofNat N)) a t.1 t.2)
          (fun (t : List (ZMod p) × ZMod p) =>
            drpRow A (pow A (val (O.root (Nat.log2 N))) (N - 1)) ((N : ZMod p))⁻¹ (val a) t.1 t.2)
          (Prod.map (List.map val) val) (fun t => okL ok t.1 ∧ ok t.2)
          (fun t ht => by
            obtain ⟨h1, h2⟩ := drpRow_nat H _ _ a t.2 t.1 hw hni ha ht.2 ht.1
            exact ⟨h1, by rw [h2, hw', hni', hnn']; rfl⟩)
          (rows.zip (powerSeries O (O.inv (O.root (Nat.log2 (rows.length * N)))) (O.inv O.offset) rows.length))
          (fun t ht => by
            have := List.of_mem_zip (a := t.1) (b := t.2) ht
            exact ⟨hrows _ this.1, hps _ this.2⟩)
        refine ⟨h1, ?_⟩
        show Res.ok _ = Res.ok _
        refine congrArg Res.ok ?_
        refine Eq.trans ?_ h2.symm
        rw [← List.zip_map, hps', hgi', hoi']
        rfl

theorem setRemainder_nat (H : FRefines O p ok val T) (o : Opts) (evals : List ℕ) (hev : okL ok evals)
    (hn : evals.length < 2 ^ 64) :
    okR (okL ok) (setRemainder O o evals) ∧
      setRemainder A o (evals.map val) = mapR (List.map val) (setRemainder O o evals) := by
  unfold setRemainder
  simp only [List.length_map, absOps_rootOk]
  by_cases h0 : 2 ^ Nat.log2 evals.length ≠ evals.length ∨ evals.length = 0
  · simp only [if_pos h0]; exact ⟨trivial, rfl⟩
  · simp only [if_neg h0]
    cases hr1 : O.rootOk (Nat.log2 evals.length) with
    | false => simp only [Bool.not_false, ↓reduceIte]; exact ⟨trivial, rfl⟩
    | true =>
      simp only [Bool.not_true, Bool.false_eq_true, ↓reduceIte]
      have b1 := (H.rootOk _).1 hr1
      obtain ⟨h1, h2⟩ := interpolateWithOffset_nat H evals hev hn b1
      refine ⟨fun x hx => h1 x (List.mem_of_mem_take hx), ?_⟩
      show Res.ok _ = Res.ok _
      rw [List.map_take, h2]

/-- the evaluations only shrink along the loop of `build_layers` -/
theorem buildLayersLoop_length {α : Type} (F : FOps α) (N : ℕ) :
    ∀ (k : ℕ) (αs evals : List α) (ls : List (Layer α)) (last : List α),
      buildLayersLoop F N k αs evals = .ok (ls, last) → last.length ≤ evals.length := by
  intro k
  induction k with
  | zero =>
    intro αs evals ls last h
    rw [buildLayersLoop] at h
    cases h
    exact Nat.le_refl _
  | succ k ih =>
    intro αs evals ls last h
    cases αs with
    | nil => rw [buildLayersLoop] at h; cases h
    | cons alpha alphas =>
      rw [buildLayersLoop] at h
      cases ht : transpose N evals with
      | none => rw [ht] at h; cases h
      | some rows =>
        rw [ht] at h
        simp only at h
        cases hd : applyDrp F N rows alpha with
        | err e => rw [hd] at h; cases h
        | panic s => rw [hd] at h; cases h
        | ok evals' =>
          rw [hd] at h
          simp only at h
          cases hl : buildLayersLoop F N k alphas evals' with
          | err e => rw [hl] at h; cases h
          | panic s => rw [hl] at h; cases h
          | ok r =>
            obtain ⟨ls', last'⟩ := r
            rw [hl] at h
            simp only at h
            cases h
            have h1 := ih alphas evals' ls' last hl
            have h2 : evals'.length ≤ rows.length := by
              unfold applyDrp at hd
              simp only at hd
              split_ifs at hd
              cases hd
              rw [List.length_map, List.length_zip]
              exact Nat.min_le_left _ _
            exact Nat.le_trans h1 (Nat.le_trans h2 (transpose_length N evals rows ht))

theorem buildLayersLoop_nat (H : FRefines O p ok val T) (N : ℕ) (hN : N < 2 ^ 64) :
    ∀ (k : ℕ) (αs evals : List ℕ), okL ok αs → okL ok evals →
      okR (fun r => (∀ l ∈ r.1, okLL ok l.rows) ∧ okL ok r.2) (buildLayersLoop O N k αs evals) ∧
      buildLayersLoop A N k (αs.map val) (evals.map val)
        = mapR (fun r => (r.1.map (mapLayer val), r.2.map val)) (buildLayersLoop O N k αs evals) := by
  intro k
  induction k with
  | zero =>
    intro αs evals _ hev
    rw [buildLayersLoop, buildLayersLoop]
    exact ⟨⟨fun l hl => (by cases hl), hev⟩, rfl⟩
  | succ k ih =>
    intro αs evals hα hev
    cases αs with
    | nil =>
      rw [List.map_nil, buildLayersLoop, buildLayersLoop]
      exact ⟨trivial, rfl⟩
    | cons alpha alphas =>
      obtain ⟨ha, has⟩ := okL_cons.1 hα
      rw [List.map_cons, buildLayersLoop, buildLayersLoop, transpose_map]
      cases ht : transpose N evals with
      | none => exact ⟨trivial, rfl⟩
      | some rows =>
        have hrows : okLL ok rows := fun r hr x hx => hev x (transpose_mem N evals rows ht r hr x hx)
        obtain ⟨h1, h2⟩ := applyDrp_nat H N hN rows hrows alpha ha
        simp only [Option.map_some]
        rw [h2]
        cases hd : applyDrp O N rows alpha with
        | err e => exact ⟨trivial, rfl⟩
        | panic s => exact ⟨trivial, rfl⟩
        | ok evals' =>
          rw [hd] at h1
          obtain ⟨h3, h4⟩ := ih alphas evals' has h1
          simp only [mapR]
          rw [h4]
          cases hl : buildLayersLoop O N k alphas evals' with
          | err e => exact ⟨trivial, rfl⟩
          | panic s => exact ⟨trivial, rfl⟩
          | ok r =>
            obtain ⟨ls, last⟩ := r
            rw [hl] at h3
            refine ⟨⟨?_, h3.2⟩, rfl⟩
            intro l hl'
            rcases List.mem_cons.1 hl' with rfl | hl'
            · exact hrows
            · exact h3.1 l hl'

theorem buildLayers_nat (H : FRefines O p ok val T) (o : Opts) (pr : Prover ℕ) (hpr : okProver ok pr)
    (αs evals : List ℕ) (hα : okL ok αs) (hev : okL ok evals) (hn : evals.length < 2 ^ 64) :
    okR (okProver ok) (Prover.buildLayers O o pr αs evals) ∧
      Prover.buildLayers A o (mapProver val pr) (αs.map val) (evals.map val)
        = mapR (mapProver val) (Prover.buildLayers O o pr αs evals) := by
  have hN : o.folding < 2 ^ 64 := by
    rcases o.valid with h | h | h | h <;> rw [h] <;> norm_num
  obtain ⟨layers, rem⟩ := pr
  unfold Prover.buildLayers
  cases layers with
  | cons l ls => exact ⟨trivial, rfl⟩
  | nil =>
    simp only [mapProver, List.map_nil, List.isEmpty_nil, Bool.not_true, Bool.false_eq_true, ↓reduceIte,
      List.length_map]
    obtain ⟨h1, h2⟩ := buildLayersLoop_nat H o.folding hN (numFriLayers o evals.length) αs evals hα hev
    rw [h2]
    cases hl : buildLayersLoop O o.folding (numFriLayers o evals.length) αs evals with
    | err e => exact ⟨trivial, rfl⟩
    | panic s => exact ⟨trivial, rfl⟩
    | ok r =>
      obtain ⟨ls, last⟩ := r
      rw [hl] at h1
      have hlen := buildLayersLoop_length O o.folding _ αs evals ls last hl
      obtain ⟨h3, h4⟩ := setRemainder_nat H o last h1.2 (Nat.lt_of_le_of_lt hlen hn)
      simp only [mapR]
      rw [h4]
      cases hs : setRemainder O o last with
      | err e => exact ⟨trivial, rfl⟩
      | panic s => exact ⟨trivial, rfl⟩
      | ok rm =>
        rw [hs] at h3
        exact ⟨⟨h1.1, h3⟩, rfl⟩

/-- the domain size `build_proof` starts from -/
def bpDomain {α : Type} (o : Opts) : List (Layer α) → ℕ
  | [] => 0
  | l :: _ => l.rows.length * o.folding

/-- what `build_proof` does with the queried layers -/
def bpTail {α : Type} (rem : List α) : Res (List (ProofLayer α)) → Res (Prover α × List (ProofLayer α) × List α)
  | .ok pls =>
    if 2 ^ Nat.log2 rem.length ≠ rem.length then .panic "FriProof::new"
    else if pls.any (·.isEmpty) then .panic "FriProofLayer::new"
    else .ok (⟨[], []⟩, pls, rem)
  | .err e => .err e
  | .panic s => .panic s

theorem buildProof_eq {α : Type} (o : Opts) (layers : List (Layer α)) (rem : List α) (ps : List ℕ) :
    Prover.buildProof o ⟨layers, rem⟩ ps
      = if rem.isEmpty then .panic "build_proof.not-built"
        else bpTail rem (queryLayers o.folding layers ps (bpDomain o layers)) := by
  unfold Prover.buildProof
  by_cases hr : rem.isEmpty = true
  · simp only [if_pos hr]
  · simp only [if_neg hr]
    cases layers with
    | nil =>
      simp only [bpDomain]
      generalize queryLayers o.folding ([] : List (Layer α)) ps 0 = r
      cases r <;> rfl
    | cons l ls =>
      simp only [bpDomain]
      generalize queryLayers o.folding (l :: ls) ps (l.rows.length * o.folding) = r
      cases r <;> rfl

theorem buildProof_map (val : ℕ → ZMod p) (o : Opts) (pr : Prover ℕ) (ps : List ℕ) :
    Prover.buildProof o (mapProver val pr) ps
      = mapR (fun r => (mapProver val r.1, r.2.1.map (List.map (List.map val)), r.2.2.map val))
          (Prover.buildProof o pr ps) := by
  obtain ⟨layers, rem⟩ := pr
  show Prover.buildProof o ⟨layers.map (mapLayer val), rem.map val⟩ ps = _
  rw [buildProof_eq, buildProof_eq, List.isEmpty_map]
  by_cases hr : rem.isEmpty = true
  · simp only [if_pos hr]; rfl
  · simp only [if_neg hr]
    have hds : bpDomain o (layers.map (mapLayer val)) = bpDomain o layers := by
      cases layers with
      | nil => rfl
      | cons l ls => simp only [List.map_cons, bpDomain, mapLayer, List.length_map]
    have hm : layers.map (mapLayer val) = layers.map fun l => ⟨l.rows.map (List.map val)⟩ := rfl
    rw [hds, hm, queryLayers_map]
    cases queryLayers o.folding layers ps (bpDomain o layers) with
    | err e => rfl
    | panic s => rfl
    | ok pls =>
      simp only [mapR, bpTail, List.length_map]
      by_cases h1 : 2 ^ Nat.log2 rem.length ≠ rem.length
      · simp only [if_pos h1]
      · simp only [if_neg h1]
        have hany : (pls.map (List.map (List.map val))).any (·.isEmpty) = pls.any (·.isEmpty) := by
          rw [List.any_map]
          congr 1
          funext x
          simp only [Function.comp, List.isEmpty_map]
        rw [hany]
        by_cases h2 : pls.any (·.isEmpty) = true
        · simp only [if_pos h2]
        · simp only [if_neg h2]
          rfl

/-! ## verifier -/

variable {D : Type}

theorem all_congr' {β : Type} (f g : β → Bool) (l : List β) (h : ∀ x ∈ l, f x = g x) : l.all f = l.all g := by
  induction l with
  | nil => rfl
  | cons x xs ih =>
    rw [List.all_cons, List.all_cons, h x List.mem_cons_self, ih fun y hy => h y (List.mem_cons_of_mem _ hy)]

/-- one iteration of the verifier's layer loop is natural.  (`hN` is not needed: the verifier embeds no integer.) -/
theorem verifyLayer_nat (H : FRefines O p ok val T) (N : ℕ) (hN : N < 2 ^ 64) (inp : VInput ℕ D)
    (hinp : okInp ok inp) (roots : List ℕ) (hroots : okL ok roots) (depth : ℕ) (st : VState ℕ)
    (hst : okState ok st) :
    okR (okState ok) (verifyLayer O N inp roots depth st) ∧
      verifyLayer A N (mapInp val inp) (roots.map val) depth (mapState val st)
        = mapR (mapState val) (verifyLayer O N inp roots depth st) := by
  unfold verifyLayer
  delta mapInp mapState
  dsimp only
  simp only [List.getElem?_map]
  cases hf : foldPositions st.positions st.domainSize N with
  | none => exact ⟨trivial, rfl⟩
  | some folded =>
    simp only []
    cases hi : mapPositionsToIndexes folded st.domainSize N inp.numPartitions with
    | none => exact ⟨trivial, rfl⟩
    | some idxs =>
      simp only []
      cases hc : inp.commitments[depth]? with
      | none => exact ⟨trivial, rfl⟩
      | some c =>
        simp only []
        cases ho : inp.layers[depth]? with
        | none => exact ⟨trivial, rfl⟩
        | some opening =>
          have hop : okLL ok opening.rows := hinp.2.1 opening (List.mem_of_getElem? ho)
          simp only [Option.map_some, mapOpening, List.length_map, List.any_map, Function.comp_def]
          cases hm : opening.merkleOk with
          | false => exact ⟨trivial, rfl⟩
          | true =>
            simp only [Bool.not_true, Bool.false_eq_true, ↓reduceIte]
            by_cases h1 : opening.rows.length < folded.length
            · simp only [if_pos h1]; exact ⟨trivial, rfl⟩
            · simp only [if_neg h1]
              by_cases h2 : opening.rows.length ≠ folded.length
              · simp only [if_pos h2]; exact ⟨trivial, rfl⟩
              · simp only [if_neg h2]
                by_cases h3 : (opening.rows.any fun r => decide (r.length ≠ N)) = true
                · simp only [if_pos h3]; exact ⟨trivial, rfl⟩
                · simp only [if_neg h3, getQueryValues_map]
                  cases hq : getQueryValues opening.rows st.positions folded st.domainSize N with
                  | none => exact ⟨trivial, rfl⟩
                  | some qv =>
                    have hqv : okL ok qv := fun x hx => by
                      obtain ⟨row, hrow, hxr⟩ := getQueryValues_mem _ _ _ _ _ _ hq x hx
                      exact hop row hrow x hxr
                    simp only [Option.map_some, ← beqList_nat H st.evals qv hst.1 hqv]
                    cases hb : beqList O st.evals qv with
                    | false => exact ⟨trivial, rfl⟩
                    | true =>
                      simp only [Bool.not_true, Bool.false_eq_true, ↓reduceIte]
                      cases ha : inp.alphas[depth]? with
                      | none => exact ⟨trivial, rfl⟩
                      | some alpha =>
                        have halpha : ok alpha := hinp.1 alpha (List.mem_of_getElem? ha)
                        simp only [Option.map_some]
                        by_cases h4 : st.maxDegPlus1 % N ≠ 0
                        · simp only [if_pos h4]; exact ⟨trivial, rfl⟩
                        · simp only [if_neg h4]
                          obtain ⟨e1, e2⟩ := map_rel (ok := ok) (val := val)
                            (fun (t : ℕ × List ℕ) => lagrangeEval O (rowPoints O roots st.domainGen t.1) t.2 alpha)
                            (fun (t : ℕ × List (ZMod p)) =>
                              lagrangeEval A (rowPoints A (roots.map val) (val st.domainGen) t.1) t.2 (val alpha))
                            (Prod.map id (List.map val)) (fun t => okL ok t.2)
                            (fun t ht => by
                              obtain ⟨h1, h2⟩ := rowPoints_nat H roots hroots st.domainGen hst.2 t.1
                              obtain ⟨h3, h4⟩ := lagrangeEval_nat H _ _ h1 ht alpha halpha
                              exact ⟨h3, by rw [h4, h2]; rfl⟩)
                            (folded.zip opening.rows)
                            (fun t ht => hop _ (List.of_mem_zip (a := t.1) (b := t.2) ht).2)
                          obtain ⟨e3, e4⟩ := pow_nat H st.domainGen hst.2 N
                          refine ⟨⟨e1, e3⟩, ?_⟩
                          show Res.ok _ = Res.ok _
                          refine congrArg Res.ok ?_
                          dsimp only
                          rw [← e4, List.zip_map_right]
                          exact congrArg (fun l => VState.mk folded l _ _ _) e2.symm

theorem verifyLayers_nat (H : FRefines O p ok val T) (N : ℕ) (hN : N < 2 ^ 64) (inp : VInput ℕ D)
    (hinp : okInp ok inp) (roots : List ℕ) (hroots : okL ok roots) :
    ∀ (count depth : ℕ) (st : VState ℕ), okState ok st →
      okR (okState ok) (verifyLayers O N inp roots count depth st) ∧
      verifyLayers A N (mapInp val inp) (roots.map val) count depth (mapState val st)
        = mapR (mapState val) (verifyLayers O N inp roots count depth st) := by
  intro count
  induction count with
  | zero =>
    intro depth st hst
    rw [verifyLayers, verifyLayers]
    exact ⟨hst, rfl⟩
  | succ count ih =>
    intro depth st hst
    obtain ⟨h1, h2⟩ := verifyLayer_nat H N hN inp hinp roots hroots depth st hst
    rw [verifyLayers, verifyLayers, h2]
    cases hv : verifyLayer O N inp roots depth st with
    | err e => exact ⟨trivial, rfl⟩
    | panic s => exact ⟨trivial, rfl⟩
    | ok st' =>
      rw [hv] at h1
      exact ih (depth + 1) st' h1

theorem remainderCommitted_nat [BEq D] (hashRem : List ℕ → D) (hashRem' : List (ZMod p) → D)
    (hh : ∀ l, okL ok l → hashRem' (l.map val) = hashRem l) (inp : VInput ℕ D) (hinp : okInp ok inp)
    (L : ℕ) : remainderCommitted hashRem' (mapInp val inp) L = remainderCommitted hashRem inp L := by
  unfold remainderCommitted
  have hc : (mapInp val inp).commitments = inp.commitments := rfl
  have hr : hashRem' (mapInp val inp).remainder = hashRem inp.remainder := hh _ hinp.2.2.1
  rw [hc, hr]

theorem verifyRemainder_nat (H : FRefines O p ok val T) [BEq D] (cc : Bool) (hashRem : List ℕ → D)
    (hashRem' : List (ZMod p) → D) (hh : ∀ l, okL ok l → hashRem' (l.map val) = hashRem l)
    (inp : VInput ℕ D) (hinp : okInp ok inp) (L : ℕ) (st : VState ℕ) (hst : okState ok st) :
    verifyRemainder A cc hashRem' (mapInp val inp) L (mapState val st)
      = verifyRemainder O cc hashRem inp L st := by
  have hall : ((mapState val st).positions.zip (mapState val st).evals).all (fun (q, e) =>
        (absOps O val).beq (horner A (mapInp val inp).remainder
          ((absOps O val).mul (absOps O val).offset (pow A (mapState val st).domainGen q))) e)
      = (st.positions.zip st.evals).all (fun (q, e) =>
        O.beq (horner O inp.remainder (O.mul O.offset (pow O st.domainGen q))) e) := by
    show (st.positions.zip (st.evals.map val)).all _ = _
    rw [List.zip_map_right, List.all_map]
    refine all_congr' _ _ _ fun t ht => ?_
    have hte : ok t.2 := hst.1 _ (List.of_mem_zip (a := t.1) (b := t.2) ht).2
    obtain ⟨h1, h2⟩ := pow_nat H st.domainGen hst.2 t.1
    obtain ⟨h3, h4⟩ := H.mul _ _ H.offset.1 h1
    obtain ⟨h5, h6⟩ := horner_nat H inp.remainder hinp.2.2.1 _ h3
    show decide (horner A (inp.remainder.map val) (val O.offset * pow A (val st.domainGen) t.1) = val t.2) = _
    rw [← h2, ← h4, ← h6, Bool.eq_iff_iff, decide_eq_true_eq]
    exact (H.beq _ _ h5 hte).symm
  unfold verifyRemainder
  rw [hall, remainderCommitted_nat hashRem hashRem' hh inp hinp L]
  show (if (cc && !remainderCommitted hashRem inp L) = true then Res.err VErr.remainderCommitmentMismatch
    else if (inp.remainder.map val).length > st.maxDegPlus1 then Res.err VErr.remainderDegreeMismatch
    else _) = _
  rw [List.length_map]

/-- `FriVerifier::new` followed by `verify` returns the same outcome on raw words and on their abstractions.
    (`hdom` is not needed: the verifier embeds no integer.) -/
theorem verify_nat (H : FRefines O p ok val T) [BEq D] (cc : Bool) (hashRem : List ℕ → D)
    (hashRem' : List (ZMod p) → D) (hh : ∀ l, okL ok l → hashRem' (l.map val) = hashRem l) (o : Opts)
    (inp : VInput ℕ D) (hinp : okInp ok inp)
    (hdom : nextPow2 (inp.maxPolyDegree + 1) * o.blowup < 2 ^ 64) :
    verify A cc hashRem' o (mapInp val inp) = verify O cc hashRem o inp := by
  have hN : o.folding < 2 ^ 64 := by
    rcases o.valid with h | h | h | h <;> rw [h] <;> norm_num
  have hVL := verifyLayers_nat (val := val) H o.folding hN inp hinp
  have hVR := verifyRemainder_nat H cc hashRem hashRem' hh inp hinp
  generalize hI : mapInp val inp = inp' at hVL hVR ⊢
  have e1 : inp'.maxPolyDegree = inp.maxPolyDegree := by rw [← hI]; rfl
  have e2 : inp'.alphas = inp.alphas.map val := by rw [← hI]; rfl
  have e3 : inp'.commitments = inp.commitments := by rw [← hI]; rfl
  have e4 : inp'.evaluations = inp.evaluations.map val := by rw [← hI]; rfl
  have e5 : inp'.positions = inp.positions := by rw [← hI]; rfl
  unfold verify
  dsimp only
  rw [e1, e2, e3, e4, e5]
  simp only [List.length_map, absOps_rootOk, absOps_root]
  by_cases h0 : nextPow2 (inp.maxPolyDegree + 1) * o.blowup = 0
  · rw [if_pos h0, if_pos h0]
  · rw [if_neg h0, if_neg h0]
    cases hr : O.rootOk (Nat.log2 (nextPow2 (inp.maxPolyDegree + 1) * o.blowup)) with
    | false => rfl
    | true =>
      simp only [Bool.not_true, Bool.false_eq_true, ↓reduceIte]
      by_cases h1 : inp.alphas.length ≠ inp.commitments.length
      · rw [if_pos h1, if_pos h1]
      · rw [if_neg h1, if_neg h1]
        cases hnc : newChecks o.folding inp.commitments.length inp.commitments.length 0
            (inp.maxPolyDegree + 1) with
        | some d => rfl
        | none =>
          dsimp only
          by_cases h2 : inp.evaluations.length ≠ inp.positions.length
          · rw [if_pos h2, if_pos h2]
          · rw [if_neg h2, if_neg h2]
            have b := (H.rootOk _).1 hr
            obtain ⟨hg, _⟩ := H.root _ b.1 b.2
            obtain ⟨r1, r2⟩ := map_rel (ok := ok) (val := val)
              (fun i => pow O (O.root (Nat.log2 (nextPow2 (inp.maxPolyDegree + 1) * o.blowup)))
                (nextPow2 (inp.maxPolyDegree + 1) * o.blowup / o.folding * i))
              (fun i => pow A (val (O.root (Nat.log2 (nextPow2 (inp.maxPolyDegree + 1) * o.blowup))))
                (nextPow2 (inp.maxPolyDegree + 1) * o.blowup / o.folding * i))
              id (fun _ => True) (fun i _ => pow_nat H _ hg _) (List.range o.folding) (fun _ _ => trivial)
            rw [List.map_id] at r2
            obtain ⟨v1, v2⟩ := hVL _ r1 (numFriLayers o (nextPow2 (inp.maxPolyDegree + 1) * o.blowup)) 0
              ⟨inp.positions, inp.evaluations, O.root (Nat.log2 (nextPow2 (inp.maxPolyDegree + 1) * o.blowup)),
                nextPow2 (inp.maxPolyDegree + 1) * o.blowup, inp.maxPolyDegree + 1⟩ ⟨hinp.2.2.2, hg⟩
            rw [r2] at v2
            generalize hX : verifyLayers (absOps O val) o.folding inp' _ _ _ _ = X
            have hX' : X = _ := hX.symm.trans v2
            rw [hX']
            cases hv : verifyLayers O o.folding inp
              (List.map (fun i => pow O (O.root (Nat.log2 (nextPow2 (inp.maxPolyDegree + 1) * o.blowup)))
                (nextPow2 (inp.maxPolyDegree + 1) * o.blowup / o.folding * i)) (List.range o.folding))
              (numFriLayers o (nextPow2 (inp.maxPolyDegree + 1) * o.blowup)) 0
              ⟨inp.positions, inp.evaluations, O.root (Nat.log2 (nextPow2 (inp.maxPolyDegree + 1) * o.blowup)),
                nextPow2 (inp.maxPolyDegree + 1) * o.blowup, inp.maxPolyDegree + 1⟩ with
            | err e => rfl
            | panic s => rfl
            | ok st =>
              rw [hv] at v1
              exact hVR _ st v1

end WinterProofs.C15H
