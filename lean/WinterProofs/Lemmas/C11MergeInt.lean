-- C11 helper lemmas: `merge_with_int` is injective in the integer at the level of the state the
-- model builds: different u64 integers give pre-permutation states that differ as residues.
import Winter.Model.Rescue
import WinterProofs.Lemmas.C07F64Z
import WinterProofs.Lemmas.C07F62Z
set_option linter.unusedSimpArgs false
set_option linter.unusedVariables false
set_option linter.unusedTactic false
set_option linter.unreachableTactic false

namespace WinterProofs.C11.MergeInt
open Model Model.Rescue

theorem range4 : List.range 4 = [0, 1, 2, 3] := by decide

theorem cast_inj_of_lt {p : Nat} {a b : Nat} (ha : a < p) (hb : b < p) (h : (a : ZMod p) = (b : ZMod p)) : a = b := by
  have := (ZMod.natCast_eq_natCast_iff' a b p).mp h
  rwa [Nat.mod_eq_of_lt ha, Nat.mod_eq_of_lt hb] at this

/-- the residues `merge_with_int` writes determine the integer (for integers below `p * p`) -/
theorem enc_core {p : Nat} (hp : 6 < p) (v v' : Nat) (hv : v < p * p) (hv' : v' < p * p)
    (hval : (v : ZMod p) = (v' : ZMod p))
    (hflag : ((if v < p then 5 else 6 : Nat) : ZMod p) = ((if v' < p then 5 else 6 : Nat) : ZMod p))
    (hover : ((if v < p then 0 else v / p : Nat) : ZMod p) = ((if v' < p then 0 else v' / p : Nat) : ZMod p)) :
    v = v' := by
  have hmod := (ZMod.natCast_eq_natCast_iff' v v' p).mp hval
  have hf := cast_inj_of_lt (p := p) (by split <;> omega) (by split <;> omega) hflag
  have hq : v / p < p := Nat.div_lt_of_lt_mul hv
  have hq' : v' / p < p := Nat.div_lt_of_lt_mul hv'
  have ho := cast_inj_of_lt (p := p) (by split <;> omega) (by split <;> omega) hover
  have dv := Nat.div_add_mod v p
  have dv' := Nat.div_add_mod v' p
  by_cases h1 : v < p <;> by_cases h2 : v' < p <;> simp only [h1, h2, if_true, if_false] at hf ho
  · rw [Nat.mod_eq_of_lt h1, Nat.mod_eq_of_lt h2] at hmod; exact hmod
  · omega
  · omega
  · rw [ho, hmod] at dv; omega

/-- the state `merge_with_int` builds, written out -/
theorem rp64_state (s0 s1 s2 s3 v : Nat) :
    mergeIntState rp64 [s0, s1, s2, s3] v =
      if v < 18446744069414584321 then
        [Gen.F64.new 5, Gen.F64.new 0, Gen.F64.new 0, Gen.F64.new 0, s0, s1, s2, s3, Gen.F64.new v, Gen.F64.new 0, Gen.F64.new 0, Gen.F64.new 0]
      else
        [Gen.F64.new 6, Gen.F64.new 0, Gen.F64.new 0, Gen.F64.new 0, s0, s1, s2, s3, Gen.F64.new v, Gen.F64.new (v / 18446744069414584321), Gen.F64.new 0, Gen.F64.new 0] := by
  have pj : rp64.jive = false := rfl
  have pw : rp64.width = 12 := rfl
  have pr : rp64.rateStart = 4 := rfl
  have pc : rp64.capIdx = 0 := rfl
  have pn : rp64.F.new = Gen.F64.new := rfl
  have pm : rp64.F.M = 18446744069414584321 := rfl
  unfold mergeIntState intEncoding
  rw [pm]
  by_cases hv : v < 18446744069414584321
  · simp [zeroState, pj, pw, pr, pc, pn, range4, List.replicate, hv]
  · simp [zeroState, pj, pw, pr, pc, pn, range4, List.replicate, hv]

/-- different 64-bit integers give pre-permutation states that differ as residues -/
theorem rp64_mergeInt_injective (s0 s1 s2 s3 v v' : Nat)
    (hv : v < 18446744073709551616) (hv' : v' < 18446744073709551616)
    (h : (mergeIntState rp64 [s0, s1, s2, s3] v).map WinterProofs.F64Z.val
       = (mergeIntState rp64 [s0, s1, s2, s3] v').map WinterProofs.F64Z.val) : v = v' := by
  rw [rp64_state, rp64_state] at h
  have hq : v / 18446744069414584321 < 18446744073709551616 := Nat.lt_of_le_of_lt (Nat.div_le_self _ _) hv
  have hq' : v' / 18446744069414584321 < 18446744073709551616 := Nat.lt_of_le_of_lt (Nat.div_le_self _ _) hv'
  have n5 := WinterProofs.F64Z.val_new 5 (by norm_num)
  have n6 := WinterProofs.F64Z.val_new 6 (by norm_num)
  have n0 := WinterProofs.F64Z.val_new 0 (by norm_num)
  have nv := WinterProofs.F64Z.val_new v (by norm_num; exact hv)
  have nv' := WinterProofs.F64Z.val_new v' (by norm_num; exact hv')
  have nq := WinterProofs.F64Z.val_new (v / 18446744069414584321) (by norm_num; exact hq)
  have nq' := WinterProofs.F64Z.val_new (v' / 18446744069414584321) (by norm_num; exact hq')
  apply enc_core (p := WinterProofs.F64Z.P) (by norm_num) v v' (by norm_num; omega) (by norm_num; omega)
  · have hk := congrArg (fun l => l[8]?) h
    by_cases h1 : v < WinterProofs.F64Z.P <;> by_cases h2 : v' < WinterProofs.F64Z.P <;>
      simp only [h1, h2, if_true, if_false, List.map_cons, List.getElem?_cons_succ, List.getElem?_cons_zero,
        Option.some.injEq, nv, nv'] at hk <;> (try simp only [h1, h2, if_true, if_false]) <;> first | exact hk | rfl
  · have hk := congrArg (fun l => l[0]?) h
    by_cases h1 : v < WinterProofs.F64Z.P <;> by_cases h2 : v' < WinterProofs.F64Z.P <;>
      simp only [h1, h2, if_true, if_false, List.map_cons, List.getElem?_cons_succ, List.getElem?_cons_zero,
        Option.some.injEq, n5, n6] at hk <;> (try simp only [h1, h2, if_true, if_false]) <;> first | exact hk | rfl
  · have hk := congrArg (fun l => l[9]?) h
    by_cases h1 : v < WinterProofs.F64Z.P <;> by_cases h2 : v' < WinterProofs.F64Z.P <;>
      simp only [h1, h2, if_true, if_false, List.map_cons, List.getElem?_cons_succ, List.getElem?_cons_zero,
        Option.some.injEq, n0, nq, nq'] at hk <;> (try simp only [h1, h2, if_true, if_false]) <;> first | exact hk | rfl

/-- the state `merge_with_int` builds, written out -/
theorem rpjive_state (s0 s1 s2 s3 v : Nat) :
    mergeIntState rpjive [s0, s1, s2, s3] v =
      if v < 18446744069414584321 then
        [s0, s1, s2, s3, Gen.F64.new v, Gen.F64.new 0, Gen.F64.new 0, Gen.F64.new 5]
      else
        [s0, s1, s2, s3, Gen.F64.new v, Gen.F64.new (v / 18446744069414584321), Gen.F64.new 0, Gen.F64.new 6] := by
  have pj : rpjive.jive = true := rfl
  have pn : rpjive.F.new = Gen.F64.new := rfl
  have pm : rpjive.F.M = 18446744069414584321 := rfl
  unfold mergeIntState intEncoding
  rw [pm]
  by_cases hv : v < 18446744069414584321
  · simp [pj, pn, hv]
  · simp [pj, pn, hv]

/-- different 64-bit integers give pre-permutation states that differ as residues -/
theorem rpjive_mergeInt_injective (s0 s1 s2 s3 v v' : Nat)
    (hv : v < 18446744073709551616) (hv' : v' < 18446744073709551616)
    (h : (mergeIntState rpjive [s0, s1, s2, s3] v).map WinterProofs.F64Z.val
       = (mergeIntState rpjive [s0, s1, s2, s3] v').map WinterProofs.F64Z.val) : v = v' := by
  rw [rpjive_state, rpjive_state] at h
  have hq : v / 18446744069414584321 < 18446744073709551616 := Nat.lt_of_le_of_lt (Nat.div_le_self _ _) hv
  have hq' : v' / 18446744069414584321 < 18446744073709551616 := Nat.lt_of_le_of_lt (Nat.div_le_self _ _) hv'
  have n5 := WinterProofs.F64Z.val_new 5 (by norm_num)
  have n6 := WinterProofs.F64Z.val_new 6 (by norm_num)
  have n0 := WinterProofs.F64Z.val_new 0 (by norm_num)
  have nv := WinterProofs.F64Z.val_new v (by norm_num; exact hv)
  have nv' := WinterProofs.F64Z.val_new v' (by norm_num; exact hv')
  have nq := WinterProofs.F64Z.val_new (v / 18446744069414584321) (by norm_num; exact hq)
  have nq' := WinterProofs.F64Z.val_new (v' / 18446744069414584321) (by norm_num; exact hq')
  apply enc_core (p := WinterProofs.F64Z.P) (by norm_num) v v' (by norm_num; omega) (by norm_num; omega)
  · have hk := congrArg (fun l => l[4]?) h
    by_cases h1 : v < WinterProofs.F64Z.P <;> by_cases h2 : v' < WinterProofs.F64Z.P <;>
      simp only [h1, h2, if_true, if_false, List.map_cons, List.getElem?_cons_succ, List.getElem?_cons_zero,
        Option.some.injEq, nv, nv'] at hk <;> (try simp only [h1, h2, if_true, if_false]) <;> first | exact hk | rfl
  · have hk := congrArg (fun l => l[7]?) h
    by_cases h1 : v < WinterProofs.F64Z.P <;> by_cases h2 : v' < WinterProofs.F64Z.P <;>
      simp only [h1, h2, if_true, if_false, List.map_cons, List.getElem?_cons_succ, List.getElem?_cons_zero,
        Option.some.injEq, n5, n6] at hk <;> (try simp only [h1, h2, if_true, if_false]) <;> first | exact hk | rfl
  · have hk := congrArg (fun l => l[5]?) h
    by_cases h1 : v < WinterProofs.F64Z.P <;> by_cases h2 : v' < WinterProofs.F64Z.P <;>
      simp only [h1, h2, if_true, if_false, List.map_cons, List.getElem?_cons_succ, List.getElem?_cons_zero,
        Option.some.injEq, n0, nq, nq'] at hk <;> (try simp only [h1, h2, if_true, if_false]) <;> first | exact hk | rfl

/-- the state `merge_with_int` builds, written out -/
theorem rp62_state (s0 s1 s2 s3 v : Nat) :
    mergeIntState rp62 [s0, s1, s2, s3] v =
      if v < 4611624995532046337 then
        [s0, s1, s2, s3, Gen.F62.new v, Gen.F62.new 0, Gen.F62.new 0, Gen.F62.new 0, Gen.F62.new 0, Gen.F62.new 0, Gen.F62.new 0, Gen.F62.new 5]
      else
        [s0, s1, s2, s3, Gen.F62.new v, Gen.F62.new (v / 4611624995532046337), Gen.F62.new 0, Gen.F62.new 0, Gen.F62.new 0, Gen.F62.new 0, Gen.F62.new 0, Gen.F62.new 6] := by
  have pj : rp62.jive = false := rfl
  have pw : rp62.width = 12 := rfl
  have pr : rp62.rateStart = 0 := rfl
  have pc : rp62.capIdx = 11 := rfl
  have pn : rp62.F.new = Gen.F62.new := rfl
  have pm : rp62.F.M = 4611624995532046337 := rfl
  unfold mergeIntState intEncoding
  rw [pm]
  by_cases hv : v < 4611624995532046337
  · simp [zeroState, pj, pw, pr, pc, pn, range4, List.replicate, hv]
  · simp [zeroState, pj, pw, pr, pc, pn, range4, List.replicate, hv]

/-- different 64-bit integers give pre-permutation states that differ as residues -/
theorem rp62_mergeInt_injective (s0 s1 s2 s3 v v' : Nat)
    (hv : v < 18446744073709551616) (hv' : v' < 18446744073709551616)
    (h : (mergeIntState rp62 [s0, s1, s2, s3] v).map WinterProofs.F62Z.val
       = (mergeIntState rp62 [s0, s1, s2, s3] v').map WinterProofs.F62Z.val) : v = v' := by
  rw [rp62_state, rp62_state] at h
  have hq : v / 4611624995532046337 < 18446744073709551616 := Nat.lt_of_le_of_lt (Nat.div_le_self _ _) hv
  have hq' : v' / 4611624995532046337 < 18446744073709551616 := Nat.lt_of_le_of_lt (Nat.div_le_self _ _) hv'
  have n5 := WinterProofs.F62Z.val_new 5 (by norm_num)
  have n6 := WinterProofs.F62Z.val_new 6 (by norm_num)
  have n0 := WinterProofs.F62Z.val_new 0 (by norm_num)
  have nv := WinterProofs.F62Z.val_new v (by norm_num; exact hv)
  have nv' := WinterProofs.F62Z.val_new v' (by norm_num; exact hv')
  have nq := WinterProofs.F62Z.val_new (v / 4611624995532046337) (by norm_num; exact hq)
  have nq' := WinterProofs.F62Z.val_new (v' / 4611624995532046337) (by norm_num; exact hq')
  apply enc_core (p := WinterProofs.F62Z.P) (by norm_num) v v' (by norm_num; omega) (by norm_num; omega)
  · have hk := congrArg (fun l => l[4]?) h
    by_cases h1 : v < WinterProofs.F62Z.P <;> by_cases h2 : v' < WinterProofs.F62Z.P <;>
      simp only [h1, h2, if_true, if_false, List.map_cons, List.getElem?_cons_succ, List.getElem?_cons_zero,
        Option.some.injEq, nv, nv'] at hk <;> (try simp only [h1, h2, if_true, if_false]) <;> first | exact hk | rfl
  · have hk := congrArg (fun l => l[11]?) h
    by_cases h1 : v < WinterProofs.F62Z.P <;> by_cases h2 : v' < WinterProofs.F62Z.P <;>
      simp only [h1, h2, if_true, if_false, List.map_cons, List.getElem?_cons_succ, List.getElem?_cons_zero,
        Option.some.injEq, n5, n6] at hk <;> (try simp only [h1, h2, if_true, if_false]) <;> first | exact hk | rfl
  · have hk := congrArg (fun l => l[5]?) h
    by_cases h1 : v < WinterProofs.F62Z.P <;> by_cases h2 : v' < WinterProofs.F62Z.P <;>
      simp only [h1, h2, if_true, if_false, List.map_cons, List.getElem?_cons_succ, List.getElem?_cons_zero,
        Option.some.injEq, n0, nq, nq'] at hk <;> (try simp only [h1, h2, if_true, if_false]) <;> first | exact hk | rfl

end WinterProofs.C11.MergeInt
