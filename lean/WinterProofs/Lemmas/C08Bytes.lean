-- Helper lemmas for C08: byte-level reinterpretation and serialisation of extension elements (lists of coordinates)
import Winter.Model.Ext

namespace WinterProofs.C08L
open Model

theorem leBytes_length (n v : Nat) : (leBytes n v).length = n := by
  induction n generalizing v with
  | zero => rfl
  | succ n ih => simp [leBytes, ih]

theorem ofLeBytes_leBytes (n v : Nat) : ofLeBytes (leBytes n v) = v % 256 ^ n := by
  induction n generalizing v with
  | zero => simp [leBytes, ofLeBytes, Nat.mod_one]
  | succ n ih =>
    simp only [leBytes, ofLeBytes, ih]
    rw [Nat.pow_succ, Nat.mul_comm (256 ^ n) 256, Nat.mod_mul]

theorem words_flatMap (k : Nat) (hk : 0 < k) (cs : List Nat) (hcs : ∀ c ∈ cs, c < 256 ^ k) :
    ∀ fuel, (cs.flatMap (leBytes k)).length ≤ fuel → ExtBytes.words k fuel (cs.flatMap (leBytes k)) = some cs := by
  induction cs with
  | nil =>
    intro fuel _
    cases fuel <;> simp [ExtBytes.words]
  | cons c cs ih =>
    intro fuel hf
    have hlen : (leBytes k c).length = k := leBytes_length k c
    simp only [List.flatMap_cons, List.length_append, hlen] at hf ⊢
    cases fuel with
    | zero => omega
    | succ f =>
      have hne : (leBytes k c ++ cs.flatMap (leBytes k)).isEmpty = false := by
        cases hh : leBytes k c with
        | nil => rw [hh] at hlen; simp at hlen; omega
        | cons x xs => simp
      have hge : ¬ (leBytes k c ++ cs.flatMap (leBytes k)).length < k := by
        simp only [List.length_append, hlen]; omega
      have hdrop : (leBytes k c ++ cs.flatMap (leBytes k)).drop k = cs.flatMap (leBytes k) := by
        rw [List.drop_append_of_le_length (by omega), List.drop_of_length_le (by omega), List.nil_append]
      have htake : (leBytes k c ++ cs.flatMap (leBytes k)).take k = leBytes k c := by
        rw [List.take_append_of_le_length (by omega), List.take_of_length_le (by omega)]
      simp only [ExtBytes.words, hne, hge, hdrop, htake, Bool.false_eq_true, if_false]
      rw [ih (fun x hx => hcs x (List.mem_cons_of_mem _ hx)) f (by omega), ofLeBytes_leBytes,
        Nat.mod_eq_of_lt (hcs c (List.mem_cons_self))]
      rfl

theorem asBytes_length (I : FieldImpl) (cs : List Nat) : (ExtBytes.asBytes I cs).length = cs.length * I.bytes := by
  induction cs with
  | nil => simp [ExtBytes.asBytes]
  | cons c cs ih =>
    simp only [ExtBytes.asBytes, List.flatMap_cons, List.length_append, leBytes_length, List.length_cons] at ih ⊢
    rw [ih, Nat.add_mul, Nat.one_mul, Nat.add_comm]

theorem toBytes_length (I : FieldImpl) (cs : List Nat) : (ExtBytes.toBytes I cs).length = cs.length * I.bytes := by
  induction cs with
  | nil => simp [ExtBytes.toBytes]
  | cons c cs ih =>
    simp only [ExtBytes.toBytes, List.flatMap_cons, List.length_append, FieldImpl.toBytes, leBytes_length,
      List.length_cons] at ih ⊢
    rw [ih, Nat.add_mul, Nat.one_mul, Nat.add_comm]

theorem readFrom_toBytes (I : FieldImpl) (ok : Nat → Prop) (canon : Nat → Nat)
    (hbase : ∀ c rest, ok c → I.readFrom (I.toBytes c ++ rest) = some (.ok (canon c), rest))
    (cs : List Nat) (hok : ∀ c ∈ cs, ok c) (rest : List Nat) :
    ExtBytes.readFrom I cs.length (ExtBytes.toBytes I cs ++ rest) = .ok (cs.map canon) rest := by
  induction cs with
  | nil => simp [ExtBytes.readFrom, ExtBytes.toBytes]
  | cons c cs ih =>
    have h1 := hbase c (ExtBytes.toBytes I cs ++ rest) (hok c List.mem_cons_self)
    have h2 := ih (fun x hx => hok x (List.mem_cons_of_mem _ hx))
    simp only [ExtBytes.toBytes, List.flatMap_cons, List.append_assoc, List.length_cons, ExtBytes.readFrom,
      List.map_cons] at h1 h2 ⊢
    rw [h1]
    simp only [h2]

end WinterProofs.C08L
