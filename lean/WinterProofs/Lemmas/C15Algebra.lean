-- C15, pure algebra of FRI folding over a field with roots of unity.
--
-- Setting: `N ≥ 1` is the folding factor, `ζ` a primitive `N`-th root of unity, `x ≠ 0` a point of
-- the evaluation domain; the "row" of `x` is the coset `{x·ζ^j | j < N}`.  A polynomial `f` is
-- written `f = Σ_{k<N} X^k · f_k(X^N)` with `f_k = slice N k f`.  The prover folds a row with a
-- scaled inverse DFT evaluated at the challenge `α` (`drp`), the verifier evaluates at `α` the
-- Lagrange interpolant through the row.  This file proves that both agree on ARBITRARY row values
-- (`drp_eq_lagrange`) and that on the evaluations of a polynomial `f` both give the evaluation at
-- `x^N` of `foldPoly N f α = Σ_k α^k f_k` (`drp_poly`, `lagrange_poly`).
import Mathlib.RingTheory.RootsOfUnity.PrimitiveRoots
import Mathlib.LinearAlgebra.Lagrange

namespace WinterProofs.FriAlg

open Polynomial Finset

variable {F : Type*} [Field F]

/-! ### Definitions -/

/-- The `k`-th interleaved coefficient slice `f_k = Σ_m c_{N·m+k} X^m` of `f = Σ_i c_i X^i`. -/
noncomputable def slice (N k : ℕ) (f : F[X]) : F[X] :=
  ∑ i ∈ f.support.filter (fun i => i % N = k), C (f.coeff i) * X ^ (i / N)

/-- The folded polynomial `Σ_{k<N} α^k f_k`. -/
noncomputable def foldPoly (N : ℕ) (f : F[X]) (α : F) : F[X] :=
  ∑ k ∈ range N, C (α ^ k) * slice N k f

/-- The prover's row computation on arbitrary values `v`: scaled inverse DFT, evaluated at `α`. -/
def drp (N : ℕ) (ζ x α : F) (v : ℕ → F) : F :=
  ∑ k ∈ range N, ((N : F)⁻¹ * (x⁻¹) ^ k * ∑ j ∈ range N, v j * (ζ⁻¹) ^ (j * k)) * α ^ k

/-- The polynomial whose coefficients are the scaled inverse DFT of the row values `v`
(so that `drp N ζ x α v` is its evaluation at `α`). -/
noncomputable def rowPoly (N : ℕ) (ζ x : F) (v : ℕ → F) : F[X] :=
  ∑ k ∈ range N, C ((N : F)⁻¹ * (x⁻¹) ^ k * ∑ j ∈ range N, v j * (ζ⁻¹) ^ (j * k)) * X ^ k

/-! ### Slices -/

theorem coeff_slice {N : ℕ} (hN : 0 < N) {k : ℕ} (hk : k < N) (f : F[X]) (m : ℕ) :
    (slice N k f).coeff m = f.coeff (N * m + k) := by
  have hmod : (N * m + k) % N = k := by
    rw [Nat.mul_add_mod, Nat.mod_eq_of_lt hk]
  have hdiv : (N * m + k) / N = m := by
    rw [Nat.add_comm, Nat.add_mul_div_left _ _ hN, Nat.div_eq_of_lt hk, Nat.zero_add]
  unfold slice
  rw [finsetSum_coeff]
  simp only [coeff_C_mul_X_pow]
  rw [Finset.sum_eq_single (N * m + k)]
  · rw [hdiv, if_pos rfl]
  · intro i hi hne
    rw [Finset.mem_filter] at hi
    rw [if_neg]
    intro hm
    apply hne
    have := Nat.div_add_mod i N
    rw [← hm, hi.2] at this
    exact this.symm
  · intro hnot
    rw [hdiv, if_pos rfl]
    rw [Finset.mem_filter, not_and] at hnot
    by_contra hc
    exact hnot (mem_support_iff.mpr hc) hmod

theorem coeff_foldPoly {N : ℕ} (hN : 0 < N) (f : F[X]) (α : F) (m : ℕ) :
    (foldPoly N f α).coeff m = ∑ k ∈ range N, α ^ k * f.coeff (N * m + k) := by
  unfold foldPoly
  rw [finsetSum_coeff]
  refine Finset.sum_congr rfl fun k hk => ?_
  rw [coeff_C_mul, coeff_slice hN (Finset.mem_range.mp hk)]

/-- `f = Σ_k X^k f_k(X^N)`, pointwise. -/
theorem eval_eq_sum_slices {N : ℕ} (hN : 0 < N) (f : F[X]) (y : F) :
    f.eval y = ∑ k ∈ range N, y ^ k * (slice N k f).eval (y ^ N) := by
  have hmaps : ∀ i ∈ f.support, i % N ∈ range N := fun i _ =>
    Finset.mem_range.mpr (Nat.mod_lt i hN)
  rw [eval_eq_sum, Polynomial.sum_def,
    ← Finset.sum_fiberwise_of_maps_to hmaps (fun i => f.coeff i * y ^ i)]
  refine Finset.sum_congr rfl fun k _ => ?_
  unfold slice
  rw [eval_finsetSum, Finset.mul_sum]
  refine Finset.sum_congr rfl fun i hi => ?_
  rw [Finset.mem_filter] at hi
  rw [eval_mul, eval_C, eval_pow, eval_X, ← pow_mul]
  have hi' : y ^ i = y ^ k * y ^ (N * (i / N)) := by
    rw [← pow_add, Nat.add_comm, ← hi.2, Nat.div_add_mod]
  rw [hi']
  ring

theorem eval_foldPoly (N : ℕ) (f : F[X]) (α z : F) :
    (foldPoly N f α).eval z = ∑ k ∈ range N, α ^ k * (slice N k f).eval z := by
  unfold foldPoly
  rw [eval_finsetSum]
  refine Finset.sum_congr rfl fun k _ => ?_
  rw [eval_mul, eval_C]

/-! ### Roots of unity -/

/-- In a field containing a primitive `N`-th root of unity, `N` is invertible. -/
theorem natCast_ne_zero_of_primitiveRoot {N : ℕ} {ζ : F} (hN : 0 < N) (hζ : IsPrimitiveRoot ζ N) :
    (N : F) ≠ 0 := by
  have : NeZero N := ⟨hN.ne'⟩
  exact (hζ.neZero').out

/-- Geometric-sum form of the orthogonality of characters of the cyclic group of order `N`. -/
theorem orthogonality_geom {N : ℕ} {ζ : F} (hN : 0 < N) (hζ : IsPrimitiveRoot ζ N)
    {a b : ℕ} (ha : a < N) (hb : b < N) :
    ∑ j ∈ range N, (ζ ^ a * (ζ⁻¹) ^ b) ^ j = if a = b then (N : F) else 0 := by
  have hζ0 : ζ ≠ 0 := hζ.ne_zero hN.ne'
  split_ifs with hab
  · subst hab
    have h1 : ζ ^ a * (ζ⁻¹) ^ a = 1 := by
      rw [← mul_pow, mul_inv_cancel₀ hζ0, one_pow]
    simp only [h1, one_pow, Finset.sum_const, Finset.card_range, nsmul_eq_mul, mul_one]
  · set ω : F := ζ ^ a * (ζ⁻¹) ^ b with hω
    have hωN : ω ^ N = 1 := by
      rw [hω, mul_pow, ← pow_mul, ← pow_mul, mul_comm a N, mul_comm b N, pow_mul, pow_mul,
        hζ.pow_eq_one, hζ.inv.pow_eq_one, one_pow, one_pow, one_mul]
    have hω1 : ω ≠ 1 := by
      rcases Nat.lt_or_gt_of_ne hab with hlt | hgt
      · -- a < b : ω = (ζ⁻¹)^(b-a)
        have : ω = (ζ⁻¹) ^ (b - a) := by
          have hb' : b = a + (b - a) := by omega
          rw [hω]
          conv_lhs => rw [hb', pow_add, ← mul_assoc, ← mul_pow, mul_inv_cancel₀ hζ0, one_pow,
            one_mul]
        rw [this]
        exact hζ.inv.pow_ne_one_of_pos_of_lt (by omega) (by omega)
      · -- b < a : ω = ζ^(a-b)
        have : ω = ζ ^ (a - b) := by
          have ha' : a = (a - b) + b := by omega
          rw [hω]
          conv_lhs => rw [ha', pow_add, mul_assoc, ← mul_pow, mul_inv_cancel₀ hζ0, one_pow,
            mul_one]
        rw [this]
        exact hζ.pow_ne_one_of_pos_of_lt (by omega) (by omega)
    have hmul := mul_geom_sum ω N
    rw [hωN, sub_self] at hmul
    exact (mul_eq_zero.mp hmul).resolve_left (sub_ne_zero_of_ne hω1)

/-- Orthogonality of the characters `j ↦ (ζ^j)^a`. -/
theorem orthogonality {N : ℕ} {ζ : F} (hN : 0 < N) (hζ : IsPrimitiveRoot ζ N)
    {a b : ℕ} (ha : a < N) (hb : b < N) :
    ∑ j ∈ range N, (ζ ^ j) ^ a * (ζ⁻¹) ^ (j * b) = if a = b then (N : F) else 0 := by
  rw [← orthogonality_geom hN hζ ha hb]
  refine Finset.sum_congr rfl fun j _ => ?_
  rw [mul_pow, ← pow_mul, ← pow_mul, ← pow_mul, mul_comm j a, mul_comm j b]

/-- The same, summing over the exponent. -/
theorem orthogonality' {N : ℕ} {ζ : F} (hN : 0 < N) (hζ : IsPrimitiveRoot ζ N)
    {a b : ℕ} (ha : a < N) (hb : b < N) :
    ∑ k ∈ range N, (ζ ^ a) ^ k * (ζ⁻¹) ^ (b * k) = if a = b then (N : F) else 0 := by
  rw [← orthogonality_geom hN hζ ha hb]
  refine Finset.sum_congr rfl fun k _ => ?_
  rw [mul_pow, ← pow_mul, ← pow_mul]

theorem row_pow {N : ℕ} {ζ : F} (hζ : IsPrimitiveRoot ζ N) (x : F) (j : ℕ) :
    (x * ζ ^ j) ^ N = x ^ N := by
  rw [mul_pow, ← pow_mul, mul_comm j N, pow_mul, hζ.pow_eq_one, one_pow, mul_one]

/-! ### The scaled inverse DFT interpolates the row -/

theorem idft_interp {N : ℕ} {ζ x : F} (hN : 0 < N) (hζ : IsPrimitiveRoot ζ N) (hx : x ≠ 0)
    (v : ℕ → F) {i : ℕ} (hi : i < N) :
    ∑ k ∈ range N, ((N : F)⁻¹ * (x⁻¹) ^ k * ∑ j ∈ range N, v j * (ζ⁻¹) ^ (j * k)) *
      (x * ζ ^ i) ^ k = v i := by
  have hNF : (N : F) ≠ 0 := natCast_ne_zero_of_primitiveRoot hN hζ
  have hterm : ∀ k ∈ range N,
      ((N : F)⁻¹ * (x⁻¹) ^ k * ∑ j ∈ range N, v j * (ζ⁻¹) ^ (j * k)) * (x * ζ ^ i) ^ k
        = ∑ j ∈ range N, (N : F)⁻¹ * v j * ((ζ ^ i) ^ k * (ζ⁻¹) ^ (j * k)) := by
    intro k _
    have hxk : (x⁻¹) ^ k * x ^ k = 1 := by
      rw [← mul_pow, inv_mul_cancel₀ hx, one_pow]
    rw [Finset.mul_sum, Finset.sum_mul]
    refine Finset.sum_congr rfl fun j _ => ?_
    rw [mul_pow x]
    calc (N : F)⁻¹ * (x⁻¹) ^ k * (v j * (ζ⁻¹) ^ (j * k)) * (x ^ k * (ζ ^ i) ^ k)
        = ((x⁻¹) ^ k * x ^ k) * ((N : F)⁻¹ * v j * ((ζ ^ i) ^ k * (ζ⁻¹) ^ (j * k))) := by ring
      _ = _ := by rw [hxk, one_mul]
  rw [Finset.sum_congr rfl hterm, Finset.sum_comm]
  have hj : ∀ j ∈ range N,
      ∑ k ∈ range N, (N : F)⁻¹ * v j * ((ζ ^ i) ^ k * (ζ⁻¹) ^ (j * k))
        = if i = j then v j else 0 := by
    intro j hj
    rw [← Finset.mul_sum, orthogonality' hN hζ hi (Finset.mem_range.mp hj)]
    split_ifs with h
    · rw [mul_comm (N : F)⁻¹, mul_assoc, inv_mul_cancel₀ hNF, mul_one]
    · rw [mul_zero]
  rw [Finset.sum_congr rfl hj, Finset.sum_ite_eq, if_pos (Finset.mem_range.mpr hi)]

theorem nodes_injective {N : ℕ} {ζ x : F} (hζ : IsPrimitiveRoot ζ N) (hx : x ≠ 0) :
    Set.InjOn (fun j => x * ζ ^ j) (range N : Set ℕ) := by
  intro a ha b hb hab
  rw [Finset.coe_range, Set.mem_Iio] at ha hb
  exact hζ.pow_inj ha hb (mul_left_cancel₀ hx hab)

theorem eval_rowPoly (N : ℕ) (ζ x : F) (v : ℕ → F) (α : F) :
    (rowPoly N ζ x v).eval α = drp N ζ x α v := by
  unfold rowPoly drp
  rw [eval_finsetSum]
  refine Finset.sum_congr rfl fun k _ => ?_
  rw [eval_mul, eval_C, eval_pow, eval_X]

theorem degree_rowPoly_lt (N : ℕ) (ζ x : F) (v : ℕ → F) :
    (rowPoly N ζ x v).degree < N := by
  unfold rowPoly
  refine lt_of_le_of_lt (degree_sum_le _ _) ?_
  refine (Finset.sup_lt_iff (WithBot.bot_lt_coe N)).mpr fun k hk => ?_
  refine lt_of_le_of_lt (degree_C_mul_X_pow_le _ _) ?_
  exact Nat.cast_lt.mpr (Finset.mem_range.mp hk)

/-- The prover's inverse-DFT polynomial of a row IS the Lagrange interpolant of the row. -/
theorem rowPoly_eq_interpolate {N : ℕ} {ζ x : F} (hN : 0 < N) (hζ : IsPrimitiveRoot ζ N)
    (hx : x ≠ 0) (v : ℕ → F) :
    rowPoly N ζ x v = Lagrange.interpolate (range N) (fun j => x * ζ ^ j) v := by
  refine Lagrange.eq_interpolate_of_eval_eq v (nodes_injective hζ hx) ?_ ?_
  · rw [Finset.card_range]
    exact degree_rowPoly_lt N ζ x v
  · intro i hi
    rw [eval_rowPoly]
    exact idft_interp hN hζ hx v (Finset.mem_range.mp hi)

/-- Prover's `apply_drp` on a row = verifier's interpolation of the same row, for ARBITRARY
row values. -/
theorem drp_eq_lagrange {N : ℕ} {ζ x : F} (hN : 0 < N) (hζ : IsPrimitiveRoot ζ N) (hx : x ≠ 0)
    (v : ℕ → F) (α : F) :
    drp N ζ x α v = (Lagrange.interpolate (range N) (fun j => x * ζ ^ j) v).eval α := by
  rw [← rowPoly_eq_interpolate hN hζ hx v, eval_rowPoly]

/-! ### The folding identity -/

/-- The `k`-th coefficient of the degree-`<N` interpolant through `(xζ^j, f(xζ^j))` is
`f_k(x^N)`. -/
theorem interp_coeff {N : ℕ} {ζ x : F} (hN : 0 < N) (hζ : IsPrimitiveRoot ζ N) (hx : x ≠ 0)
    (f : F[X]) {k : ℕ} (hk : k < N) :
    (N : F)⁻¹ * (x⁻¹) ^ k * ∑ j ∈ range N, f.eval (x * ζ ^ j) * (ζ⁻¹) ^ (j * k)
      = (slice N k f).eval (x ^ N) := by
  have hNF : (N : F) ≠ 0 := natCast_ne_zero_of_primitiveRoot hN hζ
  have hterm : ∀ j ∈ range N,
      f.eval (x * ζ ^ j) * (ζ⁻¹) ^ (j * k)
        = ∑ l ∈ range N, x ^ l * (slice N l f).eval (x ^ N) * ((ζ ^ j) ^ l * (ζ⁻¹) ^ (j * k)) := by
    intro j _
    rw [eval_eq_sum_slices hN f (x * ζ ^ j), Finset.sum_mul]
    refine Finset.sum_congr rfl fun l _ => ?_
    rw [row_pow hζ, mul_pow]
    ring
  rw [Finset.sum_congr rfl hterm, Finset.sum_comm]
  have hl : ∀ l ∈ range N,
      ∑ j ∈ range N, x ^ l * (slice N l f).eval (x ^ N) * ((ζ ^ j) ^ l * (ζ⁻¹) ^ (j * k))
        = if l = k then x ^ k * (slice N k f).eval (x ^ N) * (N : F) else 0 := by
    intro l hl
    rw [← Finset.mul_sum, orthogonality hN hζ (Finset.mem_range.mp hl) hk]
    split_ifs with h
    · rw [h]
    · rw [mul_zero]
  rw [Finset.sum_congr rfl hl, Finset.sum_ite_eq' , if_pos (Finset.mem_range.mpr hk)]
  have hxk : (x⁻¹) ^ k * x ^ k = 1 := by
    rw [← mul_pow, inv_mul_cancel₀ hx, one_pow]
  calc (N : F)⁻¹ * (x⁻¹) ^ k * (x ^ k * (slice N k f).eval (x ^ N) * (N : F))
      = ((N : F)⁻¹ * (N : F)) * ((x⁻¹) ^ k * x ^ k) * (slice N k f).eval (x ^ N) := by ring
    _ = _ := by rw [inv_mul_cancel₀ hNF, hxk, one_mul, one_mul]

/-- THE FOLDING IDENTITY: folding the evaluations of `f` over the coset of `x` gives the
evaluation at `x^N` of `Σ_k α^k f_k`. -/
theorem drp_poly {N : ℕ} {ζ x : F} (hN : 0 < N) (hζ : IsPrimitiveRoot ζ N) (hx : x ≠ 0)
    (f : F[X]) (α : F) :
    drp N ζ x α (fun j => f.eval (x * ζ ^ j)) = (foldPoly N f α).eval (x ^ N) := by
  rw [eval_foldPoly]
  unfold drp
  refine Finset.sum_congr rfl fun k hk => ?_
  rw [interp_coeff hN hζ hx f (Finset.mem_range.mp hk), mul_comm]

/-- The verifier's interpolation of a row of evaluations of `f`, evaluated at `α`. -/
theorem lagrange_poly {N : ℕ} {ζ x : F} (hN : 0 < N) (hζ : IsPrimitiveRoot ζ N) (hx : x ≠ 0)
    (f : F[X]) (α : F) :
    (Lagrange.interpolate (range N) (fun j => x * ζ ^ j) (fun j => f.eval (x * ζ ^ j))).eval α
      = (foldPoly N f α).eval (x ^ N) := by
  rw [← drp_eq_lagrange hN hζ hx, drp_poly hN hζ hx]

/-! ### Explicit Lagrange formula (as computed by the executable model) -/

/-- The explicit formula holds for any node map (injectivity is not needed). -/
theorem lagrange_eval_formula' (s : Finset ℕ) (node v : ℕ → F) (α : F) :
    (Lagrange.interpolate s node v).eval α
      = ∑ j ∈ s, v j * ((∏ k ∈ s.erase j, (α - node k)) *
          (∏ k ∈ s.erase j, (node j - node k))⁻¹) := by
  rw [Lagrange.interpolate_apply, eval_finsetSum]
  refine Finset.sum_congr rfl fun j _ => ?_
  rw [eval_mul, eval_C]
  congr 1
  unfold Lagrange.basis Lagrange.basisDivisor
  rw [eval_prod, ← Finset.prod_inv_distrib, ← Finset.prod_mul_distrib]
  refine Finset.prod_congr rfl fun k _ => ?_
  rw [eval_mul, eval_C, eval_sub, eval_X, eval_C, mul_comm]

theorem lagrange_eval_formula (s : Finset ℕ) (node v : ℕ → F) (_hinj : Set.InjOn node s)
    (α : F) :
    (Lagrange.interpolate s node v).eval α
      = ∑ j ∈ s, v j * ((∏ k ∈ s.erase j, (α - node k)) *
          (∏ k ∈ s.erase j, (node j - node k))⁻¹) :=
  lagrange_eval_formula' s node v α

/-! ### Examples: the hypotheses are satisfiable -/

theorem isPrimitiveRoot_neg_one_rat : IsPrimitiveRoot (-1 : ℚ) 2 := by
  refine IsPrimitiveRoot.mk_of_lt (-1 : ℚ) (by norm_num) (by norm_num) ?_
  intro l hl0 hl2
  have : l = 1 := by omega
  subst this
  norm_num

example (f : ℚ[X]) (α : ℚ) :
    drp 2 (-1 : ℚ) 3 α (fun j => f.eval (3 * (-1) ^ j)) = (foldPoly 2 f α).eval (3 ^ 2) :=
  drp_poly (by norm_num) isPrimitiveRoot_neg_one_rat (by norm_num) f α

example (v : ℕ → ℚ) (α : ℚ) :
    drp 2 (-1 : ℚ) 3 α v
      = (Lagrange.interpolate (range 2) (fun j => (3 : ℚ) * (-1) ^ j) v).eval α :=
  drp_eq_lagrange (by norm_num) isPrimitiveRoot_neg_one_rat (by norm_num) v α

/-- Sanity: with `N = 2`, `ζ = -1` the fold is the familiar `(v₀+v₁)/2 + α (v₀-v₁)/(2x)`. -/
example (v : ℕ → ℚ) (x α : ℚ) :
    drp 2 (-1 : ℚ) x α v = (v 0 + v 1) / 2 + α * ((v 0 - v 1) / (2 * x)) := by
  unfold drp
  simp only [Finset.sum_range_succ, Finset.sum_range_zero, zero_add, pow_zero, mul_one,
    Nat.zero_mul, Nat.mul_zero, pow_one, Nat.cast_ofNat]
  rw [show ((-1 : ℚ))⁻¹ = -1 by norm_num]
  ring

end WinterProofs.FriAlg
