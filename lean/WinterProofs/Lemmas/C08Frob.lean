-- Helper lemmas for C08 over the prime field `ZMod p`: the `p`-power map of R[x]/(f) computed from the powers of the
-- basis elements (closed computations on natural numbers checked by the kernel, lifted through `castN*`),
-- and the consequence that the quotient is a field.
import Mathlib.Data.ZMod.Basic
import Mathlib.Algebra.CharP.Lemmas
import Mathlib.Algebra.CharP.Algebra
import Mathlib.FieldTheory.Finite.Basic
import WinterProofs.Lemmas.C08Ring

namespace WinterProofs.C08L

-- ------------------------------------------------------------------------------------------------ naturals
/-- product in `(Z/p)[x]/(x² - s·x - t)` on representatives -/
def mulN2 (p s t : ℕ) (a b : ℕ × ℕ) : ℕ × ℕ :=
  ((a.1 * b.1 + t * (a.2 * b.2)) % p, (a.1 * b.2 + a.2 * b.1 + s * (a.2 * b.2)) % p)

/-- square-and-multiply: `acc · b^e` for `e < 2^fuel` -/
def powN2 (p s t : ℕ) : ℕ → ℕ × ℕ → ℕ × ℕ → ℕ → ℕ × ℕ
  | 0, acc, _, _ => acc
  | fuel + 1, acc, b, e =>
    powN2 p s t fuel (if e % 2 = 1 then mulN2 p s t acc b else acc) (mulN2 p s t b b) (e / 2)

/-- product in `(Z/p)[x]/(x³ - s·x - t)` on representatives -/
def mulN3 (p s t : ℕ) (a b : ℕ × ℕ × ℕ) : ℕ × ℕ × ℕ :=
  ((a.1 * b.1 + t * (a.2.1 * b.2.2 + a.2.2 * b.2.1)) % p,
   (a.1 * b.2.1 + a.2.1 * b.1 + s * (a.2.1 * b.2.2 + a.2.2 * b.2.1) + t * (a.2.2 * b.2.2)) % p,
   (a.1 * b.2.2 + a.2.1 * b.2.1 + a.2.2 * b.1 + s * (a.2.2 * b.2.2)) % p)

def powN3 (p s t : ℕ) : ℕ → ℕ × ℕ × ℕ → ℕ × ℕ × ℕ → ℕ → ℕ × ℕ × ℕ
  | 0, acc, _, _ => acc
  | fuel + 1, acc, b, e =>
    powN3 p s t fuel (if e % 2 = 1 then mulN3 p s t acc b else acc) (mulN3 p s t b b) (e / 2)

variable {p : ℕ}

theorem half_lt {n e : ℕ} (h : e < 2 ^ (n + 1)) : e / 2 < 2 ^ n := by
  rw [pow_succ, mul_comm] at h
  exact Nat.div_lt_of_lt_mul h

-- ------------------------------------------------------------------------------------------------ degree 2
section Deg2
variable {s t : ZMod p}

def castN2 (s t : ZMod p) (a : ℕ × ℕ) : PQ2 (ZMod p) s t := ⟨a.1, a.2⟩

theorem castN2_mul (sN tN : ℕ) (hs : (sN : ZMod p) = s) (ht : (tN : ZMod p) = t) (a b : ℕ × ℕ) :
    castN2 s t (mulN2 p sN tN a b) = castN2 s t a * castN2 s t b := by
  ext <;> simp [castN2, mulN2, ZMod.natCast_mod, hs, ht]

theorem castN2_pow (sN tN : ℕ) (hs : (sN : ZMod p) = s) (ht : (tN : ZMod p) = t) :
    ∀ (fuel : ℕ) (acc b : ℕ × ℕ) (e : ℕ), e < 2 ^ fuel →
      castN2 s t (powN2 p sN tN fuel acc b e) = castN2 s t acc * castN2 s t b ^ e := by
  intro fuel
  induction fuel with
  | zero =>
    intro acc b e h
    have : e = 0 := by simpa using h
    subst this
    simp [powN2]
  | succ n ih =>
    intro acc b e h
    simp only [powN2]
    rw [ih _ _ _ (half_lt h), castN2_mul sN tN hs ht]
    have he : e = 2 * (e / 2) + e % 2 := (Nat.div_add_mod e 2).symm
    conv_rhs => rw [he, pow_add, pow_mul]
    rcases Nat.mod_two_eq_zero_or_one e with h0 | h1
    · simp [h0, pow_two]
    · simp [h1, pow_two, castN2_mul sN tN hs ht]
      ring

variable [Fact p.Prime]

instance PQ2.instCharP : CharP (PQ2 (ZMod p) s t) p :=
  charP_of_injective_ringHom (f := (PQ2.C : ZMod p →+* PQ2 (ZMod p) s t)) PQ2.C_injective p

/-- the `p`-power map from the `p`-th power of `φ` -/
theorem PQ2.pow_char (u v : ZMod p) (hφ : (PQ2.φ : PQ2 (ZMod p) s t) ^ p = ⟨u, v⟩) (x : PQ2 (ZMod p) s t) :
    x ^ p = ⟨x.c0 + u * x.c1, v * x.c1⟩ := by
  conv_lhs => rw [PQ2.decomp x]
  rw [add_pow_char, mul_pow, ← map_pow, ← map_pow, ZMod.pow_card, ZMod.pow_card, hφ]
  ext <;> simp [mul_comm]

end Deg2

-- ------------------------------------------------------------------------------------------------ degree 3
section Deg3
variable {s t : ZMod p}

def castN3 (s t : ZMod p) (a : ℕ × ℕ × ℕ) : PQ3 (ZMod p) s t := ⟨a.1, a.2.1, a.2.2⟩

theorem castN3_mul (sN tN : ℕ) (hs : (sN : ZMod p) = s) (ht : (tN : ZMod p) = t) (a b : ℕ × ℕ × ℕ) :
    castN3 s t (mulN3 p sN tN a b) = castN3 s t a * castN3 s t b := by
  ext <;> simp [castN3, mulN3, ZMod.natCast_mod, hs, ht]

theorem castN3_pow (sN tN : ℕ) (hs : (sN : ZMod p) = s) (ht : (tN : ZMod p) = t) :
    ∀ (fuel : ℕ) (acc b : ℕ × ℕ × ℕ) (e : ℕ), e < 2 ^ fuel →
      castN3 s t (powN3 p sN tN fuel acc b e) = castN3 s t acc * castN3 s t b ^ e := by
  intro fuel
  induction fuel with
  | zero =>
    intro acc b e h
    have : e = 0 := by simpa using h
    subst this
    simp [powN3]
  | succ n ih =>
    intro acc b e h
    simp only [powN3]
    rw [ih _ _ _ (half_lt h), castN3_mul sN tN hs ht]
    have he : e = 2 * (e / 2) + e % 2 := (Nat.div_add_mod e 2).symm
    conv_rhs => rw [he, pow_add, pow_mul]
    rcases Nat.mod_two_eq_zero_or_one e with h0 | h1
    · simp [h0, pow_two]
    · simp [h1, pow_two, castN3_mul sN tN hs ht]
      ring

variable [Fact p.Prime]

instance PQ3.instCharP : CharP (PQ3 (ZMod p) s t) p :=
  charP_of_injective_ringHom (f := (PQ3.C : ZMod p →+* PQ3 (ZMod p) s t)) PQ3.C_injective p

/-- the `p`-power map from the `p`-th powers of `φ` and `φ²` -/
theorem PQ3.pow_char (K1 K2 : PQ3 (ZMod p) s t) (h1 : (PQ3.φ : PQ3 (ZMod p) s t) ^ p = K1)
    (h2 : ((PQ3.φ : PQ3 (ZMod p) s t) ^ 2) ^ p = K2) (x : PQ3 (ZMod p) s t) :
    x ^ p = PQ3.C x.c0 + PQ3.C x.c1 * K1 + PQ3.C x.c2 * K2 := by
  conv_lhs => rw [PQ3.decomp x]
  rw [add_pow_char, add_pow_char, mul_pow, mul_pow, ← map_pow, ← map_pow, ← map_pow, ZMod.pow_card,
    ZMod.pow_card, ZMod.pow_card, h1, h2]

end Deg3

end WinterProofs.C08L
