-- C09 helper lemmas: the model's entry points (twiddles, evaluation, coset evaluation, interpolation, degree
-- inference) instantiated with a field `F` and an `F`-module `M`, characterised by direct evaluation
import WinterProofs.Lemmas.C09InPlace
import WinterProofs.Lemmas.C09Dft

namespace WinterProofs.C09
open Model.Fft Finset

/-! ### generic array helpers -/

section generic
variable {β α : Type} [Inhabited α] [Inhabited β]

theorem vw_eq_getElem? (a : Array α) (p : Nat) : vw a p = a[p]?.getD default := by
  simp [vw]

theorem vw_toArray (l : List α) (p : Nat) : vw l.toArray p = l.getD p default := by
  simp [vw]

/-- the top-level call `fft_in_place(values, twiddles, 1, 1, 0)` on `2^(k+1)` values -/
theorem fftTop_spec (ops : Ops β α) (maxLoop : Nat) (tw : Array β) (k : Nat) (a : Array α)
    (hsz : a.size = 2 ^ (k + 1)) (htw : 2 ^ k ≤ tw.size) :
    ∃ b, fftTop ops maxLoop tw a = some b ∧ b.size = a.size ∧
      ∀ m, m < 2 ^ (k + 1) → vw b m = fftRec ops (twf tw) (k + 1) (vw a) m := by
  have hfuel : k + 1 ≤ a.size + 1 := by
    have := Nat.lt_two_pow_self (n := k + 1)
    omega
  obtain ⟨b, e, hbs, hbv⟩ := fftInPlace_spec ops maxLoop tw k (a.size + 1) 1 1 0 a hfuel (by decide)
    (by rw [hsz]; ring) (by decide) (by decide) htw
  refine ⟨b, e, hbs, ?_⟩
  intro m hm
  have := hbv m 0 hm (by decide)
  simp only [Nat.zero_add, Nat.mul_one, Nat.le_refl, Nat.lt_add_one, and_self, ↓reduceIte] at this
  rw [this]
  congr 1
  funext j
  simp [sub]

theorem powersFrom_length (mul : β → β → β) (b : β) (n : Nat) (x : β) :
    (powersFrom mul b n x).length = n := by
  induction n generalizing x with
  | zero => rfl
  | succ n ih => simp [powersFrom, ih]

end generic

/-! ### the field instance -/

section field
variable {F : Type} [Field F] {M : Type} [AddCommGroup M] [Module F M]

local instance : Inhabited M := ⟨0⟩
local instance : Inhabited F := ⟨0⟩

/-- base-field operations of a field `F` whose two-adic root of unity `τ` has order `2^A`
    (mirrors `FieldImpl` / `StarkField`: `get_root_of_unity(n) = τ^(2^(A-n))`) -/
noncomputable def fieldOps (F : Type) [Field F] (τ : F) (A : Nat) : BaseOps F where
  one := 1
  mul := (· * ·)
  exp := fun x e => x ^ e
  inv := fun x => some x⁻¹
  ofNat := fun n => (n : F)
  isZero := fun x => by classical exact decide (x = 0)
  twoAdicity := A
  rootOfUnity := fun n => if n = 0 ∨ n > A then none else some (τ ^ 2 ^ (A - n))

/-- the `2^k`-th root of unity the model uses -/
def rootK (τ : F) (A k : Nat) : F := τ ^ 2 ^ (A - k)

theorem rootK_pow (τ : F) (A k : Nat) (hk : k ≤ A) (hτ : τ ^ 2 ^ A = 1) : rootK τ A k ^ 2 ^ k = 1 := by
  unfold rootK
  rw [← pow_mul, ← pow_add, Nat.sub_add_cancel hk, hτ]

theorem rootK_half (τ : F) (A k : Nat) (hk : k ≤ A) (hk1 : 1 ≤ k) (hτ : IsPrimitiveRoot τ (2 ^ A)) :
    rootK τ A k ^ 2 ^ (k - 1) = -1 := by
  unfold rootK
  rw [← pow_mul, ← pow_add]
  have e : A - k + (k - 1) = A - 1 := by omega
  rw [e]
  -- x = τ^(2^(A-1)) squares to 1 and is not 1
  have hsq : (τ ^ 2 ^ (A - 1)) ^ 2 = 1 := by
    rw [← pow_mul, ← pow_succ]
    have : A - 1 + 1 = A := by omega
    rw [this]; exact hτ.pow_eq_one
  have hne : τ ^ 2 ^ (A - 1) ≠ 1 := by
    intro h
    have := (hτ.pow_eq_one_iff_dvd _).mp h
    have hlt : 2 ^ (A - 1) < 2 ^ A := Nat.pow_lt_pow_right (by decide) (by omega)
    have := Nat.le_of_dvd (Nat.pow_pos (by decide)) this
    omega
  have : (τ ^ 2 ^ (A - 1) - 1) * (τ ^ 2 ^ (A - 1) + 1) = 0 := by
    have : (τ ^ 2 ^ (A - 1) - 1) * (τ ^ 2 ^ (A - 1) + 1) = (τ ^ 2 ^ (A - 1)) ^ 2 - 1 := by ring
    rw [this, hsq, sub_self]
  rcases mul_eq_zero.mp this with h | h
  · exact absurd (sub_eq_zero.mp h) hne
  · exact eq_neg_of_add_eq_zero_left h

theorem rootK_sq (τ : F) (A k : Nat) (hk : k + 1 ≤ A) : rootK τ A (k + 1) ^ 2 = rootK τ A k := by
  unfold rootK
  rw [← pow_mul, ← pow_succ]
  congr 2; omega

theorem checkDomain_fieldOps (τ : F) (A k : Nat) (hk : k ≤ A) :
    checkDomain (fieldOps F τ A) (2 ^ k) = some k := by
  simp [checkDomain, isPow2_two_pow, ilog2_two_pow, fieldOps, hk]

theorem rootOfUnity_fieldOps (τ : F) (A k : Nat) (hk : k ≤ A) (hk1 : 1 ≤ k) :
    (fieldOps F τ A).rootOfUnity k = some (rootK τ A k) := by
  have : ¬ (k = 0 ∨ k > A) := by omega
  simp [fieldOps, this, rootK]

theorem powersFrom_getElem? (b : F) (n : Nat) (x : F) (i : Nat) (hi : i < n) :
    (powersFrom (· * ·) b n x)[i]? = some (x * b ^ i) := by
  induction n generalizing x i with
  | zero => omega
  | succ n ih =>
    cases i with
    | zero => simp [powersFrom]
    | succ i =>
      simp only [powersFrom, List.getElem?_cons_succ]
      rw [ih (x * b) i (by omega)]
      congr 1
      ring

theorem powersFrom_getD (b : F) (n : Nat) (x : F) (i : Nat) (hi : i < n) :
    (powersFrom (· * ·) b n x).getD i 0 = x * b ^ i := by
  simp [List.getD, powersFrom_getElem? b n x i hi]

theorem powerSeries_spec (τ : F) (A : Nat) (b : F) (n : Nat) :
    (powerSeries (fieldOps F τ A) b n).size = n ∧
      ∀ i, i < n → vw (powerSeries (fieldOps F τ A) b n) i = b ^ i := by
  constructor
  · simp [powerSeries, powersFrom_length]
  · intro i hi
    unfold powerSeries
    rw [vw_toArray]
    have := powersFrom_getD b n ((fieldOps F τ A).exp b 0) i hi
    simp only [fieldOps, pow_zero, one_mul] at this ⊢
    exact this

/-- `get_twiddles(2^k)` / `get_inv_twiddles`-style tables: `permute` of the power series of `b` -/
theorem permute_powerSeries (τ : F) (A : Nat) (b : F) (j : Nat) (hj : j ≤ 64) :
    ∃ tw, permute (powerSeries (fieldOps F τ A) b (2 ^ j)) = some tw ∧ tw.size = 2 ^ j ∧
      ∀ i, i < 2 ^ j → twf tw i = b ^ brev j i := by
  obtain ⟨hsz, hv⟩ := powerSeries_spec τ A b (2 ^ j)
  obtain ⟨tw, e, hts, htv⟩ := permute_spec j hj _ hsz
  refine ⟨tw, e, by rw [hts, hsz], ?_⟩
  intro i hi
  have := htv i (by rw [hsz]; exact hi)
  have h2 := hv (brev j i) (brev_lt j i)
  rw [vw_eq_getElem?] at h2
  unfold twf
  rw [Array.getD_eq_getD_getElem?, this]
  exact h2

theorem getTwiddles_spec (τ : F) (A k : Nat) (hk : k + 1 ≤ A) (hk64 : k ≤ 64) :
    ∃ tw, getTwiddles (fieldOps F τ A) (2 ^ (k + 1)) = some tw ∧ tw.size = 2 ^ k ∧
      ∀ i, i < 2 ^ k → twf tw i = rootK τ A (k + 1) ^ brev k i := by
  unfold getTwiddles
  rw [checkDomain_fieldOps τ A (k + 1) hk]
  simp only [rootOfUnity_fieldOps τ A (k + 1) hk (by omega)]
  have : 2 ^ (k + 1) / 2 = 2 ^ k := by rw [Nat.pow_succ]; omega
  rw [this]
  exact permute_powerSeries τ A _ k hk64

/-- `evaluate_poly` on `2^(k+1)` coefficients returns the evaluations over `ω^i`, natural order -/
theorem evaluatePoly_spec (τ : F) (A k : Nat) (hτ : IsPrimitiveRoot τ (2 ^ A)) (hk : k + 1 ≤ A) (hk64 : k + 1 ≤ 64)
    (maxLoop : Nat) (p : Array M) (hp : p.size = 2 ^ (k + 1)) (tw : Array F)
    (htw : getTwiddles (fieldOps F τ A) (2 ^ (k + 1)) = some tw) :
    ∃ r, evaluatePoly (modOps F M) (fieldOps F τ A) maxLoop p tw = some r ∧ r.size = 2 ^ (k + 1) ∧
      ∀ i, i < 2 ^ (k + 1) → vw r i = evalAt (2 ^ (k + 1)) (vw p) (rootK τ A (k + 1) ^ i) := by
  obtain ⟨tw', e', hts, htv⟩ := getTwiddles_spec (F := F) τ A k hk (by omega)
  rw [htw] at e'
  obtain rfl : tw = tw' := Option.some.inj e'
  unfold evaluatePoly
  rw [hp, checkDomain_fieldOps τ A (k + 1) hk]
  have hne : ¬ (2 ^ (k + 1) ≠ tw.size * 2) := by rw [hts, Nat.pow_succ]; simp
  simp only [hne, ↓reduceIte]
  obtain ⟨b, eb, hbs, hbv⟩ := fftTop_spec (modOps F M) maxLoop tw k p hp (by omega)
  rw [eb, Option.bind_some]
  obtain ⟨r, er, hrs, hrv⟩ := permute_spec (k + 1) hk64 b (by rw [hbs, hp])
  refine ⟨r, er, by rw [hrs, hbs, hp], ?_⟩
  intro i hi
  have h1 := hrv i (by rw [hbs, hp]; exact hi)
  rw [vw_eq_getElem?, h1, ← vw_eq_getElem?, hbv _ (brev_lt _ _)]
  have hTw : TwOk (twf tw) (rootK τ A (k + 1)) (k + 1) := by
    intro i _ hi
    simp only [Nat.add_sub_cancel] at hi ⊢
    exact htv i hi
  rw [fftRec_eq_dft (k + 1) (rootK τ A (k + 1)) (twf tw) (vw p)
    (fun _ => by simpa using rootK_half τ A (k + 1) hk (by omega) hτ) hTw _ (brev_lt _ _)]
  rw [brev_brev _ _ hi]
  rfl

/-! ### coset evaluation by chunks -/

theorem shiftBySeries_spec (τ : F) (A : Nat) (a : Array M) (offset inc : F) :
    (shiftBySeries (modOps F M) (fieldOps F τ A) a offset inc).size = a.size ∧
      ∀ i, i < a.size → vw (shiftBySeries (modOps F M) (fieldOps F τ A) a offset inc) i
        = (offset * inc ^ i) • vw a i := by
  have hl := powersFrom_length (fieldOps F τ A).mul inc a.size offset
  constructor
  · simp [shiftBySeries, hl]
  · intro i hi
    have hsz : i < (shiftBySeries (modOps F M) (fieldOps F τ A) a offset inc).size := by
      simp [shiftBySeries, hl, hi]
    rw [vw_of_lt _ _ hsz, vw_of_lt _ _ hi]
    simp only [shiftBySeries, Array.getElem_zipWith, modOps]
    have h1 := powersFrom_getElem? inc a.size offset i hi
    have h2 : (powersFrom (fieldOps F τ A).mul inc a.size offset)[i]'(by rw [hl]; exact hi) = offset * inc ^ i := by
      have h3 := List.getElem?_eq_getElem (l := powersFrom (fieldOps F τ A).mul inc a.size offset) (i := i) (by rw [hl]; exact hi)
      have h4 : (powersFrom (fieldOps F τ A).mul inc a.size offset)[i]? = some (offset * inc ^ i) := h1
      rw [h3] at h4
      exact Option.some.inj h4
    simp only [List.getElem_toArray, h2]

/-- evaluation of the shifted coefficients `c^j • p j` at `x` is evaluation of `p` at `x * c` -/
theorem evalAt_shift (n : Nat) (p q : Nat → M) (c x : F) (h : ∀ j, j < n → q j = (1 * c ^ j) • p j) :
    evalAt n q x = evalAt n p (x * c) := by
  unfold evalAt
  apply sum_congr rfl
  intro j hj
  rw [h j (mem_range.mp hj), smul_smul, mul_pow, one_mul]

theorem brev_concat (k b i j : Nat) (hj : j < 2 ^ k) :
    brev (k + b) (i * 2 ^ k + j) = brev k j * 2 ^ b + brev b i := by
  induction k generalizing j with
  | zero =>
    have : j = 0 := by simpa using hj
    subst this
    simp [brev]
  | succ k ih =>
    have hj' : j / 2 < 2 ^ k := by rw [Nat.pow_succ] at hj; omega
    have e : k + 1 + b = (k + b) + 1 := by omega
    have e0 : i * 2 ^ (k + 1) = 2 * (i * 2 ^ k) := by rw [Nat.pow_succ]; ring
    have e1 : (i * 2 ^ (k + 1) + j) % 2 = j % 2 := by rw [e0]; omega
    have e2 : (i * 2 ^ (k + 1) + j) / 2 = i * 2 ^ k + j / 2 := by rw [e0]; omega
    rw [e, brev, e1, e2, ih (j / 2) hj', brev, Nat.pow_add]
    ring

/-- one chunk: the bit-reversed transform of the coefficients shifted by `c` holds, at position `m`, the
    evaluation at `ω ^ brev m * c` -/
theorem cosetChunk_spec (τ : F) (A k : Nat) (hτ : IsPrimitiveRoot τ (2 ^ A)) (hk : k + 1 ≤ A)
    (maxLoop : Nat) (p : Array M) (hp : p.size = 2 ^ (k + 1)) (tw : Array F)
    (hts : tw.size = 2 ^ k) (htv : ∀ i, i < 2 ^ k → twf tw i = rootK τ A (k + 1) ^ brev k i) (c : F) :
    ∃ b, cosetChunk (modOps F M) (fieldOps F τ A) maxLoop p tw c = some b ∧ b.size = 2 ^ (k + 1) ∧
      ∀ m, m < 2 ^ (k + 1) →
        vw b m = evalAt (2 ^ (k + 1)) (vw p) (rootK τ A (k + 1) ^ brev (k + 1) m * c) := by
  unfold cosetChunk
  obtain ⟨hss, hsv⟩ := shiftBySeries_spec (M := M) τ A p (fieldOps F τ A).one c
  obtain ⟨b, eb, hbs, hbv⟩ := fftTop_spec (modOps F M) maxLoop tw k _ (by rw [hss, hp]) (by omega)
  refine ⟨b, eb, by rw [hbs, hss, hp], ?_⟩
  intro m hm
  rw [hbv m hm]
  have hTw : TwOk (twf tw) (rootK τ A (k + 1)) (k + 1) := by
    intro i _ hi
    simp only [Nat.add_sub_cancel] at hi ⊢
    exact htv i hi
  rw [fftRec_eq_dft (k + 1) (rootK τ A (k + 1)) (twf tw) _
    (fun _ => by simpa using rootK_half τ A (k + 1) hk (by omega) hτ) hTw _ hm]
  unfold dft
  apply evalAt_shift
  intro j hj
  have := hsv j (by rw [hp]; exact hj)
  simpa [fieldOps] using this

theorem vw_append (a b : Array M) (p : Nat) :
    vw (a ++ b) p = if p < a.size then vw a p else vw b (p - a.size) := by
  unfold vw
  simp only [Array.getD_eq_getD_getElem?, Array.getElem?_append]
  split_ifs <;> rfl

theorem rootK_pow_blowup (τ : F) (A k b : Nat) (h : k + b ≤ A) :
    rootK τ A (k + b) ^ 2 ^ b = rootK τ A k := by
  unfold rootK
  rw [← pow_mul, ← pow_add]
  congr 2; omega

theorem isZero_fieldOps (τ : F) (A : Nat) (x : F) (hx : x ≠ 0) : (fieldOps F τ A).isZero x = false := by
  simp [fieldOps, hx]

/-- (d) `evaluate_poly_with_offset` on `2^(k+1)` coefficients with blowup `2^b`: value `q` of the result is the
    direct evaluation at `off · g^q`, `g` the root of unity of the blown-up domain — for every power-of-two
    blowup -/
theorem evaluatePolyWithOffset_spec (τ : F) (A k b : Nat) (hτ : IsPrimitiveRoot τ (2 ^ A))
    (hk : k + 1 + b ≤ A) (hk64 : k + 1 + b ≤ 64) (maxLoop : Nat) (p : Array M) (hp : p.size = 2 ^ (k + 1))
    (tw : Array F) (htw : getTwiddles (fieldOps F τ A) (2 ^ (k + 1)) = some tw) (off : F) (hoff : off ≠ 0) :
    ∃ r, evaluatePolyWithOffset (modOps F M) (fieldOps F τ A) maxLoop p tw off (2 ^ b) = some r ∧
      r.size = 2 ^ (k + 1 + b) ∧
      ∀ q, q < 2 ^ (k + 1 + b) → vw r q = evalAt (2 ^ (k + 1)) (vw p) (off * rootK τ A (k + 1 + b) ^ q) := by
  obtain ⟨tw', e', hts, htv⟩ := getTwiddles_spec (F := F) τ A k (by omega) (by omega)
  rw [htw] at e'
  obtain rfl : tw = tw' := Option.some.inj e'
  have hn : (2 : Nat) ^ (k + 1) * 2 ^ b = 2 ^ (k + 1 + b) := (Nat.pow_add 2 (k + 1) b).symm
  unfold evaluatePolyWithOffset
  rw [hp, hn, checkDomain_fieldOps τ A (k + 1 + b) hk]
  have c1 : ¬ ¬ (isPow2 (2 ^ (k + 1)) = true ∧ isPow2 (2 ^ b) = true) :=
    not_not.mpr ⟨isPow2_two_pow _, isPow2_two_pow _⟩
  have c2 : ¬ (2 ^ (k + 1) ≠ tw.size * 2) := by rw [hts, Nat.pow_succ]; simp
  simp only [c1, c2, ↓reduceIte, isZero_fieldOps τ A off hoff, Bool.false_eq_true,
    rootOfUnity_fieldOps τ A (k + 1 + b) hk (by omega)]
  set g := rootK τ A (k + 1 + b) with hg
  set n := 2 ^ (k + 1) with hnn
  -- the chunks
  let P : Nat → Array M → Prop := fun t res => res.size = t * n ∧
    ∀ i j, i < t → j < n → vw res (i * n + j) =
      evalAt n (vw p) (rootK τ A (k + 1) ^ brev (k + 1) j * (g ^ brev b i * off))
  apply forRange_bind_inv (σ := Array M) (P := P)
    (Q := fun r => r.size = 2 ^ (k + 1 + b) ∧
      ∀ q, q < 2 ^ (k + 1 + b) → vw r q = evalAt n (vw p) (off * g ^ q))
  · exact ⟨by simp, fun i j hi _ => by omega⟩
  · exact
    (by
      intro t res _ ht ⟨hrs, hrv⟩
      simp only [Nat.zero_add] at ht
      rw [permuteIndex_two_pow b t (by omega) ht]
      obtain ⟨c, ec, hcs, hcv⟩ := cosetChunk_spec (M := M) τ A k hτ (by omega) maxLoop p hp tw hts htv
        (g ^ brev b t * off)
      have ec' : cosetChunk (modOps F M) (fieldOps F τ A) maxLoop p tw
          ((fieldOps F τ A).mul ((fieldOps F τ A).exp g (brev b t)) off) = some c := ec
      simp only [ec', Option.map_some]
      refine ⟨_, rfl, ?_, ?_⟩
      · rw [Array.size_append, hrs, hcs]; ring
      · intro i j hi hj
        rw [vw_append, hrs]
        by_cases hit : i < t
        · have hlt : i * n + j < t * n := by
            have : (i + 1) * n ≤ t * n := Nat.mul_le_mul_right n hit
            have e : (i + 1) * n = i * n + n := by ring
            omega
          rw [if_pos hlt]
          exact hrv i j hit hj
        · have hit' : i = t := by omega
          subst hit'
          have hge : ¬ (i * n + j < i * n) := by omega
          rw [if_neg hge]
          have : i * n + j - i * n = j := by omega
          rw [this]
          exact hcv j hj)
  · intro res ⟨hrs, hrv⟩
    simp only [Nat.zero_add] at hrs hrv
    have hrsz : res.size = 2 ^ (k + 1 + b) := by rw [hrs, ← hn]; ring
    obtain ⟨r, er, hrs2, hrv2⟩ := permute_spec (k + 1 + b) hk64 res hrsz
    refine ⟨r, er, by rw [hrs2, hrsz], ?_⟩
    intro q hq
    have h1 := hrv2 q (by rw [hrsz]; exact hq)
    rw [vw_eq_getElem?, h1, ← vw_eq_getElem?]
    -- split the bit-reversed index into chunk number and position in the chunk
    have hPlt : brev (k + 1 + b) q < 2 ^ (k + 1 + b) := brev_lt _ _
    have hnpos : 0 < n := Nat.pow_pos (by decide)
    set Pq := brev (k + 1 + b) q with hPq
    have hdecomp : Pq = (Pq / n) * n + Pq % n := by
      have := Nat.div_add_mod Pq n
      rw [Nat.mul_comm] at this; omega
    have hi : Pq / n < 2 ^ b := by
      rw [Nat.div_lt_iff_lt_mul hnpos, Nat.mul_comm, hn]; exact hPlt
    have hj : Pq % n < n := Nat.mod_lt _ hnpos
    rw [hdecomp, hrv (Pq / n) (Pq % n) hi hj]
    congr 1
    rw [← rootK_pow_blowup τ A (k + 1) b hk, ← hg, ← pow_mul, mul_comm off, ← mul_assoc, ← pow_add]
    congr 2
    have hc := brev_concat (k + 1) b (Pq / n) (Pq % n) hj
    rw [← hdecomp, hPq, brev_brev _ _ hq] at hc
    rw [hc]; ring

/-! ### interpolation -/

theorem rootK_primitive (τ : F) (A k : Nat) (hτ : IsPrimitiveRoot τ (2 ^ A)) (hk : k ≤ A) :
    IsPrimitiveRoot (rootK τ A k) (2 ^ k) := by
  unfold rootK
  apply hτ.pow (Nat.pow_pos (by decide))
  rw [← Nat.pow_add]; congr 1; omega

theorem rootK_pow_pred (τ : F) (A k : Nat) (hτ : IsPrimitiveRoot τ (2 ^ A)) (hk : k ≤ A) :
    rootK τ A k ^ (2 ^ k - 1) = (rootK τ A k)⁻¹ := by
  have h1 := (rootK_primitive τ A k hτ hk).pow_eq_one
  have hpos : 0 < 2 ^ k := Nat.pow_pos (by decide)
  have h0 : rootK τ A k ≠ 0 := (rootK_primitive τ A k hτ hk).ne_zero (by omega)
  apply eq_inv_of_mul_eq_one_left
  rw [← pow_succ]
  have : 2 ^ k - 1 + 1 = 2 ^ k := by omega
  rw [this, h1]

theorem getInvTwiddles_spec (τ : F) (A k : Nat) (hτ : IsPrimitiveRoot τ (2 ^ A)) (hk : k + 1 ≤ A)
    (hk32 : k + 1 ≤ 31) :
    ∃ tw, getInvTwiddles (fieldOps F τ A) (2 ^ (k + 1)) = some tw ∧ tw.size = 2 ^ k ∧
      ∀ i, i < 2 ^ k → twf tw i = (rootK τ A (k + 1))⁻¹ ^ brev k i := by
  unfold getInvTwiddles
  rw [checkDomain_fieldOps τ A (k + 1) hk]
  simp only [rootOfUnity_fieldOps τ A (k + 1) hk (by omega)]
  have hlt : 2 ^ (k + 1) < 4294967296 := by
    have : (2 : Nat) ^ (k + 1) < 2 ^ 32 := Nat.pow_lt_pow_right (by decide) (by omega)
    simpa using this
  have hmod : 2 ^ (k + 1) % 4294967296 = 2 ^ (k + 1) := Nat.mod_eq_of_lt hlt
  have hpos : 0 < 2 ^ (k + 1) := Nat.pow_pos (by decide)
  rw [hmod, if_neg (by omega)]
  have : 2 ^ (k + 1) / 2 = 2 ^ k := by rw [Nat.pow_succ]; omega
  rw [this]
  have he : (fieldOps F τ A).exp (rootK τ A (k + 1)) (2 ^ (k + 1) - 1) = (rootK τ A (k + 1))⁻¹ :=
    rootK_pow_pred τ A (k + 1) hτ hk
  rw [he]
  exact permute_powerSeries τ A _ k (by omega)

theorem vw_map (a : Array M) (f : M → M) (m : Nat) (hm : m < a.size) : vw (a.map f) m = f (vw a m) := by
  rw [vw_of_lt _ _ (by simpa using hm), vw_of_lt _ _ hm]
  simp

/-- the core of both interpolation functions: transform with the inverse twiddles, then `permute` -/
theorem invTransform_spec (τ : F) (A k : Nat) (hτ : IsPrimitiveRoot τ (2 ^ A)) (hk : k + 1 ≤ A)
    (hk32 : k + 1 ≤ 31) (maxLoop : Nat) (v : Array M) (hv : v.size = 2 ^ (k + 1)) (itw : Array F)
    (hts : itw.size = 2 ^ k) (htv : ∀ i, i < 2 ^ k → twf itw i = (rootK τ A (k + 1))⁻¹ ^ brev k i) :
    ∃ b, fftTop (modOps F M) maxLoop itw v = some b ∧ b.size = 2 ^ (k + 1) ∧
      ∀ m, m < 2 ^ (k + 1) → vw b m = dft (rootK τ A (k + 1))⁻¹ (2 ^ (k + 1)) (vw v) (brev (k + 1) m) := by
  obtain ⟨b, eb, hbs, hbv⟩ := fftTop_spec (modOps F M) maxLoop itw k v hv (by omega)
  refine ⟨b, eb, by rw [hbs, hv], ?_⟩
  intro m hm
  rw [hbv m hm]
  have hTw : TwOk (twf itw) (rootK τ A (k + 1))⁻¹ (k + 1) := by
    intro i _ hi
    simp only [Nat.add_sub_cancel] at hi ⊢
    exact htv i hi
  apply fftRec_eq_dft (k + 1) _ (twf itw) (vw v) _ hTw m hm
  intro _
  have := rootK_half τ A (k + 1) hk (by omega) hτ
  simp only [Nat.add_sub_cancel] at this ⊢
  rw [inv_pow, this]
  norm_num

/-- `interpolate_poly`: coefficient `l` of the result is `n⁻¹ •` the transform with the inverse root -/
theorem interpolatePoly_spec (τ : F) (A k : Nat) (hτ : IsPrimitiveRoot τ (2 ^ A)) (hk : k + 1 ≤ A)
    (hk32 : k + 1 ≤ 31) (maxLoop : Nat) (v : Array M) (hv : v.size = 2 ^ (k + 1)) (itw : Array F)
    (hitw : getInvTwiddles (fieldOps F τ A) (2 ^ (k + 1)) = some itw) :
    ∃ r, interpolatePoly (modOps F M) (fieldOps F τ A) maxLoop v itw = some r ∧ r.size = 2 ^ (k + 1) ∧
      ∀ l, l < 2 ^ (k + 1) →
        vw r l = ((2 ^ (k + 1) : Nat) : F)⁻¹ • dft (rootK τ A (k + 1))⁻¹ (2 ^ (k + 1)) (vw v) l := by
  obtain ⟨tw', e', hts, htv⟩ := getInvTwiddles_spec (F := F) τ A k hτ hk hk32
  rw [hitw] at e'
  obtain rfl : itw = tw' := Option.some.inj e'
  unfold interpolatePoly
  rw [hv, checkDomain_fieldOps τ A (k + 1) hk]
  have c2 : ¬ (2 ^ (k + 1) ≠ itw.size * 2) := by rw [hts, Nat.pow_succ]; simp
  have hlt : 2 ^ (k + 1) < 4294967296 := by
    have : (2 : Nat) ^ (k + 1) < 2 ^ 32 := Nat.pow_lt_pow_right (by decide) (by omega)
    simpa using this
  have c3 : ¬ (2 ^ (k + 1) > 4294967295) := by omega
  have hinv : (fieldOps F τ A).inv ((fieldOps F τ A).ofNat (2 ^ (k + 1))) = some (((2 ^ (k + 1) : Nat) : F)⁻¹) := rfl
  simp only [c2, c3, ↓reduceIte, hinv]
  obtain ⟨b, eb, hbs, hbv⟩ := invTransform_spec (M := M) τ A k hτ hk hk32 maxLoop v hv itw hts htv
  rw [eb, Option.bind_some]
  have hss : (shiftBy (modOps F M) b ((2 ^ (k + 1) : Nat) : F)⁻¹).size = 2 ^ (k + 1) := by
    simp [shiftBy, hbs]
  obtain ⟨r, er, hrs, hrv⟩ := permute_spec (k + 1) (by omega) _ hss
  refine ⟨r, er, by rw [hrs, hss], ?_⟩
  intro l hl
  have h1 := hrv l (by rw [hss]; exact hl)
  rw [vw_eq_getElem?, h1, ← vw_eq_getElem?]
  unfold shiftBy
  rw [vw_map _ _ _ (by rw [hbs]; exact brev_lt _ _), hbv _ (brev_lt _ _), brev_brev _ _ hl]
  rfl

theorem two_pow_cast_ne_zero (τ : F) (A k : Nat) (hτ : IsPrimitiveRoot τ (2 ^ A)) (hk : k + 1 ≤ A) :
    ((2 ^ (k + 1) : Nat) : F) ≠ 0 := by
  have hhalf := rootK_half τ A (k + 1) hk (by omega) hτ
  simp only [Nat.add_sub_cancel] at hhalf
  have hprim := rootK_primitive τ A (k + 1) hτ (by omega)
  have hne : (-1 : F) ≠ 1 := by
    intro h
    rw [h] at hhalf
    have := (hprim.pow_eq_one_iff_dvd _).mp hhalf
    have hlt : 2 ^ k < 2 ^ (k + 1) := Nat.pow_lt_pow_right (by decide) (by omega)
    have := Nat.le_of_dvd (Nat.pow_pos (by decide)) this
    omega
  have h2 : (2 : F) ≠ 0 := by
    intro h
    apply hne
    have : (1 : F) + 1 = 0 := by rw [one_add_one_eq_two]; exact h
    exact (eq_neg_of_add_eq_zero_left this).symm
  rw [Nat.cast_pow]
  exact pow_ne_zero _ (by simpa using h2)

theorem dft_congr (ω : F) (n : Nat) (x y : Nat → M) (h : ∀ j, j < n → x j = y j) (i : Nat) :
    dft ω n x i = dft ω n y i := by
  unfold dft evalAt
  exact sum_congr rfl (fun j hj => by rw [h j (mem_range.mp hj)])

/-- (e) interpolation inverts evaluation: if the values are the evaluations of `p` over `ω^i`, the result is `p` -/
theorem interpolatePoly_of_evals (τ : F) (A k : Nat) (hτ : IsPrimitiveRoot τ (2 ^ A)) (hk : k + 1 ≤ A)
    (hk32 : k + 1 ≤ 31) (maxLoop : Nat) (v : Array M) (hv : v.size = 2 ^ (k + 1)) (itw : Array F)
    (hitw : getInvTwiddles (fieldOps F τ A) (2 ^ (k + 1)) = some itw) (p : Nat → M)
    (hev : ∀ i, i < 2 ^ (k + 1) → vw v i = evalAt (2 ^ (k + 1)) p (rootK τ A (k + 1) ^ i)) :
    ∃ r, interpolatePoly (modOps F M) (fieldOps F τ A) maxLoop v itw = some r ∧ r.size = 2 ^ (k + 1) ∧
      ∀ l, l < 2 ^ (k + 1) → vw r l = p l := by
  obtain ⟨r, er, hrs, hrv⟩ := interpolatePoly_spec (M := M) τ A k hτ hk hk32 maxLoop v hv itw hitw
  refine ⟨r, er, hrs, ?_⟩
  intro l hl
  rw [hrv l hl, dft_congr _ _ (vw v) (dft (rootK τ A (k + 1)) (2 ^ (k + 1)) p) (fun j hj => hev j hj),
    dft_inv _ _ (rootK_primitive τ A (k + 1) hτ hk) p l hl, smul_smul,
    inv_mul_cancel₀ (two_pow_cast_ne_zero τ A k hτ hk), one_smul]

/-- (e) the interpolant passes through the given values: evaluating the result at `ω^i` gives value `i` back -/
theorem interpolatePoly_through (τ : F) (A k : Nat) (hτ : IsPrimitiveRoot τ (2 ^ A)) (hk : k + 1 ≤ A)
    (hk32 : k + 1 ≤ 31) (maxLoop : Nat) (v : Array M) (hv : v.size = 2 ^ (k + 1)) (itw : Array F)
    (hitw : getInvTwiddles (fieldOps F τ A) (2 ^ (k + 1)) = some itw) :
    ∃ r, interpolatePoly (modOps F M) (fieldOps F τ A) maxLoop v itw = some r ∧ r.size = 2 ^ (k + 1) ∧
      ∀ i, i < 2 ^ (k + 1) → evalAt (2 ^ (k + 1)) (vw r) (rootK τ A (k + 1) ^ i) = vw v i := by
  obtain ⟨r, er, hrs, hrv⟩ := interpolatePoly_spec (M := M) τ A k hτ hk hk32 maxLoop v hv itw hitw
  refine ⟨r, er, hrs, ?_⟩
  intro i hi
  set n := 2 ^ (k + 1) with hn
  set ω := rootK τ A (k + 1) with hω
  have h1 : evalAt n (vw r) (ω ^ i) = dft ω n (fun l => ((n : Nat) : F)⁻¹ • dft ω⁻¹ n (vw v) l) i :=
    dft_congr ω n _ _ (fun l hl => hrv l hl) i
  rw [h1]
  have h2 : dft ω n (fun l => ((n : Nat) : F)⁻¹ • dft ω⁻¹ n (vw v) l) i
      = ((n : Nat) : F)⁻¹ • dft ω n (dft ω⁻¹ n (vw v)) i := by
    unfold dft evalAt
    rw [smul_sum]
    exact sum_congr rfl (fun j _ => by rw [smul_comm])
  rw [h2, dft_inv' ω n (rootK_primitive τ A (k + 1) hτ hk) (vw v) i hi, smul_smul,
    inv_mul_cancel₀ (two_pow_cast_ne_zero τ A k hτ hk), one_smul]

/-- `interpolate_poly_with_offset`: coefficient `l` is `(n⁻¹ · off⁻ˡ) •` the transform with the inverse root -/
theorem interpolatePolyWithOffset_spec (τ : F) (A k : Nat) (hτ : IsPrimitiveRoot τ (2 ^ A)) (hk : k + 1 ≤ A)
    (hk32 : k + 1 ≤ 31) (maxLoop : Nat) (v : Array M) (hv : v.size = 2 ^ (k + 1)) (itw : Array F)
    (hitw : getInvTwiddles (fieldOps F τ A) (2 ^ (k + 1)) = some itw) (off : F) (hoff : off ≠ 0) :
    ∃ r, interpolatePolyWithOffset (modOps F M) (fieldOps F τ A) maxLoop v itw off = some r ∧
      r.size = 2 ^ (k + 1) ∧
      ∀ l, l < 2 ^ (k + 1) →
        vw r l = (((2 ^ (k + 1) : Nat) : F)⁻¹ * off⁻¹ ^ l) • dft (rootK τ A (k + 1))⁻¹ (2 ^ (k + 1)) (vw v) l := by
  obtain ⟨tw', e', hts, htv⟩ := getInvTwiddles_spec (F := F) τ A k hτ hk hk32
  rw [hitw] at e'
  obtain rfl : itw = tw' := Option.some.inj e'
  unfold interpolatePolyWithOffset
  rw [hv, checkDomain_fieldOps τ A (k + 1) hk]
  have c2 : ¬ (2 ^ (k + 1) ≠ itw.size * 2) := by rw [hts, Nat.pow_succ]; simp
  have hlt : 2 ^ (k + 1) < 4294967296 := by
    have : (2 : Nat) ^ (k + 1) < 2 ^ 32 := Nat.pow_lt_pow_right (by decide) (by omega)
    simpa using this
  have c3 : ¬ (2 ^ (k + 1) > 4294967295) := by omega
  simp only [c2, c3, ↓reduceIte, isZero_fieldOps τ A off hoff, Bool.false_eq_true]
  obtain ⟨b, eb, hbs, hbv⟩ := invTransform_spec (M := M) τ A k hτ hk hk32 maxLoop v hv itw hts htv
  rw [eb, Option.bind_some]
  obtain ⟨c, ec, hcs, hcv⟩ := permute_spec (k + 1) (by omega) b hbs
  rw [ec, Option.bind_some]
  have hinv1 : (fieldOps F τ A).inv off = some off⁻¹ := rfl
  have hinv2 : (fieldOps F τ A).inv ((fieldOps F τ A).ofNat (2 ^ (k + 1))) = some (((2 ^ (k + 1) : Nat) : F)⁻¹) := rfl
  simp only [hinv1, hinv2]
  obtain ⟨hss, hsv⟩ := shiftBySeries_spec (M := M) τ A c (((2 ^ (k + 1) : Nat) : F)⁻¹) off⁻¹
  refine ⟨_, rfl, by rw [hss, hcs, hbs], ?_⟩
  intro l hl
  rw [hsv l (by rw [hcs, hbs]; exact hl)]
  have h1 := hcv l (by rw [hbs]; exact hl)
  rw [vw_eq_getElem? c, h1, ← vw_eq_getElem?, hbv _ (brev_lt _ _), brev_brev _ _ hl]

/-- interpolation over a coset inverts evaluation over that coset -/
theorem interpolatePolyWithOffset_of_evals (τ : F) (A k : Nat) (hτ : IsPrimitiveRoot τ (2 ^ A))
    (hk : k + 1 ≤ A) (hk32 : k + 1 ≤ 31) (maxLoop : Nat) (v : Array M) (hv : v.size = 2 ^ (k + 1))
    (itw : Array F) (hitw : getInvTwiddles (fieldOps F τ A) (2 ^ (k + 1)) = some itw) (off : F) (hoff : off ≠ 0)
    (p : Nat → M)
    (hev : ∀ i, i < 2 ^ (k + 1) → vw v i = evalAt (2 ^ (k + 1)) p (off * rootK τ A (k + 1) ^ i)) :
    ∃ r, interpolatePolyWithOffset (modOps F M) (fieldOps F τ A) maxLoop v itw off = some r ∧
      r.size = 2 ^ (k + 1) ∧ ∀ l, l < 2 ^ (k + 1) → vw r l = p l := by
  obtain ⟨r, er, hrs, hrv⟩ := interpolatePolyWithOffset_spec (M := M) τ A k hτ hk hk32 maxLoop v hv itw hitw off hoff
  refine ⟨r, er, hrs, ?_⟩
  intro l hl
  rw [hrv l hl]
  set n := 2 ^ (k + 1) with hn
  set ω := rootK τ A (k + 1) with hω
  -- the values are the plain transform of the coefficients scaled by powers of the offset
  have hsh : ∀ i, i < n → vw v i = dft ω n (fun j => (1 * off ^ j) • p j) i := by
    intro i hi
    rw [hev i hi, mul_comm off]
    exact (evalAt_shift n p _ off (ω ^ i) (fun j _ => rfl)).symm
  rw [dft_congr _ _ (vw v) _ hsh, dft_inv ω n (rootK_primitive τ A (k + 1) hτ hk) _ l hl, smul_smul, smul_smul]
  have : ((n : Nat) : F)⁻¹ * off⁻¹ ^ l * (n : Nat) * (1 * off ^ l) = 1 := by
    have hn0 : ((n : Nat) : F) ≠ 0 := two_pow_cast_ne_zero τ A k hτ hk
    have ho : off ^ l ≠ 0 := pow_ne_zero _ hoff
    rw [inv_pow]
    field_simp
  rw [this, one_smul]

/-! ### degree inference -/

/-- the loop of `degree_of` over the first `m` coefficients: the result is 0 or the index of a non-zero
    coefficient, and every later coefficient (below `m`) is zero -/
theorem degreeOf_loop (p : Array M) (m : Nat) (hm : m ≤ p.size) :
    let D := (List.range m).foldl (fun d i => match p[i]? with
      | some x => if (modOps F M).isZero x then d else i
      | none => d) 0
    (D = 0 ∨ (D < m ∧ vw p D ≠ 0)) ∧ ∀ j, D < j → j < m → vw p j = 0 := by
  induction m with
  | zero => simp
  | succ m ih =>
    have ih := ih (by omega)
    simp only [List.range_succ, List.foldl_append, List.foldl_cons, List.foldl_nil]
    set D := (List.range m).foldl (fun d i => match p[i]? with
      | some x => if (modOps F M).isZero x then d else i
      | none => d) 0 with hD
    have hpm : p[m]? = some (vw p m) := by
      rw [vw_of_lt p m (by omega)]; exact Array.getElem?_eq_getElem (by omega)
    rw [hpm]
    simp only
    by_cases hz : vw p m = 0
    · have : (modOps F M).isZero (vw p m) = true := by simp [modOps, hz]
      rw [this]
      simp only [↓reduceIte]
      obtain ⟨h1, h2⟩ := ih
      refine ⟨?_, ?_⟩
      · rcases h1 with h1 | h1
        · left; exact h1
        · right; exact ⟨by omega, h1.2⟩
      · intro j hj1 hj2
        by_cases hjm : j = m
        · rw [hjm]; exact hz
        · exact h2 j hj1 (by omega)
    · have : (modOps F M).isZero (vw p m) = false := by simp [modOps, hz]
      rw [this]
      simp only [Bool.false_eq_true, ↓reduceIte]
      refine ⟨?_, ?_⟩
      · right; exact ⟨by omega, hz⟩
      · intro j hj1 hj2; omega

/-- `degree_of` returns the index of the last non-zero coefficient -/
theorem degreeOf_eq (p : Array M) (d : Nat) (hd : d < p.size) (hnz : vw p d ≠ 0)
    (hz : ∀ j, d < j → j < p.size → vw p j = 0) : degreeOf (modOps F M) p = d := by
  obtain ⟨h1, h2⟩ := degreeOf_loop (F := F) p p.size (Nat.le_refl _)
  unfold degreeOf
  set D := (List.range p.size).foldl (fun d i => match p[i]? with
      | some x => if (modOps F M).isZero x then d else i
      | none => d) 0 with hD
  rcases Nat.lt_trichotomy D d with h | h | h
  · exact absurd (h2 d h hd) hnz
  · exact h
  · rcases h1 with h1 | h1
    · omega
    · exact absurd (hz D h h1.1) h1.2

/-- … and 0 for the zero polynomial -/
theorem degreeOf_zero (p : Array M) (hz : ∀ j, j < p.size → vw p j = 0) : degreeOf (modOps F M) p = 0 := by
  obtain ⟨h1, _⟩ := degreeOf_loop (F := F) p p.size (Nat.le_refl _)
  unfold degreeOf
  rcases h1 with h1 | h1
  · exact h1
  · exact absurd (hz _ h1.1) h1.2

/-- (g) `infer_degree` of the evaluations of `p` over the coset `off · ω^i` is the true degree of `p`:
    the index `d` of its last non-zero coefficient -/
theorem inferDegree_spec (τ : F) (A k : Nat) (hτ : IsPrimitiveRoot τ (2 ^ A)) (hk : k + 1 ≤ A)
    (hk32 : k + 1 ≤ 31) (maxLoop : Nat) (v : Array M) (hv : v.size = 2 ^ (k + 1)) (off : F) (hoff : off ≠ 0)
    (p : Nat → M)
    (hev : ∀ i, i < 2 ^ (k + 1) → vw v i = evalAt (2 ^ (k + 1)) p (off * rootK τ A (k + 1) ^ i))
    (d : Nat) (hd : d < 2 ^ (k + 1)) (hnz : p d ≠ 0) (hz : ∀ j, d < j → j < 2 ^ (k + 1) → p j = 0) :
    inferDegree (modOps F M) (fieldOps F τ A) maxLoop v off = some d := by
  obtain ⟨itw, hitw, _, _⟩ := getInvTwiddles_spec (F := F) τ A k hτ hk hk32
  obtain ⟨r, er, hrs, hrv⟩ := interpolatePolyWithOffset_of_evals (M := M) τ A k hτ hk hk32 maxLoop v hv itw hitw
    off hoff p hev
  unfold inferDegree
  rw [hv, checkDomain_fieldOps τ A (k + 1) hk]
  simp only [isZero_fieldOps τ A off hoff, Bool.false_eq_true, ↓reduceIte, hitw, er, Option.map_some,
    Option.some.injEq]
  apply degreeOf_eq (F := F) r d (by rw [hrs]; exact hd)
  · rw [hrv d hd]; exact hnz
  · intro j hj1 hj2
    rw [hrs] at hj2
    rw [hrv j hj2]; exact hz j hj1 hj2

/-- (g) … and 0 for the zero polynomial -/
theorem inferDegree_zero (τ : F) (A k : Nat) (hτ : IsPrimitiveRoot τ (2 ^ A)) (hk : k + 1 ≤ A)
    (hk32 : k + 1 ≤ 31) (maxLoop : Nat) (v : Array M) (hv : v.size = 2 ^ (k + 1)) (off : F) (hoff : off ≠ 0)
    (hev : ∀ i, i < 2 ^ (k + 1) → vw v i = 0) :
    inferDegree (modOps F M) (fieldOps F τ A) maxLoop v off = some 0 := by
  obtain ⟨itw, hitw, _, _⟩ := getInvTwiddles_spec (F := F) τ A k hτ hk hk32
  have hev' : ∀ i, i < 2 ^ (k + 1) →
      vw v i = evalAt (2 ^ (k + 1)) (fun _ => (0 : M)) (off * rootK τ A (k + 1) ^ i) := by
    intro i hi; rw [hev i hi]; simp [evalAt]
  obtain ⟨r, er, hrs, hrv⟩ := interpolatePolyWithOffset_of_evals (M := M) τ A k hτ hk hk32 maxLoop v hv itw hitw
    off hoff (fun _ => 0) hev'
  unfold inferDegree
  rw [hv, checkDomain_fieldOps τ A (k + 1) hk]
  simp only [isZero_fieldOps τ A off hoff, Bool.false_eq_true, ↓reduceIte, hitw, er, Option.map_some,
    Option.some.injEq]
  apply degreeOf_zero (F := F) r
  intro j hj
  rw [hrs] at hj
  exact hrv j hj

end field

end WinterProofs.C09
