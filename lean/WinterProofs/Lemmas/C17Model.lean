-- C17, model side: what `prep` delivers, the grouped evaluation of boundary constraints equals the
-- per-assertion sum, and the verifier's expression equals the definition over a Mathlib field.
import WinterProofs.Lemmas.C17Basic
import WinterProofs.Lemmas.C16Prep

namespace WinterProofs.C17L
open Model.Divisor Model.Composition WinterProofs.C16L

section Generic
variable {α : Type}

/-- assertions with the same `(stride, first step)` key have the same number of steps (hence the
    same divisor): what `group_constraints` relies on -/
def KeyDet (n : ℕ) (S : List (BC α)) : Prop :=
  ∀ a ∈ S, ∀ b ∈ S, a.a.stride = b.a.stride → a.a.first = b.a.first → numSteps a.a n = numSteps b.a n

theorem resOpt_eq_some {β : Type} {r : Res β} {b : β} (h : resOpt r = some b) : r = .ok b := by
  cases r with
  | ok x => simp only [resOpt, Option.some.injEq] at h; rw [h]
  | panic s => simp [resOpt] at h

theorem prep_spec {O : Ops α} {air : Air α} {P : Prep α} (h : prep O air = some P) :
    O.root (Nat.log2 air.n) = some P.g ∧ O.div O.one P.g = some P.invG ∧
    air.periodic.mapM (interpolate O) = some P.perPolys ∧
    ∃ ms as, prepareAssertions air.mainAsserts air.mainWidth air.n = .ok ms ∧
      prepareAssertions air.auxAsserts air.auxWidth air.n = .ok as ∧
      ms.mapM (mkBC O P.invG) = some P.main ∧ as.mapM (mkBC O P.invG) = some P.aux := by
  unfold prep at h
  simp only [bind, Option.bind_eq_some_iff, pure, Option.some.injEq] at h
  obtain ⟨g, hg, invG, hi, pp, hpp, ms, hms, as, has, mc, hmc, ac, hac, rfl⟩ := h
  exact ⟨hg, hi, hpp, ms, as, resOpt_eq_some hms, resOpt_eq_some has, hmc, hac⟩

theorem mapM_mem {β γ : Type} (f : β → Option γ) : ∀ (l : List β) (r : List γ), l.mapM f = some r →
    ∀ y ∈ r, ∃ x ∈ l, f x = some y := by
  intro l
  induction l with
  | nil => intro r h y hy; simp at h; subst h; cases hy
  | cons a l ih =>
    intro r h y hy
    simp only [List.mapM_cons, bind, Option.bind_eq_some_iff, pure, Option.some.injEq] at h
    obtain ⟨b, hb, bs, hbs, rfl⟩ := h
    rcases List.mem_cons.mp hy with rfl | hy
    · exact ⟨a, List.mem_cons_self, hb⟩
    · obtain ⟨x, hx, hfx⟩ := ih bs hbs y hy
      exact ⟨x, List.mem_cons_of_mem _ hx, hfx⟩

/-- for a validated assertion the number of steps is a function of the stride -/
theorem numSteps_of_valid {a : Assertion α} {n : ℕ} (h : a.validateTraceLength n = .ok ()) :
    numSteps a n = if a.stride = 0 then 1 else n / a.stride := by
  obtain ⟨_, hf⟩ := (validateTraceLength_ok_iff a n).mp h
  unfold FitsLen at hf
  unfold numSteps Assertion.isSingle Assertion.isPeriodic
  by_cases h0 : a.stride = 0
  · simp [h0]
  · have hb : (a.stride == 0) = false := by simpa using h0
    have hb' : (a.stride != 0) = true := by simpa using h0
    simp only [h0, if_false] at hf
    simp only [hb, hb', h0, if_false, Bool.false_eq_true, Bool.true_and]
    by_cases h1 : a.values.length = 1
    · simp [h1]
    · have hb1 : (a.values.length == 1) = false := by simpa using h1
      simp only [h1, if_false] at hf
      simp only [hb1, Bool.false_eq_true, if_false]
      rw [← hf, Nat.mul_div_cancel _ (Nat.pos_of_ne_zero h0)]

theorem mkBC_a {O : Ops α} {invG : α} {a : Assertion α} {bc : BC α} (h : mkBC O invG a = some bc) : bc.a = a := by
  unfold mkBC at h
  simp only [Option.map_eq_some_iff] at h
  obtain ⟨c, _, rfl⟩ := h
  rfl

theorem keyDet_of_prepared {O : Ops α} {invG : α} {as ms : List (Assertion α)} {w n : ℕ} {l : List (BC α)}
    (hp : prepareAssertions as w n = .ok ms) (hl : ms.mapM (mkBC O invG) = some l) : KeyDet n l := by
  have hmem := foldl_prepStep_mem as w n [] ms (by rw [← prepareAssertions_eq]; exact hp)
  have hval := ((foldl_prepStep_ok_iff as w n []).mp ⟨ms, by rw [← prepareAssertions_eq]; exact hp⟩).1
  have hv : ∀ bc ∈ l, bc.a.validateTraceLength n = .ok () := by
    intro bc hbc
    obtain ⟨a, ha, hfa⟩ := mapM_mem _ ms l hl bc hbc
    rw [mkBC_a hfa]
    have : a ∈ as := by
      rcases (hmem a).mp ha with h | h
      · cases h
      · exact h
    exact (hval a this).2
  intro a ha b hb hs _
  rw [numSteps_of_valid (hv a ha), numSteps_of_valid (hv b hb), hs]

/-- the instantiation `prep` yields assertion lists on which grouping by key is sound -/
theorem prep_keyDet {O : Ops α} {air : Air α} {P : Prep α} (h : prep O air = some P) :
    KeyDet air.n P.main ∧ KeyDet air.n P.aux := by
  obtain ⟨_, _, _, ms, as, h1, h2, h3, h4⟩ := prep_spec h
  exact ⟨keyDet_of_prepared h1 h3, keyDet_of_prepared h2 h4⟩

end Generic

variable {F : Type} [Field F]

section
variable (root : ℕ → Option F)
local notation "O" => fieldOps F root

theorem div_eq (a b : F) : (O).div a b = some (a / b) := rfl

theorem sumTerms_some {β : Type} (f : β → Option F) (g : β → F) (l : List β) (h : ∀ b ∈ l, f b = some (g b)) :
    sumTerms (O) f l = some ((l.map g).sum) := by
  induction l with
  | nil => rfl
  | cons b bs ih =>
    have hb := h b (List.mem_cons_self)
    have ih' := ih (fun c hc => h c (List.mem_cons_of_mem _ hc))
    simp only [sumTerms, hb, ih', List.map_cons, List.sum_cons]
    rfl

theorem combine_eq_sum (coefs vals : List F) :
    combine (O) coefs vals = ((coefs.zip vals).map (fun p => p.1 * p.2)).sum := by
  unfold combine
  have : ∀ (l : List (F × F)) (a : F),
      l.foldl (fun acc p => (O).add acc ((O).mul p.1 p.2)) a = a + (l.map (fun p => p.1 * p.2)).sum := by
    intro l
    induction l with
    | nil => intro a; simp
    | cons p l ih => intro a; simp only [List.foldl_cons, ih, List.map_cons, List.sum_cons]; show a + p.1 * p.2 + _ = _; ring
  rw [this]; show (0 : F) + _ = _; rw [zero_add]

theorem combine_append (a b u v : List F) (h : a.length = u.length) :
    combine (O) (a ++ b) (u ++ v) = combine (O) a u + combine (O) b v := by
  rw [combine_eq_sum, combine_eq_sum, combine_eq_sum, List.zip_append h, List.map_append, List.sum_append]

theorem combine_nil_left (v : List F) : combine (O) [] v = 0 := by
  rw [combine_eq_sum]; simp

theorem transitionDivisor_evalAt (g : F) (n e : ℕ) (he : e ≤ n) (x : F) :
    (transitionDivisor (O) g n e).evalAt (O) x =
      some ((x ^ n - 1) / ∏ k ∈ Finset.Ico (n - e) n, (x - g ^ k)) := by
  unfold transitionDivisor Divisor.evalAt
  have h1 := evalNumerator_single root n 1 x ((List.range' (n - e) e).map (fun k => g ^ k))
  have h2 := evalExemptions_eq root [(n, (1 : F))] g x (n - e) e
  rw [Nat.sub_add_cancel he] at h2
  show (O).div (Divisor.evalNumerator (O) ⟨[(n, 1)], (List.range' (n - e) e).map (fun k => g ^ k)⟩ x)
    (Divisor.evalExemptions (O) ⟨[(n, 1)], (List.range' (n - e) e).map (fun k => g ^ k)⟩ x) = _
  rw [h1, h2]; rfl

/-- value of `x^k − c` for an assertion divisor -/
def adiv (g : F) (a : Assertion F) (n : ℕ) (x : F) : F :=
  x ^ numSteps a n - (if a.first = 0 then 1 else g ^ (numSteps a n * a.first))

theorem assertionDivisor_evalAt (g : F) (a : Assertion F) (n : ℕ) (x : F) :
    (assertionDivisor (O) g a n).evalAt (O) x = some (adiv g a n x) := by
  unfold assertionDivisor Divisor.evalAt adiv
  simp only [Divisor.evalNumerator, Divisor.evalExemptions, List.foldl_cons, List.foldl_nil]
  show some ((1 * (x ^ numSteps a n - _)) / 1) = _
  rw [one_mul, div_one]
  split <;> rfl
def itemVal (state : ℕ → F) (x : F) (p : BConstraint F × F) : F :=
  p.1.evalAt (O) x (state p.1.column) * p.2

def zval (d : Divisor F) (x : F) : F := d.evalNumerator (O) x / d.evalExemptions (O) x

theorem foldl_items (state : ℕ → F) (x : F) (items : List (BConstraint F × F)) (a : F) :
    items.foldl (fun num p => (O).add num ((O).mul (p.1.evalAt (O) x (state p.1.column)) p.2)) a
      = a + (items.map (itemVal root state x)).sum := by
  induction items generalizing a with
  | nil => simp
  | cons p l ih =>
    simp only [List.foldl_cons, ih, List.map_cons, List.sum_cons]
    show a + p.1.evalAt (O) x (state p.1.column) * p.2 + _ = a + (itemVal root state x p + _)
    unfold itemVal; ring

theorem BGroup_evalAt (grp : BGroup F) (state : ℕ → F) (x : F) :
    grp.evalAt (O) state x = some ((grp.items.map (itemVal root state x)).sum / zval root grp.divisor x) := by
  unfold BGroup.evalAt Divisor.evalAt
  show (some (_ / _) >>= fun z => (O).div _ z) = _
  rw [foldl_items]
  show some ((0 + _) / _) = _
  rw [zero_add]; rfl

def gsum (state : ℕ → F) (x : F) (gs : List (BGroup F)) : F :=
  (gs.map (fun grp => (grp.items.map (itemVal root state x)).sum / zval root grp.divisor x)).sum

def GInv (g : F) (n : ℕ) (S : List (BC F)) (gs : List (BGroup F)) : Prop :=
  ∀ grp ∈ gs, ∀ bc ∈ S, grp.stride = bc.a.stride → grp.first = bc.a.first →
    grp.divisor = assertionDivisor (O) g bc.a n

theorem assertionDivisor_congr (g : F) (n : ℕ) (a b : Assertion F) (h1 : numSteps a n = numSteps b n)
    (h2 : a.first = b.first) : assertionDivisor (O) g a n = assertionDivisor (O) g b n := by
  unfold assertionDivisor; rw [h1, h2]

theorem insert_gsum (g : F) (n : ℕ) (S : List (BC F)) (state : ℕ → F) (x : F) (bc : BC F) (cc : F)
    (gs : List (BGroup F)) (hinv : GInv root g n S gs) (hbc : bc ∈ S) :
    gsum root state x (insertGroup (O) g n bc cc gs)
      = gsum root state x gs + itemVal root state x (bc.c, cc) / zval root (assertionDivisor (O) g bc.a n) x := by
  induction gs with
  | nil => simp [insertGroup, gsum]
  | cons grp rest ih =>
    unfold insertGroup
    by_cases hkey : (grp.stride == bc.a.stride && grp.first == bc.a.first) = true
    · rw [if_pos hkey]
      simp only [Bool.and_eq_true, beq_iff_eq] at hkey
      have hd := hinv grp (List.mem_cons_self) bc hbc hkey.1 hkey.2
      simp only [gsum, List.map_cons, List.sum_cons, List.map_append, List.sum_append, List.map_nil, List.sum_nil,
        add_zero]
      rw [← hd, add_div]; ring
    · rw [if_neg hkey]
      have hinv' : GInv root g n S rest := fun grp' h' => hinv grp' (List.mem_cons_of_mem _ h')
      have := ih hinv'
      simp only [gsum, List.map_cons, List.sum_cons] at this ⊢
      rw [this]; ring

theorem insert_inv (g : F) (n : ℕ) (S : List (BC F)) (bc : BC F) (cc : F) (gs : List (BGroup F))
    (hk : KeyDet n S) (hinv : GInv root g n S gs) (hbc : bc ∈ S) :
    GInv root g n S (insertGroup (O) g n bc cc gs) := by
  induction gs with
  | nil =>
    intro grp hg b hb h1 h2
    simp only [insertGroup, List.mem_singleton] at hg
    subst hg
    exact assertionDivisor_congr root g n _ _ (hk bc hbc b hb h1 h2) h2
  | cons grp rest ih =>
    unfold insertGroup
    have hinv' : GInv root g n S rest := fun grp' h' => hinv grp' (List.mem_cons_of_mem _ h')
    by_cases hkey : (grp.stride == bc.a.stride && grp.first == bc.a.first) = true
    · rw [if_pos hkey]
      intro grp' hg b hb h1 h2
      rcases List.mem_cons.mp hg with rfl | hg
      · exact hinv grp (List.mem_cons_self) b hb h1 h2
      · exact hinv' grp' hg b hb h1 h2
    · rw [if_neg hkey]
      intro grp' hg b hb h1 h2
      rcases List.mem_cons.mp hg with rfl | hg
      · exact hinv grp' (List.mem_cons_self) b hb h1 h2
      · exact ih hinv' grp' hg b hb h1 h2

theorem group_sum (g : F) (n : ℕ) (S : List (BC F)) (state : ℕ → F) (x : F) (hk : KeyDet n S)
    (l : List (BC F × F)) (gs : List (BGroup F)) (hS : ∀ p ∈ l, p.1 ∈ S) (hinv : GInv root g n S gs) :
    gsum root state x (l.foldl (fun gs p => insertGroup (O) g n p.1 p.2 gs) gs)
      = gsum root state x gs +
        (l.map (fun p => itemVal root state x (p.1.c, p.2) / zval root (assertionDivisor (O) g p.1.a n) x)).sum := by
  induction l generalizing gs with
  | nil => simp
  | cons p l ih =>
    have hp := hS p (List.mem_cons_self)
    rw [List.foldl_cons, ih _ (fun q hq => hS q (List.mem_cons_of_mem _ hq))
      (insert_inv root g n S p.1 p.2 gs hk hinv hp), insert_gsum root g n S state x p.1 p.2 gs hinv hp]
    simp only [List.map_cons, List.sum_cons]; ring

theorem zval_assertionDivisor (g : F) (a : Assertion F) (n : ℕ) (x : F) :
    zval root (assertionDivisor (O) g a n) x = adiv g a n x := by
  have h := assertionDivisor_evalAt root g a n x
  unfold Divisor.evalAt at h
  exact Option.some.inj h

theorem boundaryTerm_eq (P : Prep F) (n : ℕ) (bc : BC F) (β t x : F) :
    boundaryTerm (O) P n bc β t x = some (bc.c.evalAt (O) x t * β / adiv P.g bc.a n x) := by
  unfold boundaryTerm
  rw [assertionDivisor_evalAt]
  rfl

theorem zip_take_left {α β : Type} (l : List α) (m : List β) : l.zip (m.take l.length) = l.zip m := by
  induction l generalizing m with
  | nil => simp
  | cons a l ih =>
    cases m with
    | nil => simp
    | cons b m => simp [ih]

theorem groups_sum_eq (g : F) (n : ℕ) (S : List (BC F)) (hk : KeyDet n S) (state : ℕ → F) (x : F)
    (l : List (BC F × F)) (hS : ∀ p ∈ l, p.1 ∈ S) :
    sumTerms (O) (fun grp => BGroup.evalAt (O) grp state x) (groupConstraintsCC (O) g n l)
      = some ((l.map (fun p => p.1.c.evalAt (O) x (state p.1.c.column) * p.2 / adiv g p.1.a n x)).sum) := by
  rw [sumTerms_some root _ (fun grp => (grp.items.map (itemVal root state x)).sum / zval root grp.divisor x) _
    (fun grp _ => BGroup_evalAt root grp state x)]
  have h := group_sum root g n S state x hk l [] hS (fun grp hg => by cases hg)
  unfold gsum at h
  unfold groupConstraintsCC
  rw [h]
  simp only [List.map_nil, List.sum_nil, zero_add, zval_assertionDivisor, itemVal]

theorem boundary_sum_eq (P : Prep F) (n : ℕ) (state : ℕ → F) (x : F) (l : List (BC F × F)) :
    sumTerms (O) (fun p => boundaryTerm (O) P n p.1 p.2 (state p.1.c.column) x) l
      = some ((l.map (fun p => p.1.c.evalAt (O) x (state p.1.c.column) * p.2 / adiv P.g p.1.a n x)).sum) :=
  sumTerms_some root _ _ _ (fun p _ => boundaryTerm_eq root P n p.1 p.2 _ x)

theorem verifier_eq_definition (air : Air F) (P : Prep F) (mainPolys auxPolys : ℕ → List F) (rands : ℕ → F)
    (tco bco : List F) (x : F) (he : air.e ≤ air.n) (hk1 : KeyDet air.n P.main) (hk2 : KeyDet air.n P.aux)
    (hlen : air.mainCons.length ≤ tco.length) :
    evaluateConstraints (O) air P (framesOf (O) mainPolys auxPolys P.g x) rands tco bco x
      = defAt (O) air P mainPolys auxPolys rands tco bco x := by
  unfold evaluateConstraints defAt
  simp only [transitionDivisor_evalAt root P.g air.n air.e he x]
  rw [groups_sum_eq root P.g air.n P.main hk1 _ x _ (fun p hp => (List.of_mem_zip hp).1),
    groups_sum_eq root P.g air.n P.aux hk2 _ x _ (fun p hp => (List.of_mem_zip hp).1),
    boundary_sum_eq, boundary_sum_eq, zip_take_left]
  -- the transition part: split of the coefficients at the number of main constraints
  have hsplit : combine (O) tco (List.map (fun c => Expr.eval (O)
        (mkEnv (O) (framesOf (O) mainPolys auxPolys P.g x) (periodicAt (O) air.n P.perPolys x) rands) c)
        (air.mainCons ++ air.auxCons))
      = combine (O) (tco.take air.mainCons.length) (air.mainCons.map (fun c => Expr.eval (O)
        (mkEnv (O) (framesOf (O) mainPolys auxPolys P.g x) (periodicAt (O) air.n P.perPolys x) rands) c))
        + combine (O) (tco.drop air.mainCons.length) (air.auxCons.map (fun c => Expr.eval (O)
        (mkEnv (O) (framesOf (O) mainPolys auxPolys P.g x) (periodicAt (O) air.n P.perPolys x) rands) c)) := by
    conv_lhs => rw [← List.take_append_drop air.mainCons.length tco, List.map_append]
    exact combine_append root _ _ _ _ (by rw [List.length_take, List.length_map, Nat.min_eq_left hlen])
  rw [hsplit]
  by_cases hac : (List.drop air.mainCons.length tco).isEmpty = true
  · rw [if_pos hac]
    have : List.drop air.mainCons.length tco = [] := List.isEmpty_iff.mp hac
    rw [this, combine_nil_left, add_zero]
  · rw [if_neg hac]
    rfl
end

end WinterProofs.C17L
