-- helper lemmas for C06: a Hoare-style logic for the allocation-counting decoders of Winter/Model/Parse.lean.
-- `Spec c k Q d`: on every well-formed byte string (all bytes < 256) the decoder `d` does not panic; what it
-- leaves unread is a suffix-length-bounded well-formed byte string; its result satisfies `Q`; and the heap bytes
-- it requests are at most `c` per byte consumed plus `k` (on failure: at most `c` per byte available plus `k`).
import Winter.Model.Parse
import WinterProofs.Lemmas.C12Basic

namespace WinterProofs.C06L
open Model Model.Serde Model.Parse
open WinterProofs.C12L (readSlice_eq)

def BytesOk (bs : Bytes) : Prop := ∀ b ∈ bs, b < 256

theorem BytesOk.nil : BytesOk [] := by intro b hb; cases hb

theorem BytesOk.tail {b : Nat} {bs : Bytes} (h : BytesOk (b :: bs)) : BytesOk bs :=
  fun x hx => h x (List.mem_cons_of_mem _ hx)

theorem BytesOk.head {b : Nat} {bs : Bytes} (h : BytesOk (b :: bs)) : b < 256 :=
  h b (List.mem_cons_self ..)

theorem BytesOk.take {bs : Bytes} (h : BytesOk bs) (n : Nat) : BytesOk (bs.take n) :=
  fun x hx => h x (List.mem_of_mem_take hx)

theorem BytesOk.drop {bs : Bytes} (h : BytesOk bs) (n : Nat) : BytesOk (bs.drop n) :=
  fun x hx => h x (List.mem_of_mem_drop hx)

/-- what `Spec` says about one run -/
def Post (c k : Nat) (Q : α → Prop) (bs : Bytes) (a : Nat) : Res (α × Bytes) × Nat → Prop
  | (.ok (x, rest), a') =>
    Q x ∧ BytesOk rest ∧ rest.length ≤ bs.length ∧ a' + c * rest.length ≤ a + c * bs.length + k
  | (.panic, _) => False
  | (.err, a') => a' ≤ a + c * bs.length + k
  | (.eof, a') => a' ≤ a + c * bs.length + k

/-- the specification of a decoder (see the head of the file) -/
def Spec (c k : Nat) (Q : α → Prop) (d : PDec α) : Prop :=
  ∀ bs a, BytesOk bs → Post c k Q bs a (d bs a)

@[simp] theorem pbind_apply (d : PDec α) (f : α → PDec β) (bs : Bytes) (a : Nat) :
    (d >>= f) bs a = match d bs a with
      | (.ok (x, r), a') => f x r a'
      | (.err, a') => (.err, a')
      | (.eof, a') => (.eof, a')
      | (.panic, a') => (.panic, a') := rfl

@[simp] theorem ppure_apply (x : α) (bs : Bytes) (a : Nat) : (pure x : PDec α) bs a = (.ok (x, bs), a) := rfl

theorem spec_pure {c : Nat} {Q : α → Prop} {x : α} (h : Q x) : Spec c 0 Q (pure x : PDec α) := by
  intro bs a hb
  simp only [ppure_apply, Post]
  exact ⟨h, hb, Nat.le_refl _, Nat.le_refl _⟩

theorem spec_weaken {c k k' : Nat} {Q Q' : α → Prop} {d : PDec α} (h : Spec c k Q d) (hk : k ≤ k')
    (hq : ∀ x, Q x → Q' x) : Spec c k' Q' d := by
  intro bs a hb
  have := h bs a hb
  generalize d bs a = r at this ⊢
  rcases r with ⟨⟨x, rest⟩ | _ | _ | _, a'⟩ <;> simp only [Post] at this ⊢
  · obtain ⟨h1, h2, h3, h4⟩ := this; exact ⟨hq x h1, h2, h3, by omega⟩
  · omega
  · omega

theorem spec_bind {c k1 k2 : Nat} {Q1 : α → Prop} {Q2 : β → Prop} {d : PDec α} {f : α → PDec β}
    (h1 : Spec c k1 Q1 d) (h2 : ∀ x, Q1 x → Spec c k2 Q2 (f x)) : Spec c (k1 + k2) Q2 (d >>= f) := by
  intro bs a hb
  have hd := h1 bs a hb
  simp only [pbind_apply]
  generalize d bs a = r at hd ⊢
  rcases r with ⟨⟨x, rest⟩ | _ | _ | _, a'⟩ <;> simp only [Post] at hd ⊢
  · obtain ⟨q1, ok1, len1, al1⟩ := hd
    have hf := h2 x q1 rest a' ok1
    generalize f x rest a' = r2 at hf ⊢
    rcases r2 with ⟨⟨y, rest2⟩ | _ | _ | _, a''⟩ <;> simp only [Post] at hf ⊢
    · obtain ⟨q2, ok2, len2, al2⟩ := hf
      exact ⟨q2, ok2, Nat.le_trans len2 len1, by omega⟩
    · omega
    · omega
  · omega
  · omega

-- ------------------------------------------------------------------------------------------------
-- ByteReader primitives (no allocation): what they return, and how many bytes they consume at least

def DPost (m : Nat) (Q : α → Prop) (bs : Bytes) : Res (α × Bytes) → Prop
  | .ok (x, rest) => Q x ∧ BytesOk rest ∧ rest.length + m ≤ bs.length
  | .panic => False
  | .err => True
  | .eof => True

/-- a primitive that does not panic, returns a value satisfying `Q` and consumes at least `m` bytes -/
def DSpec (m : Nat) (Q : α → Prop) (d : Dec α) : Prop :=
  ∀ bs, BytesOk bs → DPost m Q bs (d bs)

theorem dspec_pure {Q : α → Prop} {x : α} (h : Q x) : DSpec 0 Q (pure x : Dec α) := by
  intro bs hb
  exact ⟨h, hb, Nat.le_refl _⟩

theorem dspec_fail {Q : α → Prop} {m : Nat} : DSpec m Q (Dec.fail : Dec α) := by
  intro bs _; trivial

theorem dspec_weaken {m m' : Nat} {Q Q' : α → Prop} {d : Dec α} (h : DSpec m Q d) (hm : m' ≤ m)
    (hq : ∀ x, Q x → Q' x) : DSpec m' Q' d := by
  intro bs hb
  have := h bs hb
  generalize d bs = r at this ⊢
  rcases r with ⟨x, rest⟩ | _ | _ | _ <;> simp only [DPost] at this ⊢
  obtain ⟨h1, h2, h3⟩ := this
  exact ⟨hq x h1, h2, by omega⟩

theorem dspec_bind {m1 m2 : Nat} {Q1 : α → Prop} {Q2 : β → Prop} {d : Dec α} {f : α → Dec β}
    (h1 : DSpec m1 Q1 d) (h2 : ∀ x, Q1 x → DSpec m2 Q2 (f x)) : DSpec (m1 + m2) Q2 (d >>= f) := by
  intro bs hb
  have hd := h1 bs hb
  simp only [WinterProofs.C12L.bind_apply]
  generalize d bs = r at hd ⊢
  rcases r with ⟨x, rest⟩ | _ | _ | _ <;> simp only [DPost] at hd ⊢
  obtain ⟨q1, ok1, len1⟩ := hd
  have hf := h2 x q1 rest ok1
  generalize f x rest = r2 at hf ⊢
  rcases r2 with ⟨y, rest2⟩ | _ | _ | _ <;> simp only [DPost] at hf ⊢
  obtain ⟨q2, ok2, len2⟩ := hf
  exact ⟨q2, ok2, by omega⟩

theorem dspec_readU8 : DSpec 1 (fun x => x < 256) readU8 := by
  intro bs hb
  cases bs with
  | nil => trivial
  | cons b r => exact ⟨hb.head, hb.tail, by simp⟩

theorem dspec_readSlice (n : Nat) : DSpec n (fun s => s.length = n ∧ BytesOk s) (readSlice n) := by
  intro bs hb
  rw [readSlice_eq]
  by_cases h : bs.length < n
  · simp only [h, if_true]; trivial
  · simp only [h, if_false, DPost]
    refine ⟨⟨?_, hb.take n⟩, hb.drop n, ?_⟩
    · simp; omega
    · simp; omega

theorem ofLeBytes_lt (bs : Bytes) (h : BytesOk bs) : ofLeBytes bs < 256 ^ bs.length := by
  induction bs with
  | nil => simp [ofLeBytes]
  | cons b r ih =>
    have hb := h.head
    have hr := ih h.tail
    simp only [ofLeBytes, List.length_cons, Nat.pow_succ]
    omega

theorem dspec_readUInt (n : Nat) : DSpec n (fun v => v < 256 ^ n) (readUInt n) := by
  unfold readUInt
  have := dspec_bind (dspec_readSlice n)
    (fun s (hs : s.length = n ∧ BytesOk s) =>
      (dspec_pure (Q := fun v => v < 256 ^ n) (x := ofLeBytes s) (by
        have := ofLeBytes_lt s hs.2; rw [hs.1] at this; exact this)))
  simpa using this

theorem dspec_readBool : DSpec 1 (fun _ => True) readBool := by
  unfold readBool
  have := dspec_bind dspec_readU8 (fun b (_ : b < 256) =>
    (show DSpec 0 (fun _ : Bool => True) (if b = 0 then pure false else if b = 1 then pure true else Dec.fail) from by
      by_cases h0 : b = 0
      · simp only [h0, if_true]; exact dspec_pure trivial
      · by_cases h1 : b = 1
        · simp only [h1, if_true]; exact dspec_pure trivial
        · simp only [h0, h1, if_false]; exact dspec_fail))
  simpa using this

theorem dspec_fext : DSpec 1 (fun v => v = 1 ∨ v = 2 ∨ v = 3) fext.dec := by
  show DSpec 1 _ (readU8 >>= fun b => if b = 1 ∨ b = 2 ∨ b = 3 then pure b else Dec.fail)
  have := dspec_bind dspec_readU8 (fun b (_ : b < 256) =>
    (show DSpec 0 (fun v => v = 1 ∨ v = 2 ∨ v = 3) (if b = 1 ∨ b = 2 ∨ b = 3 then pure b else Dec.fail) from by
      by_cases h : b = 1 ∨ b = 2 ∨ b = 3
      · simp only [h, if_true]; exact dspec_pure h
      · simp only [h, if_false]; exact dspec_fail))
  simpa using this

theorem dspec_peekU8 : DSpec 0 (fun x => x < 256) peekU8 := by
  intro bs hb
  cases bs with
  | nil => trivial
  | cons b r => exact ⟨hb.head, hb, by simp⟩

/-- `read_usize` consumes at least one byte -/
theorem dspec_readUsize : DSpec 1 (fun _ => True) readUsize := by
  unfold readUsize
  refine dspec_weaken (m := 0 + 1) (dspec_bind dspec_peekU8 (fun first _ => ?_)) (by omega) (fun _ h => h)
  by_cases h9 : trailingZeros8 first + 1 = 9
  · simp only [h9, if_true]
    refine dspec_weaken (dspec_bind dspec_readU8 (fun _ _ =>
      dspec_weaken (Q' := fun _ => True) (dspec_readUInt 8) (Nat.le_refl _) (fun _ _ => trivial))) (by omega) (fun _ h => h)
  · simp only [h9, if_false]
    refine dspec_weaken (dspec_bind (dspec_readSlice (trailingZeros8 first + 1)) (fun s _ =>
      dspec_pure (Q := fun _ => True) trivial)) (by omega) (fun _ h => h)

theorem dspec_elem (F : FieldImpl) : DSpec F.bytes (fun _ => True) (elem F).dec := by
  show DSpec F.bytes _ (readUInt F.bytes >>= fun v => if v ≥ F.M then Dec.fail else pure v)
  refine dspec_weaken (m := F.bytes + 0) (dspec_bind (dspec_readUInt F.bytes) (fun v _ => ?_)) (by omega) (fun _ h => h)
  show DSpec 0 (fun _ => True) _
  by_cases h : v ≥ F.M
  · simp only [h, if_true]; exact dspec_fail
  · simp only [h, if_false]; exact dspec_pure trivial

theorem dspec_readMany {m : Nat} {Q : α → Prop} {d : Dec α} (h : DSpec m Q d) (n : Nat) :
    DSpec (n * m) (fun _ => True) (readMany d n) := by
  induction n with
  | zero => simpa [readMany] using (dspec_pure (Q := fun _ : List α => True) (x := []) trivial)
  | succ n ih =>
    unfold readMany
    refine dspec_weaken (dspec_bind h (fun x _ => dspec_bind ih (fun xs _ =>
      dspec_pure (Q := fun _ => True) trivial))) ?_ (fun _ h => h)
    rw [Nat.succ_mul]; omega

-- ------------------------------------------------------------------------------------------------
-- lifting, allocation, failure

theorem spec_lift {c m : Nat} {Q : α → Prop} {d : Dec α} (h : DSpec m Q d) : Spec c 0 Q (lift d) := by
  intro bs a hb
  have hd := h bs hb
  unfold lift
  generalize d bs = r at hd ⊢
  rcases r with ⟨x, rest⟩ | _ | _ | _ <;> simp only [DPost] at hd <;> simp only [Post]
  · obtain ⟨q, ok, len⟩ := hd
    have : c * rest.length ≤ c * bs.length := Nat.mul_le_mul_left c (by omega)
    exact ⟨q, ok, by omega, by omega⟩
  · omega
  · omega

/-- a primitive that consumes at least `m` bytes pays for `g ≤ c * m` bytes of allocation -/
theorem spec_lift_pay {c m g : Nat} {Q : α → Prop} {d : Dec α} (h : DSpec m Q d) (hg : g ≤ c * m) :
    Spec c 0 Q (do let x ← lift d; alloc g; pure x) := by
  intro bs a hb
  have hd := h bs hb
  simp only [pbind_apply, lift]
  generalize d bs = r at hd ⊢
  rcases r with ⟨x, rest⟩ | _ | _ | _ <;> simp only [DPost] at hd <;> simp only [Post, alloc, ppure_apply]
  · obtain ⟨q, ok, len⟩ := hd
    have : c * (rest.length + m) ≤ c * bs.length := Nat.mul_le_mul_left c len
    rw [Nat.mul_add] at this
    exact ⟨q, ok, by omega, by omega⟩
  · omega
  · omega

theorem spec_alloc {c : Nat} (n : Nat) : Spec c n (fun _ => True) (alloc n) := by
  intro bs a hb
  simp only [alloc, Post]
  exact ⟨trivial, hb, Nat.le_refl _, by omega⟩

theorem spec_fail {c k : Nat} {Q : α → Prop} : Spec c k Q (pfail : PDec α) := by
  intro bs a _
  simp only [pfail, Post]; omega

theorem spec_pEnd {c : Nat} : Spec c 0 (fun _ => True) pEnd := by
  intro bs a hb
  unfold pEnd
  by_cases h : bs.isEmpty
  · simp only [h, if_true, Post]; exact ⟨trivial, hb, Nat.le_refl _, Nat.le_refl _⟩
  · simp only [h, Post]; simp

theorem spec_u8 {c : Nat} : Spec c 0 (fun x => x < 256) u8 := spec_lift dspec_readU8

/-- `read_vec(n)`: the `n` bytes requested are paid by the `n` bytes consumed -/
theorem spec_readVec {c : Nat} (hc : 1 ≤ c) (n : Nat) :
    Spec c 0 (fun s => s.length = n ∧ BytesOk s) (readVec n) := by
  have := spec_lift_pay (c := c) (g := n) (dspec_readSlice n) (by
    calc n = 1 * n := by omega
      _ ≤ c * n := Nat.mul_le_mul_right n hc)
  exact this

theorem spec_pBlock {c : Nat} (hc : 1 ≤ c) (k : Nat) :
    Spec c 0 (fun s => s.length < 256 ^ k ∧ BytesOk s) (pBlock k) := by
  unfold pBlock
  have := spec_bind (c := c) (spec_lift (dspec_readUInt k)) (fun n (hn : n < 256 ^ k) =>
    spec_weaken (spec_readVec hc n) (Nat.le_refl 0) (fun s hs => (⟨by rw [hs.1]; exact hn, hs.2⟩ :
      s.length < 256 ^ k ∧ BytesOk s)))
  simpa using this

/-- `loopMany`: elements that pay for themselves -/
theorem spec_loopMany {c : Nat} {Q : α → Prop} {d : PDec α} (h : Spec c 0 Q d) (n : Nat) :
    Spec c 0 (fun xs => xs.length = n ∧ ∀ x ∈ xs, Q x) (loopMany d n) := by
  induction n with
  | zero =>
    unfold loopMany
    exact spec_pure ⟨rfl, by intro x hx; cases hx⟩
  | succ n ih =>
    unfold loopMany
    have := spec_bind h (fun x (hx : Q x) => spec_bind ih (fun xs hxs =>
      spec_pure (c := c) (Q := fun ys => ys.length = n + 1 ∧ ∀ y ∈ ys, Q y) (x := x :: xs)
        ⟨by simp [hxs.1], by
          intro y hy
          rcases List.mem_cons.mp hy with rfl | hy
          · exact hx
          · exact hxs.2 y hy⟩))
    simpa using this

end WinterProofs.C06L
