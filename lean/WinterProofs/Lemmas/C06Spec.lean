-- helper lemmas for C06: a Hoare-style logic for the allocation-counting decoders of Winter/Model/Parse.lean.
-- `Spec c k kf Q d`: on every well-formed byte string (all bytes < 256) the decoder `d` does not panic; on
-- success its result satisfies `Q`, what it leaves unread is well-formed and not longer than the input, and the
-- heap bytes it requested are at most `c` per byte consumed plus `k` (an integer: negative `k` is credit left
-- over from consumed bytes, which pays for allocations sequenced after it); on failure (`err`, `eof`) they are at
-- most `c` per byte available plus `kf`.
import Winter.Model.Parse
import WinterProofs.Lemmas.C12Basic

namespace WinterProofs.C06L
open Model Model.Serde Model.Parse
open WinterProofs.C12L (readSlice_eq)

def BytesOk (bs : Bytes) : Prop := ∀ b ∈ bs, b < 256

theorem BytesOk.nil : BytesOk [] := by intro b hb; cases hb

/-- the executable form -/
theorem BytesOk.of_all {bs : Bytes} (h : bs.all (fun b => decide (b < 256)) = true) : BytesOk bs := by
  intro b hb
  exact of_decide_eq_true (List.all_eq_true.mp h b hb)

theorem BytesOk.tail {b : Nat} {bs : Bytes} (h : BytesOk (b :: bs)) : BytesOk bs :=
  fun x hx => h x (List.mem_cons_of_mem _ hx)

theorem BytesOk.head {b : Nat} {bs : Bytes} (h : BytesOk (b :: bs)) : b < 256 :=
  h b (List.mem_cons_self ..)

theorem BytesOk.take {bs : Bytes} (h : BytesOk bs) (n : Nat) : BytesOk (bs.take n) :=
  fun x hx => h x (List.mem_of_mem_take hx)

theorem BytesOk.drop {bs : Bytes} (h : BytesOk bs) (n : Nat) : BytesOk (bs.drop n) :=
  fun x hx => h x (List.mem_of_mem_drop hx)

/-- what `Spec` says about one run -/
def Post (c : Nat) (k : Int) (kf : Nat) (Q : α → Prop) (bs : Bytes) (a : Nat) : Res (α × Bytes) × Nat → Prop
  | (.ok (x, rest), a') =>
    Q x ∧ BytesOk rest ∧ rest.length ≤ bs.length ∧
      ((a' + c * rest.length : Nat) : Int) ≤ ((a + c * bs.length : Nat) : Int) + k
  | (.panic, _) => False
  | (.err, a') => a' ≤ a + c * bs.length + kf
  | (.eof, a') => a' ≤ a + c * bs.length + kf

/-- the specification of a decoder (see the head of the file) -/
def Spec (c : Nat) (k : Int) (kf : Nat) (Q : α → Prop) (d : PDec α) : Prop :=
  ∀ bs a, BytesOk bs → Post c k kf Q bs a (d bs a)

@[simp] theorem pbind_apply (d : PDec α) (f : α → PDec β) (bs : Bytes) (a : Nat) :
    (d >>= f) bs a = match d bs a with
      | (.ok (x, r), a') => f x r a'
      | (.err, a') => (.err, a')
      | (.eof, a') => (.eof, a')
      | (.panic, a') => (.panic, a') := rfl

@[simp] theorem ppure_apply (x : α) (bs : Bytes) (a : Nat) : (pure x : PDec α) bs a = (.ok (x, bs), a) := rfl

theorem spec_pure {c : Nat} {Q : α → Prop} {x : α} (h : Q x) : Spec c 0 0 Q (pure x : PDec α) := by
  intro bs a hb
  simp only [ppure_apply, Post]
  exact ⟨h, hb, Nat.le_refl _, by omega⟩

theorem spec_weaken {c : Nat} {k k' : Int} {kf kf' : Nat} {Q Q' : α → Prop} {d : PDec α}
    (h : Spec c k kf Q d) (hk : k ≤ k') (hkf : kf ≤ kf') (hq : ∀ x, Q x → Q' x) : Spec c k' kf' Q' d := by
  intro bs a hb
  have := h bs a hb
  generalize d bs a = r at this ⊢
  rcases r with ⟨⟨x, rest⟩ | _ | _ | _, a'⟩ <;> simp only [Post] at this ⊢
  · obtain ⟨h1, h2, h3, h4⟩ := this; exact ⟨hq x h1, h2, h3, by omega⟩
  · omega
  · omega

/-- sequencing: the success constants add up; a failure of the continuation comes after the success of the
    first decoder -/
theorem spec_bind {c : Nat} {k1 k2 : Int} {kf1 kf2 kf : Nat} {Q1 : α → Prop} {Q2 : β → Prop} {d : PDec α}
    {f : α → PDec β} (h1 : Spec c k1 kf1 Q1 d) (h2 : ∀ x, Q1 x → Spec c k2 kf2 Q2 (f x)) (hf1 : kf1 ≤ kf)
    (hf2 : k1 + kf2 ≤ kf) : Spec c (k1 + k2) kf Q2 (d >>= f) := by
  intro bs a hb
  have hd := h1 bs a hb
  simp only [pbind_apply]
  generalize d bs a = r at hd ⊢
  rcases r with ⟨⟨x, rest⟩ | _ | _ | _, a'⟩ <;> simp only [Post] at hd ⊢
  · obtain ⟨q1, ok1, len1, al1⟩ := hd
    have hf := h2 x q1 rest a' ok1
    generalize f x rest a' = r2 at hf ⊢
    rcases r2 with ⟨⟨y, rest2⟩ | _ | _ | _, a''⟩ <;> simp only [Post] at hf ⊢
    · obtain ⟨q2, ok2, len2, al2⟩ := hf
      exact ⟨q2, ok2, Nat.le_trans len2 len1, by omega⟩
    · omega
    · omega
  · omega
  · omega

theorem spec_bindk {c : Nat} {k k1 k2 : Int} {kf kf1 kf2 : Nat} {Q1 : α → Prop} {Q2 : β → Prop} {d : PDec α}
    {f : α → PDec β} (h1 : Spec c k1 kf1 Q1 d) (h2 : ∀ x, Q1 x → Spec c k2 kf2 Q2 (f x)) (hk : k1 + k2 ≤ k)
    (hf1 : kf1 ≤ kf) (hf2 : k1 + kf2 ≤ kf) : Spec c k kf Q2 (d >>= f) :=
  spec_weaken (spec_bind h1 h2 hf1 hf2) hk (Nat.le_refl _) (fun _ h => h)

/-- sequencing after a decoder that requests nothing beyond what its bytes pay -/
theorem spec_bind0 {c : Nat} {k k1 : Int} {kf : Nat} {Q1 : α → Prop} {Q2 : β → Prop} {d : PDec α}
    {f : α → PDec β} (h1 : Spec c k1 0 Q1 d) (hk1 : k1 ≤ 0) (h2 : ∀ x, Q1 x → Spec c k kf Q2 (f x)) :
    Spec c k kf Q2 (d >>= f) :=
  spec_bindk h1 h2 (by omega) (Nat.zero_le _) (by omega)

/-- sequencing after a decoder whose requests are exactly paid by its bytes -/
theorem spec_seq {c : Nat} {k : Int} {kf : Nat} {Q1 : α → Prop} {Q2 : β → Prop} {d : PDec α}
    {f : α → PDec β} (h1 : Spec c 0 0 Q1 d) (h2 : ∀ x, Q1 x → Spec c k kf Q2 (f x)) :
    Spec c k kf Q2 (d >>= f) :=
  spec_bind0 h1 (Int.le_refl 0) h2

theorem spec_ite {c : Nat} {k : Int} {kf : Nat} {Q : α → Prop} {p : Prop} [Decidable p] {t e : PDec α}
    (ht : p → Spec c k kf Q t) (he : ¬ p → Spec c k kf Q e) : Spec c k kf Q (if p then t else e) := by
  by_cases h : p
  · simp only [h, if_true]; exact ht h
  · simp only [h, if_false]; exact he h

-- ------------------------------------------------------------------------------------------------
-- ByteReader primitives (no allocation): what they return, and how many bytes they consume at least

def DPost (m : Nat) (Q : α → Prop) (bs : Bytes) : Res (α × Bytes) → Prop
  | .ok (x, rest) => Q x ∧ BytesOk rest ∧ rest.length + m ≤ bs.length
  | .panic => False
  | .err => True
  | .eof => True

/-- a primitive that does not panic, returns a value satisfying `Q` and consumes at least `m` bytes -/
def DSpec (m : Nat) (Q : α → Prop) (d : Dec α) : Prop :=
  ∀ bs, BytesOk bs → DPost m Q bs (d bs)

theorem dspec_pure {Q : α → Prop} {x : α} (h : Q x) : DSpec 0 Q (pure x : Dec α) := by
  intro bs hb
  exact ⟨h, hb, Nat.le_refl _⟩

theorem dspec_fail {Q : α → Prop} {m : Nat} : DSpec m Q (Dec.fail : Dec α) := by
  intro bs _; trivial

theorem dspec_weaken {m m' : Nat} {Q Q' : α → Prop} {d : Dec α} (h : DSpec m Q d) (hm : m' ≤ m)
    (hq : ∀ x, Q x → Q' x) : DSpec m' Q' d := by
  intro bs hb
  have := h bs hb
  generalize d bs = r at this ⊢
  rcases r with ⟨x, rest⟩ | _ | _ | _ <;> simp only [DPost] at this ⊢
  obtain ⟨h1, h2, h3⟩ := this
  exact ⟨hq x h1, h2, by omega⟩

theorem dspec_bind {m1 m2 : Nat} {Q1 : α → Prop} {Q2 : β → Prop} {d : Dec α} {f : α → Dec β}
    (h1 : DSpec m1 Q1 d) (h2 : ∀ x, Q1 x → DSpec m2 Q2 (f x)) : DSpec (m1 + m2) Q2 (d >>= f) := by
  intro bs hb
  have hd := h1 bs hb
  simp only [WinterProofs.C12L.bind_apply]
  generalize d bs = r at hd ⊢
  rcases r with ⟨x, rest⟩ | _ | _ | _ <;> simp only [DPost] at hd ⊢
  obtain ⟨q1, ok1, len1⟩ := hd
  have hf := h2 x q1 rest ok1
  generalize f x rest = r2 at hf ⊢
  rcases r2 with ⟨y, rest2⟩ | _ | _ | _ <;> simp only [DPost] at hf ⊢
  obtain ⟨q2, ok2, len2⟩ := hf
  exact ⟨q2, ok2, by omega⟩

theorem dspec_readU8 : DSpec 1 (fun x => x < 256) readU8 := by
  intro bs hb
  cases bs with
  | nil => trivial
  | cons b r => exact ⟨hb.head, hb.tail, by simp⟩

theorem dspec_readSlice (n : Nat) : DSpec n (fun s => s.length = n ∧ BytesOk s) (readSlice n) := by
  intro bs hb
  rw [readSlice_eq]
  by_cases h : bs.length < n
  · simp only [h, if_true]; trivial
  · simp only [h, if_false, DPost]
    refine ⟨⟨?_, hb.take n⟩, hb.drop n, ?_⟩
    · simp; omega
    · simp; omega

theorem ofLeBytes_lt (bs : Bytes) (h : BytesOk bs) : ofLeBytes bs < 256 ^ bs.length := by
  induction bs with
  | nil => simp [ofLeBytes]
  | cons b r ih =>
    have hb := h.head
    have hr := ih h.tail
    simp only [ofLeBytes, List.length_cons, Nat.pow_succ]
    omega

theorem dspec_readUInt (n : Nat) : DSpec n (fun v => v < 256 ^ n) (readUInt n) := by
  unfold readUInt
  have := dspec_bind (dspec_readSlice n)
    (fun s (hs : s.length = n ∧ BytesOk s) =>
      (dspec_pure (Q := fun v => v < 256 ^ n) (x := ofLeBytes s) (by
        have := ofLeBytes_lt s hs.2; rw [hs.1] at this; exact this)))
  simpa using this

theorem dspec_readBool : DSpec 1 (fun _ => True) readBool := by
  unfold readBool
  have := dspec_bind dspec_readU8 (fun b (_ : b < 256) =>
    (show DSpec 0 (fun _ : Bool => True) (if b = 0 then pure false else if b = 1 then pure true else Dec.fail) from by
      by_cases h0 : b = 0
      · simp only [h0, if_true]; exact dspec_pure trivial
      · by_cases h1 : b = 1
        · simp only [h1, if_true]; exact dspec_pure trivial
        · simp only [h0, h1, if_false]; exact dspec_fail))
  simpa using this

theorem dspec_fext : DSpec 1 (fun v => v = 1 ∨ v = 2 ∨ v = 3) fext.dec := by
  show DSpec 1 _ (readU8 >>= fun b => if b = 1 ∨ b = 2 ∨ b = 3 then pure b else Dec.fail)
  have := dspec_bind dspec_readU8 (fun b (_ : b < 256) =>
    (show DSpec 0 (fun v => v = 1 ∨ v = 2 ∨ v = 3) (if b = 1 ∨ b = 2 ∨ b = 3 then pure b else Dec.fail) from by
      by_cases h : b = 1 ∨ b = 2 ∨ b = 3
      · simp only [h, if_true]; exact dspec_pure h
      · simp only [h, if_false]; exact dspec_fail))
  simpa using this

theorem dspec_peekU8 : DSpec 0 (fun x => x < 256) peekU8 := by
  intro bs hb
  cases bs with
  | nil => trivial
  | cons b r => exact ⟨hb.head, hb, by simp⟩

/-- `read_usize` consumes at least one byte -/
theorem dspec_readUsize : DSpec 1 (fun _ => True) readUsize := by
  unfold readUsize
  refine dspec_weaken (m := 0 + 1) (dspec_bind dspec_peekU8 (fun first _ => ?_)) (by omega) (fun _ h => h)
  by_cases h9 : trailingZeros8 first + 1 = 9
  · simp only [h9, if_true]
    refine dspec_weaken (dspec_bind dspec_readU8 (fun _ _ =>
      dspec_weaken (Q' := fun _ => True) (dspec_readUInt 8) (Nat.le_refl _) (fun _ _ => trivial))) (by omega) (fun _ h => h)
  · simp only [h9, if_false]
    refine dspec_weaken (dspec_bind (dspec_readSlice (trailingZeros8 first + 1)) (fun s _ =>
      dspec_pure (Q := fun _ => True) trivial)) (by omega) (fun _ h => h)

theorem dspec_elem (F : FieldImpl) : DSpec F.bytes (fun _ => True) (elem F).dec := by
  show DSpec F.bytes _ (readUInt F.bytes >>= fun v => if v ≥ F.M then Dec.fail else pure v)
  refine dspec_weaken (m := F.bytes + 0) (dspec_bind (dspec_readUInt F.bytes) (fun v _ => ?_)) (by omega) (fun _ h => h)
  show DSpec 0 (fun _ => True) _
  by_cases h : v ≥ F.M
  · simp only [h, if_true]; exact dspec_fail
  · simp only [h, if_false]; exact dspec_pure trivial

theorem dspec_readMany {m : Nat} {Q : α → Prop} {d : Dec α} (h : DSpec m Q d) (n : Nat) :
    DSpec (n * m) (fun _ => True) (readMany d n) := by
  induction n with
  | zero => simpa [readMany] using (dspec_pure (Q := fun _ : List α => True) (x := []) trivial)
  | succ n ih =>
    unfold readMany
    refine dspec_weaken (dspec_bind h (fun x _ => dspec_bind ih (fun xs _ =>
      dspec_pure (Q := fun _ => True) trivial))) ?_ (fun _ h => h)
    rw [Nat.succ_mul]; omega

theorem dspec_dDigest (A : Air) : DSpec A.digestBytes (fun _ => True) (dDigest A) := by
  unfold dDigest
  exact dspec_weaken (dspec_bind (dspec_readSlice A.digestBytes) (fun _ _ =>
    dspec_pure (Q := fun _ : Unit => True) trivial)) (by omega) (fun _ h => h)

theorem dspec_dElem (A : Air) (deg : Nat) : DSpec (elemSize A deg) (fun _ => True) (dElem A deg) := by
  unfold dElem elemSize
  refine dspec_weaken (dspec_bind (dspec_readMany (dspec_elem A.F) deg) (fun _ _ =>
    dspec_pure (Q := fun _ : Unit => True) trivial)) ?_ (fun _ h => h)
  rw [Nat.mul_comm]; omega

-- ------------------------------------------------------------------------------------------------
-- lifting, allocation, failure

/-- a primitive that consumes at least `m` bytes leaves `c * m` bytes of credit -/
theorem spec_lift {c m : Nat} {Q : α → Prop} {d : Dec α} (h : DSpec m Q d) :
    Spec c (-((c * m : Nat) : Int)) 0 Q (lift d) := by
  intro bs a hb
  have hd := h bs hb
  unfold lift
  generalize d bs = r at hd ⊢
  rcases r with ⟨x, rest⟩ | _ | _ | _ <;> simp only [DPost] at hd <;> simp only [Post]
  · obtain ⟨q, ok, len⟩ := hd
    have : c * (rest.length + m) ≤ c * bs.length := Nat.mul_le_mul_left c len
    rw [Nat.mul_add] at this
    exact ⟨q, ok, by omega, by omega⟩
  · omega
  · omega

theorem spec_lift0 {c m : Nat} {Q : α → Prop} {d : Dec α} (h : DSpec m Q d) : Spec c 0 0 Q (lift d) :=
  spec_weaken (spec_lift h) (by omega) (Nat.le_refl _) (fun _ h => h)

theorem spec_alloc {c : Nat} (n : Nat) : Spec c n 0 (fun _ => True) (alloc n) := by
  intro bs a hb
  simp only [alloc, Post]
  exact ⟨trivial, hb, Nat.le_refl _, by omega⟩

theorem spec_fail {c : Nat} {k : Int} {kf : Nat} {Q : α → Prop} : Spec c k kf Q (pfail : PDec α) := by
  intro bs a _
  simp only [pfail, Post]; omega

theorem spec_pEnd {c : Nat} : Spec c 0 0 (fun _ => True) pEnd := by
  intro bs a hb
  unfold pEnd
  by_cases h : bs.isEmpty
  · simp only [h, if_true, Post]; exact ⟨trivial, hb, Nat.le_refl _, by omega⟩
  · simp only [h, Post]; simp

theorem spec_u8 {c : Nat} : Spec c 0 0 (fun x => x < 256) u8 := spec_lift0 dspec_readU8

/-- `growing g d`: the growth is added to the success constant -/
theorem spec_growing {c : Nat} {k : Int} {kf g : Nat} {Q : α → Prop} {d : PDec α} (h : Spec c k kf Q d) :
    Spec c (k + g) kf Q (growing g d) := by
  intro bs a hb
  have hd := h bs a hb
  unfold growing
  simp only [pbind_apply]
  generalize d bs a = r at hd ⊢
  rcases r with ⟨⟨x, rest⟩ | _ | _ | _, a'⟩ <;> simp only [Post] at hd <;> simp only [Post, alloc, ppure_apply]
  · obtain ⟨q, ok, len, al⟩ := hd
    exact ⟨q, ok, len, by omega⟩
  · omega
  · omega

/-- `read_vec(n)`: the `n` bytes requested are paid by the `n` bytes consumed -/
theorem spec_readVec {c : Nat} (hc : 1 ≤ c) (n : Nat) :
    Spec c 0 0 (fun s => s.length = n ∧ BytesOk s) (readVec n) := by
  have h1 : n ≤ c * n := by
    calc n = 1 * n := by omega
      _ ≤ c * n := Nat.mul_le_mul_right n hc
  have := spec_growing (g := n) (spec_lift (c := c) (dspec_readSlice n))
  exact spec_weaken this (by omega) (Nat.le_refl 0) (fun _ h => h)

theorem spec_pBlock {c : Nat} (hc : 1 ≤ c) (k : Nat) :
    Spec c 0 0 (fun s => s.length < 256 ^ k ∧ BytesOk s) (pBlock k) := by
  unfold pBlock
  exact spec_bind0 (spec_lift0 (dspec_readUInt k)) (Int.le_refl 0) (fun n (hn : n < 256 ^ k) =>
    spec_weaken (spec_readVec hc n) (Int.le_refl 0) (Nat.le_refl 0) (fun s hs => (⟨by rw [hs.1]; exact hn, hs.2⟩ :
      s.length < 256 ^ k ∧ BytesOk s)))

/-- `loopMany`: every element leaves the credit `-k ≥ 0`; a failure ends the loop -/
theorem spec_loopMany {c : Nat} {k : Int} {kf : Nat} {Q : α → Prop} {d : PDec α} (h : Spec c k kf Q d)
    (hk : k ≤ 0) (n : Nat) :
    Spec c (n * k) kf (fun xs => xs.length = n ∧ ∀ x ∈ xs, Q x) (loopMany d n) := by
  induction n with
  | zero =>
    unfold loopMany
    exact spec_weaken (spec_pure ⟨rfl, by intro x hx; cases hx⟩) (by omega) (Nat.zero_le _) (fun _ h => h)
  | succ n ih =>
    unfold loopMany
    have hnk : ((n : Nat) : Int) * k ≤ 0 := Int.mul_nonpos_of_nonneg_of_nonpos (by omega) hk
    refine spec_bindk h (fun x (hx : Q x) => spec_bindk ih (fun xs hxs =>
      spec_pure (c := c) (Q := fun ys => ys.length = n + 1 ∧ ∀ y ∈ ys, Q y) (x := x :: xs)
        ⟨by simp [hxs.1], by
          intro y hy
          rcases List.mem_cons.mp hy with rfl | hy
          · exact hx
          · exact hxs.2 y hy⟩) (Int.le_refl _) (Nat.le_refl kf) (by omega)) ?_
      (Nat.le_refl kf) (by omega)
    have : ((n + 1 : Nat) : Int) * k = n * k + k := by
      rw [Int.natCast_add, Int.add_mul]; simp
    omega

theorem prealloc_le (size n : Nat) : preallocCount size n * size ≤ MAX_PREALLOC := by
  unfold preallocCount
  by_cases hs : size = 0
  · subst hs; simp
  · have h1 : max size 1 = size := by omega
    rw [h1]
    calc min n (MAX_PREALLOC / size) * size ≤ (MAX_PREALLOC / size) * size :=
          Nat.mul_le_mul_right _ (Nat.min_le_right _ _)
      _ ≤ MAX_PREALLOC := Nat.div_mul_le_self _ _

theorem prealloc_le_n (size n : Nat) : preallocCount size n * size ≤ n * size :=
  Nat.mul_le_mul_right _ (Nat.min_le_left _ _)

/-- `read_many` of any elements that pay for themselves: the bounded pre-allocation (and nothing else) is not
    covered by consumed bytes; `hg`: when more elements are requested than are pre-allocated, the elements also
    pay for the growth of the vector -/
theorem spec_readManyA {c : Nat} {k : Int} {kf : Nat} {Q : α → Prop} {d : PDec α} (size n : Nat)
    (h : Spec c k kf Q d) (hk : k ≤ 0) (hg : ¬ n ≤ MAX_PREALLOC / max size 1 → k + (2 * size : Nat) ≤ 0) :
    Spec c MAX_PREALLOC (MAX_PREALLOC + kf) (fun xs => xs.length = n ∧ ∀ x ∈ xs, Q x) (readManyA size d n) := by
  unfold readManyA
  have hp := prealloc_le size n
  by_cases hn : n ≤ MAX_PREALLOC / max size 1
  · simp only [hn, if_true]
    have hl := spec_loopMany (spec_growing (g := 0) h) (by simpa using hk) n
    have hnk : ((n : Nat) : Int) * (k + (0 : Nat)) ≤ 0 := Int.mul_nonpos_of_nonneg_of_nonpos (by omega) (by simpa using hk)
    exact spec_bindk (spec_alloc _) (fun _ _ => hl) (by omega) (Nat.zero_le _) (by omega)
  · simp only [hn, if_false]
    have hl := spec_loopMany (spec_growing (g := 2 * size) h) (hg hn) n
    have hnk : ((n : Nat) : Int) * (k + (2 * size : Nat)) ≤ 0 := Int.mul_nonpos_of_nonneg_of_nonpos (by omega) (hg hn)
    exact spec_bindk (spec_alloc _) (fun _ _ => hl) (by omega) (Nat.zero_le _) (by omega)

/-- `read_many` of primitive elements of `size` bytes that consume at least `m` input bytes each with
    `3 * size ≤ c * m`: the pre-allocation and the growth are paid by the consumed bytes on success; on failure the
    pre-allocation is the only excess -/
theorem spec_readManyA_lift {c m : Nat} {Q : α → Prop} {d : Dec α} (size n : Nat) (h : DSpec m Q d)
    (hs : 3 * size ≤ c * m) :
    Spec c 0 MAX_PREALLOC (fun xs => xs.length = n) (readManyA size (lift d) n) := by
  unfold readManyA
  have hp := prealloc_le size n
  have hpn := prealloc_le_n size n
  -- every element leaves at least `size` bytes of credit
  have hel : ∀ g : Nat, g ≤ 2 * size → Spec c (-(size : Int)) 0 Q (growing g (lift d)) := fun g hg =>
    spec_weaken (spec_growing (g := g) (spec_lift (c := c) h)) (by omega) (Nat.le_refl 0) (fun _ h => h)
  have hloop : Spec c (n * (-(size : Int))) 0 (fun xs => xs.length = n ∧ ∀ x ∈ xs, Q x)
      (loopMany (growing (if n ≤ MAX_PREALLOC / max size 1 then 0 else 2 * size) (lift d)) n) := by
    apply spec_loopMany _ (by omega) n
    by_cases hn : n ≤ MAX_PREALLOC / max size 1
    · simp only [hn, if_true]; exact hel 0 (by omega)
    · simp only [hn, if_false]; exact hel _ (Nat.le_refl _)
  have hns : ((n : Nat) : Int) * (-(size : Int)) = -((n * size : Nat) : Int) := by
    rw [Int.mul_neg, Int.natCast_mul]
  refine spec_bindk (spec_alloc _) (fun _ _ => spec_weaken hloop (Int.le_refl _) (Nat.le_refl 0) (fun xs hx => hx.1))
    ?_ (Nat.zero_le _) (by omega)
  rw [hns]; omega

end WinterProofs.C06L
