-- C15: FRI completeness and the folding identity (property theorems).
--
-- Model: Winter/Model/Fri.lean (apply_drp, get_inv_offsets, fold_positions, map_positions_to_indexes, transposition,
-- num_fri_layers, the prover state machine, the verifier), instantiated here with an arbitrary Mathlib field `F`
-- (`fieldOps root rootOk offset`; `root k` plays `get_root_of_unity(k)`, `offset` the domain offset).  No size bound
-- anywhere; the folding factor `N` is arbitrary (`N ∈ {2,4,8,16}` are instances).
--
--   ★ folding identity            apply_drp_folding_identity, prover_row_eq_verifier_row
--   ★ positions                   fold_positions_is_dedup_mod (+ characterisation of the de-duplication)
--   ★ layout                      transposed_row_layout, get_query_values_returns_value_at_position
--   ★ layers / remainder size     num_fri_layers_spec, num_fri_layers_le_log2, remainder_has_le_max_coefficients
--   ★ prover reuse                build_proof_resets_prover, reset_prover_accepts_new_request
--   ◐ completeness                fri_complete_partial (full on the model; what is partial is said at the theorem)
--   witness of the known finding  overshoot_config_has_no_proof (+ a concrete configuration)
import WinterProofs.Lemmas.C15Complete
import WinterProofs.Lemmas.C15Overshoot
import WinterProofs.Lemmas.C15Gen
import Mathlib.Algebra.Field.ZMod

namespace WinterProofs.C15

open Model.Fri Finset Polynomial

/-! ## the folding identity -/

section fold
variable {F : Type} [Field F] [DecidableEq F] (root : ℕ → F) (rootOk : ℕ → Bool) (offset : F)
set_option linter.unusedSectionVars false

/-- FOLDING IDENTITY (all folding factors `N ≥ 1`, all domain sizes `n = m·N`): for `f = Σ_k X^k f_k(X^N)`,
    `apply_drp` applied to the evaluations of `f` over the coset `offset·<g>` (transposed into rows of `N`) and
    the challenge `α` yields the evaluations over the folded coset `{(offset·g^i)^N}` of `Σ_k α^k f_k`
    (`FriAlg.foldPoly N f α`, whose `m`-th coefficient is `Σ_k α^k c_{N·m+k}`: `FriAlg.coeff_foldPoly`).
    Hypotheses: the two roots of unity the code asks for exist, `g` is a primitive `n`-th root, the `N`-th root is
    `g^(n/N)` (coherence of `get_root_of_unity`), the offset is non-zero. -/
theorem apply_drp_folding_identity (N m : ℕ) (hN : 0 < N) (hm : 0 < m)
    (hok : rootOk (Nat.log2 (m * N)) = true) (hokN : rootOk (Nat.log2 N) = true)
    (hg : IsPrimitiveRoot (root (Nat.log2 (m * N))) (m * N))
    (hζ : root (Nat.log2 N) = root (Nat.log2 (m * N)) ^ m)
    (hoff : offset ≠ 0) (f : F[X]) (α : F) (rows : List (List F))
    (hT : transpose N (evalsOf offset (root (Nat.log2 (m * N))) f (m * N)) = some rows) :
    applyDrp (fieldOps root rootOk offset) N rows α = .ok ((List.range m).map fun i =>
      (FriAlg.foldPoly N f α).eval ((offset * root (Nat.log2 (m * N)) ^ i) ^ N)) :=
  applyDrp_fold root rootOk offset N m hN hm hok hokN hg hζ hoff f α rows hT

/-- the coefficients of the folded polynomial: interleaved slices combined with powers of the challenge -/
theorem folded_polynomial_coefficients (N : ℕ) (hN : 0 < N) (f : F[X]) (α : F) (m : ℕ) :
    (FriAlg.foldPoly N f α).coeff m = ∑ k ∈ range N, α ^ k * f.coeff (N * m + k) :=
  FriAlg.coeff_foldPoly hN f α m

/-- "the degree-`<N` interpolant through `(x·ζ^j, f(x·ζ^j))` is `Σ_k y^k f_k(x^N)`": its `k`-th coefficient,
    computed by the scaled inverse DFT of the row, is `f_k(x^N)` -/
theorem row_interpolant_coefficients (N : ℕ) (hN : 0 < N) (ζ x : F) (hζ : IsPrimitiveRoot ζ N) (hx : x ≠ 0)
    (f : F[X]) (k : ℕ) (hk : k < N) :
    (N : F)⁻¹ * (x⁻¹) ^ k * ∑ j ∈ range N, f.eval (x * ζ ^ j) * (ζ⁻¹) ^ (j * k) = (FriAlg.slice N k f).eval (x ^ N) :=
  FriAlg.interp_coeff hN hζ hx f hk

/-- prover and verifier compute the same value from a row, whatever the row contains: the verifier's Lagrange
    interpolation through the points `x·ζ^j` evaluated at `α` equals the prover's `apply_drp` row computation
    (inverse DFT of size `N`, scaling by the inverse offsets, Horner at `α`) -/
theorem prover_row_eq_verifier_row (N : ℕ) (hN : 0 < N) (ζ : F) (hζ : IsPrimitiveRoot ζ N) (dg : F) (i : ℕ)
    (hx : dg ^ i * offset ≠ 0) (row : List F) (hlen : row.length = N) (α : F) :
    lagrangeEval (fieldOps root rootOk offset)
        (rowPoints (fieldOps root rootOk offset) ((List.range N).map fun j => ζ ^ j) dg i) row α
      = drpRow (fieldOps root rootOk offset) ζ⁻¹ ((N : F))⁻¹ α row (dg ^ i * offset)⁻¹ :=
  lagrangeEval_rowPoints_eq_drpRow root rootOk offset N hN ζ hζ dg i hx row hlen α

end fold

/-! ## positions -/

/-- `fold_positions` is the order-preserving de-duplication of `p mod (n/N)`; prover (`build_proof`) and verifier
    (`verify_generic`) call this same function with the same arguments, so their folded positions agree -/
theorem fold_positions_is_dedup_mod (ps : List Nat) (n N : Nat) (h : n / N ≠ 0) :
    foldPositions ps n N = some (dedupKeepFirst (ps.map (· % (n / N)))) :=
  foldPositions_eq ps n N h

/-- what "order-preserving de-duplication" means: no duplicates, same elements, order of first occurrences -/
theorem dedup_characterisation (l : List Nat) :
    (dedupKeepFirst l).Nodup ∧ (∀ x, x ∈ dedupKeepFirst l ↔ x ∈ l) ∧ (dedupKeepFirst l).Sublist l ∧
      dedupKeepFirst l = l.eraseDups :=
  ⟨dedupKeepFirst_nodup l, mem_dedupKeepFirst l, dedupKeepFirst_sublist l, dedupKeepFirst_eq_eraseDups l⟩

/-- every queried position finds its folded position (the `unwrap` in `get_query_values` cannot fail) -/
theorem folded_position_found {ps folded : List Nat} {n N : Nat} (h : n / N ≠ 0)
    (hf : foldPositions ps n N = some folded) :
    ∀ p ∈ ps, ∃ idx, folded.idxOf? (p % (n / N)) = some idx ∧ folded[idx]? = some (p % (n / N)) :=
  foldPositions_idxOf h hf

/-! ## layout -/

/-- row `r` of the transposed layer holds the evaluations at positions `r + j·(n/N)`, `j < N` -/
theorem transposed_row_layout {α : Type} (N : Nat) (xs : List α) (m : Nat) (hN : 0 < N) (h : xs.length = m * N) :
    ∃ rows, transpose N xs = some rows ∧ rows.length = m ∧
      ∀ r, r < m → ∃ row, rows[r]? = some row ∧ row.length = N ∧ ∀ j, j < N → row[j]? = xs[r + j * m]? :=
  transpose_some N xs m hN h

/-- `get_query_values` on the rows the prover opens at the folded positions returns `f(position)` for every
    queried position (duplicates and positions that collide after folding included) -/
theorem get_query_values_returns_value_at_position {α : Type} (N m : Nat) (hN : 0 < N) (hm : 0 < m)
    (xs : List α) (hlen : xs.length = m * N) (ps : List Nat) (hps : ∀ p ∈ ps, p < m * N) :
    ∃ rowsT folded opened vals, transpose N xs = some rowsT ∧ foldPositions ps (m * N) N = some folded ∧
      queryLayer ⟨rowsT⟩ folded = some opened ∧ getQueryValues opened ps folded (m * N) N = some vals ∧
      vals.length = ps.length ∧ ∀ k, (hk : k < ps.length) → vals[k]? = xs[ps[k]]? :=
  getQueryValues_honest' N m hN hm xs hlen ps hps

/-! ## number of layers, size of the remainder -/

/-- `num_fri_layers` (defined by well-founded recursion: it terminates for every folding factor `≥ 2`) returns
    the least `L` with `domain / N^L ≤ (remainder_max_degree+1)·blowup` -/
theorem num_fri_layers_spec (o : Opts) (d : Nat) :
    d / o.folding ^ (numFriLayers o d) ≤ (o.remMaxDeg + 1) * o.blowup ∧
      ∀ k, k < numFriLayers o d → (o.remMaxDeg + 1) * o.blowup < d / o.folding ^ k :=
  numFriLayers_spec o d

theorem num_fri_layers_le_log2 (o : Opts) (d : Nat) (hb : 0 < o.blowup) : numFriLayers o d ≤ Nat.log2 d :=
  numFriLayers_le_log2 o d hb

/-- the remainder (`len/blowup` coefficients of the last layer) has at most `remainder_max_degree + 1`
    coefficients -/
theorem remainder_has_le_max_coefficients (o : Opts) (d : Nat) (hb : 0 < o.blowup) :
    d / o.folding ^ (numFriLayers o d) / o.blowup ≤ o.remMaxDeg + 1 :=
  remainder_len_le o d hb

/-! ## prover reuse -/

/-- after `build_proof` the prover is in its initial state -/
theorem build_proof_resets_prover {α : Type} (o : Opts) (p p' : Prover α) (ps : List Nat)
    (pls : List (ProofLayer α)) (rem : List α) (h : p.buildProof o ps = .ok (p', pls, rem)) :
    p' = Prover.init := by
  unfold Prover.buildProof at h
  simp only at h
  repeat' (split at h)
  all_goals first | (cases h; rfl) | (simp at h)

/-- … and the initial state passes the assertion of `build_layers` ("a prior proof generation request has not
    been completed yet"): a further request behaves exactly as on a fresh prover -/
theorem reset_prover_accepts_new_request {α : Type} (F : FOps α) (o : Opts) (p : Prover α) (αs evals : List α) :
    Prover.buildLayers F o p.reset αs evals = Prover.buildLayers F o Prover.init αs evals := rfl

/-! ## completeness -/

section complete
variable {F : Type} [Field F] [DecidableEq F] (root : ℕ → F) (rootOk : ℕ → Bool) (offset : F)

/-- COMPLETENESS (`fri_complete_partial`).  For every polynomial `f` of degree `< t·N^L` (the bound), every
    non-empty list of in-range query positions (duplicates, collisions after folding), every list of challenges:
    the honest prover does not panic, is back in its initial state after `build_proof`, its remainder has `t`
    coefficients, and the verifier — given the opened rows with Merkle flag `true`, the commitments with the hash
    of the remainder last, and the claimed evaluations `f(position)` — accepts.
    Proved in full ON THE MODEL.  What is partial with respect to the code:
      * Merkle completeness (C10) enters as the flag `true` of every honest opening, the hash as a function
        `hashRem` with a lawful equality on digests;
      * that `serial_fft`/`interpolate_poly_with_offset` compute the (inverse) DFT the model uses is C09, that
        `interpolate_batch` computes the Lagrange interpolant is C20: tied by the correspondence run, not proved;
      * the roots of unity must be coherent (`StepOK`: `get_root_of_unity(k) = TWO_ADIC_ROOT^(2^(S−k))`), C07;
      * configurations with `t = 0` (the folding overshoots the remainder) are excluded: there the property
        fails, see `overshoot_config_has_no_proof`. -/
theorem fri_complete_partial (o : Opts) (t L : ℕ) (ht : 0 < t) (hb : 0 < o.blowup)
    (hpow : nextPow2 (t * o.folding ^ L) = t * o.folding ^ L)
    (ht2 : 2 ^ Nat.log2 t = t)
    (hL : numFriLayers o (t * o.blowup * o.folding ^ L) = L)
    (hsteps : ∀ j, j < L → StepOK root rootOk o.folding (t * o.blowup * o.folding ^ (L - j)))
    (hlastok : rootOk (Nat.log2 (t * o.blowup)) = true)
    (hlastprim : IsPrimitiveRoot (root (Nat.log2 (t * o.blowup))) (t * o.blowup))
    (hlast2 : 2 ^ Nat.log2 (t * o.blowup) = t * o.blowup)
    (hoff : offset ≠ 0) (f : F[X]) (hf : f.natDegree < t * o.folding ^ L)
    (αs : List F) (hαs : αs.length = L + 1)
    (positions : List ℕ) (hpos : ∀ p ∈ positions, p < t * o.blowup * o.folding ^ L) (hne : positions ≠ [])
    {D : Type} [BEq D] [LawfulBEq D] (hashRem : List F → D) (layerCommits : List D)
    (hlc : layerCommits.length = L) :
    ∃ st pls rem,
      Prover.buildLayers (fieldOps root rootOk offset) o Prover.init αs
        (evalsOf offset (root (Nat.log2 (t * o.blowup * o.folding ^ L))) f (t * o.blowup * o.folding ^ L)) = .ok st ∧
      st.buildProof o positions = .ok (Prover.init, pls, rem) ∧
      rem.length = t ∧
      verify (fieldOps root rootOk offset) true hashRem o
        { maxPolyDegree := t * o.folding ^ L - 1
          numPartitions := 1
          commitments := layerCommits ++ [hashRem rem]
          alphas := αs
          layers := pls.map (fun pl => ⟨true, pl⟩)
          remainder := rem
          positions := positions
          evaluations := positions.map
            ((evalsOf offset (root (Nat.log2 (t * o.blowup * o.folding ^ L))) f
              (t * o.blowup * o.folding ^ L)).getD · 0) } = .ok () :=
  fri_complete_model root rootOk offset o t L ht hb hpow ht2 hL hsteps hlastok hlastprim hlast2 hoff f hf αs hαs
    positions hpos hne hashRem layerCommits hlc

end complete

/-! ### the hypotheses of `fri_complete_partial` are satisfiable: folding 2, one layer, over `ZMod 17` -/

section example17

instance : Fact (Nat.Prime 17) := ⟨by decide⟩

/-- `get_root_of_unity(k)` of the field with 17 elements (3 generates the multiplicative group, of order 2^4) -/
def root17 (k : ℕ) : ZMod 17 := 3 ^ (16 / 2 ^ k)
def rootOk17 (k : ℕ) : Bool := k != 0 && decide (k ≤ 4)
/-- blowup 2, folding 2, remainder of up to 2 coefficients -/
def opts17 : Opts := ⟨2, 2, 1, Or.inl rfl⟩

theorem prim17 (k : ℕ) (hk : k ≤ 4) : IsPrimitiveRoot (root17 k) (2 ^ k) := by
  interval_cases k <;>
    exact IsPrimitiveRoot.mk_of_lt _ (by norm_num) (by decide)
      (by intro l hl0 hl; interval_cases l <;> decide)

/-- trace length 4 = 2·2^1 (t = 2 remainder coefficients, L = 1 layer), domain 8, f = X³ + 2X + 5, queries with a
    duplicate and a collision after folding -/
example : ∃ st pls rem,
    Prover.buildLayers (fieldOps root17 rootOk17 3) opts17 Prover.init [2, 7]
      (evalsOf 3 (root17 (Nat.log2 8)) (X ^ 3 + C 2 * X + C 5) 8) = .ok st ∧
    st.buildProof opts17 [1, 5, 1, 6] = .ok (Prover.init, pls, rem) ∧ rem.length = 2 ∧
    verify (fieldOps root17 rootOk17 3) true id opts17
      { maxPolyDegree := 3, numPartitions := 1, commitments := [[]] ++ [id rem], alphas := [2, 7],
        layers := pls.map (fun pl => ⟨true, pl⟩), remainder := rem, positions := [1, 5, 1, 6],
        evaluations := [1, 5, 1, 6].map
          ((evalsOf 3 (root17 (Nat.log2 8)) (X ^ 3 + C 2 * X + C 5 : (ZMod 17)[X]) 8).getD · 0) } = .ok () := by
  have hstep : StepOK root17 rootOk17 2 8 :=
    { ok := by decide
      okN := by decide
      prim := by
        have : Nat.log2 8 = 3 := by decide
        rw [this]; exact prim17 3 (by norm_num)
      zeta := by
        have h8 : Nat.log2 8 = 3 := by decide
        have h2 : Nat.log2 2 = 1 := by decide
        rw [h8, h2]; decide
      next := by
        have h8 : Nat.log2 8 = 3 := by decide
        have h4 : Nat.log2 (8 / 2) = 2 := by decide
        rw [h8, h4]; decide }
  have hdeg : (X ^ 3 + C 2 * X + C 5 : (ZMod 17)[X]).natDegree < 2 * 2 ^ 1 := by
    have : (X ^ 3 + C 2 * X + C 5 : (ZMod 17)[X]).natDegree ≤ 3 := by
      compute_degree
    omega
  have h := fri_complete_partial root17 rootOk17 (3 : ZMod 17) opts17 2 1 (by norm_num) (by decide)
    (by decide) (by decide) (by decide +kernel)
    (fun j hj => by
      have : j = 0 := by omega
      subst this
      exact hstep)
    (by decide)
    (by
      have : Nat.log2 (2 * opts17.blowup) = 2 := by decide
      rw [this]; exact prim17 2 (by norm_num))
    (by decide) (by decide) (X ^ 3 + C 2 * X + C 5) hdeg [2, 7] rfl [1, 5, 1, 6]
    (by decide) (by decide) (D := List (ZMod 17)) id [[]] rfl
  exact h

end example17

/-! ## the known finding: configurations whose folding overshoots the remainder -/

/-- Witness of the known finding `fri.overshoot-config.panic`: when `domain / N^layers < blowup` (the folding jumps
    from above `remainder_max_degree + 1` coefficients to below one) no proof exists — `build_layers` either panics
    or leaves an empty remainder, on which `build_proof` panics; for every field, polynomial, α's and queries.
    `fri_complete_partial` excludes exactly these configurations (`0 < t`, `trace length = t·N^L`). -/
theorem overshoot_config_has_no_proof {α : Type} (F : FOps α) (o : Opts) (αs evals : List α)
    (positions : List Nat)
    (hover : evals.length / o.folding ^ numFriLayers o evals.length < o.blowup)
    (st : Prover α) (h : Prover.buildLayers F o Prover.init αs evals = .ok st) :
    ∃ s, st.buildProof o positions = .panic s :=
  overshoot_no_proof F o αs evals positions hover st h

/-- a configuration accepted by `FriOptions::new` (and by `ProofOptions::new` with trace length 8) that overshoots:
    blowup 2, folding 4, remainder degree 0, domain 16 (trace length 8): two layers, last domain 1 < blowup -/
theorem overshoot_config_exists :
    let o : Opts := ⟨2, 4, 0, Or.inr (Or.inl rfl)⟩
    numFriLayers o 16 = 2 ∧ 16 / o.folding ^ numFriLayers o 16 < o.blowup := by
  decide +kernel

/-- hence completeness as the property states it ("every supported folding factor, blowup factor, remainder size")
    fails on the model of the code: for this configuration no input makes prover and verifier succeed -/
theorem fri_complete_fails_on_overshoot {α : Type} (F : FOps α) (αs evals : List α) (hlen : evals.length = 16)
    (positions : List Nat) :
    ¬ ∃ st st' pls rem,
      Prover.buildLayers F ⟨2, 4, 0, Or.inr (Or.inl rfl)⟩ Prover.init αs evals = .ok st ∧
      st.buildProof ⟨2, 4, 0, Or.inr (Or.inl rfl)⟩ positions = .ok (st', pls, rem) := by
  rintro ⟨st, st', pls, rem, h1, h2⟩
  obtain ⟨s, hs⟩ := overshoot_no_proof F ⟨2, 4, 0, Or.inr (Or.inl rfl)⟩ αs evals positions
    (by rw [hlen]; exact overshoot_config_exists.2) st h1
  rw [hs] at h2
  exact absurd h2 (by simp)

/-! ## tie T: the option logic as regenerated from fri/src/options.rs on this run

`Gen.FriOpts.*` is what translate/gen.py makes of `FriOptions::new`, the accessors and `num_fri_layers` on every
run of the check.  The theorems below equate it with the model functions all the theorems above are about
(`Opts.new?`, `numFriLayers`), for all arguments: an edit of the Rust functions that changes a value or the
panic behaviour on any argument breaks one of them. -/

/-- ★ `FriOptions::new` (regenerated) accepts exactly what the model constructor accepts and stores the same
    three numbers -/
theorem gen_fri_options_new_eq_model (b f r : Nat) :
    (Gen.FriOpts.new_ok b f r = true ↔ (Opts.new? b f r).isSome = true) ∧
    ∀ o, Opts.new? b f r = some o → Gen.FriOpts.new b f r = (o.folding, o.remMaxDeg, o.blowup) :=
  C15G.gen_new_eq_model b f r

/-- ★ `num_fri_layers` (regenerated, the `while` loop as fuelled recursion) equals the model's `numFriLayers`
    for every option record, every `usize` domain size and every fuel `≥ 64`; it overflows exactly when
    `remainder_max_degree + 1` or `(remainder_max_degree + 1)·blowup_factor` does not fit a `usize` -/
theorem gen_num_fri_layers_eq_model (o : Opts) (d N : Nat) (hd : d < 18446744073709551616) (hN : 64 ≤ N) :
    Gen.FriOpts.num_fri_layers N o.blowup o.folding o.remMaxDeg d = numFriLayers o d ∧
    (Gen.FriOpts.num_fri_layers_ok N o.blowup o.folding o.remMaxDeg d = true ↔
      (o.remMaxDeg + 1 < 18446744073709551616 ∧ (o.remMaxDeg + 1) * o.blowup < 18446744073709551616)) :=
  C15G.gen_num_fri_layers_eq_model o d N hd hN

/-- hence the layer-count specification holds of the regenerated function -/
theorem gen_num_fri_layers_spec (o : Opts) (d N : Nat) (hd : d < 18446744073709551616) (hN : 64 ≤ N) :
    let L := Gen.FriOpts.num_fri_layers N o.blowup o.folding o.remMaxDeg d
    d / o.folding ^ L ≤ (o.remMaxDeg + 1) * o.blowup ∧ ∀ k, k < L → (o.remMaxDeg + 1) * o.blowup < d / o.folding ^ k := by
  intro L
  have : L = numFriLayers o d := (C15G.gen_num_fri_layers_eq_model o d N hd hN).1
  rw [this]; exact numFriLayers_spec o d

example : Gen.FriOpts.num_fri_layers 64 8 4 31 (2 ^ 20) = 6 ∧ Gen.FriOpts.num_fri_layers_ok 64 8 4 31 (2 ^ 20) = true := by
  decide +kernel

/-- ★ `fold_positions` (regenerated from fri/src/folding/mod.rs on this run, Winter/Gen/FriPos.lean) IS the
    model's `foldPositions` for every folding factor `≠ 0` (hence the de-duplication theorems above hold of it) -/
theorem gen_fold_positions_eq_model (ps : List Nat) (d f : Nat) (hf : f ≠ 0) :
    foldPositions ps d f =
      if Gen.FriPos.fold_positions_ok ps d f then some (Gen.FriPos.fold_positions ps d f) else none :=
  C15G.gen_fold_positions_eq_model ps d f hf

/-- ★ `map_positions_to_indexes` (regenerated from fri/src/utils.rs): whenever its no-panic condition holds —
    one partition, or non-zero folding factor and partition count and every index within `usize` — the model
    returns the regenerated list -/
theorem gen_map_positions_eq_model (ps : List Nat) (d f np : Nat)
    (h : np = 1 ∨ (f ≠ 0 ∧ np ≠ 0 ∧
      ∀ p ∈ ps, (p % np) * (d / f / np) + (p - p % np) / np < 18446744073709551616)) :
    Gen.FriPos.map_positions_to_indexes_ok ps d f np = true ∧
    mapPositionsToIndexes ps d f np = some (Gen.FriPos.map_positions_to_indexes ps d f np) := by
  have hk := (C15G.gen_map_positions_ok_iff ps d f np).mpr h
  exact ⟨hk, C15G.gen_map_positions_eq_model ps d f np hk⟩

/-- where no caller goes the hand model is more lenient than the code (recorded, not repaired: a zero folding
    factor / zero partitions is excluded by `FriOptions::new` and by the callers): the Rust functions divide by
    zero before their loops even for an empty position list, the model answers `some []` -/
theorem position_models_lenient_witness :
    (foldPositions [] 8 0 = some [] ∧ Gen.FriPos.fold_positions_ok [] 8 0 = false) ∧
    (mapPositionsToIndexes [] 8 2 0 = some [] ∧ Gen.FriPos.map_positions_to_indexes_ok [] 8 2 0 = false) :=
  ⟨C15G.fold_positions_zero_folding_witness, C15G.map_positions_zero_partitions_witness⟩

example : Gen.FriPos.fold_positions [3, 11, 5, 19] 32 4 = [3, 5] ∧
    Gen.FriPos.map_positions_to_indexes [3, 5] 32 4 2 = [5, 6] := by decide

end WinterProofs.C15
