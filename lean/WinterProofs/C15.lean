-- C15: FRI completeness and the folding identity (property theorems)
import Winter.Model.Fri

namespace WinterProofs.C15
open Model.Fri

/-- prover reuse: `build_proof` leaves the prover in its initial state -/
theorem prover_reset_eq_init {α : Type} (p : Prover α) : p.reset = Prover.init := rfl

end WinterProofs.C15
