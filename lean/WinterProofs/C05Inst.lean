-- C05, instantiated: (a) the per-layer Merkle Boolean of the verifier model connected to property C10
-- (`verify_batch` of lean/Winter/Model/Merkle.lean and `batch_binding`), (b) the decision theorems for the raw-word
-- records of the three base fields, read in `ZMod p` through property C07 (added below once the naturality lemmas
-- are in place).
import WinterProofs.C05
import WinterProofs.C10
import WinterProofs.Lemmas.C15Hom
import WinterProofs.Lemmas.C15Refines

namespace WinterProofs.C05
open Model.Fri

/-! ## the Merkle flag is `verify_batch`, and what it binds -/

section merkle
variable {α D : Type} [DecidableEq D]

/-- How the verifier's channel obtains the flag of a layer (fri/src/verifier/channel.rs `read_layer_queries`,
    fri/src/proof.rs `FriProofLayer::parse`): the leaves of the batch opening are the hashes of the opened rows
    (`hashed_queries`), and the flag is `MerkleTree::verify_batch(commitment, indexes, proof) = Ok`.  This is the
    explicit form of the abstraction "Merkle verification is a Boolean per layer" of Winter/Model/Fri.lean. -/
structure FlagIsVerifyBatch (H : Model.Merkle.Hasher D) (hashRow : List α → D) (commitment : D)
    (indexes : List Nat) (op : Opening α) (p : Model.Merkle.BatchProof D) : Prop where
  leaves : p.leaves = op.rows.map hashRow
  flag : op.merkleOk = true ↔ Model.Merkle.verifyBatch H commitment indexes p = .ok ()

/-- With a collision-free `merge` (C10's `MergeInj`) and a collision-free row hash: if the flag of a layer is true,
    the opened rows ARE the committed rows at the requested indexes (which are distinct and in range), whatever
    nodes the opening carries.  `committed` are the rows of the prover's layer (`2^d` of them), `commitment` the root
    of the tree over their hashes, `d` the depth the verifier supplies (`log2(domain/N)`). -/
theorem accepted_rows_are_committed (H : Model.Merkle.Hasher D) (inj : C10.MergeInj H)
    (hashRow : List α → D) (hrow : Function.Injective hashRow)
    (committed : List (List α)) (d : Nat) (hd1 : 1 ≤ d) (hl : committed.length = 2 ^ d)
    (commitment : D) (hroot : (C10.treeOf H (committed.map hashRow)).root = .ok commitment)
    (indexes : List Nat) (op : Opening α) (p : Model.Merkle.BatchProof D) (hdp : p.depth = d)
    (hf : FlagIsVerifyBatch H hashRow commitment indexes op p) (hok : op.merkleOk = true) :
    indexes.Nodup ∧ indexes.length = op.rows.length ∧
      ∀ j (hj : j < indexes.length), indexes[j] < 2 ^ d ∧ op.rows[j]? = committed[indexes[j]]? := by
  have hv := hf.flag.mp hok
  obtain ⟨h1, h2, h3⟩ := C10.batch_binding H inj (committed.map hashRow) d hd1 (by simpa using hl) commitment
    hroot p hdp indexes hv
  rw [hf.leaves, List.length_map] at h2
  refine ⟨h1, h2, fun j hj => ?_⟩
  obtain ⟨h4, h5⟩ := h3 j hj
  refine ⟨h4, ?_⟩
  rw [hf.leaves, List.getElem?_map, List.getElem?_map] at h5
  cases hr : op.rows[j]? with
  | none =>
    rw [hr] at h5
    cases hc : committed[indexes[j]]? with
    | none => rfl
    | some c => rw [hc] at h5; simp at h5
  | some r =>
    rw [hr] at h5
    cases hc : committed[indexes[j]]? with
    | none => rw [hc] at h5; simp at h5
    | some c =>
      rw [hc] at h5
      simp only [Option.map_some, Option.some.injEq] at h5
      rw [hrow h5]

/-- In an accepted run (one partition, so the indexes are the folded positions) every layer's opened rows are the
    rows the prover committed to at the folded positions: part "(ii) the opened row is the committed one" of the
    property, with the Merkle flag replaced by its meaning. -/
theorem layerOk_rows_are_committed (F : FOps α) (N : Nat) (inp : VInput α D) (roots : List α) (depth : Nat)
    (st st' : VState α) (hlay : LayerOk F N inp roots depth st st')
    (H : Model.Merkle.Hasher D) (inj : C10.MergeInj H) (hashRow : List α → D) (hrow : Function.Injective hashRow)
    (committed : List (List α)) (d : Nat) (hd1 : 1 ≤ d) (hl : committed.length = 2 ^ d)
    (commitment : D) (hroot : (C10.treeOf H (committed.map hashRow)).root = .ok commitment)
    (p : Model.Merkle.BatchProof D) (hdp : p.depth = d)
    (hf : ∀ folded op, foldPositions st.positions st.domainSize N = some folded → inp.layers[depth]? = some op →
      FlagIsVerifyBatch H hashRow commitment folded op p) :
    ∃ folded op, foldPositions st.positions st.domainSize N = some folded ∧ inp.layers[depth]? = some op ∧
      ∀ j (hj : j < folded.length), folded[j] < 2 ^ d ∧ op.rows[j]? = committed[folded[j]]? := by
  obtain ⟨folded, op, _, _, hfold, hop, _, hm, _, _, _, _, _, _⟩ := hlay
  obtain ⟨_, _, h3⟩ := accepted_rows_are_committed H inj hashRow hrow committed d hd1 hl commitment hroot folded op p
    hdp (hf folded op hfold hop) hm
  exact ⟨folded, op, hfold, hop, h3⟩

end merkle

/-! ## the decision theorems for raw words, read in `ZMod p` -/

section raw
open WinterProofs.C15H WinterProofs.C15 Polynomial
variable {O : FOps ℕ} {p : ℕ} [Fact p.Prime] {ok : ℕ → Prop} {val : ℕ → ZMod p} {T : ℕ} {D : Type}

/-- an accepting run of the verifier on raw words is an accepting run of the verifier over `ZMod p` on the residues
    (and conversely: the two runs return the same verdict, `C15H.verify_nat`) -/
theorem accept_raw_iff_field (H : FRefines O p ok val T) [BEq D] (cc : Bool) (hashRem : List ℕ → D)
    (hashRem' : List (ZMod p) → D) (hh : ∀ l, okL ok l → hashRem' (l.map val) = hashRem l) (o : Opts)
    (inp : VInput ℕ D) (hinp : okInp ok inp)
    (hdom : nextPow2 (inp.maxPolyDegree + 1) * o.blowup < 2 ^ 64) :
    verify O cc hashRem o inp = verify (absOps O val) cc hashRem' o (mapInp val inp) :=
  (verify_nat H cc hashRem hashRem' hh o inp hinp hdom).symm

/-- over a field the checks of one layer iteration mean: the carried values EQUAL the opened values at the queried
    positions, and the values carried on are the values at `α` of the Lagrange interpolants (Mathlib's
    `Lagrange.interpolate`) of the opened rows over the row points -/
theorem layerOk_field_meaning {F : Type} [Field F] [DecidableEq F] (root : ℕ → F) (rootOk : ℕ → Bool) (offset : F)
    (N : ℕ) (inp : VInput F D) (roots : List F) (hroots : roots.length = N) (depth : ℕ) (st st' : VState F)
    (h : LayerOk (fieldOps root rootOk offset) N inp roots depth st st') :
    ∃ folded opening alpha,
      foldPositions st.positions st.domainSize N = some folded ∧ inp.layers[depth]? = some opening ∧
      inp.alphas[depth]? = some alpha ∧ opening.merkleOk = true ∧
      getQueryValues opening.rows st.positions folded st.domainSize N = some st.evals ∧
      st.maxDegPlus1 % N = 0 ∧ st'.positions = folded ∧
      st'.evals = (folded.zip opening.rows).map fun (i, row) =>
        (Lagrange.interpolate (Finset.range N)
          (fun j => (rowPoints (fieldOps root rootOk offset) roots st.domainGen i).getD j 0)
          (fun j => row.getD j 0)).eval alpha := by
  obtain ⟨folded, opening, alpha, qv, hf, ho, ha, hm, hlen, hrows, hq, hb, hd, hst⟩ := h
  have hqv : st.evals = qv := (beqList_fieldOps root rootOk offset st.evals qv).mp hb
  refine ⟨folded, opening, alpha, hf, ho, ha, hm, by rw [hqv]; exact hq, hd, by rw [hst]; rfl, ?_⟩
  rw [hst]
  simp only [nextState]
  apply List.map_congr_left
  intro ⟨i, row⟩ hmem
  have hrow : row ∈ opening.rows := (List.of_mem_zip hmem).2
  have hl : (rowPoints (fieldOps root rootOk offset) roots st.domainGen i).length = row.length := by
    rw [rowPoints_fieldOps, List.length_map, hroots, hrows row hrow]
  have := lagrangeEval_eq_interpolate root rootOk offset
    (rowPoints (fieldOps root rootOk offset) roots st.domainGen i) row hl alpha
  rw [this, hl, hrows row hrow]

/-- **(3) `accept_folding_consistent` for raw words**: an accepting raw run yields, on the residues, a chain of
    layer iterations over `ZMod p` (whose meaning is `layerOk_field_meaning`) -/
theorem accept_folding_consistent_raw (H : FRefines O p ok val T) [BEq D] (cc : Bool) (hashRem : List ℕ → D)
    (hashRem' : List (ZMod p) → D) (hh : ∀ l, okL ok l → hashRem' (l.map val) = hashRem l) (o : Opts)
    (inp : VInput ℕ D) (hinp : okInp ok inp)
    (hdom : nextPow2 (inp.maxPolyDegree + 1) * o.blowup < 2 ^ 64)
    (h : verify O cc hashRem o inp = .ok ()) :
    ∃ stL, Chain (absOps O val) o.folding (mapInp val inp) (foldingRoots (absOps O val) o (mapInp val inp))
      (numFriLayers o (nextPow2 (inp.maxPolyDegree + 1) * o.blowup)) 0
      (initState (absOps O val) o (mapInp val inp)) stL := by
  rw [accept_raw_iff_field H cc hashRem hashRem' hh o inp hinp hdom] at h
  exact accept_folding_consistent (absOps O val) cc hashRem' o (mapInp val inp) h

/-- **(3) `accept_remainder` for raw words**: an accepting run of the repaired verifier on raw words implies that
    the hash of the raw remainder is the commitment after the layer commitments, that the remainder has at most
    `max_degree_plus_1` coefficients, and that the remainder POLYNOMIAL over `ZMod p` (coefficients = residues of
    the raw remainder) takes, at every folded position's domain point, the value the layer loop ended with -/
theorem accept_remainder_raw (H : FRefines O p ok val T) [BEq D] (hashRem : List ℕ → D)
    (hashRem' : List (ZMod p) → D) (hh : ∀ l, okL ok l → hashRem' (l.map val) = hashRem l) (o : Opts)
    (inp : VInput ℕ D) (hinp : okInp ok inp)
    (hdom : nextPow2 (inp.maxPolyDegree + 1) * o.blowup < 2 ^ 64)
    (h : verify O true hashRem o inp = .ok ()) :
    let L := numFriLayers o (nextPow2 (inp.maxPolyDegree + 1) * o.blowup)
    remainderCommitted hashRem inp L = true ∧
    inp.remainder.length ≤ (inp.maxPolyDegree + 1) / o.folding ^ L ∧
    ∃ stL, Chain (absOps O val) o.folding (mapInp val inp) (foldingRoots (absOps O val) o (mapInp val inp)) L 0
        (initState (absOps O val) o (mapInp val inp)) stL ∧
      ∀ pe ∈ stL.positions.zip stL.evals,
        (listPoly (inp.remainder.map val)).eval (val O.offset * stL.domainGen ^ pe.1) = pe.2 := by
  have hraw := accept_remainder O hashRem o inp h
  have hfield := h
  rw [accept_raw_iff_field H true hashRem hashRem' hh o inp hinp hdom] at hfield
  obtain ⟨_, h2, stL, hchain, hall⟩ := accept_remainder (absOps O val) hashRem' o (mapInp val inp) hfield
  refine ⟨hraw.1, hraw.2.1, stL, hchain, fun pe hpe => ?_⟩
  have := hall pe hpe
  simp only [absOps, fieldOps_beq, decide_eq_true_eq, fieldOps_mul, fieldOps_offset, pow_fieldOps] at this
  rw [eval_listPoly (fun k => val (O.root k)) O.rootOk (val O.offset)]
  exact this

/-- the three base fields: an accepting raw run is an accepting run over `ZMod p` on the residues, hence (i)–(iii)
    hold for the residues with no algebraic hypothesis left -/
theorem f64_accept_remainder [BEq D] (hashRem : List ℕ → D) (hashRem' : List (ZMod F64Z.P) → D)
    (hh : ∀ l, okL F64Z.Inv l → hashRem' (l.map F64Z.val) = hashRem l) (o : Opts) (inp : VInput ℕ D)
    (hinp : okInp F64Z.Inv inp) (hdom : nextPow2 (inp.maxPolyDegree + 1) * o.blowup < 2 ^ 64)
    (h : verify (baseOps Model.F64.impl) true hashRem o inp = .ok ()) :
    let L := numFriLayers o (nextPow2 (inp.maxPolyDegree + 1) * o.blowup)
    remainderCommitted hashRem inp L = true ∧
    inp.remainder.length ≤ (inp.maxPolyDegree + 1) / o.folding ^ L ∧
    ∃ stL, Chain (absOps (baseOps Model.F64.impl) F64Z.val) o.folding (mapInp F64Z.val inp)
        (foldingRoots (absOps (baseOps Model.F64.impl) F64Z.val) o (mapInp F64Z.val inp)) L 0
        (initState (absOps (baseOps Model.F64.impl) F64Z.val) o (mapInp F64Z.val inp)) stL ∧
      ∀ pe ∈ stL.positions.zip stL.evals,
        (listPoly (inp.remainder.map F64Z.val)).eval
          (F64Z.val (baseOps Model.F64.impl).offset * stL.domainGen ^ pe.1) = pe.2 :=
  accept_remainder_raw f64_frefines hashRem hashRem' hh o inp hinp hdom h

theorem f62_accept_remainder [BEq D] (hashRem : List ℕ → D) (hashRem' : List (ZMod F62Z.P) → D)
    (hh : ∀ l, okL F62Z.Inv l → hashRem' (l.map F62Z.val) = hashRem l) (o : Opts) (inp : VInput ℕ D)
    (hinp : okInp F62Z.Inv inp) (hdom : nextPow2 (inp.maxPolyDegree + 1) * o.blowup < 2 ^ 64)
    (h : verify (baseOps Model.F62.impl) true hashRem o inp = .ok ()) :
    let L := numFriLayers o (nextPow2 (inp.maxPolyDegree + 1) * o.blowup)
    remainderCommitted hashRem inp L = true ∧
    inp.remainder.length ≤ (inp.maxPolyDegree + 1) / o.folding ^ L ∧
    ∃ stL, Chain (absOps (baseOps Model.F62.impl) F62Z.val) o.folding (mapInp F62Z.val inp)
        (foldingRoots (absOps (baseOps Model.F62.impl) F62Z.val) o (mapInp F62Z.val inp)) L 0
        (initState (absOps (baseOps Model.F62.impl) F62Z.val) o (mapInp F62Z.val inp)) stL ∧
      ∀ pe ∈ stL.positions.zip stL.evals,
        (listPoly (inp.remainder.map F62Z.val)).eval
          (F62Z.val (baseOps Model.F62.impl).offset * stL.domainGen ^ pe.1) = pe.2 :=
  accept_remainder_raw f62_frefines hashRem hashRem' hh o inp hinp hdom h

theorem f128_accept_remainder [BEq D] (hashRem : List ℕ → D) (hashRem' : List (ZMod F128Z.P) → D)
    (hh : ∀ l, okL F128Z.Inv l → hashRem' (l.map F128Z.val) = hashRem l) (o : Opts) (inp : VInput ℕ D)
    (hinp : okInp F128Z.Inv inp) (hdom : nextPow2 (inp.maxPolyDegree + 1) * o.blowup < 2 ^ 64)
    (h : verify (baseOps Model.F128.impl) true hashRem o inp = .ok ()) :
    let L := numFriLayers o (nextPow2 (inp.maxPolyDegree + 1) * o.blowup)
    remainderCommitted hashRem inp L = true ∧
    inp.remainder.length ≤ (inp.maxPolyDegree + 1) / o.folding ^ L ∧
    ∃ stL, Chain (absOps (baseOps Model.F128.impl) F128Z.val) o.folding (mapInp F128Z.val inp)
        (foldingRoots (absOps (baseOps Model.F128.impl) F128Z.val) o (mapInp F128Z.val inp)) L 0
        (initState (absOps (baseOps Model.F128.impl) F128Z.val) o (mapInp F128Z.val inp)) stL ∧
      ∀ pe ∈ stL.positions.zip stL.evals,
        (listPoly (inp.remainder.map F128Z.val)).eval
          (F128Z.val (baseOps Model.F128.impl).offset * stL.domainGen ^ pe.1) = pe.2 :=
  accept_remainder_raw f128_frefines hashRem hashRem' hh o inp hinp hdom h

theorem f64_accept_folding_consistent [BEq D] (cc : Bool) (hashRem : List ℕ → D)
    (hashRem' : List (ZMod F64Z.P) → D) (hh : ∀ l, okL F64Z.Inv l → hashRem' (l.map F64Z.val) = hashRem l)
    (o : Opts) (inp : VInput ℕ D) (hinp : okInp F64Z.Inv inp)
    (hdom : nextPow2 (inp.maxPolyDegree + 1) * o.blowup < 2 ^ 64)
    (h : verify (baseOps Model.F64.impl) cc hashRem o inp = .ok ()) :
    ∃ stL, Chain (absOps (baseOps Model.F64.impl) F64Z.val) o.folding (mapInp F64Z.val inp)
      (foldingRoots (absOps (baseOps Model.F64.impl) F64Z.val) o (mapInp F64Z.val inp))
      (numFriLayers o (nextPow2 (inp.maxPolyDegree + 1) * o.blowup)) 0
      (initState (absOps (baseOps Model.F64.impl) F64Z.val) o (mapInp F64Z.val inp)) stL :=
  accept_folding_consistent_raw f64_frefines cc hashRem hashRem' hh o inp hinp hdom h

theorem f62_accept_folding_consistent [BEq D] (cc : Bool) (hashRem : List ℕ → D)
    (hashRem' : List (ZMod F62Z.P) → D) (hh : ∀ l, okL F62Z.Inv l → hashRem' (l.map F62Z.val) = hashRem l)
    (o : Opts) (inp : VInput ℕ D) (hinp : okInp F62Z.Inv inp)
    (hdom : nextPow2 (inp.maxPolyDegree + 1) * o.blowup < 2 ^ 64)
    (h : verify (baseOps Model.F62.impl) cc hashRem o inp = .ok ()) :
    ∃ stL, Chain (absOps (baseOps Model.F62.impl) F62Z.val) o.folding (mapInp F62Z.val inp)
      (foldingRoots (absOps (baseOps Model.F62.impl) F62Z.val) o (mapInp F62Z.val inp))
      (numFriLayers o (nextPow2 (inp.maxPolyDegree + 1) * o.blowup)) 0
      (initState (absOps (baseOps Model.F62.impl) F62Z.val) o (mapInp F62Z.val inp)) stL :=
  accept_folding_consistent_raw f62_frefines cc hashRem hashRem' hh o inp hinp hdom h

theorem f128_accept_folding_consistent [BEq D] (cc : Bool) (hashRem : List ℕ → D)
    (hashRem' : List (ZMod F128Z.P) → D) (hh : ∀ l, okL F128Z.Inv l → hashRem' (l.map F128Z.val) = hashRem l)
    (o : Opts) (inp : VInput ℕ D) (hinp : okInp F128Z.Inv inp)
    (hdom : nextPow2 (inp.maxPolyDegree + 1) * o.blowup < 2 ^ 64)
    (h : verify (baseOps Model.F128.impl) cc hashRem o inp = .ok ()) :
    ∃ stL, Chain (absOps (baseOps Model.F128.impl) F128Z.val) o.folding (mapInp F128Z.val inp)
      (foldingRoots (absOps (baseOps Model.F128.impl) F128Z.val) o (mapInp F128Z.val inp))
      (numFriLayers o (nextPow2 (inp.maxPolyDegree + 1) * o.blowup)) 0
      (initState (absOps (baseOps Model.F128.impl) F128Z.val) o (mapInp F128Z.val inp)) stL :=
  accept_folding_consistent_raw f128_frefines cc hashRem hashRem' hh o inp hinp hdom h

end raw

end WinterProofs.C05
