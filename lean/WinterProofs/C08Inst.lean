-- C08, instantiated: the hypothesis `Implements` of WinterProofs/C08.lean discharged from the theorems of property C07
-- (WinterProofs/C07.lean: 64-bit field, C07F62.lean: 62-bit field, C07F128.lean: 128-bit field), so that the
-- statements about the five extensions hold for the raw words the code computes on with NO remaining hypothesis:
-- `q64_*`, `c64_*`, `q62_*`, `c62_*`, `q128_*` (`_raw_arith`, `_raw_refines`, `_raw_inverse`).
import WinterProofs.C08
import WinterProofs.C07
import WinterProofs.C07F62
import WinterProofs.C07F128

set_option linter.unusedSectionVars false
set_option linter.unusedSimpArgs false

namespace WinterProofs.C08
open Model WinterProofs.C08L

-- ================================================================================================ 64-bit field
section F64
open WinterProofs.F64Z

/-- property C07 for the 64-bit field, in the form C08 consumes: on raw words `< M` the operations of
    `Model.F64.impl` (generated `add sub mul neg double new eq`, hand-modelled `inv`) compute in `ZMod p` -/
theorem f64_implements : Implements Model.F64.impl F64Z.P F64Z.Inv F64Z.val where
  add a b ha hb := ⟨(C07.F64.add_correct a b ha hb).1, (C07.F64.add_correct a b ha hb).2.1⟩
  sub a b ha hb := C07.F64.sub_correct a b ha hb
  mul a b ha hb := C07.F64.mul_correct a b ha hb
  neg a ha := C07.F64.neg_correct a ha
  double a ha := C07.F64.double_correct a ha
  bits := Nat.le_refl 64
  new n hn := C07.F64.new_correct n hn
  eq a b ha hb := C07.F64.eq_correct a b ha hb
  inv a ha := ⟨Model.F64.inv a, rfl, (C07.F64.inv_correct a ha).1, (C07.F64.inv_correct a ha).2⟩

theorem q64_phi_pow_P : (PQ2.φ : PQ2 (ZMod F64Z.P) 1 (-2)) ^ F64Z.P = ⟨1, -1⟩ :=
  @q64_phi_pow ⟨C07.F64.modulus_prime⟩

theorem c64_frob3_P : Frob3 (p := F64Z.P) 1 1 (k64 (ZMod F64Z.P)) :=
  @c64_frob3 ⟨C07.F64.modulus_prime⟩

/-- the documented irreducibles of the 64-bit field, with primality of the modulus discharged (C07) -/
theorem q64_irreducible_P : Irreducible (Polynomial.X ^ 2 - Polynomial.X + 2 : Polynomial (ZMod F64Z.P)) :=
  @q64_irreducible ⟨C07.F64.modulus_prime⟩

theorem c64_irreducible_P : Irreducible (Polynomial.X ^ 3 - Polynomial.X - 1 : Polynomial (ZMod F64Z.P)) :=
  @c64_irreducible ⟨C07.F64.modulus_prime⟩


/-- q64 on raw words: arithmetic and inversion through the norm -/
theorem q64_raw_refines (a b : Quad ℕ) (c : ℕ) (ha : okQ F64Z.Inv a) (hb : okQ F64Z.Inv b) (hc : F64Z.Inv c) :
    (okQ F64Z.Inv (Quad.mul (Ext2.f64 (BOps.ofImpl Model.F64.impl).toFOps) a b) ∧
      Quad.map F64Z.val (Quad.mul (Ext2.f64 (BOps.ofImpl Model.F64.impl).toFOps) a b) =
        Quad.mul (Ext2.f64 (ringOps (ZMod F64Z.P))) (Quad.map F64Z.val a) (Quad.map F64Z.val b)) ∧
    (okQ F64Z.Inv (Quad.square (Ext2.f64 (BOps.ofImpl Model.F64.impl).toFOps) a) ∧
      Quad.map F64Z.val (Quad.square (Ext2.f64 (BOps.ofImpl Model.F64.impl).toFOps) a) =
        Quad.square (Ext2.f64 (ringOps (ZMod F64Z.P))) (Quad.map F64Z.val a)) ∧
    (okQ F64Z.Inv (Quad.mulBase (Ext2.f64 (BOps.ofImpl Model.F64.impl).toFOps) a c) ∧
      Quad.map F64Z.val (Quad.mulBase (Ext2.f64 (BOps.ofImpl Model.F64.impl).toFOps) a c) =
        Quad.mulBase (Ext2.f64 (ringOps (ZMod F64Z.P))) (Quad.map F64Z.val a) (F64Z.val c)) ∧
    (okQ F64Z.Inv (Quad.conjugate (Ext2.f64 (BOps.ofImpl Model.F64.impl).toFOps) a) ∧
      Quad.map F64Z.val (Quad.conjugate (Ext2.f64 (BOps.ofImpl Model.F64.impl).toFOps) a) =
        Quad.conjugate (Ext2.f64 (ringOps (ZMod F64Z.P))) (Quad.map F64Z.val a)) ∧
    (okQ F64Z.Inv (Quad.add (BOps.ofImpl Model.F64.impl) a b) ∧
      Quad.map F64Z.val (Quad.add (BOps.ofImpl Model.F64.impl) a b) = Quad.add (fieldBOps F64Z.P) (Quad.map F64Z.val a) (Quad.map F64Z.val b)) ∧
    (okQ F64Z.Inv (Quad.sub (BOps.ofImpl Model.F64.impl) a b) ∧
      Quad.map F64Z.val (Quad.sub (BOps.ofImpl Model.F64.impl) a b) = Quad.sub (fieldBOps F64Z.P) (Quad.map F64Z.val a) (Quad.map F64Z.val b)) ∧
    (okQ F64Z.Inv (Quad.neg (BOps.ofImpl Model.F64.impl) a) ∧
      Quad.map F64Z.val (Quad.neg (BOps.ofImpl Model.F64.impl) a) = Quad.neg (fieldBOps F64Z.P) (Quad.map F64Z.val a)) ∧
    (okQ F64Z.Inv (Quad.double (BOps.ofImpl Model.F64.impl) a) ∧
      Quad.map F64Z.val (Quad.double (BOps.ofImpl Model.F64.impl) a) = Quad.double (fieldBOps F64Z.P) (Quad.map F64Z.val a)) ∧
    ((∀ y, Quad.inv (BOps.ofImpl Model.F64.impl) (Ext2.f64 (BOps.ofImpl Model.F64.impl).toFOps) a = .ok y → okQ F64Z.Inv y) ∧
      Res.map (Quad.map F64Z.val) (Quad.inv (BOps.ofImpl Model.F64.impl) (Ext2.f64 (BOps.ofImpl Model.F64.impl).toFOps) a) =
        Quad.inv (fieldBOps F64Z.P) (Ext2.f64 (ringOps (ZMod F64Z.P))) (Quad.map F64Z.val a)) :=
  quad_raw_refines f64_implements (fun O => Ext2.f64 O) (fun H => f64_ext2_hom H) a b c ha hb hc

/-- q64 on raw words: `inv` returns (no panic, no hang) an invariant-satisfying element denoting the inverse, zero for zero -/
theorem q64_raw_inverse (a : Quad ℕ) (ha : okQ F64Z.Inv a) :
    ∃ y, Quad.inv (BOps.ofImpl Model.F64.impl) (Ext2.f64 (BOps.ofImpl Model.F64.impl).toFOps) a = .ok y ∧ okQ F64Z.Inv y ∧
      (Quad.map F64Z.val a = ⟨0, 0⟩ → Quad.map F64Z.val y = ⟨0, 0⟩) ∧
      (Quad.map F64Z.val a ≠ ⟨0, 0⟩ →
        Quad.mul (Ext2.f64 (ringOps (ZMod F64Z.P))) (Quad.map F64Z.val a) (Quad.map F64Z.val y) = Quad.one (fieldBOps F64Z.P)) :=
  quad_raw_inverse f64_implements (fun O => Ext2.f64 O) (fun H => f64_ext2_hom H) q64_spec one_ne_zero q64_phi_pow_P a ha

/-- c64 on raw words: arithmetic and inversion through the norm -/
theorem c64_raw_refines (a b : Cube ℕ) (c : ℕ) (ha : okC F64Z.Inv a) (hb : okC F64Z.Inv b) (hc : F64Z.Inv c) :
    (okC F64Z.Inv (Cube.mul (Ext3.f64 (BOps.ofImpl Model.F64.impl).toFOps) a b) ∧
      Cube.map F64Z.val (Cube.mul (Ext3.f64 (BOps.ofImpl Model.F64.impl).toFOps) a b) =
        Cube.mul (Ext3.f64 (ringOps (ZMod F64Z.P))) (Cube.map F64Z.val a) (Cube.map F64Z.val b)) ∧
    (okC F64Z.Inv (Cube.square (Ext3.f64 (BOps.ofImpl Model.F64.impl).toFOps) a) ∧
      Cube.map F64Z.val (Cube.square (Ext3.f64 (BOps.ofImpl Model.F64.impl).toFOps) a) =
        Cube.square (Ext3.f64 (ringOps (ZMod F64Z.P))) (Cube.map F64Z.val a)) ∧
    (okC F64Z.Inv (Cube.mulBase (Ext3.f64 (BOps.ofImpl Model.F64.impl).toFOps) a c) ∧
      Cube.map F64Z.val (Cube.mulBase (Ext3.f64 (BOps.ofImpl Model.F64.impl).toFOps) a c) =
        Cube.mulBase (Ext3.f64 (ringOps (ZMod F64Z.P))) (Cube.map F64Z.val a) (F64Z.val c)) ∧
    (okC F64Z.Inv (Cube.conjugate (Ext3.f64 (BOps.ofImpl Model.F64.impl).toFOps) a) ∧
      Cube.map F64Z.val (Cube.conjugate (Ext3.f64 (BOps.ofImpl Model.F64.impl).toFOps) a) =
        Cube.conjugate (Ext3.f64 (ringOps (ZMod F64Z.P))) (Cube.map F64Z.val a)) ∧
    (okC F64Z.Inv (Cube.add (BOps.ofImpl Model.F64.impl) a b) ∧
      Cube.map F64Z.val (Cube.add (BOps.ofImpl Model.F64.impl) a b) = Cube.add (fieldBOps F64Z.P) (Cube.map F64Z.val a) (Cube.map F64Z.val b)) ∧
    (okC F64Z.Inv (Cube.sub (BOps.ofImpl Model.F64.impl) a b) ∧
      Cube.map F64Z.val (Cube.sub (BOps.ofImpl Model.F64.impl) a b) = Cube.sub (fieldBOps F64Z.P) (Cube.map F64Z.val a) (Cube.map F64Z.val b)) ∧
    (okC F64Z.Inv (Cube.neg (BOps.ofImpl Model.F64.impl) a) ∧
      Cube.map F64Z.val (Cube.neg (BOps.ofImpl Model.F64.impl) a) = Cube.neg (fieldBOps F64Z.P) (Cube.map F64Z.val a)) ∧
    (okC F64Z.Inv (Cube.double (BOps.ofImpl Model.F64.impl) a) ∧
      Cube.map F64Z.val (Cube.double (BOps.ofImpl Model.F64.impl) a) = Cube.double (fieldBOps F64Z.P) (Cube.map F64Z.val a)) ∧
    ((∀ y, Cube.inv (BOps.ofImpl Model.F64.impl) (Ext3.f64 (BOps.ofImpl Model.F64.impl).toFOps) a = .ok y → okC F64Z.Inv y) ∧
      Res.map (Cube.map F64Z.val) (Cube.inv (BOps.ofImpl Model.F64.impl) (Ext3.f64 (BOps.ofImpl Model.F64.impl).toFOps) a) =
        Cube.inv (fieldBOps F64Z.P) (Ext3.f64 (ringOps (ZMod F64Z.P))) (Cube.map F64Z.val a)) :=
  cube_raw_refines f64_implements (fun O => Ext3.f64 O) (fun H => f64_ext3_hom H) a b c ha hb hc

/-- c64 on raw words: `inv` returns (no panic, no hang) an invariant-satisfying element denoting the inverse, zero for zero -/
theorem c64_raw_inverse (a : Cube ℕ) (ha : okC F64Z.Inv a) :
    ∃ y, Cube.inv (BOps.ofImpl Model.F64.impl) (Ext3.f64 (BOps.ofImpl Model.F64.impl).toFOps) a = .ok y ∧ okC F64Z.Inv y ∧
      (Cube.map F64Z.val a = ⟨0, 0, 0⟩ → Cube.map F64Z.val y = ⟨0, 0, 0⟩) ∧
      (Cube.map F64Z.val a ≠ ⟨0, 0, 0⟩ →
        Cube.mul (Ext3.f64 (ringOps (ZMod F64Z.P))) (Cube.map F64Z.val a) (Cube.map F64Z.val y) = Cube.one (fieldBOps F64Z.P)) :=
  cube_raw_inverse f64_implements (fun O => Ext3.f64 O) (fun H => f64_ext3_hom H) c64_spec c64_frob3_P a ha


/-- non-vacuity: concrete raw words (Montgomery images of 5, 7, p-1) satisfy the invariant hypotheses -/
example : okQ F64Z.Inv ⟨Gen.F64.new 5, Gen.F64.new 7⟩ ∧
    okC F64Z.Inv ⟨Gen.F64.new 5, Gen.F64.new 18446744069414584320, 0⟩ :=
  ⟨⟨(C07.F64.new_correct 5 (by decide)).1, (C07.F64.new_correct 7 (by decide)).1⟩,
   ⟨(C07.F64.new_correct 5 (by decide)).1, (C07.F64.new_correct _ (by decide)).1, by unfold F64Z.Inv; decide⟩⟩

end F64


-- ================================================================================================ 62-bit field
section F62
open WinterProofs.F62Z

/-- property C07 for the 62-bit field, arithmetic part (raw words `< 2M`, possibly non-normalised) -/
theorem f62_implements_arith : ImplementsArith Model.F62.impl F62Z.P F62Z.Inv F62Z.val where
  add a b ha hb := ⟨(C07.F62.add_correct a b ha hb).1, (C07.F62.add_correct a b ha hb).2.1⟩
  sub a b ha hb := ⟨(C07.F62.sub_correct a b ha hb).1, (C07.F62.sub_correct a b ha hb).2.1⟩
  mul a b ha hb := ⟨(C07.F62.mul_correct a b ha hb).1, (C07.F62.mul_correct a b ha hb).2.1⟩
  neg a ha := ⟨(C07.F62.neg_correct a ha).1, (C07.F62.neg_correct a ha).2.1⟩
  double a ha := ⟨(C07.F62.double_correct a ha).1, (C07.F62.double_correct a ha).2.1⟩
  bits := Nat.le_refl 64
  new n hn := ⟨(C07.F62.new_correct n hn).1, (C07.F62.new_correct n hn).2.1⟩
  eq a b ha hb := (C07.F62.eq_correct a b ha hb).1

/-- property C07 for the 62-bit field including the binary extended-GCD inversion (`Model.F62.inv`) -/
theorem f62_implements : Implements Model.F62.impl F62Z.P F62Z.Inv F62Z.val :=
  { f62_implements_arith with inv := fun a ha => C07.F62.inv_correct a ha }

theorem q62_phi_pow_P : (PQ2.φ : PQ2 (ZMod F62Z.P) 1 1) ^ F62Z.P = ⟨1, -1⟩ :=
  @q62_phi_pow ⟨C07.F62.modulus_prime⟩

theorem c62_frob3_P : Frob3 (p := F62Z.P) (-2) (-2) (k62 (ZMod F62Z.P)) :=
  @c62_frob3 ⟨C07.F62.modulus_prime⟩

/-- the documented irreducibles of the 62-bit field, with primality of the modulus discharged (C07) -/
theorem q62_irreducible_P : Irreducible (Polynomial.X ^ 2 - Polynomial.X - 1 : Polynomial (ZMod F62Z.P)) :=
  @q62_irreducible ⟨C07.F62.modulus_prime⟩

theorem c62_irreducible_P : Irreducible (Polynomial.X ^ 3 + 2 * Polynomial.X + 2 : Polynomial (ZMod F62Z.P)) :=
  @c62_irreducible ⟨C07.F62.modulus_prime⟩

/-- q62 on raw words: every arithmetic operation preserves the representation invariant and computes in `ZMod p` -/
theorem q62_raw_arith (a b : Quad ℕ) (c : ℕ) (ha : okQ F62Z.Inv a) (hb : okQ F62Z.Inv b) (hc : F62Z.Inv c) :
    (okQ F62Z.Inv (Quad.mul (Ext2.f62 (BOps.ofImpl Model.F62.impl).toFOps) a b) ∧
      Quad.map F62Z.val (Quad.mul (Ext2.f62 (BOps.ofImpl Model.F62.impl).toFOps) a b) =
        Quad.mul (Ext2.f62 (ringOps (ZMod F62Z.P))) (Quad.map F62Z.val a) (Quad.map F62Z.val b)) ∧
    (okQ F62Z.Inv (Quad.square (Ext2.f62 (BOps.ofImpl Model.F62.impl).toFOps) a) ∧
      Quad.map F62Z.val (Quad.square (Ext2.f62 (BOps.ofImpl Model.F62.impl).toFOps) a) =
        Quad.square (Ext2.f62 (ringOps (ZMod F62Z.P))) (Quad.map F62Z.val a)) ∧
    (okQ F62Z.Inv (Quad.mulBase (Ext2.f62 (BOps.ofImpl Model.F62.impl).toFOps) a c) ∧
      Quad.map F62Z.val (Quad.mulBase (Ext2.f62 (BOps.ofImpl Model.F62.impl).toFOps) a c) =
        Quad.mulBase (Ext2.f62 (ringOps (ZMod F62Z.P))) (Quad.map F62Z.val a) (F62Z.val c)) ∧
    (okQ F62Z.Inv (Quad.conjugate (Ext2.f62 (BOps.ofImpl Model.F62.impl).toFOps) a) ∧
      Quad.map F62Z.val (Quad.conjugate (Ext2.f62 (BOps.ofImpl Model.F62.impl).toFOps) a) =
        Quad.conjugate (Ext2.f62 (ringOps (ZMod F62Z.P))) (Quad.map F62Z.val a)) ∧
    (okQ F62Z.Inv (Quad.add (BOps.ofImpl Model.F62.impl) a b) ∧
      Quad.map F62Z.val (Quad.add (BOps.ofImpl Model.F62.impl) a b) = Quad.add (fieldBOps F62Z.P) (Quad.map F62Z.val a) (Quad.map F62Z.val b)) ∧
    (okQ F62Z.Inv (Quad.sub (BOps.ofImpl Model.F62.impl) a b) ∧
      Quad.map F62Z.val (Quad.sub (BOps.ofImpl Model.F62.impl) a b) = Quad.sub (fieldBOps F62Z.P) (Quad.map F62Z.val a) (Quad.map F62Z.val b)) ∧
    (okQ F62Z.Inv (Quad.neg (BOps.ofImpl Model.F62.impl) a) ∧
      Quad.map F62Z.val (Quad.neg (BOps.ofImpl Model.F62.impl) a) = Quad.neg (fieldBOps F62Z.P) (Quad.map F62Z.val a)) ∧
    (okQ F62Z.Inv (Quad.double (BOps.ofImpl Model.F62.impl) a) ∧
      Quad.map F62Z.val (Quad.double (BOps.ofImpl Model.F62.impl) a) = Quad.double (fieldBOps F62Z.P) (Quad.map F62Z.val a)) :=
  quad_raw_arith f62_implements_arith (fun O => Ext2.f62 O) (fun H => f62_ext2_hom H) a b c ha hb hc

/-- q62 on raw words: arithmetic and inversion through the norm -/
theorem q62_raw_refines (a b : Quad ℕ) (c : ℕ) (ha : okQ F62Z.Inv a) (hb : okQ F62Z.Inv b) (hc : F62Z.Inv c) :
    (okQ F62Z.Inv (Quad.mul (Ext2.f62 (BOps.ofImpl Model.F62.impl).toFOps) a b) ∧
      Quad.map F62Z.val (Quad.mul (Ext2.f62 (BOps.ofImpl Model.F62.impl).toFOps) a b) =
        Quad.mul (Ext2.f62 (ringOps (ZMod F62Z.P))) (Quad.map F62Z.val a) (Quad.map F62Z.val b)) ∧
    (okQ F62Z.Inv (Quad.square (Ext2.f62 (BOps.ofImpl Model.F62.impl).toFOps) a) ∧
      Quad.map F62Z.val (Quad.square (Ext2.f62 (BOps.ofImpl Model.F62.impl).toFOps) a) =
        Quad.square (Ext2.f62 (ringOps (ZMod F62Z.P))) (Quad.map F62Z.val a)) ∧
    (okQ F62Z.Inv (Quad.mulBase (Ext2.f62 (BOps.ofImpl Model.F62.impl).toFOps) a c) ∧
      Quad.map F62Z.val (Quad.mulBase (Ext2.f62 (BOps.ofImpl Model.F62.impl).toFOps) a c) =
        Quad.mulBase (Ext2.f62 (ringOps (ZMod F62Z.P))) (Quad.map F62Z.val a) (F62Z.val c)) ∧
    (okQ F62Z.Inv (Quad.conjugate (Ext2.f62 (BOps.ofImpl Model.F62.impl).toFOps) a) ∧
      Quad.map F62Z.val (Quad.conjugate (Ext2.f62 (BOps.ofImpl Model.F62.impl).toFOps) a) =
        Quad.conjugate (Ext2.f62 (ringOps (ZMod F62Z.P))) (Quad.map F62Z.val a)) ∧
    (okQ F62Z.Inv (Quad.add (BOps.ofImpl Model.F62.impl) a b) ∧
      Quad.map F62Z.val (Quad.add (BOps.ofImpl Model.F62.impl) a b) = Quad.add (fieldBOps F62Z.P) (Quad.map F62Z.val a) (Quad.map F62Z.val b)) ∧
    (okQ F62Z.Inv (Quad.sub (BOps.ofImpl Model.F62.impl) a b) ∧
      Quad.map F62Z.val (Quad.sub (BOps.ofImpl Model.F62.impl) a b) = Quad.sub (fieldBOps F62Z.P) (Quad.map F62Z.val a) (Quad.map F62Z.val b)) ∧
    (okQ F62Z.Inv (Quad.neg (BOps.ofImpl Model.F62.impl) a) ∧
      Quad.map F62Z.val (Quad.neg (BOps.ofImpl Model.F62.impl) a) = Quad.neg (fieldBOps F62Z.P) (Quad.map F62Z.val a)) ∧
    (okQ F62Z.Inv (Quad.double (BOps.ofImpl Model.F62.impl) a) ∧
      Quad.map F62Z.val (Quad.double (BOps.ofImpl Model.F62.impl) a) = Quad.double (fieldBOps F62Z.P) (Quad.map F62Z.val a)) ∧
    ((∀ y, Quad.inv (BOps.ofImpl Model.F62.impl) (Ext2.f62 (BOps.ofImpl Model.F62.impl).toFOps) a = .ok y → okQ F62Z.Inv y) ∧
      Res.map (Quad.map F62Z.val) (Quad.inv (BOps.ofImpl Model.F62.impl) (Ext2.f62 (BOps.ofImpl Model.F62.impl).toFOps) a) =
        Quad.inv (fieldBOps F62Z.P) (Ext2.f62 (ringOps (ZMod F62Z.P))) (Quad.map F62Z.val a)) :=
  quad_raw_refines f62_implements (fun O => Ext2.f62 O) (fun H => f62_ext2_hom H) a b c ha hb hc

/-- q62 on raw words: `inv` returns (no panic, no hang) an invariant-satisfying element denoting the inverse, zero for zero -/
theorem q62_raw_inverse (a : Quad ℕ) (ha : okQ F62Z.Inv a) :
    ∃ y, Quad.inv (BOps.ofImpl Model.F62.impl) (Ext2.f62 (BOps.ofImpl Model.F62.impl).toFOps) a = .ok y ∧ okQ F62Z.Inv y ∧
      (Quad.map F62Z.val a = ⟨0, 0⟩ → Quad.map F62Z.val y = ⟨0, 0⟩) ∧
      (Quad.map F62Z.val a ≠ ⟨0, 0⟩ →
        Quad.mul (Ext2.f62 (ringOps (ZMod F62Z.P))) (Quad.map F62Z.val a) (Quad.map F62Z.val y) = Quad.one (fieldBOps F62Z.P)) :=
  quad_raw_inverse f62_implements (fun O => Ext2.f62 O) (fun H => f62_ext2_hom H) q62_spec one_ne_zero q62_phi_pow_P a ha

/-- c62 on raw words: every arithmetic operation preserves the representation invariant and computes in `ZMod p` -/
theorem c62_raw_arith (a b : Cube ℕ) (c : ℕ) (ha : okC F62Z.Inv a) (hb : okC F62Z.Inv b) (hc : F62Z.Inv c) :
    (okC F62Z.Inv (Cube.mul (Ext3.f62 (BOps.ofImpl Model.F62.impl).toFOps) a b) ∧
      Cube.map F62Z.val (Cube.mul (Ext3.f62 (BOps.ofImpl Model.F62.impl).toFOps) a b) =
        Cube.mul (Ext3.f62 (ringOps (ZMod F62Z.P))) (Cube.map F62Z.val a) (Cube.map F62Z.val b)) ∧
    (okC F62Z.Inv (Cube.square (Ext3.f62 (BOps.ofImpl Model.F62.impl).toFOps) a) ∧
      Cube.map F62Z.val (Cube.square (Ext3.f62 (BOps.ofImpl Model.F62.impl).toFOps) a) =
        Cube.square (Ext3.f62 (ringOps (ZMod F62Z.P))) (Cube.map F62Z.val a)) ∧
    (okC F62Z.Inv (Cube.mulBase (Ext3.f62 (BOps.ofImpl Model.F62.impl).toFOps) a c) ∧
      Cube.map F62Z.val (Cube.mulBase (Ext3.f62 (BOps.ofImpl Model.F62.impl).toFOps) a c) =
        Cube.mulBase (Ext3.f62 (ringOps (ZMod F62Z.P))) (Cube.map F62Z.val a) (F62Z.val c)) ∧
    (okC F62Z.Inv (Cube.conjugate (Ext3.f62 (BOps.ofImpl Model.F62.impl).toFOps) a) ∧
      Cube.map F62Z.val (Cube.conjugate (Ext3.f62 (BOps.ofImpl Model.F62.impl).toFOps) a) =
        Cube.conjugate (Ext3.f62 (ringOps (ZMod F62Z.P))) (Cube.map F62Z.val a)) ∧
    (okC F62Z.Inv (Cube.add (BOps.ofImpl Model.F62.impl) a b) ∧
      Cube.map F62Z.val (Cube.add (BOps.ofImpl Model.F62.impl) a b) = Cube.add (fieldBOps F62Z.P) (Cube.map F62Z.val a) (Cube.map F62Z.val b)) ∧
    (okC F62Z.Inv (Cube.sub (BOps.ofImpl Model.F62.impl) a b) ∧
      Cube.map F62Z.val (Cube.sub (BOps.ofImpl Model.F62.impl) a b) = Cube.sub (fieldBOps F62Z.P) (Cube.map F62Z.val a) (Cube.map F62Z.val b)) ∧
    (okC F62Z.Inv (Cube.neg (BOps.ofImpl Model.F62.impl) a) ∧
      Cube.map F62Z.val (Cube.neg (BOps.ofImpl Model.F62.impl) a) = Cube.neg (fieldBOps F62Z.P) (Cube.map F62Z.val a)) ∧
    (okC F62Z.Inv (Cube.double (BOps.ofImpl Model.F62.impl) a) ∧
      Cube.map F62Z.val (Cube.double (BOps.ofImpl Model.F62.impl) a) = Cube.double (fieldBOps F62Z.P) (Cube.map F62Z.val a)) :=
  cube_raw_arith f62_implements_arith (fun O => Ext3.f62 O) (fun H => f62_ext3_hom H) a b c ha hb hc

/-- c62 on raw words: arithmetic and inversion through the norm -/
theorem c62_raw_refines (a b : Cube ℕ) (c : ℕ) (ha : okC F62Z.Inv a) (hb : okC F62Z.Inv b) (hc : F62Z.Inv c) :
    (okC F62Z.Inv (Cube.mul (Ext3.f62 (BOps.ofImpl Model.F62.impl).toFOps) a b) ∧
      Cube.map F62Z.val (Cube.mul (Ext3.f62 (BOps.ofImpl Model.F62.impl).toFOps) a b) =
        Cube.mul (Ext3.f62 (ringOps (ZMod F62Z.P))) (Cube.map F62Z.val a) (Cube.map F62Z.val b)) ∧
    (okC F62Z.Inv (Cube.square (Ext3.f62 (BOps.ofImpl Model.F62.impl).toFOps) a) ∧
      Cube.map F62Z.val (Cube.square (Ext3.f62 (BOps.ofImpl Model.F62.impl).toFOps) a) =
        Cube.square (Ext3.f62 (ringOps (ZMod F62Z.P))) (Cube.map F62Z.val a)) ∧
    (okC F62Z.Inv (Cube.mulBase (Ext3.f62 (BOps.ofImpl Model.F62.impl).toFOps) a c) ∧
      Cube.map F62Z.val (Cube.mulBase (Ext3.f62 (BOps.ofImpl Model.F62.impl).toFOps) a c) =
        Cube.mulBase (Ext3.f62 (ringOps (ZMod F62Z.P))) (Cube.map F62Z.val a) (F62Z.val c)) ∧
    (okC F62Z.Inv (Cube.conjugate (Ext3.f62 (BOps.ofImpl Model.F62.impl).toFOps) a) ∧
      Cube.map F62Z.val (Cube.conjugate (Ext3.f62 (BOps.ofImpl Model.F62.impl).toFOps) a) =
        Cube.conjugate (Ext3.f62 (ringOps (ZMod F62Z.P))) (Cube.map F62Z.val a)) ∧
    (okC F62Z.Inv (Cube.add (BOps.ofImpl Model.F62.impl) a b) ∧
      Cube.map F62Z.val (Cube.add (BOps.ofImpl Model.F62.impl) a b) = Cube.add (fieldBOps F62Z.P) (Cube.map F62Z.val a) (Cube.map F62Z.val b)) ∧
    (okC F62Z.Inv (Cube.sub (BOps.ofImpl Model.F62.impl) a b) ∧
      Cube.map F62Z.val (Cube.sub (BOps.ofImpl Model.F62.impl) a b) = Cube.sub (fieldBOps F62Z.P) (Cube.map F62Z.val a) (Cube.map F62Z.val b)) ∧
    (okC F62Z.Inv (Cube.neg (BOps.ofImpl Model.F62.impl) a) ∧
      Cube.map F62Z.val (Cube.neg (BOps.ofImpl Model.F62.impl) a) = Cube.neg (fieldBOps F62Z.P) (Cube.map F62Z.val a)) ∧
    (okC F62Z.Inv (Cube.double (BOps.ofImpl Model.F62.impl) a) ∧
      Cube.map F62Z.val (Cube.double (BOps.ofImpl Model.F62.impl) a) = Cube.double (fieldBOps F62Z.P) (Cube.map F62Z.val a)) ∧
    ((∀ y, Cube.inv (BOps.ofImpl Model.F62.impl) (Ext3.f62 (BOps.ofImpl Model.F62.impl).toFOps) a = .ok y → okC F62Z.Inv y) ∧
      Res.map (Cube.map F62Z.val) (Cube.inv (BOps.ofImpl Model.F62.impl) (Ext3.f62 (BOps.ofImpl Model.F62.impl).toFOps) a) =
        Cube.inv (fieldBOps F62Z.P) (Ext3.f62 (ringOps (ZMod F62Z.P))) (Cube.map F62Z.val a)) :=
  cube_raw_refines f62_implements (fun O => Ext3.f62 O) (fun H => f62_ext3_hom H) a b c ha hb hc

/-- c62 on raw words: `inv` returns (no panic, no hang) an invariant-satisfying element denoting the inverse, zero for zero -/
theorem c62_raw_inverse (a : Cube ℕ) (ha : okC F62Z.Inv a) :
    ∃ y, Cube.inv (BOps.ofImpl Model.F62.impl) (Ext3.f62 (BOps.ofImpl Model.F62.impl).toFOps) a = .ok y ∧ okC F62Z.Inv y ∧
      (Cube.map F62Z.val a = ⟨0, 0, 0⟩ → Cube.map F62Z.val y = ⟨0, 0, 0⟩) ∧
      (Cube.map F62Z.val a ≠ ⟨0, 0, 0⟩ →
        Cube.mul (Ext3.f62 (ringOps (ZMod F62Z.P))) (Cube.map F62Z.val a) (Cube.map F62Z.val y) = Cube.one (fieldBOps F62Z.P)) :=
  cube_raw_inverse f62_implements (fun O => Ext3.f62 O) (fun H => f62_ext3_hom H) c62_spec c62_frob3_P a ha


/-- non-vacuity: concrete raw words, including the non-normalised zero `M`, satisfy the invariant hypotheses -/
example : okQ F62Z.Inv ⟨Gen.F62.new 5, Gen.F62.M⟩ ∧ okC F62Z.Inv ⟨Gen.F62.new 5, Gen.F62.M, 0⟩ :=
  ⟨⟨(C07.F62.new_correct 5 (by decide)).1, by unfold F62Z.Inv; decide⟩,
   ⟨(C07.F62.new_correct 5 (by decide)).1, by unfold F62Z.Inv; decide, by unfold F62Z.Inv; decide⟩⟩

end F62


-- ================================================================================================ 128-bit field
section F128
open WinterProofs.F128Z

/-- property C07 for the 128-bit field (canonical representation: raw word = residue `< M`) -/
theorem f128_implements : Implements Model.F128.impl F128Z.P F128Z.Inv F128Z.val where
  add a b ha hb := ⟨(C07.F128.add_correct a b ha hb).1, (C07.F128.add_correct a b ha hb).2.1⟩
  sub a b ha hb := ⟨(C07.F128.sub_correct a b ha hb).1, (C07.F128.sub_correct a b ha hb).2.1⟩
  mul a b ha hb := ⟨(C07.F128.mul_correct a b ha hb).1, (C07.F128.mul_correct a b ha hb).2.1⟩
  neg a ha := ⟨(C07.F128.neg_correct a ha).1, (C07.F128.neg_correct a ha).2.1⟩
  double a ha := C07.F128.double_correct a ha
  bits := by decide
  new n hn := ⟨(C07.F128.new_correct n hn).1, (C07.F128.new_correct n hn).2.1⟩
  eq a b ha hb := C07.F128.eq_correct a b ha hb
  inv a ha := C07.F128.inv_correct a ha

theorem q128_phi_pow_P : (PQ2.φ : PQ2 (ZMod F128Z.P) 1 1) ^ F128Z.P = ⟨1, -1⟩ :=
  @q128_phi_pow ⟨C07.F128.modulus_prime⟩

/-- the documented irreducible of the 128-bit field, with primality of the modulus discharged (C07) -/
theorem q128_irreducible_P : Irreducible (Polynomial.X ^ 2 - Polynomial.X - 1 : Polynomial (ZMod F128Z.P)) :=
  @q128_irreducible ⟨C07.F128.modulus_prime⟩

/-- q128 on raw words: arithmetic and inversion through the norm -/
theorem q128_raw_refines (a b : Quad ℕ) (c : ℕ) (ha : okQ F128Z.Inv a) (hb : okQ F128Z.Inv b) (hc : F128Z.Inv c) :
    (okQ F128Z.Inv (Quad.mul (Ext2.f128 (BOps.ofImpl Model.F128.impl).toFOps) a b) ∧
      Quad.map F128Z.val (Quad.mul (Ext2.f128 (BOps.ofImpl Model.F128.impl).toFOps) a b) =
        Quad.mul (Ext2.f128 (ringOps (ZMod F128Z.P))) (Quad.map F128Z.val a) (Quad.map F128Z.val b)) ∧
    (okQ F128Z.Inv (Quad.square (Ext2.f128 (BOps.ofImpl Model.F128.impl).toFOps) a) ∧
      Quad.map F128Z.val (Quad.square (Ext2.f128 (BOps.ofImpl Model.F128.impl).toFOps) a) =
        Quad.square (Ext2.f128 (ringOps (ZMod F128Z.P))) (Quad.map F128Z.val a)) ∧
    (okQ F128Z.Inv (Quad.mulBase (Ext2.f128 (BOps.ofImpl Model.F128.impl).toFOps) a c) ∧
      Quad.map F128Z.val (Quad.mulBase (Ext2.f128 (BOps.ofImpl Model.F128.impl).toFOps) a c) =
        Quad.mulBase (Ext2.f128 (ringOps (ZMod F128Z.P))) (Quad.map F128Z.val a) (F128Z.val c)) ∧
    (okQ F128Z.Inv (Quad.conjugate (Ext2.f128 (BOps.ofImpl Model.F128.impl).toFOps) a) ∧
      Quad.map F128Z.val (Quad.conjugate (Ext2.f128 (BOps.ofImpl Model.F128.impl).toFOps) a) =
        Quad.conjugate (Ext2.f128 (ringOps (ZMod F128Z.P))) (Quad.map F128Z.val a)) ∧
    (okQ F128Z.Inv (Quad.add (BOps.ofImpl Model.F128.impl) a b) ∧
      Quad.map F128Z.val (Quad.add (BOps.ofImpl Model.F128.impl) a b) = Quad.add (fieldBOps F128Z.P) (Quad.map F128Z.val a) (Quad.map F128Z.val b)) ∧
    (okQ F128Z.Inv (Quad.sub (BOps.ofImpl Model.F128.impl) a b) ∧
      Quad.map F128Z.val (Quad.sub (BOps.ofImpl Model.F128.impl) a b) = Quad.sub (fieldBOps F128Z.P) (Quad.map F128Z.val a) (Quad.map F128Z.val b)) ∧
    (okQ F128Z.Inv (Quad.neg (BOps.ofImpl Model.F128.impl) a) ∧
      Quad.map F128Z.val (Quad.neg (BOps.ofImpl Model.F128.impl) a) = Quad.neg (fieldBOps F128Z.P) (Quad.map F128Z.val a)) ∧
    (okQ F128Z.Inv (Quad.double (BOps.ofImpl Model.F128.impl) a) ∧
      Quad.map F128Z.val (Quad.double (BOps.ofImpl Model.F128.impl) a) = Quad.double (fieldBOps F128Z.P) (Quad.map F128Z.val a)) ∧
    ((∀ y, Quad.inv (BOps.ofImpl Model.F128.impl) (Ext2.f128 (BOps.ofImpl Model.F128.impl).toFOps) a = .ok y → okQ F128Z.Inv y) ∧
      Res.map (Quad.map F128Z.val) (Quad.inv (BOps.ofImpl Model.F128.impl) (Ext2.f128 (BOps.ofImpl Model.F128.impl).toFOps) a) =
        Quad.inv (fieldBOps F128Z.P) (Ext2.f128 (ringOps (ZMod F128Z.P))) (Quad.map F128Z.val a)) :=
  quad_raw_refines f128_implements (fun O => Ext2.f128 O) (fun H => f128_ext2_hom H) a b c ha hb hc

/-- q128 on raw words: `inv` returns (no panic, no hang) an invariant-satisfying element denoting the inverse, zero for zero -/
theorem q128_raw_inverse (a : Quad ℕ) (ha : okQ F128Z.Inv a) :
    ∃ y, Quad.inv (BOps.ofImpl Model.F128.impl) (Ext2.f128 (BOps.ofImpl Model.F128.impl).toFOps) a = .ok y ∧ okQ F128Z.Inv y ∧
      (Quad.map F128Z.val a = ⟨0, 0⟩ → Quad.map F128Z.val y = ⟨0, 0⟩) ∧
      (Quad.map F128Z.val a ≠ ⟨0, 0⟩ →
        Quad.mul (Ext2.f128 (ringOps (ZMod F128Z.P))) (Quad.map F128Z.val a) (Quad.map F128Z.val y) = Quad.one (fieldBOps F128Z.P)) :=
  quad_raw_inverse f128_implements (fun O => Ext2.f128 O) (fun H => f128_ext2_hom H) q128_spec one_ne_zero q128_phi_pow_P a ha



/-- non-vacuity: concrete raw words satisfy the invariant hypothesis -/
example : okQ F128Z.Inv ⟨5, Gen.F128.M - 1⟩ := ⟨by unfold F128Z.Inv; decide, by unfold F128Z.Inv; decide⟩

end F128

end WinterProofs.C08
