-- Theorems about the EXECUTABLE REFERENCE VERIFIER `Model.RefVerifier.refVerify` (the function the `refv` op of
-- the C03 driver runs on the proof bytes the real `winter_verifier::verify` was given).
--
-- (2) REFINEMENT (`refVerify_ok_iff`, `refVerify_ok_implies`): the verdict is `ok` exactly when the bytes parse,
--     the byte-level front end of `verify` passes (base field, acceptance policy, query count, AIR constructor,
--     extension, `VerifierChannel::new`), the computation fits the trace shape of the proof, and the abstract
--     decision function `VerifierChecks.verify` (the subject of the C02 / C03 / C05 decision theorems) accepts
--     the parsed content at the concrete verifier record `mkVerifier` (an instantiation record `Inst`: base field,
--     extensions, Rescue hasher, default coin; the data-driven AIR with or without auxiliary segment).  Unfolded:
--     the auxiliary random elements being the draws that follow the main commitment, the OOD consistency equation
--     between `evaluate_constraints` (main and auxiliary constraints) at the
--     drawn `z` and the recombined OOD evaluations, the proof-of-work bound, the positions being `sort; dedup`
--     of `draw_integers`, the Merkle verdict of every trace / constraint opening with leaves recomputed from
--     the opened rows by `hash_elements`, the FRI decision on the DEEP evaluations computed by the modelled
--     composer, and `hash_elements(remainder) = last FRI commitment`.
-- (1) NO PANIC: for EVERY byte string, a `panic` verdict of the reference verifier never comes from the byte-level
--     part (`Proof::from_bytes`, the security estimate, the front end of `verify` up to `VerifierChannel::new` —
--     C06's parser and front-end theorems composed with the verdict mapping; the value-producing channel parse is
--     proved panic free here, `channelParse_np`): `refVerify_never_panics_partial`.  The full statement
--     `RefVerifyTotal` — the ONLY panic verdicts are `AIR::new` and `evaluate_constraints` on a trace shape the
--     computation does not fit, which are panics of the REAL code (recorded finding c06.verify.air-new, witness
--     below), and the `expect` on `get_aux_rand_elements` (the coin failing to produce a field element within its
--     1000 tries while the auxiliary random elements are drawn: a panic site of the real code too) — is proved in
--     WinterProofs/RefVerifierTotal.lean (`refVerify_never_panics`): after the front end has
--     passed the decision function reaches none of its index sites (`fold_positions`, `get_query_values`, ...).
import WinterProofs.C06Parser
import WinterProofs.Lemmas.C02Decision
import WinterProofs.Lemmas.C03Bind
import Winter.Model.RefVerifier

set_option linter.unusedSectionVars false

namespace WinterProofs.RefVerifier
open Model Model.VerifierChecks Model.RefVerifier WinterProofs.C02L WinterProofs.C03L

/-! ## (2) what `ok` means -/

/-- the byte-level and structural part of acceptance -/
structure FrontPassed (J : Inst) (d : Desc) (pubs : List Nat) (acc : Acceptable) (bs : List Nat) (p : Serde.Proof)
    (ncols : Nat) (E : EOps) (c : ParsedChannel) : Prop where
  parsed : (Parse.parseProof bs).1 = .ok p
  baseField : p.context.modulus = (frontAir J d).modulusBytes
  policy : policyVerdict J d acc p.context = none
  front : (Parse.verifyFront (frontAir J d) p).1 = .pass
  air : Parse.airNew (frontAir J d) p.context.traceInfo p.context.options = some ncols
  ext : extOps J p.context.options.fieldExt = some E
  channel : channelParse (chanCfg J d p.context ncols) p = .ok c
  /-- (Lagrange kernel column) the serialized GKR proof, if there is one, decodes with no byte left over -/
  gkr : (d.lagrange && decide (p.context.traceInfo.aux > 0) && gkrUndecodable c.gkr) = false
  /-- the computation fits the trace shape of the proof, with the auxiliary random elements the verifier draws -/
  shape : shapeOk J E d pubs acc p.context c = true

/-- **refinement**: the executable reference verifier answers `ok` iff the front end passes and the abstract
    decision function accepts the parsed content at the concrete verifier record -/
theorem refVerify_ok_iff (J : Inst) (d : Desc) (pubs : List Nat) (acc : Acceptable) (bs : List Nat) :
    refVerify J d pubs acc bs = .ok ↔
      ∃ p ncols E c, FrontPassed J d pubs acc bs p ncols E c ∧
        VerifierChecks.verify (mkVerifier J E d pubs acc) p.context (some (committedOf J c, openedOf J c)) = .ok () := by
  constructor
  · intro h
    unfold refVerify at h
    split at h
    · rename_i p hp
      unfold refVerifyProof at h
      simp only at h
      split at h
      · cases h
      · rename_i hmod
        split at h
        · rename_i v hv
          -- a policy verdict is never `ok`
          exfalso
          unfold policyVerdict at hv
          split at hv
          · split at hv
            · injection hv with hv; subst hv; cases h
            · split at hv
              · injection hv with hv; subst hv; cases h
              · cases hv
          · split at hv
            · cases hv
            · injection hv with hv; subst hv; cases h
        · rename_i hpol
          split at h <;> try (cases h; done)
          rename_i hfront
          split at h
          · rename_i ncols E hair hext
            split at h <;> try (cases h; done)
            rename_i c hc
            split at h
            · cases h
            · rename_i hgkr
              split at h
              · cases h
              · rename_i hprep
                refine ⟨p, ncols, E, c, ⟨hp, Decidable.of_not_not hmod, hpol, hfront, hair, hext, hc, ?_, ?_⟩, ?_⟩
                · simpa using hgkr
                · simpa using hprep
                · unfold Verdict.ofExcept at h
                  split at h
                  · rename_i u hu; cases u; exact hu
                  · cases h
          · cases h
    · cases h
    · cases h
    · cases h
  · rintro ⟨p, ncols, E, c, ⟨hp, hmod, hpol, hfront, hair, hext, hc, hgkr, hprep⟩, hv⟩
    unfold refVerify
    rw [hp]
    simp only
    unfold refVerifyProof
    simp only
    rw [if_neg (by simp [hmod]), hpol]
    simp only
    rw [hfront]
    simp only
    rw [hair, hext]
    simp only
    rw [hc]
    simp only
    rw [hgkr, hprep, hv]
    rfl

/-! ## (2') unfolded: the individual checks -/

/-- `sumTerms` over a function that always returns -/
theorem sumTerms_total {α β : Type} (O : Divisor.Ops α) (f : β → Option α) (hf : ∀ b, ∃ v, f b = some v) :
    ∀ l : List β, ∃ v, Composition.sumTerms O f l = some v
  | [] => ⟨O.zero, rfl⟩
  | b :: bs => by
    obtain ⟨v, hv⟩ := hf b
    obtain ⟨r, hr⟩ := sumTerms_total O f hf bs
    exact ⟨O.add v r, by simp [Composition.sumTerms, hv, hr]⟩

/-- over a field record whose division always returns, `evaluate_constraints` returns a value -/
theorem evaluateConstraints_total {α : Type} (O : Divisor.Ops α) (hdiv : ∀ a b, ∃ r, O.div a b = some r)
    (air : Composition.Air α) (P : Composition.Prep α) (fr : Composition.Frames α) (rands : Nat → α)
    (tco bco : List α) (x : α) :
    ∃ v, Composition.evaluateConstraints O air P fr rands tco bco x = some v := by
  have hgrp : ∀ (state : Nat → α) (grp : Composition.BGroup α), ∃ v, grp.evalAt O state x = some v := by
    intro state grp
    unfold Composition.BGroup.evalAt Divisor.Divisor.evalAt
    obtain ⟨z, hz⟩ := hdiv (grp.divisor.evalNumerator O x) (grp.divisor.evalExemptions O x)
    obtain ⟨r, hr⟩ := hdiv
      (grp.items.foldl (fun num p => O.add num (O.mul (p.1.evalAt O x (state p.1.column)) p.2)) O.zero) z
    exact ⟨r, by simp [hz, hr]⟩
  unfold Composition.evaluateConstraints Divisor.Divisor.evalAt
  simp only []
  obtain ⟨z, hz⟩ := hdiv ((Composition.transitionDivisor O P.g air.n air.e).evalNumerator O x)
    ((Composition.transitionDivisor O P.g air.n air.e).evalExemptions O x)
  rw [hz]
  simp only [Option.bind_eq_bind, Option.bind_some, Option.pure_def]
  obtain ⟨r, hr⟩ := hdiv
    (if (List.drop air.mainCons.length tco).isEmpty = true then
      Composition.combine O (List.take air.mainCons.length tco)
        (List.map (fun c => c.eval O (Composition.mkEnv O fr (Composition.periodicAt O air.n P.perPolys x) rands)) air.mainCons)
    else
      O.add
        (Composition.combine O (List.take air.mainCons.length tco)
          (List.map (fun c => c.eval O (Composition.mkEnv O fr (Composition.periodicAt O air.n P.perPolys x) rands)) air.mainCons))
        (Composition.combine O (List.drop air.mainCons.length tco)
          (List.map (fun c => c.eval O (Composition.mkEnv O fr (Composition.periodicAt O air.n P.perPolys x) rands)) air.auxCons))) z
  rw [hr]
  simp only [Option.bind_some]
  obtain ⟨rm, hrm⟩ := sumTerms_total O (fun grp => grp.evalAt O fr.mainCur x) (hgrp fr.mainCur)
    (Composition.groupConstraintsCC O P.g air.n (P.main.zip (bco.take P.main.length)))
  obtain ⟨ra, hra⟩ := sumTerms_total O (fun grp => grp.evalAt O fr.auxCur x) (hgrp fr.auxCur)
    (Composition.groupConstraintsCC O P.g air.n (P.aux.zip (bco.drop P.main.length)))
  rw [hrm, hra]
  exact ⟨_, rfl⟩

/-- the value the reference verifier compares is the composition model's `evaluate_constraints` on the OOD
    frames of both segments (not the fallback of the total wrapper) whenever the computation fits the trace shape,
    plus - for an AIR with a Lagrange kernel column - the Lagrange kernel transition and boundary terms -/
theorem evalConstraints_is_model (E : EOps) (d : Desc) (pubs : List Nat) (ti : Serde.TraceInfo) (rands lagRands : List El)
    (h : (prepOf E d pubs ti rands).isSome = true) (coeffs oodTrace : List El) (z : El) :
    ∃ air P base, prepOf E d pubs ti rands = some (air, P) ∧
      Composition.evaluateConstraints E.div air P (oodFrames E ti.main (ti.main + auxFrameWidth d ti) oodTrace) (cell E rands)
        (coeffs.take (d.air.constraints.length + d.auxCons.length))
        ((coeffs.drop (d.air.constraints.length + d.auxCons.length)).take (d.air.assertions.length + d.auxAsserts.length)) z
        = some base ∧
      evalConstraints E d pubs ti rands lagRands coeffs oodTrace z =
        if d.lagrange then
          E.add (E.add base
            (lagrangeTransition E (splitOod (ti.main + auxFrameWidth d ti) oodTrace).2.2 lagRands
              ((coeffs.drop (d.air.constraints.length + d.auxCons.length + (d.air.assertions.length + d.auxAsserts.length))).take
                (Nat.log2 ti.length)) z))
            (lagrangeBoundary E (splitOod (ti.main + auxFrameWidth d ti) oodTrace).2.2 lagRands
              (cell E (coeffs.drop (d.air.constraints.length + d.auxCons.length + (d.air.assertions.length + d.auxAsserts.length)))
                (Nat.log2 ti.length)) z)
        else base := by
  cases hq : prepOf E d pubs ti rands with
  | none => rw [hq] at h; simp at h
  | some ap =>
    obtain ⟨air, P⟩ := ap
    obtain ⟨v, hv⟩ := evaluateConstraints_total E.div (fun a b => ⟨_, rfl⟩) air P
      (oodFrames E ti.main (ti.main + auxFrameWidth d ti) oodTrace) (cell E rands)
      (coeffs.take (d.air.constraints.length + d.auxCons.length))
      ((coeffs.drop (d.air.constraints.length + d.auxCons.length)).take (d.air.assertions.length + d.auxAsserts.length)) z
    refine ⟨air, P, v, rfl, hv, ?_⟩
    unfold evalConstraints
    rw [hq]
    simp only []
    rw [hv]

/-- what `friVerify … = ok` establishes: the layer loop ended, then the remainder checks passed -/
theorem friVerify_ok {C D V : Type} [DecidableEq D] [DecidableEq V] {W : Verifier C D V} {A : AirInst C D V}
    {cm : Committed V D} {op : Opened V D} {ch : Challenges C D V} {ev : List V}
    (h : friVerify W A cm op ch ev = .ok ()) :
    ev.length = ch.positions.length ∧
    ∃ pos ev' dom md,
      friLayers W A cm.friRoots op.friLayers ch.alphas op.numPartitions
        (Fri.numFriLayers A.fri (Fri.nextPow2 (A.tracePolyDegree + 1) * A.fri.blowup)) 0 ch.positions ev
        (Fri.nextPow2 (A.tracePolyDegree + 1) * A.fri.blowup) (A.tracePolyDegree + 1) = .ok (pos, ev', dom, md) ∧
      friRemainder W A cm.friRoots op.remainder
        (Fri.numFriLayers A.fri (Fri.nextPow2 (A.tracePolyDegree + 1) * A.fri.blowup)) pos ev' dom md = .ok () := by
  unfold friVerify at h
  split at h
  · cases h
  · rename_i hlen
    simp only at h
    split at h
    · cases h
    · rename_i pos ev' dom md hl
      exact ⟨Decidable.of_not_not hlen, pos, ev', dom, md, hl, h⟩

/-- the checks an accepted proof has passed, on the values parsed from its bytes -/
structure ChecksPassed (J : Inst) (E : EOps) (d : Desc) (pubs : List Nat) (acc : Acceptable) (ctx : Serde.Context)
    (c : ParsedChannel) (ch : Challenges (Coin.Coin Dg) Dg El) : Prop where
  /-- the challenges are those the coin yields after absorbing context, public inputs and commitments -/
  challenges : VerifierChecks.challenges (mkVerifier J E d pubs acc) ctx (committedOf J c) = .ok ch
  /-- the auxiliary random elements are the draws that follow the main trace commitment (none for a single-segment
      trace), and the computation fits the trace shape with them -/
  auxRands : auxRandsOf J E d pubs acc ctx c = some (ch.auxRands, ch.lagRands)
  shape : (prepOf E d pubs ctx.traceInfo ch.auxRands).isSome = true
  /-- OOD consistency: `evaluate_constraints` (main and auxiliary transition constraints and boundary groups) at `z`
      on the OOD trace frame equals `Σ z^(i·n) · H_i(z)` -/
  ood : evalConstraints E d pubs ctx.traceInfo ch.auxRands ch.lagRands ch.coeffs (committedOf J c).oodTrace ch.z
      = combineOod E ctx.traceInfo.length ch.z (committedOf J c).oodEvals
  /-- proof of work -/
  pow : ctx.options.grinding ≤ Coin.checkLeadingZeros (hashOps J) ch.coinAtQueries c.powNonce
  /-- the query positions: `draw_integers`, sorted, duplicates removed -/
  positions : ∃ ps, (coinOps J E).drawInts ch.coinAtQueries ctx.options.numQueries
      (ctx.traceInfo.length * ctx.options.blowup) c.powNonce = some ps ∧ ch.positions = sortDedup ps
  /-- every trace opening (main segment, auxiliary segment) verifies against its commitment, leaves =
      `hash_elements` of the opened rows -/
  traceOpenings : ∀ ro ∈ (committedOf J c).traceRoots.zip (openedOf J c).traceOpenings,
    Merkle.verifyBatch (merkleH J) ro.1 ch.positions
      ⟨ro.2.rows.map (hashEls J), ro.2.nodes, Nat.log2 (ctx.traceInfo.length * ctx.options.blowup)⟩ = .ok ()
  /-- the constraint opening verifies against the constraint commitment -/
  constraintOpening :
    Merkle.verifyBatch (merkleH J) (committedOf J c).constraintRoot ch.positions
      ⟨(openedOf J c).constraintOpening.rows.map (hashEls J), (openedOf J c).constraintOpening.nodes,
        Nat.log2 (ctx.traceInfo.length * ctx.options.blowup)⟩ = .ok ()
  /-- the FRI verifier accepts the DEEP evaluations computed by the modelled composer (main and auxiliary columns) -/
  fri : friVerify (mkVerifier J E d pubs acc) (airInst J E d pubs ctx) (committedOf J c) (openedOf J c) ch
      (deepCompose E ctx.traceInfo.length (ctx.traceInfo.length * ctx.options.blowup) ctx.traceInfo.main
        (ctx.traceInfo.main + ctx.traceInfo.aux) (ctx.traceInfo.main + auxFrameWidth d ctx.traceInfo)
        (if d.lagrange then some (numCols J d ctx) else none) ch.positions ch.z ch.deep
        ((openedOf J c).traceOpenings.map (·.rows)) (openedOf J c).constraintOpening.rows
        (committedOf J c).oodTrace (committedOf J c).oodEvals) = .ok ()
  /-- the remainder is the committed one: its hash is the commitment that follows the layer commitments -/
  remainder : (committedOf J c).friRoots[Fri.numFriLayers (friOpts ctx.options)
      (Fri.nextPow2 (ctx.traceInfo.length - 1 + 1) * (friOpts ctx.options).blowup)]? = some (hashEls J (openedOf J c).remainder)

-- the fields of the concrete records, by unfolding
theorem air_eq (J : Inst) (E : EOps) (d : Desc) (pubs : List Nat) (acc : Acceptable) (ctx : Serde.Context) :
    (mkVerifier J E d pubs acc).air ctx = airInst J E d pubs ctx := by simp only [mkVerifier, airInst, coinOps]
theorem airInst_grinding (J : Inst) (E : EOps) (d : Desc) (pubs : List Nat) (ctx : Serde.Context) :
    (airInst J E d pubs ctx).grinding = ctx.options.grinding := by simp only [mkVerifier, airInst, coinOps]
theorem airInst_numQueries (J : Inst) (E : EOps) (d : Desc) (pubs : List Nat) (ctx : Serde.Context) :
    (airInst J E d pubs ctx).numQueries = ctx.options.numQueries := by simp only [mkVerifier, airInst, coinOps]
theorem airInst_ldeSize (J : Inst) (E : EOps) (d : Desc) (pubs : List Nat) (ctx : Serde.Context) :
    (airInst J E d pubs ctx).ldeSize = ctx.traceInfo.length * ctx.options.blowup := by simp only [mkVerifier, airInst, coinOps]
theorem airInst_fri (J : Inst) (E : EOps) (d : Desc) (pubs : List Nat) (ctx : Serde.Context) :
    (airInst J E d pubs ctx).fri = friOpts ctx.options := by simp only [mkVerifier, airInst, coinOps]
theorem airInst_degree (J : Inst) (E : EOps) (d : Desc) (pubs : List Nat) (ctx : Serde.Context) :
    (airInst J E d pubs ctx).tracePolyDegree = ctx.traceInfo.length - 1 := by simp only [mkVerifier, airInst, coinOps]
theorem airInst_multiSegment (J : Inst) (E : EOps) (d : Desc) (pubs : List Nat) (ctx : Serde.Context) :
    (airInst J E d pubs ctx).multiSegment = decide (ctx.traceInfo.aux > 0) := by simp only [mkVerifier, airInst, coinOps]
theorem airInst_lagrange (J : Inst) (E : EOps) (d : Desc) (pubs : List Nat) (ctx : Serde.Context) :
    (airInst J E d pubs ctx).lagrange = d.lagrange := by simp only [mkVerifier, airInst, coinOps]
theorem airInst_numAuxRands (J : Inst) (E : EOps) (d : Desc) (pubs : List Nat) (ctx : Serde.Context) :
    (airInst J E d pubs ctx).numAuxRands = ctx.traceInfo.rands := by simp only [mkVerifier, airInst, coinOps]
theorem airInst_evalConstraints (J : Inst) (E : EOps) (d : Desc) (pubs : List Nat) (ctx : Serde.Context)
    (co ar lr ood : List El) (z : El) :
    (airInst J E d pubs ctx).evalConstraints co ar lr ood z = evalConstraints E d pubs ctx.traceInfo ar lr co ood z := by
  simp only [mkVerifier, airInst, coinOps]
theorem airInst_combineOod (J : Inst) (E : EOps) (d : Desc) (pubs : List Nat) (ctx : Serde.Context) :
    (airInst J E d pubs ctx).combineOod = combineOod E ctx.traceInfo.length := by simp only [mkVerifier, airInst, coinOps]
theorem airInst_deepCompose (J : Inst) (E : EOps) (d : Desc) (pubs : List Nat) (ctx : Serde.Context) :
    (airInst J E d pubs ctx).deepCompose = deepCompose E ctx.traceInfo.length (ctx.traceInfo.length * ctx.options.blowup)
      ctx.traceInfo.main (ctx.traceInfo.main + ctx.traceInfo.aux) (ctx.traceInfo.main + auxFrameWidth d ctx.traceInfo)
      (if d.lagrange then some (numCols J d ctx) else none) := by simp only [mkVerifier, airInst, coinOps]
theorem mk_leadingZeros (J : Inst) (E : EOps) (d : Desc) (pubs : List Nat) (acc : Acceptable) :
    (mkVerifier J E d pubs acc).coin.leadingZeros = Coin.checkLeadingZeros (hashOps J) := by simp only [mkVerifier, airInst, coinOps]
theorem mk_drawInts (J : Inst) (E : EOps) (d : Desc) (pubs : List Nat) (acc : Acceptable) :
    (mkVerifier J E d pubs acc).coin.drawInts = (coinOps J E).drawInts := by simp only [mkVerifier, airInst, coinOps]
theorem mk_merkle (J : Inst) (E : EOps) (d : Desc) (pubs : List Nat) (acc : Acceptable) :
    (mkVerifier J E d pubs acc).merkle = merkleH J := by simp only [mkVerifier, airInst, coinOps]
theorem mk_hashElems (J : Inst) (E : EOps) (d : Desc) (pubs : List Nat) (acc : Acceptable) :
    (mkVerifier J E d pubs acc).hashElems = hashEls J := by simp only [mkVerifier, airInst, coinOps]
theorem committedOf_nonce (J : Inst) (c : ParsedChannel) : (committedOf J c).powNonce = c.powNonce := rfl

theorem openingOk_iff {C D V : Type} [DecidableEq D] [DecidableEq V] (W : Verifier C D V) (root : D)
    (positions : List Nat) (o : Opening V D) (depth : Nat) :
    openingOk W root positions o depth = true ↔
      Merkle.verifyBatch W.merkle root positions ⟨o.rows.map W.hashElems, o.nodes, depth⟩ = .ok () := by
  unfold openingOk Opening.proof
  exact beq_iff_eq

/-- the auxiliary and Lagrange random elements of the challenge phase are the replayed `auxRandsOf`: for a
    single-segment trace none; for a multi-segment trace - from the coin that has absorbed context, public inputs
    and the main trace commitment - first the Lagrange random elements the GKR verifier draws (AIR with a Lagrange
    kernel column), then the `trace_info.num_aux_segment_rands` auxiliary ones -/
theorem auxRandsOf_eq (J : Inst) (E : EOps) (d : Desc) (pubs : List Nat) (acc : Acceptable) (ctx : Serde.Context)
    (c : ParsedChannel) (ch : Challenges (Coin.Coin Dg) Dg El)
    (hch : VerifierChecks.challenges (mkVerifier J E d pubs acc) ctx (committedOf J c) = .ok ch) :
    auxRandsOf J E d pubs acc ctx c = some (ch.auxRands, ch.lagRands) := by
  obtain ⟨r0, rest, c2, log2, _, _, _, _, _, _, hroots, haux, _⟩ := (challenges_ok hch).ex
  unfold auxRandsOf
  simp only []
  rw [hroots]
  simp only []
  rw [haux]

/-- the order inside the auxiliary phase of an AIR with a Lagrange kernel column: the GKR verifier runs on the coin
    reseeded with the main commitment and its draws come BEFORE the auxiliary random elements; the coin is reseeded
    with the auxiliary commitment only afterwards -/
theorem auxPhase_lagrange_order {C D V : Type} (K : CoinOps C D V) (A : AirInst C D V) (cm : Committed V D) (c1 : C)
    (r0 : D) (rest : List D) (ar lr : List V) (c2 : C) (log : List D) (hm : A.multiSegment = true)
    (hl : A.lagrange = true) (h : auxPhase K A cm c1 r0 rest = .ok (ar, lr, c2, log)) :
    ∃ g r1 rest' cg c3, cm.gkr = some g ∧ rest = r1 :: rest' ∧ A.gkrVerify g c1 = some (lr, cg) ∧
      drawMany K A.numAuxRands cg = some (ar, c3) ∧ c2 = K.reseed c3 r1 ∧ log = [r0, r1] := by
  unfold auxPhase at h
  rw [hm, hl] at h
  simp only [Bool.not_true, Bool.false_eq_true, if_false, if_true] at h
  split at h
  · cases h
  · rename_i r1 rest'
    split at h
    · cases h
    · rename_i g hg
      split at h
      · cases h
      · rename_i lag cg hgv
        split at h
        · cases h
        · rename_i ar' c3 hd
          injection h with h
          simp only [Prod.mk.injEq] at h
          obtain ⟨rfl, rfl, rfl, rfl⟩ := h
          exact ⟨g, r1, rest', cg, c3, hg, rfl, hgv, hd, rfl, rfl⟩

/-- **an `ok` verdict certifies every individual check** on the content parsed from the bytes -/
theorem refVerify_ok_implies (J : Inst) (d : Desc) (pubs : List Nat) (acc : Acceptable) (bs : List Nat)
    (h : refVerify J d pubs acc bs = .ok) :
    ∃ p ncols E c ch, FrontPassed J d pubs acc bs p ncols E c ∧ ChecksPassed J E d pubs acc p.context c ch := by
  obtain ⟨p, ncols, E, c, hf, hv⟩ := (refVerify_ok_iff J d pubs acc bs).mp h
  obtain ⟨_, _, _, cm, op, ch, hpar, hch, hop⟩ := verify_ok hv
  injection hpar with hpar
  simp only [Prod.mk.injEq] at hpar
  obtain ⟨rfl, rfl⟩ := hpar
  obtain ⟨r0, rest, c2, log2, c3, c4, c7, c8, flog, ps, _, _, _, _, hood, _, _, hpow, hps, hpos, hc8, _⟩ :=
    (challenges_ok hch).ex
  obtain ⟨htr, hcq, hfri⟩ := checkOpened_ok hop
  obtain ⟨_, pos, ev', dom, md, _, hrem⟩ := friVerify_ok hfri
  have hremc := (friRemainder_committed _ _ _ _ _ _ _ _ _ (by simp only [mkVerifier]) hrem).1
  rw [air_eq] at hood hpow hps htr hcq hfri hremc
  rw [airInst_evalConstraints, airInst_combineOod] at hood
  rw [airInst_grinding, mk_leadingZeros, committedOf_nonce, ← hc8] at hpow
  rw [airInst_numQueries, airInst_ldeSize, mk_drawInts, committedOf_nonce, ← hc8] at hps
  rw [airInst_ldeSize] at htr hcq
  rw [airInst_deepCompose] at hfri
  rw [airInst_fri, airInst_degree, mk_hashElems] at hremc
  have hrands := auxRandsOf_eq J E d pubs acc p.context c ch hch
  have hshape : (prepOf E d pubs p.context.traceInfo ch.auxRands).isSome = true := by
    have := hf.shape
    unfold shapeOk at this
    rw [hrands] at this
    exact this
  refine ⟨p, ncols, E, c, ch, hf, ⟨hch, hrands, hshape, hood, hpow, ⟨ps, hps, hpos⟩, ?_, ?_, hfri, hremc⟩⟩
  · intro ro hro
    have := (openingOk_iff _ _ _ _ _).mp (htr ro hro)
    rw [mk_merkle, mk_hashElems] at this
    exact this
  · have := (openingOk_iff _ _ _ _ _).mp hcq
    rw [mk_merkle, mk_hashElems] at this
    exact this

/-! ## (1b) the value-producing channel parse does not panic on a parsed proof -/

section channel
open Model.Serde WinterProofs.C12L

/-- a decoder without a panic outcome -/
def NoPanic {α : Type} (d : Dec α) : Prop := ∀ bs, d bs ≠ .panic

theorem np_pure {α : Type} (a : α) : NoPanic (pure a : Dec α) := by
  intro bs h; rw [pure_apply] at h; cases h

theorem np_fail {α : Type} : NoPanic (Dec.fail : Dec α) := by
  intro bs h; rw [fail_apply] at h; cases h

theorem np_bind {α β : Type} {d : Dec α} {f : α → Dec β} (hd : NoPanic d) (hf : ∀ a, NoPanic (f a)) :
    NoPanic (d >>= f) := by
  intro bs h
  rw [bind_apply] at h
  split at h
  · exact hf _ _ h
  · cases h
  · cases h
  · rename_i hp; exact hd bs hp

theorem np_ite {α : Type} {c : Prop} [Decidable c] {a b : Dec α} (ha : NoPanic a) (hb : NoPanic b) :
    NoPanic (if c then a else b) := by
  split <;> assumption

theorem np_readU8 : NoPanic readU8 := by
  intro bs h; cases bs <;> cases h

theorem np_readSlice (n : Nat) : NoPanic (readSlice n) := by
  intro bs h; unfold readSlice at h; split at h <;> cases h

theorem np_readUInt (n : Nat) : NoPanic (readUInt n) :=
  np_bind (np_readSlice n) (fun _ => np_pure _)

theorem np_readMany {α : Type} {d : Dec α} (hd : NoPanic d) : ∀ n, NoPanic (readMany d n)
  | 0 => np_pure _
  | n + 1 => np_bind hd (fun _ => np_bind (np_readMany hd n) (fun _ => np_pure _))

theorem np_elem (F : FieldImpl) : NoPanic (elem F).dec :=
  np_bind (np_readUInt _) (fun _ => np_ite np_fail (np_pure _))

theorem np_extElem (F : FieldImpl) (k : Nat) : NoPanic (extElem F k).dec := np_readMany (np_elem F) k

theorem np_elemDigest64 : NoPanic elemDigest64.dec :=
  np_bind (np_readMany (np_readUInt 8) 4) (fun _ => np_pure _)

theorem np_deserializeNodes {δ : Type} {d : Codec δ} (hd : NoPanic d.dec) : NoPanic (deserializeNodes d) :=
  np_bind np_readU8 (fun _ => np_readMany (np_bind np_readU8 (fun _ => np_readMany hd _)) _)

theorem runAll_np {α : Type} {d : Dec α} (hd : NoPanic d) (bs : Bytes) : runAll d bs ≠ .panic := by
  unfold runAll
  split
  · split <;> simp
  · simp
  · simp
  · rename_i hp; exact absurd hp (hd bs)

theorem commitmentsParse_np {δ : Type} {d : Codec δ} (hd : NoPanic d.dec) (bytes : Bytes) (nt nf : Nat) :
    commitmentsParse d bytes nt nf ≠ .panic :=
  runAll_np (np_bind (np_readMany hd nt) (fun _ => np_bind hd (fun _ => np_bind (np_readMany hd _) (fun _ => np_pure _)))) bytes

theorem tableFromBytes_np {ε : Type} {e : Codec ε} (he : NoPanic e.dec) (bytes : Bytes) (rows cols : Nat)
    (hr : rows ≠ 0 ∧ rows ≤ 255) (hc : cols ≠ 0 ∧ cols ≤ 255) : tableFromBytes e bytes rows cols ≠ .panic := by
  unfold tableFromBytes
  rw [if_neg (by simp only [Gen.Limits.MAX_ROWS, Gen.Limits.MAX_COLS]; omega)]
  split
  · simp
  · simp
  · simp
  · rename_i hp; exact absurd hp (np_readMany (np_readMany he cols) rows bytes)

theorem queriesParse_np {ε δ : Type} {e : Codec ε} {d : Codec δ} (he : NoPanic e.dec) (hd : NoPanic d.dec)
    (eb : Nat) (q : Queries) (depth rows cols : Nat) (hr : rows ≠ 0 ∧ rows ≤ 255) (hc : cols ≠ 0 ∧ cols ≤ 255) :
    queriesParse e eb d q depth rows cols ≠ .panic := by
  unfold queriesParse
  rw [if_neg (by omega)]
  split
  · simp
  · split
    · split
      · simp
      · split
        · split <;> simp
        · simp
        · simp
        · rename_i hp; exact absurd hp (np_deserializeNodes hd q.paths)
    · simp
    · simp
    · rename_i hp; exact absurd hp (tableFromBytes_np he q.values rows cols hr hc)

theorem remainderParse_np {ε : Type} {e : Codec ε} (he : NoPanic e.dec) (eb : Nat) (heb : eb ≠ 0) (bytes : Bytes) :
    remainderParse e eb bytes ≠ .panic := by
  unfold remainderParse
  rw [if_neg heb]
  split
  · simp
  · exact runAll_np (np_readMany he _) bytes

theorem friLayerParse_np {ε δ : Type} {e : Codec ε} {d : Codec δ} (he : NoPanic e.dec) (hd : NoPanic d.dec)
    (eb : Nat) (l : FriLayer) (depth folding : Nat) (hnz : eb * folding ≠ 0) :
    friLayerParse e eb d l depth folding ≠ .panic := by
  unfold friLayerParse
  simp only []
  rw [if_neg hnz]
  split
  · simp
  · split
    · simp
    · split
      · split
        · simp
        · split
          · simp
          · simp
          · simp
          · rename_i hp; exact absurd hp (runAll_np (np_deserializeNodes hd) l.paths)
      · simp
      · simp
      · rename_i hp
        exact absurd hp (runAll_np (np_readMany (np_readMany he folding) _) l.values)

theorem friLayersParse_np {ε δ : Type} {e : Codec ε} {d : Codec δ} (he : NoPanic e.dec) (hd : NoPanic d.dec)
    (eb folding : Nat) (hnz : eb * folding ≠ 0) :
    ∀ (ls : List FriLayer) (dom : Nat), friLayersParse e eb d folding ls dom ≠ .panic
  | [], _ => by simp [friLayersParse]
  | l :: ls, dom => by
    unfold friLayersParse
    split
    · simp
    · split
      · split
        · simp
        · simp
        · simp
        · rename_i hp; exact absurd hp (friLayersParse_np he hd eb folding hnz ls _)
      · simp
      · simp
      · rename_i hp; exact absurd hp (friLayerParse_np he hd eb l _ folding hnz)

theorem oodParse_np {ε : Type} {e : Codec ε} (he : NoPanic e.dec) (f : OodFrame) (main aux nev : Nat)
    (hm : main ≠ 0) (hn : nev ≠ 0) : oodParse e f main aux nev ≠ .panic := by
  unfold oodParse
  rw [if_neg (by omega)]
  simp only []
  repeat' split
  all_goals first
    | (simp; done)
    | exact absurd ‹runAll _ f.evaluations = Serde.Res.panic› (runAll_np (np_readMany he nev) f.evaluations)
    | exact absurd ‹runAll _ f.traceStates = Serde.Res.panic›
        (runAll_np (np_bind np_readU8 (fun _ => np_ite np_fail (np_readMany he _))) f.traceStates)
    | exact absurd ‹runAll _ f.lagrange = Serde.Res.panic›
        (runAll_np (np_bind np_readU8 (fun _ =>
          np_ite (np_bind (np_readMany he _) (fun _ => np_pure _)) (np_pure _))) f.lagrange)

/-- `channelParse` has no panic outcome when the proof carries one query set per trace segment, at most 255 unique
    queries, and the widths are those of a well-formed trace info / of an AIR with 1..255 composition columns -/
theorem channelParse_np (cfg : ChanCfg) (p : Proof) (hd : NoPanic cfg.digest.dec)
    (hseg : p.traceQueries.length = cfg.numSegments) (hseg1 : 1 ≤ cfg.numSegments)
    (hnuq : p.numUniqueQueries ≤ 255)
    (hmain : cfg.mainWidth ≠ 0 ∧ cfg.mainWidth ≤ 255)
    (haux : 2 ≤ cfg.numSegments → cfg.auxWidth ≠ 0 ∧ cfg.auxWidth ≤ 255)
    (hcw : cfg.constraintWidth ≠ 0 ∧ cfg.constraintWidth ≤ 255)
    (heb : cfg.F.bytes * cfg.ext ≠ 0) (hfold : cfg.folding ≠ 0) :
    channelParse cfg p ≠ .panic := by
  have hE := np_extElem cfg.F cfg.ext
  have hB := np_extElem cfg.F 1
  unfold channelParse
  simp only []
  split
  · rename_i hp; exact absurd hp (commitmentsParse_np hd _ _ _)
  · simp
  · simp
  · split
    · simp
    · rename_i hq0
      rw [if_neg (by simp [hseg])]
      split
      · rename_i hnil; rw [hnil] at hseg; simp at hseg; omega
      · rename_i mq restq hcons
        split
        · rename_i hp
          exact absurd hp (queriesParse_np hB hd _ mq _ _ _ ⟨hq0, hnuq⟩ hmain)
        · simp
        · simp
        · split
          · rename_i hp
            split at hp
            · cases hp
            · rename_i aq rest'
              have h2 : 2 ≤ cfg.numSegments := by
                rw [← hseg, hcons]; simp
              split at hp
              · cases hp
              · cases hp
              · cases hp
              · rename_i hpp
                exact absurd hpp (queriesParse_np hE hd _ aq _ _ _ ⟨hq0, hnuq⟩ (haux h2))
          · simp
          · simp
          · split
            · rename_i hp
              exact absurd hp (queriesParse_np hE hd _ _ _ _ _ ⟨hq0, hnuq⟩ hcw)
            · simp
            · simp
            · split
              · simp
              · split
                · rename_i hp; exact absurd hp (remainderParse_np hE _ heb _)
                · simp
                · simp
                · split
                  · rename_i hp
                    exact absurd hp (friLayersParse_np hE hd _ _ (Nat.mul_ne_zero heb hfold) _ _)
                  · simp
                  · simp
                  · split
                    · rename_i hp
                      exact absurd hp (oodParse_np hE _ _ _ _ hmain.1 hcw.1)
                    · simp
                    · simp
                    · split
                      · simp
                      · split <;> simp

end channel

/-! ## (1) no panic on untrusted bytes -/

/-- what the no-panic theorems need to know about an instantiation: the sizes of C06's front-end theorem, a field
    of at least 32 bits, a digest reader without a panic outcome -/
structure InstOk (J : Inst) : Prop where
  digest : 3 * J.digestSize ≤ WinterProofs.C06L.CR * J.digestBytes
  digestSmall : J.digestSize ≤ 32
  elemBytes : 8 ≤ J.I.bytes
  elemBytesLe : J.I.bytes ≤ 16
  bits : 32 ≤ J.I.M.log2 + 1
  digestNoPanic : NoPanic J.digest.dec

theorem np_elemDigest62 : NoPanic Serde.elemDigest62.dec :=
  np_bind (np_readUInt 8) (fun _ => np_bind (np_readUInt 8) (fun _ => np_bind (np_readUInt 8) (fun _ =>
    np_bind (np_readUInt 4) (fun _ => np_bind (np_readUInt 2) (fun _ => np_bind np_readU8 (fun _ => np_pure _))))))

/-- the three instantiations satisfy the conditions -/
theorem instOk_rp64 : InstOk Inst.rp64 :=
  ⟨by decide, by decide, by decide, by decide, by decide +kernel, np_elemDigest64⟩
theorem instOk_rpjive : InstOk Inst.rpjive :=
  ⟨by decide, by decide, by decide, by decide, by decide +kernel, np_elemDigest64⟩
theorem instOk_rp62 : InstOk Inst.rp62 :=
  ⟨by decide, by decide, by decide, by decide, by decide +kernel, np_elemDigest62⟩

open Model.Parse WinterProofs.C06 WinterProofs.C06L in
/-- the instantiation satisfies the size conditions of C06's front-end theorem -/
theorem frontAir_ok (J : Inst) (hJ : InstOk J) (d : Desc) : AirOk (frontAir J d) :=
  ⟨hJ.digest, hJ.digestSmall, hJ.elemBytes, hJ.elemBytesLe⟩

theorem frontAir_bits (J : Inst) (hJ : InstOk J) (d : Desc) : 32 ≤ (frontAir J d).fieldBits := hJ.bits

/-- the panic verdicts that are panics of the REAL code: the AIR constructor and the AIR's callbacks /
    `BoundaryConstraints::new` inside `evaluate_constraints` on a trace shape the computation does not fit (recorded
    finding c06.verify.air-new), and the `expect` of lib.rs on `get_aux_rand_elements` (a coin that does not
    produce a field element within its 1000 tries while the auxiliary random elements are drawn) -/
def RealPanic (s : String) : Prop :=
  s = "AIR::new" ∨ s = "evaluate_constraints" ∨ s = "get_aux_rand_elements"

/-- the full statement (proved in WinterProofs/RefVerifierTotal.lean): the only panic verdicts are the panics of the REAL code (`Air::new` cannot
    return an error: recorded finding c06.verify.air-new; the AIR's callbacks index the frame / validate the
    assertions against the untrusted trace info; the `expect` on the auxiliary random elements) -/
def RefVerifyTotal (J : Inst) (d : Desc) : Prop :=
  ∀ pubs acc bs s, WinterProofs.C06L.BytesOk bs →
    refVerify J d pubs acc bs = .err (.panic s) → RealPanic s

open Model.Parse WinterProofs.C06 WinterProofs.C06L in
/-- PARTIAL (the byte-level part; the rest is WinterProofs/RefVerifierTotal.lean): a panic verdict of the reference verifier never comes from the
    byte-level part — not from `Proof::from_bytes`, not from the security estimate, not from the front end of
    `verify` up to and including `VerifierChannel::new`, neither as modelled by `Parse.verifyFront` (C06) nor by the
    value-producing `channelParse` (`channelParse_np` above).  It is one of: the panics of the real code
    named in `RefVerifyTotal`; or a panic site of the decision function `VerifierChecks.verify` reached AFTER the
    whole front end passed (its index sites `fold_positions`, `get_query_values`, … — unreachability not proved).
    Missing from the full statement: exactly the last alternative, which `core_no_panic` (RefVerifierTotal.lean)
    narrows to `get_aux_rand_elements`. -/
theorem refVerify_never_panics_partial (J : Inst) (hJ : InstOk J) (d : Desc) (pubs : List Nat) (acc : Acceptable)
    (bs : List Nat) (hb : BytesOk bs) (hcols : ∀ ti o n, airNew (frontAir J d) ti o = some n → n ≤ 255)
    (s : String) (h : refVerify J d pubs acc bs = .err (.panic s)) :
    s = "AIR::new" ∨ s = "evaluate_constraints" ∨
    (∃ p ncols E c, FrontPassed J d pubs acc bs p ncols E c ∧
        VerifierChecks.verify (mkVerifier J E d pubs acc) p.context (some (committedOf J c, openedOf J c))
          = .error (.panic s)) := by
  have hsafe := parseProof_safe bs hb
  unfold refVerify at h
  split at h
  · rename_i p hp
    have hpok := (parseProof_invariants bs hb p hp).1
    have hfront := (verifyFront_safe_partial (frontAir J d) (frontAir_ok J hJ d) (frontAir_bits J hJ d) hcols p hpok).1
    have hsec := conjecturedSecurity_isSome p.context hpok.1 (frontAir J d).fieldBits (frontAir_bits J hJ d)
    unfold refVerifyProof at h
    simp only at h
    split at h
    · cases h
    · rename_i hmod
      split at h
      · rename_i v hv
        exfalso
        unfold policyVerdict at hv
        split at hv
        · split at hv
          · rename_i hnone
            unfold securityLevel at hnone
            cases hq : conjecturedSecurity p.context.options (frontAir J d).fieldBits p.context.traceInfo.length with
            | none => rw [hq] at hsec; simp at hsec
            | some x => rw [hq] at hnone; simp at hnone
          · split at hv
            · injection hv with hv; subst hv; cases h
            · cases hv
        · split at hv
          · cases hv
          · injection hv with hv; subst hv; cases h
      · rename_i hpol
        split at h
        · cases h
        · cases h
        · injection h with h; injection h with h; exact Or.inl h.symm
        · cases h
        · cases h
        · rename_i hpanic; exact absurd hpanic hfront
        · rename_i hpass
          split at h
          · rename_i ncols E hair hext
            split at h
            · rename_i hc
              exfalso
              obtain ⟨hctx, hnq, _, hlen, _⟩ := hpok
              obtain ⟨hm0, hw, _, _⟩ := ti_facts _ hctx.1
              obtain ⟨_, _, _, _, hf2, hext, _, _⟩ := opt_facts _ hctx.2.1
              refine channelParse_np (chanCfg J d p.context ncols) p hJ.digestNoPanic hlen ?_ (by omega)
                ⟨hm0, by show p.context.traceInfo.main ≤ 255; omega⟩ ?_
                ⟨airNew_pos _ _ _ _ hair, hcols _ _ _ hair⟩ ?_ ?_ hc
              · show 1 ≤ p.context.traceInfo.numSegments
                unfold Serde.TraceInfo.numSegments; split <;> omega
              · intro h2
                have h2' : 2 ≤ p.context.traceInfo.numSegments := h2
                unfold Serde.TraceInfo.numSegments at h2'
                split at h2'
                · exact ⟨by show p.context.traceInfo.aux ≠ 0; omega, by show p.context.traceInfo.aux ≤ 255; omega⟩
                · omega
              · show J.I.bytes * p.context.options.fieldExt ≠ 0
                have := hJ.elemBytes
                exact Nat.mul_ne_zero (by omega) (by omega)
              · show p.context.options.folding ≠ 0
                omega
            · cases h
            · rename_i c hc
              split at h
              · cases h
              · rename_i hgkr
                split at h
                · injection h with h; injection h with h; exact Or.inr (Or.inl h.symm)
                · rename_i hprep
                  refine Or.inr (Or.inr ⟨p, ncols, E, c,
                    ⟨hp, Decidable.of_not_not hmod, hpol, hpass, hair, hext, hc, by simpa using hgkr,
                      by simpa using hprep⟩, ?_⟩)
                  unfold Verdict.ofExcept at h
                  split at h
                  · cases h
                  · rename_i e he
                    injection h with h
                    rw [he, h]
          · injection h with h; injection h with h; exact Or.inl h.symm
  · cases h
  · cases h
  · rename_i hp
    exact absurd hp hsafe.1

-- the hypotheses are satisfiable: the description x -> x^2 + 5 (one column, 8 rows, one assertion)
def descSq : Desc where
  air := ⟨1, 8, 1, [], [.sub (.nxt 0) (.add (.pow 2 (.cur 0)) (.const 5))], [⟨.single, 0, 0, 0⟩]⟩
  degs := [⟨2, []⟩]

-- (it is what `parseDesc` returns for the line `w=1;l=8;e=1;j=0;p=;g=S?:+^2c0k5;t=2:-n0+^2c0k5;a=s0.0`; string
-- functions do not reduce in the kernel, the driver's `refv` lines exercise the parser)

open Model.Parse in
/-- whatever the trace info and options of the proof, the constructor of this AIR asks for at most 255 columns -/
theorem descSq_cols (J : Inst) : ∀ ti o n, airNew (frontAir J descSq) ti o = some n → n ≤ 255 := by
  intro ti o n h
  unfold airNew at h
  simp only [] at h
  repeat' (split at h <;> try (cases h; done))
  all_goals (
    simp only [Option.some.injEq] at h
    subst h
    simp [frontAir, descSq, Desc.auxDegs, Protocol.compositionColumns, Protocol.highestDegree, Protocol.Degree.evalDegree]
    have : (2 * (ti.length - 1) - (ti.length - 1)) / ti.length ≤ 1 :=
      Nat.div_le_of_le_mul (by omega)
    omega)

example (pubs : List Nat) (acc : Acceptable) (bs : List Nat) (hb : WinterProofs.C06L.BytesOk bs) (s : String)
    (h : refVerify Inst.rp64 descSq pubs acc bs = .err (.panic s)) :=
  refVerify_never_panics_partial Inst.rp64 instOk_rp64 descSq pubs acc bs hb (descSq_cols _) s h

/-- x -> x^5 + 5: the AIR needs a blowup factor of at least 4 -/
def descPow5 : Desc where
  air := ⟨1, 8, 1, [], [.sub (.nxt 0) (.add (.pow 5 (.cur 0)) (.const 5))], [⟨.single, 0, 0, 0⟩]⟩
  degs := [⟨5, []⟩]

/-- the panic verdict `AIR::new` is real (recorded finding c06.verify.air-new): lowering the blowup byte of a valid
    proof (8 -> 2, an option set the policy `MinConjecturedSecurity(0)` accepts) makes the AIR constructor panic
    inside `verify()`; the reference verifier reports it as a panic, so "never any panic verdict" is false for
    the code as it is -/
theorem refVerify_airnew_witness :
    refVerify Inst.rp64 descPow5 [] (.minConjectured 0) (WinterProofs.C06L.pow5.set 16 2) = .err (.panic "AIR::new") := by
  decide +kernel

end WinterProofs.RefVerifier
