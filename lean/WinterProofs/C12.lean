-- C12: serialization round trip (theorems follow)
import Winter.Model.Serde
namespace WinterProofs.C12
open Model Model.Serde
theorem readU8_cons (b : Nat) (r : Bytes) : readU8 (b :: r) = .ok (b, r) := rfl
end WinterProofs.C12
