-- C12: serialization round trip for every serializable value.
-- Model: Winter/Model/Serde.lean (byte-level encoders / decoders over the SliceReader semantics, the constructors'
-- acceptance predicates `wf`, the writers' assertions `wpanic`); helper lemmas: WinterProofs/Lemmas/C12*.lean.
-- `Codec.RT c` is the property for one type:
--   ∀ x rest, c.wf x → c.wpanic x = false ∧ c.dec (c.enc x ++ rest) = .ok (x, rest)
-- (the writer does not panic, the decoded value is equal, exactly the written bytes are consumed, any suffix).
import WinterProofs.Lemmas.C12Parse
import WinterProofs.Lemmas.C12Gen

namespace WinterProofs.C12
open Model Model.Serde WinterProofs.C12L

-- ------------------------------------------------------------------------------------------------
-- the variable-length size encoding (write_usize / read_usize / encoded_len)

/-- every `v < 2^64` reads back and exactly the written bytes are consumed -/
theorem vint64_roundtrip (v : Nat) (rest : Bytes) (hv : v < 18446744073709551616) :
    readUsize (writeUsize v ++ rest) = .ok (v, rest) :=
  readUsize_writeUsize v rest hv

/-- the number of bytes written is `encoded_len`, between 1 and 9 -/
theorem vint64_length (v : Nat) (hv : v < 18446744073709551616) :
    (writeUsize v).length = encodedLen v ∧ 1 ≤ encodedLen v ∧ encodedLen v ≤ 9 :=
  ⟨writeUsize_length v hv, encodedLen_range v hv⟩

/-- `encoded_len` (leading zeros, saturating subtraction, division by 7) is the number of 7-bit groups -/
theorem vint64_encodedLen (v : Nat) :
    encodedLen v =
      if v < 128 then 1 else if v < 16384 then 2 else if v < 2097152 then 3 else if v < 268435456 then 4
      else if v < 34359738368 then 5 else if v < 4398046511104 then 6 else if v < 562949953421312 then 7
      else if v < 72057594037927936 then 8 else 9 :=
  encodedLen_eq v

example : writeUsize 16383 = [254, 255] ∧ writeUsize 16384 = [4, 0, 2] := by decide
example : readUsize (writeUsize 72057594037927936 ++ [7]) = .ok (72057594037927936, [7]) := by decide

-- tie T: the integer logic of the size encoding as regenerated from utils/core/src/serde/byte_writer.rs
-- (`encoded_len`, the word `(value << 1 | 1) << (length - 1)` of `write_usize`) and byte_reader.rs (the length
-- `trailing_zeros() + 1` and the shift `>> length` of `read_usize`) on this run (Winter/Gen/Serde.lean)

/-- ★ the regenerated pieces equal the model's, for ALL arguments, with their exact no-panic conditions -/
theorem gen_vint64_pieces (v l b x : Nat) :
    Gen.Serde.encoded_len v = encodedLen v ∧ Gen.Serde.encoded_len_ok v = true ∧
    Gen.Serde.write_usize_word v l = ((v * 2 % 18446744073709551616) ||| 1) <<< (l - 1) % 18446744073709551616 ∧
    (Gen.Serde.write_usize_word_ok v l = true ↔ (1 ≤ l ∧ l - 1 < 64)) ∧
    Gen.Serde.read_usize_length b = trailingZeros8 b + 1 ∧ Gen.Serde.read_usize_length_ok b = true ∧
    Gen.Serde.read_usize_value x l = x >>> l ∧ (Gen.Serde.read_usize_value_ok x l = true ↔ l < 64) :=
  ⟨(C12G.gen_encoded_len_eq v).1, (C12G.gen_encoded_len_eq v).2, (C12G.gen_write_word_eq v l).1,
    (C12G.gen_write_word_eq v l).2, (C12G.gen_read_length_eq b).1, (C12G.gen_read_length_eq b).2,
    (C12G.gen_read_value_eq x l).1, (C12G.gen_read_value_eq x l).2⟩

/-- ★ hence the model's `write_usize` / `read_usize` ARE the two methods over the regenerated integer logic
    (`writeUsizeG`, `readUsizeG`: Winter/Model/SerdeGen.lean), and the round trip holds of those -/
theorem vint64_roundtrip_gen (v : Nat) (rest : Bytes) (hv : v < 18446744073709551616) :
    writeUsize v = writeUsizeG v ∧ readUsize = readUsizeG ∧
    readUsizeG (writeUsizeG v ++ rest) = .ok (v, rest) := by
  refine ⟨C12G.writeUsize_eq_gen v, C12G.readUsize_eq_gen, ?_⟩
  rw [← C12G.writeUsize_eq_gen, ← C12G.readUsize_eq_gen]
  exact readUsize_writeUsize v rest hv

/-- ★ no shift of the regenerated code is out of range on the paths the two methods take -/
theorem vint64_gen_no_panic (v b x : Nat) :
    (Gen.Serde.encoded_len v ≠ 9 → Gen.Serde.write_usize_word_ok v (Gen.Serde.encoded_len v) = true) ∧
    (Gen.Serde.read_usize_length b ≠ 9 →
      Gen.Serde.read_usize_value_ok x (Gen.Serde.read_usize_length b) = true) :=
  C12G.gen_vint64_no_panic v b x

example : writeUsizeG 16384 = [4, 0, 2] ∧ readUsizeG [4, 0, 2, 9] = .ok (16384, [9]) := by decide

/-- ★ tie T for the untrusted-byte guards: the decoders of `TraceInfo`, `ProofOptions` and `Context` of the
    model ARE `read_from` over the guards regenerated from air/src/air/trace_info.rs, air/src/options.rs and
    air/src/proof/context.rs on this run (Winter/Gen/ReadGuards.lean: which byte values are refused, `checked_shl`,
    the `u32::MAX` size limits) followed by the regenerated constructors' assertions; in particular
    `ProofOptions::read_from` refuses exactly what `ProofOptions::new` would panic on -/
theorem read_from_guards_gen :
    traceInfo.dec = traceInfoDecG ∧ proofOptions.dec = proofOptionsDecG ∧ context.dec = contextDecG :=
  ⟨C12G.traceInfo_dec_eq_gen, C12G.proofOptions_dec_eq_gen, C12G.context_dec_eq_gen⟩

/-- ★ `TraceInfo::new_multi_segment` (regenerated) is `TraceInfo.wf` -/
theorem gen_trace_info_new_eq_wf (t : TraceInfo) (h : t.length < 18446744073709551616) :
    Gen.TraceInfo.new_multi_segment_ok t.main t.aux t.rands t.length t.metadata = t.wf :=
  C12G.gen_trace_info_new_eq_wf t h

-- ------------------------------------------------------------------------------------------------
-- fixed-width integers, composition

/-- u8 / u16 / u32 / u64 / u128 (`n` = 1, 2, 4, 8, 16 little-endian bytes) -/
theorem uint_roundtrip (n v : Nat) (rest : Bytes) (hv : v < 256 ^ n) :
    readUInt n (leBytes n v ++ rest) = .ok (v, rest) :=
  readUInt_leBytes hv rest

example : readUInt 2 (leBytes 2 65535 ++ [1]) = .ok (65535, [1]) := by decide

/-- composition of sequenced decoders: when the first decoder gives `x` on the first block and leaves the
    rest, and the continuation gives `y` on what is left, the sequence gives `y`; larger types are
    assembled from their parts with this lemma -/
theorem seq_roundtrip {d : Dec α} {f : α → Dec β} {e1 e2 rest : Bytes} {x : α} {y : β}
    (h1 : d (e1 ++ (e2 ++ rest)) = .ok (x, e2 ++ rest)) (h2 : f x (e2 ++ rest) = .ok (y, rest)) :
    (d >>= f) (e1 ++ e2 ++ rest) = .ok (y, rest) := by
  rw [List.append_assoc]; exact bind_ok h1 h2

/-- tuples and structs of sequenced fields -/
theorem pair_roundtrip {a : Codec α} {b : Codec β} (ha : a.RT) (hb : b.RT) : (pair a b).RT := pair_RT ha hb

theorem option_roundtrip {c : Codec α} (h : c.RT) : (option c).RT := option_RT h

/-- `Vec<T>` / `[T]`: vint64 length prefix -/
theorem vec_roundtrip {c : Codec α} (h : c.RT) : (vec c).RT := vec_RT h

/-- `[T; N]` -/
theorem array_roundtrip (n : Nat) {c : Codec α} (h : c.RT) : (array n c).RT := array_RT n h

/-- `String`: any valid UTF-8 byte sequence -/
theorem string_roundtrip : str.RT := str_RT

example : str.wf [240, 159, 152, 128, 97] = true := by decide

/-- `BTreeMap<K, V>` as a strictly increasing list of entries, for any key order with `a < b → b > a` -/
theorem btreeMap_roundtrip {cmp : κ → κ → Ordering} (hc : Antisym cmp) {k : Codec κ} {v : Codec ν}
    (hk : k.RT) (hv : v.RT) : (btreeMap cmp k v).RT := btreeMap_RT hc hk hv

theorem btreeSet_roundtrip {cmp : κ → κ → Ordering} (hc : Antisym cmp) {k : Codec κ} (hk : k.RT) :
    (btreeSet cmp k).RT := btreeSet_RT hc hk

example : (btreeMap natCmp (uint 1) (uint 2)).wf [(1, 500), (2, 0), (255, 65535)] = true := by decide

-- ------------------------------------------------------------------------------------------------
-- field elements and digests

/-- base field elements (the value of an element is its canonical integer `< M`) -/
theorem elem_roundtrip (f : Fld) : (elem f.impl).RT := elem_RT f.impl f.fits

/-- the element decoder is `FieldImpl.readFrom` of Winter/Model/Field.lean, seen on canonical integers -/
theorem elem_dec_readFrom (F : FieldImpl) (bs : Bytes) :
    (elem F).dec bs =
      match F.readFrom bs with
      | none => .eof
      | some (.err, _) => .err
      | some (.ok _, rest) => .ok (ofLeBytes (bs.take F.bytes), rest) := by
  simp only [elem, FieldImpl.readFrom, FieldImpl.tryFrom, bind_apply, readUInt, readSlice_eq]
  by_cases h : bs.length < F.bytes
  · simp [h]
  · by_cases h2 : ofLeBytes (bs.take F.bytes) ≥ F.M <;> simp [h, h2]

/-- the element encoder is `FieldImpl.toBytes` -/
theorem elem_enc_toBytes (F : FieldImpl) (raw : Nat) : F.toBytes raw = (elem F).enc (F.asInt raw) := rfl

/-- quadratic and cubic extension elements, coordinate by coordinate -/
theorem quad_roundtrip (f : Fld) : (quad f.impl).RT := (Ty.quad f).rt
theorem cube_roundtrip (f : Fld) : (cube f.impl).RT := (Ty.cube f).rt

/-- `ByteDigest<N>` (Blake3, SHA3) and the `ElementDigest` of Rp64_256 / RpJive64_256 -/
theorem byteDigest_roundtrip (n : Nat) : (byteDigest n).RT := byteDigest_RT n
theorem elemDigest64_roundtrip : elemDigest64.RT := elemDigest64_RT
/-- the 248-bit `ElementDigest` of Rp62_248: four 62-bit integers packed into 31 bytes -/
theorem elemDigest62_roundtrip : elemDigest62.RT := elemDigest62_RT

-- ------------------------------------------------------------------------------------------------
-- every serializable type, nested compositions included

/-- C12 for the whole universe `Ty` of serializable types (integers, usize, bool, String, Option, Vec, arrays,
    tuples, BTreeMap / BTreeSet over ordered keys, base / quadratic / cubic field elements, digests (ByteDigest, both ElementDigests),
    FieldExtension, ProofOptions, TraceInfo, Context, Commitments, Queries, OodFrame, FriProofLayer, FriProof,
    Proof) and all their nestings: every value the constructors accept is encoded without a panic and decodes
    to an equal value, consuming exactly the written bytes, whatever follows. -/
theorem roundtrip_all (t : Ty) (x : t.val) (rest : Bytes) (hx : t.codec.wf x = true) :
    t.codec.wpanic x = false ∧ t.codec.dec (t.codec.enc x ++ rest) = .ok (x, rest) :=
  t.rt x rest hx

theorem proofOptions_roundtrip : proofOptions.RT := proofOptions_RT
theorem traceInfo_roundtrip : traceInfo.RT := traceInfo_RT
theorem context_roundtrip : context.RT := context_RT
theorem queries_roundtrip : queries.RT := queries_RT
theorem oodFrame_roundtrip : oodFrame.RT := oodFrame_RT
theorem friLayer_roundtrip : friLayer.RT := friLayer_RT
theorem friProof_roundtrip : friProof.RT := friProof_RT
theorem proof_roundtrip : proof.RT := proof_RT

-- the boundary members the constructors accept (255 columns split 254 + 1 with no random elements,
-- 2^63 rows, 255 queries, remainder degree 255, blowup 128)
example : traceInfo.wf ⟨254, 1, 0, 9223372036854775808, [1, 2, 3]⟩ = true := by decide
example : traceInfo.wf ⟨255, 0, 0, 8, []⟩ = true := by decide
example : proofOptions.wf ⟨255, 128, 32, 3, 16, 255⟩ = true := by decide
example : context.wf ⟨⟨255, 0, 0, 8, []⟩, leBytes 8 F64.impl.M, ⟨255, 128, 32, 3, 16, 255⟩⟩ = true := by decide
example : traceInfo.dec (traceInfo.enc ⟨254, 1, 0, 8, [7]⟩ ++ [9]) = .ok (⟨254, 1, 0, 8, [7]⟩, [9]) := by decide

-- ------------------------------------------------------------------------------------------------
-- whichever byte source: the theorems above are about the `SliceReader` semantics (a decoder sees the unread
-- bytes). `std::io::Cursor` implements the required methods of `ByteReader` so that each of them is the
-- `SliceReader` method on its unread bytes; the provided methods and every `read_from` are the same code for
-- every source, so they agree on all inputs. (`ReadAdapter` is covered by the refinement theorem of C13; the
-- harness runs every case through all three sources.)

theorem cursor_read_u8 (c : Cursor) : (c.readU8).unread = readU8 c.rem := cursor_readU8_eq c
theorem cursor_peek_u8 (c : Cursor) : (c.peekU8).unread = peekU8 c.rem := cursor_peekU8_eq c
theorem cursor_read_slice (n : Nat) (c : Cursor) : (c.readSlice n).unread = readSlice n c.rem :=
  cursor_readSlice_eq n c
theorem cursor_has_more_bytes (c : Cursor) : c.hasMoreBytes = !c.rem.isEmpty := cursor_hasMore_eq c

example : (Cursor.readSlice 2 ⟨[1, 2, 3], 1⟩).unread = .ok ([2, 3], []) := by decide

-- ------------------------------------------------------------------------------------------------
-- constructors and the types' own parse steps

/-- `Queries::new` then `Queries::parse` (`Table::from_bytes`, `BatchMerkleProof::deserialize`) with up to
    255 queries of up to 255 values gives back the query values and the Merkle nodes -/
theorem queries_parse_roundtrip {e : Codec ε} {d : Codec δ} (he : e.RT) (hd : d.RT) (eb : Nat)
    (hlen : ∀ x, e.wf x = true → (e.enc x).length = eb)
    (nodes : List (List δ)) (values : List (List ε)) (q : Queries)
    (hq : queriesNew e d nodes values = some q)
    (hv : ∀ row ∈ values, row.all e.wf = true) (hn : ∀ v ∈ nodes, v.all d.wf = true)
    (depth : Nat) (hdepth : depth ≠ 0) (hrows : values.length ≤ 255) (hcols : (values.headD []).length ≤ 255) :
    queriesParse e eb d q depth values.length (values.headD []).length = .ok (values, nodes) :=
  queriesParse_new he hd eb hlen nodes values q hq hv hn depth hdepth hrows hcols

example : (queriesNew (elem F64.impl) (byteDigest 2) [[[1, 2]], []] [[5, 6], [7, 8]]).isSome = true := by decide

/-- what `Queries::new` builds is a value of the serialized type (below 4 GiB) -/
theorem queriesNew_wf {e : Codec ε} {d : Codec δ} (nodes : List (List δ)) (values : List (List ε)) (q : Queries)
    (_hq : queriesNew e d nodes values = some q)
    (hsmall : q.values.length < 4294967296 ∧ q.paths.length < 4294967296) : queries.wf q = true := by
  simp [queries, hsmall.1, hsmall.2]

/-- `Commitments::new` then `Commitments::parse` gives back the trace roots, the constraint root and the FRI
    roots (at least one FRI root: the remainder commitment) -/
theorem commitments_parse_roundtrip {d : Codec δ} (hd : d.RT) (t : List δ) (c : δ) (f : List δ) (hf : f ≠ [])
    (ht : t.all d.wf = true) (hc : d.wf c = true) (hfw : f.all d.wf = true) :
    commitmentsParse d (commitmentsNew d t c f) t.length (f.length - 1) = .ok (t, c, f) :=
  commitmentsParse_new hd t c f hf ht hc hfw

example : commitmentsParse (byteDigest 2) (commitmentsNew (byteDigest 2) [[1, 2]] [3, 4] [[5, 6]]) 1 0 =
    .ok ([[1, 2]], [3, 4], [[5, 6]]) := by decide

/-- `OodFrame::set_trace_states` + `set_constraint_evaluations`, then `OodFrame::parse` with the widths the
    frame was built for (`main` main columns, the others auxiliary, plus one for a non-empty Lagrange kernel
    frame), give back both rows, the Lagrange kernel frame and the evaluations -/
theorem oodFrame_parse_roundtrip {e : Codec ε} (he : e.RT) (cur next : List ε) (lag : Option (List ε))
    (evals : List ε) (main : Nat) (ts l eb : Bytes)
    (h1 : oodSetTraceStates e cur next lag = some (ts, l)) (h2 : oodSetEvaluations e evals = some eb)
    (hmain : 0 < main) (hw : main ≤ cur.length)
    (hcur : cur.all e.wf = true) (hnext : next.all e.wf = true)
    (hlag : (lag.getD []).all e.wf = true) (hev : evals.all e.wf = true) :
    oodParse e ⟨ts, l, eb⟩ main (cur.length - main + (if (lag.getD []).isEmpty then 0 else 1)) evals.length =
      .ok (cur, next, (if (lag.getD []).isEmpty then none else some (lag.getD [])), evals) :=
  oodParse_set he cur next lag evals main ts l eb h1 h2 hmain hw hcur hnext hlag hev

example : oodSetTraceStates (elem F64.impl) [1, 2] [3, 4] (some [9]) =
    some ([2, 1,0,0,0,0,0,0,0, 3,0,0,0,0,0,0,0, 2,0,0,0,0,0,0,0, 4,0,0,0,0,0,0,0], [1, 9,0,0,0,0,0,0,0]) := by
  decide

/-- what the setters store is a value of the serialized type -/
theorem oodSet_wf {e : Codec ε} (cur next : List ε) (lag : Option (List ε)) (evals : List ε) (ts l eb : Bytes)
    (h1 : oodSetTraceStates e cur next lag = some (ts, l)) (h2 : oodSetEvaluations e evals = some eb)
    (hl : l.length < 65536) : oodFrame.wf ⟨ts, l, eb⟩ = true := by
  unfold oodSetTraceStates at h1
  unfold oodSetEvaluations at h2
  simp only [] at h1 h2
  split at h1
  · cases h1
  · split at h1
    · cases h1
    · rename_i hc
      split at h2
      · cases h2
      · rename_i hc2
        simp only [Option.some.injEq, Prod.mk.injEq] at h1 h2
        obtain ⟨rfl, rfl⟩ := h1
        subst h2
        simp only [not_or, Nat.not_lt, Nat.not_le] at hc hc2
        simp only [oodFrame, Bool.and_eq_true, decide_eq_true_eq]
        omega

-- ------------------------------------------------------------------------------------------------
-- Commitments: the constructor accepts what the writer refuses (recorded in known_findings.json,
-- site commitments.encode.panic)

/-- full statement for `Commitments`: whatever digests `Commitments::new` is given, the result can be encoded -/
def CommitmentsEncodable : Prop :=
  ∀ (trace : List Bytes) (c : Bytes) (fri : List Bytes),
    (trace.all (byteDigest 32).wf && (byteDigest 32).wf c && fri.all (byteDigest 32).wf) = true →
    commitments.wpanic (commitmentsNew (byteDigest 32) trace c fri) = false

/-- witness: a constraint root and 2047 FRI roots of 32 bytes are 65536 bytes, `write_into` asserts -/
theorem commitments_encode_fails : ¬ CommitmentsEncodable := by
  intro h
  -- `n` FRI roots `d` of 32 bytes each
  have key : ∀ (n : Nat) (d : Bytes), d.length = 32 → 65536 ≤ 32 + n * 32 →
      commitments.wpanic (commitmentsNew (byteDigest 32) [] d (List.replicate n d)) = true := by
    intro n d hd hn
    have hl := length_encMany (c := byteDigest 32) (L := 32) (List.replicate n d)
      (by intro x hx; rw [List.eq_of_mem_replicate hx]; exact hd)
    rw [List.length_replicate] at hl
    simp only [commitments, commitmentsNew, encMany, byteDigest, List.nil_append, List.length_append, hd,
      decide_eq_true_eq] at hl ⊢
    omega
  have hall : ∀ (n : Nat) (d : Bytes), d.length = 32 →
      ((([] : List Bytes).all (byteDigest 32).wf && (byteDigest 32).wf d &&
        (List.replicate n d).all (byteDigest 32).wf) = true) := by
    intro n d hd
    have : (List.replicate n d).all (byteDigest 32).wf = true := by
      apply List.all_eq_true.mpr
      intro x hx
      rw [List.eq_of_mem_replicate hx]; simp [byteDigest, hd]
    simp [byteDigest, hd, this]
  have hd : (List.replicate 32 0 : Bytes).length = 32 := List.length_replicate ..
  have h1 := h [] (List.replicate 32 0) (List.replicate 2047 (List.replicate 32 0)) (hall 2047 _ hd)
  have h2 := key 2047 (List.replicate 32 0) hd (by decide)
  rw [h1] at h2
  cases h2

/-- the proved part: up to 65535 bytes of digests the value round-trips (missing for the full statement: the
    constructor does not bound the number of digests) -/
theorem commitments_roundtrip_partial : commitments.RT := commitments_RT

example : commitments.wf (commitmentsNew (byteDigest 2) [[1, 2]] [3, 4] [[5, 6], [7, 8]]) = true := by decide

end WinterProofs.C12
