-- C09: FFT, interpolation and LDE equal direct polynomial evaluation (property theorems).
-- Model: Winter/Model/Fft.lean (hand-written, tied to the code by the correspondence run of ./check C09).
-- Helper lemmas: WinterProofs/Lemmas/C09*.lean.  Spec: `dft ω n p i = evalAt n p (ω^i)` — direct evaluation
-- of the polynomial with coefficients `p` at `ω^i` (`evalAt n p x = Σ_{j<n} x^j • p j`), for coefficients in any
-- module over the (commutative) base ring: base-field elements, extension-field elements, rows `[B; N]`.
import WinterProofs.Lemmas.C09Permute
import WinterProofs.Lemmas.C09Dft

namespace WinterProofs.C09
open Model.Fft

/-! ## (a) `permute_index` / `permute` are the bit-reversal involution -/

/-- `permute_index(2^k, ·)` is an involution on `[0, 2^k)` (all sizes a 64-bit `usize` can hold) -/
theorem permuteIndex_involution (k i : Nat) (hk : k ≤ 64) (hi : i < 2 ^ k) :
    ∃ j, permuteIndex (2 ^ k) i = some j ∧ j < 2 ^ k ∧ permuteIndex (2 ^ k) j = some i := by
  refine ⟨brev k i, permuteIndex_two_pow k i hk hi, brev_lt k i, ?_⟩
  rw [permuteIndex_two_pow k _ hk (brev_lt k i), brev_brev k i hi]

/-- … hence a bijection of `[0, 2^k)`: injective (and surjective by the involution) -/
theorem permuteIndex_injective (k i j : Nat) (hk : k ≤ 64) (hi : i < 2 ^ k) (hj : j < 2 ^ k)
    (h : permuteIndex (2 ^ k) i = permuteIndex (2 ^ k) j) : i = j := by
  rw [permuteIndex_two_pow k i hk hi, permuteIndex_two_pow k j hk hj] at h
  exact brev_injOn k i j hi hj (Option.some.inj h)

example : permuteIndex 8 3 = some 6 ∧ permuteIndex 8 6 = some 3 := by decide

/-- `FftInputs::permute` on `2^k` elements does not panic and puts the element of the bit-reversed index at
    every position -/
theorem permute_is_bit_reversal {α : Type} (k : Nat) (hk : k ≤ 64) (a : Array α) (hsz : a.size = 2 ^ k) :
    ∃ b, permute a = some b ∧ b.size = a.size ∧ ∀ p, p < a.size → b[p]? = a[brev k p]? :=
  permute_spec k hk a hsz

example : permute #[10, 11, 12, 13, 14, 15, 16, 17] = some #[10, 14, 12, 16, 11, 15, 13, 17] := by decide

/-! ## (b) even/odd butterfly identity -/

variable {R : Type} [CommRing R] {M : Type} [AddCommGroup M] [Module R M]

/-- with `ω^m = -1`: values `i` and `i + m` of the size-`2m` transform are `E i ± ω^i • O i`, where `E`, `O`
    are the size-`m` transforms (root `ω²`) of the even- and odd-indexed coefficients -/
theorem butterfly_identity (ω : R) (m : Nat) (hω : ω ^ m = -1) (p : Nat → M) (i : Nat) :
    dft ω (2 * m) p i
        = dft (ω ^ 2) m (fun j => p (2 * j)) i + ω ^ i • dft (ω ^ 2) m (fun j => p (2 * j + 1)) i ∧
    dft ω (2 * m) p (i + m)
        = dft (ω ^ 2) m (fun j => p (2 * j)) i - ω ^ i • dft (ω ^ 2) m (fun j => p (2 * j + 1)) i :=
  ⟨dft_butterfly_low ω m p i, dft_butterfly_high ω m hω p i⟩

/-! ## (c) the clean recursive FFT is the DFT (bit-reversed order) for every `n = 2^k` -/

/-- `fftRec` with the twiddle table `tw i = ω ^ brev (k-1) i` returns, at position `m`, the evaluation of the
    polynomial at `ω ^ brev k m` -/
theorem fftRec_is_dft (k : Nat) (ω : R) (tw : Nat → R) (x : Nat → M)
    (hneg : k ≥ 1 → ω ^ 2 ^ (k - 1) = -1) (htw : TwOk tw ω k) (m : Nat) (hm : m < 2 ^ k) :
    fftRec (modOps R M) tw k x m = evalAt (2 ^ k) x (ω ^ brev k m) :=
  fftRec_eq_dft k ω tw x hneg htw m hm

end WinterProofs.C09
