-- C09: FFT, interpolation and LDE equal direct polynomial evaluation (property theorems).
--
-- Model: Winter/Model/Fft.lean (hand-written from math/src/fft/{mod,serial,fft_inputs}.rs and
-- prover/src/matrix/{row_matrix,segments,col_matrix}.rs; tied to the code by the correspondence run of
-- `./check C09`).  Helper lemmas: WinterProofs/Lemmas/C09*.lean.
--
-- Spec: `evalAt n p x = Σ_{j<n} x^j • p j` — direct evaluation at the point `x` of the polynomial with
-- coefficients `p 0 … p (n-1)`; `dft ω n p i = evalAt n p (ω^i)`.  Coefficients live in any module `M` over the
-- base field `F` (a base-field element, an extension-field element — `mul_base` is the scalar action —, or a
-- row of `N` of them), so one statement covers base fields, extensions and the column-batched variant.
-- `fieldOps F τ A` is the base-field record of a field whose two-adic root `τ` has order `2^A` (what
-- `StarkField` provides: `get_root_of_unity(k) = τ^(2^(A-k)) = rootK τ A k`), `modOps F M` the element record.
-- All theorems are for every size `2^(k+1)` (no bound other than the ones the code itself has: sizes must fit
-- `usize` for `permute_index` (≤ 2^64), `u32` for the interpolation functions (< 2^32), and the subgroup must
-- exist: `k + 1 ≤ A`), every `MAX_LOOP`, every offset, every power-of-two blowup.
--
-- `vw a i` is `a[i]` (total view, only used in range).  `some _` = no panic.
import WinterProofs.Lemmas.C09Layout
import WinterProofs.Lemmas.C09Gen
import Mathlib.Algebra.Field.ZMod

namespace WinterProofs.C09
open Model.Fft

/-! ## (a) `permute_index` / `permute` are the bit-reversal involution -/

/-- `permute_index(2^k, ·)` is an involution on `[0, 2^k)` (all sizes a 64-bit `usize` can hold) -/
theorem permuteIndex_involution (k i : Nat) (hk : k ≤ 64) (hi : i < 2 ^ k) :
    ∃ j, permuteIndex (2 ^ k) i = some j ∧ j < 2 ^ k ∧ permuteIndex (2 ^ k) j = some i := by
  refine ⟨brev k i, permuteIndex_two_pow k i hk hi, brev_lt k i, ?_⟩
  rw [permuteIndex_two_pow k _ hk (brev_lt k i), brev_brev k i hi]

/-- … hence a bijection of `[0, 2^k)`: injective (and surjective by the involution) -/
theorem permuteIndex_injective (k i j : Nat) (hk : k ≤ 64) (hi : i < 2 ^ k) (hj : j < 2 ^ k)
    (h : permuteIndex (2 ^ k) i = permuteIndex (2 ^ k) j) : i = j := by
  rw [permuteIndex_two_pow k i hk hi, permuteIndex_two_pow k j hk hj] at h
  exact brev_injOn k i j hi hj (Option.some.inj h)

example : permuteIndex 8 3 = some 6 ∧ permuteIndex 8 6 = some 3 := by decide

/-- ★ tie T: `permute_index` as regenerated from math/src/fft/mod.rs on this run (Winter/Gen/Fft.lean:
    `reverse_bits`, `trailing_zeros`, `wrapping_shr`, the two debug assertions) IS the model function, for ALL
    sizes and indexes: same value, and the model's `none` exactly when a regenerated assertion fails -/
theorem permuteIndex_gen_eq_model (size index : Nat) :
    permuteIndex size index =
      if Gen.Fft.permute_index_ok size index then some (Gen.Fft.permute_index size index) else none :=
  C09G.gen_permute_index_eq_model size index

/-- hence the regenerated function is the bit-reversal involution on `[0, 2^k)` for every `k ≤ 64` -/
theorem gen_permute_index_involution (k i : Nat) (hk : k ≤ 64) (hi : i < 2 ^ k) :
    Gen.Fft.permute_index_ok (2 ^ k) i = true ∧ Gen.Fft.permute_index (2 ^ k) i < 2 ^ k ∧
    Gen.Fft.permute_index (2 ^ k) (Gen.Fft.permute_index (2 ^ k) i) = i := by
  obtain ⟨j, h1, h2, h3⟩ := permuteIndex_involution k i hk hi
  rw [permuteIndex_gen_eq_model] at h1 h3
  by_cases ho : Gen.Fft.permute_index_ok (2 ^ k) i = true
  · rw [if_pos ho] at h1
    injection h1 with h1
    subst h1
    refine ⟨ho, h2, ?_⟩
    by_cases ho' : Gen.Fft.permute_index_ok (2 ^ k) (Gen.Fft.permute_index (2 ^ k) i) = true
    · rw [if_pos ho'] at h3; injection h3
    · rw [if_neg ho'] at h3; cases h3
  · rw [if_neg ho] at h1; cases h1

example : Gen.Fft.permute_index 8 3 = 6 ∧ Gen.Fft.permute_index_ok 8 3 = true ∧ Gen.Fft.permute_index_ok 6 3 = false := by
  decide

/-- `FftInputs::permute` on `2^k` elements does not panic and puts the element of the bit-reversed index at
    every position -/
theorem permute_is_bit_reversal {α : Type} (k : Nat) (hk : k ≤ 64) (a : Array α) (hsz : a.size = 2 ^ k) :
    ∃ b, permute a = some b ∧ b.size = a.size ∧ ∀ p, p < a.size → b[p]? = a[brev k p]? :=
  permute_spec k hk a hsz

example : permute #[10, 11, 12, 13, 14, 15, 16, 17] = some #[10, 14, 12, 16, 11, 15, 13, 17] := by decide

/-! ## (b) even/odd butterfly identity -/

section ring
variable {R : Type} [CommRing R] {M : Type} [AddCommGroup M] [Module R M]

/-- with `ω^m = -1`: values `i` and `i + m` of the size-`2m` transform are `E i ± ω^i • O i`, where `E`, `O`
    are the size-`m` transforms (root `ω²`) of the even- and odd-indexed coefficients -/
theorem butterfly_identity (ω : R) (m : Nat) (hω : ω ^ m = -1) (p : Nat → M) (i : Nat) :
    dft ω (2 * m) p i
        = dft (ω ^ 2) m (fun j => p (2 * j)) i + ω ^ i • dft (ω ^ 2) m (fun j => p (2 * j + 1)) i ∧
    dft ω (2 * m) p (i + m)
        = dft (ω ^ 2) m (fun j => p (2 * j)) i - ω ^ i • dft (ω ^ 2) m (fun j => p (2 * j + 1)) i :=
  ⟨dft_butterfly_low ω m p i, dft_butterfly_high ω m hω p i⟩

/-! ## (c) the clean recursive FFT is the DFT (bit-reversed order) for every `n = 2^k` -/

/-- `fftRec` with the twiddle table `tw i = ω ^ brev (k-1) i` returns, at position `m`, the evaluation of the
    polynomial at `ω ^ brev k m` (over any commutative ring in which `ω^(2^(k-1)) = -1`) -/
theorem fftRec_is_dft (k : Nat) (ω : R) (tw : Nat → R) (x : Nat → M)
    (hneg : k ≥ 1 → ω ^ 2 ^ (k - 1) = -1) (htw : TwOk tw ω k) (m : Nat) (hm : m < 2 ^ k) :
    fftRec (modOps R M) tw k x m = evalAt (2 ^ k) x (ω ^ brev k m) :=
  fftRec_eq_dft k ω tw x hneg htw m hm

end ring

/-! ## (h) the code-shaped in-place strided recursion equals the clean recursion -/

section inplace
variable {β α : Type} [Inhabited α] [Inhabited β]

/-- `fft_in_place(values, twiddles, count, stride, offset)` on `2^(k+1)·stride` values, for EVERY level `k`,
    EVERY `MAX_LOOP` (both recursion branches), every window `offset + count ≤ stride` and any operations:
    no panic; every sub-sequence `c + j·stride` with `offset ≤ c < offset + count` is replaced by the clean
    recursive transform `fftRec` of that sub-sequence; everything else is unchanged -/
theorem fft_in_place_strided (ops : Ops β α) (maxLoop : Nat) (tw : Array β) (k fuel count stride offset : Nat)
    (a : Array α) (hf : k + 1 ≤ fuel) (hs : 0 < stride) (hsz : a.size = 2 ^ (k + 1) * stride)
    (hw : offset + count ≤ stride) (ho : offset < stride) (htw : 2 ^ k ≤ tw.size) :
    ∃ b, fftInPlace ops maxLoop tw fuel count stride offset a = some b ∧ b.size = a.size ∧
      ∀ m c, m < 2 ^ (k + 1) → c < stride →
        vw b (c + m * stride) =
          if offset ≤ c ∧ c < offset + count then fftRec ops (twf tw) (k + 1) (sub a c stride) m
          else vw a (c + m * stride) :=
  fftInPlace_spec ops maxLoop tw k fuel count stride offset a hf hs hsz hw ho htw

/-- the statement asked for: `fft_in_place(values, twiddles, 1, 1, 0)` (= `FftInputs::fft_in_place`) equals
    `fftRec` on every array of `2^(k+1)` values, whatever `MAX_LOOP` is -/
theorem fft_in_place_eq_fftRec (ops : Ops β α) (maxLoop : Nat) (tw : Array β) (k : Nat) (a : Array α)
    (hsz : a.size = 2 ^ (k + 1)) (htw : 2 ^ k ≤ tw.size) :
    ∃ b, fftTop ops maxLoop tw a = some b ∧ b.size = a.size ∧
      ∀ m, m < 2 ^ (k + 1) → vw b m = fftRec ops (twf tw) (k + 1) (vw a) m :=
  fftTop_spec ops maxLoop tw k a hsz htw

end inplace

/-- TEST (not the unbounded claim, which is `fft_in_place_eq_fftRec`): kernel-evaluated instances over
    arithmetic mod 17 with `n = 16`, twiddles `3^brev`, for `MAX_LOOP = 1` (always the two-call branch),
    `2` (switch in the middle) and `256` (always the one-call branch) -/
def natOps17 : Ops Nat Nat where
  add := fun x y => (x + y) % 17
  sub := fun x y => (x + 17 - y) % 17
  mulBase := fun x t => (x * t) % 17
  isZero := fun x => x == 0

def tw17 : Array Nat := #[1, 13, 9, 15, 3, 5, 10, 11]   -- 3^brev(3,i) mod 17
def in17 : Array Nat := #[1, 2, 3, 4, 5, 6, 7, 8, 9, 10, 11, 12, 13, 14, 15, 16]

example : ∀ ml ∈ [1, 2, 4, 256],
    fftTop natOps17 ml tw17 in17 = some (Array.ofFn (n := 16) fun i => fftRec natOps17 (twf tw17) 4 (vw in17) i) := by
  decide +kernel

/-- TEST: a strided window (`count = 2, stride = 4, offset = 1` on 16 values: the two sub-sequences `1 + 4j` and
    `2 + 4j` are transformed, `0 + 4j` and `3 + 4j` are left alone) -/
example : ∀ ml ∈ [1, 2, 256],
    (fftInPlace natOps17 ml tw17 5 2 4 1 in17).map (fun b => (List.range 16).map (vw b)) =
      some ((List.range 16).map fun p =>
        if 1 ≤ p % 4 ∧ p % 4 < 3 then fftRec natOps17 (twf tw17) 2 (sub in17 (p % 4) 4) (p / 4) else vw in17 p) := by
  decide +kernel

/-! ## the model's entry points over a field -/

section field
variable {F : Type} [Field F] {M : Type} [AddCommGroup M] [Module F M]

local instance : Inhabited M := ⟨0⟩
local instance : Inhabited F := ⟨0⟩

/-- `get_twiddles(2^(k+1))`: entry `i` is `ω ^ brev k i`, `ω` the `2^(k+1)`-th root of unity -/
theorem get_twiddles_spec (τ : F) (A k : Nat) (hk : k + 1 ≤ A) (hk64 : k ≤ 64) :
    ∃ tw, getTwiddles (fieldOps F τ A) (2 ^ (k + 1)) = some tw ∧ tw.size = 2 ^ k ∧
      ∀ i, i < 2 ^ k → twf tw i = rootK τ A (k + 1) ^ brev k i :=
  getTwiddles_spec τ A k hk hk64

/-- `get_inv_twiddles(2^(k+1))`: entry `i` is `ω⁻¹ ^ brev k i` -/
theorem get_inv_twiddles_spec (τ : F) (A k : Nat) (hτ : IsPrimitiveRoot τ (2 ^ A)) (hk : k + 1 ≤ A)
    (hk32 : k + 1 ≤ 31) :
    ∃ tw, getInvTwiddles (fieldOps F τ A) (2 ^ (k + 1)) = some tw ∧ tw.size = 2 ^ k ∧
      ∀ i, i < 2 ^ k → twf tw i = (rootK τ A (k + 1))⁻¹ ^ brev k i :=
  getInvTwiddles_spec τ A k hτ hk hk32

/-- `evaluate_poly`: value `i` of the result is the direct evaluation at `ω^i`, natural order -/
theorem evaluate_poly_is_direct_evaluation (τ : F) (A k : Nat) (hτ : IsPrimitiveRoot τ (2 ^ A)) (hk : k + 1 ≤ A)
    (hk64 : k + 1 ≤ 64) (maxLoop : Nat) (p : Array M) (hp : p.size = 2 ^ (k + 1)) (tw : Array F)
    (htw : getTwiddles (fieldOps F τ A) (2 ^ (k + 1)) = some tw) :
    ∃ r, evaluatePoly (modOps F M) (fieldOps F τ A) maxLoop p tw = some r ∧ r.size = 2 ^ (k + 1) ∧
      ∀ i, i < 2 ^ (k + 1) → vw r i = evalAt (2 ^ (k + 1)) (vw p) (rootK τ A (k + 1) ^ i) :=
  evaluatePoly_spec τ A k hτ hk hk64 maxLoop p hp tw htw

/-! ## (d) coset evaluation by chunks = direct evaluation over the blown-up domain -/

/-- `evaluate_poly_with_offset` with blowup `2^b` (every power of two, `b = 0` included) and any non-zero
    offset: value `q` is the direct evaluation at `off · g^q`, `g` the `2^(k+1+b)`-th root of unity -/
theorem evaluate_poly_with_offset_is_direct_evaluation (τ : F) (A k b : Nat) (hτ : IsPrimitiveRoot τ (2 ^ A))
    (hk : k + 1 + b ≤ A) (hk64 : k + 1 + b ≤ 64) (maxLoop : Nat) (p : Array M) (hp : p.size = 2 ^ (k + 1))
    (tw : Array F) (htw : getTwiddles (fieldOps F τ A) (2 ^ (k + 1)) = some tw) (off : F) (hoff : off ≠ 0) :
    ∃ r, evaluatePolyWithOffset (modOps F M) (fieldOps F τ A) maxLoop p tw off (2 ^ b) = some r ∧
      r.size = 2 ^ (k + 1 + b) ∧
      ∀ q, q < 2 ^ (k + 1 + b) → vw r q = evalAt (2 ^ (k + 1)) (vw p) (off * rootK τ A (k + 1 + b) ^ q) :=
  evaluatePolyWithOffset_spec τ A k b hτ hk hk64 maxLoop p hp tw htw off hoff

/-! ## (e) interpolation inverts evaluation -/

/-- `interpolate_poly` of the evaluations of `p` over `ω^i` returns exactly the coefficients of `p` -/
theorem interpolate_poly_inverts_evaluation (τ : F) (A k : Nat) (hτ : IsPrimitiveRoot τ (2 ^ A)) (hk : k + 1 ≤ A)
    (hk32 : k + 1 ≤ 31) (maxLoop : Nat) (v : Array M) (hv : v.size = 2 ^ (k + 1)) (itw : Array F)
    (hitw : getInvTwiddles (fieldOps F τ A) (2 ^ (k + 1)) = some itw) (p : Nat → M)
    (hev : ∀ i, i < 2 ^ (k + 1) → vw v i = evalAt (2 ^ (k + 1)) p (rootK τ A (k + 1) ^ i)) :
    ∃ r, interpolatePoly (modOps F M) (fieldOps F τ A) maxLoop v itw = some r ∧ r.size = 2 ^ (k + 1) ∧
      ∀ l, l < 2 ^ (k + 1) → vw r l = p l :=
  interpolatePoly_of_evals τ A k hτ hk hk32 maxLoop v hv itw hitw p hev

/-- `interpolate_poly` of ARBITRARY values returns the coefficients of a polynomial (of degree `< n`) that
    passes through them: evaluating the result at `ω^i` gives value `i` back (uniqueness is the previous
    theorem) -/
theorem interpolate_poly_passes_through (τ : F) (A k : Nat) (hτ : IsPrimitiveRoot τ (2 ^ A)) (hk : k + 1 ≤ A)
    (hk32 : k + 1 ≤ 31) (maxLoop : Nat) (v : Array M) (hv : v.size = 2 ^ (k + 1)) (itw : Array F)
    (hitw : getInvTwiddles (fieldOps F τ A) (2 ^ (k + 1)) = some itw) :
    ∃ r, interpolatePoly (modOps F M) (fieldOps F τ A) maxLoop v itw = some r ∧ r.size = 2 ^ (k + 1) ∧
      ∀ i, i < 2 ^ (k + 1) → evalAt (2 ^ (k + 1)) (vw r) (rootK τ A (k + 1) ^ i) = vw v i :=
  interpolatePoly_through τ A k hτ hk hk32 maxLoop v hv itw hitw

/-- `interpolate_poly_with_offset` of the evaluations of `p` over the coset `off · ω^i` returns `p` -/
theorem interpolate_poly_with_offset_inverts_evaluation (τ : F) (A k : Nat) (hτ : IsPrimitiveRoot τ (2 ^ A))
    (hk : k + 1 ≤ A) (hk32 : k + 1 ≤ 31) (maxLoop : Nat) (v : Array M) (hv : v.size = 2 ^ (k + 1))
    (itw : Array F) (hitw : getInvTwiddles (fieldOps F τ A) (2 ^ (k + 1)) = some itw) (off : F) (hoff : off ≠ 0)
    (p : Nat → M)
    (hev : ∀ i, i < 2 ^ (k + 1) → vw v i = evalAt (2 ^ (k + 1)) p (off * rootK τ A (k + 1) ^ i)) :
    ∃ r, interpolatePolyWithOffset (modOps F M) (fieldOps F τ A) maxLoop v itw off = some r ∧
      r.size = 2 ^ (k + 1) ∧ ∀ l, l < 2 ^ (k + 1) → vw r l = p l :=
  interpolatePolyWithOffset_of_evals τ A k hτ hk hk32 maxLoop v hv itw hitw off hoff p hev

/-! ## (g) degree inference -/

/-- `infer_degree` of the evaluations of `p` over the coset `off · ω^i` is the true degree of `p`: the index
    `d` of its last non-zero coefficient … -/
theorem infer_degree_is_true_degree (τ : F) (A k : Nat) (hτ : IsPrimitiveRoot τ (2 ^ A)) (hk : k + 1 ≤ A)
    (hk32 : k + 1 ≤ 31) (maxLoop : Nat) (v : Array M) (hv : v.size = 2 ^ (k + 1)) (off : F) (hoff : off ≠ 0)
    (p : Nat → M)
    (hev : ∀ i, i < 2 ^ (k + 1) → vw v i = evalAt (2 ^ (k + 1)) p (off * rootK τ A (k + 1) ^ i))
    (d : Nat) (hd : d < 2 ^ (k + 1)) (hnz : p d ≠ 0) (hz : ∀ j, d < j → j < 2 ^ (k + 1) → p j = 0) :
    inferDegree (modOps F M) (fieldOps F τ A) maxLoop v off = some d :=
  inferDegree_spec τ A k hτ hk hk32 maxLoop v hv off hoff p hev d hd hnz hz

/-- … and 0 for the evaluations of the zero polynomial (the convention of `polynom::degree_of`) -/
theorem infer_degree_of_zero (τ : F) (A k : Nat) (hτ : IsPrimitiveRoot τ (2 ^ A)) (hk : k + 1 ≤ A)
    (hk32 : k + 1 ≤ 31) (maxLoop : Nat) (v : Array M) (hv : v.size = 2 ^ (k + 1)) (off : F) (hoff : off ≠ 0)
    (hev : ∀ i, i < 2 ^ (k + 1) → vw v i = 0) :
    inferDegree (modOps F M) (fieldOps F τ A) maxLoop v off = some 0 :=
  inferDegree_zero τ A k hτ hk hk32 maxLoop v hv off hoff hev

/-! ## (f) segment / transpose layout of the row-major LDE -/

/-- `RowMatrix::evaluate_polys_over::<N>` over the domain `from_twiddles(get_twiddles(n), 2^b, off)`, `b ≥ 1`:
    for ANY number `C ≥ 1` of base columns (1..255 and beyond, multiples of the segment width or not) and ANY
    segment width `N ≥ 1`: no panic, the row width is `⌈C / N⌉ · N`, and cell `(row, col)` of the flat row-major
    data is the evaluation of polynomial `col` at `off · g^row`; the padding cells `col ≥ C` are zero -/
theorem row_matrix_cell_is_direct_evaluation (τ : F) (A k b : Nat) (hτ : IsPrimitiveRoot τ (2 ^ A))
    (hk : k + 1 + b ≤ A) (hk64 : k + 1 + b ≤ 64) (hb : 1 ≤ b) (maxLoop N : Nat) (hN : 0 < N)
    (polys : Array (Array F)) (hC : 0 < polys.size)
    (hcols : ∀ j, j < polys.size → (vw polys j).size = 2 ^ (k + 1))
    (tw : Array F) (htw : getTwiddles (fieldOps F τ A) (2 ^ (k + 1)) = some tw) (off : F) :
    ∃ rm, evaluatePolysOver (fieldRowOps F) (fieldOps F τ A) (0 : F) maxLoop N polys (2 ^ (k + 1)) tw (2 ^ b) off
        = some rm ∧
      rm.rowWidth = numSegments polys.size N * N ∧ rm.elementsPerRow = polys.size ∧
      rm.data.size = 2 ^ (k + 1 + b) * (numSegments polys.size N * N) ∧
      ∀ row col, row < 2 ^ (k + 1 + b) → col < numSegments polys.size N * N →
        vw rm.data (row * (numSegments polys.size N * N) + col) =
          if col < polys.size then
            evalAt (2 ^ (k + 1)) (colv polys col) (off * rootK τ A (k + 1 + b) ^ row)
          else 0 :=
  evaluatePolysOver_spec τ A k b hτ hk hk64 hb maxLoop N hN polys hC hcols tw htw off

end field

/-! ## the hypotheses are satisfiable: a concrete field with a two-adic root -/

instance fact_prime_17 : Fact (Nat.Prime 17) := ⟨by decide⟩

/-- `3` has order `16 = 2^4` in the field `ZMod 17` -/
theorem three_primitive_mod_17 : IsPrimitiveRoot (3 : ZMod 17) (2 ^ 4) := by
  apply IsPrimitiveRoot.mk_of_lt _ (by norm_num) (by decide)
  intro l h0 hl
  have hl' : l < 16 := by simpa using hl
  interval_cases l <;> decide

/-- instances of the hypotheses of (b) and (c): `4^2 = -1`, `3^(2^3) = -1` and the twiddle table `3^brev` -/
example : (4 : ZMod 17) ^ 2 = -1 ∧ ((4 : Nat) ≥ 1 → (3 : ZMod 17) ^ 2 ^ (4 - 1) = -1) ∧
    TwOk (fun i => (3 : ZMod 17) ^ brev 3 i) 3 4 :=
  ⟨by decide, fun _ => by decide, fun _ _ _ => rfl⟩

/-- instance of the hypotheses of the theorems above: `F = M = ZMod 17`, `τ = 3`, `A = 4`, transforms of size
    `2^(k+1) = 4` with blowup `2^b = 4` (the LDE domain is the whole group of order 16), 3 columns, width 2 -/
example : ∃ tw itw : Array (ZMod 17),
    getTwiddles (fieldOps (ZMod 17) 3 4) (2 ^ (1 + 1)) = some tw ∧
    getInvTwiddles (fieldOps (ZMod 17) 3 4) (2 ^ (1 + 1)) = some itw ∧
    ((#[1, 2, 3, 4] : Array (ZMod 17)).size = 2 ^ (1 + 1)) ∧ (1 + 1 + 2 ≤ 4) ∧ ((5 : ZMod 17) ≠ 0) ∧
    0 < numSegments 3 2 := by
  obtain ⟨tw, h1, _, _⟩ := getTwiddles_spec (F := ZMod 17) 3 4 1 (by norm_num) (by norm_num)
  obtain ⟨itw, h2, _, _⟩ := getInvTwiddles_spec (F := ZMod 17) 3 4 1 three_primitive_mod_17 (by norm_num) (by norm_num)
  exact ⟨tw, itw, h1, h2, rfl, by norm_num, by decide, by decide⟩

end WinterProofs.C09
