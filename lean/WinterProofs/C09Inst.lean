-- C09, instantiated: the theorems of WinterProofs/C09.lean transferred from the abstract field / module to the
-- raw words the code (and the driver) computes on, for the three base fields, with NO remaining algebraic
-- hypothesis.
--
-- * WinterProofs/Lemmas/C09Rel.lean: the model is natural in its operation records (proved once, generically:
--   related records ⇒ every model function maps related inputs to related outputs and panics on the same inputs).
-- * here: property C07 (WinterProofs/C07.lean, C07F62.lean, C07F128.lean) says that on raw words satisfying the
--   representation invariant `Inv` the operations of `Model.F64.impl` / `F62.impl` / `F128.impl` compute in
--   `ZMod p` through `val`, and that the two-adic root has order exactly `2^A`; hence the raw-word records
--   `BaseOps.ofImpl I`, `coordOps I` (what `drv_c09` runs) are related to `fieldOps (ZMod p) τ A`,
--   `modOps (ZMod p) (Fin d → ZMod p)` / `fieldRowOps (ZMod p)` by `a ~ a'  :=  Inv a ∧ val a = a'`.
-- * corollaries `raw_*` (generic in a `RawField`) and their instances `f64_*`, `f62_*`, `f128_*`.
--
-- An element of extension degree `d` is the array of its `d` base coordinates (`add`, `sub`, `mul_base` act
-- coordinate-wise); its value is the vector `vals d x : Fin d → ZMod p`; `d = 1` is the base field.
import WinterProofs.Lemmas.C09Rel
import WinterProofs.Lemmas.C09Layout
import WinterProofs.C07
import WinterProofs.C07F62
import WinterProofs.C07F128

set_option linter.unusedSectionVars false
set_option linter.unusedVariables false

namespace WinterProofs.C09
open Model Model.Fft

/-- what property C07 provides about a base-field implementation `I`: on raw words satisfying `ok` the
    operations compute in `ZMod p` through `val`; the two-adic root has order exactly `2^A` -/
structure RawField (I : FieldImpl) (p : Nat) [Fact p.Prime] (ok : Nat → Prop) (val : Nat → ZMod p) (A : Nat) :
    Prop where
  add : ∀ a b, ok a → ok b → ok (I.add a b) ∧ val (I.add a b) = val a + val b
  sub : ∀ a b, ok a → ok b → ok (I.sub a b) ∧ val (I.sub a b) = val a - val b
  mul : ∀ a b, ok a → ok b → ok (I.mul a b) ∧ val (I.mul a b) = val a * val b
  /-- machine words have at least 64 bits; `BaseElement::new` is defined on machine words -/
  bits : 64 ≤ I.wordBits
  new : ∀ n, n < 2 ^ I.wordBits → ok (I.new n) ∧ val (I.new n) = (n : ZMod p)
  eq : ∀ a b, ok a → ok b → (I.eq a b = true ↔ val a = val b)
  exp : ∀ a e, ok a → e < 2 ^ 64 → ok (I.exp a e) ∧ val (I.exp a e) = val a ^ e
  inv : ∀ a, ok a → ∃ d, I.inv a = .done d ∧ ok d ∧ val d = (val a)⁻¹
  adicity : I.twoAdicity = A
  adicity_lt : A < 64
  root_lt : I.twoAdicRoot < 2 ^ I.wordBits
  root_order : orderOf ((I.twoAdicRoot : Nat) : ZMod p) = 2 ^ A

section generic
variable {I : FieldImpl} {p : Nat} [Fact p.Prime] {ok : Nat → Prop} {val : Nat → ZMod p} {A : Nat}

/-- the two-adic root of unity as a residue -/
def tau (I : FieldImpl) (p : Nat) : ZMod p := ((I.twoAdicRoot : Nat) : ZMod p)

/-- raw word `a` denotes the residue `a'` -/
def Rw (ok : Nat → Prop) (val : Nat → ZMod p) (a : Nat) (a' : ZMod p) : Prop := ok a ∧ val a = a'

theorem RawField.new64 (H : RawField I p ok val A) (n : Nat) (hn : n < 2 ^ 64) :
    ok (I.new n) ∧ val (I.new n) = (n : ZMod p) :=
  H.new n (lt_of_lt_of_le hn (Nat.pow_le_pow_right (by norm_num) H.bits))

theorem RawField.tau_primitive (H : RawField I p ok val A) : IsPrimitiveRoot (tau I p) (2 ^ A) :=
  IsPrimitiveRoot.iff_orderOf.mpr H.root_order

theorem RawField.val_root (H : RawField I p ok val A) : Rw ok val (I.new I.twoAdicRoot) (tau I p) :=
  H.new _ H.root_lt

/-- the raw-word base record is related to the field record -/
theorem RawField.baseRel (H : RawField I p ok val A) :
    BaseRel (BaseOps.ofImpl I) (fieldOps (ZMod p) (tau I p) A) (Rw ok val) where
  one := by
    have := H.new64 1 (by norm_num)
    refine ⟨this.1, ?_⟩
    show val (I.new 1) = (1 : ZMod p)
    rw [this.2]; simp
  mul a a' b b' ha hb := by
    obtain ⟨h1, h2⟩ := H.mul a b ha.1 hb.1
    refine ⟨h1, ?_⟩
    show val (I.mul a b) = a' * b'
    rw [h2, ha.2, hb.2]
  exp a a' e ha he := by
    obtain ⟨h1, h2⟩ := H.exp a e ha.1 he
    refine ⟨h1, ?_⟩
    show val (I.exp a e) = a' ^ e
    rw [h2, ha.2]
  inv a a' ha := by
    obtain ⟨d, e, h1, h2⟩ := H.inv a ha.1
    show OptRel _ (match I.inv a with | .done r => some r | .out => none) (some a'⁻¹)
    rw [e]
    exact ⟨h1, by rw [h2, ha.2]⟩
  ofNat n hn := by
    have := H.new64 n (lt_trans hn (by norm_num))
    refine ⟨this.1, ?_⟩
    show val (I.new n) = (n : ZMod p)
    rw [this.2]
  isZero a a' ha := by
    have h0 := H.new64 0 (by norm_num)
    show I.eq a (I.new 0) = _
    simp only [fieldOps]
    rw [Bool.eq_iff_iff, H.eq a _ ha.1 h0.1, h0.2, ha.2]
    simp
  twoAdicity := H.adicity
  root k := by
    show OptRel _ (I.rootOfUnity k) (if k = 0 ∨ k > A then none else some (tau I p ^ 2 ^ (A - k)))
    unfold FieldImpl.rootOfUnity
    rw [H.adicity]
    by_cases c : k = 0 ∨ k > A
    · rw [if_pos c, if_pos c]; trivial
    · rw [if_neg c, if_neg c]
      have hlt : 2 ^ (A - k) < 2 ^ 64 := Nat.pow_lt_pow_right (by norm_num) (by have := H.adicity_lt; omega)
      obtain ⟨h1, h2⟩ := H.exp _ _ H.val_root.1 hlt
      exact ⟨h1, by rw [h2, H.val_root.2]⟩

/-- rows / coordinate arrays: related entry-wise -/
theorem RawField.rowRel (H : RawField I p ok val A) :
    OpsRel (coordOps I) (fieldRowOps (ZMod p)) (Rw ok val) (ArrRel (Rw ok val)) := by
  unfold coordOps fieldRowOps
  apply rowOps_rel
  · intro a a' b b' ha hb
    obtain ⟨h1, h2⟩ := H.add a b ha.1 hb.1
    exact ⟨h1, by rw [h2, ha.2, hb.2]⟩
  · intro a a' b b' ha hb
    obtain ⟨h1, h2⟩ := H.sub a b ha.1 hb.1
    exact ⟨h1, by rw [h2, ha.2, hb.2]⟩
  · intro a a' b b' ha hb
    obtain ⟨h1, h2⟩ := H.mul a b ha.1 hb.1
    exact ⟨h1, by rw [h2, ha.2, hb.2]⟩
  · intro a a' ha
    have h0 := H.new64 0 (by norm_num)
    rw [Bool.eq_iff_iff, H.eq a _ ha.1 h0.1, h0.2, ha.2]
    simp

/-- the value of an element given by `d` raw coordinates -/
def vals (val : Nat → ZMod p) (d : Nat) (x : Array Nat) : Fin d → ZMod p := fun i => val (x.getD i 0)

/-- the coordinate array `x` (exactly `d` words satisfying the invariant) denotes the vector `m` -/
def Re (ok : Nat → Prop) (val : Nat → ZMod p) (d : Nat) (x : Array Nat) (m : Fin d → ZMod p) : Prop :=
  x.size = d ∧ ∀ i (h : i < d) (hx : i < x.size), ok x[i] ∧ val x[i] = m ⟨i, h⟩

theorem Re.vals_eq {d : Nat} {x : Array Nat} {m : Fin d → ZMod p} (h : Re ok val d x m) : vals val d x = m := by
  funext i
  have := (h.2 i i.2 (by rw [h.1]; exact i.2)).2
  simp only [vals, Array.getD, h.1, i.2, ↓reduceDIte]
  exact this

theorem Re.of_ok {d : Nat} {x : Array Nat} (hs : x.size = d) (hok : ∀ i (h : i < x.size), ok x[i]) :
    Re ok val d x (vals val d x) := by
  refine ⟨hs, fun i h hx => ⟨hok i hx, ?_⟩⟩
  simp [vals, Array.getD, hx]

/-- elements as coordinate arrays: related to the module `Fin d → ZMod p` over `ZMod p` -/
theorem RawField.coordRel (H : RawField I p ok val A) (d : Nat) :
    OpsRel (coordOps I) (modOps (ZMod p) (Fin d → ZMod p)) (Rw ok val) (Re ok val d) where
  add x m y m' hx hy := by
    refine ⟨by simp [coordOps, rowOps, hx.1, hy.1], ?_⟩
    intro i h hi
    simp only [coordOps, rowOps, Array.getElem_zipWith]
    obtain ⟨h1, h2⟩ := H.add _ _ (hx.2 i h (by rw [hx.1]; exact h)).1 (hy.2 i h (by rw [hy.1]; exact h)).1
    exact ⟨h1, by rw [h2, (hx.2 i h _).2, (hy.2 i h _).2]; rfl⟩
  sub x m y m' hx hy := by
    refine ⟨by simp [coordOps, rowOps, hx.1, hy.1], ?_⟩
    intro i h hi
    simp only [coordOps, rowOps, Array.getElem_zipWith]
    obtain ⟨h1, h2⟩ := H.sub _ _ (hx.2 i h (by rw [hx.1]; exact h)).1 (hy.2 i h (by rw [hy.1]; exact h)).1
    exact ⟨h1, by rw [h2, (hx.2 i h _).2, (hy.2 i h _).2]; rfl⟩
  mulBase x m t t' hx ht := by
    refine ⟨by simp [coordOps, rowOps, hx.1], ?_⟩
    intro i h hi
    simp only [coordOps, rowOps, Array.getElem_map]
    obtain ⟨h1, h2⟩ := H.mul _ _ (hx.2 i h (by rw [hx.1]; exact h)).1 ht.1
    exact ⟨h1, by rw [h2, (hx.2 i h _).2, ht.2]; simp [modOps, mul_comm]⟩
  isZero x m hx := by
    have h0 := H.new64 0 (by norm_num)
    simp only [coordOps, rowOps, modOps]
    rw [Bool.eq_iff_iff, Array.all_eq_true]
    simp only [decide_eq_true_eq]
    constructor
    · intro h
      funext i
      have hi : i.1 < x.size := by rw [hx.1]; exact i.2
      have h1 := hx.2 i i.2 hi
      have := (H.eq _ _ h1.1 h0.1).mp (h i hi)
      rw [h1.2, h0.2] at this
      simpa using this
    · intro h i hi
      have hid : i < d := hx.1 ▸ hi
      have h1 := hx.2 i hid hi
      rw [H.eq _ _ h1.1 h0.1, h1.2, h0.2, h]
      simp

/-! ### lifting raw arrays -/

/-- every element of the array has exactly `d` coordinates, all satisfying the invariant -/
def OkElems (ok : Nat → Prop) (d : Nat) (a : Array (Array Nat)) : Prop :=
  ∀ i (h : i < a.size), a[i].size = d ∧ ∀ j (hj : j < a[i].size), ok a[i][j]

theorem lift_rel {d : Nat} {a : Array (Array Nat)} (h : OkElems ok d a) :
    ArrRel (Re ok val d) a (a.map (vals val d)) := by
  refine ⟨by simp, ?_⟩
  intro i hi hi'
  simp only [Array.getElem_map]
  exact Re.of_ok (h i hi).1 (h i hi).2

theorem rel_ok {d : Nat} {a : Array (Array Nat)} {a' : Array (Fin d → ZMod p)} (h : ArrRel (Re ok val d) a a') :
    OkElems ok d a := by
  intro i hi
  have := h.2 i hi (h.1 ▸ hi)
  exact ⟨this.1, fun j hj => (this.2 j (this.1 ▸ hj) hj).1⟩

theorem evalAt_congr {M : Type} [AddCommGroup M] [Module (ZMod p) M] (n : Nat) (x y : Nat → M) (c : ZMod p)
    (h : ∀ j, j < n → x j = y j) : evalAt n x c = evalAt n y c := by
  unfold evalAt
  exact Finset.sum_congr rfl (fun j hj => by rw [h j (Finset.mem_range.mp hj)])

local instance instInhVec (d : Nat) : Inhabited (Fin d → ZMod p) := ⟨0⟩
local instance instInhZ : Inhabited (ZMod p) := ⟨0⟩

theorem vw_lift {d : Nat} (a : Array (Array Nat)) (j : Nat) (hj : j < a.size) :
    vw (a.map (vals val d)) j = vals val d (a.getD j #[]) := by
  rw [vw_of_lt _ _ (by simpa using hj)]
  simp [Array.getD, hj]

/-- the root of unity the code uses, as a raw word, and its value -/
theorem RawField.root (H : RawField I p ok val A) (k : Nat) (h1 : 1 ≤ k) (hk : k ≤ A) :
    ∃ g, I.rootOfUnity k = some g ∧ ok g ∧ val g = rootK (tau I p) A k ∧ IsPrimitiveRoot (val g) (2 ^ k) := by
  have hr := H.baseRel.root k
  rw [rootOfUnity_fieldOps (tau I p) A k hk h1] at hr
  obtain ⟨g, e, hg⟩ := hr.of_some_right
  exact ⟨g, e, hg.1, hg.2, by rw [hg.2]; exact rootK_primitive _ A k H.tau_primitive hk⟩

theorem RawField.twiddles (H : RawField I p ok val A) (k : Nat) (hk : k + 1 ≤ A) :
    ∃ tw tw', getTwiddles (BaseOps.ofImpl I) (2 ^ (k + 1)) = some tw ∧
      getTwiddles (fieldOps (ZMod p) (tau I p) A) (2 ^ (k + 1)) = some tw' ∧ ArrRel (Rw ok val) tw tw' := by
  obtain ⟨tw', e', _, _⟩ := getTwiddles_spec (F := ZMod p) (tau I p) A k hk (by have := H.adicity_lt; omega)
  have hr := getTwiddles_rel H.baseRel (2 ^ (k + 1))
  rw [e'] at hr
  obtain ⟨tw, e, h⟩ := hr.of_some_right
  exact ⟨tw, tw', e, e', h⟩

theorem RawField.invTwiddles (H : RawField I p ok val A) (k : Nat) (hk : k + 1 ≤ A) (hk32 : k + 1 ≤ 31) :
    ∃ tw tw', getInvTwiddles (BaseOps.ofImpl I) (2 ^ (k + 1)) = some tw ∧
      getInvTwiddles (fieldOps (ZMod p) (tau I p) A) (2 ^ (k + 1)) = some tw' ∧ ArrRel (Rw ok val) tw tw' := by
  obtain ⟨tw', e', _, _⟩ := getInvTwiddles_spec (F := ZMod p) (tau I p) A k H.tau_primitive hk hk32
  have hr := getInvTwiddles_rel H.baseRel (2 ^ (k + 1))
  rw [e'] at hr
  obtain ⟨tw, e, h⟩ := hr.of_some_right
  exact ⟨tw, tw', e, e', h⟩

/-! ### the corollaries on raw words (generic in the field) -/

/-- `fft_in_place` on raw words = recursive FFT = DFT: position `m` of the result holds (coordinate-wise) the
    evaluation of the polynomial with the input values as coefficients at `ω ^ brev m`, `ω = val (get_root_of_unity)` -/
theorem raw_fft_in_place (H : RawField I p ok val A) (d k : Nat) (hk : k + 1 ≤ A) (maxLoop : Nat)
    (a : Array (Array Nat)) (ha : a.size = 2 ^ (k + 1)) (hok : OkElems ok d a) :
    ∃ g tw b, I.rootOfUnity (k + 1) = some g ∧ ok g ∧ IsPrimitiveRoot (val g) (2 ^ (k + 1)) ∧
      getTwiddles (BaseOps.ofImpl I) (2 ^ (k + 1)) = some tw ∧
      fftTop (coordOps I) maxLoop tw a = some b ∧ b.size = 2 ^ (k + 1) ∧ OkElems ok d b ∧
      ∀ m, m < 2 ^ (k + 1) → vals val d (b.getD m #[]) =
        evalAt (2 ^ (k + 1)) (fun j => vals val d (a.getD j #[])) (val g ^ brev (k + 1) m) := by
  obtain ⟨g, eg, hg1, hg2, hg3⟩ := H.root (k + 1) (by omega) hk
  obtain ⟨tw, tw', etw, etw', htw⟩ := H.twiddles k hk
  obtain ⟨_, e2, hts, htv⟩ := getTwiddles_spec (F := ZMod p) (tau I p) A k hk (by have := H.adicity_lt; omega)
  rw [etw'] at e2
  obtain rfl := Option.some.inj e2
  have hrel := lift_rel (val := val) hok
  obtain ⟨b', eb', hbs', hbv'⟩ := fftTop_spec (modOps (ZMod p) (Fin d → ZMod p)) maxLoop tw' k
    (a.map (vals val d)) (by simpa using ha) (by omega)
  have hr := fftTop_rel (H.coordRel d) maxLoop htw hrel
  rw [eb'] at hr
  obtain ⟨b, eb, hb⟩ := hr.of_some_right
  have hbs : b.size = 2 ^ (k + 1) := by rw [hb.1, hbs']; simpa using ha
  refine ⟨g, tw, b, eg, hg1, hg3, etw, eb, hbs, rel_ok hb, ?_⟩
  intro m hm
  have hmb : m < b.size := by omega
  have hmb' : m < b'.size := hb.1 ▸ hmb
  have h1 := (hb.2 m hmb hmb').vals_eq
  have : b.getD m #[] = b[m] := by simp [Array.getD, hmb]
  rw [this, h1, ← vw_of_lt b' m hmb', hbv' m hm]
  have hTw : TwOk (twf tw') (rootK (tau I p) A (k + 1)) (k + 1) := by
    intro i _ hi
    simp only [Nat.add_sub_cancel] at hi ⊢
    exact htv i hi
  rw [fftRec_eq_dft (k + 1) (rootK (tau I p) A (k + 1)) (twf tw') _
    (fun _ => by simpa using rootK_half (tau I p) A (k + 1) hk (by omega) H.tau_primitive) hTw m hm, hg2]
  unfold dft
  exact evalAt_congr _ _ _ _ (fun j hj => vw_lift a j (by omega))

/-- `evaluate_poly` on raw words: value `i` is (coordinate-wise) the direct evaluation at `ω^i` -/
theorem raw_evaluate_poly (H : RawField I p ok val A) (d k : Nat) (hk : k + 1 ≤ A) (maxLoop : Nat)
    (a : Array (Array Nat)) (ha : a.size = 2 ^ (k + 1)) (hok : OkElems ok d a) :
    ∃ g tw r, I.rootOfUnity (k + 1) = some g ∧ ok g ∧ IsPrimitiveRoot (val g) (2 ^ (k + 1)) ∧
      getTwiddles (BaseOps.ofImpl I) (2 ^ (k + 1)) = some tw ∧
      evaluatePoly (coordOps I) (BaseOps.ofImpl I) maxLoop a tw = some r ∧ r.size = 2 ^ (k + 1) ∧ OkElems ok d r ∧
      ∀ i, i < 2 ^ (k + 1) → vals val d (r.getD i #[]) =
        evalAt (2 ^ (k + 1)) (fun j => vals val d (a.getD j #[])) (val g ^ i) := by
  obtain ⟨g, eg, hg1, hg2, hg3⟩ := H.root (k + 1) (by omega) hk
  obtain ⟨tw, tw', etw, etw', htw⟩ := H.twiddles k hk
  have hrel := lift_rel (val := val) hok
  obtain ⟨r', er', hrs', hrv'⟩ := evaluatePoly_spec (M := Fin d → ZMod p) (tau I p) A k H.tau_primitive hk
    (by have := H.adicity_lt; omega) maxLoop (a.map (vals val d)) (by simpa using ha) tw' etw'
  have hr := evaluatePoly_rel (H.coordRel d) H.baseRel maxLoop hrel htw
  rw [er'] at hr
  obtain ⟨r, er, hrr⟩ := hr.of_some_right
  have hrs : r.size = 2 ^ (k + 1) := by rw [hrr.1, hrs']
  refine ⟨g, tw, r, eg, hg1, hg3, etw, er, hrs, rel_ok hrr, ?_⟩
  intro i hi
  have hir : i < r.size := by omega
  have hir' : i < r'.size := hrr.1 ▸ hir
  have : r.getD i #[] = r[i] := by simp [Array.getD, hir]
  rw [this, (hrr.2 i hir hir').vals_eq, ← vw_of_lt r' i hir', hrv' i hi, hg2]
  exact evalAt_congr _ _ _ _ (fun j hj => vw_lift a j (by omega))

/-- `evaluate_poly_with_offset` on raw words, every power-of-two blowup, every offset with non-zero residue:
    value `q` is the direct evaluation at `off · g^q`, `g = get_root_of_unity(log2 of the LDE domain)` -/
theorem raw_evaluate_poly_with_offset (H : RawField I p ok val A) (d k b : Nat) (hk : k + 1 + b ≤ A)
    (maxLoop : Nat) (a : Array (Array Nat)) (ha : a.size = 2 ^ (k + 1)) (hok : OkElems ok d a)
    (off : Nat) (hoff : ok off) (hoff0 : val off ≠ 0) :
    ∃ g tw r, I.rootOfUnity (k + 1 + b) = some g ∧ ok g ∧ IsPrimitiveRoot (val g) (2 ^ (k + 1 + b)) ∧
      getTwiddles (BaseOps.ofImpl I) (2 ^ (k + 1)) = some tw ∧
      evaluatePolyWithOffset (coordOps I) (BaseOps.ofImpl I) maxLoop a tw off (2 ^ b) = some r ∧
      r.size = 2 ^ (k + 1 + b) ∧ OkElems ok d r ∧
      ∀ q, q < 2 ^ (k + 1 + b) → vals val d (r.getD q #[]) =
        evalAt (2 ^ (k + 1)) (fun j => vals val d (a.getD j #[])) (val off * val g ^ q) := by
  obtain ⟨g, eg, hg1, hg2, hg3⟩ := H.root (k + 1 + b) (by omega) hk
  obtain ⟨tw, tw', etw, etw', htw⟩ := H.twiddles k (by omega)
  have hrel := lift_rel (val := val) hok
  obtain ⟨r', er', hrs', hrv'⟩ := evaluatePolyWithOffset_spec (M := Fin d → ZMod p) (tau I p) A k b H.tau_primitive hk
    (by have := H.adicity_lt; omega) maxLoop (a.map (vals val d)) (by simpa using ha) tw' etw' (val off) hoff0
  have hr := evaluatePolyWithOffset_rel (H.coordRel d) H.baseRel maxLoop hrel htw (o := off) (o' := val off)
    ⟨hoff, rfl⟩ (2 ^ b)
  rw [er'] at hr
  obtain ⟨r, er, hrr⟩ := hr.of_some_right
  have hrs : r.size = 2 ^ (k + 1 + b) := by rw [hrr.1, hrs']
  refine ⟨g, tw, r, eg, hg1, hg3, etw, er, hrs, rel_ok hrr, ?_⟩
  intro q hq
  have hir : q < r.size := by omega
  have hir' : q < r'.size := hrr.1 ▸ hir
  have : r.getD q #[] = r[q] := by simp [Array.getD, hir]
  rw [this, (hrr.2 q hir hir').vals_eq, ← vw_of_lt r' q hir', hrv' q hq, hg2]
  exact evalAt_congr _ _ _ _ (fun j hj => vw_lift a j (by omega))

/-- interpolation inverts evaluation on raw words: if the raw values denote the evaluations of `P` over the coset
    `off · ω^i`, `interpolate_poly_with_offset` returns raw words denoting the coefficients of `P` (sizes `< 2^32`) -/
theorem raw_interpolate_with_offset (H : RawField I p ok val A) (d k : Nat) (hk : k + 1 ≤ A) (hk32 : k + 1 ≤ 31)
    (maxLoop : Nat) (v : Array (Array Nat)) (hv : v.size = 2 ^ (k + 1)) (hok : OkElems ok d v)
    (off : Nat) (hoff : ok off) (hoff0 : val off ≠ 0) (P : Nat → Fin d → ZMod p) :
    ∃ g itw, I.rootOfUnity (k + 1) = some g ∧ ok g ∧ IsPrimitiveRoot (val g) (2 ^ (k + 1)) ∧
      getInvTwiddles (BaseOps.ofImpl I) (2 ^ (k + 1)) = some itw ∧
      ((∀ i, i < 2 ^ (k + 1) → vals val d (v.getD i #[]) = evalAt (2 ^ (k + 1)) P (val off * val g ^ i)) →
        ∃ r, interpolatePolyWithOffset (coordOps I) (BaseOps.ofImpl I) maxLoop v itw off = some r ∧
          r.size = 2 ^ (k + 1) ∧ OkElems ok d r ∧ ∀ l, l < 2 ^ (k + 1) → vals val d (r.getD l #[]) = P l) := by
  obtain ⟨g, eg, hg1, hg2, hg3⟩ := H.root (k + 1) (by omega) hk
  obtain ⟨tw, tw', etw, etw', htw⟩ := H.invTwiddles k hk hk32
  refine ⟨g, tw, eg, hg1, hg3, etw, ?_⟩
  intro hev
  have hrel := lift_rel (val := val) hok
  obtain ⟨r', er', hrs', hrv'⟩ := interpolatePolyWithOffset_of_evals (M := Fin d → ZMod p) (tau I p) A k
    H.tau_primitive hk hk32 maxLoop (v.map (vals val d)) (by simpa using hv) tw' etw' (val off) hoff0 P
    (fun i hi => by rw [vw_lift v i (by omega), hev i hi, hg2])
  have hr := interpolatePolyWithOffset_rel (H.coordRel d) H.baseRel maxLoop hrel htw (o := off) (o' := val off)
    ⟨hoff, rfl⟩
  rw [er'] at hr
  obtain ⟨r, er, hrr⟩ := hr.of_some_right
  have hrs : r.size = 2 ^ (k + 1) := by rw [hrr.1, hrs']
  refine ⟨r, er, hrs, rel_ok hrr, ?_⟩
  intro l hl
  have hir : l < r.size := by omega
  have hir' : l < r'.size := hrr.1 ▸ hir
  have : r.getD l #[] = r[l] := by simp [Array.getD, hir]
  rw [this, (hrr.2 l hir hir').vals_eq, ← vw_of_lt r' l hir', hrv' l hl]

/-- … and without offset (`interpolate_poly`) -/
theorem raw_interpolate (H : RawField I p ok val A) (d k : Nat) (hk : k + 1 ≤ A) (hk32 : k + 1 ≤ 31)
    (maxLoop : Nat) (v : Array (Array Nat)) (hv : v.size = 2 ^ (k + 1)) (hok : OkElems ok d v)
    (P : Nat → Fin d → ZMod p) :
    ∃ g itw, I.rootOfUnity (k + 1) = some g ∧ ok g ∧ IsPrimitiveRoot (val g) (2 ^ (k + 1)) ∧
      getInvTwiddles (BaseOps.ofImpl I) (2 ^ (k + 1)) = some itw ∧
      ((∀ i, i < 2 ^ (k + 1) → vals val d (v.getD i #[]) = evalAt (2 ^ (k + 1)) P (val g ^ i)) →
        ∃ r, interpolatePoly (coordOps I) (BaseOps.ofImpl I) maxLoop v itw = some r ∧
          r.size = 2 ^ (k + 1) ∧ OkElems ok d r ∧ ∀ l, l < 2 ^ (k + 1) → vals val d (r.getD l #[]) = P l) := by
  obtain ⟨g, eg, hg1, hg2, hg3⟩ := H.root (k + 1) (by omega) hk
  obtain ⟨tw, tw', etw, etw', htw⟩ := H.invTwiddles k hk hk32
  refine ⟨g, tw, eg, hg1, hg3, etw, ?_⟩
  intro hev
  have hrel := lift_rel (val := val) hok
  obtain ⟨r', er', hrs', hrv'⟩ := interpolatePoly_of_evals (M := Fin d → ZMod p) (tau I p) A k
    H.tau_primitive hk hk32 maxLoop (v.map (vals val d)) (by simpa using hv) tw' etw' P
    (fun i hi => by rw [vw_lift v i (by omega), hev i hi, hg2])
  have hr := interpolatePoly_rel (H.coordRel d) H.baseRel maxLoop hrel htw
  rw [er'] at hr
  obtain ⟨r, er, hrr⟩ := hr.of_some_right
  have hrs : r.size = 2 ^ (k + 1) := by rw [hrr.1, hrs']
  refine ⟨r, er, hrs, rel_ok hrr, ?_⟩
  intro l hl
  have hir : l < r.size := by omega
  have hir' : l < r'.size := hrr.1 ▸ hir
  have : r.getD l #[] = r[l] := by simp [Array.getD, hir]
  rw [this, (hrr.2 l hir hir').vals_eq, ← vw_of_lt r' l hir', hrv' l hl]

/-- `infer_degree` on raw words reports the true degree of the polynomial the raw values are evaluations of -/
theorem raw_infer_degree (H : RawField I p ok val A) (d k : Nat) (hk : k + 1 ≤ A) (hk32 : k + 1 ≤ 31)
    (maxLoop : Nat) (v : Array (Array Nat)) (hv : v.size = 2 ^ (k + 1)) (hok : OkElems ok d v)
    (off : Nat) (hoff : ok off) (hoff0 : val off ≠ 0) (P : Nat → Fin d → ZMod p) :
    ∃ g, I.rootOfUnity (k + 1) = some g ∧ ok g ∧
      ((∀ i, i < 2 ^ (k + 1) → vals val d (v.getD i #[]) = evalAt (2 ^ (k + 1)) P (val off * val g ^ i)) →
        ∀ deg, deg < 2 ^ (k + 1) → P deg ≠ 0 → (∀ j, deg < j → j < 2 ^ (k + 1) → P j = 0) →
          inferDegree (coordOps I) (BaseOps.ofImpl I) maxLoop v off = some deg) := by
  obtain ⟨g, eg, hg1, hg2, hg3⟩ := H.root (k + 1) (by omega) hk
  refine ⟨g, eg, hg1, ?_⟩
  intro hev deg hdeg hnz hz
  have hrel := lift_rel (val := val) hok
  rw [inferDegree_rel (H.coordRel d) H.baseRel maxLoop hrel (o := off) (o' := val off) ⟨hoff, rfl⟩]
  exact inferDegree_spec (M := Fin d → ZMod p) (tau I p) A k H.tau_primitive hk hk32 maxLoop (v.map (vals val d))
    (by simpa using hv) (val off) hoff0 P (fun i hi => by rw [vw_lift v i (by omega), hev i hi, hg2]) deg hdeg hnz hz

/-- the row-major LDE on raw words: for any number `C ≥ 1` of base columns and any segment width `N ≥ 1`, cell
    `(row, col)` of the flat data satisfies the invariant and denotes the evaluation of column `col` at
    `off · g^row`; padding cells denote zero -/
theorem raw_row_matrix (H : RawField I p ok val A) (k b : Nat) (hk : k + 1 + b ≤ A) (hb : 1 ≤ b)
    (maxLoop N : Nat) (hN : 0 < N) (polys : Array (Array Nat)) (hC : 0 < polys.size)
    (hcols : ∀ c (h : c < polys.size), polys[c].size = 2 ^ (k + 1) ∧ ∀ j (hj : j < polys[c].size), ok polys[c][j])
    (off : Nat) (hoff : ok off) :
    ∃ g tw rm, I.rootOfUnity (k + 1 + b) = some g ∧ ok g ∧ IsPrimitiveRoot (val g) (2 ^ (k + 1 + b)) ∧
      getTwiddles (BaseOps.ofImpl I) (2 ^ (k + 1)) = some tw ∧
      evaluatePolysOver (coordOps I) (BaseOps.ofImpl I) (I.new 0) maxLoop N polys (2 ^ (k + 1)) tw (2 ^ b) off
        = some rm ∧
      rm.rowWidth = numSegments polys.size N * N ∧ rm.elementsPerRow = polys.size ∧
      rm.data.size = 2 ^ (k + 1 + b) * (numSegments polys.size N * N) ∧
      ∀ row col, row < 2 ^ (k + 1 + b) → col < numSegments polys.size N * N →
        ok (rm.data.getD (row * (numSegments polys.size N * N) + col) 0) ∧
        val (rm.data.getD (row * (numSegments polys.size N * N) + col) 0) =
          if col < polys.size then
            evalAt (2 ^ (k + 1)) (fun j => val ((polys.getD col #[]).getD j 0)) (val off * val g ^ row)
          else 0 := by
  obtain ⟨g, eg, hg1, hg2, hg3⟩ := H.root (k + 1 + b) (by omega) hk
  obtain ⟨tw, tw', etw, etw', htw⟩ := H.twiddles k (by omega)
  have hrel : ArrRel (ArrRel (Rw ok val)) polys (polys.map (fun (c : Array Nat) => c.map val)) := by
    refine ⟨by simp, ?_⟩
    intro c hc hc'
    simp only [Array.getElem_map]
    refine ⟨by simp, ?_⟩
    intro j hj hj'
    simp only [Array.getElem_map]
    exact ⟨(hcols c hc).2 j hj, rfl⟩
  have hcols' : ∀ j, j < (polys.map (fun (c : Array Nat) => c.map val)).size →
      (vw (polys.map (fun (c : Array Nat) => c.map val)) j).size = 2 ^ (k + 1) := by
    intro j hj
    rw [vw_of_lt _ _ hj]
    simp only [Array.getElem_map, Array.size_map]
    exact (hcols j (by simpa using hj)).1
  obtain ⟨rm', erm', hw', he', hds', hdv'⟩ := evaluatePolysOver_spec (tau I p) A k b H.tau_primitive hk
    (by have := H.adicity_lt; omega) hb maxLoop N hN (polys.map (fun (c : Array Nat) => c.map val)) (by simpa using hC) hcols'
    tw' etw' (val off)
  have hz : Rw ok val (I.new 0) (0 : ZMod p) := by
    have := H.new64 0 (by norm_num)
    exact ⟨this.1, by rw [this.2]; simp⟩
  have hr := evaluatePolysOver_rel H.rowRel H.baseRel hz maxLoop N hrel (2 ^ (k + 1)) htw (2 ^ b)
    (o := off) (o' := val off) ⟨hoff, rfl⟩
  rw [erm'] at hr
  obtain ⟨rm, erm, hd, hw, he⟩ := hr.of_some_right
  simp only [Array.size_map] at hw' he' hds' hdv'
  refine ⟨g, tw, rm, eg, hg1, hg3, etw, erm, by rw [hw, hw'], by rw [he, he'], by rw [hd.1, hds'], ?_⟩
  intro row col hrow hcol
  set W := numSegments polys.size N * N with hW
  have hidx : row * W + col < rm.data.size := by
    rw [hd.1, hds']
    have : (row + 1) * W ≤ 2 ^ (k + 1 + b) * W := Nat.mul_le_mul_right W hrow
    have e : (row + 1) * W = row * W + W := by ring
    omega
  have hidx' : row * W + col < rm'.data.size := hd.1 ▸ hidx
  have hcell := hd.2 _ hidx hidx'
  have e1 : rm.data.getD (row * W + col) 0 = rm.data[row * W + col] := by simp [Array.getD, hidx]
  rw [e1]
  refine ⟨hcell.1, ?_⟩
  rw [hcell.2, ← vw_of_lt rm'.data _ hidx', hdv' row col hrow hcol, hg2]
  by_cases hc : col < polys.size
  · rw [if_pos hc, if_pos hc]
    apply evalAt_congr
    intro j hj
    have hsz := (hcols col hc).1
    have h1 : vw (polys.map (fun (c : Array Nat) => c.map val)) col = polys[col].map val := by
      rw [vw_of_lt _ _ (by simpa using hc)]; simp
    unfold colv
    rw [h1, vw_of_lt _ j (by rw [Array.size_map, hsz]; exact hj)]
    simp [Array.getD, hc, hsz, hj]
  · rw [if_neg hc, if_neg hc]

end generic

/-! ## the three base fields (property C07 discharges `RawField`) -/

/-- the 64-bit field: `Inv r := r < M` (canonical Montgomery words), two-adicity 32 -/
theorem f64_raw : RawField Model.F64.impl F64Z.P F64Z.Inv F64Z.val 32 where
  add a b ha hb := ⟨(C07.F64.add_correct a b ha hb).1, (C07.F64.add_correct a b ha hb).2.1⟩
  sub a b ha hb := C07.F64.sub_correct a b ha hb
  mul a b ha hb := C07.F64.mul_correct a b ha hb
  bits := Nat.le_refl 64
  new n hn := C07.F64.new_correct n hn
  eq a b ha hb := C07.F64.eq_correct a b ha hb
  exp a e ha he := C07.F64.exp_correct a e ha he
  inv a ha := ⟨Model.F64.inv a, rfl, (C07.F64.inv_correct a ha).1, (C07.F64.inv_correct a ha).2⟩
  adicity := rfl
  adicity_lt := by norm_num
  root_lt := by decide
  root_order := C07.F64.root_of_unity_order

/-- the 62-bit field: `Inv r := r < 2M` (non-canonical Montgomery words), two-adicity 39 -/
theorem f62_raw : RawField Model.F62.impl F62Z.P F62Z.Inv F62Z.val 39 where
  add a b ha hb := ⟨(C07.F62.add_correct a b ha hb).1, (C07.F62.add_correct a b ha hb).2.1⟩
  sub a b ha hb := ⟨(C07.F62.sub_correct a b ha hb).1, (C07.F62.sub_correct a b ha hb).2.1⟩
  mul a b ha hb := ⟨(C07.F62.mul_correct a b ha hb).1, (C07.F62.mul_correct a b ha hb).2.1⟩
  bits := Nat.le_refl 64
  new n hn := ⟨(C07.F62.new_correct n hn).1, (C07.F62.new_correct n hn).2.1⟩
  eq a b ha hb := (C07.F62.eq_correct a b ha hb).1
  exp a e ha _ := C07.F62.exp_correct a e ha
  inv a ha := C07.F62.inv_correct a ha
  adicity := rfl
  adicity_lt := by norm_num
  root_lt := by decide
  root_order := C07.F62.root_of_unity_order

/-- the 128-bit field: `Inv r := r < M` (canonical integers), two-adicity 40 -/
theorem f128_raw : RawField Model.F128.impl F128Z.P F128Z.Inv F128Z.val 40 where
  add a b ha hb := ⟨(C07.F128.add_correct a b ha hb).1, (C07.F128.add_correct a b ha hb).2.1⟩
  sub a b ha hb := ⟨(C07.F128.sub_correct a b ha hb).1, (C07.F128.sub_correct a b ha hb).2.1⟩
  mul a b ha hb := ⟨(C07.F128.mul_correct a b ha hb).1, (C07.F128.mul_correct a b ha hb).2.1⟩
  bits := by show 64 ≤ 128; norm_num
  new n hn := ⟨(C07.F128.new_correct n hn).1, (C07.F128.new_correct n hn).2.1⟩
  eq a b ha hb := C07.F128.eq_correct a b ha hb
  exp a e ha he := C07.F128.exp_correct a e ha (lt_trans he (by norm_num))
  inv a ha := C07.F128.inv_correct a ha
  adicity := rfl
  adicity_lt := by norm_num
  root_lt := by decide
  root_order := C07.F128.root_of_unity_order

-- ------------------------------------------------------------------------------------------------ f64
/-- f64 raw words (`Model.F64.impl`), no algebraic hypothesis: `fft_in_place` = recursive FFT = DFT at `ω ^ brev m` -/
theorem f64_fft_in_place : ∀ (d k : Nat) (hk : k + 1 ≤ 32) (maxLoop : Nat)
    (a : Array (Array Nat)) (ha : a.size = 2 ^ (k + 1)) (hok : OkElems F64Z.Inv d a),

    ∃ g tw b, Model.F64.impl.rootOfUnity (k + 1) = some g ∧ F64Z.Inv g ∧ IsPrimitiveRoot (F64Z.val g) (2 ^ (k + 1)) ∧
      getTwiddles (BaseOps.ofImpl Model.F64.impl) (2 ^ (k + 1)) = some tw ∧
      fftTop (coordOps Model.F64.impl) maxLoop tw a = some b ∧ b.size = 2 ^ (k + 1) ∧ OkElems F64Z.Inv d b ∧
      ∀ m, m < 2 ^ (k + 1) → vals F64Z.val d (b.getD m #[]) =
        evalAt (2 ^ (k + 1)) (fun j => vals F64Z.val d (a.getD j #[])) (F64Z.val g ^ brev (k + 1) m) :=
  raw_fft_in_place f64_raw
/-- f64 raw words (`Model.F64.impl`), no algebraic hypothesis: `evaluate_poly` = direct evaluation at `ω^i` -/
theorem f64_evaluate_poly : ∀ (d k : Nat) (hk : k + 1 ≤ 32) (maxLoop : Nat)
    (a : Array (Array Nat)) (ha : a.size = 2 ^ (k + 1)) (hok : OkElems F64Z.Inv d a),

    ∃ g tw r, Model.F64.impl.rootOfUnity (k + 1) = some g ∧ F64Z.Inv g ∧ IsPrimitiveRoot (F64Z.val g) (2 ^ (k + 1)) ∧
      getTwiddles (BaseOps.ofImpl Model.F64.impl) (2 ^ (k + 1)) = some tw ∧
      evaluatePoly (coordOps Model.F64.impl) (BaseOps.ofImpl Model.F64.impl) maxLoop a tw = some r ∧ r.size = 2 ^ (k + 1) ∧ OkElems F64Z.Inv d r ∧
      ∀ i, i < 2 ^ (k + 1) → vals F64Z.val d (r.getD i #[]) =
        evalAt (2 ^ (k + 1)) (fun j => vals F64Z.val d (a.getD j #[])) (F64Z.val g ^ i) :=
  raw_evaluate_poly f64_raw
/-- f64 raw words (`Model.F64.impl`), no algebraic hypothesis: `evaluate_poly_with_offset` = direct evaluation at `off · g^q`, every blowup `2^b` -/
theorem f64_evaluate_poly_with_offset : ∀ (d k b : Nat) (hk : k + 1 + b ≤ 32)
    (maxLoop : Nat) (a : Array (Array Nat)) (ha : a.size = 2 ^ (k + 1)) (hok : OkElems F64Z.Inv d a)
    (off : Nat) (hoff : F64Z.Inv off) (hoff0 : F64Z.val off ≠ 0),

    ∃ g tw r, Model.F64.impl.rootOfUnity (k + 1 + b) = some g ∧ F64Z.Inv g ∧ IsPrimitiveRoot (F64Z.val g) (2 ^ (k + 1 + b)) ∧
      getTwiddles (BaseOps.ofImpl Model.F64.impl) (2 ^ (k + 1)) = some tw ∧
      evaluatePolyWithOffset (coordOps Model.F64.impl) (BaseOps.ofImpl Model.F64.impl) maxLoop a tw off (2 ^ b) = some r ∧
      r.size = 2 ^ (k + 1 + b) ∧ OkElems F64Z.Inv d r ∧
      ∀ q, q < 2 ^ (k + 1 + b) → vals F64Z.val d (r.getD q #[]) =
        evalAt (2 ^ (k + 1)) (fun j => vals F64Z.val d (a.getD j #[])) (F64Z.val off * F64Z.val g ^ q) :=
  raw_evaluate_poly_with_offset f64_raw
/-- f64 raw words (`Model.F64.impl`), no algebraic hypothesis: `interpolate_poly_with_offset` inverts evaluation over the coset -/
theorem f64_interpolate_with_offset : ∀ (d k : Nat) (hk : k + 1 ≤ 32) (hk32 : k + 1 ≤ 31)
    (maxLoop : Nat) (v : Array (Array Nat)) (hv : v.size = 2 ^ (k + 1)) (hok : OkElems F64Z.Inv d v)
    (off : Nat) (hoff : F64Z.Inv off) (hoff0 : F64Z.val off ≠ 0) (P : Nat → Fin d → ZMod F64Z.P),

    ∃ g itw, Model.F64.impl.rootOfUnity (k + 1) = some g ∧ F64Z.Inv g ∧ IsPrimitiveRoot (F64Z.val g) (2 ^ (k + 1)) ∧
      getInvTwiddles (BaseOps.ofImpl Model.F64.impl) (2 ^ (k + 1)) = some itw ∧
      ((∀ i, i < 2 ^ (k + 1) → vals F64Z.val d (v.getD i #[]) = evalAt (2 ^ (k + 1)) P (F64Z.val off * F64Z.val g ^ i)) →
        ∃ r, interpolatePolyWithOffset (coordOps Model.F64.impl) (BaseOps.ofImpl Model.F64.impl) maxLoop v itw off = some r ∧
          r.size = 2 ^ (k + 1) ∧ OkElems F64Z.Inv d r ∧ ∀ l, l < 2 ^ (k + 1) → vals F64Z.val d (r.getD l #[]) = P l) :=
  raw_interpolate_with_offset f64_raw
/-- f64 raw words (`Model.F64.impl`), no algebraic hypothesis: `interpolate_poly` inverts evaluation -/
theorem f64_interpolate : ∀ (d k : Nat) (hk : k + 1 ≤ 32) (hk32 : k + 1 ≤ 31)
    (maxLoop : Nat) (v : Array (Array Nat)) (hv : v.size = 2 ^ (k + 1)) (hok : OkElems F64Z.Inv d v)
    (P : Nat → Fin d → ZMod F64Z.P),

    ∃ g itw, Model.F64.impl.rootOfUnity (k + 1) = some g ∧ F64Z.Inv g ∧ IsPrimitiveRoot (F64Z.val g) (2 ^ (k + 1)) ∧
      getInvTwiddles (BaseOps.ofImpl Model.F64.impl) (2 ^ (k + 1)) = some itw ∧
      ((∀ i, i < 2 ^ (k + 1) → vals F64Z.val d (v.getD i #[]) = evalAt (2 ^ (k + 1)) P (F64Z.val g ^ i)) →
        ∃ r, interpolatePoly (coordOps Model.F64.impl) (BaseOps.ofImpl Model.F64.impl) maxLoop v itw = some r ∧
          r.size = 2 ^ (k + 1) ∧ OkElems F64Z.Inv d r ∧ ∀ l, l < 2 ^ (k + 1) → vals F64Z.val d (r.getD l #[]) = P l) :=
  raw_interpolate f64_raw
/-- f64 raw words (`Model.F64.impl`), no algebraic hypothesis: `infer_degree` reports the true degree -/
theorem f64_infer_degree : ∀ (d k : Nat) (hk : k + 1 ≤ 32) (hk32 : k + 1 ≤ 31)
    (maxLoop : Nat) (v : Array (Array Nat)) (hv : v.size = 2 ^ (k + 1)) (hok : OkElems F64Z.Inv d v)
    (off : Nat) (hoff : F64Z.Inv off) (hoff0 : F64Z.val off ≠ 0) (P : Nat → Fin d → ZMod F64Z.P),

    ∃ g, Model.F64.impl.rootOfUnity (k + 1) = some g ∧ F64Z.Inv g ∧
      ((∀ i, i < 2 ^ (k + 1) → vals F64Z.val d (v.getD i #[]) = evalAt (2 ^ (k + 1)) P (F64Z.val off * F64Z.val g ^ i)) →
        ∀ deg, deg < 2 ^ (k + 1) → P deg ≠ 0 → (∀ j, deg < j → j < 2 ^ (k + 1) → P j = 0) →
          inferDegree (coordOps Model.F64.impl) (BaseOps.ofImpl Model.F64.impl) maxLoop v off = some deg) :=
  raw_infer_degree f64_raw
/-- f64 raw words (`Model.F64.impl`), no algebraic hypothesis: `RowMatrix::evaluate_polys_over::<N>`: cell `(row, col)` = evaluation of column `col` at `off · g^row` -/
theorem f64_row_matrix : ∀ (k b : Nat) (hk : k + 1 + b ≤ 32) (hb : 1 ≤ b)
    (maxLoop N : Nat) (hN : 0 < N) (polys : Array (Array Nat)) (hC : 0 < polys.size)
    (hcols : ∀ c (h : c < polys.size), polys[c].size = 2 ^ (k + 1) ∧ ∀ j (hj : j < polys[c].size), F64Z.Inv polys[c][j])
    (off : Nat) (hoff : F64Z.Inv off),

    ∃ g tw rm, Model.F64.impl.rootOfUnity (k + 1 + b) = some g ∧ F64Z.Inv g ∧ IsPrimitiveRoot (F64Z.val g) (2 ^ (k + 1 + b)) ∧
      getTwiddles (BaseOps.ofImpl Model.F64.impl) (2 ^ (k + 1)) = some tw ∧
      evaluatePolysOver (coordOps Model.F64.impl) (BaseOps.ofImpl Model.F64.impl) (Model.F64.impl.new 0) maxLoop N polys (2 ^ (k + 1)) tw (2 ^ b) off
        = some rm ∧
      rm.rowWidth = numSegments polys.size N * N ∧ rm.elementsPerRow = polys.size ∧
      rm.data.size = 2 ^ (k + 1 + b) * (numSegments polys.size N * N) ∧
      ∀ row col, row < 2 ^ (k + 1 + b) → col < numSegments polys.size N * N →
        F64Z.Inv (rm.data.getD (row * (numSegments polys.size N * N) + col) 0) ∧
        F64Z.val (rm.data.getD (row * (numSegments polys.size N * N) + col) 0) =
          if col < polys.size then
            evalAt (2 ^ (k + 1)) (fun j => F64Z.val ((polys.getD col #[]).getD j 0)) (F64Z.val off * F64Z.val g ^ row)
          else 0 :=
  raw_row_matrix f64_raw

-- ------------------------------------------------------------------------------------------------ f62
/-- f62 raw words (`Model.F62.impl`), no algebraic hypothesis: `fft_in_place` = recursive FFT = DFT at `ω ^ brev m` -/
theorem f62_fft_in_place : ∀ (d k : Nat) (hk : k + 1 ≤ 39) (maxLoop : Nat)
    (a : Array (Array Nat)) (ha : a.size = 2 ^ (k + 1)) (hok : OkElems F62Z.Inv d a),

    ∃ g tw b, Model.F62.impl.rootOfUnity (k + 1) = some g ∧ F62Z.Inv g ∧ IsPrimitiveRoot (F62Z.val g) (2 ^ (k + 1)) ∧
      getTwiddles (BaseOps.ofImpl Model.F62.impl) (2 ^ (k + 1)) = some tw ∧
      fftTop (coordOps Model.F62.impl) maxLoop tw a = some b ∧ b.size = 2 ^ (k + 1) ∧ OkElems F62Z.Inv d b ∧
      ∀ m, m < 2 ^ (k + 1) → vals F62Z.val d (b.getD m #[]) =
        evalAt (2 ^ (k + 1)) (fun j => vals F62Z.val d (a.getD j #[])) (F62Z.val g ^ brev (k + 1) m) :=
  raw_fft_in_place f62_raw
/-- f62 raw words (`Model.F62.impl`), no algebraic hypothesis: `evaluate_poly` = direct evaluation at `ω^i` -/
theorem f62_evaluate_poly : ∀ (d k : Nat) (hk : k + 1 ≤ 39) (maxLoop : Nat)
    (a : Array (Array Nat)) (ha : a.size = 2 ^ (k + 1)) (hok : OkElems F62Z.Inv d a),

    ∃ g tw r, Model.F62.impl.rootOfUnity (k + 1) = some g ∧ F62Z.Inv g ∧ IsPrimitiveRoot (F62Z.val g) (2 ^ (k + 1)) ∧
      getTwiddles (BaseOps.ofImpl Model.F62.impl) (2 ^ (k + 1)) = some tw ∧
      evaluatePoly (coordOps Model.F62.impl) (BaseOps.ofImpl Model.F62.impl) maxLoop a tw = some r ∧ r.size = 2 ^ (k + 1) ∧ OkElems F62Z.Inv d r ∧
      ∀ i, i < 2 ^ (k + 1) → vals F62Z.val d (r.getD i #[]) =
        evalAt (2 ^ (k + 1)) (fun j => vals F62Z.val d (a.getD j #[])) (F62Z.val g ^ i) :=
  raw_evaluate_poly f62_raw
/-- f62 raw words (`Model.F62.impl`), no algebraic hypothesis: `evaluate_poly_with_offset` = direct evaluation at `off · g^q`, every blowup `2^b` -/
theorem f62_evaluate_poly_with_offset : ∀ (d k b : Nat) (hk : k + 1 + b ≤ 39)
    (maxLoop : Nat) (a : Array (Array Nat)) (ha : a.size = 2 ^ (k + 1)) (hok : OkElems F62Z.Inv d a)
    (off : Nat) (hoff : F62Z.Inv off) (hoff0 : F62Z.val off ≠ 0),

    ∃ g tw r, Model.F62.impl.rootOfUnity (k + 1 + b) = some g ∧ F62Z.Inv g ∧ IsPrimitiveRoot (F62Z.val g) (2 ^ (k + 1 + b)) ∧
      getTwiddles (BaseOps.ofImpl Model.F62.impl) (2 ^ (k + 1)) = some tw ∧
      evaluatePolyWithOffset (coordOps Model.F62.impl) (BaseOps.ofImpl Model.F62.impl) maxLoop a tw off (2 ^ b) = some r ∧
      r.size = 2 ^ (k + 1 + b) ∧ OkElems F62Z.Inv d r ∧
      ∀ q, q < 2 ^ (k + 1 + b) → vals F62Z.val d (r.getD q #[]) =
        evalAt (2 ^ (k + 1)) (fun j => vals F62Z.val d (a.getD j #[])) (F62Z.val off * F62Z.val g ^ q) :=
  raw_evaluate_poly_with_offset f62_raw
/-- f62 raw words (`Model.F62.impl`), no algebraic hypothesis: `interpolate_poly_with_offset` inverts evaluation over the coset -/
theorem f62_interpolate_with_offset : ∀ (d k : Nat) (hk : k + 1 ≤ 39) (hk32 : k + 1 ≤ 31)
    (maxLoop : Nat) (v : Array (Array Nat)) (hv : v.size = 2 ^ (k + 1)) (hok : OkElems F62Z.Inv d v)
    (off : Nat) (hoff : F62Z.Inv off) (hoff0 : F62Z.val off ≠ 0) (P : Nat → Fin d → ZMod F62Z.P),

    ∃ g itw, Model.F62.impl.rootOfUnity (k + 1) = some g ∧ F62Z.Inv g ∧ IsPrimitiveRoot (F62Z.val g) (2 ^ (k + 1)) ∧
      getInvTwiddles (BaseOps.ofImpl Model.F62.impl) (2 ^ (k + 1)) = some itw ∧
      ((∀ i, i < 2 ^ (k + 1) → vals F62Z.val d (v.getD i #[]) = evalAt (2 ^ (k + 1)) P (F62Z.val off * F62Z.val g ^ i)) →
        ∃ r, interpolatePolyWithOffset (coordOps Model.F62.impl) (BaseOps.ofImpl Model.F62.impl) maxLoop v itw off = some r ∧
          r.size = 2 ^ (k + 1) ∧ OkElems F62Z.Inv d r ∧ ∀ l, l < 2 ^ (k + 1) → vals F62Z.val d (r.getD l #[]) = P l) :=
  raw_interpolate_with_offset f62_raw
/-- f62 raw words (`Model.F62.impl`), no algebraic hypothesis: `interpolate_poly` inverts evaluation -/
theorem f62_interpolate : ∀ (d k : Nat) (hk : k + 1 ≤ 39) (hk32 : k + 1 ≤ 31)
    (maxLoop : Nat) (v : Array (Array Nat)) (hv : v.size = 2 ^ (k + 1)) (hok : OkElems F62Z.Inv d v)
    (P : Nat → Fin d → ZMod F62Z.P),

    ∃ g itw, Model.F62.impl.rootOfUnity (k + 1) = some g ∧ F62Z.Inv g ∧ IsPrimitiveRoot (F62Z.val g) (2 ^ (k + 1)) ∧
      getInvTwiddles (BaseOps.ofImpl Model.F62.impl) (2 ^ (k + 1)) = some itw ∧
      ((∀ i, i < 2 ^ (k + 1) → vals F62Z.val d (v.getD i #[]) = evalAt (2 ^ (k + 1)) P (F62Z.val g ^ i)) →
        ∃ r, interpolatePoly (coordOps Model.F62.impl) (BaseOps.ofImpl Model.F62.impl) maxLoop v itw = some r ∧
          r.size = 2 ^ (k + 1) ∧ OkElems F62Z.Inv d r ∧ ∀ l, l < 2 ^ (k + 1) → vals F62Z.val d (r.getD l #[]) = P l) :=
  raw_interpolate f62_raw
/-- f62 raw words (`Model.F62.impl`), no algebraic hypothesis: `infer_degree` reports the true degree -/
theorem f62_infer_degree : ∀ (d k : Nat) (hk : k + 1 ≤ 39) (hk32 : k + 1 ≤ 31)
    (maxLoop : Nat) (v : Array (Array Nat)) (hv : v.size = 2 ^ (k + 1)) (hok : OkElems F62Z.Inv d v)
    (off : Nat) (hoff : F62Z.Inv off) (hoff0 : F62Z.val off ≠ 0) (P : Nat → Fin d → ZMod F62Z.P),

    ∃ g, Model.F62.impl.rootOfUnity (k + 1) = some g ∧ F62Z.Inv g ∧
      ((∀ i, i < 2 ^ (k + 1) → vals F62Z.val d (v.getD i #[]) = evalAt (2 ^ (k + 1)) P (F62Z.val off * F62Z.val g ^ i)) →
        ∀ deg, deg < 2 ^ (k + 1) → P deg ≠ 0 → (∀ j, deg < j → j < 2 ^ (k + 1) → P j = 0) →
          inferDegree (coordOps Model.F62.impl) (BaseOps.ofImpl Model.F62.impl) maxLoop v off = some deg) :=
  raw_infer_degree f62_raw
/-- f62 raw words (`Model.F62.impl`), no algebraic hypothesis: `RowMatrix::evaluate_polys_over::<N>`: cell `(row, col)` = evaluation of column `col` at `off · g^row` -/
theorem f62_row_matrix : ∀ (k b : Nat) (hk : k + 1 + b ≤ 39) (hb : 1 ≤ b)
    (maxLoop N : Nat) (hN : 0 < N) (polys : Array (Array Nat)) (hC : 0 < polys.size)
    (hcols : ∀ c (h : c < polys.size), polys[c].size = 2 ^ (k + 1) ∧ ∀ j (hj : j < polys[c].size), F62Z.Inv polys[c][j])
    (off : Nat) (hoff : F62Z.Inv off),

    ∃ g tw rm, Model.F62.impl.rootOfUnity (k + 1 + b) = some g ∧ F62Z.Inv g ∧ IsPrimitiveRoot (F62Z.val g) (2 ^ (k + 1 + b)) ∧
      getTwiddles (BaseOps.ofImpl Model.F62.impl) (2 ^ (k + 1)) = some tw ∧
      evaluatePolysOver (coordOps Model.F62.impl) (BaseOps.ofImpl Model.F62.impl) (Model.F62.impl.new 0) maxLoop N polys (2 ^ (k + 1)) tw (2 ^ b) off
        = some rm ∧
      rm.rowWidth = numSegments polys.size N * N ∧ rm.elementsPerRow = polys.size ∧
      rm.data.size = 2 ^ (k + 1 + b) * (numSegments polys.size N * N) ∧
      ∀ row col, row < 2 ^ (k + 1 + b) → col < numSegments polys.size N * N →
        F62Z.Inv (rm.data.getD (row * (numSegments polys.size N * N) + col) 0) ∧
        F62Z.val (rm.data.getD (row * (numSegments polys.size N * N) + col) 0) =
          if col < polys.size then
            evalAt (2 ^ (k + 1)) (fun j => F62Z.val ((polys.getD col #[]).getD j 0)) (F62Z.val off * F62Z.val g ^ row)
          else 0 :=
  raw_row_matrix f62_raw

-- ------------------------------------------------------------------------------------------------ f128
/-- f128 raw words (`Model.F128.impl`), no algebraic hypothesis: `fft_in_place` = recursive FFT = DFT at `ω ^ brev m` -/
theorem f128_fft_in_place : ∀ (d k : Nat) (hk : k + 1 ≤ 40) (maxLoop : Nat)
    (a : Array (Array Nat)) (ha : a.size = 2 ^ (k + 1)) (hok : OkElems F128Z.Inv d a),

    ∃ g tw b, Model.F128.impl.rootOfUnity (k + 1) = some g ∧ F128Z.Inv g ∧ IsPrimitiveRoot (F128Z.val g) (2 ^ (k + 1)) ∧
      getTwiddles (BaseOps.ofImpl Model.F128.impl) (2 ^ (k + 1)) = some tw ∧
      fftTop (coordOps Model.F128.impl) maxLoop tw a = some b ∧ b.size = 2 ^ (k + 1) ∧ OkElems F128Z.Inv d b ∧
      ∀ m, m < 2 ^ (k + 1) → vals F128Z.val d (b.getD m #[]) =
        evalAt (2 ^ (k + 1)) (fun j => vals F128Z.val d (a.getD j #[])) (F128Z.val g ^ brev (k + 1) m) :=
  raw_fft_in_place f128_raw
/-- f128 raw words (`Model.F128.impl`), no algebraic hypothesis: `evaluate_poly` = direct evaluation at `ω^i` -/
theorem f128_evaluate_poly : ∀ (d k : Nat) (hk : k + 1 ≤ 40) (maxLoop : Nat)
    (a : Array (Array Nat)) (ha : a.size = 2 ^ (k + 1)) (hok : OkElems F128Z.Inv d a),

    ∃ g tw r, Model.F128.impl.rootOfUnity (k + 1) = some g ∧ F128Z.Inv g ∧ IsPrimitiveRoot (F128Z.val g) (2 ^ (k + 1)) ∧
      getTwiddles (BaseOps.ofImpl Model.F128.impl) (2 ^ (k + 1)) = some tw ∧
      evaluatePoly (coordOps Model.F128.impl) (BaseOps.ofImpl Model.F128.impl) maxLoop a tw = some r ∧ r.size = 2 ^ (k + 1) ∧ OkElems F128Z.Inv d r ∧
      ∀ i, i < 2 ^ (k + 1) → vals F128Z.val d (r.getD i #[]) =
        evalAt (2 ^ (k + 1)) (fun j => vals F128Z.val d (a.getD j #[])) (F128Z.val g ^ i) :=
  raw_evaluate_poly f128_raw
/-- f128 raw words (`Model.F128.impl`), no algebraic hypothesis: `evaluate_poly_with_offset` = direct evaluation at `off · g^q`, every blowup `2^b` -/
theorem f128_evaluate_poly_with_offset : ∀ (d k b : Nat) (hk : k + 1 + b ≤ 40)
    (maxLoop : Nat) (a : Array (Array Nat)) (ha : a.size = 2 ^ (k + 1)) (hok : OkElems F128Z.Inv d a)
    (off : Nat) (hoff : F128Z.Inv off) (hoff0 : F128Z.val off ≠ 0),

    ∃ g tw r, Model.F128.impl.rootOfUnity (k + 1 + b) = some g ∧ F128Z.Inv g ∧ IsPrimitiveRoot (F128Z.val g) (2 ^ (k + 1 + b)) ∧
      getTwiddles (BaseOps.ofImpl Model.F128.impl) (2 ^ (k + 1)) = some tw ∧
      evaluatePolyWithOffset (coordOps Model.F128.impl) (BaseOps.ofImpl Model.F128.impl) maxLoop a tw off (2 ^ b) = some r ∧
      r.size = 2 ^ (k + 1 + b) ∧ OkElems F128Z.Inv d r ∧
      ∀ q, q < 2 ^ (k + 1 + b) → vals F128Z.val d (r.getD q #[]) =
        evalAt (2 ^ (k + 1)) (fun j => vals F128Z.val d (a.getD j #[])) (F128Z.val off * F128Z.val g ^ q) :=
  raw_evaluate_poly_with_offset f128_raw
/-- f128 raw words (`Model.F128.impl`), no algebraic hypothesis: `interpolate_poly_with_offset` inverts evaluation over the coset -/
theorem f128_interpolate_with_offset : ∀ (d k : Nat) (hk : k + 1 ≤ 40) (hk32 : k + 1 ≤ 31)
    (maxLoop : Nat) (v : Array (Array Nat)) (hv : v.size = 2 ^ (k + 1)) (hok : OkElems F128Z.Inv d v)
    (off : Nat) (hoff : F128Z.Inv off) (hoff0 : F128Z.val off ≠ 0) (P : Nat → Fin d → ZMod F128Z.P),

    ∃ g itw, Model.F128.impl.rootOfUnity (k + 1) = some g ∧ F128Z.Inv g ∧ IsPrimitiveRoot (F128Z.val g) (2 ^ (k + 1)) ∧
      getInvTwiddles (BaseOps.ofImpl Model.F128.impl) (2 ^ (k + 1)) = some itw ∧
      ((∀ i, i < 2 ^ (k + 1) → vals F128Z.val d (v.getD i #[]) = evalAt (2 ^ (k + 1)) P (F128Z.val off * F128Z.val g ^ i)) →
        ∃ r, interpolatePolyWithOffset (coordOps Model.F128.impl) (BaseOps.ofImpl Model.F128.impl) maxLoop v itw off = some r ∧
          r.size = 2 ^ (k + 1) ∧ OkElems F128Z.Inv d r ∧ ∀ l, l < 2 ^ (k + 1) → vals F128Z.val d (r.getD l #[]) = P l) :=
  raw_interpolate_with_offset f128_raw
/-- f128 raw words (`Model.F128.impl`), no algebraic hypothesis: `interpolate_poly` inverts evaluation -/
theorem f128_interpolate : ∀ (d k : Nat) (hk : k + 1 ≤ 40) (hk32 : k + 1 ≤ 31)
    (maxLoop : Nat) (v : Array (Array Nat)) (hv : v.size = 2 ^ (k + 1)) (hok : OkElems F128Z.Inv d v)
    (P : Nat → Fin d → ZMod F128Z.P),

    ∃ g itw, Model.F128.impl.rootOfUnity (k + 1) = some g ∧ F128Z.Inv g ∧ IsPrimitiveRoot (F128Z.val g) (2 ^ (k + 1)) ∧
      getInvTwiddles (BaseOps.ofImpl Model.F128.impl) (2 ^ (k + 1)) = some itw ∧
      ((∀ i, i < 2 ^ (k + 1) → vals F128Z.val d (v.getD i #[]) = evalAt (2 ^ (k + 1)) P (F128Z.val g ^ i)) →
        ∃ r, interpolatePoly (coordOps Model.F128.impl) (BaseOps.ofImpl Model.F128.impl) maxLoop v itw = some r ∧
          r.size = 2 ^ (k + 1) ∧ OkElems F128Z.Inv d r ∧ ∀ l, l < 2 ^ (k + 1) → vals F128Z.val d (r.getD l #[]) = P l) :=
  raw_interpolate f128_raw
/-- f128 raw words (`Model.F128.impl`), no algebraic hypothesis: `infer_degree` reports the true degree -/
theorem f128_infer_degree : ∀ (d k : Nat) (hk : k + 1 ≤ 40) (hk32 : k + 1 ≤ 31)
    (maxLoop : Nat) (v : Array (Array Nat)) (hv : v.size = 2 ^ (k + 1)) (hok : OkElems F128Z.Inv d v)
    (off : Nat) (hoff : F128Z.Inv off) (hoff0 : F128Z.val off ≠ 0) (P : Nat → Fin d → ZMod F128Z.P),

    ∃ g, Model.F128.impl.rootOfUnity (k + 1) = some g ∧ F128Z.Inv g ∧
      ((∀ i, i < 2 ^ (k + 1) → vals F128Z.val d (v.getD i #[]) = evalAt (2 ^ (k + 1)) P (F128Z.val off * F128Z.val g ^ i)) →
        ∀ deg, deg < 2 ^ (k + 1) → P deg ≠ 0 → (∀ j, deg < j → j < 2 ^ (k + 1) → P j = 0) →
          inferDegree (coordOps Model.F128.impl) (BaseOps.ofImpl Model.F128.impl) maxLoop v off = some deg) :=
  raw_infer_degree f128_raw
/-- f128 raw words (`Model.F128.impl`), no algebraic hypothesis: `RowMatrix::evaluate_polys_over::<N>`: cell `(row, col)` = evaluation of column `col` at `off · g^row` -/
theorem f128_row_matrix : ∀ (k b : Nat) (hk : k + 1 + b ≤ 40) (hb : 1 ≤ b)
    (maxLoop N : Nat) (hN : 0 < N) (polys : Array (Array Nat)) (hC : 0 < polys.size)
    (hcols : ∀ c (h : c < polys.size), polys[c].size = 2 ^ (k + 1) ∧ ∀ j (hj : j < polys[c].size), F128Z.Inv polys[c][j])
    (off : Nat) (hoff : F128Z.Inv off),

    ∃ g tw rm, Model.F128.impl.rootOfUnity (k + 1 + b) = some g ∧ F128Z.Inv g ∧ IsPrimitiveRoot (F128Z.val g) (2 ^ (k + 1 + b)) ∧
      getTwiddles (BaseOps.ofImpl Model.F128.impl) (2 ^ (k + 1)) = some tw ∧
      evaluatePolysOver (coordOps Model.F128.impl) (BaseOps.ofImpl Model.F128.impl) (Model.F128.impl.new 0) maxLoop N polys (2 ^ (k + 1)) tw (2 ^ b) off
        = some rm ∧
      rm.rowWidth = numSegments polys.size N * N ∧ rm.elementsPerRow = polys.size ∧
      rm.data.size = 2 ^ (k + 1 + b) * (numSegments polys.size N * N) ∧
      ∀ row col, row < 2 ^ (k + 1 + b) → col < numSegments polys.size N * N →
        F128Z.Inv (rm.data.getD (row * (numSegments polys.size N * N) + col) 0) ∧
        F128Z.val (rm.data.getD (row * (numSegments polys.size N * N) + col) 0) =
          if col < polys.size then
            evalAt (2 ^ (k + 1)) (fun j => F128Z.val ((polys.getD col #[]).getD j 0)) (F128Z.val off * F128Z.val g ^ row)
          else 0 :=
  raw_row_matrix f128_raw

/-- non-vacuity: concrete raw words satisfy the hypotheses (Montgomery images of 1..4 as a polynomial with four
    coefficients of extension degree 1; the generator as offset) -/
example : OkElems F64Z.Inv 1 #[#[Gen.F64.new 1], #[Gen.F64.new 2], #[Gen.F64.new 3], #[Gen.F64.new 4]] ∧
    F64Z.Inv (Gen.F64.new 7) ∧ F64Z.val (Gen.F64.new 7) ≠ 0 := by
  refine ⟨?_, (C07.F64.new_correct 7 (by norm_num)).1, ?_⟩
  · intro i hi
    have hi' : i < 4 := by simpa using hi
    interval_cases i <;> refine ⟨rfl, fun j hj => ?_⟩ <;>
      (have hj' : j < 1 := by simpa using hj) <;> interval_cases j
    · exact (C07.F64.new_correct 1 (by norm_num)).1
    · exact (C07.F64.new_correct 2 (by norm_num)).1
    · exact (C07.F64.new_correct 3 (by norm_num)).1
    · exact (C07.F64.new_correct 4 (by norm_num)).1
  · rw [(C07.F64.new_correct 7 (by norm_num)).2]
    decide

end WinterProofs.C09
