-- KERNEL-CHECKED END-TO-END INSTANCES of the executable prover/verifier pair (TESTS of single instances, evaluated
-- by the Lean kernel: `decide +kernel` runs the reference prover of Winter/Model/RefProver.lean and then the
-- reference verifier of Winter/Model/RefVerifier.lean on the produced BYTES), at the ZERO-ROUND hasher instance
-- `Inst.toy` (see WinterProofs/C01ProverInst.lean for why: the real Rp64_256 permutation is out of the kernel's
-- reach for a whole proof).  With the REAL hashers the same composition `refVerify (refProve …) = ok` is evaluated
-- by the compiled model on every `refp` line of ./check C01 (238 configurations in the quick tier) and compared
-- with the real prover's bytes and the real verifier's verdict; the verifier half on real-prover bytes is
-- kernel-checked in WinterProofs/RefVerifierWitness.lean.
import WinterProofs.C01ProverInst

namespace WinterProofs.C01Prover
open Model Model.RefVerifier Model.RefProver

set_option maxRecDepth 1000000 in
/-- x -> x^2 + 5 on one column, 8 rows, single assertion; blowup 2, 1 query, no FRI layer -/
theorem witness_sq8 : proveThenVerify Inst.toy descSq8 traceSq8 optsW1 = true := by
  decide +kernel

set_option maxRecDepth 1000000 in
/-- periodic column inside the constraint, sequence + periodic + single assertion, two columns; one FRI layer -/
theorem witness_per8 : proveThenVerify Inst.toy descPer8 tracePer8 optsW2 = true := by
  decide +kernel

set_option maxRecDepth 1000000 in
/-- the same computation under the quadratic extension, 2 queries -/
theorem witness_per8_ext2 : proveThenVerify Inst.toy descPer8 tracePer8 optsW3 = true := by
  decide +kernel

set_option maxRecDepth 1000000 in
/-- an AUXILIARY SEGMENT: running product over one random element (auxiliary random elements, `build_aux_trace`,
    second trace commitment, auxiliary constraint and assertion in the composition, auxiliary column in the OOD
    frame and the DEEP composition, second batch opening) -/
theorem witness_aux8 : proveThenVerifyG Inst.toy descAux8 gensAux8 traceAux8 optsW1 = true := by
  decide +kernel

/-- the instances in the form of the completeness statement -/
theorem witnesses_accept :
    (∃ bs, refProve Inst.toy descSq8 traceSq8 optsW1 = .ok bs ∧
      refVerify Inst.toy descSq8 (refPubInputs Inst.toy descSq8 traceSq8) (.optionSet [optsW1]) bs = .ok) ∧
    (∃ bs, refProve Inst.toy descPer8 tracePer8 optsW2 = .ok bs ∧
      refVerify Inst.toy descPer8 (refPubInputs Inst.toy descPer8 tracePer8) (.optionSet [optsW2]) bs = .ok) ∧
    (∃ bs, refProve Inst.toy descPer8 tracePer8 optsW3 = .ok bs ∧
      refVerify Inst.toy descPer8 (refPubInputs Inst.toy descPer8 tracePer8) (.optionSet [optsW3]) bs = .ok) :=
  ⟨(proveThenVerify_iff _ _ _ _).mp witness_sq8, (proveThenVerify_iff _ _ _ _).mp witness_per8,
    (proveThenVerify_iff _ _ _ _).mp witness_per8_ext2⟩

end WinterProofs.C01Prover
