-- Property C06, part 1 (parser and verifier front end): parsing arbitrary bytes as a proof, and the front end of
-- `verify` up to and including `VerifierChannel::new`, never panic and never request memory out of proportion to the
-- input.  (Part 2, WinterProofs/C06.lean: the WHOLE of `verify` for the instantiations of the reference verifier.)
--
-- What is proved here (for ALL byte strings / ALL parsed proofs, no size bound), about the executable model
-- Winter/Model/Parse.lean, which mirrors the code after the repairs recorded in known_findings.json:
--   * `parseProof_safe`      FULL for the parser: `Proof::from_bytes` never panics and requests at most
--                            3 x |input| + 131168 heap bytes (96 + 65536 on success); `parseProof_invariants`:
--                            what it returns satisfies the invariants the rest relies on;
--   * `verifyFront_safe`     for the verifier front end (`verify()` up to and including `VerifierChannel::new`,
--                            policy MinConjecturedSecurity(0)) on every parsed proof: it never reaches one of the
--                            modelled panic sites, and the channel construction requests at most
--                            27 x (bytes of the parsed components) + FRONT_K heap bytes. One outcome is NOT excluded
--                            because the code has it: `airnew`, the AIR constructor panicking on the untrusted trace
--                            info / options (`Air::new` cannot return an error; recorded finding
--                            c06.verify.air-new) - witness `verifyFront_airnew_witness`; the full statement
--                            `VerifyFrontNeverFails` (no `airnew` either) is therefore false for the pinned tree:
--                            `verifyFrontNeverFails_false`.
--   * regression witnesses: the inputs that made the pinned tree panic / abort now end in `err` / `eof`.
-- Not modelled HERE: the rest of `verify()` after the channel has been built, the element conversions of the
-- public-coin seed, and the AIR's own callbacks.  WinterProofs/C06.lean closes that gap for the instantiations the
-- executable reference verifier covers (on top of the theorems of this file, which WinterProofs/RefVerifier.lean
-- imports); for the others (BLAKE3 / SHA3 hashers, the 128-bit field, GKR verifiers other than the family's
-- dummy one) it is covered by the fuzz correspondence of harness/src/bin/c06.rs only.
import WinterProofs.Lemmas.C06Front
import WinterProofs.Lemmas.C06Data

namespace WinterProofs.C06
open Model Model.Serde Model.Parse WinterProofs.C06L

-- ------------------------------------------------------------------------------------------------
-- the parser

/-- FULL (parser). For every byte string (every element a byte): `Proof::from_bytes` does not panic, and the heap
    bytes it requests are bounded by `3 * |input| + PARSE_CF` (`PARSE_CF = 96 + 2 * 65536`). -/
theorem parseProof_safe (bs : Bytes) (h : BytesOk bs) :
    (parseProof bs).1 ≠ .panic ∧ (parseProof bs).2 ≤ 3 * bs.length + PARSE_CF := by
  have hs := spec_pProof (c := 3) (Nat.le_refl 3) bs 0 h
  unfold parseProof
  generalize pProof bs 0 = r at hs ⊢
  rcases r with ⟨⟨x, rest⟩ | _ | _ | _, a'⟩ <;> simp only [Post] at hs
  · obtain ⟨_, _, _, al⟩ := hs
    refine ⟨by simp, ?_⟩
    show a' ≤ _
    unfold PARSE_CF; omega
  · exact ⟨by simp, by show a' ≤ _; omega⟩
  · exact ⟨by simp, by show a' ≤ _; omega⟩

/-- on success the bound is `3 * |input| + PARSE_C0` (`PARSE_C0 = 96 + 65536`) and the value satisfies the
    invariants `ProofOk` (well-formed trace info and options, the size limits of `Context::new`, one query set per
    trace segment, partition exponent < 64, all blocks made of bytes) -/
theorem parseProof_invariants (bs : Bytes) (h : BytesOk bs) (p : Proof) (hp : (parseProof bs).1 = .ok p) :
    ProofOk p ∧ (parseProof bs).2 ≤ 3 * bs.length + PARSE_C0 := by
  have hs := spec_pProof (c := 3) (Nat.le_refl 3) bs 0 h
  unfold parseProof at hp ⊢
  generalize pProof bs 0 = r at hs hp ⊢
  rcases r with ⟨⟨x, rest⟩ | _ | _ | _, a'⟩ <;> simp only [Post] at hs <;> simp at hp
  obtain ⟨q, _, _, al⟩ := hs
  subst hp
  exact ⟨q, by show a' ≤ _; omega⟩

-- the hypotheses are satisfiable: a byte string, and a (truncated) proof
example : BytesOk [1, 0, 0, 3, 0, 0, 8, 1, 0, 0, 0, 255, 255, 255, 255, 2, 4, 0, 1, 2, 1] := by
  intro b hb; simp at hb; omega

-- ------------------------------------------------------------------------------------------------
-- the verifier front end

/-- the security estimate computed before anything else does not hit an arithmetic panic on a parsed context
    (this is what the size limits of `Context::read_from`, repair 0d65c7b, are for) -/
theorem conjecturedSecurity_isSome (c : Context) (h : CtxOk c) (bits : Nat) (hb : 32 ≤ bits) :
    (conjecturedSecurity c.options bits c.traceInfo.length).isSome = true := by
  obtain ⟨hti, hopt, _, hlde, _, _⟩ := h
  obtain ⟨_, _, _, hn8⟩ := ti_facts _ hti
  obtain ⟨_, hb2, _, _, _, hext, hq0, _⟩ := opt_facts _ hopt
  unfold conjecturedSecurity
  simp only []
  have hl0 : c.traceInfo.length * c.options.blowup ≠ 0 :=
    Nat.ne_of_gt (Nat.mul_pos (by omega) (by omega))
  have hlog : (c.traceInfo.length * c.options.blowup).log2 < 32 :=
    (Nat.log2_lt hl0).mpr (by
      have : (2 : Nat) ^ 32 = 4294967296 := by decide
      omega)
  have hbl : 1 ≤ c.options.blowup.log2 := (Nat.le_log2 (by omega)).mpr (by simpa using hb2)
  have hfs : 32 ≤ bits * c.options.fieldExt := by
    calc 32 ≤ bits := hb
      _ = bits * 1 := by omega
      _ ≤ bits * c.options.fieldExt := Nat.mul_le_mul_left _ (by omega)
  have hq : 1 ≤ c.options.blowup.log2 * c.options.numQueries := Nat.mul_pos hbl hq0
  rw [if_neg (by omega), if_neg (by omega)]
  split
  · rw [if_neg (by omega)]; rfl
  · rw [if_neg (by omega)]; rfl

/-- the number of composition columns the AIR constructor returns is never zero -/
theorem airNew_pos (A : Air) (ti : TraceInfo) (o : ProofOptions) (n : Nat) (h : airNew A ti o = some n) :
    n ≠ 0 := by
  unfold airNew at h
  simp only [] at h
  repeat' (split at h <;> try (cases h; done))
  all_goals (
    simp only [Option.some.injEq] at h
    subst h
    unfold Protocol.compositionColumns
    omega)

/-- the statement one would like: the front end always ends in an error value or with a channel -/
def VerifyFrontNeverFails (A : Air) : Prop :=
  ∀ p, ProofOk p → (verifyFront A p).1 ≠ .panic ∧ (verifyFront A p).1 ≠ .airnew

/-- PARTIAL (the part that holds for the code as it is). For an instantiation with the sizes `AirOk` and a field
    of at least 32 bits, and an AIR whose constructor, when it succeeds, asks for at most 255 composition columns:
    on every parsed proof the front end of `verify()` reaches none of the modelled panic sites, and the channel
    construction requests at most `27 * proofSize p + FRONT_K A` heap bytes. What is missing from the full
    statement is exactly the outcome `airnew` (see `verifyFront_airnew_witness`). -/
theorem verifyFront_safe_partial (A : Air) (hA : AirOk A) (hbits : 32 ≤ A.fieldBits)
    (hcols : ∀ ti o n, airNew A ti o = some n → n ≤ 255) (p : Proof) (hp : ProofOk p) :
    (verifyFront A p).1 ≠ .panic ∧ (verifyFront A p).2 ≤ CL * proofSize p + FRONT_K A := by
  unfold verifyFront
  simp only []
  split
  · exact ⟨by simp, Nat.zero_le _⟩
  · have hsec := conjecturedSecurity_isSome p.context hp.1 A.fieldBits hbits
    split
    · rename_i hnone; rw [hnone] at hsec; simp at hsec
    · split
      · exact ⟨by simp, Nat.zero_le _⟩
      · split
        · exact ⟨by simp, Nat.zero_le _⟩
        · rename_i ncols hair
          split
          · exact ⟨by simp, Nat.zero_le _⟩
          · have hc := aspec_channelNew A hA p hp ncols (airNew_pos A _ _ ncols hair) (hcols _ _ ncols hair) 0
            generalize channelNew A p ncols 0 = r at hc ⊢
            rcases r with ⟨x | _ | _ | _, a'⟩ <;> simp only [APost] at hc
            · exact ⟨by simp, by show a' ≤ _; omega⟩
            · exact ⟨by simp, by show a' ≤ _; omega⟩
            · exact ⟨by simp, by show a' ≤ _; omega⟩

-- ------------------------------------------------------------------------------------------------
-- concrete instances: the hypotheses are satisfiable, the recorded finding is real, the repaired defects stay
-- repaired (the witness inputs are those of corpus/C06/defects.case, on the valid proofs of Lemmas/C06Data.lean)

/-- x -> x^2 + 5 (one constraint of degree 2, 2 exemptions) over the 64-bit field with Rp64_256 -/
def airSq : Air where
  F := F64.impl
  cubic := true
  digestBytes := 32
  digestSize := 32
  exemptions := 2
  mainDegs := [⟨2, []⟩]
  auxDegs := []
  nMainAssert := 1
  nAuxAssert := 0
  descAuxWidth := 0
  lagrange := false

/-- x -> x^5 + 5 (one constraint of degree 5) over the 64-bit field with Blake3_256 -/
def airPow5 : Air := { airSq with exemptions := 1, mainDegs := [⟨5, []⟩] }

/-- overwrite `len` bytes at `off` by `new` -/
def splice (bs : Bytes) (off len : Nat) (new : Bytes) : Bytes := bs.take off ++ new ++ bs.drop (off + len)

/-- outcome class of `Proof::from_bytes` followed, when it parses, by the front end of `verify()` -/
def outcome (A : Air) (bs : Bytes) : String :=
  match (parseProof bs).1 with
  | .ok p =>
    match (verifyFront A p).1 with
    | .pass => "ok pass" | .err => "ok err" | .field => "ok field" | .opts => "ok opts" | .ext => "ok ext"
    | .airnew => "ok airnew" | .panic => "ok panic"
  | .err => "err"
  | .eof => "eof"
  | .panic => "panic"

example : AirOk airSq := ⟨by decide, by decide, by decide, by decide⟩
example : 32 ≤ airSq.fieldBits := by decide +kernel
example : BytesOk sq8rp := BytesOk.of_all (by decide +kernel)
-- whatever the trace info and options of the proof, the constructor of this AIR asks for at most 2 columns
example : ∀ ti o n, airNew airSq ti o = some n → n ≤ 255 := by
  intro ti o n h
  unfold airNew at h
  simp only [] at h
  repeat' (split at h <;> try (cases h; done))
  all_goals (
    simp only [Option.some.injEq] at h
    subst h
    simp [airSq, Protocol.compositionColumns, Protocol.highestDegree, Protocol.Degree.evalDegree]
    have : (2 * (ti.length - 1) - (ti.length - 2)) / ti.length ≤ 1 :=
      Nat.div_le_of_le_mul (by omega)
    omega)

/-- the valid proofs parse and pass the front end -/
theorem valid_sq8rp : outcome airSq sq8rp = "ok pass" := by decide +kernel
theorem valid_pow5 : outcome airPow5 pow5 = "ok pass" := by decide +kernel

-- the recorded finding c06.verify.air-new: lowering the blowup byte of a valid proof (8 -> 2, still an acceptable
-- option set for the policy MinConjecturedSecurity(0)) makes the AIR constructor panic inside `verify()`
theorem verifyFront_airnew_witness : outcome airPow5 (pow5.set 16 2) = "ok airnew" := by decide +kernel

/-- the front-end outcome of the proof parsed from `bs` -/
def frontOf (A : Air) (bs : Bytes) : Option Front :=
  match (parseProof bs).1 with
  | .ok p => some (verifyFront A p).1
  | _ => none

theorem frontOf_airnew : frontOf airPow5 (pow5.set 16 2) = some .airnew := by decide +kernel

/-- the full statement is false for the code as it is -/
theorem verifyFrontNeverFails_false : ¬ VerifyFrontNeverFails airPow5 := by
  intro h
  have hb : BytesOk (pow5.set 16 2) := BytesOk.of_all (by decide +kernel)
  have hw := frontOf_airnew
  unfold frontOf at hw
  split at hw
  · rename_i p hp
    have hok := (parseProof_invariants _ hb p hp).1
    exact (h p hok).2 (Option.some.inj hw)
  · cases hw

-- repaired defects: the witnesses end in an error value
/-- 01a5214 `ProofOptions::read_from`: options 00 03 00 01 02 00, zero queries, blowup 3, grinding 33, folding 0 / 1 /
    32, remainder degree 2 -/
theorem fixed_options :
    outcome airSq [1, 0, 0, 3, 0, 0, 8, 1, 0, 0, 0, 255, 255, 255, 255, 0, 3, 0, 1, 2, 0] = "err" ∧
    outcome airSq (sq8rp.set 15 0) = "err" ∧ outcome airSq (sq8rp.set 16 3) = "err" ∧
    outcome airSq (sq8rp.set 17 33) = "err" ∧ outcome airSq (sq8rp.set 19 0) = "err" ∧
    outcome airSq (sq8rp.set 19 1) = "err" ∧ outcome airSq (sq8rp.set 19 32) = "err" ∧
    outcome airSq (sq8rp.set 20 2) = "err" := by decide +kernel

/-- 0353f38 `TraceInfo::read_from` (2^64 and more rows), 0d65c7b `Context::read_from` (2^32 .. 2^63 rows, and an
    LDE domain of 2^32 points) -/
theorem fixed_trace_length :
    outcome airSq [1, 0, 0, 64] = "err" ∧ outcome airSq (sq8rp.set 3 64) = "err" ∧
    outcome airSq (sq8rp.set 3 255) = "err" ∧ outcome airSq (sq8rp.set 3 62) = "err" ∧
    outcome airSq (sq8rp.set 3 57) = "err" ∧ outcome airSq (sq8rp.set 3 32) = "err" ∧
    outcome airSq (sq8rp.set 3 30) = "err" := by decide +kernel

/-- 0bf474e `read_many`: GKR byte vector of claimed length 2^64 - 1 / 2^40 / 2^63 - 1: end of input, and the heap
    bytes requested stay within the bound of `parseProof_safe` (65536 of them are the bounded pre-allocation) -/
theorem fixed_read_many :
    outcome airSq (splice sq8rp 877 1 [1, 0, 255, 255, 255, 255, 255, 255, 255, 255]) = "eof" ∧
    outcome airSq (splice sq8rp 877 1 [1, 0, 0, 0, 0, 0, 0, 1, 0, 0]) = "eof" ∧
    outcome airSq (splice sq8rp 877 1 [1, 0, 255, 255, 255, 255, 255, 255, 255, 127]) = "eof" ∧
    (parseProof (splice sq8rp 877 1 [1, 0, 255, 255, 255, 255, 255, 255, 255, 255])).2 ≤ 3 * 887 + PARSE_CF := by
  decide +kernel

/-- 80aebf5 `FriProof::read_from`: partition exponent 64 / 255 is an error, 63 is still read -/
theorem fixed_partitions :
    outcome airSq (sq8rp.set 868 64) = "err" ∧ outcome airSq (sq8rp.set 868 255) = "err" ∧
    outcome airSq (sq8rp.set 868 63) = "ok pass" := by decide +kernel

/-- 18a2667 zero unique queries; 73d3514 the only FRI layer removed; 660ad26 a Lagrange kernel frame for a trace
    without auxiliary segment; eda2442 out-of-domain frames of 1 and of 4 rows -/
theorem fixed_channel :
    outcome airSq (sq8rp.set 21 0) = "ok err" ∧
    outcome airSq (splice (sq8rp.set 646 0) 647 203 []) = "ok err" ∧
    outcome airSq (splice sq8rp 625 3 [9, 0, 1, 134, 67, 100, 31, 143, 22, 220, 70]) = "ok err" ∧
    outcome airSq (splice sq8rp 606 19 [1, 0, 0]) = "ok err" ∧
    outcome airSq (splice sq8rp 606 19 [33, 0, 4, 134, 67, 100, 31, 143, 22, 220, 70, 134, 67, 100, 31, 143, 22, 220, 70,
      134, 67, 100, 31, 143, 22, 220, 70, 134, 67, 100, 31, 143, 22, 220, 70]) = "ok err" := by decide +kernel

end WinterProofs.C06
