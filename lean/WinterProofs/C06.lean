import Winter.Model.Parse
namespace WinterProofs.C06
open Model Model.Serde Model.Parse
theorem placeholder_true : True := trivial
end WinterProofs.C06
