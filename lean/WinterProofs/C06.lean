-- Property C06: parsing arbitrary bytes as a proof, and verifying any parsed proof, never panics and never
-- requests memory out of proportion to the input.
--
-- Part 1 (WinterProofs/C06Parser.lean, same namespace): `parseProof_safe`, `parseProof_invariants`,
-- `verifyFront_safe_partial` - the parser and the front end of `verify` up to `VerifierChannel::new`, for every hasher
-- and field, with the allocation bounds.
--
-- Part 2 (this file): THE WHOLE OF `verify` - everything after the channel too: coin, auxiliary-segment phase,
-- constraint evaluation, DEEP composition, Merkle batch verification, the FRI layer loop and remainder checks - for
-- the instantiations the executable reference verifier `Model.RefVerifier.refVerify` covers:
--     64-bit field with Rp64_256, 64-bit field with RpJive64_256, 62-bit field with Rp62_248 (`InstOk`),
--     extension degree 1-3, DefaultRandomCoin, every AIR description of the data-driven family of
--     harness/src/genair.rs with or without auxiliary segment (with or without Lagrange kernel column; the GKR verifier is the family's dummy one).
-- `verify_whole_safe_partial`: for EVERY byte string, every public input vector and acceptance policy,
-- `Proof::from_bytes` followed by `verify` RETURNS - accept, a parse error or a `VerifierError` value - or it is one
-- of the panics the REAL code has (`RealPanic`): the AIR constructor / the AIR's callbacks and
-- `BoundaryConstraints::new` inside `evaluate_constraints` on a trace shape the computation does not fit (recorded
-- finding c06.verify.air-new: `Air::new` cannot return an error), or the `expect` of lib.rs on
-- `get_aux_rand_elements` (the coin not producing a field element within its 1000 tries) - the latter EXCLUDED for
-- the two instantiations over the 64-bit field (`verify_whole_safe_rp64`, `verify_whole_safe_rpjive`: every digest
-- consists of canonical field elements, `from_random_bytes` never rejects), not for Rp62_248 (rejection sampling of
-- packed 62-bit words: 1000 consecutive rejections cannot be excluded without a hash assumption).  The full statement
-- `VerifyNeverPanics` is FALSE for the code as it is: `verifyNeverPanics_false`.
-- `refVerify` is tied to the real `verify` by the `refv` op lines (verdict kind incl. `panic` compared on identical
-- bytes): harness/src/bin/c03.rs (honest proofs and all of C03's mutant families) and harness/src/bin/c06.rs (a
-- sample of C06's hostile mutants of the base configurations with a Rescue hasher).
-- STILL FUZZ-ONLY after the channel: the BLAKE3 / SHA3 hashers, the 128-bit field, GKR verifiers other than the
-- family's dummy one, the proven-security policy (floating point); and the allocation bound of part 1 is not
-- extended to the rest of `verify` (the model has no allocation counter there; the harness's counting allocator does).
import WinterProofs.C06Parser
import WinterProofs.RefVerifierTotal

namespace WinterProofs.C06
open Model Model.RefVerifier WinterProofs.RefVerifier WinterProofs.C06L

/-- the verdict is a return value of `Proof::from_bytes` / `verify`: accept, a parse error, or an error value -/
def Returns : Verdict → Prop
  | .err (.panic _) => False
  | _ => True

/-- the statement one would like: `Proof::from_bytes` followed by `verify` returns on every byte string -/
def VerifyNeverPanics (J : Inst) (d : Desc) : Prop :=
  ∀ pubs acc bs, BytesOk bs → Returns (refVerify J d pubs acc bs)

/-- PARTIAL (the part that holds for the code as it is; what is missing from `VerifyNeverPanics` are exactly the
    panics of the real code named by `RealPanic`).  For every instantiation with the sizes `InstOk`, every
    description of the AIR family (with or without auxiliary segment) whose constructor, when it succeeds, asks for
    at most 255 composition columns, every public input vector, acceptance policy and byte string: the whole of
    `Proof::from_bytes` + `verify` returns accept / reject, or panics where the real code panics. -/
theorem verify_whole_safe_partial (J : Inst) (hJ : InstOk J) (d : Desc)
    (hcols : ∀ ti o n, Parse.airNew (frontAir J d) ti o = some n → n ≤ 255)
    (pubs : List Nat) (acc : Acceptable) (bs : List Nat) (hb : BytesOk bs) :
    Returns (refVerify J d pubs acc bs) ∨
      ∃ s, refVerify J d pubs acc bs = .err (.panic s) ∧ RealPanic s := by
  cases hv : refVerify J d pubs acc bs with
  | ok => exact Or.inl trivial
  | parseErr => exact Or.inl trivial
  | insufficientSecurity => exact Or.inl trivial
  | err e =>
    cases e with
    | panic s => exact Or.inr ⟨s, rfl, refVerify_never_panics J hJ d hcols pubs acc bs hb s hv⟩
    | _ => exact Or.inl trivial

/-- the same, as an implication (`WinterProofs.RefVerifier.refVerify_never_panics` re-exported as the C06 statement) -/
theorem verify_whole_panics_only_where_code_does (J : Inst) (hJ : InstOk J) (d : Desc)
    (hcols : ∀ ti o n, Parse.airNew (frontAir J d) ti o = some n → n ≤ 255)
    (pubs : List Nat) (acc : Acceptable) (bs : List Nat) (hb : BytesOk bs) (s : String)
    (h : refVerify J d pubs acc bs = .err (.panic s)) : RealPanic s :=
  refVerify_never_panics J hJ d hcols pubs acc bs hb s h

/-- the panics of the real code on a trace shape the computation does not fit (recorded finding c06.verify.air-new) -/
def ShapePanic (s : String) : Prop := s = "AIR::new" ∨ s = "evaluate_constraints"

/-- for an instantiation whose coin draws cannot fail (`DrawTotal`) the `expect` on the auxiliary random elements is
    excluded too: the whole of `Proof::from_bytes` + `verify` returns, or panics on a foreign trace shape -/
theorem verify_whole_safe_drawTotal (J : Inst) (hJ : InstOk J) (hD : DrawTotal J) (d : Desc)
    (hcols : ∀ ti o n, Parse.airNew (frontAir J d) ti o = some n → n ≤ 255)
    (pubs : List Nat) (acc : Acceptable) (bs : List Nat) (hb : BytesOk bs) :
    Returns (refVerify J d pubs acc bs) ∨ ∃ s, refVerify J d pubs acc bs = .err (.panic s) ∧ ShapePanic s := by
  cases hv : refVerify J d pubs acc bs with
  | ok => exact Or.inl trivial
  | parseErr => exact Or.inl trivial
  | insufficientSecurity => exact Or.inl trivial
  | err e =>
    cases e with
    | panic s => exact Or.inr ⟨s, rfl, refVerify_never_panics_drawTotal J hJ hD d hcols pubs acc bs hb s hv⟩
    | _ => exact Or.inl trivial

/-- the three instantiations: over the 64-bit field (Rp64_256, RpJive64_256) `from_random_bytes` accepts the bytes of
    every digest - four canonical field elements -, so the coin's draws never fail whatever the hash values are and
    only the shape panics remain; over the 62-bit field (Rp62_248, digests of packed 62-bit words) rejection
    sampling is real and the `expect` of lib.rs on `get_aux_rand_elements` cannot be excluded without an assumption on
    the hash values (1000 consecutive rejected candidates) -/
theorem verify_whole_safe_rp64 (d : Desc) (hcols : ∀ ti o n, Parse.airNew (frontAir Inst.rp64 d) ti o = some n → n ≤ 255)
    (pubs : List Nat) (acc : Acceptable) (bs : List Nat) (hb : BytesOk bs) :
    Returns (refVerify Inst.rp64 d pubs acc bs) ∨ ∃ s, refVerify Inst.rp64 d pubs acc bs = .err (.panic s) ∧ ShapePanic s :=
  verify_whole_safe_drawTotal _ instOk_rp64 drawTotal_rp64 d hcols pubs acc bs hb

theorem verify_whole_safe_rpjive (d : Desc) (hcols : ∀ ti o n, Parse.airNew (frontAir Inst.rpjive d) ti o = some n → n ≤ 255)
    (pubs : List Nat) (acc : Acceptable) (bs : List Nat) (hb : BytesOk bs) :
    Returns (refVerify Inst.rpjive d pubs acc bs) ∨ ∃ s, refVerify Inst.rpjive d pubs acc bs = .err (.panic s) ∧ ShapePanic s :=
  verify_whole_safe_drawTotal _ instOk_rpjive drawTotal_rpjive d hcols pubs acc bs hb

theorem verify_whole_safe_rp62 (d : Desc) (hcols : ∀ ti o n, Parse.airNew (frontAir Inst.rp62 d) ti o = some n → n ≤ 255)
    (pubs : List Nat) (acc : Acceptable) (bs : List Nat) (hb : BytesOk bs) :
    Returns (refVerify Inst.rp62 d pubs acc bs) ∨ ∃ s, refVerify Inst.rp62 d pubs acc bs = .err (.panic s) ∧ RealPanic s :=
  verify_whole_safe_partial _ instOk_rp62 d hcols pubs acc bs hb

-- the hypotheses are satisfiable: a description without and one with an auxiliary segment, a byte string
example (pubs : List Nat) (acc : Acceptable) (bs : List Nat) (hb : BytesOk bs) :=
  verify_whole_safe_rp64 descSq (descSq_cols _) pubs acc bs hb
example (pubs : List Nat) (acc : Acceptable) (bs : List Nat) (hb : BytesOk bs) :=
  verify_whole_safe_rp64 descAux8 (descAux8_cols _) pubs acc bs hb
example (pubs : List Nat) (acc : Acceptable) (bs : List Nat) (hb : BytesOk bs) :=
  verify_whole_safe_rp62 descAux8 (descAux8_cols _) pubs acc bs hb
example (pubs : List Nat) (acc : Acceptable) (bs : List Nat) (hb : BytesOk bs) :=
  verify_whole_safe_rpjive descLag8 (descLag8_cols _) pubs acc bs hb
example : BytesOk honestAux8 := BytesOk.of_all (by decide +kernel)

/-- both alternatives occur: the honest proof with an auxiliary segment is accepted (a return value) ... -/
theorem verify_whole_returns_witness : Returns (refVerify Inst.rp64 descAux8 honestAux8Pubs (.optionSet [⟨1, 2, 0, 1, 4, 1⟩]) honestAux8) := by
  rw [refVerify_accepts_honest_aux]; trivial

/-- ... and the full statement is false for the code as it is: the valid proof `pow5` with its blowup byte lowered
    makes the AIR constructor panic inside `verify()` (recorded finding c06.verify.air-new) -/
theorem verifyNeverPanics_false : ¬ VerifyNeverPanics Inst.rp64 descPow5 := by
  intro h
  have hb : BytesOk (pow5.set 16 2) := BytesOk.of_all (by decide +kernel)
  have := h [] (.minConjectured 0) _ hb
  rw [refVerify_airnew_witness] at this
  exact this

end WinterProofs.C06
