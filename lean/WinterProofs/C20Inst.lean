-- C20, instantiated: the hypotheses `Lawful` / `Total` of WinterProofs/C20.lean discharged for the three
-- base-field operation records the driver `drv_c20` actually runs (`Drv.C20.opsOf Model.F64.impl`, `…F62…`,
-- `…F128…`), from the theorems of property C07 (in the packaged form `f64_implements`, `f62_implements`,
-- `f128_implements` of WinterProofs/C08Inst.lean) — so that the main statements hold for the raw words the
-- code computes on with NO remaining field hypothesis: `f64_*`, `f62_*`, `f128_*` below.
--
-- Method: the field laws hold on raw words satisfying the representation invariant `Inv` only, so the
-- carrier is restricted to the subtype `{x // Inv x}` (`subOpsP`, lawful and total); the model is natural in the
-- operation record (WinterProofs/Lemmas/C20Hom.lean), which carries every theorem along `Subtype.val` to the
-- plain record of the driver: on invariant-satisfying inputs the driver's computation returns
-- invariant-satisfying outputs with the specified values.
--
-- NOT instantiated here: the five extension records of the driver (`quadOps`/`cubeOps` in Winter/Drv/C20.lean are
-- a local copy built directly on the generated `ext2_*`/`ext3_*` formulas, not C08's `Model.Quad`/`Model.Cube`);
-- for them the C20 theorems keep the hypothesis `Lawful` (as do `mul_acc` and the chunked variants, which are not
-- restated per field), and C08Inst's `q64_raw_refines` … state the field laws
-- for C08's model of the same formulas.
import WinterProofs.C20
import WinterProofs.Lemmas.C20Hom
import WinterProofs.C08Inst
import Winter.Drv.C20

set_option linter.unusedSectionVars false

namespace WinterProofs.C20
open Model Model.Poly Polynomial WinterProofs.C08L

-- ================================================================================ generic part
section Generic
variable {I : FieldImpl} {p : ℕ} [Fact p.Prime] {ok : ℕ → Prop} {val : ℕ → ZMod p}

theorem ok_zero (H : Implements I p ok val) : ok (I.new 0) := (H.new 0 (Nat.two_pow_pos _)).1
theorem ok_one (H : Implements I p ok val) : ok (I.new 1) :=
  (H.new 1 (Nat.one_lt_two_pow (by have := H.bits; omega))).1

/-- `x^n` by repeated multiplication on invariant-satisfying raw words (only the fall-back of `subOpsP.pow`) -/
noncomputable def powRec (H : Implements I p ok val) (a : {x : ℕ // ok x}) : ℕ → {x : ℕ // ok x}
  | 0 => ⟨I.new 1, ok_one H⟩
  | n + 1 => ⟨I.mul (powRec H a n).1 a.1, (H.mul _ _ (powRec H a n).2 a.2).1⟩

theorem val_powRec (H : Implements I p ok val) (a : {x : ℕ // ok x}) (n : ℕ) :
    val (powRec H a n).1 = val a.1 ^ n := by
  induction n with
  | zero =>
    show val (I.new 1) = val a.1 ^ 0
    simpa using (H.new 1 (Nat.one_lt_two_pow (by have := H.bits; omega))).2
  | succ n ih => simp only [powRec]; rw [(H.mul _ _ (powRec H a n).2 a.2).2, ih, pow_succ]

open Classical in
/-- the driver's operation record restricted to the raw words satisfying the representation invariant.
    `pow` is `exp` wherever `exp` is correct (always, for exponents that fit the machine word: C07) -/
noncomputable def subOpsP (H : Implements I p ok val) : Ops {x : ℕ // ok x} where
  zero := ⟨I.new 0, ok_zero H⟩
  one := ⟨I.new 1, ok_one H⟩
  add a b := ⟨I.add a.1 b.1, (H.add a.1 b.1 a.2 b.2).1⟩
  sub a b := ⟨I.sub a.1 b.1, (H.sub a.1 b.1 a.2 b.2).1⟩
  mul a b := ⟨I.mul a.1 b.1, (H.mul a.1 b.1 a.2 b.2).1⟩
  inv a := match I.inv a.1 with
    | .done d => if hd : ok d then some ⟨d, hd⟩ else none
    | .out => none
  isZero a := I.eq a.1 (I.new 0)
  isOne a := I.eq a.1 (I.new 1)
  pow a n := if hn : ok (I.exp a.1 n) ∧ val (I.exp a.1 n) = val a.1 ^ n then ⟨I.exp a.1 n, hn.1⟩
    else powRec H a n

/-- the valuation on the restricted carrier -/
def subVal (val : ℕ → ZMod p) (ok : ℕ → Prop) (a : {x : ℕ // ok x}) : ZMod p := val a.1

theorem lawful_subOpsP (H : Implements I p ok val) : Lawful (subOpsP H) (subVal val ok) where
  zero := by simpa [subOpsP, subVal] using (H.new 0 (Nat.two_pow_pos _)).2
  one := by simpa [subOpsP, subVal] using (H.new 1 (Nat.one_lt_two_pow (by have := H.bits; omega))).2
  add a b := (H.add a.1 b.1 a.2 b.2).2
  sub a b := (H.sub a.1 b.1 a.2 b.2).2
  mul a b := (H.mul a.1 b.1 a.2 b.2).2
  inv a b hab := by
    obtain ⟨d, hd, hok, hv⟩ := H.inv a.1 a.2
    simp only [subOpsP, hd, hok, dite_true, Option.some.injEq] at hab
    subst hab
    exact hv
  isZero a := by
    have h0 := (H.new 0 (Nat.two_pow_pos _))
    show I.eq a.1 (I.new 0) = true ↔ val a.1 = 0
    rw [H.eq a.1 _ a.2 h0.1, h0.2]; simp
  isOne a := by
    have h1 := (H.new 1 (Nat.one_lt_two_pow (by have := H.bits; omega)))
    show I.eq a.1 (I.new 1) = true ↔ val a.1 = 1
    rw [H.eq a.1 _ a.2 h1.1, h1.2]; simp
  pow a n := by
    show val ((subOpsP H).pow a n).1 = val a.1 ^ n
    simp only [subOpsP]
    split
    · rename_i hn; exact hn.2
    · exact val_powRec H a n

theorem total_subOpsP (H : Implements I p ok val) : Total (subOpsP H) := by
  intro a
  obtain ⟨d, hd, hok, _⟩ := H.inv a.1 a.2
  exact ⟨⟨d, hok⟩, by simp [subOpsP, hd, hok]⟩

/-- the restricted record maps to the record the driver runs -/
theorem hom_subOpsP (H : Implements I p ok val)
    (hexp0 : ∀ a, ok a → ok (I.exp a 0) ∧ val (I.exp a 0) = val a ^ 0) :
    OpsHom (subOpsP H) (Drv.C20.opsOf I) Subtype.val where
  zero := rfl
  one := rfl
  add _ _ := rfl
  sub _ _ := rfl
  mul _ _ := rfl
  inv a := by
    obtain ⟨d, hd, hok, _⟩ := H.inv a.1 a.2
    simp [subOpsP, Drv.C20.opsOf, hd, hok]
  isZero _ := rfl
  isOne _ := rfl
  pow0 a := by
    show ((subOpsP H).pow a 0).1 = I.exp a.1 0
    simp only [subOpsP]
    rw [dif_pos (hexp0 a.1 a.2)]


-- ------------------------------------------------------------------ lifting raw lists

/-- a list of raw words satisfying the invariant, as a list over the restricted carrier -/
def lift (l : List ℕ) (hl : ∀ x ∈ l, ok x) : List {x : ℕ // ok x} := l.pmap Subtype.mk hl

theorem map_val_lift (l : List ℕ) (hl : ∀ x ∈ l, ok x) : (lift l hl).map Subtype.val = l := by
  simp [lift, List.map_pmap]

theorem length_lift (l : List ℕ) (hl : ∀ x ∈ l, ok x) : (lift l hl).length = l.length := by
  simp [lift]

theorem all_ok_map_val (l' : List {x : ℕ // ok x}) : ∀ x ∈ l'.map Subtype.val, ok x := by
  intro x hx
  obtain ⟨y, _, rfl⟩ := List.mem_map.1 hx
  exact y.2

theorem toPoly_map_val (l' : List {x : ℕ // ok x}) :
    toPoly val (l'.map Subtype.val) = toPoly (subVal val ok) l' := by
  simp [toPoly, subVal]

theorem toPoly_lift (l : List ℕ) (hl : ∀ x ∈ l, ok x) :
    toPoly (subVal val ok) (lift l hl) = toPoly val l := by
  rw [← toPoly_map_val, map_val_lift]

theorem map_subVal_lift (l : List ℕ) (hl : ∀ x ∈ l, ok x) :
    (lift l hl).map (subVal val ok) = l.map val := by
  have := congrArg (List.map val) (map_val_lift l hl)
  simpa [List.map_map, subVal, Function.comp_def] using this

-- ------------------------------------------------------------------ the theorems on raw words

variable (H : Implements I p ok val)
  (hexp0 : ∀ a, ok a → ok (I.exp a 0) ∧ val (I.exp a 0) = val a ^ 0)
include H hexp0

/-- `eval` on invariant-satisfying raw words: the result satisfies the invariant and is the value of the
    denoted polynomial -/
theorem raw_eval (l : List ℕ) (x : ℕ) (hl : ∀ c ∈ l, ok c) (hx : ok x) :
    ok (eval (Drv.C20.opsOf I) l x) ∧
      val (eval (Drv.C20.opsOf I) l x) = (toPoly val l).eval (val x) := by
  have e := hom_eval (hom_subOpsP H hexp0) (lift l hl) ⟨x, hx⟩
  rw [map_val_lift] at e
  show ok (eval (Drv.C20.opsOf I) l x) ∧ _
  rw [e]
  refine ⟨(eval (subOpsP H) (lift l hl) ⟨x, hx⟩).2, ?_⟩
  have := v_eval (lawful_subOpsP H) (lift l hl) ⟨x, hx⟩
  rw [toPoly_lift] at this
  exact this

theorem raw_add (a b : List ℕ) (ha : ∀ c ∈ a, ok c) (hb : ∀ c ∈ b, ok c) :
    (∀ c ∈ add (Drv.C20.opsOf I) a b, ok c) ∧
      (add (Drv.C20.opsOf I) a b).length = max a.length b.length ∧
      toPoly val (add (Drv.C20.opsOf I) a b) = toPoly val a + toPoly val b := by
  have e := hom_add (hom_subOpsP H hexp0) (lift a ha) (lift b hb)
  rw [map_val_lift, map_val_lift] at e
  rw [e]
  refine ⟨all_ok_map_val _, by simp [length_add, length_lift], ?_⟩
  rw [toPoly_map_val, toPoly_add (lawful_subOpsP H), toPoly_lift, toPoly_lift]

theorem raw_sub (a b : List ℕ) (ha : ∀ c ∈ a, ok c) (hb : ∀ c ∈ b, ok c) :
    (∀ c ∈ sub (Drv.C20.opsOf I) a b, ok c) ∧
      (sub (Drv.C20.opsOf I) a b).length = max a.length b.length ∧
      toPoly val (sub (Drv.C20.opsOf I) a b) = toPoly val a - toPoly val b := by
  have e := hom_sub (hom_subOpsP H hexp0) (lift a ha) (lift b hb)
  rw [map_val_lift, map_val_lift] at e
  rw [e]
  refine ⟨all_ok_map_val _, by simp [length_sub, length_lift], ?_⟩
  rw [toPoly_map_val, toPoly_sub (lawful_subOpsP H), toPoly_lift, toPoly_lift]

theorem raw_mul_by_scalar (l : List ℕ) (k : ℕ) (hl : ∀ c ∈ l, ok c) (hk : ok k) :
    (∀ c ∈ mulByScalar (Drv.C20.opsOf I) l k, ok c) ∧
      toPoly val (mulByScalar (Drv.C20.opsOf I) l k) = toPoly val l * C (val k) := by
  have e := hom_mulByScalar (hom_subOpsP H hexp0) (lift l hl) ⟨k, hk⟩
  rw [map_val_lift] at e
  show (∀ c ∈ mulByScalar (Drv.C20.opsOf I) l k, ok c) ∧ _
  rw [e]
  refine ⟨all_ok_map_val _, ?_⟩
  rw [toPoly_map_val, toPoly_mulByScalar (lawful_subOpsP H), toPoly_lift]
  rfl

/-- `mul` on raw words: never panics, invariant preserved, product -/
theorem raw_mul (a b : List ℕ) (ha : ∀ c ∈ a, ok c) (hb : ∀ c ∈ b, ok c) :
    ∃ r, mul (Drv.C20.opsOf I) a b = .ok r ∧ (∀ c ∈ r, ok c) ∧
      r.length = a.length + b.length - 1 ∧ toPoly val r = toPoly val a * toPoly val b := by
  obtain ⟨r', e', l', p'⟩ := mul_spec (lawful_subOpsP H) (lift a ha) (lift b hb)
  have e := hom_mul (hom_subOpsP H hexp0) (lift a ha) (lift b hb)
  rw [map_val_lift, map_val_lift, e'] at e
  refine ⟨r'.map Subtype.val, e, all_ok_map_val _, by simpa [length_lift] using l', ?_⟩
  rw [toPoly_map_val, p', toPoly_lift, toPoly_lift]

theorem raw_degree_of (l : List ℕ) (hl : ∀ c ∈ l, ok c) :
    degreeOf (Drv.C20.opsOf I) l = (toPoly val l).natDegree := by
  have e := hom_degreeOf (hom_subOpsP H hexp0) (lift l hl)
  rw [map_val_lift] at e
  rw [e, degreeOf_eq_natDegree (lawful_subOpsP H), toPoly_lift]

/-- `div` on raw words under exactly the asserted guards: no panic, no hang, invariant preserved,
    `a = q·b + r` with `deg r < deg b` -/
theorem raw_div (a b : List ℕ) (ha : ∀ c ∈ a, ok c) (hb : ∀ c ∈ b, ok c)
    (hdeg : degreeOf (Drv.C20.opsOf I) b ≤ degreeOf (Drv.C20.opsOf I) a) (hb0 : toPoly val b ≠ 0) :
    ∃ q, Model.Poly.div (Drv.C20.opsOf I) a b = .ok q ∧ (∀ c ∈ q, ok c) ∧
      q.length = degreeOf (Drv.C20.opsOf I) a - degreeOf (Drv.C20.opsOf I) b + 1 ∧
      ∃ r : (ZMod p)[X], toPoly val a = toPoly val q * toPoly val b + r ∧ r.degree < (toPoly val b).degree := by
  have da := hom_degreeOf (hom_subOpsP H hexp0) (lift a ha)
  have db := hom_degreeOf (hom_subOpsP H hexp0) (lift b hb)
  rw [map_val_lift] at da db
  rw [da, db] at hdeg ⊢
  obtain ⟨q', e', l', r, hr, hd⟩ := div_spec (lawful_subOpsP H) (total_subOpsP H) (lift a ha) (lift b hb) hdeg
    (by rw [toPoly_lift]; exact hb0)
  have e := hom_poly_div (hom_subOpsP H hexp0) (lift a ha) (lift b hb)
  rw [map_val_lift, map_val_lift, e'] at e
  refine ⟨q'.map Subtype.val, e, all_ok_map_val _, by simpa using l', r, ?_, ?_⟩
  · rw [toPoly_map_val, ← toPoly_lift a ha, ← toPoly_lift b hb]; exact hr
  · rw [← toPoly_lift b hb]; exact hd

/-- `syn_div` on raw words under the documented preconditions -/
theorem raw_syn_div (l : List ℕ) (a : ℕ) (b : ℕ) (hl : ∀ c ∈ l, ok c) (hb : ok b)
    (ha : a ≠ 0) (hbz : val b ≠ 0) (hp : a < l.length) :
    ∃ q, synDiv (Drv.C20.opsOf I) l a b = .ok q ∧ (∀ c ∈ q, ok c) ∧ q.length = l.length ∧
      toPoly val q = toPoly val l /ₘ (X ^ a - C (val b)) ∧
      ((X ^ a - C (val b) : (ZMod p)[X]) ∣ toPoly val l → toPoly val l = toPoly val q * (X ^ a - C (val b))) := by
  have hz : (subOpsP H).isZero ⟨b, hb⟩ = false := by
    cases hzz : (subOpsP H).isZero ⟨b, hb⟩
    · rfl
    · exact absurd (((lawful_subOpsP H).isZero ⟨b, hb⟩).1 hzz) hbz
  obtain ⟨q', rem, e', l', _, _, _⟩ := synDiv_spec (lawful_subOpsP H) (lift l hl) a ⟨b, hb⟩ ha hz
    (by rw [length_lift]; exact hp)
  obtain ⟨q2, e2, hq2⟩ := synDiv_eq_divByMonic (lawful_subOpsP H) (lift l hl) a ⟨b, hb⟩ ha hz
    (by rw [length_lift]; exact hp)
  have hqq : q2 = q' := by rw [e'] at e2; cases e2; rfl
  subst hqq
  have e := hom_synDiv (hom_subOpsP H hexp0) (lift l hl) a ⟨b, hb⟩
  rw [map_val_lift, e'] at e
  have hq : toPoly val (q2.map Subtype.val) = toPoly val l /ₘ (X ^ a - C (val b)) := by
    rw [toPoly_map_val, hq2, toPoly_lift]; rfl
  refine ⟨q2.map Subtype.val, e, all_ok_map_val _, by simpa [length_lift] using l', hq, fun hd => ?_⟩
  have hm := monic_X_pow_sub_C (val b) ha
  have h0 := (modByMonic_eq_zero_iff_dvd hm).2 hd
  have := modByMonic_add_div (toPoly val l) (X ^ a - C (val b))
  rw [h0, zero_add] at this
  rw [hq, mul_comm]; exact this.symm

theorem raw_poly_from_roots (xs : List ℕ) (hx : ∀ c ∈ xs, ok c) :
    ∃ r, polyFromRoots (Drv.C20.opsOf I) xs = .ok r ∧ (∀ c ∈ r, ok c) ∧ r.length = xs.length + 1 ∧
      toPoly val r = rootsPoly (xs.map val) := by
  have e := hom_polyFromRoots (hom_subOpsP H hexp0) (lift xs hx)
  rw [map_val_lift, polyFromRoots_eq (O := subOpsP H)] at e
  refine ⟨_, e, all_ok_map_val _, by simp [length_fromRootsSpec, length_lift], ?_⟩
  rw [toPoly_map_val, toPoly_fromRootsSpec (lawful_subOpsP H), map_subVal_lift]

/-- `interpolate` on raw words: equal numbers of coordinates, X coordinates denoting pairwise distinct
    residues: no panic, no hang, invariant preserved, at most `n` coefficients, and the interpolant takes
    the prescribed values -/
theorem raw_interpolate (xs ys : List ℕ) (rlz : Bool) (hx : ∀ c ∈ xs, ok c) (hy : ∀ c ∈ ys, ok c)
    (hlen : xs.length = ys.length) (hnd : (xs.map val).Nodup) :
    ∃ r, interpolate (Drv.C20.opsOf I) xs ys rlz = .ok r ∧ (∀ c ∈ r, ok c) ∧ r.length ≤ xs.length ∧
      (rlz = false → r.length = xs.length) ∧
      ∀ j (hj : j < xs.length), (toPoly val r).eval (val xs[j]) = val (ys[j]'(hlen ▸ hj)) := by
  have hlen' : (lift xs hx).length = (lift ys hy).length := by simp [length_lift, hlen]
  obtain ⟨r', e', l1, l2, _, hev⟩ := interpolate_eval (lawful_subOpsP H) (total_subOpsP H)
    (lift xs hx) (lift ys hy) rlz hlen' (by rw [map_subVal_lift]; exact hnd)
  have e := hom_interpolate (hom_subOpsP H hexp0) (lift xs hx) (lift ys hy) rlz
  rw [map_val_lift, map_val_lift, e'] at e
  refine ⟨r'.map Subtype.val, e, all_ok_map_val _, by simpa [length_lift] using l1,
    fun h => by simpa [length_lift] using l2 h, fun j hj => ?_⟩
  have hj' : j < (lift xs hx).length := by rw [length_lift]; exact hj
  have := hev j hj'
  rw [toPoly_map_val]
  have ex : subVal val ok (lift xs hx)[j] = val xs[j] := by
    have := congrArg (fun l => l[j]?) (map_subVal_lift (val := val) xs hx)
    simpa [List.getElem?_map, List.getElem?_eq_getElem hj', List.getElem?_eq_getElem hj] using this
  have hjy : j < ys.length := hlen ▸ hj
  have hjy' : j < (lift ys hy).length := by rw [length_lift]; exact hjy
  have ey : subVal val ok ((lift ys hy)[j]'(hlen' ▸ hj')) = val (ys[j]'hjy) := by
    have := congrArg (fun l => l[j]?) (map_subVal_lift (val := val) ys hy)
    simpa [List.getElem?_map, List.getElem?_eq_getElem hjy', List.getElem?_eq_getElem hjy] using this
  rw [← ex, ← ey]; exact this

/-- `batch_inversion` on raw words: returns (no panic, no hang), invariant preserved, `x⁻¹` where the
    residue is non-zero and `0` elsewhere, for every pattern of zeros -/
theorem raw_batch_inversion (vals : List ℕ) (hv : ∀ c ∈ vals, ok c) :
    ∃ r, batchInversion (Drv.C20.opsOf I) vals = .ok r ∧ (∀ c ∈ r, ok c) ∧ r.length = vals.length ∧
      r.map val = vals.map fun x => inv0 (val x) := by
  obtain ⟨r', e'⟩ := serialBatchInversion_total (total_subOpsP H) (lift vals hv)
  obtain ⟨l', hr'⟩ := serialBatchInversion_spec (lawful_subOpsP H) _ _ e'
  have e := hom_batchInversion (hom_subOpsP H hexp0) (lift vals hv)
  rw [map_val_lift] at e
  rw [show batchInversion (subOpsP H) (lift vals hv) = .ok r' from e'] at e
  refine ⟨r'.map Subtype.val, e, all_ok_map_val _, by simpa [length_lift] using l', ?_⟩
  have h1 : (r'.map Subtype.val).map val = r'.map (subVal val ok) := by
    simp [subVal]
  rw [h1, hr', ← map_subVal_lift vals hv]
  rfl

theorem raw_get_power_series (b : ℕ) (n : ℕ) (hb : ok b) :
    (∀ c ∈ getPowerSeries (Drv.C20.opsOf I) b n, ok c) ∧
      (getPowerSeries (Drv.C20.opsOf I) b n).map val = (List.range n).map fun i => val b ^ i := by
  have e := hom_getPowerSeries (hom_subOpsP H hexp0) ⟨b, hb⟩ n
  show (∀ c ∈ getPowerSeries (Drv.C20.opsOf I) b n, ok c) ∧ _
  rw [e]
  refine ⟨all_ok_map_val _, ?_⟩
  have := map_getPowerSeries (lawful_subOpsP H) ⟨b, hb⟩ n
  simpa [List.map_map, subVal, Function.comp_def] using this

theorem raw_syn_div_roots (l roots : List ℕ) (hl : ∀ c ∈ l, ok c) (hr : ∀ c ∈ roots, ok c)
    (hne : roots ≠ []) (hp : roots.length < l.length) :
    ∃ q, synDivRoots (Drv.C20.opsOf I) l roots = .ok q ∧ (∀ c ∈ q, ok c) ∧ q.length = l.length ∧
      toPoly val q = toPoly val l /ₘ rootsPoly (roots.map val) := by
  have hne' : lift roots hr ≠ [] := by
    intro h0; exact hne (by rw [← map_val_lift roots hr, h0]; rfl)
  obtain ⟨q', e', l', hq'⟩ := synDivRoots_spec (lawful_subOpsP H) (lift l hl) (lift roots hr) hne'
    (by simpa [length_lift] using hp)
  have e := hom_synDivRoots (hom_subOpsP H hexp0) (lift l hl) (lift roots hr)
  rw [map_val_lift, map_val_lift, e'] at e
  refine ⟨q'.map Subtype.val, e, all_ok_map_val _, by simpa [length_lift] using l', ?_⟩
  rw [toPoly_map_val, hq', toPoly_lift, map_subVal_lift]

theorem raw_add_in_place (a b : List ℕ) (ha : ∀ c ∈ a, ok c) (hb : ∀ c ∈ b, ok c) (h : a.length = b.length) :
    ∃ r, addInPlace (Drv.C20.opsOf I) a b = .ok r ∧ (∀ c ∈ r, ok c) ∧ r.length = a.length ∧
      r.map val = List.zipWith (· + ·) (a.map val) (b.map val) := by
  obtain ⟨r', e', l', hr'⟩ := addInPlace_spec (lawful_subOpsP H) (lift a ha) (lift b hb)
    (by simpa [length_lift] using h)
  have e := hom_addInPlace (hom_subOpsP H hexp0) (lift a ha) (lift b hb)
  rw [map_val_lift, map_val_lift, e'] at e
  refine ⟨r'.map Subtype.val, e, all_ok_map_val _, by simpa [length_lift] using l', ?_⟩
  have h1 : (r'.map Subtype.val).map val = r'.map (subVal val ok) := by simp [subVal]
  rw [h1, hr', map_subVal_lift, map_subVal_lift]

omit H hexp0 in
theorem subVal_lift_getElem (l : List ℕ) (hl : ∀ c ∈ l, ok c) (j : ℕ) (hj : j < l.length)
    (hj' : j < (lift l hl).length) : subVal val ok (lift l hl)[j] = val l[j] := by
  have := congrArg (fun l => l[j]?) (map_subVal_lift (val := val) l hl)
  simpa [List.getElem?_map, List.getElem?_eq_getElem hj', List.getElem?_eq_getElem hj] using this

/-- nested lists (batches) of invariant-satisfying raw words over the restricted carrier -/
def liftL (xss : List (List ℕ)) (h : ∀ b ∈ xss, ∀ c ∈ b, ok c) : List (List {x : ℕ // ok x}) :=
  xss.pmap (fun b hb => lift b hb) h

omit H hexp0 in
theorem map_val_liftL (xss : List (List ℕ)) (h : ∀ b ∈ xss, ∀ c ∈ b, ok c) :
    (liftL xss h).map (List.map Subtype.val) = xss := by
  induction xss with
  | nil => rfl
  | cons b bs ih =>
    have := ih (fun b' hb' => h b' (List.mem_cons_of_mem _ hb'))
    simp only [liftL, List.pmap, List.map_cons] at this ⊢
    rw [map_val_lift, this]

omit H hexp0 in
theorem length_liftL (xss : List (List ℕ)) (h : ∀ b ∈ xss, ∀ c ∈ b, ok c) :
    (liftL xss h).length = xss.length := by simp [liftL]

omit H hexp0 in
theorem getElem_liftL (xss : List (List ℕ)) (h : ∀ b ∈ xss, ∀ c ∈ b, ok c) (i : ℕ) (hi : i < xss.length)
    (hi' : i < (liftL xss h).length) : (liftL xss h)[i] = lift xss[i] (h _ (List.getElem_mem hi)) := by
  simp [liftL, List.getElem_pmap]

/-- `interpolate_batch::<E, N>` on raw words: batches of `N` invariant-satisfying words each -/
theorem raw_interpolate_batch (N : ℕ) (xss yss : List (List ℕ))
    (hx : ∀ b ∈ xss, ∀ c ∈ b, ok c) (hy : ∀ b ∈ yss, ∀ c ∈ b, ok c)
    (hlen : xss.length = yss.length) (hxN : ∀ b ∈ xss, b.length = N) (hyN : ∀ b ∈ yss, b.length = N) :
    ∃ polys, interpolateBatch (Drv.C20.opsOf I) N xss yss = .ok polys ∧ polys.length = xss.length ∧
      (∀ q ∈ polys, q.length = N ∧ ∀ c ∈ q, ok c) ∧
      ∀ i (hi : i < xss.length) (hp : i < polys.length), (xss[i].map val).Nodup →
        ∀ j (hjx : j < xss[i].length) (hjy : j < (yss[i]'(hlen ▸ hi)).length),
          (toPoly val polys[i]).eval (val xss[i][j]) = val (yss[i]'(hlen ▸ hi))[j] := by
  have hlen' : (liftL xss hx).length = (liftL yss hy).length := by simp [length_liftL, hlen]
  have hxN' : ∀ b ∈ liftL xss hx, b.length = N := by
    intro b hb
    obtain ⟨i, hi, rfl⟩ := List.getElem_of_mem hb
    have hi2 : i < xss.length := by simpa [length_liftL] using hi
    rw [getElem_liftL xss hx i hi2 hi, length_lift]; exact hxN _ (List.getElem_mem hi2)
  have hyN' : ∀ b ∈ liftL yss hy, b.length = N := by
    intro b hb
    obtain ⟨i, hi, rfl⟩ := List.getElem_of_mem hb
    have hi2 : i < yss.length := by simpa [length_liftL] using hi
    rw [getElem_liftL yss hy i hi2 hi, length_lift]; exact hyN _ (List.getElem_mem hi2)
  obtain ⟨polys', e', lp, hq, hev⟩ := interpolateBatch_spec (lawful_subOpsP H) (total_subOpsP H) N
    (liftL xss hx) (liftL yss hy) hlen' hxN' hyN'
  have e := hom_interpolateBatch (hom_subOpsP H hexp0) N (liftL xss hx) (liftL yss hy)
  rw [map_val_liftL, map_val_liftL, e'] at e
  refine ⟨polys'.map (List.map Subtype.val), e, by simpa [length_liftL] using lp, ?_, ?_⟩
  · intro q hq'
    obtain ⟨q', hq'm, rfl⟩ := List.mem_map.1 hq'
    exact ⟨by simpa using hq q' hq'm, all_ok_map_val _⟩
  · intro i hi hp hnd j hjx hjy
    have hi1 : i < (liftL xss hx).length := by rw [length_liftL]; exact hi
    have hp1 : i < polys'.length := by simpa using hp
    have hi2 : i < yss.length := hlen ▸ hi
    have hi3 : i < (liftL yss hy).length := by rw [length_liftL]; exact hi2
    have ex := getElem_liftL xss hx i hi hi1
    have ey := getElem_liftL yss hy i hi2 hi3
    have hjx1 : j < ((liftL xss hx)[i]).length := by rw [ex, length_lift]; exact hjx
    have hjy1 : j < ((liftL yss hy)[i]'(hlen' ▸ hi1)).length := by rw [ey, length_lift]; exact hjy
    have := hev i hi1 hp1 (by rw [ex, map_subVal_lift]; exact hnd) j hjx1 hjy1
    rw [List.getElem_map, toPoly_map_val]
    have e1 : subVal val ok ((liftL xss hx)[i][j]) = val xss[i][j] := by
      have := subVal_lift_getElem (val := val) xss[i] (hx _ (List.getElem_mem hi)) j hjx
        (by rw [length_lift]; exact hjx)
      simp only [ex]; exact this
    have e2 : subVal val ok (((liftL yss hy)[i]'(hlen' ▸ hi1))[j]) = val (yss[i]'hi2)[j] := by
      have := subVal_lift_getElem (val := val) (yss[i]'hi2) (hy _ (List.getElem_mem hi2)) j hjy
        (by rw [length_lift]; exact hjy)
      simp only [ey]; exact this
    rw [← e1, ← e2]; exact this

end Generic

-- ================================================================================ 64-bit field
section F64
open WinterProofs.F64Z

/-- `exp(x, 0)` is correct (C07), which is all the non-`concurrent` power series need from `exp` -/
theorem f64_exp0 (a : ℕ) (ha : F64Z.Inv a) :
    F64Z.Inv (Model.F64.impl.exp a 0) ∧ F64Z.val (Model.F64.impl.exp a 0) = F64Z.val a ^ 0 :=
  C07.F64.exp_correct a 0 ha (by decide)

/-- the record the driver runs for f64, restricted to invariant-satisfying raw words, is a field through
    `F64Z.val` and its inversion always returns — `Lawful` and `Total` with no hypothesis left -/
theorem f64_lawful : Lawful (subOpsP WinterProofs.C08.f64_implements) (subVal F64Z.val F64Z.Inv) :=
  lawful_subOpsP _
theorem f64_total : Total (subOpsP WinterProofs.C08.f64_implements) := total_subOpsP _
/-- … and it maps (by forgetting the invariant) to the driver's record `Drv.C20.opsOf Model.F64.impl` -/
theorem f64_hom : OpsHom (subOpsP WinterProofs.C08.f64_implements) (Drv.C20.opsOf Model.F64.impl) Subtype.val :=
  hom_subOpsP _ f64_exp0

theorem f64_eval (l : List ℕ) (x : ℕ) (hl : ∀ c ∈ l, F64Z.Inv c) (hx : F64Z.Inv x) :
    F64Z.Inv (eval (Drv.C20.opsOf Model.F64.impl) l x) ∧
      F64Z.val (eval (Drv.C20.opsOf Model.F64.impl) l x) = (toPoly F64Z.val l).eval (F64Z.val x) :=
  raw_eval WinterProofs.C08.f64_implements f64_exp0 l x hl hx

theorem f64_add (a b : List ℕ) (ha : ∀ c ∈ a, F64Z.Inv c) (hb : ∀ c ∈ b, F64Z.Inv c) :
    (∀ c ∈ add (Drv.C20.opsOf Model.F64.impl) a b, F64Z.Inv c) ∧
      (add (Drv.C20.opsOf Model.F64.impl) a b).length = max a.length b.length ∧
      toPoly F64Z.val (add (Drv.C20.opsOf Model.F64.impl) a b) = toPoly F64Z.val a + toPoly F64Z.val b :=
  raw_add WinterProofs.C08.f64_implements f64_exp0 a b ha hb

theorem f64_sub (a b : List ℕ) (ha : ∀ c ∈ a, F64Z.Inv c) (hb : ∀ c ∈ b, F64Z.Inv c) :
    (∀ c ∈ sub (Drv.C20.opsOf Model.F64.impl) a b, F64Z.Inv c) ∧
      (sub (Drv.C20.opsOf Model.F64.impl) a b).length = max a.length b.length ∧
      toPoly F64Z.val (sub (Drv.C20.opsOf Model.F64.impl) a b) = toPoly F64Z.val a - toPoly F64Z.val b :=
  raw_sub WinterProofs.C08.f64_implements f64_exp0 a b ha hb

theorem f64_mul_by_scalar (l : List ℕ) (k : ℕ) (hl : ∀ c ∈ l, F64Z.Inv c) (hk : F64Z.Inv k) :
    (∀ c ∈ mulByScalar (Drv.C20.opsOf Model.F64.impl) l k, F64Z.Inv c) ∧
      toPoly F64Z.val (mulByScalar (Drv.C20.opsOf Model.F64.impl) l k) = toPoly F64Z.val l * C (F64Z.val k) :=
  raw_mul_by_scalar WinterProofs.C08.f64_implements f64_exp0 l k hl hk

theorem f64_mul (a b : List ℕ) (ha : ∀ c ∈ a, F64Z.Inv c) (hb : ∀ c ∈ b, F64Z.Inv c) :
    ∃ r, mul (Drv.C20.opsOf Model.F64.impl) a b = .ok r ∧ (∀ c ∈ r, F64Z.Inv c) ∧
      r.length = a.length + b.length - 1 ∧ toPoly F64Z.val r = toPoly F64Z.val a * toPoly F64Z.val b :=
  raw_mul WinterProofs.C08.f64_implements f64_exp0 a b ha hb

theorem f64_degree_of (l : List ℕ) (hl : ∀ c ∈ l, F64Z.Inv c) :
    degreeOf (Drv.C20.opsOf Model.F64.impl) l = (toPoly F64Z.val l).natDegree :=
  raw_degree_of WinterProofs.C08.f64_implements f64_exp0 l hl

theorem f64_div (a b : List ℕ) (ha : ∀ c ∈ a, F64Z.Inv c) (hb : ∀ c ∈ b, F64Z.Inv c)
    (hdeg : degreeOf (Drv.C20.opsOf Model.F64.impl) b ≤ degreeOf (Drv.C20.opsOf Model.F64.impl) a)
    (hb0 : toPoly F64Z.val b ≠ 0) :
    ∃ q, Model.Poly.div (Drv.C20.opsOf Model.F64.impl) a b = .ok q ∧ (∀ c ∈ q, F64Z.Inv c) ∧
      q.length = degreeOf (Drv.C20.opsOf Model.F64.impl) a - degreeOf (Drv.C20.opsOf Model.F64.impl) b + 1 ∧
      ∃ r : (ZMod F64Z.P)[X], toPoly F64Z.val a = toPoly F64Z.val q * toPoly F64Z.val b + r ∧
        r.degree < (toPoly F64Z.val b).degree :=
  raw_div WinterProofs.C08.f64_implements f64_exp0 a b ha hb hdeg hb0

theorem f64_syn_div (l : List ℕ) (a : ℕ) (b : ℕ) (hl : ∀ c ∈ l, F64Z.Inv c) (hb : F64Z.Inv b)
    (ha : a ≠ 0) (hbz : F64Z.val b ≠ 0) (hp : a < l.length) :
    ∃ q, synDiv (Drv.C20.opsOf Model.F64.impl) l a b = .ok q ∧ (∀ c ∈ q, F64Z.Inv c) ∧ q.length = l.length ∧
      toPoly F64Z.val q = toPoly F64Z.val l /ₘ (X ^ a - C (F64Z.val b)) ∧
      ((X ^ a - C (F64Z.val b) : (ZMod F64Z.P)[X]) ∣ toPoly F64Z.val l →
        toPoly F64Z.val l = toPoly F64Z.val q * (X ^ a - C (F64Z.val b))) :=
  raw_syn_div WinterProofs.C08.f64_implements f64_exp0 l a b hl hb ha hbz hp

theorem f64_poly_from_roots (xs : List ℕ) (hx : ∀ c ∈ xs, F64Z.Inv c) :
    ∃ r, polyFromRoots (Drv.C20.opsOf Model.F64.impl) xs = .ok r ∧ (∀ c ∈ r, F64Z.Inv c) ∧
      r.length = xs.length + 1 ∧ toPoly F64Z.val r = rootsPoly (xs.map F64Z.val) :=
  raw_poly_from_roots WinterProofs.C08.f64_implements f64_exp0 xs hx

theorem f64_interpolate (xs ys : List ℕ) (rlz : Bool) (hx : ∀ c ∈ xs, F64Z.Inv c) (hy : ∀ c ∈ ys, F64Z.Inv c)
    (hlen : xs.length = ys.length) (hnd : (xs.map F64Z.val).Nodup) :
    ∃ r, interpolate (Drv.C20.opsOf Model.F64.impl) xs ys rlz = .ok r ∧ (∀ c ∈ r, F64Z.Inv c) ∧
      r.length ≤ xs.length ∧ (rlz = false → r.length = xs.length) ∧
      ∀ j (hj : j < xs.length), (toPoly F64Z.val r).eval (F64Z.val xs[j]) = F64Z.val (ys[j]'(hlen ▸ hj)) :=
  raw_interpolate WinterProofs.C08.f64_implements f64_exp0 xs ys rlz hx hy hlen hnd

theorem f64_batch_inversion (vals : List ℕ) (hv : ∀ c ∈ vals, F64Z.Inv c) :
    ∃ r, batchInversion (Drv.C20.opsOf Model.F64.impl) vals = .ok r ∧ (∀ c ∈ r, F64Z.Inv c) ∧
      r.length = vals.length ∧ r.map F64Z.val = vals.map fun x => inv0 (F64Z.val x) :=
  raw_batch_inversion WinterProofs.C08.f64_implements f64_exp0 vals hv

theorem f64_syn_div_roots (l roots : List ℕ) (hl : ∀ c ∈ l, F64Z.Inv c) (hr : ∀ c ∈ roots, F64Z.Inv c)
    (hne : roots ≠ []) (hp : roots.length < l.length) :
    ∃ q, synDivRoots (Drv.C20.opsOf Model.F64.impl) l roots = .ok q ∧ (∀ c ∈ q, F64Z.Inv c) ∧
      q.length = l.length ∧ toPoly F64Z.val q = toPoly F64Z.val l /ₘ rootsPoly (roots.map F64Z.val) :=
  raw_syn_div_roots WinterProofs.C08.f64_implements f64_exp0 l roots hl hr hne hp

theorem f64_add_in_place (a b : List ℕ) (ha : ∀ c ∈ a, F64Z.Inv c) (hb : ∀ c ∈ b, F64Z.Inv c)
    (h : a.length = b.length) :
    ∃ r, addInPlace (Drv.C20.opsOf Model.F64.impl) a b = .ok r ∧ (∀ c ∈ r, F64Z.Inv c) ∧
      r.length = a.length ∧ r.map F64Z.val = List.zipWith (· + ·) (a.map F64Z.val) (b.map F64Z.val) :=
  raw_add_in_place WinterProofs.C08.f64_implements f64_exp0 a b ha hb h

theorem f64_interpolate_batch (N : ℕ) (xss yss : List (List ℕ))
    (hx : ∀ b ∈ xss, ∀ c ∈ b, F64Z.Inv c) (hy : ∀ b ∈ yss, ∀ c ∈ b, F64Z.Inv c)
    (hlen : xss.length = yss.length) (hxN : ∀ b ∈ xss, b.length = N) (hyN : ∀ b ∈ yss, b.length = N) :
    ∃ polys, interpolateBatch (Drv.C20.opsOf Model.F64.impl) N xss yss = .ok polys ∧
      polys.length = xss.length ∧ (∀ q ∈ polys, q.length = N ∧ ∀ c ∈ q, F64Z.Inv c) ∧
      ∀ i (hi : i < xss.length) (hp : i < polys.length), (xss[i].map F64Z.val).Nodup →
        ∀ j (hjx : j < xss[i].length) (hjy : j < (yss[i]'(hlen ▸ hi)).length),
          (toPoly F64Z.val polys[i]).eval (F64Z.val xss[i][j]) = F64Z.val (yss[i]'(hlen ▸ hi))[j] :=
  raw_interpolate_batch WinterProofs.C08.f64_implements f64_exp0 N xss yss hx hy hlen hxN hyN

theorem f64_get_power_series (b : ℕ) (n : ℕ) (hb : F64Z.Inv b) :
    (∀ c ∈ getPowerSeries (Drv.C20.opsOf Model.F64.impl) b n, F64Z.Inv c) ∧
      (getPowerSeries (Drv.C20.opsOf Model.F64.impl) b n).map F64Z.val = (List.range n).map fun i => F64Z.val b ^ i :=
  raw_get_power_series WinterProofs.C08.f64_implements f64_exp0 b n hb

/-- non-vacuity: the raw words `BaseElement::new` produces satisfy the invariant hypotheses, and the driver's
    record runs on them -/
example : F64Z.Inv (Model.F64.impl.new 0) ∧ F64Z.Inv (Model.F64.impl.new 1) ∧ F64Z.Inv (Model.F64.impl.new 2) :=
  ⟨(C07.F64.new_correct 0 (by norm_num)).1, (C07.F64.new_correct 1 (by norm_num)).1,
    (C07.F64.new_correct 2 (by norm_num)).1⟩
example : ((mul (Drv.C20.opsOf Model.F64.impl) [Model.F64.impl.new 1, Model.F64.impl.new 1]
    [Model.F64.impl.new 2, Model.F64.impl.new 0, Model.F64.impl.new 1]).map
      (List.map Model.F64.impl.asInt)) = .ok [2, 2, 1, 1] := by decide +kernel

end F64

-- ================================================================================ 62-bit field
section F62
open WinterProofs.F62Z

/-- `exp(x, 0)` is correct (C07), which is all the non-`concurrent` power series need from `exp` -/
theorem f62_exp0 (a : ℕ) (ha : F62Z.Inv a) :
    F62Z.Inv (Model.F62.impl.exp a 0) ∧ F62Z.val (Model.F62.impl.exp a 0) = F62Z.val a ^ 0 :=
  C07.F62.exp_correct a 0 ha

/-- the record the driver runs for f62, restricted to invariant-satisfying raw words, is a field through
    `F62Z.val` and its inversion always returns — `Lawful` and `Total` with no hypothesis left -/
theorem f62_lawful : Lawful (subOpsP WinterProofs.C08.f62_implements) (subVal F62Z.val F62Z.Inv) :=
  lawful_subOpsP _
theorem f62_total : Total (subOpsP WinterProofs.C08.f62_implements) := total_subOpsP _
/-- … and it maps (by forgetting the invariant) to the driver's record `Drv.C20.opsOf Model.F62.impl` -/
theorem f62_hom : OpsHom (subOpsP WinterProofs.C08.f62_implements) (Drv.C20.opsOf Model.F62.impl) Subtype.val :=
  hom_subOpsP _ f62_exp0

theorem f62_eval (l : List ℕ) (x : ℕ) (hl : ∀ c ∈ l, F62Z.Inv c) (hx : F62Z.Inv x) :
    F62Z.Inv (eval (Drv.C20.opsOf Model.F62.impl) l x) ∧
      F62Z.val (eval (Drv.C20.opsOf Model.F62.impl) l x) = (toPoly F62Z.val l).eval (F62Z.val x) :=
  raw_eval WinterProofs.C08.f62_implements f62_exp0 l x hl hx

theorem f62_add (a b : List ℕ) (ha : ∀ c ∈ a, F62Z.Inv c) (hb : ∀ c ∈ b, F62Z.Inv c) :
    (∀ c ∈ add (Drv.C20.opsOf Model.F62.impl) a b, F62Z.Inv c) ∧
      (add (Drv.C20.opsOf Model.F62.impl) a b).length = max a.length b.length ∧
      toPoly F62Z.val (add (Drv.C20.opsOf Model.F62.impl) a b) = toPoly F62Z.val a + toPoly F62Z.val b :=
  raw_add WinterProofs.C08.f62_implements f62_exp0 a b ha hb

theorem f62_sub (a b : List ℕ) (ha : ∀ c ∈ a, F62Z.Inv c) (hb : ∀ c ∈ b, F62Z.Inv c) :
    (∀ c ∈ sub (Drv.C20.opsOf Model.F62.impl) a b, F62Z.Inv c) ∧
      (sub (Drv.C20.opsOf Model.F62.impl) a b).length = max a.length b.length ∧
      toPoly F62Z.val (sub (Drv.C20.opsOf Model.F62.impl) a b) = toPoly F62Z.val a - toPoly F62Z.val b :=
  raw_sub WinterProofs.C08.f62_implements f62_exp0 a b ha hb

theorem f62_mul_by_scalar (l : List ℕ) (k : ℕ) (hl : ∀ c ∈ l, F62Z.Inv c) (hk : F62Z.Inv k) :
    (∀ c ∈ mulByScalar (Drv.C20.opsOf Model.F62.impl) l k, F62Z.Inv c) ∧
      toPoly F62Z.val (mulByScalar (Drv.C20.opsOf Model.F62.impl) l k) = toPoly F62Z.val l * C (F62Z.val k) :=
  raw_mul_by_scalar WinterProofs.C08.f62_implements f62_exp0 l k hl hk

theorem f62_mul (a b : List ℕ) (ha : ∀ c ∈ a, F62Z.Inv c) (hb : ∀ c ∈ b, F62Z.Inv c) :
    ∃ r, mul (Drv.C20.opsOf Model.F62.impl) a b = .ok r ∧ (∀ c ∈ r, F62Z.Inv c) ∧
      r.length = a.length + b.length - 1 ∧ toPoly F62Z.val r = toPoly F62Z.val a * toPoly F62Z.val b :=
  raw_mul WinterProofs.C08.f62_implements f62_exp0 a b ha hb

theorem f62_degree_of (l : List ℕ) (hl : ∀ c ∈ l, F62Z.Inv c) :
    degreeOf (Drv.C20.opsOf Model.F62.impl) l = (toPoly F62Z.val l).natDegree :=
  raw_degree_of WinterProofs.C08.f62_implements f62_exp0 l hl

theorem f62_div (a b : List ℕ) (ha : ∀ c ∈ a, F62Z.Inv c) (hb : ∀ c ∈ b, F62Z.Inv c)
    (hdeg : degreeOf (Drv.C20.opsOf Model.F62.impl) b ≤ degreeOf (Drv.C20.opsOf Model.F62.impl) a)
    (hb0 : toPoly F62Z.val b ≠ 0) :
    ∃ q, Model.Poly.div (Drv.C20.opsOf Model.F62.impl) a b = .ok q ∧ (∀ c ∈ q, F62Z.Inv c) ∧
      q.length = degreeOf (Drv.C20.opsOf Model.F62.impl) a - degreeOf (Drv.C20.opsOf Model.F62.impl) b + 1 ∧
      ∃ r : (ZMod F62Z.P)[X], toPoly F62Z.val a = toPoly F62Z.val q * toPoly F62Z.val b + r ∧
        r.degree < (toPoly F62Z.val b).degree :=
  raw_div WinterProofs.C08.f62_implements f62_exp0 a b ha hb hdeg hb0

theorem f62_syn_div (l : List ℕ) (a : ℕ) (b : ℕ) (hl : ∀ c ∈ l, F62Z.Inv c) (hb : F62Z.Inv b)
    (ha : a ≠ 0) (hbz : F62Z.val b ≠ 0) (hp : a < l.length) :
    ∃ q, synDiv (Drv.C20.opsOf Model.F62.impl) l a b = .ok q ∧ (∀ c ∈ q, F62Z.Inv c) ∧ q.length = l.length ∧
      toPoly F62Z.val q = toPoly F62Z.val l /ₘ (X ^ a - C (F62Z.val b)) ∧
      ((X ^ a - C (F62Z.val b) : (ZMod F62Z.P)[X]) ∣ toPoly F62Z.val l →
        toPoly F62Z.val l = toPoly F62Z.val q * (X ^ a - C (F62Z.val b))) :=
  raw_syn_div WinterProofs.C08.f62_implements f62_exp0 l a b hl hb ha hbz hp

theorem f62_poly_from_roots (xs : List ℕ) (hx : ∀ c ∈ xs, F62Z.Inv c) :
    ∃ r, polyFromRoots (Drv.C20.opsOf Model.F62.impl) xs = .ok r ∧ (∀ c ∈ r, F62Z.Inv c) ∧
      r.length = xs.length + 1 ∧ toPoly F62Z.val r = rootsPoly (xs.map F62Z.val) :=
  raw_poly_from_roots WinterProofs.C08.f62_implements f62_exp0 xs hx

theorem f62_interpolate (xs ys : List ℕ) (rlz : Bool) (hx : ∀ c ∈ xs, F62Z.Inv c) (hy : ∀ c ∈ ys, F62Z.Inv c)
    (hlen : xs.length = ys.length) (hnd : (xs.map F62Z.val).Nodup) :
    ∃ r, interpolate (Drv.C20.opsOf Model.F62.impl) xs ys rlz = .ok r ∧ (∀ c ∈ r, F62Z.Inv c) ∧
      r.length ≤ xs.length ∧ (rlz = false → r.length = xs.length) ∧
      ∀ j (hj : j < xs.length), (toPoly F62Z.val r).eval (F62Z.val xs[j]) = F62Z.val (ys[j]'(hlen ▸ hj)) :=
  raw_interpolate WinterProofs.C08.f62_implements f62_exp0 xs ys rlz hx hy hlen hnd

theorem f62_batch_inversion (vals : List ℕ) (hv : ∀ c ∈ vals, F62Z.Inv c) :
    ∃ r, batchInversion (Drv.C20.opsOf Model.F62.impl) vals = .ok r ∧ (∀ c ∈ r, F62Z.Inv c) ∧
      r.length = vals.length ∧ r.map F62Z.val = vals.map fun x => inv0 (F62Z.val x) :=
  raw_batch_inversion WinterProofs.C08.f62_implements f62_exp0 vals hv

theorem f62_syn_div_roots (l roots : List ℕ) (hl : ∀ c ∈ l, F62Z.Inv c) (hr : ∀ c ∈ roots, F62Z.Inv c)
    (hne : roots ≠ []) (hp : roots.length < l.length) :
    ∃ q, synDivRoots (Drv.C20.opsOf Model.F62.impl) l roots = .ok q ∧ (∀ c ∈ q, F62Z.Inv c) ∧
      q.length = l.length ∧ toPoly F62Z.val q = toPoly F62Z.val l /ₘ rootsPoly (roots.map F62Z.val) :=
  raw_syn_div_roots WinterProofs.C08.f62_implements f62_exp0 l roots hl hr hne hp

theorem f62_add_in_place (a b : List ℕ) (ha : ∀ c ∈ a, F62Z.Inv c) (hb : ∀ c ∈ b, F62Z.Inv c)
    (h : a.length = b.length) :
    ∃ r, addInPlace (Drv.C20.opsOf Model.F62.impl) a b = .ok r ∧ (∀ c ∈ r, F62Z.Inv c) ∧
      r.length = a.length ∧ r.map F62Z.val = List.zipWith (· + ·) (a.map F62Z.val) (b.map F62Z.val) :=
  raw_add_in_place WinterProofs.C08.f62_implements f62_exp0 a b ha hb h

theorem f62_interpolate_batch (N : ℕ) (xss yss : List (List ℕ))
    (hx : ∀ b ∈ xss, ∀ c ∈ b, F62Z.Inv c) (hy : ∀ b ∈ yss, ∀ c ∈ b, F62Z.Inv c)
    (hlen : xss.length = yss.length) (hxN : ∀ b ∈ xss, b.length = N) (hyN : ∀ b ∈ yss, b.length = N) :
    ∃ polys, interpolateBatch (Drv.C20.opsOf Model.F62.impl) N xss yss = .ok polys ∧
      polys.length = xss.length ∧ (∀ q ∈ polys, q.length = N ∧ ∀ c ∈ q, F62Z.Inv c) ∧
      ∀ i (hi : i < xss.length) (hp : i < polys.length), (xss[i].map F62Z.val).Nodup →
        ∀ j (hjx : j < xss[i].length) (hjy : j < (yss[i]'(hlen ▸ hi)).length),
          (toPoly F62Z.val polys[i]).eval (F62Z.val xss[i][j]) = F62Z.val (yss[i]'(hlen ▸ hi))[j] :=
  raw_interpolate_batch WinterProofs.C08.f62_implements f62_exp0 N xss yss hx hy hlen hxN hyN

theorem f62_get_power_series (b : ℕ) (n : ℕ) (hb : F62Z.Inv b) :
    (∀ c ∈ getPowerSeries (Drv.C20.opsOf Model.F62.impl) b n, F62Z.Inv c) ∧
      (getPowerSeries (Drv.C20.opsOf Model.F62.impl) b n).map F62Z.val = (List.range n).map fun i => F62Z.val b ^ i :=
  raw_get_power_series WinterProofs.C08.f62_implements f62_exp0 b n hb

/-- non-vacuity: the raw words `BaseElement::new` produces satisfy the invariant hypotheses, and the driver's
    record runs on them -/
example : F62Z.Inv (Model.F62.impl.new 0) ∧ F62Z.Inv (Model.F62.impl.new 1) ∧ F62Z.Inv (Model.F62.impl.new 2) :=
  ⟨(C07.F62.new_correct 0 (by norm_num)).1, (C07.F62.new_correct 1 (by norm_num)).1,
    (C07.F62.new_correct 2 (by norm_num)).1⟩
example : ((mul (Drv.C20.opsOf Model.F62.impl) [Model.F62.impl.new 1, Model.F62.impl.new 1]
    [Model.F62.impl.new 2, Model.F62.impl.new 0, Model.F62.impl.new 1]).map
      (List.map Model.F62.impl.asInt)) = .ok [2, 2, 1, 1] := by decide +kernel

end F62

-- ================================================================================ 128-bit field
section F128
open WinterProofs.F128Z

/-- `exp(x, 0)` is correct (C07), which is all the non-`concurrent` power series need from `exp` -/
theorem f128_exp0 (a : ℕ) (ha : F128Z.Inv a) :
    F128Z.Inv (Model.F128.impl.exp a 0) ∧ F128Z.val (Model.F128.impl.exp a 0) = F128Z.val a ^ 0 :=
  C07.F128.exp_correct a 0 ha (by decide)

/-- the record the driver runs for f128, restricted to invariant-satisfying raw words, is a field through
    `F128Z.val` and its inversion always returns — `Lawful` and `Total` with no hypothesis left -/
theorem f128_lawful : Lawful (subOpsP WinterProofs.C08.f128_implements) (subVal F128Z.val F128Z.Inv) :=
  lawful_subOpsP _
theorem f128_total : Total (subOpsP WinterProofs.C08.f128_implements) := total_subOpsP _
/-- … and it maps (by forgetting the invariant) to the driver's record `Drv.C20.opsOf Model.F128.impl` -/
theorem f128_hom : OpsHom (subOpsP WinterProofs.C08.f128_implements) (Drv.C20.opsOf Model.F128.impl) Subtype.val :=
  hom_subOpsP _ f128_exp0

theorem f128_eval (l : List ℕ) (x : ℕ) (hl : ∀ c ∈ l, F128Z.Inv c) (hx : F128Z.Inv x) :
    F128Z.Inv (eval (Drv.C20.opsOf Model.F128.impl) l x) ∧
      F128Z.val (eval (Drv.C20.opsOf Model.F128.impl) l x) = (toPoly F128Z.val l).eval (F128Z.val x) :=
  raw_eval WinterProofs.C08.f128_implements f128_exp0 l x hl hx

theorem f128_add (a b : List ℕ) (ha : ∀ c ∈ a, F128Z.Inv c) (hb : ∀ c ∈ b, F128Z.Inv c) :
    (∀ c ∈ add (Drv.C20.opsOf Model.F128.impl) a b, F128Z.Inv c) ∧
      (add (Drv.C20.opsOf Model.F128.impl) a b).length = max a.length b.length ∧
      toPoly F128Z.val (add (Drv.C20.opsOf Model.F128.impl) a b) = toPoly F128Z.val a + toPoly F128Z.val b :=
  raw_add WinterProofs.C08.f128_implements f128_exp0 a b ha hb

theorem f128_sub (a b : List ℕ) (ha : ∀ c ∈ a, F128Z.Inv c) (hb : ∀ c ∈ b, F128Z.Inv c) :
    (∀ c ∈ sub (Drv.C20.opsOf Model.F128.impl) a b, F128Z.Inv c) ∧
      (sub (Drv.C20.opsOf Model.F128.impl) a b).length = max a.length b.length ∧
      toPoly F128Z.val (sub (Drv.C20.opsOf Model.F128.impl) a b) = toPoly F128Z.val a - toPoly F128Z.val b :=
  raw_sub WinterProofs.C08.f128_implements f128_exp0 a b ha hb

theorem f128_mul_by_scalar (l : List ℕ) (k : ℕ) (hl : ∀ c ∈ l, F128Z.Inv c) (hk : F128Z.Inv k) :
    (∀ c ∈ mulByScalar (Drv.C20.opsOf Model.F128.impl) l k, F128Z.Inv c) ∧
      toPoly F128Z.val (mulByScalar (Drv.C20.opsOf Model.F128.impl) l k) = toPoly F128Z.val l * C (F128Z.val k) :=
  raw_mul_by_scalar WinterProofs.C08.f128_implements f128_exp0 l k hl hk

theorem f128_mul (a b : List ℕ) (ha : ∀ c ∈ a, F128Z.Inv c) (hb : ∀ c ∈ b, F128Z.Inv c) :
    ∃ r, mul (Drv.C20.opsOf Model.F128.impl) a b = .ok r ∧ (∀ c ∈ r, F128Z.Inv c) ∧
      r.length = a.length + b.length - 1 ∧ toPoly F128Z.val r = toPoly F128Z.val a * toPoly F128Z.val b :=
  raw_mul WinterProofs.C08.f128_implements f128_exp0 a b ha hb

theorem f128_degree_of (l : List ℕ) (hl : ∀ c ∈ l, F128Z.Inv c) :
    degreeOf (Drv.C20.opsOf Model.F128.impl) l = (toPoly F128Z.val l).natDegree :=
  raw_degree_of WinterProofs.C08.f128_implements f128_exp0 l hl

theorem f128_div (a b : List ℕ) (ha : ∀ c ∈ a, F128Z.Inv c) (hb : ∀ c ∈ b, F128Z.Inv c)
    (hdeg : degreeOf (Drv.C20.opsOf Model.F128.impl) b ≤ degreeOf (Drv.C20.opsOf Model.F128.impl) a)
    (hb0 : toPoly F128Z.val b ≠ 0) :
    ∃ q, Model.Poly.div (Drv.C20.opsOf Model.F128.impl) a b = .ok q ∧ (∀ c ∈ q, F128Z.Inv c) ∧
      q.length = degreeOf (Drv.C20.opsOf Model.F128.impl) a - degreeOf (Drv.C20.opsOf Model.F128.impl) b + 1 ∧
      ∃ r : (ZMod F128Z.P)[X], toPoly F128Z.val a = toPoly F128Z.val q * toPoly F128Z.val b + r ∧
        r.degree < (toPoly F128Z.val b).degree :=
  raw_div WinterProofs.C08.f128_implements f128_exp0 a b ha hb hdeg hb0

theorem f128_syn_div (l : List ℕ) (a : ℕ) (b : ℕ) (hl : ∀ c ∈ l, F128Z.Inv c) (hb : F128Z.Inv b)
    (ha : a ≠ 0) (hbz : F128Z.val b ≠ 0) (hp : a < l.length) :
    ∃ q, synDiv (Drv.C20.opsOf Model.F128.impl) l a b = .ok q ∧ (∀ c ∈ q, F128Z.Inv c) ∧ q.length = l.length ∧
      toPoly F128Z.val q = toPoly F128Z.val l /ₘ (X ^ a - C (F128Z.val b)) ∧
      ((X ^ a - C (F128Z.val b) : (ZMod F128Z.P)[X]) ∣ toPoly F128Z.val l →
        toPoly F128Z.val l = toPoly F128Z.val q * (X ^ a - C (F128Z.val b))) :=
  raw_syn_div WinterProofs.C08.f128_implements f128_exp0 l a b hl hb ha hbz hp

theorem f128_poly_from_roots (xs : List ℕ) (hx : ∀ c ∈ xs, F128Z.Inv c) :
    ∃ r, polyFromRoots (Drv.C20.opsOf Model.F128.impl) xs = .ok r ∧ (∀ c ∈ r, F128Z.Inv c) ∧
      r.length = xs.length + 1 ∧ toPoly F128Z.val r = rootsPoly (xs.map F128Z.val) :=
  raw_poly_from_roots WinterProofs.C08.f128_implements f128_exp0 xs hx

theorem f128_interpolate (xs ys : List ℕ) (rlz : Bool) (hx : ∀ c ∈ xs, F128Z.Inv c) (hy : ∀ c ∈ ys, F128Z.Inv c)
    (hlen : xs.length = ys.length) (hnd : (xs.map F128Z.val).Nodup) :
    ∃ r, interpolate (Drv.C20.opsOf Model.F128.impl) xs ys rlz = .ok r ∧ (∀ c ∈ r, F128Z.Inv c) ∧
      r.length ≤ xs.length ∧ (rlz = false → r.length = xs.length) ∧
      ∀ j (hj : j < xs.length), (toPoly F128Z.val r).eval (F128Z.val xs[j]) = F128Z.val (ys[j]'(hlen ▸ hj)) :=
  raw_interpolate WinterProofs.C08.f128_implements f128_exp0 xs ys rlz hx hy hlen hnd

theorem f128_batch_inversion (vals : List ℕ) (hv : ∀ c ∈ vals, F128Z.Inv c) :
    ∃ r, batchInversion (Drv.C20.opsOf Model.F128.impl) vals = .ok r ∧ (∀ c ∈ r, F128Z.Inv c) ∧
      r.length = vals.length ∧ r.map F128Z.val = vals.map fun x => inv0 (F128Z.val x) :=
  raw_batch_inversion WinterProofs.C08.f128_implements f128_exp0 vals hv

theorem f128_syn_div_roots (l roots : List ℕ) (hl : ∀ c ∈ l, F128Z.Inv c) (hr : ∀ c ∈ roots, F128Z.Inv c)
    (hne : roots ≠ []) (hp : roots.length < l.length) :
    ∃ q, synDivRoots (Drv.C20.opsOf Model.F128.impl) l roots = .ok q ∧ (∀ c ∈ q, F128Z.Inv c) ∧
      q.length = l.length ∧ toPoly F128Z.val q = toPoly F128Z.val l /ₘ rootsPoly (roots.map F128Z.val) :=
  raw_syn_div_roots WinterProofs.C08.f128_implements f128_exp0 l roots hl hr hne hp

theorem f128_add_in_place (a b : List ℕ) (ha : ∀ c ∈ a, F128Z.Inv c) (hb : ∀ c ∈ b, F128Z.Inv c)
    (h : a.length = b.length) :
    ∃ r, addInPlace (Drv.C20.opsOf Model.F128.impl) a b = .ok r ∧ (∀ c ∈ r, F128Z.Inv c) ∧
      r.length = a.length ∧ r.map F128Z.val = List.zipWith (· + ·) (a.map F128Z.val) (b.map F128Z.val) :=
  raw_add_in_place WinterProofs.C08.f128_implements f128_exp0 a b ha hb h

theorem f128_interpolate_batch (N : ℕ) (xss yss : List (List ℕ))
    (hx : ∀ b ∈ xss, ∀ c ∈ b, F128Z.Inv c) (hy : ∀ b ∈ yss, ∀ c ∈ b, F128Z.Inv c)
    (hlen : xss.length = yss.length) (hxN : ∀ b ∈ xss, b.length = N) (hyN : ∀ b ∈ yss, b.length = N) :
    ∃ polys, interpolateBatch (Drv.C20.opsOf Model.F128.impl) N xss yss = .ok polys ∧
      polys.length = xss.length ∧ (∀ q ∈ polys, q.length = N ∧ ∀ c ∈ q, F128Z.Inv c) ∧
      ∀ i (hi : i < xss.length) (hp : i < polys.length), (xss[i].map F128Z.val).Nodup →
        ∀ j (hjx : j < xss[i].length) (hjy : j < (yss[i]'(hlen ▸ hi)).length),
          (toPoly F128Z.val polys[i]).eval (F128Z.val xss[i][j]) = F128Z.val (yss[i]'(hlen ▸ hi))[j] :=
  raw_interpolate_batch WinterProofs.C08.f128_implements f128_exp0 N xss yss hx hy hlen hxN hyN

theorem f128_get_power_series (b : ℕ) (n : ℕ) (hb : F128Z.Inv b) :
    (∀ c ∈ getPowerSeries (Drv.C20.opsOf Model.F128.impl) b n, F128Z.Inv c) ∧
      (getPowerSeries (Drv.C20.opsOf Model.F128.impl) b n).map F128Z.val = (List.range n).map fun i => F128Z.val b ^ i :=
  raw_get_power_series WinterProofs.C08.f128_implements f128_exp0 b n hb

/-- non-vacuity: the raw words `BaseElement::new` produces satisfy the invariant hypotheses, and the driver's
    record runs on them -/
example : F128Z.Inv (Model.F128.impl.new 0) ∧ F128Z.Inv (Model.F128.impl.new 1) ∧ F128Z.Inv (Model.F128.impl.new 2) :=
  ⟨(C07.F128.new_correct 0 (by norm_num)).1, (C07.F128.new_correct 1 (by norm_num)).1,
    (C07.F128.new_correct 2 (by norm_num)).1⟩
example : ((mul (Drv.C20.opsOf Model.F128.impl) [Model.F128.impl.new 1, Model.F128.impl.new 1]
    [Model.F128.impl.new 2, Model.F128.impl.new 0, Model.F128.impl.new 1]).map
      (List.map Model.F128.impl.asInt)) = .ok [2, 2, 1, 1] := by decide +kernel

end F128

end WinterProofs.C20
