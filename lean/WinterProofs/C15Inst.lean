-- C15, instantiated: the theorems of WinterProofs/C15.lean for the FRI model run with the RAW-WORD operations of the
-- three base fields (`Model.Fri.baseOps Model.F64.impl / F62.impl / F128.impl`: exactly what the driver executes and
-- the correspondence run compares with the Rust code), on words satisfying the representation invariant.
-- All algebraic hypotheses (field axioms, primitive roots of unity, their coherence `StepOK`, non-zero offset) are
-- discharged from property C07 (WinterProofs/C07*.lean) through the naturality lemmas of Lemmas/C15Hom.lean.
-- What remains are size conditions (folding factor 2^a, blowup 2^c ≥ 2, 2^s remainder coefficients, domain within
-- the two-adicity) and the invariant on input words.  The position and layout theorems of C15.lean
-- (`fold_positions_is_dedup_mod`, `transposed_row_layout`, `get_query_values_returns_value_at_position`, …) and the
-- layer-count theorems do not mention field operations at all: they hold verbatim for raw words (element type ℕ).
import WinterProofs.C15
import WinterProofs.Lemmas.C15Hom
import WinterProofs.Lemmas.C15Refines

set_option linter.unusedSectionVars false
set_option linter.unusedVariables false

namespace WinterProofs.C15
open Model.Fri WinterProofs.C15H Polynomial

theorem nextPow2_two_pow (j : Nat) : nextPow2 (2 ^ j) = 2 ^ j := by
  unfold nextPow2
  cases j with
  | zero => simp
  | succ i =>
    have hp := Nat.two_pow_pos i
    have h2 : 2 ^ (i + 1) = 2 * 2 ^ i := by rw [Nat.pow_succ, Nat.mul_comm]
    rw [if_neg (by omega)]
    congr 1
    have := (Nat.log2_eq_iff (n := 2 ^ (i + 1) - 1) (k := i) (by omega)).mpr ⟨by omega, by omega⟩
    omega

theorem mapR_eq_ok {β γ : Type} {f : β → γ} {r : Res β} {c : γ} (h : mapR f r = .ok c) :
    ∃ b, r = .ok b ∧ f b = c := by
  cases r with
  | ok b => exact ⟨b, rfl, by simpa [mapR] using h⟩
  | err e => simp [mapR] at h
  | panic s => simp [mapR] at h

section Generic
variable {O : FOps ℕ} {p : ℕ} [Fact p.Prime] {ok : ℕ → Prop} {val : ℕ → ZMod p} {T : ℕ}

/-- **(1) `StepOK` for raw words** (restated from Lemmas/C15Refines.lean) -/
theorem stepOK_raw (H : FRefines O p ok val T) {a k : ℕ} (ha : 1 ≤ a) (hak : a < k) (hk : k ≤ T) :
    StepOK (fun j => val (O.root j)) O.rootOk (2 ^ a) (2 ^ k) :=
  stepOK_of_refines H ha hak hk

/-- **(2a) the folding identity on raw words.**  `evals` are invariant-satisfying words whose residues are the
    evaluations of `f` over the coset `offset·<g>`, `g = get_root_of_unity(k)`; then `transpose_slice` and
    `apply_drp` succeed on the raw words, return invariant-satisfying words, and their residues are the evaluations
    of `Σ_j α^j f_j` over the folded coset. -/
theorem apply_drp_folding_identity_raw (H : FRefines O p ok val T) (hT : T < 64) {a k : ℕ} (ha : 1 ≤ a)
    (hak : a < k) (hk : k ≤ T) (f : (ZMod p)[X]) (α : ℕ) (hα : ok α) (evals : List ℕ) (hev : okL ok evals)
    (hval : evals.map val = evalsOf (val O.offset) (val (O.root k)) f (2 ^ k)) :
    ∃ rows out, transpose (2 ^ a) evals = some rows ∧ applyDrp O (2 ^ a) rows α = .ok out ∧ okL ok out ∧
      out.map val = (List.range (2 ^ (k - a))).map fun i =>
        (FriAlg.foldPoly (2 ^ a) f (val α)).eval ((val O.offset * val (O.root k) ^ i) ^ 2 ^ a) := by
  have hs := stepOK_of_refines H ha hak hk
  have e : 2 ^ (k - a) * 2 ^ a = 2 ^ k := by rw [← Nat.pow_add, Nat.sub_add_cancel (by omega)]
  have hlen : evals.length = 2 ^ (k - a) * 2 ^ a := by
    have := congrArg List.length hval
    rw [List.length_map, evalsOf_length] at this
    rw [this, e]
  obtain ⟨rows, hTr, _, _⟩ := transpose_some (2 ^ a) evals (2 ^ (k - a)) (Nat.two_pow_pos a) hlen
  have hTr' : transpose (2 ^ a) (evalsOf (val O.offset) (val (O.root k)) f (2 ^ k))
      = some (rows.map (List.map val)) := by
    rw [← hval, transpose_map, hTr]; rfl
  have hlog : Nat.log2 (2 ^ k) = k := Nat.log2_two_pow
  have hfold := applyDrp_fold (fun j => val (O.root j)) O.rootOk (val O.offset) (2 ^ a) (2 ^ (k - a))
    (Nat.two_pow_pos a) (Nat.two_pow_pos _) (by rw [e]; exact hs.ok) hs.okN (by rw [e]; exact hs.prim)
    (by
      have := hs.zeta
      rw [Nat.pow_div (by omega) (by decide)] at this
      rw [e]; exact this)
    H.offset.2 f (val α) (rows.map (List.map val)) (by rw [e, hlog]; exact hTr')
  rw [e, hlog] at hfold
  have hrows : okLL ok rows := fun r hr x hx => hev x (transpose_mem (2 ^ a) evals rows hTr r hr x hx)
  obtain ⟨hokR, hnat⟩ := applyDrp_nat H (2 ^ a) (Nat.pow_lt_pow_right (by decide) (by omega)) rows hrows α hα
  have hnat' : mapR (List.map val) (applyDrp O (2 ^ a) rows α) = .ok _ := hnat.symm.trans hfold
  obtain ⟨out, hout, hmap⟩ := mapR_eq_ok hnat'
  rw [hout] at hokR
  exact ⟨rows, out, hTr, hout, hokR, hmap⟩

/-- **(2b) the prover's row computation equals the verifier's row interpolation on raw words**: for a row of
    invariant-satisfying words the residues of both are equal (both are the value at `α` of the interpolant of
    degree `< N` through the row) -/
theorem prover_row_eq_verifier_row_raw (H : FRefines O p ok val T) {a : ℕ} (ha : 1 ≤ a) (haT : a ≤ T)
    (dg : ℕ) (hdg : ok dg) (i : ℕ) (hx : val dg ^ i * val O.offset ≠ 0) (row : List ℕ) (hrow : okL ok row)
    (hlen : row.length = 2 ^ a) (α : ℕ) (hα : ok α)
    (roots : List ℕ) (hroots : okL ok roots)
    (hrv : roots.map val = (List.range (2 ^ a)).map fun j => val (O.root a) ^ j)
    (w lenInv invX : ℕ) (hw : ok w) (hl : ok lenInv) (hix : ok invX)
    (hwv : val w = (val (O.root a))⁻¹) (hlv : val lenInv = ((2 ^ a : ℕ) : ZMod p)⁻¹)
    (hiv : val invX = (val dg ^ i * val O.offset)⁻¹) :
    val (lagrangeEval O (rowPoints O roots dg i) row α) = val (drpRow O w lenInv α row invX) := by
  have hprim : IsPrimitiveRoot (val (O.root a)) (2 ^ a) :=
    (H.root a ha haT).2 ▸ IsPrimitiveRoot.orderOf _
  obtain ⟨hrp, hrpv⟩ := rowPoints_nat H roots hroots dg hdg i
  rw [(lagrangeEval_nat H _ row hrp hrow α hα).2, hrpv, hrv,
    (drpRow_nat H w lenInv α invX row hw hl hα hix hrow).2, hwv, hlv, hiv]
  exact lagrangeEval_rowPoints_eq_drpRow (fun j => val (O.root j)) O.rootOk (val O.offset) (2 ^ a)
    (Nat.two_pow_pos a) (val (O.root a)) hprim (val dg) i hx (row.map val) (by simpa using hlen) (val α)

/-- **(2c) completeness on raw words.**  Folding factor `2^a`, blowup `2^c ≥ 2`, `2^s` remainder coefficients,
    `L` layers, domain `2^(s+c+a·L)` within the two-adicity.  For every polynomial `f` over `ZMod p` within the
    degree bound and raw evaluations `evals` (invariant-satisfying words whose residues are the evaluations of `f`
    over the coset), raw challenges and in-range query positions: the honest prover run on the raw words does not
    panic, is reset by `build_proof`, produces a remainder of `2^s` invariant-satisfying words, and the verifier run
    on the raw words accepts.  `hashRem'` is the hash seen on residues (`hh`: the hash depends on the residues only). -/
theorem fri_complete_raw (H : FRefines O p ok val T) (hT : T < 64) (o : Opts) (a c s L : ℕ)
    (hfold : o.folding = 2 ^ a) (hblow : o.blowup = 2 ^ c) (ha : 1 ≤ a) (hc : 1 ≤ c)
    (hk : s + c + a * L ≤ T)
    (hL : numFriLayers o (2 ^ s * 2 ^ c * (2 ^ a) ^ L) = L)
    (f : (ZMod p)[X]) (hf : f.natDegree < 2 ^ s * (2 ^ a) ^ L)
    (evals : List ℕ) (hev : okL ok evals)
    (hval : evals.map val = evalsOf (val O.offset) (val (O.root (s + c + a * L))) f (2 ^ s * 2 ^ c * (2 ^ a) ^ L))
    (αs : List ℕ) (hαs : αs.length = L + 1) (hαok : okL ok αs)
    (positions : List ℕ) (hpos : ∀ q ∈ positions, q < 2 ^ s * 2 ^ c * (2 ^ a) ^ L) (hne : positions ≠ [])
    {D : Type} [BEq D] [LawfulBEq D] (hashRem : List ℕ → D) (hashRem' : List (ZMod p) → D)
    (hh : ∀ l, okL ok l → hashRem' (l.map val) = hashRem l) (layerCommits : List D)
    (hlc : layerCommits.length = L) :
    ∃ st pls rem,
      Prover.buildLayers O o Prover.init αs evals = .ok st ∧
      st.buildProof o positions = .ok (Prover.init, pls, rem) ∧
      rem.length = 2 ^ s ∧ okL ok rem ∧
      verify O true hashRem o
        { maxPolyDegree := 2 ^ s * (2 ^ a) ^ L - 1
          numPartitions := 1
          commitments := layerCommits ++ [hashRem rem]
          alphas := αs
          layers := pls.map (fun pl => ⟨true, pl⟩)
          remainder := rem
          positions := positions
          evaluations := positions.map (evals.getD · 0) } = .ok () := by
  -- sizes as powers of two
  have en : ∀ j, 2 ^ s * 2 ^ c * (2 ^ a) ^ j = 2 ^ (s + c + a * j) := by
    intro j; rw [← Nat.pow_mul, ← Nat.pow_add, ← Nat.pow_add]
  have hsc : 2 ^ s * 2 ^ c = 2 ^ (s + c) := by rw [← Nat.pow_add]
  have hlogn : Nat.log2 (2 ^ s * 2 ^ c * (2 ^ a) ^ L) = s + c + a * L := by rw [en, Nat.log2_two_pow]
  have hnlt : 2 ^ s * 2 ^ c * (2 ^ a) ^ L < 2 ^ 64 := by
    rw [en]; exact Nat.pow_lt_pow_right (by decide) (by omega)
  have hevlen : evals.length = 2 ^ s * 2 ^ c * (2 ^ a) ^ L := by
    have := congrArg List.length hval
    rwa [List.length_map, evalsOf_length] at this
  -- the field-side theorem
  have hsteps : ∀ j, j < L → StepOK (fun j => val (O.root j)) O.rootOk o.folding
      (2 ^ s * o.blowup * o.folding ^ (L - j)) := by
    intro j hj
    rw [hfold, hblow, en]
    have haL : a ≤ a * (L - j) := Nat.le_mul_of_pos_right a (by omega)
    exact stepOK_of_refines H ha (by omega) (by
      have : a * (L - j) ≤ a * L := Nat.mul_le_mul_left a (by omega)
      omega)
  obtain ⟨hlok, hlprim⟩ := lastOK_of_refines H (k := s + c) (by omega) (by omega)
  have hcomp := fri_complete_partial (fun j => val (O.root j)) O.rootOk (val O.offset) o (2 ^ s) L
    (Nat.two_pow_pos s) (by rw [hblow]; exact Nat.two_pow_pos c)
    (by rw [hfold, ← Nat.pow_mul, ← Nat.pow_add]; exact nextPow2_two_pow _)
    (by rw [Nat.log2_two_pow])
    (by rw [hfold, hblow]; exact hL) hsteps
    (by rw [hblow, hsc]; exact hlok) (by rw [hblow, hsc]; exact hlprim)
    (by rw [hblow, hsc, Nat.log2_two_pow])
    H.offset.2 f (by rw [hfold]; exact hf) (αs.map val) (by simpa using hαs) positions
    (by rw [hfold, hblow]; exact hpos) hne hashRem' layerCommits hlc
  rw [hfold, hblow, hlogn] at hcomp
  obtain ⟨st', pls', rem', hb', hp', hrl', hv'⟩ := hcomp
  rw [← hval] at hb' hv'
  -- the raw prover
  obtain ⟨hokB, hnatB⟩ := buildLayers_nat H o Prover.init ⟨by simp [Prover.init], by simp [Prover.init, okL]⟩
    αs evals hαok hev (by rw [hevlen]; exact hnlt)
  have hinit : mapProver val (Prover.init : Prover ℕ) = Prover.init := rfl
  rw [hinit] at hnatB
  obtain ⟨st, hst, hstmap⟩ := mapR_eq_ok (hnatB.symm.trans hb')
  rw [hst] at hokB
  have hnatP := buildProof_map val o st positions
  rw [hstmap, hp'] at hnatP
  obtain ⟨⟨st2, pls, rem⟩, hbp, hbpmap⟩ := mapR_eq_ok hnatP.symm
  simp only [Prod.mk.injEq] at hbpmap
  obtain ⟨hst2, hplsmap, hremmap⟩ := hbpmap
  -- build_proof returns the reset state and the state's remainder
  have hst2' : st2 = Prover.init := build_proof_resets_prover o st st2 positions pls rem hbp
  have hremst : rem = st.remainder := by
    unfold Prover.buildProof at hbp
    simp only at hbp
    repeat' (split at hbp)
    all_goals first | (cases hbp; rfl) | (simp at hbp)
  have hremok : okL ok rem := by rw [hremst]; exact hokB.2
  have hplsok : ∀ pl ∈ pls, okLL ok pl := by
    intro pl hpl r hr
    -- every opened row is a row of one of the prover's layers
    have : ∀ (ls : List (Layer ℕ)) (P : List ℕ) (n : ℕ) (out : List (ProofLayer ℕ)),
        (∀ l ∈ ls, okLL ok l.rows) → queryLayers o.folding ls P n = .ok out → ∀ pl ∈ out, okLL ok pl := by
      intro ls
      induction ls with
      | nil =>
        intro P n out _ hq pl hpl
        simp only [queryLayers] at hq
        cases hq
        simp at hpl
      | cons l ls ih =>
        intro P n out hls hq pl hpl
        simp only [queryLayers] at hq
        split at hq
        · simp at hq
        · rename_i folded hfoldp
          split at hq
          · simp at hq
          · rename_i pl0 hq0
            split at hq
            · rename_i pls0 hrec
              cases hq
              rcases List.mem_cons.mp hpl with rfl | hmem
              · intro r hr
                unfold queryLayer at hq0
                obtain ⟨q, _, hqr⟩ := mapM_mem _ _ _ hq0 r hr
                exact hls l List.mem_cons_self r (List.mem_of_getElem? hqr)
              · exact ih folded (n / o.folding) pls0 (fun l' hl' => hls l' (List.mem_cons_of_mem _ hl')) hrec pl hmem
            · simp at hq
            · simp at hq
    unfold Prover.buildProof at hbp
    simp only at hbp
    split at hbp
    · simp at hbp
    · split at hbp
      · rename_i out hq
        split at hbp
        · simp at hbp
        · split at hbp
          · simp at hbp
          · cases hbp
            exact this _ _ _ _ hokB.1 hq pl hpl r hr
      · simp at hbp
      · simp at hbp
  refine ⟨st, pls, rem, hst, by rw [hbp, hst2'], ?_, hremok, ?_⟩
  · rw [← hrl', ← hremmap, List.length_map]
  · -- the raw verifier
    set inp : VInput ℕ D :=
      { maxPolyDegree := 2 ^ s * (2 ^ a) ^ L - 1
        numPartitions := 1
        commitments := layerCommits ++ [hashRem rem]
        alphas := αs
        layers := pls.map (fun pl => ⟨true, pl⟩)
        remainder := rem
        positions := positions
        evaluations := positions.map (evals.getD · 0) } with hinp
    have hokinp : okInp ok inp := by
      refine ⟨hαok, ?_, hremok, ?_⟩
      · intro op hop
        simp only [hinp, List.mem_map] at hop
        obtain ⟨pl, hpl, rfl⟩ := hop
        exact hplsok pl hpl
      · intro x hx
        simp only [hinp, List.mem_map] at hx
        obtain ⟨q, hq, rfl⟩ := hx
        have hq' : q < evals.length := by rw [hevlen]; exact hpos q hq
        rw [List.getD_eq_getElem?_getD, List.getElem?_eq_getElem hq']
        exact hev _ (List.getElem_mem hq')
    rw [← verify_nat H true hashRem hashRem' hh o inp hokinp (by
      show nextPow2 (2 ^ s * (2 ^ a) ^ L - 1 + 1) * o.blowup < 2 ^ 64
      have hpos' : 0 < 2 ^ s * (2 ^ a) ^ L := Nat.mul_pos (Nat.two_pow_pos s) (Nat.pow_pos (Nat.two_pow_pos a))
      rw [Nat.sub_add_cancel hpos', ← Nat.pow_mul, ← Nat.pow_add, nextPow2_two_pow, hblow, ← Nat.pow_add]
      exact Nat.pow_lt_pow_right (by decide) (by omega))]
    have hmapinp : mapInp val inp =
        { maxPolyDegree := 2 ^ s * (2 ^ a) ^ L - 1
          numPartitions := 1
          commitments := layerCommits ++ [hashRem' rem']
          alphas := αs.map val
          layers := pls'.map (fun pl => ⟨true, pl⟩)
          remainder := rem'
          positions := positions
          evaluations := positions.map ((evals.map val).getD · 0) } := by
      have e1 : layerCommits ++ [hashRem rem] = layerCommits ++ [hashRem' rem'] := by
        rw [← hremmap, hh rem hremok]
      have e2 : (pls.map (fun pl => (⟨true, pl⟩ : Opening ℕ))).map (mapOpening val)
          = pls'.map (fun pl => (⟨true, pl⟩ : Opening (ZMod p))) := by
        rw [← hplsmap, List.map_map, List.map_map]
        rfl
      have e3 : (positions.map (evals.getD · 0)).map val = positions.map ((evals.map val).getD · 0) := by
        rw [List.map_map]
        apply List.map_congr_left
        intro q hq
        have hq' : q < evals.length := by rw [hevlen]; exact hpos q hq
        simp [List.getD_eq_getElem?_getD, hq']
      simp only [mapInp, hinp]
      rw [e1, e2, e3, hremmap]
    rw [hmapinp]
    exact hv'

end Generic

/-! ## the three base fields -/

/-- the roots of unity of the 64-bit field on raw words satisfy the hypothesis `StepOK` of the FRI theorems
    for every folding factor `2^a` and domain `2^k`, `1 ≤ a < k ≤ 32` -/
theorem f64_stepOK {a k : ℕ} (ha : 1 ≤ a) (hak : a < k) (hk : k ≤ 32) :
    StepOK (fun j => F64Z.val ((baseOps Model.F64.impl).root j)) (baseOps Model.F64.impl).rootOk (2 ^ a) (2 ^ k) :=
  stepOK_of_refines f64_frefines ha hak hk

theorem f62_stepOK {a k : ℕ} (ha : 1 ≤ a) (hak : a < k) (hk : k ≤ 39) :
    StepOK (fun j => F62Z.val ((baseOps Model.F62.impl).root j)) (baseOps Model.F62.impl).rootOk (2 ^ a) (2 ^ k) :=
  stepOK_of_refines f62_frefines ha hak hk

theorem f128_stepOK {a k : ℕ} (ha : 1 ≤ a) (hak : a < k) (hk : k ≤ 40) :
    StepOK (fun j => F128Z.val ((baseOps Model.F128.impl).root j)) (baseOps Model.F128.impl).rootOk (2 ^ a) (2 ^ k) :=
  stepOK_of_refines f128_frefines ha hak hk

/-- folding identity, 64-bit field, raw Montgomery words (`F64Z.Inv r ↔ r < M`, `F64Z.val r = r·R⁻¹ mod p`) -/
theorem f64_apply_drp_folding_identity {a k : ℕ} (ha : 1 ≤ a) (hak : a < k) (hk : k ≤ 32)
    (f : (ZMod F64Z.P)[X]) (α : ℕ) (hα : F64Z.Inv α) (evals : List ℕ) (hev : okL F64Z.Inv evals)
    (hval : evals.map F64Z.val = evalsOf (F64Z.val (baseOps Model.F64.impl).offset)
      (F64Z.val ((baseOps Model.F64.impl).root k)) f (2 ^ k)) :
    ∃ rows out, transpose (2 ^ a) evals = some rows ∧
      applyDrp (baseOps Model.F64.impl) (2 ^ a) rows α = .ok out ∧ okL F64Z.Inv out ∧
      out.map F64Z.val = (List.range (2 ^ (k - a))).map fun i =>
        (FriAlg.foldPoly (2 ^ a) f (F64Z.val α)).eval
          ((F64Z.val (baseOps Model.F64.impl).offset * F64Z.val ((baseOps Model.F64.impl).root k) ^ i) ^ 2 ^ a) :=
  apply_drp_folding_identity_raw f64_frefines (by decide) ha hak hk f α hα evals hev hval

theorem f62_apply_drp_folding_identity {a k : ℕ} (ha : 1 ≤ a) (hak : a < k) (hk : k ≤ 39)
    (f : (ZMod F62Z.P)[X]) (α : ℕ) (hα : F62Z.Inv α) (evals : List ℕ) (hev : okL F62Z.Inv evals)
    (hval : evals.map F62Z.val = evalsOf (F62Z.val (baseOps Model.F62.impl).offset)
      (F62Z.val ((baseOps Model.F62.impl).root k)) f (2 ^ k)) :
    ∃ rows out, transpose (2 ^ a) evals = some rows ∧
      applyDrp (baseOps Model.F62.impl) (2 ^ a) rows α = .ok out ∧ okL F62Z.Inv out ∧
      out.map F62Z.val = (List.range (2 ^ (k - a))).map fun i =>
        (FriAlg.foldPoly (2 ^ a) f (F62Z.val α)).eval
          ((F62Z.val (baseOps Model.F62.impl).offset * F62Z.val ((baseOps Model.F62.impl).root k) ^ i) ^ 2 ^ a) :=
  apply_drp_folding_identity_raw f62_frefines (by decide) ha hak hk f α hα evals hev hval

theorem f128_apply_drp_folding_identity {a k : ℕ} (ha : 1 ≤ a) (hak : a < k) (hk : k ≤ 40)
    (f : (ZMod F128Z.P)[X]) (α : ℕ) (hα : F128Z.Inv α) (evals : List ℕ) (hev : okL F128Z.Inv evals)
    (hval : evals.map F128Z.val = evalsOf (F128Z.val (baseOps Model.F128.impl).offset)
      (F128Z.val ((baseOps Model.F128.impl).root k)) f (2 ^ k)) :
    ∃ rows out, transpose (2 ^ a) evals = some rows ∧
      applyDrp (baseOps Model.F128.impl) (2 ^ a) rows α = .ok out ∧ okL F128Z.Inv out ∧
      out.map F128Z.val = (List.range (2 ^ (k - a))).map fun i =>
        (FriAlg.foldPoly (2 ^ a) f (F128Z.val α)).eval
          ((F128Z.val (baseOps Model.F128.impl).offset * F128Z.val ((baseOps Model.F128.impl).root k) ^ i) ^ 2 ^ a) :=
  apply_drp_folding_identity_raw f128_frefines (by decide) ha hak hk f α hα evals hev hval

/-- completeness, 64-bit field, raw words: no algebraic hypothesis left -/
theorem f64_fri_complete (o : Opts) (a c s L : ℕ) (hfold : o.folding = 2 ^ a) (hblow : o.blowup = 2 ^ c)
    (ha : 1 ≤ a) (hc : 1 ≤ c) (hk : s + c + a * L ≤ 32)
    (hL : numFriLayers o (2 ^ s * 2 ^ c * (2 ^ a) ^ L) = L)
    (f : (ZMod F64Z.P)[X]) (hf : f.natDegree < 2 ^ s * (2 ^ a) ^ L)
    (evals : List ℕ) (hev : okL F64Z.Inv evals)
    (hval : evals.map F64Z.val = evalsOf (F64Z.val (baseOps Model.F64.impl).offset)
      (F64Z.val ((baseOps Model.F64.impl).root (s + c + a * L))) f (2 ^ s * 2 ^ c * (2 ^ a) ^ L))
    (αs : List ℕ) (hαs : αs.length = L + 1) (hαok : okL F64Z.Inv αs)
    (positions : List ℕ) (hpos : ∀ q ∈ positions, q < 2 ^ s * 2 ^ c * (2 ^ a) ^ L) (hne : positions ≠ [])
    {D : Type} [BEq D] [LawfulBEq D] (hashRem : List ℕ → D) (hashRem' : List (ZMod F64Z.P) → D)
    (hh : ∀ l, okL F64Z.Inv l → hashRem' (l.map F64Z.val) = hashRem l) (layerCommits : List D)
    (hlc : layerCommits.length = L) :
    ∃ st pls rem,
      Prover.buildLayers (baseOps Model.F64.impl) o Prover.init αs evals = .ok st ∧
      st.buildProof o positions = .ok (Prover.init, pls, rem) ∧ rem.length = 2 ^ s ∧ okL F64Z.Inv rem ∧
      verify (baseOps Model.F64.impl) true hashRem o
        { maxPolyDegree := 2 ^ s * (2 ^ a) ^ L - 1, numPartitions := 1,
          commitments := layerCommits ++ [hashRem rem], alphas := αs,
          layers := pls.map (fun pl => ⟨true, pl⟩), remainder := rem, positions := positions,
          evaluations := positions.map (evals.getD · 0) } = .ok () :=
  fri_complete_raw f64_frefines (by decide) o a c s L hfold hblow ha hc hk hL f hf evals hev hval αs hαs hαok
    positions hpos hne hashRem hashRem' hh layerCommits hlc

theorem f62_fri_complete (o : Opts) (a c s L : ℕ) (hfold : o.folding = 2 ^ a) (hblow : o.blowup = 2 ^ c)
    (ha : 1 ≤ a) (hc : 1 ≤ c) (hk : s + c + a * L ≤ 39)
    (hL : numFriLayers o (2 ^ s * 2 ^ c * (2 ^ a) ^ L) = L)
    (f : (ZMod F62Z.P)[X]) (hf : f.natDegree < 2 ^ s * (2 ^ a) ^ L)
    (evals : List ℕ) (hev : okL F62Z.Inv evals)
    (hval : evals.map F62Z.val = evalsOf (F62Z.val (baseOps Model.F62.impl).offset)
      (F62Z.val ((baseOps Model.F62.impl).root (s + c + a * L))) f (2 ^ s * 2 ^ c * (2 ^ a) ^ L))
    (αs : List ℕ) (hαs : αs.length = L + 1) (hαok : okL F62Z.Inv αs)
    (positions : List ℕ) (hpos : ∀ q ∈ positions, q < 2 ^ s * 2 ^ c * (2 ^ a) ^ L) (hne : positions ≠ [])
    {D : Type} [BEq D] [LawfulBEq D] (hashRem : List ℕ → D) (hashRem' : List (ZMod F62Z.P) → D)
    (hh : ∀ l, okL F62Z.Inv l → hashRem' (l.map F62Z.val) = hashRem l) (layerCommits : List D)
    (hlc : layerCommits.length = L) :
    ∃ st pls rem,
      Prover.buildLayers (baseOps Model.F62.impl) o Prover.init αs evals = .ok st ∧
      st.buildProof o positions = .ok (Prover.init, pls, rem) ∧ rem.length = 2 ^ s ∧ okL F62Z.Inv rem ∧
      verify (baseOps Model.F62.impl) true hashRem o
        { maxPolyDegree := 2 ^ s * (2 ^ a) ^ L - 1, numPartitions := 1,
          commitments := layerCommits ++ [hashRem rem], alphas := αs,
          layers := pls.map (fun pl => ⟨true, pl⟩), remainder := rem, positions := positions,
          evaluations := positions.map (evals.getD · 0) } = .ok () :=
  fri_complete_raw f62_frefines (by decide) o a c s L hfold hblow ha hc hk hL f hf evals hev hval αs hαs hαok
    positions hpos hne hashRem hashRem' hh layerCommits hlc

theorem f128_fri_complete (o : Opts) (a c s L : ℕ) (hfold : o.folding = 2 ^ a) (hblow : o.blowup = 2 ^ c)
    (ha : 1 ≤ a) (hc : 1 ≤ c) (hk : s + c + a * L ≤ 40)
    (hL : numFriLayers o (2 ^ s * 2 ^ c * (2 ^ a) ^ L) = L)
    (f : (ZMod F128Z.P)[X]) (hf : f.natDegree < 2 ^ s * (2 ^ a) ^ L)
    (evals : List ℕ) (hev : okL F128Z.Inv evals)
    (hval : evals.map F128Z.val = evalsOf (F128Z.val (baseOps Model.F128.impl).offset)
      (F128Z.val ((baseOps Model.F128.impl).root (s + c + a * L))) f (2 ^ s * 2 ^ c * (2 ^ a) ^ L))
    (αs : List ℕ) (hαs : αs.length = L + 1) (hαok : okL F128Z.Inv αs)
    (positions : List ℕ) (hpos : ∀ q ∈ positions, q < 2 ^ s * 2 ^ c * (2 ^ a) ^ L) (hne : positions ≠ [])
    {D : Type} [BEq D] [LawfulBEq D] (hashRem : List ℕ → D) (hashRem' : List (ZMod F128Z.P) → D)
    (hh : ∀ l, okL F128Z.Inv l → hashRem' (l.map F128Z.val) = hashRem l) (layerCommits : List D)
    (hlc : layerCommits.length = L) :
    ∃ st pls rem,
      Prover.buildLayers (baseOps Model.F128.impl) o Prover.init αs evals = .ok st ∧
      st.buildProof o positions = .ok (Prover.init, pls, rem) ∧ rem.length = 2 ^ s ∧ okL F128Z.Inv rem ∧
      verify (baseOps Model.F128.impl) true hashRem o
        { maxPolyDegree := 2 ^ s * (2 ^ a) ^ L - 1, numPartitions := 1,
          commitments := layerCommits ++ [hashRem rem], alphas := αs,
          layers := pls.map (fun pl => ⟨true, pl⟩), remainder := rem, positions := positions,
          evaluations := positions.map (evals.getD · 0) } = .ok () :=
  fri_complete_raw f128_frefines (by decide) o a c s L hfold hblow ha hc hk hL f hf evals hev hval αs hαs hαok
    positions hpos hne hashRem hashRem' hh layerCommits hlc

/-! ### the hypotheses on the raw evaluations are satisfiable for every polynomial -/

/-- every list of residues is the image of a list of invariant-satisfying words (`BaseElement::new` of the
    canonical representatives) -/
theorem f64_raw_words_exist (zs : List (ZMod F64Z.P)) : ∃ l, okL F64Z.Inv l ∧ l.map F64Z.val = zs := by
  refine ⟨zs.map fun z => Gen.F64.new z.val, ?_, ?_⟩
  · intro x hx
    obtain ⟨z, _, rfl⟩ := List.mem_map.mp hx
    exact (C07.F64.new_correct z.val (lt_trans (ZMod.val_lt z) (by decide))).1
  · rw [List.map_map]
    conv_rhs => rw [← List.map_id zs]
    apply List.map_congr_left
    intro z _
    simp only [Function.comp, id]
    rw [(C07.F64.new_correct z.val (lt_trans (ZMod.val_lt z) (by decide))).2, ZMod.natCast_zmod_val]

theorem f62_raw_words_exist (zs : List (ZMod F62Z.P)) : ∃ l, okL F62Z.Inv l ∧ l.map F62Z.val = zs := by
  refine ⟨zs.map fun z => Gen.F62.new z.val, ?_, ?_⟩
  · intro x hx
    obtain ⟨z, _, rfl⟩ := List.mem_map.mp hx
    exact (C07.F62.new_correct z.val (lt_trans (ZMod.val_lt z) (by decide))).1
  · rw [List.map_map]
    conv_rhs => rw [← List.map_id zs]
    apply List.map_congr_left
    intro z _
    simp only [Function.comp, id]
    rw [(C07.F62.new_correct z.val (lt_trans (ZMod.val_lt z) (by decide))).2.1, ZMod.natCast_zmod_val]

theorem f128_raw_words_exist (zs : List (ZMod F128Z.P)) : ∃ l, okL F128Z.Inv l ∧ l.map F128Z.val = zs := by
  refine ⟨zs.map fun z => Gen.F128.new z.val, ?_, ?_⟩
  · intro x hx
    obtain ⟨z, _, rfl⟩ := List.mem_map.mp hx
    exact (C07.F128.new_correct z.val (lt_trans (ZMod.val_lt z) (by decide))).1
  · rw [List.map_map]
    conv_rhs => rw [← List.map_id zs]
    apply List.map_congr_left
    intro z _
    simp only [Function.comp, id]
    rw [(C07.F128.new_correct z.val (lt_trans (ZMod.val_lt z) (by decide))).2.1, ZMod.natCast_zmod_val]

/-- a concrete configuration satisfying the size hypotheses of `f64_fri_complete` (folding 2, blowup 2, two
    remainder coefficients, one layer, domain 8): for every polynomial of degree `< 4` there are raw evaluations,
    and the honest prover's proof on them is accepted by the verifier run on raw words -/
example (f : (ZMod F64Z.P)[X]) (hf : f.natDegree < 2 ^ 1 * (2 ^ 1) ^ 1) (α0 α1 : ℕ) (h0 : F64Z.Inv α0)
    (h1 : F64Z.Inv α1) :
    ∃ evals st pls rem, okL F64Z.Inv evals ∧
      Prover.buildLayers (baseOps Model.F64.impl) ⟨2, 2, 1, Or.inl rfl⟩ Prover.init [α0, α1] evals = .ok st ∧
      st.buildProof ⟨2, 2, 1, Or.inl rfl⟩ [1, 5, 1, 6] = .ok (Prover.init, pls, rem) ∧ rem.length = 2 ^ 1 ∧
      verify (baseOps Model.F64.impl) true (fun l => l.map F64Z.val) ⟨2, 2, 1, Or.inl rfl⟩
        { maxPolyDegree := 2 ^ 1 * (2 ^ 1) ^ 1 - 1, numPartitions := 1,
          commitments := [[]] ++ [rem.map F64Z.val], alphas := [α0, α1],
          layers := pls.map (fun pl => ⟨true, pl⟩), remainder := rem, positions := [1, 5, 1, 6],
          evaluations := [1, 5, 1, 6].map (evals.getD · 0) } = .ok () := by
  obtain ⟨evals, hev, hval⟩ := f64_raw_words_exist
    (evalsOf (F64Z.val (baseOps Model.F64.impl).offset)
      (F64Z.val ((baseOps Model.F64.impl).root (1 + 1 + 1 * 1))) f (2 ^ 1 * 2 ^ 1 * (2 ^ 1) ^ 1))
  obtain ⟨st, pls, rem, hb, hp, hl, _, hv⟩ := f64_fri_complete ⟨2, 2, 1, Or.inl rfl⟩ 1 1 1 1 rfl rfl
    (by decide) (by decide) (by decide) (by decide +kernel) f hf evals hev hval [α0, α1] rfl
    (by intro x hx; simp at hx; rcases hx with rfl | rfl <;> assumption)
    [1, 5, 1, 6] (by decide) (by decide) (D := List (ZMod F64Z.P)) (fun l => l.map F64Z.val) id
    (fun l _ => rfl) [[]] rfl
  exact ⟨evals, st, pls, rem, hev, hb, hp, hl, hv⟩

end WinterProofs.C15
