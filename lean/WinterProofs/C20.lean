-- C20: polynomial arithmetic and batch utilities satisfy their algebraic identities (property theorems).
--
-- All theorems are about the definitions of Winter/Model/Poly.lean — the same definitions the driver
-- `drv_c20` executes with raw-word field operations — for an arbitrary record of operations `O : Ops α`
-- that computes in a Mathlib field `F` through a valuation `v : α → F` (`Lawful O v`; the instance
-- `Ops.ofField F` with `v = id` is `lawful_ofField`).  `toPoly v l : F[X]` is the polynomial denoted by
-- a coefficient list; identities are stated in `F[X]` (they imply the evaluation identities at every
-- point, also over finite fields where equality of values does not imply equality of polynomials).
-- `Total O` = every field inversion returns (no `hang`); it is only assumed where the code inverts.
import WinterProofs.Lemmas.C20Batch
import WinterProofs.Lemmas.C20Gen
import WinterProofs.Lemmas.C20GenRlz
import WinterProofs.Lemmas.C20GenFps
import WinterProofs.Lemmas.C20GenWrap
import WinterProofs.Lemmas.C20GenFzr
import WinterProofs.Lemmas.C20Div
import Mathlib.Algebra.Field.Rat

namespace WinterProofs.C20
open Model.Poly Polynomial

variable {α β F : Type} [Field F] {O : Ops α} {v : α → F}

/-- the operations of ℚ, used by the `example`s to exhibit concrete instances -/
abbrev OQ : Ops ℚ := Ops.ofField ℚ

example : Lawful OQ (id : ℚ → ℚ) := lawful_ofField
example : Total OQ := total_ofField

-- ================================================================================ evaluation

/-- `eval` is evaluation of the denoted polynomial (Horner) -/
theorem eval_eq (L : Lawful O v) (p : List α) (x : α) :
    v (eval O p x) = (toPoly v p).eval (v x) := v_eval L p x

/-- `eval` with coefficients from a sub-field embedded by `cast` (`E::from(coeff)`) -/
theorem evalWith_eq (L : Lawful O v) (cast : β → α) (w : β → F) (hc : ∀ c, v (cast c) = w c)
    (p : List β) (x : α) : v (evalWith O cast p x) = (toPoly w p).eval (v x) :=
  v_evalWith L cast w hc p x

theorem eval_many_eq (p xs : List α) : evalMany O p xs = xs.map (eval O p) := rfl

example : eval OQ [1, 2, 3] 4 = 57 := by decide +kernel

-- ================================================================================ add / sub / scalar / mul

/-- `add`: length `max`, denotes the sum; hence `eval (add a b) x = eval a x + eval b x` -/
theorem add_spec (L : Lawful O v) (a b : List α) :
    (add O a b).length = max a.length b.length ∧ toPoly v (add O a b) = toPoly v a + toPoly v b :=
  ⟨length_add a b, toPoly_add L a b⟩

theorem eval_add (L : Lawful O v) (a b : List α) (x : α) :
    v (eval O (add O a b) x) = v (eval O a x) + v (eval O b x) := by
  simp [v_eval L, toPoly_add L]

theorem sub_spec (L : Lawful O v) (a b : List α) :
    (sub O a b).length = max a.length b.length ∧ toPoly v (sub O a b) = toPoly v a - toPoly v b :=
  ⟨length_sub a b, toPoly_sub L a b⟩

theorem eval_sub (L : Lawful O v) (a b : List α) (x : α) :
    v (eval O (sub O a b) x) = v (eval O a x) - v (eval O b x) := by
  simp [v_eval L, toPoly_sub L]

theorem mul_by_scalar_spec (L : Lawful O v) (p : List α) (k : α) :
    (mulByScalar O p k).length = p.length ∧ toPoly v (mulByScalar O p k) = toPoly v p * C (v k) :=
  ⟨by simp [mulByScalar], toPoly_mulByScalar L p k⟩

theorem eval_mul_by_scalar (L : Lawful O v) (p : List α) (k x : α) :
    v (eval O (mulByScalar O p k) x) = v (eval O p x) * v k := by
  simp [v_eval L, toPoly_mulByScalar L]

/-- `mul` (as repaired by fix 56f5e3a) never panics, returns `a.len() + b.len() - 1` (saturating)
    coefficients, and the result denotes the product — for all operands, empty ones included -/
theorem mul_correct (L : Lawful O v) (a b : List α) :
    ∃ r, mul O a b = .ok r ∧ r.length = a.length + b.length - 1 ∧
      toPoly v r = toPoly v a * toPoly v b := mul_spec L a b

theorem eval_mul (L : Lawful O v) (a b : List α) (x : α) :
    ∃ r, mul O a b = .ok r ∧ v (eval O r x) = v (eval O a x) * v (eval O b x) := by
  obtain ⟨r, e, _, p⟩ := mul_spec L a b
  exact ⟨r, e, by simp [v_eval L, p]⟩

example : mul OQ [1, 1] [2, 0, 1] = .ok [2, 2, 1, 1] := by decide +kernel
/-- the degenerate operands on which the pinned tree panicked -/
example : mul OQ [] [] = .ok [] ∧ mul OQ [] [1, 2, 3] = .ok [0, 0] := by decide +kernel

-- ================================================================================ degree_of / remove_leading_zeros

/-- `degree_of` is the `natDegree` of the denoted polynomial; in particular it is `0` for the zero
    polynomial (empty or all-zero slice) as well as for non-zero constants -/
theorem degree_of_spec (L : Lawful O v) (p : List α) :
    degreeOf O p = (toPoly v p).natDegree := degreeOf_eq_natDegree L p

/-- `remove_leading_zeros`: a prefix of the input denoting the same polynomial, empty for the zero
    polynomial and with exactly `natDegree + 1` coefficients otherwise -/
theorem remove_leading_zeros_spec (L : Lawful O v) (p : List α) :
    removeLeadingZeros O p <+: p ∧
    toPoly v (removeLeadingZeros O p) = toPoly v p ∧
    (toPoly v p = 0 → removeLeadingZeros O p = []) ∧
    (toPoly v p ≠ 0 → (removeLeadingZeros O p).length = (toPoly v p).natDegree + 1) :=
  ⟨removeLeadingZeros_prefix p, toPoly_removeLeadingZeros L p, (length_removeLeadingZeros L p).1,
    (length_removeLeadingZeros L p).2⟩

example : degreeOf OQ [] = 0 ∧ degreeOf OQ [0, 0] = 0 ∧ degreeOf OQ [1, 2, 0] = 1 ∧
    removeLeadingZeros OQ [1, 2, 0, 0] = [1, 2] ∧ removeLeadingZeros OQ [0, 0] = [] := by decide +kernel

-- ================================================================================ long division

/-- `div(a, b)` (as repaired by fix cc9bed5 for the empty dividend) under exactly the guards the code
    asserts — `degree_of(b) ≤ degree_of(a)` and `b` not the zero polynomial (empty, or all-zero) —
    and with returning field inversions: no panic, the quotient has `deg a − deg b + 1` coefficients
    and `a = q·b + r` with `deg r < deg b` -/
theorem div_correct (L : Lawful O v) (hT : Total O) (a b : List α)
    (hdeg : degreeOf O b ≤ degreeOf O a) (hb : toPoly v b ≠ 0) :
    ∃ q, div O a b = .ok q ∧ q.length = degreeOf O a - degreeOf O b + 1 ∧
      ∃ r : F[X], toPoly v a = toPoly v q * toPoly v b + r ∧ r.degree < (toPoly v b).degree :=
  div_spec L hT a b hdeg hb

/-- `div` panics exactly when one of the asserted guards fails -/
theorem div_panics_iff (L : Lawful O v) (hT : Total O) (a b : List α) :
    (∃ s, div O a b = .panic s) ↔ (degreeOf O a < degreeOf O b ∨ toPoly v b = 0) :=
  div_panic_iff L hT a b

example : degreeOf OQ [2, 0, 1] ≤ degreeOf OQ [2, 2, 1, 1] := by decide +kernel
example : toPoly (id : ℚ → ℚ) [2, 0, 1] ≠ 0 := by
  intro h
  have := congrArg (fun p => p.coeff 0) h
  simp [toPoly] at this
example : div OQ [2, 2, 1, 1] [2, 0, 1] = .ok [1, 1] ∧ div OQ [1, 0, 0, 1, 0] [1, 1, 0] = .ok [1, -1, 1] := by
  decide +kernel
/-- the empty dividend (on which the pinned tree indexed out of bounds) and the documented panics -/
example : div OQ [] [3] = .ok [0] ∧ (div OQ [1] []).isPanic ∧ (div OQ [1] [0]).isPanic ∧
    (div OQ [1] [0, 1]).isPanic ∧ (div OQ [] []).isPanic := by decide +kernel

-- ================================================================================ synthetic division

/-- `syn_div(p, a, b)` under exactly the documented preconditions (`a ≠ 0`, `b ≠ 0`, `a < p.len()`):
    no panic, `p.len()` coefficients, `p = q·(x^a − b) + rem` with `rem` (what the code discards) of
    fewer than `a` coefficients, and the top `a` coefficients of `q` vanish -/
theorem syn_div_spec (L : Lawful O v) (p : List α) (a : Nat) (b : α)
    (ha : a ≠ 0) (hb : O.isZero b = false) (hp : a < p.length) :
    ∃ q rem, synDiv O p a b = .ok q ∧ q.length = p.length ∧ rem.length = a ∧
      toPoly v p = toPoly v q * (X ^ a - C (v b)) + toPoly v rem ∧
      (toPoly v q).degree < (p.length - a : Nat) := synDiv_spec L p a b ha hb hp

example : (1 : Nat) ≠ 0 ∧ OQ.isZero (-1) = false ∧ 1 < [(2 : ℚ), 2, 1, 1].length := by decide +kernel
example : synDiv OQ [2, 2, 1, 1] 1 (-1) = .ok [2, 0, 1, 0] := by decide +kernel
/-- `b = 1` and `a ≥ 2`: (x^5 + 2x^3 + x^2 - 1) = (x^3 + 3x + 1)(x^2 - 1) + (3x) -/
example : synDiv OQ [-1, 0, 1, 2, 0, 1] 2 1 = .ok [1, 3, 0, 1, 0, 0] := by decide +kernel

/-- the result is the quotient of Mathlib's division by the monic `X^a - b` -/
theorem syn_div_eq_divByMonic (L : Lawful O v) (p : List α) (a : Nat) (b : α)
    (ha : a ≠ 0) (hb : O.isZero b = false) (hp : a < p.length) :
    ∃ q, synDiv O p a b = .ok q ∧ toPoly v q = toPoly v p /ₘ (X ^ a - C (v b)) :=
  synDiv_eq_divByMonic L p a b ha hb hp

/-- exactness: if `x^a − b` divides `p`, nothing is lost -/
theorem syn_div_exact (L : Lawful O v) (p : List α) (a : Nat) (b : α)
    (ha : a ≠ 0) (hb : O.isZero b = false) (hp : a < p.length)
    (hdvd : (X ^ a - C (v b) : F[X]) ∣ toPoly v p) :
    ∃ q, synDiv O p a b = .ok q ∧ toPoly v p = toPoly v q * (X ^ a - C (v b)) :=
  synDiv_exact L p a b ha hb hp hdvd

/-- x + 1 divides x^3 + x^2 + 2x + 2 = (x^2 + 2)(x + 1) -/
example : (X ^ 1 - C (id (-1 : ℚ)) : ℚ[X]) ∣ toPoly (id : ℚ → ℚ) [2, 2, 1, 1] :=
  ⟨toPoly id [2, 0, 1], by simp [toPoly]; ring⟩

/-- `syn_div` panics exactly on the documented inputs -/
theorem syn_div_panics_iff (L : Lawful O v) (p : List α) (a : Nat) (b : α) :
    (∃ s, synDiv O p a b = .panic s) ↔ (a = 0 ∨ O.isZero b = true ∨ p.length ≤ a) :=
  synDiv_panic_iff L p a b

example : (synDiv OQ [1, 2] 0 1).isPanic ∧ (synDiv OQ [1, 2] 1 0).isPanic ∧ (synDiv OQ [1, 2] 2 1).isPanic := by
  decide +kernel

/-- `syn_div_roots_in_place(p, roots)` under the documented preconditions: no panic, same length, the
    result is the quotient by the monic `∏ (X − r_i)`; quotient/remainder identity with a remainder of
    degree `< m`; exact when the product divides `p` -/
theorem syn_div_roots_spec (L : Lawful O v) (p roots : List α)
    (hr : roots ≠ []) (hp : roots.length < p.length) :
    ∃ q, synDivRoots O p roots = .ok q ∧ q.length = p.length ∧
      toPoly v q = toPoly v p /ₘ rootsPoly (roots.map v) ∧
      toPoly v p = toPoly v q * rootsPoly (roots.map v) + toPoly v p %ₘ rootsPoly (roots.map v) ∧
      (toPoly v p %ₘ rootsPoly (roots.map v)).degree < (roots.length : WithBot ℕ) ∧
      (rootsPoly (roots.map v) ∣ toPoly v p → toPoly v p = toPoly v q * rootsPoly (roots.map v)) := by
  obtain ⟨q, e, l, hq⟩ := synDivRoots_spec L p roots hr hp
  obtain ⟨q', e', h1, h2, h3⟩ := synDivRoots_identity L p roots hr hp
  have : q' = q := by rw [e] at e'; cases e'; rfl
  subst this
  exact ⟨q', e, l, hq, h1, h2, h3⟩

theorem syn_div_roots_panics_iff (p roots : List α) :
    (∃ s, synDivRoots O p roots = .panic s) ↔ (roots = [] ∨ p.length ≤ roots.length) :=
  synDivRoots_panic_iff p roots

example : ([1, 2] : List ℚ) ≠ [] ∧ [(1 : ℚ), 2].length < [(6 : ℚ), -7, 0, 1].length := by decide
/-- x^3 − 7x + 6 divided by (x − 1)(x − 2) is x + 3 -/
example : synDivRoots OQ [6, -7, 0, 1] [1, 2] = .ok [3, 1, 0, 0] := by decide +kernel

-- ================================================================================ poly_from_roots

/-- `poly_from_roots(xs)` never panics, returns `n + 1` coefficients denoting `∏ (X − x_i)`;
    hence `eval (poly_from_roots xs) x = ∏ (x − x_i)`.  The index-level model of `fill_zero_roots`
    (with its `n -= 1` and slice indexing) is proved equal to the recursive specification whatever the
    uninitialised vector contained (`fillZeroRoots_eq`). -/
theorem poly_from_roots_spec (L : Lawful O v) (xs : List α) :
    ∃ r, polyFromRoots O xs = .ok r ∧ r.length = xs.length + 1 ∧
      toPoly v r = rootsPoly (xs.map v) ∧
      ∀ x, v (eval O r x) = (xs.map fun xi => v x - v xi).prod := by
  refine ⟨_, polyFromRoots_eq xs, length_fromRootsSpec xs, toPoly_fromRootsSpec L xs, fun x => ?_⟩
  rw [v_eval L, toPoly_fromRootsSpec L, eval_rootsPoly, List.map_map]
  rfl

theorem fill_zero_roots_indep (xs init₁ init₂ : List α)
    (h₁ : init₁.length = xs.length + 1) (h₂ : init₂.length = xs.length + 1) :
    fillZeroRoots O xs init₁ = fillZeroRoots O xs init₂ := by
  rw [fillZeroRoots_eq xs init₁ h₁, fillZeroRoots_eq xs init₂ h₂]

example : polyFromRoots OQ [1, 2] = .ok [2, -3, 1] ∧ polyFromRoots OQ [] = .ok [1] := by decide +kernel

-- ================================================================================ interpolation

/-- `interpolate` (as repaired by fix 8555b10) on equally many X and Y coordinates: no panic; fewer
    than or exactly `n` coefficients, i.e. degree `< n`; on pairwise distinct points (zero allowed) the
    interpolant takes the prescribed values: interpolation inverts evaluation.  With
    `remove_leading_zeros` the result has no leading zero. -/
theorem interpolate_spec (L : Lawful O v) (hT : Total O) (xs ys : List α) (rlz : Bool)
    (hlen : xs.length = ys.length) (hnd : (xs.map v).Nodup) :
    ∃ r, interpolate O xs ys rlz = .ok r ∧ r.length ≤ xs.length ∧
      (rlz = false → r.length = xs.length) ∧
      (rlz = true → r = removeLeadingZeros O r) ∧
      ∀ j (hj : j < xs.length), v (eval O r xs[j]) = v (ys[j]'(hlen ▸ hj)) := by
  obtain ⟨r, e, l1, l2, l3, h⟩ := interpolate_eval L hT xs ys rlz hlen hnd
  exact ⟨r, e, l1, l2, l3, fun j hj => by rw [v_eval L]; exact h j hj⟩

example : [(0 : ℚ), 1, 2].length = [(1 : ℚ), 3, 7].length ∧ ([(0 : ℚ), 1, 2].map id).Nodup := by decide +kernel
example : interpolate OQ [0, 1, 2] [1, 3, 7] false = .ok [1, 1, 1] := by decide +kernel
example : interpolate OQ [0, 1, 2] [1, 2, 3] false = .ok [1, 1, 0] ∧
    interpolate OQ [0, 1, 2] [1, 2, 3] true = .ok [1, 1] ∧ interpolate OQ [] [] true = .ok [] := by decide +kernel

/-- conversely, interpolating the values of a polynomial with at most `n` coefficients on `n` pairwise
    distinct points returns that polynomial (uniqueness of the interpolant of degree `< n`) -/
theorem interpolate_eval_many (L : Lawful O v) (hT : Total O) (xs p : List α)
    (hnd : (xs.map v).Nodup) (hp : p.length ≤ xs.length) :
    ∃ r, interpolate O xs (evalMany O p xs) false = .ok r ∧ r.length = xs.length ∧
      toPoly v r = toPoly v p ∧ (p.length = xs.length → r.map v = p.map v) := by
  obtain ⟨r, e, l, h⟩ := interpolate_evalMany L hT xs p hnd hp
  exact ⟨r, e, l, h, fun hpl => toPoly_injective_on (by omega) h⟩

example : interpolate OQ [0, 1, 2] (evalMany OQ [5, -1, 2] [0, 1, 2]) false = .ok [5, -1, 2] := by
  decide +kernel

/-- without the distinctness precondition the call still returns (the Lagrange formula with `inv0`) -/
theorem interpolate_no_panic (L : Lawful O v) (hT : Total O) (xs ys : List α) (rlz : Bool)
    (hlen : xs.length = ys.length) : ∃ r, interpolate O xs ys rlz = .ok r ∧ r.length ≤ xs.length := by
  obtain ⟨r, e, l1, _⟩ := interpolate_formula L hT xs ys rlz hlen
  exact ⟨r, e, l1⟩

/-- the documented panic (debug build): different numbers of coordinates -/
theorem interpolate_panics (xs ys : List α) (rlz : Bool) (h : xs.length ≠ ys.length) :
    ∃ s, interpolate O xs ys rlz = .panic s :=
  ⟨"number of X and Y coordinates must be the same", by simp [interpolate, h]⟩

/-- `interpolate_batch::<E, N>` (as repaired by fix c99bda7 for `N = 0`) on equally many X and Y
    batches of `N` points: no panic, one polynomial with `N` coefficients (degree `< N`) per batch, and
    on every batch with pairwise distinct X coordinates interpolation inverts evaluation — batches
    with duplicate X coordinates do not affect the other batches although all inversions are done by
    one batch inversion -/
theorem interpolate_batch_spec (L : Lawful O v) (hT : Total O) (N : Nat) (xss yss : List (List α))
    (hlen : xss.length = yss.length)
    (hx : ∀ b ∈ xss, b.length = N) (hy : ∀ b ∈ yss, b.length = N) :
    ∃ polys, interpolateBatch O N xss yss = .ok polys ∧ polys.length = xss.length ∧
      (∀ p ∈ polys, p.length = N) ∧
      ∀ i (hi : i < xss.length) (hp : i < polys.length), (xss[i].map v).Nodup →
        ∀ j (hjx : j < xss[i].length) (hjy : j < (yss[i]'(hlen ▸ hi)).length),
          v (eval O polys[i] xss[i][j]) = v (yss[i]'(hlen ▸ hi))[j] := by
  obtain ⟨polys, e, l, hl, h⟩ := interpolateBatch_spec L hT N xss yss hlen hx hy
  exact ⟨polys, e, l, hl, fun i hi hp hnd j hjx hjy => by rw [v_eval L]; exact h i hi hp hnd j hjx hjy⟩

/-- the documented panic (debug build): different numbers of batches -/
theorem interpolate_batch_panics (N : Nat) (xss yss : List (List α)) (h : xss.length ≠ yss.length) :
    ∃ s, interpolateBatch O N xss yss = .panic s :=
  ⟨"number of X coordinate batches and Y coordinate batches must be the same",
    by simp [interpolateBatch, h]⟩

example : [[(0 : ℚ), 1], [2, 3]].length = [[(1 : ℚ), 3], [5, 7]].length ∧
    (∀ b ∈ [[(0 : ℚ), 1], [2, 3]], b.length = 2) ∧ (∀ b ∈ [[(1 : ℚ), 3], [5, 7]], b.length = 2) ∧
    ([(0 : ℚ), 1].map id).Nodup := by decide +kernel
example : interpolateBatch OQ 2 [[0, 1], [2, 3]] [[1, 3], [5, 7]] = .ok [[1, 2], [1, 2]] ∧
    interpolateBatch OQ 3 [[0, 1, 2]] [[1, 3, 7]] = .ok [[1, 1, 1]] ∧
    interpolateBatch OQ 0 [[], []] [[], []] = .ok [[], []] ∧
    interpolateBatch OQ 1 [] [] = .ok [] := by decide +kernel
/-- a batch with a duplicate X coordinate does not disturb its neighbour -/
example : interpolateBatch OQ 2 [[1, 1], [2, 3]] [[1, 3], [5, 7]] = .ok [[0, 0], [1, 2]] := by
  decide +kernel

-- ================================================================================ power series

/-- `get_power_series(b, n) = [b^i | i < n]` for every `n` (as repaired by fix 0ad475d for `n = 0`) -/
theorem get_power_series_spec (L : Lawful O v) (b : α) (n : Nat) :
    (getPowerSeries O b n).length = n ∧
    (getPowerSeries O b n).map v = (List.range n).map fun i => v b ^ i :=
  ⟨length_fillPowerSeries _ _ _, map_getPowerSeries L b n⟩

theorem get_power_series_with_offset_spec (L : Lawful O v) (b s : α) (n : Nat) :
    (getPowerSeriesWithOffset O b s n).length = n ∧
    (getPowerSeriesWithOffset O b s n).map v = (List.range n).map fun i => v s * v b ^ i :=
  ⟨length_fillPowerSeries _ _ _, map_getPowerSeriesWithOffset L b s n⟩

/-- the chunked (`concurrent`) variants equal the serial ones for every number of threads -/
theorem get_power_series_conc_eq (L : Lawful O v) (threads : Nat) (b : α) (n : Nat) :
    (getPowerSeriesConc O threads b n).map v = (getPowerSeries O b n).map v :=
  map_getPowerSeriesConc L threads b n

theorem get_power_series_with_offset_conc_eq (L : Lawful O v) (threads : Nat) (b s : α) (n : Nat) :
    (getPowerSeriesWithOffsetConc O threads b s n).map v = (getPowerSeriesWithOffset O b s n).map v :=
  map_getPowerSeriesWithOffsetConc L threads b s n

example : getPowerSeries OQ 3 4 = [1, 3, 9, 27] ∧ getPowerSeries OQ 3 0 = [] ∧
    getPowerSeriesWithOffset OQ 3 7 3 = [7, 21, 63] := by decide +kernel

-- ================================================================================ in-place accumulation

theorem add_in_place_spec (L : Lawful O v) (a b : List α) (h : a.length = b.length) :
    ∃ r, addInPlace O a b = .ok r ∧ r.length = a.length ∧
      r.map v = List.zipWith (· + ·) (a.map v) (b.map v) := addInPlace_spec L a b h

theorem add_in_place_panics_iff (a b : List α) :
    (∃ s, addInPlace O a b = .panic s) ↔ a.length ≠ b.length := addInPlace_panic_iff a b

theorem mul_acc_spec (L : Lawful O v) (mulBase : α → β → α) (w : β → F)
    (hmb : ∀ c y, v (mulBase c y) = v c * w y) (a : List α) (b : List β) (c : α)
    (h : a.length = b.length) :
    ∃ r, mulAcc O mulBase a b c = .ok r ∧ r.length = a.length ∧
      r.map v = List.zipWith (fun x y => x + y * v c) (a.map v) (b.map w) :=
  mulAcc_spec L mulBase w hmb a b c h

theorem mul_acc_panics_iff (mulBase : α → β → α) (a : List α) (b : List β) (c : α) :
    (∃ s, mulAcc O mulBase a b c = .panic s) ↔ a.length ≠ b.length := mulAcc_panic_iff mulBase a b c

example : ∀ c y : ℚ, id ((fun a b : ℚ => a * b) c y) = id c * id y := fun _ _ => rfl
example : addInPlace OQ [1, 2] [3, 4] = .ok [4, 6] ∧ mulAcc OQ (· * ·) [1, 2] [3, 4] 5 = .ok [16, 22] := by
  decide +kernel

-- ================================================================================ batch inversion

/-- `batch_inversion` never panics; when the one field inversion it performs returns, the result has
    the length of the input and is `x_i⁻¹` where `x_i ≠ 0` and `0` elsewhere — for every pattern of
    zeros; in particular `x_i · result_i = 1` for `x_i ≠ 0` -/
theorem batch_inversion_spec (L : Lawful O v) (vals r : List α) (h : batchInversion O vals = .ok r) :
    r.length = vals.length ∧ (r.map v = vals.map fun x => inv0 (v x)) ∧
    ∀ i (hi : i < vals.length) (hr : i < r.length), v vals[i] ≠ 0 → v vals[i] * v r[i] = 1 := by
  obtain ⟨hl, hv⟩ := serialBatchInversion_spec L vals r h
  refine ⟨hl, hv, fun i hi hr hne => ?_⟩
  have := congrArg (fun l => l[i]?) hv
  simp only [List.getElem?_map, List.getElem?_eq_getElem hi, List.getElem?_eq_getElem hr,
    Option.map_some, Option.some.injEq] at this
  rw [this, inv0, if_neg hne]
  exact mul_inv_cancel₀ hne

theorem batch_inversion_returns (hT : Total O) (vals : List α) : ∃ r, batchInversion O vals = .ok r :=
  serialBatchInversion_total hT vals

theorem batch_inversion_no_panic (vals : List α) (s : String) : batchInversion O vals ≠ .panic s :=
  serialBatchInversion_no_panic vals s

/-- the chunked (`concurrent`) variant computes the same field elements for every number of threads -/
theorem batch_inversion_conc_eq (L : Lawful O v) (threads : Nat) (vals r r' : List α)
    (h : batchInversionConc O threads vals = .ok r) (h' : batchInversion O vals = .ok r') :
    r.map v = r'.map v := by
  rw [batchInversionConc_spec L threads vals r h, (serialBatchInversion_spec L vals r' h').2]

theorem batch_inversion_conc_returns (hT : Total O) (threads : Nat) (vals : List α) :
    ∃ r, batchInversionConc O threads vals = .ok r := batchInversionConc_total hT threads vals

example : batchInversionConc OQ 4 [2, 0, 4, 0] = .ok [1/2, 0, 1/4, 0] := by decide +kernel
example : batchInversion OQ [2, 0, 4, 0] = .ok [1/2, 0, 1/4, 0] ∧ batchInversion OQ [] = .ok [] ∧
    batchInversion OQ [0, 0] = .ok [0, 0] := by decide +kernel

/-! ## tie T: the polynomial functions as regenerated from math/src/polynom/mod.rs on this run

`Gen.Polynom.*` (Winter/Gen/Polynom.lean) is what translate/gen.py makes of the Rust functions on every run:
field-generic over an operations record, vectors as lists, index loops as structural recursion, `v[i]` with its
bound in `_ok`.  For EVERY operations record `O` of the model and all inputs the regenerated function is the model
function the theorems above are about and its no-panic condition holds.  (Proved: `eval`, `add`, `sub`, `mul_by_scalar`,
`degree_of` here, `div`, `serial_batch_inversion`, `mul`, `remove_leading_zeros`, `fill_power_series` below; the
other translated functions — `syn_div`, `syn_div_in_place`, `syn_div_roots_in_place`, `fill_zero_roots`,
`poly_from_roots` — are evaluated next to the model by the driver on every line.) -/
theorem gen_polynom_eq_model {α : Type} (O : Model.Poly.Ops α) (p q : List α) (x : α) :
    (Gen.Polynom.eval O.toX p x = Model.Poly.eval O p x ∧ Gen.Polynom.eval_ok O.toX p x = true) ∧
    (Gen.Polynom.add O.toX p q = Model.Poly.add O p q ∧ Gen.Polynom.add_ok O.toX p q = true) ∧
    (Gen.Polynom.sub O.toX p q = Model.Poly.sub O p q ∧ Gen.Polynom.sub_ok O.toX p q = true) ∧
    (Gen.Polynom.mul_by_scalar O.toX p x = Model.Poly.mulByScalar O p x ∧
      Gen.Polynom.mul_by_scalar_ok O.toX p x = true) ∧
    (Gen.Polynom.degree_of O.toX p = Model.Poly.degreeOf O p ∧ Gen.Polynom.degree_of_ok O.toX p = true) :=
  ⟨C20G.gen_eval_eq O p x, C20G.gen_add_eq O p q, C20G.gen_sub_eq O p q, C20G.gen_mul_by_scalar_eq O p x,
    C20G.gen_degree_of_eq O p⟩

/-- ★ `div` (regenerated long division) IS the model's `div` for every operations record whose `inv` returns and
    every dividend a `usize` can index: same quotient, the model's panic exactly when the regenerated no-panic
    condition fails, never `hang` -/
theorem gen_div_eq_model {α : Type} (O : Model.Poly.Ops α) (hinv : ∀ y, (O.inv y).isSome = true) (a b : List α)
    (ha : a.length < 18446744073709551616) :
    (∀ r, Model.Poly.div O a b = .ok r ↔
      (Gen.Polynom.div_ok O.toX a b = true ∧ Gen.Polynom.div O.toX a b = r)) ∧
    Model.Poly.div O a b ≠ .hang :=
  C20G.gen_div_eq O hinv a b ha

/-- ★ `serial_batch_inversion` (regenerated: both loops) IS the model's, on a result vector of the length of
    `values` (what `batch_inversion` hands it) -/
theorem gen_serial_batch_inversion_eq_model {α : Type} (O : Model.Poly.Ops α) (hinv : ∀ y, (O.inv y).isSome = true)
    (values result : List α) (hlen : result.length = values.length) :
    Model.Poly.serialBatchInversion O values = .ok (Gen.MathUtils.serial_batch_inversion O.toX values result) ∧
    Gen.MathUtils.serial_batch_inversion_ok O.toX values result = true :=
  C20G.gen_serial_batch_inversion_eq O hinv values result hlen

/-- ★ `mul` (regenerated schoolbook product) IS the model's `mul`, for all operands whose lengths a `usize` holds -/
theorem gen_mul_eq_model {α : Type} (O : Model.Poly.Ops α) (a b : List α)
    (hlen : a.length + b.length < 18446744073709551616) :
    Model.Poly.mul O a b = if Gen.Polynom.mul_ok O.toX a b = true then .ok (Gen.Polynom.mul O.toX a b)
      else .panic "index out of bounds" :=
  C20G.gen_mul_eq O a b hlen

/-- ★ `remove_leading_zeros` (regenerated top-down scan with its early `return` of the slice `values[..i + 1]`) IS
    the model's, for every vector a `usize` can index, and its index, increment and slice bounds never fail -/
theorem gen_remove_leading_zeros_eq_model {α : Type} (O : Model.Poly.Ops α) (p : List α)
    (hp : p.length < 18446744073709551616) :
    Gen.Polynom.remove_leading_zeros O.toX p = Model.Poly.removeLeadingZeros O p ∧
    Gen.Polynom.remove_leading_zeros_ok O.toX p = true :=
  C20G.gen_remove_leading_zeros_eq O p hp

/-- ★ `fill_power_series` (regenerated from math/src/utils/mod.rs: `result[0] = start`, then
    `result[i] = result[i - 1] * base`, nothing for an empty slice) IS the model's power series of the slice's
    length, whatever the slice held before, and none of its indices can fail -/
theorem gen_fill_power_series_eq_model {α : Type} (O : Model.Poly.Ops α) (result : List α) (base start : α) :
    Gen.MathUtils.fill_power_series O.toX result base start =
      Model.Poly.fillPowerSeries O base result.length start ∧
    Gen.MathUtils.fill_power_series_ok O.toX result base start = true :=
  C20G.gen_fill_power_series_eq O result base start

/-- ★ the regenerated wrappers reduce to their regenerated cores as the model's do: `syn_div` is `syn_div_in_place`
    on a copy (value and no-panic condition; the model has one `synDiv` for both), `poly_from_roots` is
    `fill_zero_roots` on `xs.len() + 1` fresh cells, failing additionally only if `xs.len() + 1` overflows.  The cores
    `syn_div_in_place` / `fill_zero_roots` remain tied to the model by evaluation only (PARTIAL: no equality proof) -/
theorem gen_wrappers_reduce_partial {F : Type} (X : Gen.FOpsX F) (p xs : List F) (a : Nat) (b : F) :
    (Gen.Polynom.syn_div X p a b = Gen.Polynom.syn_div_in_place X p a b ∧
      Gen.Polynom.syn_div_ok X p a b = Gen.Polynom.syn_div_in_place_ok X p a b) ∧
    (Gen.Polynom.poly_from_roots X xs =
        Gen.Polynom.fill_zero_roots X xs (List.replicate (xs.length + 1) (X.ofNat 0)) ∧
      Gen.Polynom.poly_from_roots_ok X xs =
        (decide (xs.length + 1 < 18446744073709551616) &&
          Gen.Polynom.fill_zero_roots_ok X xs (List.replicate (xs.length + 1) (X.ofNat 0)))) :=
  ⟨C20G.gen_syn_div_wrapper X p a b, C20G.gen_poly_from_roots_wrapper X xs⟩

/-- ★ `fill_zero_roots` (regenerated: prologue, outer loop over the roots, inner loop) IS the model's `fillZeroRoots`,
    for every output slice a `usize` can index, whatever it held before: the same vector when the regenerated no-panic
    condition holds, a panic of the model when it fails (never `hang`) -/
theorem gen_fill_zero_roots_eq_model {α : Type} (O : Model.Poly.Ops α) (xs result : List α)
    (hr : result.length < 18446744073709551616) :
    (Gen.Polynom.fill_zero_roots_ok O.toX xs result = true →
      Model.Poly.fillZeroRoots O xs result = .ok (Gen.Polynom.fill_zero_roots O.toX xs result)) ∧
    (Gen.Polynom.fill_zero_roots_ok O.toX xs result = false →
      ∃ msg, Model.Poly.fillZeroRoots O xs result = .panic msg) :=
  C20G.gen_fill_zero_roots_eq O xs result hr

/-- ★ `poly_from_roots` (regenerated) IS the model's `polyFromRoots` (the function `poly_from_roots_spec` above is
    about), for every list of roots whose length + 1 a `usize` holds -/
theorem gen_poly_from_roots_eq_model {α : Type} (O : Model.Poly.Ops α) (xs : List α)
    (hlen : xs.length + 1 < 18446744073709551616) :
    (Gen.Polynom.poly_from_roots_ok O.toX xs = true →
      Model.Poly.polyFromRoots O xs = .ok (Gen.Polynom.poly_from_roots O.toX xs)) ∧
    (Gen.Polynom.poly_from_roots_ok O.toX xs = false → ∃ msg, Model.Poly.polyFromRoots O xs = .panic msg) :=
  C20G.gen_poly_from_roots_eq O xs hlen

end WinterProofs.C20
