-- C07, 62-bit field: arithmetic equals integer arithmetic modulo the prime (property theorems).
--
-- p = 2^62 - 111·2^39 + 1, Montgomery form with R = 2^64; raw words live in the lazy range
-- [0, 2p) (`Inv r := r < 2·M`), so the representation is NOT canonical: zero is `0` or `M`,
-- `==` and `as_int` normalise.  `Gen.F62.*` is regenerated from math/src/field/f62/mod.rs on every
-- run; `Model.F62.exp/inv`, conversions and byte encodings are hand-written
-- (Winter/Model/Field.lean) and tied to the code by the correspondence harness.
-- A raw word `r` denotes the residue `val r = r · (2^64)⁻¹`.
import WinterProofs.Lemmas.C07F62Z
import WinterProofs.Lemmas.C07F62InvGen
import WinterProofs.Lemmas.C07Bytes
import WinterProofs.Lemmas.Primes

namespace WinterProofs.C07
open Model

namespace F62
open Gen.F62 WinterProofs.F62Z WinterProofs.Primes

/-! ### published constants -/

theorem modulus_eq : M = 2 ^ 62 - 111 * 2 ^ 39 + 1 := by decide

theorem modulus_prime : Nat.Prime M := prime_M62

/-- `R2 = 2^128 mod p`, `R3 = 2^192 mod p`, `U = -p⁻¹ mod 2^64`; `ELEMENT_BYTES` holds every raw
    word; the lazy range `[0, 2p)` fits a 64-bit word -/
theorem montgomery_constants : R2 = 2 ^ 128 % M ∧ R3 = 2 ^ 192 % M ∧ (U * M + 1) % 2 ^ 64 = 0 ∧
    U < 2 ^ 64 ∧ ELEMENT_BYTES = 8 ∧ M < 256 ^ ELEMENT_BYTES ∧
    MODULUS_BITS = 62 ∧ 2 ^ 61 < M ∧ M < 2 ^ 62 ∧ 2 * M < 2 ^ 64 ∧ G = TWO_ADIC_ROOT_OF_UNITY ∧
    IS_CANONICAL = false := by decide

/-- two-adicity: `2^39` is the exact power of two dividing `p - 1` -/
theorem two_adicity : 2 ^ TWO_ADICITY ∣ M - 1 ∧ ¬ 2 ^ (TWO_ADICITY + 1) ∣ M - 1 := by decide

/-- the published generator generates the whole multiplicative group
    (`p - 1 = 2^39 · 13 · 17 · 37957`) -/
theorem generator_order : orderOf ((GENERATOR : Nat) : ZMod P) = P - 1 := by
  apply order_of_lucas P GENERATOR (List.replicate 39 2 ++ [13, 17, 37957])
  · norm_num
  · norm_num
  · intro q hq
    simp only [List.mem_append, List.mem_replicate, List.mem_cons, List.not_mem_nil, or_false] at hq
    rcases hq with ⟨-, rfl⟩ | rfl | rfl | rfl <;> norm_num
  · decide +kernel
  · decide +kernel
  · decide +kernel

/-- the published root of unity has order exactly `2^TWO_ADICITY` -/
theorem root_of_unity_order :
    orderOf ((TWO_ADIC_ROOT_OF_UNITY : Nat) : ZMod P) = 2 ^ TWO_ADICITY := by
  apply order_two_pow P TWO_ADIC_ROOT_OF_UNITY 38
  · norm_num
  · decide +kernel
  · decide +kernel

/-! ### every public operation preserves the representation invariant, computes in `ZMod p`,
    and does not overflow in the checked build (`_ok`) -/

/-- `BaseElement::new` reduces silently: any 64-bit word, value `v mod p` -/
theorem new_correct (v : Nat) (hv : v < 2 ^ 64) :
    Inv (new v) ∧ val (new v) = (v : ZMod P) ∧ new_ok v = true :=
  ⟨new_inv v hv, val_new v hv, F62L.new_ok_spec v hv⟩

theorem add_correct (a b : Nat) (ha : Inv a) (hb : Inv b) :
    Inv (add a b) ∧ val (add a b) = val a + val b ∧ add_ok a b = true ∧
      op_add a b = add a b ∧ op_add_ok a b = true :=
  ⟨add_inv a b ha hb, val_add a b ha hb, F62L.add_ok_spec a b ha.lt hb.lt, rfl,
    (F62L.op_ok_spec a b ha.lt hb.lt).1⟩

theorem sub_correct (a b : Nat) (ha : Inv a) (hb : Inv b) :
    Inv (sub a b) ∧ val (sub a b) = val a - val b ∧ sub_ok a b = true ∧
      op_sub a b = sub a b ∧ op_sub_ok a b = true :=
  ⟨sub_inv a b ha hb, val_sub a b ha hb, F62L.sub_ok_spec a b ha.lt hb.lt, rfl,
    (F62L.op_ok_spec a b ha.lt hb.lt).2.1⟩

theorem mul_correct (a b : Nat) (ha : Inv a) (hb : Inv b) :
    Inv (mul a b) ∧ val (mul a b) = val a * val b ∧ mul_ok a b = true ∧
      op_mul a b = mul a b ∧ op_mul_ok a b = true :=
  ⟨mul_inv a b ha hb, val_mul a b ha hb, F62L.mul_ok_spec a b ha.lt hb.lt, rfl,
    (F62L.op_ok_spec a b ha.lt hb.lt).2.2⟩

theorem neg_correct (a : Nat) (ha : Inv a) :
    Inv (neg a) ∧ val (neg a) = - val a ∧ neg_ok a = true :=
  ⟨neg_inv a ha, val_neg a ha, F62L.neg_ok_spec a ha.lt⟩

theorem double_correct (a : Nat) (ha : Inv a) :
    Inv (double a) ∧ val (double a) = 2 * val a ∧ double_ok a = true :=
  ⟨double_inv a ha, val_double a ha, F62L.double_ok_spec a ha.lt⟩

theorem square_correct (a : Nat) (ha : Inv a) : Inv (mul a a) ∧ val (mul a a) = val a ^ 2 := by
  refine ⟨mul_inv a a ha ha, ?_⟩
  rw [val_mul a a ha ha, pow_two]

/-- exponentiation (`Model.F62.exp`), every exponent; covers both early exits
    (`power = 0` gives one, a zero base — raw `0` or raw `M` — gives zero) -/
theorem exp_correct (a e : Nat) (ha : Inv a) :
    Inv (Model.F62.exp a e) ∧ val (Model.F62.exp a e) = val a ^ e :=
  exp_spec a e ha

/-- inversion (`Model.F62.inv`, binary extended GCD): for EVERY raw word of the invariant all
    four loops end within the model's fuel, the result satisfies the invariant, zero (raw `0` and
    raw `M`) maps to zero and every other residue to its inverse (`0⁻¹ = 0` in `ZMod p`) -/
theorem inv_correct (a : Nat) (ha : Inv a) :
    ∃ r, Model.F62.inv a = .done r ∧ Inv r ∧ val r = (val a)⁻¹ :=
  inv_spec a ha

/-- inversion ON THE TRANSLATED SOURCE (tie T): `Gen.F62Inv.inv N` is what the translator makes
    of `fn inv` of math/src/field/f62/mod.rs on this run, one fuelled definition per Rust `while`,
    `N` the fuel handed to every loop.  For every raw word of the invariant and EVERY `N ≥ 400`
    the translated function returns a word of the invariant denoting the inverse (zero to zero),
    and no executed step overflows u128/u64 or underflows (`inv_ok`); in particular the result
    does not depend on the fuel.  Any edit of the loops of `inv` changes the generated
    definitions and breaks this proof.  `Model.F62.inv` stays the executable model of the
    line-protocol correspondence (tie K); the two are linked by `F62InvGen.gen_inv_refines`. -/
theorem inv_gen_correct (a N : Nat) (ha : Inv a) (hN : 400 ≤ N) :
    Inv (Gen.F62Inv.inv N a) ∧ val (Gen.F62Inv.inv N a) = (val a)⁻¹ ∧
      Gen.F62Inv.inv_ok N a = true := by
  obtain ⟨r, h1, h2, h3⟩ := inv_spec a ha
  obtain ⟨g1, g2⟩ := F62InvGen.gen_inv_refines a r N ha.lt64 hN h1
  rw [g1]
  exact ⟨h2, h3, g2⟩

/-- a concrete non-trivial instance: the non-normalised representative `new 5 + M` of five -/
example : Inv (Gen.F62Inv.inv 400 (new 5 + M)) ∧
    val (Gen.F62Inv.inv 400 (new 5 + M)) = (val (new 5 + M))⁻¹ ∧
    Gen.F62Inv.inv_ok 400 (new 5 + M) = true :=
  inv_gen_correct (new 5 + M) 400 (Inv.of_lt (by decide)) (le_refl _)

/-- the translated function and the hand model agree wherever the model returns -/
theorem inv_gen_eq_model (a N : Nat) (ha : Inv a) (hN : 400 ≤ N) :
    Model.F62.inv a = .done (Gen.F62Inv.inv N a) := by
  obtain ⟨r, h1, -, -⟩ := inv_spec a ha
  rw [(F62InvGen.gen_inv_refines a r N ha.lt64 hN h1).1]
  exact h1

/-- both representations of zero are inverted to raw `0` -/
theorem inv_zero : Model.F62.inv 0 = .done 0 ∧ Model.F62.inv M = .done 0 :=
  ⟨inv_zero_case 0 (Or.inl rfl), inv_zero_case M (Or.inr rfl)⟩

theorem div_correct (a b : Nat) (ha : Inv a) (hb : Inv b) :
    ∃ r, Model.F62.impl.div a b = .done r ∧ Inv r ∧ val r = val a / val b := by
  obtain ⟨i, h1, h2, h3⟩ := inv_spec b hb
  refine ⟨mul a i, ?_, mul_inv _ _ ha h2, ?_⟩
  · show (match Model.F62.inv b with
      | Fuel.done i => Fuel.done (mul a i)
      | Fuel.out => Fuel.out) = _
    rw [h1]
  · rw [val_mul _ _ ha h2, h3, div_eq_mul_inv]

/-- `as_int` is the canonical representative of the residue: `< p` and equal to `(val a).val`,
    whichever of the two representatives `a` is -/
theorem as_int_correct (a : Nat) (ha : Inv a) :
    as_int a < M ∧ as_int a = (val a).val ∧ as_int_ok a = true :=
  ⟨as_int_lt a ha.lt64, as_int_eq_val a ha.lt64, F62L.as_int_ok_spec a ha.lt64⟩

/-- `==` holds exactly for equal residues although the representation is not canonical -/
theorem eq_correct (a b : Nat) (ha : Inv a) (hb : Inv b) :
    (eq a b = true ↔ val a = val b) ∧ eq_ok a b = true :=
  ⟨eq_iff a b ha hb, F62L.eq_ok_spec a b⟩

/-- the representation is genuinely not canonical: two different raw words, one residue -/
example : Inv 5 ∧ Inv (5 + M) ∧ 5 ≠ 5 + M ∧ eq 5 (5 + M) = true := by
  refine ⟨Inv.of_lt (by decide), Inv.of_lt (by decide), by decide, by decide⟩

/-! ### conversions -/

/-- `TryFrom<u64/u128>` rejects exactly the integers `≥ p` and otherwise denotes the integer -/
theorem try_from_correct (n : Nat) :
    (n ≥ M → Model.F62.impl.tryFrom n = .err) ∧
    (n < M → Model.F62.impl.tryFrom n = .ok (new n) ∧ Inv (new n) ∧ val (new n) = (n : ZMod P)) := by
  constructor
  · intro h
    show (if n ≥ M then Conv.err else Conv.ok (new n)) = Conv.err
    rw [if_pos h]
  · intro h
    have hn64 : n < 2 ^ 64 := lt_trans h (by decide)
    refine ⟨?_, new_inv n hn64, val_new n hn64⟩
    show (if n ≥ M then Conv.err else Conv.ok (new n)) = Conv.ok (new n)
    rw [if_neg (by omega)]

/-- converting the canonical integer back gives a raw word of the same residue
    (not necessarily the same raw word) -/
theorem new_as_int (a : Nat) (ha : Inv a) :
    Inv (new (as_int a)) ∧ val (new (as_int a)) = val a := by
  have hlt := as_int_lt a ha.lt64
  have h64 : as_int a < 2 ^ 64 := lt_trans hlt (by decide)
  exact ⟨new_inv _ h64, by rw [val_new _ h64, as_int_val a ha.lt64]⟩

/-- byte round trip: decoding what was encoded consumes exactly the eight written bytes,
    whatever follows, and returns the raw word `new (as_int a)`, which satisfies the invariant
    and denotes the same residue as `a` -/
theorem bytes_roundtrip (a : Nat) (ha : Inv a) (rest : List Nat) :
    Model.F62.impl.readFrom (Model.F62.impl.toBytes a ++ rest) = some (.ok (new (as_int a)), rest) ∧
      Inv (new (as_int a)) ∧ val (new (as_int a)) = val a ∧ eq (new (as_int a)) a = true := by
  have hlt := as_int_lt a ha.lt64
  have hlen : (leBytes 8 (as_int a)).length = 8 := Bytes.leBytes_length 8 _
  obtain ⟨hi, hv⟩ := new_as_int a ha
  refine ⟨?_, hi, hv, (eq_iff _ _ hi ha).2 hv⟩
  show (if (leBytes 8 (as_int a) ++ rest).length < 8 then none
    else some (FieldImpl.tryFrom Model.F62.impl (ofLeBytes ((leBytes 8 (as_int a) ++ rest).take 8)),
      (leBytes 8 (as_int a) ++ rest).drop 8)) = some (.ok (new (as_int a)), rest)
  rw [if_neg (by rw [List.length_append, hlen]; omega)]
  rw [List.take_left' hlen, List.drop_left' hlen,
    Bytes.ofLeBytes_leBytes_of_lt 8 _ (lt_trans hlt (by decide))]
  show some ((if as_int a ≥ M then Conv.err else Conv.ok (new (as_int a))), rest) = _
  rw [if_neg (by omega)]

/-- two elements serialize identically exactly when they denote the same residue -/
theorem to_bytes_eq_iff (a b : Nat) (ha : Inv a) (hb : Inv b) :
    Model.F62.impl.toBytes a = Model.F62.impl.toBytes b ↔ val a = val b := by
  have hla := as_int_lt a ha.lt64
  have hlb := as_int_lt b hb.lt64
  constructor
  · intro h
    have h' : as_int a = as_int b :=
      Bytes.leBytes_inj 8 _ _ (lt_trans hla (by decide)) (lt_trans hlb (by decide)) h
    rw [← as_int_val a ha.lt64, ← as_int_val b hb.lt64, h']
  · intro h
    have : as_int a = as_int b := by
      rw [as_int_eq_val a ha.lt64, as_int_eq_val b hb.lt64, h]
    show leBytes 8 (as_int a) = leBytes 8 (as_int b)
    rw [this]

/-- `get_root_of_unity(n)`: defined for 1 ≤ n ≤ 39 with order exactly `2^n`; the documented
    assertion failures (`none`) are exactly n = 0 and n > 39 -/
theorem get_root_of_unity_correct (n : Nat) :
    (n = 0 ∨ n > 39 → Model.F62.impl.rootOfUnity n = none) ∧
    (1 ≤ n → n ≤ 39 → ∃ r, Model.F62.impl.rootOfUnity n = some r ∧ Inv r ∧ orderOf (val r) = 2 ^ n) := by
  constructor
  · intro h
    show (if n = 0 ∨ n > 39 then none else some _) = none
    rw [if_pos h]
  · intro h1 h2
    have hw := new_correct TWO_ADIC_ROOT_OF_UNITY (by decide)
    obtain ⟨hi, hv⟩ := exp_correct (new TWO_ADIC_ROOT_OF_UNITY) (2 ^ (39 - n)) hw.1
    refine ⟨Model.F62.exp (new TWO_ADIC_ROOT_OF_UNITY) (2 ^ (39 - n)), ?_, hi, ?_⟩
    · show (if n = 0 ∨ n > 39 then none else some _) = some _
      rw [if_neg (by omega)]
      rfl
    · rw [hv, hw.2.1, orderOf_pow_of_dvd (by positivity), root_of_unity_order]
      · show 2 ^ 39 / 2 ^ (39 - n) = 2 ^ n
        rw [Nat.pow_div (by omega) (by norm_num)]
        congr 1; omega
      · rw [root_of_unity_order]
        exact pow_dvd_pow 2 (by show 39 - n ≤ 39; omega)

/-! ### the representation invariant over every sequence of public operations -/

/-- the meaning of an operation sequence on residues (`mul_small` does not exist in this field:
    the slot is the identity, as in the driver) -/
def specStep (st : ZMod P × ZMod P) : FieldImpl.SeqOp → ZMod P × ZMod P
  | .add => (st.1 + st.2, st.2)
  | .sub => (st.1 - st.2, st.2)
  | .mul => (st.1 * st.2, st.2)
  | .neg => (-st.1, st.2)
  | .dbl => (2 * st.1, st.2)
  | .sq => (st.1 ^ 2, st.2)
  | .swap => (st.2, st.1)
  | .inv => (st.1⁻¹, st.2)
  | .div => (st.1 / st.2, st.2)
  | .mulSmall _ => st

theorem seq_step (acc y : Nat) (op : FieldImpl.SeqOp) (ha : Inv acc) (hy : Inv y) :
    ∃ acc' y', Model.F62.impl.seqStep (fun a _ => a) (some (acc, y)) op = some (acc', y') ∧
      Inv acc' ∧ Inv y' ∧ (val acc', val y') = specStep (val acc, val y) op := by
  cases op with
  | add => exact ⟨add acc y, y, rfl, add_inv _ _ ha hy, hy, by rw [val_add _ _ ha hy]; rfl⟩
  | sub => exact ⟨sub acc y, y, rfl, sub_inv _ _ ha hy, hy, by rw [val_sub _ _ ha hy]; rfl⟩
  | mul => exact ⟨mul acc y, y, rfl, mul_inv _ _ ha hy, hy, by rw [val_mul _ _ ha hy]; rfl⟩
  | neg => exact ⟨neg acc, y, rfl, neg_inv _ ha, hy, by rw [val_neg _ ha]; rfl⟩
  | dbl => exact ⟨double acc, y, rfl, double_inv _ ha, hy, by rw [val_double _ ha]; rfl⟩
  | sq => exact ⟨mul acc acc, y, rfl, mul_inv _ _ ha ha, hy, by rw [val_mul _ _ ha ha, ← pow_two]; rfl⟩
  | swap => exact ⟨y, acc, rfl, hy, ha, rfl⟩
  | mulSmall k => exact ⟨acc, y, rfl, ha, hy, rfl⟩
  | inv =>
    obtain ⟨r, h1, h2, h3⟩ := inv_spec acc ha
    refine ⟨r, y, ?_, h2, hy, by rw [h3]; rfl⟩
    show (match Model.F62.inv acc with
      | Fuel.done r => some (r, y)
      | Fuel.out => none) = _
    rw [h1]
  | div =>
    obtain ⟨r, h1, h2, h3⟩ := div_correct acc y ha hy
    refine ⟨r, y, ?_, h2, hy, by rw [h3]; rfl⟩
    show (match Model.F62.impl.div acc y with
      | Fuel.done r => some (r, y)
      | Fuel.out => none) = _
    rw [h1]

/-- every state reachable from integers by public operations satisfies the representation
    invariant (the implementation always returns: no inversion runs out of fuel) and denotes the
    residues obtained by the same operations in `ZMod p`; in particular `==`, `as_int` and
    serialization agree with residue equality in every reachable state -/
theorem seq_invariant (a b : Nat) (ha : a < 2 ^ 64) (hb : b < 2 ^ 64) (ops : List FieldImpl.SeqOp) :
    ∃ acc y, Model.F62.impl.runSeq (fun a _ => a) a b ops = some (acc, y) ∧ Inv acc ∧ Inv y ∧
      (val acc, val y) = ops.foldl specStep ((a : ZMod P), (b : ZMod P)) := by
  unfold FieldImpl.runSeq
  have h0 : ∃ acc y, (some (Model.F62.impl.new a, Model.F62.impl.new b) : Option (Nat × Nat)) = some (acc, y) ∧
      Inv acc ∧ Inv y ∧ (val acc, val y) = ((a : ZMod P), (b : ZMod P)) :=
    ⟨new a, new b, rfl, new_inv a ha, new_inv b hb, by rw [val_new a ha, val_new b hb]⟩
  generalize (some (Model.F62.impl.new a, Model.F62.impl.new b) : Option (Nat × Nat)) = st at h0
  generalize (((a : ZMod P), (b : ZMod P)) : ZMod P × ZMod P) = sp at h0 ⊢
  induction ops generalizing st sp with
  | nil => simpa using h0
  | cons op ops ih =>
    obtain ⟨acc, y, rfl, hi1, hi2, hv⟩ := h0
    obtain ⟨acc', y', hs, hj1, hj2, hv'⟩ := seq_step acc y op hi1 hi2
    rw [List.foldl_cons, List.foldl_cons, hs]
    apply ih
    exact ⟨acc', y', rfl, hj1, hj2, by rw [hv', hv]⟩

/-- non-vacuity: concrete raw words satisfy the invariant -/
example : Inv (new 5) ∧ Inv (new (2 ^ 64 - 1)) := ⟨new_inv 5 (by norm_num), new_inv _ (by norm_num)⟩

end F62

end WinterProofs.C07
