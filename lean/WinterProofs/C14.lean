-- C14: multi-threaded execution produces the same results as single-threaded (property theorems).
-- Model: Winter/Model/Parallel.lean — the partition / commutation model of the `concurrent` code paths, tied to the
-- code by ./check C14 (harness/src/bin/c14.rs: the same binary built with and without `concurrent`, results compared
-- byte-for-byte; the observable partitions compared with this model).  Helper lemmas: WinterProofs/Lemmas/C14*.lean.
--
-- NAMED GAP "runtime scheduling": the model executes tasks as sequences of atomic steps under an arbitrary
-- interleaving.  It cannot exhibit data races in the language memory model through the aliased `&mut` slices /
-- raw pointers of `permute` and `build_merkle_nodes`, rayon's scheduler itself, or WHICH valid nonce
-- `find_any` returns in `grind_query_seed` (the nonce and the query data selected through it are exempt by the
-- property's own statement).
import WinterProofs.Lemmas.C14Sched
import WinterProofs.Lemmas.C14Arith
import WinterProofs.Lemmas.C14Permute
import WinterProofs.Lemmas.C14Merkle
import WinterProofs.Lemmas.C14MerkleRun
import WinterProofs.Lemmas.C14Series
import WinterProofs.Lemmas.C14Split

namespace WinterProofs.C14
open Model.Parallel
open Model.Fft (brev permuteIndex isPow2)

/-! ## (1) commutation: every interleaving of non-interfering tasks = the sequential order -/

/-- tasks whose steps have footprints (read set, write set) such that steps of DIFFERENT tasks do not interfere
    (neither writes what the other reads or writes): EVERY schedule — every interleaving of the tasks' step lists
    that keeps each task's own order — produces the array of the sequential order `tasks.flatten` -/
theorem any_schedule_eq_sequential {α : Type} (tasks : List (List (Step α))) (R W : Step α → Nat → Prop)
    (hfp : ∀ st ∈ tasks.flatten, Footprint st (R st) (W st))
    (hni : ∀ a ∈ tasks.flatten, ∀ b ∈ tasks.flatten, a.task ≠ b.task → NonInterfering (R a) (W a) (R b) (W b))
    (sched : List (Step α)) (hs : IsSchedule tasks sched) (s : Nat → α) :
    runAll sched s = runAll tasks.flatten s :=
  schedule_eq_sequential tasks sched s hs
    (fun a ha b hb hne s => commute_of_nonInterfering a b _ _ _ _ (hfp a ha) (hfp b hb) (hni a ha b hb hne) s)

/-- the form used for the routines of the repository: every task `t` owns a write set `TW t`, the write sets are
    pairwise disjoint, `I` (the immutable inputs) is written by nobody, and every step of task `t` writes inside
    `TW t` and reads only inputs and `TW t` (its own earlier writes) -/
theorem disjoint_writes_any_schedule {α : Type} (tasks : List (List (Step α))) (R W : Step α → Nat → Prop)
    (I : Nat → Prop) (TW : Nat → Nat → Prop)
    (hfp : ∀ st ∈ tasks.flatten, Footprint st (R st) (W st))
    (hdisj : ∀ t u i, t ≠ u → TW t i → ¬ TW u i)
    (hin : ∀ t i, I i → ¬ TW t i)
    (hW : ∀ st ∈ tasks.flatten, ∀ i, W st i → TW st.task i)
    (hR : ∀ st ∈ tasks.flatten, ∀ i, R st i → I i ∨ TW st.task i)
    (sched : List (Step α)) (hs : IsSchedule tasks sched) (s : Nat → α) :
    runAll sched s = runAll tasks.flatten s := by
  apply any_schedule_eq_sequential tasks R W hfp _ sched hs s
  intro a ha b hb hne
  constructor
  · intro i hi
    have hwa := hW a ha i hi
    refine ⟨fun hr => ?_, fun hw => hdisj _ _ i hne hwa (hW b hb i hw)⟩
    rcases hR b hb i hr with h | h
    · exact hin _ i h hwa
    · exact hdisj _ _ i hne hwa h
  · intro i hi
    have hwb := hW b hb i hi
    refine ⟨fun hr => ?_, fun hw => hdisj _ _ i hne (hW a ha i hw) hwb⟩
    rcases hR a ha i hr with h | h
    · exact hin _ i h hwb
    · exact hdisj _ _ i (Ne.symm hne) hwb h

/-- … in particular EVERY permutation of whole tasks (execution orders at task granularity; different tasks carry
    different task numbers) -/
theorem any_task_permutation_eq_sequential {α : Type} (tasks tasks' : List (List (Step α))) (hperm : tasks.Perm tasks')
    (hdist : tasks.Pairwise (fun l l' => ∀ a ∈ l, ∀ b ∈ l', a.task ≠ b.task)) (R W : Step α → Nat → Prop)
    (hfp : ∀ st ∈ tasks.flatten, Footprint st (R st) (W st))
    (hni : ∀ a ∈ tasks.flatten, ∀ b ∈ tasks.flatten, a.task ≠ b.task → NonInterfering (R a) (W a) (R b) (W b))
    (s : Nat → α) : runAll tasks'.flatten s = runAll tasks.flatten s :=
  any_schedule_eq_sequential tasks R W hfp hni _ (perm_tasks_isSchedule tasks tasks' hperm hdist) s

/-- a concrete instance of the hypotheses: two tasks of two steps each on a 4-element array (task 0 fills 0 and 1
    from the input cell 9, task 1 fills 2 and then 3 from its own earlier write), interleaved 1,0,1,0 -/
example :
    let t0a : Step Nat := ⟨0, fun s => setAt s 0 (s 9 + 1)⟩
    let t0b : Step Nat := ⟨0, fun s => setAt s 1 (s 9 + 2)⟩
    let t1a : Step Nat := ⟨1, fun s => setAt s 2 (s 9 * 2)⟩
    let t1b : Step Nat := ⟨1, fun s => setAt s 3 (s 2 + 5)⟩
    IsSchedule [[t0a, t0b], [t1a, t1b]] [t1a, t0a, t1b, t0b] ∧
      ∀ i, i < 4 → runAll [t1a, t0a, t1b, t0b] (fun _ => 7) i = runAll [t0a, t0b, t1a, t1b] (fun _ => 7) i := by
  refine ⟨⟨rfl, ?_⟩, by decide⟩
  intro t
  by_cases h0 : t = 0
  · subst h0; rfl
  · by_cases h1 : t = 1
    · subst h1; rfl
    · have e0 : ((0 : Nat) == t) = false := by simpa using fun h => h0 h.symm
      have e1 : ((1 : Nat) == t) = false := by simpa using fun h => h1 h.symm
      simp [stepsOf, e0, e1]

/-! ## (2) the index sets of every routine: disjoint ∧ covering ∧ within bounds, all lengths, all thread counts -/

/-- `batch_iter_mut!` (both forms) — see `batchIterMut_partition` -/
theorem batch_iter_mut_partitions (len : Nat) (min : Option Nat) (threads : Nat) (hmin : min ≠ some 0) :
    ∃ l, batchIterMut len min threads = some l ∧ Partition l len ∧
      ∀ i (h : i < l.length), (l[i]).1 = i * (len / nextPow2 threads) :=
  batchIterMut_partition len min threads hmin

/-- `par_chunks_mut(size)` / `chunks_mut(size)` for every length and every `size ≥ 1` (rows of `split_radix_fft`,
    cosets of `evaluate_poly_with_offset`, `clone_and_shift`, the scaling of `interpolate_poly_with_offset`, …) -/
theorem par_chunks_partition (len size : Nat) (hs : 0 < size) :
    ∃ l, chunks len size = some l ∧ Partition l len ∧ l.length = numChunks len size ∧
      (∀ i (h : i < l.length), l[i] = (i * size, min size (len - i * size))) ∧ (∀ p ∈ l, 0 < p.2) :=
  chunks_partition len size hs

/-- the fragments of the constraint evaluation table, for every domain `2^a ≥ 16` and every thread count -/
theorem constraint_fragments_partition (a threads : Nat) (ha : 4 ≤ a) :
    ∃ l, evalFragments (2 ^ a) (numFragments (2 ^ a) threads) = some l ∧ Partition l (2 ^ a) ∧
      l.length = numFragments (2 ^ a) threads ∧
      ∀ i (h : i < l.length), l[i] = (i * (2 ^ a / l.length), 2 ^ a / l.length) :=
  evaluator_fragments_partition a threads ha

/-- the fragments of `TraceTable::fragments` -/
theorem trace_fragments_partition (a b : Nat) (ha : 3 ≤ a) (hb1 : 1 ≤ b) (hb : b ≤ a) :
    traceFragments (2 ^ a) (2 ^ b) = some ((List.range (2 ^ (a - b))).map (fun i => (i, i * 2 ^ b, 2 ^ b))) ∧
    Partition ((List.range (2 ^ (a - b))).map (fun i => (i * 2 ^ b, 2 ^ b))) (2 ^ a) :=
  ⟨traceFragments_eq a b ha hb1 hb, traceFragments_partition a b hb⟩

/-- the alignment `acc_column` relies on: the slice has `2^e` elements, the divisor period is `2^c`, and the minimum
    batch size `m` handed to `batch_iter_mut!` is at least the period — then, for EVERY thread count, every batch starts
    at a multiple of the period (so the batch-local index `i % z.len()` is the global one) -/
theorem acc_column_batches_aligned (e c m threads : Nat) (hm : 2 ^ c ≤ m) :
    ∃ l, batchIterMut (2 ^ e) (some m) threads = some l ∧ ∀ p ∈ l, p.1 % 2 ^ c = 0 := by
  have hc := Nat.two_pow_pos c
  have hm0 : (some m : Option Nat) ≠ some 0 := by
    intro h; have : m = 0 := Option.some.inj h; omega
  obtain ⟨l, h1, _, h3⟩ := batchIterMut_partition (2 ^ e) (some m) threads hm0
  refine ⟨l, h1, ?_⟩
  intro p hp
  obtain ⟨i, hi, rfl⟩ := List.getElem_of_mem hp
  rw [h3 i hi]
  obtain ⟨b, hb⟩ := nextPow2_isPow threads
  rw [hb]
  -- either one batch (offset 0) or batch size 2^(e-b) ≥ m ≥ 2^c
  by_cases hlt : 2 ^ e / 2 ^ b < m
  · have : l = [(0, 2 ^ e)] := by
      have h1' := h1
      simp only [batchIterMut, hb, Option.getD, hlt, ↓reduceIte] at h1'
      exact (Option.some.inj h1').symm
    subst this
    have : i = 0 := by simpa using hi
    subst this; simp
  · have hbe : b ≤ e := by
      rcases Nat.lt_or_ge e b with h | h
      · have : 2 ^ e / 2 ^ b = 0 := Nat.div_eq_of_lt (Nat.pow_lt_pow_right (by decide) h)
        omega
      · exact h
    rw [two_pow_div e b hbe] at hlt ⊢
    have hce : c ≤ e - b := by
      rcases Nat.lt_or_ge (e - b) c with h | h
      · have : 2 ^ (e - b) < 2 ^ c := Nat.pow_lt_pow_right (by decide) h
        omega
      · exact h
    have hd : 2 ^ (e - b) = 2 ^ c * 2 ^ (e - b - c) := by rw [← Nat.pow_add]; congr 1; omega
    rw [hd, ← Nat.mul_assoc, Nat.mul_comm i, Nat.mul_assoc]
    exact Nat.mul_mod_right _ _

/-- a minimum below the period is NOT enough: 256 constraint-evaluation rows (8 trace rows, blowup 32), minimum 16
    (`MIN_FRAGMENT_SIZE`) instead of 128, 16 threads — the second batch starts at row 16, inside a period of 32 -/
theorem acc_column_min_below_period_fails :
    ∃ l, batchIterMut 256 (some 16) 16 = some l ∧ ∃ p ∈ l, p.1 % 32 ≠ 0 :=
  ⟨_, rfl, (16, 16), by decide, by decide⟩

/-- with the code's minimum of 128 the same input is one batch -/
example : batchIterMut 256 (some 128) 16 = some [(0, 256)] := by decide
/-- `acc_column` (transition divisor branch) indexes the inverse divisor evaluations with the batch-local index,
    `z[i % z.len()]`, although `z` is periodic in the GLOBAL row index `batch_offset + i`. Whenever batches are used
    (`batch_size = 2^e / 2^b ≥ 128`, the macro's minimum) every batch offset `k * batch_size` is a multiple of
    `z.len() = 2^c` (the constraint-evaluation blowup, at most 128 = the largest blowup factor `ProofOptions` accepts),
    so both indexes agree -/
theorem acc_column_local_index (e b c k i : Nat) (hb : b ≤ e) (hmin : 128 ≤ 2 ^ (e - b)) (hc : c ≤ 7) :
    (k * 2 ^ (e - b) + i) % 2 ^ c = i % 2 ^ c := by
  have h7 : 7 ≤ e - b := by
    rcases Nat.lt_or_ge (e - b) 7 with h | h
    · have : 2 ^ (e - b) < 2 ^ 7 := Nat.pow_lt_pow_right (by decide) h
      omega
    · exact h
  have hd : 2 ^ (e - b) = 2 ^ c * 2 ^ (e - b - c) := by rw [← Nat.pow_add]; congr 1; omega
  rw [hd, ← Nat.mul_assoc, Nat.mul_comm k, Nat.mul_assoc, Nat.add_comm, Nat.add_mul_mod_self_left]
/-- the batches of the row-matrix transposition hold whole rows and account for all rows -/
theorem transpose_batches_whole_rows (a numSegs threads : Nat) :
    let r := transposeBatches (2 ^ a) numSegs threads
    1 ≤ r.2 ∧ r.1 * r.2 = 2 ^ a ∧ 2 ^ a * numSegs / r.1 = r.2 * numSegs :=
  transposeBatches_exact a numSegs threads

/-- index `i` lies in batch number `t` of the list -/
def InBatch (l : List (Nat × Nat)) (t i : Nat) : Prop := ∃ p, l[t]? = some p ∧ p.1 ≤ i ∧ i < p.1 + p.2

theorem inBatch_disjoint (l : List (Nat × Nat)) (len : Nat) (hp : Partition l len) (t u i : Nat) (hne : t ≠ u)
    (ht : InBatch l t i) : ¬ InBatch l u i := by
  rintro ⟨q, hq, hq1, hq2⟩
  obtain ⟨p, hp', hp1, hp2⟩ := ht
  have hpw := List.pairwise_iff_getElem.mp hp.disjoint
  obtain ⟨ht', rfl⟩ := List.getElem?_eq_some_iff.mp hp'
  obtain ⟨hu', rfl⟩ := List.getElem?_eq_some_iff.mp hq
  rcases Nat.lt_or_gt_of_ne hne with h | h
  · have := hpw t u ht' hu' h; omega
  · have := hpw u t hu' ht' h; omega

/-- (1)+(2) for every chunked routine (`batch_iter_mut!`, `par_chunks_mut` rows, fragments): tasks numbered like the
    batches of a partition, task `t` writing only inside batch `t` and reading only inputs (indexes outside the
    slice) and batch `t` — EVERY interleaving computes the state of the sequential order -/
theorem chunked_tasks_any_schedule {α : Type} (l : List (Nat × Nat)) (len : Nat) (hp : Partition l len)
    (tasks : List (List (Step α))) (R W : Step α → Nat → Prop)
    (hfp : ∀ st ∈ tasks.flatten, Footprint st (R st) (W st))
    (hW : ∀ st ∈ tasks.flatten, ∀ i, W st i → InBatch l st.task i)
    (hR : ∀ st ∈ tasks.flatten, ∀ i, R st i → len ≤ i ∨ InBatch l st.task i)
    (sched : List (Step α)) (hs : IsSchedule tasks sched) (s : Nat → α) :
    runAll sched s = runAll tasks.flatten s := by
  apply disjoint_writes_any_schedule tasks R W (fun i => len ≤ i) (InBatch l) hfp
    (fun t u i hne h => inBatch_disjoint l len hp t u i hne h) ?_ hW hR sched hs s
  rintro t i hi ⟨p, hp', _, hp2⟩
  have := hp.bounds p (List.mem_of_getElem? hp')
  omega
/-- concurrent `permute` (math/src/fft/concurrent.rs: `factor = 1`; prover/src/matrix/segments.rs: `factor = 2`) on
    `2^k` elements, EVERY thread count: the task ranges `[b*bs, (b+1)*bs)` partition `[0, 2^k)` … -/
theorem permute_ranges_partition (k t f e : Nat) (hf : f = 2 ^ e) :
    Partition ((List.range (permuteNumTasks (2 ^ k) t f)).map (permuteTaskRange (2 ^ k) t f)) (2 ^ k) := by
  obtain ⟨c, hck, hc⟩ := permuteNumTasks_pow k t f e hf
  obtain ⟨l, h1, h2, h3, h4⟩ := chunks_exact (2 ^ (k - c)) (2 ^ c) (Nat.two_pow_pos _)
  have hs : 2 ^ c * 2 ^ (k - c) = 2 ^ k := two_pow_split k c hck
  rw [hs] at h2
  have : l = (List.range (permuteNumTasks (2 ^ k) t f)).map (permuteTaskRange (2 ^ k) t f) := by
    apply List.ext_getElem
    · simp [h3, hc]
    · intro i hi1 hi2
      rw [h4 i hi1]
      simp [permuteTaskRange, hc, two_pow_div k c hck]
  rw [← this]; exact h2

/-- … and EVERY interleaving of the spawned tasks (swap pairs are owned by the smaller index, so distinct steps touch
    disjoint pairs) leaves the array the serial loop `for i in 0..n` leaves — C09 (`permute_is_bit_reversal`) says
    which: the bit-reversal permutation -/
theorem permute_every_schedule_eq_serial {α : Type} (k t f e : Nat) (hk : k ≤ 64) (hf : f = 2 ^ e)
    (sched : List (Step α)) (hs : IsSchedule (permuteTasks (2 ^ k) t f) sched) (s : Nat → α) :
    runAll sched s = runAll (permuteSerial (2 ^ k)) s :=
  permute_any_schedule k t f e hk hf sched hs s

example : (List.range (permuteNumTasks 16 3 1)).map (permuteTaskRange 16 3 1) = [(0, 4), (4, 4), (8, 4), (12, 4)] := by
  decide
/-- before the repairs 0762024 / 19ab2fa the number of tasks was not capped by `n`: `1024 / next_power_of_two(1500)
    = 0` indexes per task, nothing was permuted -/
example : 1024 / nextPow2 1500 = 0 ∧ permuteTaskRange 1024 1500 1 1023 = (1023, 1) := by decide

/-- concurrent `build_merkle_nodes` on `n = 2^a` parent-of-leaf nodes with `S = 2^b < n` sub-trees (`b < a ≤ b + 64`):
    task `i` writes exactly the nodes of the sub-tree below node `S + i` (the nodes whose ancestor `d < a - b` rows up
    is `S + i`), in the closed form of its loop -/
theorem merkle_task_writes_subtree (a b i k : Nat) (hb : b < a) (ha : a - b ≤ 64) (hi : i < 2 ^ b) :
    merkleTaskLevels (2 ^ a) (2 ^ b) i
        = (List.range (a - b)).map (fun j => ((2 ^ b + i) * 2 ^ (a - b - 1 - j), 2 ^ (a - b - 1 - j))) ∧
    (k ∈ merkleTaskWrites (2 ^ a) (2 ^ b) i ↔ InSubtree (2 ^ b) (a - b) i k) :=
  ⟨merkleTaskLevels_closed a b i hb ha hi, mem_merkleTaskWrites a b i k hb ha hi⟩

/-- the sub-trees are pairwise DISJOINT and COVER the nodes `[S, n)`: every such node has exactly one owner -/
theorem merkle_subtrees_partition (a b k : Nat) (hb : b < a) (hk1 : 2 ^ b ≤ k) (hk2 : k < 2 ^ a) :
    ∃ i, i < 2 ^ b ∧ InSubtree (2 ^ b) (a - b) i k ∧
      ∀ i', i' < 2 ^ b → InSubtree (2 ^ b) (a - b) i' k → i' = i :=
  subtree_owner_unique a b k hb hk1 hk2

/-- each task's DEPENDENCIES lie in its own earlier writes or in the first row: the children of a node of sub-tree
    `i` are nodes of sub-tree `i` one row further down (the previous loop iteration), and the children of its lowest
    row `[n/2, n)` are first-row nodes `[n, 2n)`, complete before the tasks are spawned -/
theorem merkle_task_dependencies (a b i k d : Nat) (hb : b < a) (hi : i < 2 ^ b) (hd : d < a - b)
    (hk : k / 2 ^ d = 2 ^ b + i) :
    (d + 1 < a - b → InSubtree (2 ^ b) (a - b) i (2 * k) ∧ InSubtree (2 ^ b) (a - b) i (2 * k + 1)) ∧
    (d + 1 = a - b → 2 ^ a ≤ 2 * k ∧ 2 * k + 1 < 2 * 2 ^ a) := by
  refine ⟨fun h => subtree_children _ _ i k d h hk, fun h => ?_⟩
  have : d = a - b - 1 := by omega
  subst this
  exact subtree_bottom_children a b i k hb hi hk

/-- the tip is finished after the scope, `S-1, …, 1` in this order: the children of a tip node are tip nodes with a
    larger index (finished before it) or sub-tree roots `[S, 2S)`; with `S = n` (as many sub-trees as nodes, the cap of
    repair 4f9ccf9) the tasks write nothing and the tip is the whole serial loop -/
theorem merkle_tip (S : Nat) :
    ((∀ k, k ∈ merkleTip S ↔ 1 ≤ k ∧ k < S) ∧ (merkleTip S).Pairwise (fun x y => y < x)) ∧
    (∀ k, 1 ≤ k → k < S → (k < 2 * k ∧ k < 2 * k + 1) ∧ 2 * k + 1 < 2 * S) ∧
    (∀ a i, merkleTaskLevels (2 ^ a) (2 ^ a) i = []) :=
  ⟨merkleTip_spec S, fun k h1 h2 => tip_children S k h1 h2, merkleTaskLevels_full⟩

/-- the number of sub-trees the code uses is such a power of two, for every thread count -/
theorem merkle_subtrees_pow (a threads : Nat) : ∃ b, b ≤ a ∧ merkleSubtrees (2 ^ a) threads = 2 ^ b := by
  obtain ⟨c, hc⟩ := nextPow2_isPow threads
  exact ⟨min c a, Nat.min_le_right _ _, by unfold merkleSubtrees; rw [hc, min_two_pow]⟩

/-- concurrent `build_merkle_nodes` on `2^a` first-row nodes (`2^(a+1)` leaves, `a ≤ 64`), EVERY thread count:
    every interleaving of the first-row loop, then every interleaving of the spawned sub-tree tasks, then the tip
    leaves in EVERY node exactly what the serial `build_merkle_nodes` leaves there, and that is the Merkle tree over
    the leaves (`merge` is any function: no property of the hash is used) -/
theorem merkle_every_schedule_eq_serial {α : Type} (merge : α → α → α) (a threads : Nat) (ha : a ≤ 64)
    (sched1 sched2 : List (Step α)) (h1 : IsSchedule (merkleFirstRow merge (2 ^ a)) sched1)
    (h2 : IsSchedule (merkleTasks merge (2 ^ a) (merkleSubtrees (2 ^ a) threads)) sched2) (s0 : Nat → α) :
    (∀ k, runAll (sched1 ++ (sched2 ++ merkleTipSteps merge (merkleSubtrees (2 ^ a) threads))) s0 k
        = runAll (merkleSerial merge (2 ^ a)) s0 k) ∧
      IsTree merge (2 ^ a) s0 (runAll (merkleSerial merge (2 ^ a)) s0) := by
  obtain ⟨b, hb, hS⟩ := merkle_subtrees_pow a threads
  rw [hS] at h2 ⊢
  exact merkle_any_schedule_eq_serial merge a b hb (by omega) sched1 sched2 h1 h2 s0

example : merkleTaskLevels 1024 4 1 = [(640, 128), (320, 64), (160, 32), (80, 16), (40, 8), (20, 4), (10, 2), (5, 1)] ∧
    merkleTip 4 = [3, 2, 1] := by decide

/-! ## (3) chunked power series / batch inversion / shift series = the serial results, over any field -/

section field
variable {F : Type} [Field F] [DecidableEq F]

/-- `get_power_series(_with_offset)` with `concurrent` (every batch of `batch_iter_mut!` starts at `s * b.exp(offset)`)
    returns the serial series `s, s·b, s·b², …` value for value — for EVERY length, minimum ≥ 1 and thread count -/
theorem power_series_chunked_eq_serial (b s : F) (n : Nat) (min : Option Nat) (threads : Nat) (hmin : min ≠ some 0) :
    ∃ l, batchIterMut n min threads = some l ∧
      powerSeriesBatched (fieldOps F) b s l = powerSeriesSerial (fieldOps F) b s n ∧
      powerSeriesSerial (fieldOps F) b s n = (List.range n).map (fun i => s * b ^ i) := by
  obtain ⟨l, h1, h2⟩ := batchIterMut_tiles n min threads hmin
  exact ⟨l, h1, powerSeriesBatched_eq b s l n h2, powerSeriesSerial_eq b s n⟩

/-- `batch_inversion` with `concurrent` (every batch inverts its own slice, zeros stay zero) returns the serial
    result: the inverse of every non-zero value, zero for zero -/
theorem batch_inversion_chunked_eq_serial (vs : List F) (min : Option Nat) (threads : Nat) (hmin : min ≠ some 0) :
    ∃ l, batchIterMut vs.length min threads = some l ∧
      batchInversionBatched (fieldOps F) vs l = serialBatchInversion (fieldOps F) vs ∧
      serialBatchInversion (fieldOps F) vs = vs.map (·⁻¹) := by
  obtain ⟨l, h1, h2⟩ := batchIterMut_tiles vs.length min threads hmin
  exact ⟨l, h1, batchInversionBatched_eq vs l h2, serialBatchInversion_eq vs⟩

/-- `clone_and_shift` / the scaling loop of `interpolate_poly_with_offset` (`par_chunks(batch_size)`, the batch at
    `off` started at `c * offset.exp(off)`): the same values as one serial pass from `c`, for every chunk size ≥ 1 -/
theorem shift_chunked_eq_serial (d c : F) (vs : List F) (size : Nat) (hs : 0 < size) :
    ∃ l, chunks vs.length size = some l ∧
      shiftBatched (fieldOps F) d c vs l = shiftBatch (fieldOps F) d c vs 0 := by
  obtain ⟨l, h1, h2⟩ := chunks_tiles vs.length size hs
  refine ⟨l, h1, ?_⟩
  rw [shiftBatched_eq d c vs l 0 vs.length h2 (Nat.le_refl _)]
  simp

example : powerSeriesBatched (fieldOps ℚ) 2 3 [(0, 2), (2, 2), (4, 1)] = [3, 6, 12, 24, 48] := by
  simp [powerSeriesBatched, fillSeries, powF, fieldOps]; norm_num
end field

/-! ## (4) `split_radix_fft` = `fft`, given C09 -/

section fft
variable {R : Type} [CommRing R] {M : Type} [AddCommGroup M] [Module R M]

/-- `split_radix_fft` on `2^k` values (transpose, `inner` row transforms, transpose, twiddle scaling by
    `g^(permute_index(inner, i) · q)` and `outer` row transforms) returns at position `m` the evaluation at
    `ω ^ brev k m` — the bit-reversed DFT the serial `fft_in_place` returns (C09 `fftRec_is_dft` +
    `fft_in_place_eq_fftRec`) — given that the row transforms are such transforms of sizes `2^(k/2)`, `2^(k - k/2)`
    with roots `ω^outer`, `ω^inner` (NAMED HYPOTHESES `hI`, `hO`: C09's theorem at the two row sizes) and that `ω` is a
    `2^k`-th root of unity.  The rows of both loops are the chunks of `par_chunks_mut(outer)` (`par_chunks_partition`),
    each row transform reads and writes only its own row. -/
theorem split_radix_fft_eq_fft (fftI fftO : (Nat → M) → Nat → M) (ω : R) (k : Nat) (hω : ω ^ 2 ^ k = 1)
    (hI : IsBitRevDft fftI (ω ^ 2 ^ (k - k / 2)) (k / 2))
    (hO : IsBitRevDft fftO (ω ^ 2 ^ (k / 2)) (k - k / 2))
    (x : Nat → M) (m : Nat) (hm : m < 2 ^ k) :
    splitRadix fftI fftO (fun e v => ω ^ e • v) k x m = ∑ j ∈ Finset.range (2 ^ k), (ω ^ brev k m) ^ j • x j :=
  splitRadix_is_dft fftI fftO ω k hω hI hO x m hm

/-- the hypotheses are satisfiable: the direct evaluation itself is such a row transform -/
example (ρ : R) (k : Nat) :
    IsBitRevDft (M := M) (fun y m => ∑ j ∈ Finset.range (2 ^ k), (ρ ^ brev k m) ^ j • y j) ρ k :=
  fun _ _ _ => rfl
end fft

end WinterProofs.C14
