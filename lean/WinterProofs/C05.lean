-- C05: FRI soundness — what acceptance by the verifier implies (property theorems).
--
-- The verifier model is `Model.Fri.verify` (Winter/Model/Fri.lean): `FriVerifier::new` followed by
-- `FriVerifier::verify`, as a pure function of the options, the commitments, the α's drawn for them, the layer
-- openings (Merkle verification abstracted to a flag per layer), the remainder, the query positions and the claimed
-- evaluations.  `verify F true …` is the repaired verifier (fix 21c4b77: the remainder is compared with its
-- commitment), `verify F false …` the verifier of the pinned tree.
--
-- Proved here (decision theorems, all inputs, no size bound):
--   (i)   accept ⇒ the degree bound is divisible by the folding factor at every layer (no DegreeTruncation);
--   (ii)  accept ⇒ at every layer the opened rows are the committed ones (flag), the values carried from the
--         previous layer are the opened values at the queried positions, and the values carried to the next
--         layer are the row interpolants at the layer's challenge (folding consistency, `Chain`);
--   (iii) accept ⇒ the remainder has at most max_degree_plus_1 coefficients, agrees with the last folded values
--         at all folded positions, and its hash is the commitment that follows the layer commitments; with an
--         injective hash it IS the committed remainder.  On the model of the pinned tree the last part fails:
--         witness `pinned_verifier_accepts_uncommitted_remainder`.
--   Algebraic lemma: a polynomial of degree > bound, folded honestly, has a last layer that is not the evaluation
--         of any polynomial with ≤ the allowed number of coefficients unless some α_i is a root of a fixed
--         non-zero polynomial of degree < N of its layer (`over_degree_honest_folding_rejected`).
-- NOT claimed: "every function far from low degree is rejected" is a probability statement over α and the query
--         positions (the soundness error of FRI); no theorem here bounds that probability (see the end of the file).
import WinterProofs.Lemmas.C05Decision
import WinterProofs.Lemmas.C05Degree
import WinterProofs.Lemmas.C05Model

namespace WinterProofs.C05
open Model.Fri

variable {α D : Type}

/-! ## (i) degree bookkeeping -/

/-- `FriVerifier::new` raises no `DegreeTruncation`: the bound is divisible by the folding factor at every
    commitment but the last -/
theorem newChecks_none (N total : Nat) :
    ∀ (k depth m : Nat), newChecks N total k depth m = none →
      ∀ j, j < k → depth + j ≠ total - 1 → (m / N ^ j) % N = 0
  | 0, _, _, _, j, hj, _ => absurd hj (Nat.not_lt_zero j)
  | k + 1, depth, m, h, j, hj, hne => by
    simp only [newChecks] at h
    split at h
    · exact absurd h (by simp)
    · rename_i hcond
      cases j with
      | zero =>
        simp only [Nat.add_zero] at hne
        simp only [Nat.pow_zero, Nat.div_one]
        by_cases hm : m % N = 0
        · exact hm
        · exact absurd ⟨hne, hm⟩ hcond
      | succ j =>
        have := newChecks_none N total k (depth + 1) (m / N) h j (by omega) (by omega)
        rw [Nat.div_div_eq_div_mul] at this
        rw [Nat.pow_succ, Nat.mul_comm]
        exact this

/-- (i) acceptance implies that the claimed degree bound (plus one) is divisible by the folding factor at every
    layer that is folded, i.e. no degree truncation happens anywhere -/
theorem accept_degree_bookkeeping (F : FOps α) [BEq D] (cc : Bool) (hashRem : List α → D) (o : Opts)
    (inp : VInput α D) (h : verify F cc hashRem o inp = .ok ()) :
    ∀ d, d < numFriLayers o (nextPow2 (inp.maxPolyDegree + 1) * o.blowup) →
      ((inp.maxPolyDegree + 1) / o.folding ^ d) % o.folding = 0 := by
  obtain ⟨_, _, stL, hchain, _⟩ := verify_ok F cc hashRem o inp h
  exact (Chain.maxDeg F o.folding inp _ hchain).2.2

/-! ## (ii) folding consistency -/

/-- (ii) acceptance implies a chain of layer iterations each of which satisfied `LayerOk`: Merkle flag true (the
    opened rows are the committed ones), one row per folded position, the carried values equal the opened values
    at the queried positions, and the next carried values are the row interpolants at the layer's α -/
theorem accept_folding_consistent (F : FOps α) [BEq D] (cc : Bool) (hashRem : List α → D) (o : Opts)
    (inp : VInput α D) (h : verify F cc hashRem o inp = .ok ()) :
    ∃ stL, Chain F o.folding inp (foldingRoots F o inp)
      (numFriLayers o (nextPow2 (inp.maxPolyDegree + 1) * o.blowup)) 0 (initState F o inp) stL := by
  obtain ⟨_, _, stL, hchain, _⟩ := verify_ok F cc hashRem o inp h
  exact ⟨stL, hchain⟩

/-- what two consecutive successful iterations say together: the values opened in layer `d+1` at the folded
    positions are the interpolants at `α_d` of the rows opened in layer `d` -/
theorem folding_step (F : FOps α) (N : Nat) (inp : VInput α D) (roots : List α) (d : Nat)
    (st st1 st2 : VState α) (h1 : LayerOk F N inp roots d st st1) (h2 : LayerOk F N inp roots (d + 1) st1 st2) :
    ∃ folded rows alpha folded' rows' qv,
      foldPositions st.positions st.domainSize N = some folded ∧
      (inp.layers[d]?).map (·.rows) = some rows ∧ inp.alphas[d]? = some alpha ∧
      foldPositions folded (st.domainSize / N) N = some folded' ∧
      (inp.layers[d + 1]?).map (·.rows) = some rows' ∧
      getQueryValues rows' folded folded' (st.domainSize / N) N = some qv ∧
      beqList F ((folded.zip rows).map fun (i, row) =>
        lagrangeEval F (rowPoints F roots st.domainGen i) row alpha) qv = true := by
  obtain ⟨folded, opening, alpha, _, hf, ho, ha, _, _, _, _, _, _, hst⟩ := h1
  obtain ⟨folded', opening', _, qv', hf', ho', _, _, _, _, hq', hb', _, _⟩ := h2
  subst hst
  exact ⟨folded, opening.rows, alpha, folded', opening'.rows, qv', hf, by simp [ho], ha, hf', by simp [ho'],
    hq', hb'⟩

/-! ## (iii) the remainder -/

/-- (iii) acceptance by the repaired verifier implies: the hash of the remainder is the commitment that follows
    the layer commitments, the remainder has at most `max_degree_plus_1` coefficients (the bound divided by
    `N^layers`), and it agrees with the last folded values at all folded positions -/
theorem accept_remainder (F : FOps α) [BEq D] (hashRem : List α → D) (o : Opts) (inp : VInput α D)
    (h : verify F true hashRem o inp = .ok ()) :
    let L := numFriLayers o (nextPow2 (inp.maxPolyDegree + 1) * o.blowup)
    remainderCommitted hashRem inp L = true ∧
    inp.remainder.length ≤ (inp.maxPolyDegree + 1) / o.folding ^ L ∧
    ∃ stL, Chain F o.folding inp (foldingRoots F o inp) L 0 (initState F o inp) stL ∧
      ∀ pe ∈ stL.positions.zip stL.evals,
        F.beq (horner F inp.remainder (F.mul F.offset (pow F stL.domainGen pe.1))) pe.2 = true := by
  obtain ⟨_, _, stL, hchain, hrem⟩ := verify_ok F true hashRem o inp h
  obtain ⟨h1, h2, h3⟩ := verifyRemainder_ok F hashRem inp _ stL hrem
  have hm := (Chain.maxDeg F o.folding inp _ hchain).1
  refine ⟨h1, ?_, stL, hchain, h3⟩
  rw [hm] at h2
  exact h2

/-- with a lawful equality on digests and an injective hash, the accepted remainder IS the committed one -/
theorem accept_remainder_is_committed (F : FOps α) [BEq D] [LawfulBEq D] (hashRem : List α → D)
    (hinj : Function.Injective hashRem) (o : Opts) (inp : VInput α D) (committed : List α)
    (hcommit : inp.commitments[numFriLayers o (nextPow2 (inp.maxPolyDegree + 1) * o.blowup)]?
      = some (hashRem committed))
    (h : verify F true hashRem o inp = .ok ()) :
    inp.remainder = committed := by
  have h1 := (accept_remainder F hashRem o inp h).1
  unfold remainderCommitted at h1
  rw [hcommit] at h1
  simp only [beq_iff_eq] at h1
  exact hinj h1

/-- the pinned verifier (no comparison with the commitment) satisfies the other two parts of (iii) only -/
theorem pinned_accept_remainder (F : FOps α) [BEq D] (hashRem : List α → D) (o : Opts) (inp : VInput α D)
    (h : verify F false hashRem o inp = .ok ()) :
    let L := numFriLayers o (nextPow2 (inp.maxPolyDegree + 1) * o.blowup)
    inp.remainder.length ≤ (inp.maxPolyDegree + 1) / o.folding ^ L ∧
    ∃ stL, Chain F o.folding inp (foldingRoots F o inp) L 0 (initState F o inp) stL ∧
      ∀ pe ∈ stL.positions.zip stL.evals,
        F.beq (horner F inp.remainder (F.mul F.offset (pow F stL.domainGen pe.1))) pe.2 = true := by
  obtain ⟨_, _, stL, hchain, hrem⟩ := verify_ok F false hashRem o inp h
  obtain ⟨h2, h3⟩ := verifyRemainder_unrepaired_ok F hashRem inp _ stL hrem
  have hm := (Chain.maxDeg F o.folding inp _ hchain).1
  refine ⟨?_, stL, hchain, h3⟩
  rw [hm] at h2
  exact h2

/-! ### witness: the pinned verifier accepts a remainder that was not committed to -/

/-- the field of 17 elements on naturals (3 generates the multiplicative group) -/
def f17 : FOps Nat where
  zero := 0
  one := 1
  add a b := (a + b) % 17
  sub a b := (a + 17 - b % 17) % 17
  mul a b := (a * b) % 17
  inv a := a ^ 15 % 17
  beq a b := a % 17 == b % 17
  ofNat n := n % 17
  root k := 3 ^ (16 / 2 ^ k) % 17
  rootOk k := k != 0 && decide (k ≤ 4)
  offset := 3

/-- degree bound 3, blowup 2 (domain 8), folding 2, remainder of up to 4 coefficients: no layers.  The prover
    committed to the remainder `5` and, after seeing the query position 1 and the claimed value 7, presents the
    remainder `7`. -/
def witnessInput : VInput Nat (List Nat) where
  maxPolyDegree := 3
  numPartitions := 1
  commitments := [[5, 0, 0, 0]]
  alphas := [1]
  layers := []
  remainder := [7, 0, 0, 0]
  positions := [1]
  evaluations := [7]

def witnessOpts : Opts := ⟨2, 2, 3, Or.inl rfl⟩

/-- on the model of the pinned tree part (iii) is false: the verifier accepts although the remainder is not the
    committed one (found by the harness as `fri.adv.adaptrem.accepted` / `fri.verify.remainder-not-committed`) -/
theorem pinned_verifier_accepts_uncommitted_remainder :
    verify f17 false id witnessOpts witnessInput = .ok () ∧
    remainderCommitted id witnessInput (numFriLayers witnessOpts 8) = false := by
  decide +kernel

/-- the repaired verifier rejects the same input -/
theorem repaired_verifier_rejects_uncommitted_remainder :
    verify f17 true id witnessOpts witnessInput = .err .remainderCommitmentMismatch := by
  decide +kernel

/-! ## the algebraic lemma: honest folding of an over-degree polynomial -/

section algebra
open Polynomial FriAlg
variable {K : Type*} [Field K]

/-- Let `f` have degree `≥ N^L · m` (above the bound `N^L·m − 1`), let the layers be folded honestly with the
    challenges `αs` (each layer re-read over the same offset, `c = offset^(N-1) ≠ 0`), and let no `α_i` be a root of
    the lead polynomial of its layer (a fixed non-zero polynomial of degree `< N`: `leadPoly_ne_zero`,
    `natDegree_leadPoly_lt`).  Then the last layer is not the evaluation, over any set of more than
    `deg(last layer)` points, of a polynomial with at most `m` coefficients: no remainder passes on the whole
    last domain. -/
theorem over_degree_honest_folding_rejected {N : ℕ} (hN : 0 < N) {c : K} (hc : c ≠ 0) (αs : List K)
    (f r : K[X]) (m : ℕ) (s : Finset K)
    (hdeg : N ^ αs.length * m ≤ f.natDegree) (hgood : GoodChallenges N c αs f)
    (hs : (foldLayers N c αs f).natDegree < s.card) (hr : r.natDegree < m) :
    ¬ ∀ y ∈ s, (foldLayers N c αs f).eval y = r.eval y :=
  over_degree_rejected hN hc αs f r m s hdeg hgood hs hr

/-- the exceptional challenges of one layer are the roots of one non-zero polynomial of degree `< N` -/
theorem bad_challenges_few {N : ℕ} (hN : 0 < N) (f : K[X]) (hf : f ≠ 0) :
    leadPoly N f ≠ 0 ∧ (leadPoly N f).natDegree < N ∧ Multiset.card (leadPoly N f).roots < N :=
  ⟨leadPoly_ne_zero hN hf, natDegree_leadPoly_lt hN f, card_roots_leadPoly_lt hN f⟩

/-- a polynomial within the bound stays within the bound under honest folding (sanity: the lemma above does not
    reject honest provers) -/
theorem low_degree_honest_folding {N : ℕ} (hN : 0 < N) {c : K} (hc : c ≠ 0) (αs : List K) (f : K[X]) (m : ℕ)
    (hdeg : f.natDegree < N ^ αs.length * m) : (foldLayers N c αs f).natDegree < m :=
  low_degree_foldLayers hN hc αs f m hdeg

example : GoodChallenges 2 (3 : ℚ) [1] (X ^ 5 + 1) := by
  simp only [GoodChallenges, and_true]
  rw [eval_leadPoly]
  have hd : (X ^ 5 + 1 : ℚ[X]).natDegree = 5 := by
    rw [natDegree_add_eq_left_of_natDegree_lt] <;> simp
  simp [hd, coeff_X_pow, coeff_one]
  exact ⟨1, le_refl 1, rfl⟩

end algebra

/-- The algebraic lemma on the model: an honest prover (`buildLayersLoop`, i.e. `apply_drp` layer by layer) run on
    a polynomial of degree above the bound `t·N^L − 1` (and below the domain size: any function on the domain)
    ends, unless some challenge is a root of the lead polynomial of its layer, with a last layer on which EVERY
    remainder of at most `t` coefficients fails the verifier's check `eval_horner(rem, offset·g_L^p) = value` at
    some position `p` of the last domain.  (Whether a query reaches such a position is the probability the
    property's last sentence is about; that probability is not bounded here.) -/
theorem over_degree_honest_folding_model {K : Type} [Field K] [DecidableEq K] (root : ℕ → K) (rootOk : ℕ → Bool)
    (offset : K) (N L t b : ℕ) (hN : 0 < N) (ht : 0 < t) (hb : 0 < b)
    (hsteps : ∀ j, j < L → C15.StepOK root rootOk N (t * b * N ^ (L - j)))
    (hprim : IsPrimitiveRoot (root (Nat.log2 (t * b))) (t * b))
    (hoff : offset ≠ 0) (f : Polynomial K) (hlow : N ^ L * t ≤ f.natDegree)
    (hhigh : f.natDegree < t * b * N ^ L) (αs : List K) (hαs : L ≤ αs.length)
    (hgood : FriAlg.GoodChallenges N (offset ^ (N - 1)) (αs.take L) f)
    (rem : List K) (hrem : rem.length ≤ t) :
    ∃ ls last, buildLayersLoop (C15.fieldOps root rootOk offset) N L αs
        (C15.evalsOf offset (root (Nat.log2 (t * b * N ^ L))) f (t * b * N ^ L)) = .ok (ls, last) ∧
      ∃ p, p < t * b ∧
        horner (C15.fieldOps root rootOk offset) rem (offset * root (Nat.log2 (t * b)) ^ p) ≠ last.getD p 0 :=
  over_degree_last_layer_mismatch root rootOk offset N L t b hN ht hb hsteps hprim hoff f hlow hhigh αs hαs
    hgood rem hrem

/- The full soundness statement of the property — every function that is δ-far from all polynomials of the claimed
   degree is rejected except with probability ε(δ, queries, |F|) over the challenges and the query positions — is a
   statement about a probability space that this development does not model (named gap "soundness error").  The
   harness shows the gap is real and benign: the `lowfold` adversary (commit to a corrupted function, fold the
   low-degree polynomial next to it) is accepted exactly when no queried row meets a corrupted point. -/

end WinterProofs.C05
