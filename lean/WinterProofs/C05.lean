-- C05: FRI soundness: what the verifier's acceptance implies (property theorems)
import Winter.Model.Fri

namespace WinterProofs.C05
open Model.Fri

theorem placeholder_true : True := trivial

end WinterProofs.C05
