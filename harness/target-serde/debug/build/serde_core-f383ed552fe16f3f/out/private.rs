#[doc(hidden)]
pub mod __private229 {
    #[doc(hidden)]
    pub use crate::private::*;
}
