#[doc(hidden)]
pub mod __private229 {
    #[doc(hidden)]
    pub use crate::private::*;
}
use serde_core::__private229 as serde_core_private;
